/- C16 helper lemmas: exactly-once-if-fetched for the attester handler, under `envOK` and `quietOK`. -/
import Ssv.Proofs.DutiesLiveSync
import Ssv.Proofs.DutiesLatestAtt

namespace Ssv.Duties

/-! ### fetching -/

structure AttNextPost (n : Net) (st st' : HState) (m m' : DMon) (E t : Nat) : Prop where
  okeq : m'.ok = m.ok
  covn : st.fetchNext = true → attShouldFetchNext n t = true → Cov .att st' m' (E + 1)
  covo : ∀ K, (K ≠ E + 1 ∨ ¬ (st.fetchNext = true ∧ attShouldFetchNext n t = true)) → Cov .att st m K → Cov .att st' m' K
  keys : ∀ K A, m'.due K = some A → K = E + 1 ∨ m.due K = some A

theorem attNext_post (n : Net) (st : HState) (m : DMon) (E t : Nat) (r : FetchRes) :
    AttNextPost n st (attFetchNextPart n st E t r).1 m (drun .att n m (attFetchNextPart n st E t r).2) E t := by
  have fp := attFetch_post n st m (E + 1) r
  unfold attFetchNextPart
  split
  · rename_i hc
    simp only [Bool.and_eq_true] at hc
    split
    · rename_i st2 o heq
      simp only [heq] at fp
      exact ⟨fp.okeq, fun _ _ => fp.covp.of_store_eq rfl,
        (fun K hK hcv => by
          rcases hK with hK | hK
          · exact (fp.covo K hK hcv).of_store_eq rfl
          · exact absurd hc hK),
        fp.keys⟩
    · rename_i st2 o heq
      simp only [heq] at fp
      exact ⟨fp.okeq, fun _ _ => fp.covp,
        (fun K hK hcv => by
          rcases hK with hK | hK
          · exact fp.covo K hK hcv
          · exact absurd hc hK),
        fp.keys⟩
  · rename_i hc
    simp only [Bool.and_eq_true] at hc
    exact ⟨rfl, fun h1 h2 => absurd ⟨h1, h2⟩ hc, fun K _ hcv => hcv, fun K A h => Or.inr h⟩

structure AttPFPost (n : Net) (st st' : HState) (m m' : DMon) (E t : Nat) : Prop where
  okeq : m'.ok = m.ok
  covp : (st.fetchCur = true ∨ Cov .att st m E) → Cov .att st' m' E
  covn : ((st.fetchNext = true ∧ attShouldFetchNext n t = true) ∨ Cov .att st m (E + 1)) → Cov .att st' m' (E + 1)
  covo : ∀ K, K ≠ E → K ≠ E + 1 → Cov .att st m K → Cov .att st' m' K
  keys : ∀ K A, m'.due K = some A → K = E ∨ K = E + 1 ∨ m.due K = some A

theorem attPF_post (n : Net) (st : HState) (m : DMon) (E t : Nat) (r1 r2 : FetchRes) :
    AttPFPost n st (attProcessFetching n st E t r1 r2).1 m (drun .att n m (attProcessFetching n st E t r1 r2).2) E t := by
  have fp := attFetch_post n st m E r1
  have hf := attFetch_flags st E r1
  unfold attProcessFetching
  split
  · rename_i hfc
    split
    · rename_i st1 o1 heq
      simp only [heq] at fp hf
      have hv := fp.void rfl
      exact ⟨fp.okeq, fun _ => Cov.of_none (hv _), fun _ => Cov.of_none (hv _), fun K _ _ _ => Cov.of_none (hv K),
        (fun K A h => by rw [hv K] at h; cases h)⟩
    · rename_i st1 o1 heq
      simp only [heq] at fp hf
      have np := attNext_post n { st1 with fetchCur := false } (drun .att n m o1) E t r2
      simp only [drun_append]
      refine ⟨np.okeq.trans fp.okeq, ?_, ?_, ?_, ?_⟩
      · intro _
        exact np.covo E (Or.inl (by omega)) (fp.covp.of_store_eq rfl)
      · intro h
        by_cases hfn : st.fetchNext = true ∧ attShouldFetchNext n t = true
        · exact np.covn (by simpa [hf.2.2.1] using hfn.1) hfn.2
        · rcases h with h | h
          · exact absurd h hfn
          · exact np.covo (E + 1) (Or.inr (by simpa [hf.2.2.1] using hfn)) ((fp.covo (E + 1) (by omega) h).of_store_eq rfl)
      · intro K h1 h2 hc
        exact np.covo K (Or.inl h2) ((fp.covo K h1 hc).of_store_eq rfl)
      · intro K A h
        rcases np.keys K A h with h | h
        · exact Or.inr (Or.inl h)
        · rcases fp.keys K A h with h | h
          · exact Or.inl h
          · exact Or.inr (Or.inr h)
  · rename_i hfc
    have np := attNext_post n st m E t r1
    refine ⟨np.okeq, ?_, ?_, fun K _ h2 hc => np.covo K (Or.inl h2) hc, ?_⟩
    · intro h
      rcases h with h | h
      · exact absurd h hfc
      · exact np.covo E (Or.inl (by omega)) h
    · intro h
      by_cases hfn : st.fetchNext = true ∧ attShouldFetchNext n t = true
      · exact np.covn hfn.1 hfn.2
      · rcases h with h | h
        · exact absurd h hfn
        · exact np.covo (E + 1) (Or.inr hfn) h
    · intro K A h
      rcases np.keys K A h with h | h
      · exact Or.inr (Or.inl h)
      · exact Or.inr (Or.inr h)

/-! ### invariant -/

structure AInvD (n : Net) (st : HState) (m : DMon) (lt : Option Nat) (now : Nat) (ff : Bool) (pend : Option Nat) :
    Prop where
  ok : m.ok = true
  ffeq : ff = st.fetchFirst
  ltnow : ∀ t, lt = some t → t ≤ now
  i1 : st.fetchFirst = true → st.fetchCur = true
  i2 : st.indicesChanged = true → st.fetchCur = true
  dueLe : ∀ K A, m.due K = some A → K ≤ n.epoch now + 1
  pendle : ∀ r, pend = some r → r ≤ now
  A : ∀ t, Cand lt now t → st.fetchFirst = true ∨ (∃ r, pend = some r ∧ n.epoch r < n.epoch t) ∨
        Cov .att st m (n.epoch t)
  B : ∀ t, Cand lt now t → Cov .att st m (n.epoch t + 1) ∨ (st.fetchNext = true ∧ attShouldFetchNext n t = true)

/-- one tick, from the facts it needs about the state before it: the current epoch is covered unless the tick
    fetches first; the next epoch is covered unless this tick (re-)fetches it -/
theorem attTick_core (n : Net) (hspe : 0 < n.spe) {st : HState} {m : DMon} {now : Nat} (t0 clock : Nat) (r1 r2 : FetchRes)
    (hok : m.ok = true) (hi1 : st.fetchFirst = true → st.fetchCur = true)
    (hi2 : st.indicesChanged = true → st.fetchCur = true)
    (hdueLe : ∀ K A, m.due K = some A → K ≤ n.epoch now + 1) (hnow : now ≤ t0)
    (hA : st.fetchFirst = true ∨ Cov .att st m (n.epoch t0))
    (hB : Cov .att st m (n.epoch t0 + 1) ∨ (st.fetchNext = true ∧ attShouldFetchNext n t0 = true)) :
    AInvD n (attTick n st t0 clock r1 r2).1 (drun .att n m (attTick n st t0 clock r1 r2).2) (some t0) t0 false none := by
  have hem := epoch_mono n hnow
  obtain ⟨store, ff0, fc, fn, ic⟩ := st
  have fin : ∀ (s : HState) (m2 : DMon), m2.ok = true → s.fetchFirst = false → s.indicesChanged = false →
      Cov .att s m2 (n.epoch t0) → Cov .att s m2 (n.epoch t0 + 1) →
      (∀ K A, m2.due K = some A → K = n.epoch t0 ∨ K = n.epoch t0 + 1 ∨ m.due K = some A) →
      AInvD n (attPost n s t0) m2 (some t0) t0 false none := by
    intro s m2 hok hff hic hc0 hc1 hk
    have hpf := attPost_flags n s t0
    have hdue : ∀ K A, m2.due K = some A → K ≤ n.epoch t0 + 1 := by
      intro K A hA'
      rcases hk K A hA' with h1 | h1 | h1
      · omega
      · omega
      · have := hdueLe K A h1; omega
    have hall : ∀ K, (n.epoch t0 < K ∨ (K = n.epoch t0 ∧ ¬ (t0 % n.spe == n.spe - 1) = true)) →
        Cov .att (attPost n s t0) m2 K := by
      intro K hK
      have hcK : Cov .att s m2 K := by
        by_cases h0 : K = n.epoch t0
        · rw [h0]; exact hc0
        · by_cases h1 : K = n.epoch t0 + 1
          · rw [h1]; exact hc1
          · apply Cov.of_none
            cases hd : m2.due K with
            | none => rfl
            | some A => have := hdue K A hd; omega
      have hst := attPost_store_eq n s t0
      split at hst
      · rename_i hlast
        apply hcK.of_reset hst
        rcases hK with hK | hK
        · omega
        · exact absurd hlast hK.2
      · exact hcK.of_store_eq hst
    have hnext : ∀ t, Cand (some t0) t0 t → n.epoch t0 < n.epoch t ∨
        (n.epoch t = n.epoch t0 ∧ ¬ (t0 % n.spe == n.spe - 1) = true) := by
      intro t ht
      have hlt := ht.1 t0 rfl
      have := epoch_mono n ht.2
      by_cases hlast : (t0 % n.spe == n.spe - 1) = true
      · exact Or.inl (div_lt_of_last hspe (by simpa using hlast) hlt)
      · by_cases heq : n.epoch t = n.epoch t0
        · exact Or.inr ⟨heq, hlast⟩
        · exact Or.inl (by omega)
    refine ⟨hok, by rw [hpf.1, hff], fun t ht => by cases ht; exact Nat.le_refl _, ?_, ?_, hdue,
      fun r hr => (nomatch hr), ?_, ?_⟩
    · intro hh; rw [hpf.1, hff] at hh; cases hh
    · intro hh; rw [hpf.2.2.1, hic] at hh; cases hh
    · intro t ht
      exact Or.inr (Or.inr (hall _ (hnext t ht)))
    · intro t ht
      refine Or.inl (hall _ (Or.inl ?_))
      rcases hnext t ht with h1 | h1 <;> omega
  cases ff0
  · -- regular tick: execute, (reset on indices change,) fetch
    have hcov : Cov .att ⟨store, false, fc, fn, ic⟩ m (n.epoch t0) := by
      rcases hA with h1 | h1
      · cases h1
      · exact h1
    have hx := dstep_exec .att n t0 clock (st := ⟨store, false, fc, fn, ic⟩) hok (fun _ => hcov)
    simp only [execOf] at hx
    let s0 : HState := if ic = true then ⟨store.reset (n.epoch t0), false, fc, fn, false⟩ else ⟨store, false, fc, fn, ic⟩
    have hs0 : s0 = if ic = true then ⟨store.reset (n.epoch t0), false, fc, fn, false⟩ else ⟨store, false, fc, fn, ic⟩ := rfl
    have pf := attPF_post n s0 (drun .att n m (attProcessExecution n ⟨store, false, fc, fn, ic⟩ (n.epoch t0) t0 clock))
      (n.epoch t0) t0 r1 r2
    have hfl := attPF_flags n s0 (n.epoch t0) t0 r1 r2
    have hs0ff : s0.fetchFirst = false := by rw [hs0]; split <;> rfl
    have hs0ic : s0.indicesChanged = false := by
      rw [hs0]; split
      · rfl
      · rename_i hh; simpa using hh
    have hs0fn : s0.fetchNext = fn := by rw [hs0]; split <;> rfl
    simp only [attTick, Bool.false_eq_true, if_false, drun_append]
    apply fin _ _ (by rw [pf.okeq]; exact hx.1) (by rw [hfl.1, hs0ff]) (by rw [hfl.2.1, hs0ic])
    · apply pf.covp
      by_cases hic : ic = true
      · left
        rw [hs0, if_pos hic]
        exact hi2 hic
      · right
        rw [hs0, if_neg hic]
        exact hcov.of_due_eq hx.2
    · apply pf.covn
      rcases hB with h1 | h1
      · right
        have h2 := h1.of_due_eq hx.2
        rw [hs0]
        split
        · exact h2.of_reset rfl (by omega)
        · exact h2
      · left
        rw [hs0fn]; exact h1
    · intro K A hA'
      rcases pf.keys K A hA' with h1 | h1 | h1
      · exact Or.inl h1
      · exact Or.inr (Or.inl h1)
      · exact Or.inr (Or.inr (by rw [hx.2] at h1; exact h1))
  · -- fetch-first tick: fetch, execute
    have hfc : fc = true := hi1 rfl
    have pf := attPF_post n ⟨store, false, fc, fn, false⟩ m (n.epoch t0) t0 r1 r2
    have hfl := attPF_flags n ⟨store, false, fc, fn, false⟩ (n.epoch t0) t0 r1 r2
    have hc0 := pf.covp (Or.inl hfc)
    have hc1 := pf.covn (by
      rcases hB with h1 | h1
      · exact Or.inr h1
      · exact Or.inl h1)
    have hx := dstep_exec .att n t0 clock (st := (attProcessFetching n ⟨store, false, fc, fn, false⟩ (n.epoch t0) t0 r1 r2).1)
      (m := drun .att n m (attProcessFetching n ⟨store, false, fc, fn, false⟩ (n.epoch t0) t0 r1 r2).2)
      (by rw [pf.okeq]; exact hok) (fun _ => hc0)
    simp only [execOf] at hx
    simp only [attTick, if_true, drun_append]
    apply fin _ _ hx.1 (by rw [hfl.1]) (by rw [hfl.2.1]) (hc0.of_due_eq hx.2) (hc1.of_due_eq hx.2)
    intro K A hA'
    rw [hx.2] at hA'
    exact pf.keys K A hA'

theorem attTick_ainv (n : Net) (hspe : 0 < n.spe) {st : HState} {m : DMon} {lt : Option Nat} {now : Nat} {ff : Bool}
    {pend : Option Nat} (t0 clock : Nat) (r1 r2 : FetchRes) (h : AInvD n st m lt now ff pend) (hc : Cand lt now t0)
    (hq : ∀ r, pend = some r → ¬ n.epoch r < n.epoch t0) :
    AInvD n (attTick n st t0 clock r1 r2).1 (drun .att n m (attTick n st t0 clock r1 r2).2) (some t0) t0 false none := by
  apply attTick_core n hspe t0 clock r1 r2 h.ok h.i1 h.i2 h.dueLe hc.2
  · rcases h.A t0 hc with h1 | ⟨r, hr, hlt⟩ | h1
    · exact Or.inl h1
    · exact absurd hlt (hq r hr)
    · exact Or.inr h1
  · exact h.B t0 hc

/-- a notice that only changes flags (and possibly moves the clock forward) -/
theorem att_keep_inv (n : Net) {st st' : HState} {m : DMon} {lt : Option Nat} {now r : Nat} {ff : Bool} {pend : Option Nat}
    (h : AInvD n st m lt now ff pend) (hnow : now ≤ r) (hs : st'.store = st.store) (hff : st'.fetchFirst = st.fetchFirst)
    (hfn : st.fetchNext = true → st'.fetchNext = true)
    (hi1 : st'.fetchFirst = true → st'.fetchCur = true) (hi2 : st'.indicesChanged = true → st'.fetchCur = true) :
    AInvD n st' m lt r ff pend := by
  have hem := epoch_mono n hnow
  refine ⟨h.ok, by rw [hff]; exact h.ffeq, fun t ht => Nat.le_trans (h.ltnow t ht) hnow, hi1, hi2,
    fun K A hA => by have := h.dueLe K A hA; omega, fun r' hr' => Nat.le_trans (h.pendle r' hr') hnow, ?_, ?_⟩
  · intro t ht
    rcases h.A t (ht.mono hnow) with h1 | h1 | h1
    · exact Or.inl (by rw [hff]; exact h1)
    · exact Or.inr (Or.inl h1)
    · exact Or.inr (Or.inr (h1.of_store_eq hs))
  · intro t ht
    rcases h.B t (ht.mono hnow) with h1 | h1
    · exact Or.inl (h1.of_store_eq hs)
    · exact Or.inr ⟨hfn h1.1, h1.2⟩

/-- a notice at slot `r` in the fetch-next window that resets the next epoch's duties and sets `fetchNextEpoch`
    without touching `fetchFirst` (reorg(current), indices change) -/
theorem att_resetNext_inv (n : Net) {st st' : HState} {m : DMon} {lt : Option Nat} {now r : Nat} {ff : Bool}
    {pend : Option Nat} (h : AInvD n st m lt now ff pend) (hnow : now ≤ r) (hsh : attShouldFetchNext n r = true)
    (hs : st'.store = st.store.reset (n.epoch r + 1)) (hff : st'.fetchFirst = st.fetchFirst)
    (hfn : st'.fetchNext = true)
    (hi1 : st'.fetchFirst = true → st'.fetchCur = true) (hi2 : st'.indicesChanged = true → st'.fetchCur = true) :
    AInvD n st' m lt r ff (if (!ff) = true then keepOldest pend r else pend) := by
  have hem := epoch_mono n hnow
  refine ⟨h.ok, by rw [hff]; exact h.ffeq, fun t ht => Nat.le_trans (h.ltnow t ht) hnow, hi1, hi2,
    fun K A hA => by have := h.dueLe K A hA; omega, ?_, ?_, ?_⟩
  · intro r' hr'
    split at hr'
    · rcases keepOldest_cases pend r with ⟨_, h2⟩ | ⟨r0, h1, h2⟩
      · rw [h2] at hr'; have := Option.some.inj hr'; omega
      · rw [h2] at hr'; have := Option.some.inj hr'; have := h.pendle r0 h1; omega
    · exact Nat.le_trans (h.pendle r' hr') hnow
  · intro t ht
    have hpt := epoch_mono n ht.2
    cases hffv : ff with
    | true =>
      left; rw [hff, ← h.ffeq]; exact hffv
    | false =>
      simp only [Bool.not_false, if_true]
      by_cases heq : n.epoch t = n.epoch r + 1
      · refine Or.inr (Or.inl ?_)
        rcases keepOldest_cases pend r with ⟨_, h2⟩ | ⟨r0, h1, h2⟩
        · exact ⟨r, h2, by omega⟩
        · have := epoch_mono n (Nat.le_trans (h.pendle r0 h1) hnow)
          exact ⟨r0, h2, by omega⟩
      · rcases h.A t (ht.mono hnow) with h1 | ⟨r0, h1, h2⟩ | h1
        · exact Or.inl (by rw [hff]; exact h1)
        · refine Or.inr (Or.inl ⟨r0, ?_, h2⟩)
          rw [h1]; rfl
        · exact Or.inr (Or.inr (h1.of_reset hs (by omega)))
  · intro t ht
    have hpt := epoch_mono n ht.2
    by_cases heq : n.epoch t = n.epoch r
    · exact Or.inr ⟨hfn, attShould_mono n heq.symm ht.2 hsh⟩
    · rcases h.B t (ht.mono hnow) with h1 | h1
      · exact Or.inl (h1.of_reset hs (by omega))
      · exact Or.inr ⟨hfn, h1.2⟩

theorem attReorg_ainv (n : Net) {st : HState} {m : DMon} {lt : Option Nat} {now : Nat} {ff : Bool} {pend : Option Nat}
    (r : Nat) (prev cur : Bool) (h : AInvD n st m lt now ff pend) (hnow : now ≤ r) :
    AInvD n (attReorg n st r prev cur) m lt r
      (if prev = true then true else ff)
      (if prev = true then none
       else if (cur && attShouldFetchNext n r && !ff) = true then keepOldest pend r else pend) := by
  have hem := epoch_mono n hnow
  cases prev
  · simp only [Bool.false_eq_true, if_false]
    cases cur
    · simp only [attReorg, Bool.false_eq_true, if_false, Bool.false_and]
      exact att_keep_inv n h hnow rfl rfl (fun x => x) h.i1 h.i2
    · cases hsh : attShouldFetchNext n r
      · simp only [attReorg, Bool.false_eq_true, if_false, if_true, hsh, Bool.and_false, Bool.false_and]
        exact att_keep_inv n h hnow rfl rfl (fun x => x) h.i1 h.i2
      · simp only [attReorg, Bool.false_eq_true, if_false, if_true, hsh, Bool.true_and]
        exact att_resetNext_inv n h hnow hsh rfl rfl rfl h.i1 h.i2
  · -- previous dependent root changed: everything is re-fetched before the next execution
    simp only [if_true]
    have hB : ∀ (st' : HState), st'.fetchFirst = true →
        (∀ t, Cand lt r t → Cov .att st' m (n.epoch t + 1) ∨ (st'.fetchNext = true ∧ attShouldFetchNext n t = true)) →
        st'.fetchCur = true → AInvD n st' m lt r true none := by
      intro st' hff hb hfc
      exact ⟨h.ok, hff.symm, fun t ht => Nat.le_trans (h.ltnow t ht) hnow, fun _ => hfc, fun _ => hfc,
        fun K A hA => by have := h.dueLe K A hA; omega, fun r' hr' => (nomatch hr'), fun t _ => Or.inl hff, hb⟩
    cases hsh : attShouldFetchNext n r
    · simp only [attReorg, if_true, hsh, Bool.false_eq_true, if_false]
      apply hB _ rfl _ rfl
      intro t ht
      have hpt := epoch_mono n ht.2
      rcases h.B t (ht.mono hnow) with h1 | h1
      · exact Or.inl (h1.of_reset rfl (by omega))
      · exact Or.inr h1
    · simp only [attReorg, if_true, hsh]
      apply hB _ rfl _ rfl
      intro t ht
      have hpt := epoch_mono n ht.2
      by_cases heq : n.epoch t = n.epoch r
      · exact Or.inr ⟨rfl, attShould_mono n heq.symm ht.2 hsh⟩
      · rcases h.B t (ht.mono hnow) with h1 | h1
        · exact Or.inl (h1.transfer (fun x hx hk => mem_reset.mpr ⟨mem_reset.mpr ⟨hx, by omega⟩, by omega⟩) rfl)
        · exact Or.inr ⟨rfl, h1.2⟩

theorem attIndices_ainv (n : Net) {st : HState} {m : DMon} {lt : Option Nat} {now : Nat} {ff : Bool} {pend : Option Nat}
    (c : Nat) (h : AInvD n st m lt now ff pend) (hnow : now ≤ c) :
    AInvD n (attIndices n st c) m lt c ff
      (if (attShouldFetchNext n c && !ff) = true then keepOldest pend c else pend) := by
  cases hsh : attShouldFetchNext n c
  · simp only [attIndices, hsh, Bool.false_eq_true, if_false, Bool.false_and]
    exact att_keep_inv n h hnow rfl rfl (fun x => x) (fun _ => rfl) (fun _ => rfl)
  · simp only [attIndices, hsh, if_true, Bool.true_and]
    exact att_resetNext_inv n h hnow hsh rfl rfl rfl (fun _ => rfl) (fun _ => rfl)

theorem quiet_att_tick (n : Net) (ff : Bool) (pend : Option Nat) (s c : Nat) (r1 r2 : FetchRes) (es : List Event)
    (h : quietOK .att n ff pend (.tick s c r1 r2 :: es) = true) :
    (∀ r, pend = some r → ¬ n.epoch r < n.epoch s) ∧ quietOK .att n false none es = true := by
  simp only [quietOK, Bool.and_eq_true] at h
  refine ⟨?_, h.2⟩
  intro r hr
  rw [hr] at h
  simpa [keyOf] using h.1

theorem quiet_att_reorg (n : Net) (ff : Bool) (pend : Option Nat) (r : Nat) (p c : Bool) (es : List Event)
    (h : quietOK .att n ff pend (.reorg r p c :: es) = true) :
    quietOK .att n (if p = true then true else ff)
      (if p = true then none
       else if (c && attShouldFetchNext n r && !ff) = true then keepOldest pend r else pend) es = true := by
  cases p <;> cases c <;> cases hs : attShouldFetchNext n r <;> cases ff <;> simp_all [quietOK]

theorem quiet_att_indices (n : Net) (ff : Bool) (pend : Option Nat) (c : Nat) (es : List Event)
    (h : quietOK .att n ff pend (.indices c :: es) = true) :
    quietOK .att n ff (if (attShouldFetchNext n c && !ff) = true then keepOldest pend c else pend) es = true := by
  cases hs : attShouldFetchNext n c <;> cases ff <;> simp_all [quietOK]

theorem att_exactly_runFrom (n : Net) (hspe : 0 < n.spe) : ∀ (evs : List Event) (st : HState) (m : DMon) (lt : Option Nat)
    (now : Nat) (ff : Bool) (pend : Option Nat),
    AInvD n st m lt now ff pend → envOK lt now evs = true → quietOK .att n ff pend evs = true →
    (drun .att n m (runFrom .att n st evs)).ok = true := by
  intro evs
  induction evs with
  | nil => intro st m lt now ff pend h _ _; exact h.ok
  | cons e es ih =>
    intro st m lt now ff pend h henv hq
    obtain ⟨hnow, hlt, henv'⟩ := envOK_cons henv
    cases e with
    | tick s c r1 r2 =>
      obtain ⟨hq1, hq2⟩ := quiet_att_tick n ff pend s c r1 r2 es hq
      have hc : Cand lt now s := ⟨fun t0 ht0 => hlt t0 ht0 s c r1 r2 rfl, hnow⟩
      simp only [runFrom, drun_append, step, attStep]
      exact ih _ _ _ _ false none (attTick_ainv n hspe s c r1 r2 h hc hq1) henv' hq2
    | reorg r p c =>
      simp only [runFrom, step, attStep, List.nil_append]
      exact ih _ _ _ _ _ _ (attReorg_ainv n r p c h hnow) henv' (quiet_att_reorg n ff pend r p c es hq)
    | indices c =>
      simp only [runFrom, step, attStep, List.nil_append]
      exact ih _ _ _ _ _ _ (attIndices_ainv n c h hnow) henv' (quiet_att_indices n ff pend c es hq)

theorem att_exactly_run (n : Net) (hspe : 0 < n.spe) (clock0 : Nat) (r0 : FetchRes) (evs : List Event)
    (henv : envOK none clock0 evs = true) (hq : quietOK .att n (ffInit .att) none evs = true) :
    exactlyOnceOK .att n (run .att n clock0 r0 evs) = true := by
  unfold exactlyOnceOK run
  have h0 : AInvD n attInit DMon.init none clock0 true none :=
    ⟨rfl, rfl, fun t ht => (nomatch ht), fun _ => rfl, fun hh => (nomatch hh), fun K A hA => (nomatch hA),
      fun r hr => (nomatch hr), fun t _ => Or.inl rfl, fun t _ => Or.inl (Cov.of_none rfl)⟩
  have := att_exactly_runFrom n hspe evs _ _ none clock0 _ none h0 henv hq
  simpa [initH, drun, List.foldl_append] using this

end Ssv.Duties
