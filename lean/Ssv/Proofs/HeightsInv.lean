/-
Helper lemmas for engine `heights` (C15), part 2: the store primitives (`replaces` guard), the controller/store
invariant `CInv` and its preservation by `StartNewInstance`, `UponDecided`, compaction, `SaveInstance`,
`LoadHighestInstance` — for the CURRENT tree (store guard + reloaded instance kept).
-/
import Ssv.Proofs.Heights

namespace Ssv.Heights

/-! ## more container facts -/

theorem find_isSome_iff {l : List Inst} {k : Nat} : (find l k).isSome = true ↔ ∃ i ∈ l, i.height = k := by
  constructor
  · intro h
    cases hf : find l k with
    | none => rw [hf] at h; cases h
    | some i => exact ⟨i, find_some_mem hf, find_some_height hf⟩
  · rintro ⟨i, hi, hik⟩
    cases hf : find l k with
    | none => exact absurd hik ((find_none_iff.mp hf) i hi)
    | some _ => rfl

theorem replaceInst_of_none {i' : Inst} {l : List Inst} (h : find l i'.height = none) : replaceInst i' l = l := by
  induction l with
  | nil => rfl
  | cons x xs ih =>
    have hx : x.height ≠ i'.height := (find_none_iff.mp h) x (by simp)
    rw [replaceInst_cons_other hx, ih]
    rw [find_cons] at h
    simpa [hx] using h

/-- replacing an instance by one of the same height does not change which heights are in the container -/
theorem find_replaceInst_isSome (i' : Inst) (l : List Inst) (k : Nat) :
    (find (replaceInst i' l) k).isSome = (find l k).isSome := by
  by_cases hk : k = i'.height
  · subst hk
    cases hf : find l i'.height with
    | none => rw [replaceInst_of_none hf, hf]
    | some i => rw [find_replaceInst_same hf rfl]; rfl
  · rw [find_replaceInst_other (by omega)]

theorem TopOk.replace' {c : Nat} {l : List Inst} (h : TopOk c l) (i' : Inst) : TopOk c (replaceInst i' l) := by
  cases hf : find l i'.height with
  | none => rw [replaceInst_of_none hf]; exact h
  | some i => exact h.replace ⟨i, find_some_mem hf, find_some_height hf⟩

def AtTop (c : Ctrl) : Prop := (find c.insts c.height).isSome = true

/-! ## historical store -/

theorem histGet_cons (k : Nat) (v : Stored) (rest : List (Nat × Stored)) (h : Nat) :
    histGet ((k, v) :: rest) h = if k = h then some v else histGet rest h := by
  unfold histGet
  rw [List.find?_cons]
  by_cases hk : k = h
  · simp [hk]
  · have : (k == h) = false := by simpa using hk
    simp [this, hk]

theorem histGet_histPut (k : Nat) (v : Stored) (l : List (Nat × Stored)) (h : Nat) :
    histGet (histPut k v l) h = if h = k then some v else histGet l h := by
  induction l with
  | nil =>
    unfold histPut
    rw [histGet_cons]
    by_cases hk : k = h
    · simp [hk]
    · have : ¬ h = k := fun e => hk e.symm
      simp [hk, this, histGet]
  | cons e rest ih =>
    obtain ⟨k', v'⟩ := e
    unfold histPut
    by_cases h1 : k' = k
    · simp only [h1, if_true]
      rw [histGet_cons, histGet_cons]
      by_cases hk : k = h
      · simp [hk]
      · have : ¬ h = k := fun e => hk e.symm
        simp [hk, this]
    · simp only [h1, if_false]
      by_cases h2 : k < k'
      · simp only [h2, if_true]
        rw [histGet_cons]
        by_cases hk : k = h
        · simp [hk]
        · have : ¬ h = k := fun e => hk e.symm
          simp [hk, this]
      · simp only [h2, if_false]
        rw [histGet_cons, histGet_cons, ih]
        by_cases hk' : k' = h
        · have : ¬ h = k := by omega
          simp [hk', this]
        · simp [hk']

/-- keys of the historical store are the heights of the records -/
def HistOk (l : List (Nat × Stored)) : Prop := ∀ h s, histGet l h = some s → s.inst.height = h

/-! ## the store with the `replaces` guard -/

theorem replaces_some {p next : Stored} (h : replaces (some p) next = true) :
    p.inst.height < next.inst.height ∨
    (p.inst.height = next.inst.height ∧ p.cert.signers.length < next.cert.signers.length) := by
  unfold replaces at h
  simp only at h
  split at h
  · exact Or.inl (by simpa using h)
  · rename_i heq
    exact Or.inr ⟨by simpa using heq, by simpa using h⟩

theorem not_replaces {prev : Option Stored} {next : Stored} (h : replaces prev next = false) :
    ∃ p, prev = some p ∧ (next.inst.height < p.inst.height ∨
      (p.inst.height = next.inst.height ∧ next.cert.signers.length ≤ p.cert.signers.length)) := by
  unfold replaces at h
  cases prev with
  | none => simp at h
  | some p =>
    refine ⟨p, rfl, ?_⟩
    simp only at h
    split at h
    · rename_i hne
      have : ¬ p.inst.height < next.inst.height := by simpa using h
      left; omega
    · rename_i heq
      have heq' : p.inst.height = next.inst.height := by simpa using heq
      have : ¬ p.cert.signers.length < next.cert.signers.length := by simpa using h
      right; exact ⟨heq', by omega⟩

/-- the record `storeSave` writes for (i, m) -/
def recOf (i : Inst) (m : Msg) : Stored := ⟨{ trim i with stopped := false }, m⟩

theorem recOf_height (i : Inst) (m : Msg) : (recOf i m).inst.height = i.height := rfl

theorem storeSave_highest (st : Store) (i : Inst) (m : Msg) (th ah : Bool) :
    (storeSave st ⟨i, m⟩ th ah).highest = st.highest ∨
    (ah = true ∧ replaces st.highest (recOf i m) = true ∧ (storeSave st ⟨i, m⟩ th ah).highest = some (recOf i m)) := by
  unfold storeSave
  simp only
  cases ah
  · left; simp
  · cases hr : replaces st.highest { inst := { trim i with stopped := false }, cert := m }
    · left; simp
    · right; exact ⟨rfl, hr, by simp [recOf]⟩

theorem storeSave_histOk {st : Store} (hok : HistOk st.hist) (i : Inst) (m : Msg) (th ah : Bool) :
    HistOk (storeSave st ⟨i, m⟩ th ah).hist := by
  unfold storeSave
  simp only
  split
  · intro h s hs
    rw [histGet_histPut] at hs
    split at hs
    · rename_i hh; cases hs; exact hh.symm
    · exact hok h s hs
  · exact hok

/-- what a `saveFound` can do to the highest record -/
theorem saveFound_highest (c : Ctrl) (st : Store) (h : Nat) (m : Msg) :
    (saveFound c st h m).highest = st.highest ∨
    (c.height ≤ h ∧ ∃ i, find c.insts h = some i ∧ replaces st.highest (recOf i m) = true ∧
      (saveFound c st h m).highest = some (recOf i m)) := by
  unfold saveFound
  cases hf : find c.insts h with
  | none => exact Or.inl rfl
  | some i =>
    have hih := find_some_height hf
    simp only
    unfold saveInstance
    by_cases hhi : c.height ≤ i.height
    · cases c.full
      · simp only [hhi, decide_true, if_true, Bool.false_eq_true, if_false]
        rcases storeSave_highest st i m false true with hu | ⟨_, hr, hw⟩
        · exact Or.inl hu
        · exact Or.inr ⟨by omega, i, rfl, hr, hw⟩
      · simp only [hhi, decide_true, if_true]
        rcases storeSave_highest st i m true true with hu | ⟨_, hr, hw⟩
        · exact Or.inl hu
        · exact Or.inr ⟨by omega, i, rfl, hr, hw⟩
    · left
      cases c.full
      · simp [hhi]
      · simp only [hhi, decide_false, if_true, Bool.false_eq_true, if_false]
        rcases storeSave_highest st i m true false with hu | ⟨hc, _⟩
        · exact hu
        · cases hc

theorem saveFound_histOk {c : Ctrl} {st : Store} (hok : HistOk st.hist) (h : Nat) (m : Msg) :
    HistOk (saveFound c st h m).hist := by
  unfold saveFound
  cases find c.insts h with
  | none => exact hok
  | some i =>
    simp only
    unfold saveInstance
    simp only
    cases c.full <;> cases decide (c.height ≤ i.height)
    · exact hok
    · exact storeSave_histOk hok i m false true
    · exact storeSave_histOk hok i m true false
    · exact storeSave_histOk hok i m true true

/-- a save of the instance AT (or above) the controller height leaves a highest record of that height — the new one,
    or a stored one of the same height with at least as many signers -/
theorem saveFound_stores {c : Ctrl} {st : Store} {h : Nat} {m : Msg} {i : Inst} (hf : find c.insts h = some i)
    (hle : c.height ≤ h) (hst : ∀ a, st.highest = some a → a.inst.height ≤ h) :
    ∃ b, (saveFound c st h m).highest = some b ∧ b.inst.height = h := by
  have hih := find_some_height hf
  unfold saveFound
  rw [hf]
  simp only
  unfold saveInstance
  have hd : decide (c.height ≤ i.height) = true := by simp; omega
  have key : ∀ th, ∃ b, (storeSave st ⟨i, m⟩ th true).highest = some b ∧ b.inst.height = h := by
    intro th
    unfold storeSave
    simp only
    cases hr : replaces st.highest { inst := { trim i with stopped := false }, cert := m }
    · obtain ⟨p, hp, hcase⟩ := not_replaces hr
      refine ⟨p, by simp [hp], ?_⟩
      have := hst p hp
      rcases hcase with hlt | ⟨heq, _⟩
      · have : i.height < p.inst.height := hlt
        omega
      · have : p.inst.height = i.height := heq
        omega
    · exact ⟨{ inst := { trim i with stopped := false }, cert := m }, by simp, hih⟩
  cases c.full
  · simpa [hd] using key false
  · simpa [hd] using key true

/-- `saveFound` looks at the controller only through `full`, the container and `c.height ≤ h` -/
theorem saveFound_congr {c c' : Ctrl} (st : Store) (h : Nat) (m : Msg) (hi : c'.insts = c.insts) (hf : c'.full = c.full)
    (hh : c'.height ≤ h ↔ c.height ≤ h) : saveFound c' st h m = saveFound c st h m := by
  unfold saveFound
  rw [hi]
  cases hfd : find c.insts h with
  | none => rfl
  | some i =>
    have hih := find_some_height hfd
    simp only
    unfold saveInstance
    rw [hf]
    have : decide (c'.height ≤ i.height) = decide (c.height ≤ i.height) := by
      rw [hih]; exact decide_eq_decide.mpr hh
    rw [this]

/-! ## the invariant -/

structure CInv (c : Ctrl) (st : Store) : Prop where
  /-- everything in the container is at or below the controller height, only the head may be AT it -/
  top : TopOk c.height c.insts
  /-- the stored highest is at or below the controller height -/
  le : ∀ a, st.highest = some a → a.inst.height ≤ c.height
  /-- … and when it is AT the controller height, that height's instance is in the container -/
  live : ∀ a, st.highest = some a → a.inst.height = c.height → AtTop c
  hist : HistOk st.hist

theorem CInv.init (full : Bool) : CInv (newCtrl full) ⟨none, []⟩ :=
  ⟨trivial, by intro a h; simp at h, by intro a h; simp at h, by intro h s hs; simp [histGet] at hs⟩

/-! ## StartNewInstance -/

theorem startNewInstance_ok {c c' : Ctrl} {h : Nat} (hs : startNewInstance c h = .ok c') :
    c.height ≤ h ∧ find c.insts h = none ∧ c'.height = h ∧ c'.full = c.full ∧
    c'.insts = (addNew c.insts (newInst h)).map (fun i => if i.height == h then i else { i with stopped := true }) := by
  unfold startNewInstance at hs
  split at hs
  · simp at hs
  · split at hs
    · simp at hs
    · rename_i h1 h2
      have : c' = _ := (Except.ok.inj hs).symm
      subst this
      refine ⟨by omega, ?_, rfl, rfl, rfl⟩
      cases hf : find c.insts h with
      | none => rfl
      | some i => simp [hf] at h2

theorem stop_height (h : Nat) (x : Inst) : (if x.height == h then x else { x with stopped := true }).height = x.height := by
  split <;> rfl

theorem start_lt {c c' : Ctrl} {h : Nat} (top : TopOk c.height c.insts) (hs : startNewInstance c h = .ok c') :
    ∀ x ∈ c.insts, x.height < (newInst h).height := by
  obtain ⟨hle, hnone, _⟩ := startNewInstance_ok hs
  intro x hx
  have h1 := top.le x hx
  have h2 := (find_none_iff.mp hnone) x hx
  show x.height < h
  omega

theorem start_atTop {c c' : Ctrl} {h : Nat} (top : TopOk c.height c.insts) (hs : startNewInstance c h = .ok c') :
    AtTop c' := by
  obtain ⟨_, _, hh, _, hins⟩ := startNewInstance_ok hs
  unfold AtTop
  rw [hins, hh, addNew_of_lt (start_lt top hs)]
  simp [find_cons, newInst]

theorem CInv.start {c c' : Ctrl} {st : Store} {h : Nat} (inv : CInv c st) (hs : startNewInstance c h = .ok c') :
    CInv c' st := by
  obtain ⟨hle, _, hh, _, hins⟩ := startNewInstance_ok hs
  refine ⟨?_, ?_, fun _ _ _ => start_atTop inv.top hs, inv.hist⟩
  · rw [hins, hh, addNew_of_lt (start_lt inv.top hs)]
    exact (TopOk.push (newInst h) (start_lt inv.top hs) 1).map _ (stop_height h)
  · intro a ha; rw [hh]; exact Nat.le_trans (inv.le a ha) hle

/-! ## compaction -/

theorem compactAt_height (c : Ctrl) (h : Nat) : (compactAt c h).height = c.height := by
  unfold compactAt; split <;> rfl

theorem compactAt_full (c : Ctrl) (h : Nat) : (compactAt c h).full = c.full := by
  unfold compactAt; split <;> rfl

theorem compact_find_isSome (c : Ctrl) (h x : Nat) : (find (compactAt c h).insts x).isSome = (find c.insts x).isSome := by
  unfold compactAt
  cases find c.insts h with
  | none => rfl
  | some i => exact find_replaceInst_isSome _ _ _

theorem compact_atTop {c : Ctrl} (h : Nat) (hx : AtTop c) : AtTop (compactAt c h) := by
  unfold AtTop
  rw [compactAt_height, compact_find_isSome]
  exact hx

theorem CInv.compact {c : Ctrl} {st : Store} (inv : CInv c st) (h : Nat) : CInv (compactAt c h) st := by
  refine ⟨?_, by rw [compactAt_height]; exact inv.le, ?_, inv.hist⟩
  · rw [compactAt_height]
    unfold compactAt
    cases find c.insts h with
    | none => exact inv.top
    | some i => exact inv.top.replace' _
  · intro a ha hah
    rw [compactAt_height] at hah
    exact compact_atTop h (inv.live a ha hah)

/-! ## SaveInstance -/

theorem CInv.saveFound {c : Ctrl} {st : Store} {h : Nat} {m : Msg} (inv : CInv c st) (hh : h ≤ c.height) :
    CInv c (saveFound c st h m) := by
  refine ⟨inv.top, ?_, ?_, saveFound_histOk inv.hist h m⟩
  · intro a ha
    rcases saveFound_highest c st h m with hs | ⟨_, i, hf, _, hs⟩
    · rw [hs] at ha; exact inv.le a ha
    · rw [hs] at ha; cases ha
      rw [recOf_height, find_some_height hf]; exact hh
  · intro a ha hah
    rcases saveFound_highest c st h m with hs | ⟨hle, i, hf, _, hs⟩
    · rw [hs] at ha; exact inv.live a ha hah
    · have hhc : h = c.height := by omega
      unfold AtTop
      rw [← hhc, hf]; rfl

/-! ## UponDecided -/

theorem instanceForHeight_mem {c : Ctrl} {st : Store} {h : Nat} {i : Inst} (hf : find c.insts h = some i) :
    instanceForHeight c st h = some (i, true) := by
  simp [instanceForHeight, hf]

theorem instanceForHeight_notmem {c : Ctrl} {st : Store} {h : Nat} (hok : HistOk st.hist) (hf : find c.insts h = none) :
    instanceForHeight c st h = none ∨
    ∃ x, x.height = h ∧ instanceForHeight c st h = some (x, false) ∧ ∃ s0, histGet st.hist h = some s0 ∧ x = s0.inst := by
  unfold instanceForHeight
  rw [hf]
  simp only
  cases c.full
  · left; rfl
  · cases hh : histGet st.hist h with
    | none => left; rfl
    | some s => right; exact ⟨s.inst, hok h s hh, rfl, s, rfl, rfl⟩

/-- the branch of `UponDecided` when the instance is in memory: nothing changes and nothing is saved (decided before,
    not more signers), or the instance is replaced by a decided one of the same height and saved -/
theorem decidedBranch_mem {c : Ctrl} {st : Store} {h : Nat} {m : Msg} {i : Inst} (hf : find c.insts h = some i) :
    ((decidedBranch c st h m).1 = c.insts ∧ (decidedBranch c st h m).2 = false ∧ i.decided = true) ∨
    (∃ i', i'.height = h ∧ (decidedBranch c st h m).1 = replaceInst i' c.insts ∧ (decidedBranch c st h m).2 = true ∧
      i'.decided = true) := by
  have hih := find_some_height hf
  have hsome : (find c.insts h).isSome = true := by rw [hf]; rfl
  unfold decidedBranch
  rw [instanceForHeight_mem hf]
  simp only [if_true, hsome]
  by_cases hd : i.decided = true
  · by_cases hl : longest i.commits m.round m.root < m.signers.length
    · right
      exact ⟨{ i with commits := i.commits ++ [m] }, hih, by simp [hd, hl], by simp [hd, hl], hd⟩
    · left
      simp [hd, hl]
  · have hd' : i.decided = false := by simpa using hd
    right
    exact ⟨{ i with decided := true, round := m.round, commits := i.commits ++ [m] }, hih, by simp [hd'], by simp [hd'], rfl⟩

/-- … and when it is not in memory: a decided-or-about-to-be-decided instance `x` of that height (new, or reloaded from
    storage) is added (if it fits); if it is in the container afterwards it is decided (as it was, or updated in place);
    the save flag is set -/
theorem decidedBranch_notmem {c : Ctrl} {st : Store} {h : Nat} {m : Msg} (hok : HistOk st.hist) (hf : find c.insts h = none) :
    (decidedBranch c st h m).2 = true ∧
    ∃ x, x.height = h ∧ (x.accepted = none ∨ ∃ s0, histGet st.hist h = some s0 ∧ x = s0.inst) ∧
      (((decidedBranch c st h m).1 = addNew c.insts x ∧
          (x.decided = true ∨ (find (addNew c.insts x) h).isSome = false)) ∨
       ∃ i', i'.height = h ∧ i'.decided = true ∧ (decidedBranch c st h m).1 = replaceInst i' (addNew c.insts x)) := by
  rcases instanceForHeight_notmem hok hf with hn | ⟨x, hx, hs, horig⟩
  · refine ⟨?_, ⟨h, m.round, true, false, [m], none⟩, rfl, Or.inl rfl, Or.inl ⟨?_, Or.inl rfl⟩⟩
    · unfold decidedBranch; rw [hn]
    · unfold decidedBranch; rw [hn]
  · have h2 : (decidedBranch c st h m).2 = true := by
      unfold decidedBranch
      rw [hs]
      rcases Bool.eq_false_or_eq_true x.decided with hd | hd <;>
        by_cases hl : longest x.commits m.round m.root < m.signers.length <;> simp [hd, hl]
    refine ⟨h2, x, hx, Or.inr horig, ?_⟩
    by_cases hin : (find (addNew c.insts x) h).isSome = true
    · rcases Bool.eq_false_or_eq_true x.decided with hd | hd
      · by_cases hl : longest x.commits m.round m.root < m.signers.length
        · right
          refine ⟨{ x with commits := x.commits ++ [m] }, hx, hd, ?_⟩
          unfold decidedBranch; rw [hs]; simp [hd, hl, hin]
        · left
          refine ⟨?_, Or.inl hd⟩
          unfold decidedBranch; rw [hs]; simp [hd, hl]
      · right
        refine ⟨{ x with decided := true, round := m.round, commits := x.commits ++ [m] }, hx, rfl, ?_⟩
        unfold decidedBranch; rw [hs]; simp [hd, hin]
    · have hin' : (find (addNew c.insts x) h).isSome = false := by simpa using hin
      left
      refine ⟨?_, Or.inr hin'⟩
      unfold decidedBranch; rw [hs]
      rcases Bool.eq_false_or_eq_true x.decided with hd | hd <;>
        by_cases hl : longest x.commits m.round m.root < m.signers.length <;> simp [hd, hl, hin']

/-- heights in the container after the branch: an element of another height was there before -/
theorem decidedBranch_mem_other {c : Ctrl} {st : Store} {h : Nat} {m : Msg} (hok : HistOk st.hist) {y : Inst}
    (hy : y ∈ (decidedBranch c st h m).1) (hyh : y.height ≠ h) : y ∈ c.insts := by
  cases hf : find c.insts h with
  | some i =>
    rcases decidedBranch_mem (st := st) (m := m) hf with ⟨h1, _, _⟩ | ⟨i', hi', h1, _, _⟩
    · rw [h1] at hy; exact hy
    · rw [h1] at hy
      rcases mem_replaceInst hy with rfl | hy
      · exact absurd hi' hyh
      · exact hy
  | none =>
    obtain ⟨_, x, hx, _, ⟨h1, _⟩ | ⟨i', hi', _, h1⟩⟩ := decidedBranch_notmem (m := m) hok hf
    · rw [h1] at hy
      rcases mem_addNew hy with rfl | hy
      · exact absurd hx hyh
      · exact hy
    · rw [h1] at hy
      rcases mem_replaceInst hy with rfl | hy
      · exact absurd hi' hyh
      · rcases mem_addNew hy with rfl | hy
        · exact absurd hx hyh
        · exact hy

/-- after the branch the instance of the (possibly bumped) controller height is in the container, provided the message
    is at or above the old height, or the old height's instance was there -/
theorem branch_atTop {c : Ctrl} {st : Store} (top : TopOk c.height c.insts) (hok : HistOk st.hist) (h : Nat) (m : Msg)
    (hyp : c.height ≤ h ∨ AtTop c) :
    (find (decidedBranch c st h m).1 (if c.height < h then h else c.height)).isSome = true := by
  unfold AtTop at hyp
  cases hf : find c.insts h with
  | some i =>
    have hih := find_some_height hf
    have hle : h ≤ c.height := hih ▸ top.le i (find_some_mem hf)
    have hhe : (if c.height < h then h else c.height) = c.height := by split <;> omega
    rw [hhe]
    have hold : (find c.insts c.height).isSome = true := by
      rcases hyp with hyp | hyp
      · have : h = c.height := by omega
        rw [← this, hf]; rfl
      · exact hyp
    rcases decidedBranch_mem (st := st) (m := m) hf with ⟨h1, _, _⟩ | ⟨i', _, h1, _, _⟩
    · rw [h1]; exact hold
    · rw [h1, find_replaceInst_isSome]; exact hold
  | none =>
    have hne := find_none_iff.mp hf
    obtain ⟨_, x, hx, _, hcase⟩ := decidedBranch_notmem (m := m) hok hf
    have hadd : (find (addNew c.insts x) (if c.height < h then h else c.height)).isSome = true := by
      by_cases hge : c.height ≤ h
      · have hall : ∀ y ∈ c.insts, y.height < x.height := by
          intro y hy
          have h1 := top.le y hy
          have h2 := hne y hy
          omega
        have hhe : (if c.height < h then h else c.height) = h := by split <;> omega
        rw [hhe, addNew_of_lt hall, find_cons]
        simp [hx]
      · have hhe : (if c.height < h then h else c.height) = c.height := by split <;> omega
        rw [hhe]
        rcases hyp with hyp | hyp
        · omega
        · cases hf0 : find c.insts c.height with
          | none => rw [hf0] at hyp; cases hyp
          | some i0 =>
            obtain ⟨rest, hl0⟩ := top.find_head hf0
            have hi0 := find_some_height hf0
            rw [hl0, addNew_cons_ge (by omega), find_cons]
            simp [hi0]
    rcases hcase with ⟨h1, _⟩ | ⟨i', _, _, h1⟩
    · rw [h1]; exact hadd
    · rw [h1, find_replaceInst_isSome]; exact hadd

/-- the container update + height bump of `UponDecided` keeps the invariant (store not yet touched) -/
theorem CInv.branch {c : Ctrl} {st : Store} (inv : CInv c st) (h : Nat) (m : Msg) :
    CInv { c with insts := (decidedBranch c st h m).1, height := if c.height < h then h else c.height } st := by
  have hge : c.height ≤ (if c.height < h then h else c.height) := by split <;> omega
  refine ⟨?_, fun a ha => Nat.le_trans (inv.le a ha) hge, ?_, inv.hist⟩
  · -- TopOk
    show TopOk (if c.height < h then h else c.height) (decidedBranch c st h m).1
    cases hf : find c.insts h with
    | some i =>
      have hih := find_some_height hf
      have hle : h ≤ c.height := hih ▸ inv.top.le i (find_some_mem hf)
      have hhe : (if c.height < h then h else c.height) = c.height := by split <;> omega
      rw [hhe]
      rcases decidedBranch_mem (st := st) (m := m) hf with ⟨h1, _, _⟩ | ⟨i', _, h1, _, _⟩
      · rw [h1]; exact inv.top
      · rw [h1]; exact inv.top.replace' _
    | none =>
      have hne := find_none_iff.mp hf
      obtain ⟨_, x, hx, _, hcase⟩ := decidedBranch_notmem (m := m) inv.hist hf
      have hadd : TopOk (if c.height < h then h else c.height) (addNew c.insts x) := by
        by_cases hlt : c.height < h
        · simp only [hlt, if_true]
          have hall : ∀ y ∈ c.insts, y.height < x.height := by
            intro y hy
            have := inv.top.le y hy
            omega
          rw [addNew_of_lt hall, ← hx]
          exact TopOk.push x hall 1
        · simp only [hlt, if_false]
          exact inv.top.addNew x (by omega) (fun hh y hy => by
            have := hne y hy
            omega)
      rcases hcase with ⟨h1, _⟩ | ⟨i', _, _, h1⟩
      · rw [h1]; exact hadd
      · rw [h1]; exact hadd.replace' _
  · intro a ha hah
    have hale := inv.le a ha
    have hah' : a.inst.height = (if c.height < h then h else c.height) := hah
    have hnlt : ¬ c.height < h := by
      intro hlt; simp only [hlt, if_true] at hah'; omega
    simp only [hnlt, if_false] at hah'
    have := branch_atTop (st := st) inv.top inv.hist h m (Or.inr (inv.live a ha hah'))
    unfold AtTop
    exact this

theorem uponDecided_eq (c : Ctrl) (st : Store) (h : Nat) (m : Msg) :
    let c2 : Ctrl := { c with insts := (decidedBranch c st h m).1, height := if c.height < h then h else c.height }
    uponDecided c st h m =
      (c2, if (decidedBranch c st h m).2 then saveFound c2 st h m else st, if prevDecidedOf c st h then .dup else .new) := by
  simp only
  unfold uponDecided
  simp only
  congr 2
  split
  · exact saveFound_congr st h m rfl rfl (by simp only; split <;> omega)
  · rfl

theorem uponDecided_height_ge (c : Ctrl) (st : Store) (h : Nat) (m : Msg) :
    h ≤ (uponDecided c st h m).1.height ∧ c.height ≤ (uponDecided c st h m).1.height := by
  have := uponDecided_eq c st h m
  simp only at this
  rw [this]
  simp only
  split <;> omega

theorem uponDecided_full (c : Ctrl) (st : Store) (h : Nat) (m : Msg) : (uponDecided c st h m).1.full = c.full := rfl

theorem CInv.uponDecided {c : Ctrl} {st : Store} (inv : CInv c st) (h : Nat) (m : Msg) :
    CInv (uponDecided c st h m).1 (uponDecided c st h m).2.1 := by
  have := uponDecided_eq c st h m
  simp only at this
  rw [this]
  simp only
  have hb := inv.branch h m
  cases hs : (decidedBranch c st h m).2
  · simpa using hb
  · simp only [if_true]
    apply hb.saveFound
    simp only; split <;> omega

theorem instanceForHeight_true {c : Ctrl} {st : Store} {h : Nat} {i : Inst}
    (hi : instanceForHeight c st h = some (i, true)) : find c.insts h = some i := by
  unfold instanceForHeight at hi
  cases hf : find c.insts h with
  | some j => rw [hf] at hi; simp only [Option.some.injEq, Prod.mk.injEq, and_true] at hi; rw [hi]
  | none =>
    rw [hf] at hi
    simp only at hi
    cases hfull : c.full
    · rw [hfull] at hi; simp at hi
    · rw [hfull] at hi
      cases hh : histGet st.hist h with
      | none => rw [hh] at hi; simp at hi
      | some s0 => rw [hh] at hi; simp at hi

/-- the below-quorum commit path: the controller is untouched, or the in-memory instance of that height — which has an
    accepted proposal — gets one more commit (and is decided if that completes a quorum) -/
theorem existingMsg_ctrl (q : Nat) (c : Ctrl) (st : Store) (h : Nat) (m : Msg) :
    (existingMsg q c st h m).1 = c ∨
    ∃ i i', find c.insts h = some i ∧ i'.height = h ∧ i.accepted.isSome = true ∧ i'.accepted = i.accepted ∧
      i'.decided = (i.decided || decide (q ≤ longest (i.commits ++ [m]) m.round m.root)) ∧
      (existingMsg q c st h m).1 = { c with insts := replaceInst i' c.insts } := by
  unfold existingMsg
  split
  · left; rfl
  · split
    · left; rfl
    · rename_i i inMem hi
      split
      · left; rfl
      · split
        · left; rfl
        · split
          · left; rfl
          · rename_i root hacc
            split
            · left; rfl
            · split
              · left; rfl
              · cases inMem
                · left; rfl
                · right
                  have hf := instanceForHeight_true hi
                  refine ⟨i, ⟨i.height, i.round, i.decided || decide (q ≤ longest (i.commits ++ [m]) m.round m.root), i.stopped,
                    i.commits ++ [m], i.accepted⟩, hf, (find_some_height hf : i.height = h), ?_, rfl, rfl, ?_⟩
                  · rw [hacc]; rfl
                  · simp

/-- the below-quorum commit path reports a first decision only for an instance (in memory or reloaded) that has an accepted
    proposal and was not decided -/
theorem existingMsg_new {q : Nat} {c : Ctrl} {st : Store} {h : Nat} {m : Msg} (hn : (existingMsg q c st h m).2.1 = .new) :
    ∃ i inMem, instanceForHeight c st h = some (i, inMem) ∧ i.accepted.isSome = true ∧ i.decided = false := by
  unfold existingMsg at hn
  split at hn
  · cases hn
  · split at hn
    · cases hn
    · rename_i i inMem hi
      split at hn
      · cases hn
      · split at hn
        · cases hn
        · split at hn
          · cases hn
          · rename_i root hacc
            split at hn
            · cases hn
            · split at hn
              · cases hn
              · refine ⟨i, inMem, hi, by rw [hacc]; rfl, ?_⟩
                simp only at hn
                split at hn
                · rename_i hc
                  simp only [Bool.and_eq_true, Bool.not_eq_true'] at hc
                  exact hc.2
                · cases hn

theorem existingMsg_height (q : Nat) (c : Ctrl) (st : Store) (h : Nat) (m : Msg) :
    (existingMsg q c st h m).1.height = c.height ∧ (existingMsg q c st h m).1.full = c.full := by
  rcases existingMsg_ctrl q c st h m with he | ⟨_, _, _, _, _, _, _, he⟩ <;> rw [he] <;> exact ⟨rfl, rfl⟩

theorem existingMsg_find_isSome (q : Nat) (c : Ctrl) (st : Store) (h : Nat) (m : Msg) (k : Nat) :
    (find (existingMsg q c st h m).1.insts k).isSome = (find c.insts k).isSome := by
  rcases existingMsg_ctrl q c st h m with he | ⟨_, i', _, _, _, _, _, he⟩
  · rw [he]
  · rw [he]; exact find_replaceInst_isSome i' c.insts k

theorem CInv.existingMsg {c : Ctrl} {st : Store} (inv : CInv c st) (q h : Nat) (m : Msg) :
    CInv (Heights.existingMsg q c st h m).1 st := by
  rcases existingMsg_ctrl q c st h m with he | ⟨_, i', _, _, _, _, _, he⟩
  · rw [he]; exact inv
  · rw [he]
    refine ⟨inv.top.replace' i', inv.le, ?_, inv.hist⟩
    intro a ha hah
    have := inv.live a ha hah
    unfold AtTop at this ⊢
    show (find (replaceInst i' c.insts) c.height).isSome = true
    rw [find_replaceInst_isSome]; exact this

theorem processMsg_cases (q : Nat) (c : Ctrl) (st : Store) (h : Nat) (m : Msg) (ok : Bool) :
    (processMsg q c st h m ok = (c, st, .err)) ∨
    (ok = true ∧ q ≤ m.signers.length ∧ processMsg q c st h m ok = uponDecided c st h m) ∨
    (ok = true ∧ m.signers.length < q ∧
      processMsg q c st h m ok = ((existingMsg q c st h m).1, st, (existingMsg q c st h m).2.1)) := by
  unfold processMsg
  cases ok
  · left; rfl
  · by_cases hq : m.signers.length < q
    · right; right; exact ⟨rfl, hq, by simp [hq]⟩
    · right; left; exact ⟨rfl, by omega, by simp [hq]⟩

theorem CInv.processMsg {c : Ctrl} {st : Store} (inv : CInv c st) (q h : Nat) (m : Msg) (ok : Bool) :
    CInv (Heights.processMsg q c st h m ok).1 (Heights.processMsg q c st h m ok).2.1 := by
  rcases processMsg_cases q c st h m ok with he | ⟨_, _, he⟩ | ⟨_, _, he⟩
  · rw [he]; exact inv
  · rw [he]; exact inv.uponDecided h m
  · rw [he]; exact inv.existingMsg q h m

/-- the controller part of `ProcessMsg` keeps the invariant against the UNCHANGED store (a failed write) -/
theorem CInv.processMsg_ctrl {c : Ctrl} {st : Store} (inv : CInv c st) (q h : Nat) (m : Msg) (ok : Bool) :
    CInv (Heights.processMsg q c st h m ok).1 st := by
  rcases processMsg_cases q c st h m ok with he | ⟨_, _, he⟩ | ⟨_, _, he⟩
  · rw [he]; exact inv
  · rw [he]
    have := uponDecided_eq c st h m
    simp only at this
    rw [this]
    exact inv.branch h m
  · rw [he]; exact inv.existingMsg q h m

theorem processMsg_height_ge (q : Nat) (c : Ctrl) (st : Store) (h : Nat) (m : Msg) (ok : Bool) :
    c.height ≤ (processMsg q c st h m ok).1.height := by
  rcases processMsg_cases q c st h m ok with he | ⟨_, _, he⟩ | ⟨_, _, he⟩
  · rw [he]; exact Nat.le_refl _
  · rw [he]; exact (uponDecided_height_ge _ _ _ _).2
  · rw [he, (existingMsg_height q c st h m).1]; exact Nat.le_refl _

theorem processMsg_full (q : Nat) (c : Ctrl) (st : Store) (h : Nat) (m : Msg) (ok : Bool) :
    (processMsg q c st h m ok).1.full = c.full := by
  rcases processMsg_cases q c st h m ok with he | ⟨_, _, he⟩ | ⟨_, _, he⟩ <;> rw [he]
  · rfl
  · exact (existingMsg_height q c st h m).2

/-! ## LoadHighestInstance -/

theorem loadHighest_some {c : Ctrl} {st : Store} {a : Stored} (ha : st.highest = some a) :
    (loadHighest c st).1.height = a.inst.height ∧ (loadHighest c st).1.insts = [trim a.inst] ∧
    (loadHighest c st).1.full = c.full ∧ (loadHighest c st).2 = some a := by
  unfold loadHighest
  rw [ha]
  exact ⟨rfl, rfl, rfl, rfl⟩

theorem loadHighest_none {c : Ctrl} {st : Store} (ha : st.highest = none) :
    (loadHighest c st).1 = c ∧ (loadHighest c st).2 = none := by
  unfold loadHighest
  rw [ha]
  exact ⟨rfl, rfl⟩

theorem load_atTop {st : Store} {a : Stored} (ha : st.highest = some a) (full : Bool) :
    AtTop (loadHighest (newCtrl full) st).1 := by
  obtain ⟨h1, h2, _, _⟩ := loadHighest_some (c := newCtrl full) ha
  unfold AtTop
  rw [h1, h2, find_cons]
  simp [trim_height]

theorem CInv.load {c : Ctrl} {st : Store} (inv : CInv c st) (full : Bool) :
    CInv (loadHighest (newCtrl full) st).1 st := by
  cases hs : st.highest with
  | none =>
    rw [(loadHighest_none hs).1]
    exact ⟨trivial, by intro a h; simp [hs] at h, by intro a h; simp [hs] at h, inv.hist⟩
  | some s =>
    obtain ⟨h1, h2, _, _⟩ := loadHighest_some (c := newCtrl full) hs
    refine ⟨by rw [h1, h2]; exact ⟨Nat.le_refl _, by simp⟩, ?_, fun _ _ _ => load_atTop hs full, inv.hist⟩
    intro a ha; rw [hs] at ha; cases ha; rw [h1]; exact Nat.le_refl _

end Ssv.Heights
