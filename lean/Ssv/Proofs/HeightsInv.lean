/-
Helper lemmas for engine `heights` (C15), part 2: the controller/store invariant `CInv` and its preservation by
`StartNewInstance`, `UponDecided`, compaction, `SaveInstance`, `LoadHighestInstance`.
-/
import Ssv.Proofs.Heights

namespace Ssv.Heights

/-- a stored record is decided, and `LongestUniqueSignersForRoundAndRoot` on its own commit container finds at least
    the signers of its certificate (the certificate is in the container, or is the aggregate of single commits that
    are) — unless the certificate's round is in the part that `CompactCopy` trims away (rounds below `State.Round`) -/
def StoredWf (a : Stored) : Prop :=
  a.inst.decided = true ∧
  (a.inst.round ≤ a.cert.round → a.cert.signers.length ≤ longest a.inst.commits a.cert.round a.cert.root)

/-- the in-memory instance `i` carries the stored record `a` -/
def Carries (i : Inst) (a : Stored) : Prop :=
  i.decided = true ∧ i.round = a.inst.round ∧
  (a.inst.round ≤ a.cert.round → a.cert.signers.length ≤ longest i.commits a.cert.round a.cert.root)

structure CInv (c : Ctrl) (st : Store) : Prop where
  top : TopOk c.height c.insts
  le : ∀ a, st.highest = some a → a.inst.height ≤ c.height
  wf : ∀ a, st.highest = some a → StoredWf a
  live : ∀ a, st.highest = some a → a.inst.height = c.height →
      ∃ i rest, c.insts = i :: rest ∧ i.height = c.height ∧ Carries i a

theorem CInv.init (full : Bool) : CInv (newCtrl full) ⟨none, []⟩ :=
  ⟨trivial, by intro a h; simp at h, by intro a h; simp at h, by intro a h; simp at h⟩

/-! ## StartNewInstance -/

theorem startNewInstance_ok {c c' : Ctrl} {h : Nat} (hs : startNewInstance c h = .ok c') :
    c.height ≤ h ∧ find c.insts h = none ∧ c'.height = h ∧ c'.full = c.full ∧
    c'.insts = (addNew c.insts (newInst h)).map (fun i => if i.height == h then i else { i with stopped := true }) := by
  unfold startNewInstance at hs
  split at hs
  · simp at hs
  · split at hs
    · simp at hs
    · rename_i h1 h2
      have : c' = _ := (Except.ok.inj hs).symm
      subst this
      refine ⟨by omega, ?_, rfl, rfl, rfl⟩
      cases hf : find c.insts h with
      | none => rfl
      | some i => simp [hf] at h2

theorem stop_height (h : Nat) (x : Inst) : (if x.height == h then x else { x with stopped := true }).height = x.height := by
  split <;> rfl

theorem CInv.start {c c' : Ctrl} {st : Store} {h : Nat} (inv : CInv c st) (hs : startNewInstance c h = .ok c') :
    CInv c' st := by
  obtain ⟨hle, hnone, hh, _, hins⟩ := startNewInstance_ok hs
  have hlt : ∀ x ∈ c.insts, x.height < (newInst h).height := by
    intro x hx
    have h1 := inv.top.le x hx
    have h2 := (find_none_iff.mp hnone) x hx
    show x.height < h
    omega
  refine ⟨?_, ?_, inv.wf, ?_⟩
  · rw [hins, hh, addNew_of_lt hlt]
    exact (TopOk.push (newInst h) hlt 1).map _ (stop_height h)
  · intro a ha; rw [hh]; exact Nat.le_trans (inv.le a ha) hle
  · intro a ha hah
    rw [hh] at hah
    have h1 := inv.le a ha
    have hc : c.height = h := by omega
    obtain ⟨i, rest, hl, hih, _⟩ := inv.live a ha (by omega)
    have := (find_none_iff.mp hnone) i (by rw [hl]; simp)
    omega

/-! ## compaction -/

theorem Carries.trim {i : Inst} {a : Stored} (h : Carries i a) : Carries (trim i) a := by
  refine ⟨h.1, h.2.1, ?_⟩
  intro hr
  rw [longest_trim i _ _ (by rw [h.2.1]; exact hr)]
  exact h.2.2 hr

theorem CInv.compact {c : Ctrl} {st : Store} (inv : CInv c st) (h : Nat) : CInv (compactAt c h) st := by
  unfold compactAt
  cases hf : find c.insts h with
  | none => exact inv
  | some i =>
    have hih := find_some_height hf
    refine ⟨?_, inv.le, inv.wf, ?_⟩
    · exact inv.top.replace ⟨i, find_some_mem hf, by rw [trim_height]⟩
    · intro a ha hah
      obtain ⟨i0, rest, hl, hi0, hc⟩ := inv.live a ha hah
      show ∃ i' rest', replaceInst (trim i) c.insts = i' :: rest' ∧ _
      rw [hl]
      by_cases hh : h = c.height
      · have : i = i0 := by
          rw [hl, find_cons] at hf
          simp [hi0, hh] at hf
          exact hf.symm
        subst this
        rw [replaceInst_cons_same (by rw [trim_height])]
        exact ⟨trim i, rest, rfl, hi0, hc.trim⟩
      · rw [replaceInst_cons_other (by rw [trim_height]; omega)]
        exact ⟨i0, _, rfl, hi0, hc⟩

/-! ## SaveInstance -/

/-- what a `saveFound` can do to the highest record -/
theorem saveFound_highest (c : Ctrl) (st : Store) (h : Nat) (m : Msg) :
    (saveFound c st h m).highest = st.highest ∨
    (c.height ≤ h ∧ ∃ i, find c.insts h = some i ∧
      (saveFound c st h m).highest = some ⟨{ trim i with stopped := false }, m⟩) := by
  unfold saveFound
  cases hf : find c.insts h with
  | none => exact Or.inl rfl
  | some i =>
    have hih := find_some_height hf
    simp only
    unfold saveInstance
    by_cases hhi : c.height ≤ i.height
    · right
      refine ⟨by omega, i, rfl, ?_⟩
      cases c.full <;> simp [hhi, storeSave]
    · left
      cases c.full <;> simp [hhi, storeSave]

/-- `saveFound` looks at the controller only through `full`, the container and `c.height ≤ h` -/
theorem saveFound_congr {c c' : Ctrl} (st : Store) (h : Nat) (m : Msg) (hi : c'.insts = c.insts) (hf : c'.full = c.full)
    (hh : c'.height ≤ h ↔ c.height ≤ h) : saveFound c' st h m = saveFound c st h m := by
  unfold saveFound
  rw [hi]
  cases hfd : find c.insts h with
  | none => rfl
  | some i =>
    have hih := find_some_height hfd
    simp only
    unfold saveInstance
    rw [hf]
    have : decide (c'.height ≤ i.height) = decide (c.height ≤ i.height) := by
      rw [hih]; exact decide_eq_decide.mpr hh
    rw [this]

/-- the instance of height `h`, if in the container, is decided and covers `m` (unless trimmed) -/
def Fresh (l : List Inst) (h : Nat) (m : Msg) : Prop :=
  ∀ i, find l h = some i → i.decided = true ∧ (i.round ≤ m.round → m.signers.length ≤ longest i.commits m.round m.root)

theorem CInv.saveFound {c : Ctrl} {st : Store} {h : Nat} {m : Msg} (inv : CInv c st) (hh : h ≤ c.height)
    (hfr : Fresh c.insts h m) : CInv c (saveFound c st h m) := by
  rcases saveFound_highest c st h m with hs | ⟨hle, i, hf, hs⟩
  · exact ⟨inv.top, by rw [hs]; exact inv.le, by rw [hs]; exact inv.wf, by rw [hs]; exact inv.live⟩
  · have hhc : h = c.height := by omega
    have hih := find_some_height hf
    obtain ⟨hdec, hmem⟩ := hfr i hf
    refine ⟨inv.top, ?_, ?_, ?_⟩
    · intro a ha; rw [hs] at ha; cases ha; show i.height ≤ c.height; omega
    · intro a ha; rw [hs] at ha; cases ha
      refine ⟨hdec, ?_⟩
      intro hr
      show m.signers.length ≤ longest (trim i).commits m.round m.root
      rw [longest_trim i _ _ hr]
      exact hmem hr
    · intro a ha _; rw [hs] at ha; cases ha
      obtain ⟨rest, hl⟩ := inv.top.find_head (hhc ▸ hf)
      exact ⟨i, rest, hl, by omega, hdec, rfl, hmem⟩

/-! ## UponDecided -/

theorem instanceForHeight_mem {c : Ctrl} {st : Store} {h : Nat} {i : Inst} (hf : find c.insts h = some i) :
    instanceForHeight c st h = some (i, true) := by
  simp [instanceForHeight, hf]

theorem instanceForHeight_notmem {c : Ctrl} {st : Store} {h : Nat} (hf : find c.insts h = none) :
    instanceForHeight c st h = none ∨ ∃ s, instanceForHeight c st h = some (s, false) := by
  unfold instanceForHeight
  rw [hf]
  simp only
  cases c.full
  · left; rfl
  · cases histGet st.hist h with
    | none => left; rfl
    | some s => right; exact ⟨s.inst, rfl⟩

/-- container after the branch, when the instance is in memory -/
theorem decidedBranch_mem {c : Ctrl} {st : Store} {h : Nat} {m : Msg} {i : Inst} (hf : find c.insts h = some i) :
    ((decidedBranch c st h m).1 = c.insts ∧ (decidedBranch c st h m).2 = false ∧ i.decided = true) ∨
    (∃ i', i'.height = h ∧ (decidedBranch c st h m).1 = replaceInst i' c.insts ∧ (decidedBranch c st h m).2 = true ∧
      i'.decided = true ∧ m ∈ i'.commits ∧
      ((i.decided = false ∧ i'.round = m.round) ∨
       (i.decided = true ∧ i'.round = i.round ∧ i'.commits = i.commits ++ [m] ∧
          longest i.commits m.round m.root < m.signers.length))) := by
  have hih := find_some_height hf
  unfold decidedBranch
  rw [instanceForHeight_mem hf]
  simp only
  by_cases hd : i.decided = true
  · by_cases hl : longest i.commits m.round m.root < m.signers.length
    · right
      refine ⟨{ i with commits := i.commits ++ [m] }, hih, by simp [hd, hl], by simp [hd, hl], hd, by simp,
        Or.inr ⟨hd, rfl, rfl, hl⟩⟩
    · left
      simp [hd, hl]
  · have hd' : i.decided = false := by simpa using hd
    right
    refine ⟨{ i with decided := true, round := m.round, commits := i.commits ++ [m] }, hih, by simp [hd'], by simp [hd'],
      rfl, by simp, Or.inl ⟨hd', rfl⟩⟩

/-- container after the branch, when the instance is not in memory: unchanged, or the new decided instance is added -/
theorem decidedBranch_notmem {c : Ctrl} {st : Store} {h : Nat} {m : Msg} (hf : find c.insts h = none) :
    (decidedBranch c st h m).1 = c.insts ∨
    ((decidedBranch c st h m).1 = addNew c.insts ⟨h, m.round, true, false, [m]⟩ ∧ (decidedBranch c st h m).2 = true) := by
  unfold decidedBranch
  rcases instanceForHeight_notmem (st := st) hf with hn | ⟨s, hs⟩
  · rw [hn]; right; exact ⟨rfl, rfl⟩
  · rw [hs]; left
    simp only
    split
    · simp
    · split <;> simp

theorem decidedBranch_fresh (c : Ctrl) (st : Store) (h : Nat) (m : Msg) (hsave : (decidedBranch c st h m).2 = true) :
    Fresh (decidedBranch c st h m).1 h m := by
  intro x hx
  cases hf : find c.insts h with
  | some i =>
    rcases decidedBranch_mem (st := st) (m := m) hf with ⟨_, h2, _⟩ | ⟨i', hi', h1, _, hd, hm, _⟩
    · rw [h2] at hsave; cases hsave
    · rw [h1, find_replaceInst_same hf hi'] at hx; cases hx
      exact ⟨hd, fun _ => longest_ge hm⟩
  | none =>
    rcases decidedBranch_notmem (st := st) (m := m) hf with h1 | ⟨h1, _⟩
    · rw [h1, hf] at hx; cases hx
    · rw [h1] at hx
      have hmem := find_some_mem hx
      have hxh := find_some_height hx
      rcases mem_addNew hmem with rfl | hmem
      · exact ⟨rfl, fun _ => longest_ge (by simp)⟩
      · exact absurd hxh ((find_none_iff.mp hf) x hmem)

/-- the container update + height bump of `UponDecided` keeps the invariant (store not yet touched) -/
theorem CInv.branch {c : Ctrl} {st : Store} (inv : CInv c st) (h : Nat) (m : Msg) :
    CInv { c with insts := (decidedBranch c st h m).1, height := if c.height < h then h else c.height } st := by
  cases hf : find c.insts h with
  | some i =>
    have hih := find_some_height hf
    have hle : h ≤ c.height := hih ▸ inv.top.le i (find_some_mem hf)
    have hhe : (if c.height < h then h else c.height) = c.height := by
      split
      · omega
      · rfl
    rw [hhe]
    rcases decidedBranch_mem (st := st) (m := m) hf with ⟨h1, _, _⟩ | ⟨i', hi', h1, _, hd', hm', hcase⟩
    · rw [h1]; exact inv
    · rw [h1]
      refine ⟨inv.top.replace ⟨i, find_some_mem hf, by omega⟩, inv.le, inv.wf, ?_⟩
      intro a ha hah
      obtain ⟨i0, rest, hl, hi0, hc⟩ := inv.live a ha hah
      show ∃ i'' rest', replaceInst i' c.insts = i'' :: rest' ∧ _
      rw [hl]
      by_cases hh : h = c.height
      · have hii : i = i0 := by
          rw [hl, find_cons] at hf
          simp [hi0, hh] at hf
          exact hf.symm
        subst hii
        rw [replaceInst_cons_same (by omega)]
        refine ⟨i', rest, rfl, by show i'.height = c.height; omega, hd', ?_, ?_⟩
        · rcases hcase with ⟨hnd, _⟩ | ⟨_, hr, _, _⟩
          · rw [hc.1] at hnd; cases hnd
          · rw [hr]; exact hc.2.1
        · intro hr
          rcases hcase with ⟨hnd, _⟩ | ⟨_, _, hcm, _⟩
          · rw [hc.1] at hnd; cases hnd
          · rw [hcm]; exact Nat.le_trans (hc.2.2 hr) (longest_append_ge _ _ _ _)
      · rw [replaceInst_cons_other (by omega)]
        exact ⟨i0, _, rfl, hi0, hc⟩
  | none =>
    rcases decidedBranch_notmem (st := st) (m := m) hf with h1 | ⟨h1, _⟩
    · rw [h1]
      have hge : c.height ≤ (if c.height < h then h else c.height) := by split <;> omega
      refine ⟨inv.top.mono hge, fun a ha => Nat.le_trans (inv.le a ha) hge, inv.wf, ?_⟩
      intro a ha hah
      have hale := inv.le a ha
      have : ¬ c.height < h := by
        intro hlt; simp only [hlt, if_true] at hah; omega
      simp only [this, if_false] at hah ⊢
      exact inv.live a ha hah
    · rw [h1]
      by_cases hlt : c.height < h
      · simp only [hlt, if_true]
        have hall : ∀ x ∈ c.insts, x.height < (⟨h, m.round, true, false, [m]⟩ : Inst).height := by
          intro x hx
          have := inv.top.le x hx
          show x.height < h
          omega
        rw [addNew_of_lt hall]
        refine ⟨TopOk.push _ hall 1, fun a ha => by have := inv.le a ha; show a.inst.height ≤ h; omega, inv.wf, ?_⟩
        intro a ha hah
        have := inv.le a ha
        have hah' : a.inst.height = h := hah
        omega
      · simp only [hlt, if_false]
        have hne := find_none_iff.mp hf
        refine ⟨inv.top.addNew _ (by show h ≤ c.height; omega) (fun hh x hx => by
            have := hne x hx
            have hh' : h = c.height := hh
            omega), inv.le, inv.wf, ?_⟩
        intro a ha hah
        obtain ⟨i0, rest, hl, hi0, hc⟩ := inv.live a ha hah
        have hi0ne := hne i0 (by rw [hl]; simp)
        show ∃ i'' rest', addNew c.insts _ = i'' :: rest' ∧ _
        rw [hl, addNew_cons_ge (by show ¬ i0.height < h; omega)]
        exact ⟨i0, _, rfl, hi0, hc⟩

theorem uponDecided_eq (c : Ctrl) (st : Store) (h : Nat) (m : Msg) :
    let c2 : Ctrl := { c with insts := (decidedBranch c st h m).1, height := if c.height < h then h else c.height }
    uponDecided c st h m =
      (c2, if (decidedBranch c st h m).2 then saveFound c2 st h m else st, if prevDecidedOf c st h then .dup else .new) := by
  simp only
  unfold uponDecided
  simp only
  congr 2
  split
  · exact saveFound_congr st h m rfl rfl (by simp only; split <;> omega)
  · rfl

theorem uponDecided_height_ge (c : Ctrl) (st : Store) (h : Nat) (m : Msg) :
    h ≤ (uponDecided c st h m).1.height ∧ c.height ≤ (uponDecided c st h m).1.height := by
  have := uponDecided_eq c st h m
  simp only at this
  rw [this]
  simp only
  split <;> omega

theorem CInv.uponDecided {c : Ctrl} {st : Store} (inv : CInv c st) (h : Nat) (m : Msg) :
    CInv (uponDecided c st h m).1 (uponDecided c st h m).2.1 := by
  have := uponDecided_eq c st h m
  simp only at this
  rw [this]
  simp only
  have hb := inv.branch h m
  cases hs : (decidedBranch c st h m).2
  · simpa using hb
  · simp only [if_true]
    apply hb.saveFound
    · simp only; split <;> omega
    · exact decidedBranch_fresh c st h m hs

theorem CInv.processMsg {c : Ctrl} {st : Store} (inv : CInv c st) (q h : Nat) (m : Msg) (ok : Bool) :
    CInv (processMsg q c st h m ok).1 (processMsg q c st h m ok).2.1 := by
  unfold Ssv.Heights.processMsg
  split
  · exact inv
  · split
    · exact inv
    · exact inv.uponDecided h m

/-! ## LoadHighestInstance -/

theorem CInv.load {c : Ctrl} {st : Store} (inv : CInv c st) (full : Bool) :
    CInv (loadHighest (newCtrl full) st).1 st := by
  unfold loadHighest
  cases hs : st.highest with
  | none =>
    exact ⟨trivial, by intro a h; simp [hs] at h, by intro a h; simp [hs] at h, by intro a h; simp [hs] at h⟩
  | some s =>
    have hwf := inv.wf s hs
    simp only [addNew_nil]
    refine ⟨⟨Nat.le_refl _, by simp⟩, ?_, inv.wf, ?_⟩
    · intro a ha; rw [hs] at ha; cases ha; exact Nat.le_refl _
    · intro a ha _; rw [hs] at ha; cases ha
      refine ⟨trim s.inst, [], rfl, rfl, hwf.1, rfl, ?_⟩
      intro hr
      rw [longest_trim s.inst _ _ hr]
      exact hwf.2 hr

end Ssv.Heights
