/- C16 helper lemmas: only-latest for the attester handler, whose fetch ADDS to the epoch's descriptors without
   resetting them — sound only when the epoch's map is empty at every fetch, which is an invariant of runs whose
   event slots never go backwards (`envOK`). -/
import Ssv.Proofs.DutiesLatest

namespace Ssv.Duties

/-- no descriptor of epoch `ep` -/
def Empty (st : HState) (ep : Nat) : Prop := ∀ e ∈ st.store, e.ep ≠ ep

/-! ### attFetch -/

theorem attFetch_flags (st : HState) (ep : Nat) (r : FetchRes) :
    (attFetch st ep r).1.fetchFirst = st.fetchFirst ∧ (attFetch st ep r).1.fetchCur = st.fetchCur ∧
    (attFetch st ep r).1.fetchNext = st.fetchNext ∧ (attFetch st ep r).1.indicesChanged = st.indicesChanged := by
  cases r <;> exact ⟨rfl, rfl, rfl, rfl⟩

theorem attFetch_mem (st : HState) (ep : Nat) (r : FetchRes) :
    ∀ e ∈ (attFetch st ep r).1.store, e ∈ st.store ∨ e.ep = ep := by
  cases r with
  | noIdx => exact fun e he => Or.inl he
  | fail => exact fun e he => Or.inl he
  | ok c ds =>
    intro e he
    rcases mem_addAll_inv _ _ he with h | ⟨d, _, rfl⟩
    · exact Or.inl h
    · exact Or.inr rfl

theorem attFetch_fail (st : HState) (ep : Nat) (r : FetchRes) (h : (attFetch st ep r).2.1 = false) :
    (attFetch st ep r).1 = st := by
  cases r <;> first | rfl | cases h

theorem attFetch_linv (n : Net) {st : HState} {m : LMon} (ep : Nat) (r : FetchRes) (h : LInv .att st m)
    (hE : Empty st ep) : LInv .att (attFetch st ep r).1 (lrun .att n m (attFetch st ep r).2.2) := by
  cases r with
  | noIdx => exact h
  | fail => exact h
  | ok c ds =>
    refine ⟨?_, h.ok⟩
    intro e he hc
    simp only [attFetch, lrun_cons, lrun_nil, LMon.step]
    rcases mem_addAll_inv _ _ he with h1 | ⟨d, hd, rfl⟩
    · simp only [hE e h1, if_false]
      exact h.sub e h1 hc
    · exact ⟨ds, by simp [attEntry, assigned], d, hd, rfl, rfl, Or.inr rfl⟩

/-! ### second half of processFetching -/

theorem attNext_flags (n : Net) (st : HState) (E t : Nat) (r : FetchRes) :
    (attFetchNextPart n st E t r).1.fetchFirst = st.fetchFirst ∧ (attFetchNextPart n st E t r).1.fetchCur = st.fetchCur ∧
    (attFetchNextPart n st E t r).1.indicesChanged = st.indicesChanged ∧
    ((attFetchNextPart n st E t r).1.fetchNext = true → st.fetchNext = true) := by
  have hf := attFetch_flags st (E + 1) r
  unfold attFetchNextPart
  split
  · split
    · rename_i st2 o heq
      simp only [heq] at hf
      exact ⟨hf.1, hf.2.1, hf.2.2.2, fun h => by cases h⟩
    · rename_i st2 o heq
      simp only [heq] at hf
      exact ⟨hf.1, hf.2.1, hf.2.2.2, fun h => by rw [← hf.2.2.1]; exact h⟩
  · exact ⟨rfl, rfl, rfl, fun h => h⟩

theorem attNext_mem (n : Net) (st : HState) (E t : Nat) (r : FetchRes) :
    ∀ e ∈ (attFetchNextPart n st E t r).1.store,
      e ∈ st.store ∨ (e.ep = E + 1 ∧ attShouldFetchNext n t = true ∧ (attFetchNextPart n st E t r).1.fetchNext = false) := by
  have hm := attFetch_mem st (E + 1) r
  have hfail := attFetch_fail st (E + 1) r
  unfold attFetchNextPart
  split
  · rename_i hc
    simp only [Bool.and_eq_true] at hc
    split
    · rename_i st2 o heq
      simp only [heq] at hm
      intro e he
      rcases hm e he with h | h
      · exact Or.inl h
      · exact Or.inr ⟨h, hc.2, rfl⟩
    · rename_i st2 o heq
      simp only [heq] at hfail
      intro e he
      rw [hfail trivial] at he
      exact Or.inl he
  · exact fun e he => Or.inl he

theorem attNext_linv (n : Net) {st : HState} {m : LMon} (E t : Nat) (r : FetchRes) (h : LInv .att st m)
    (hE : st.fetchNext = true → attShouldFetchNext n t = true → Empty st (E + 1)) :
    LInv .att (attFetchNextPart n st E t r).1 (lrun .att n m (attFetchNextPart n st E t r).2) := by
  unfold attFetchNextPart
  split
  · rename_i hc
    simp only [Bool.and_eq_true] at hc
    have := attFetch_linv n (E + 1) r h (hE hc.1 hc.2)
    split
    · rename_i st2 o heq
      simp only [heq] at this
      exact this.mono (fun x hx => hx)
    · rename_i st2 o heq
      simp only [heq] at this
      exact this
  · exact h

/-! ### processFetching -/

theorem attPF_flags (n : Net) (st : HState) (E t : Nat) (r1 r2 : FetchRes) :
    (attProcessFetching n st E t r1 r2).1.fetchFirst = st.fetchFirst ∧
    (attProcessFetching n st E t r1 r2).1.indicesChanged = st.indicesChanged ∧
    ((attProcessFetching n st E t r1 r2).1.fetchCur = true → st.fetchCur = true) ∧
    ((attProcessFetching n st E t r1 r2).1.fetchNext = true → st.fetchNext = true) := by
  have hf := attFetch_flags st E r1
  unfold attProcessFetching
  split
  · rename_i hfc
    split
    · rename_i st1 o1 heq
      simp only [heq] at hf
      exact ⟨hf.1, hf.2.2.2, fun _ => hfc, fun h => by rw [← hf.2.2.1]; exact h⟩
    · rename_i st1 o1 heq
      simp only [heq] at hf
      have hn := attNext_flags n { st1 with fetchCur := false } E t r2
      exact ⟨hn.1.trans hf.1, hn.2.2.1.trans hf.2.2.2, fun _ => hfc, fun h => by rw [← hf.2.2.1]; exact hn.2.2.2 h⟩
  · have hn := attNext_flags n st E t r1
    exact ⟨hn.1, hn.2.2.1, fun h => by rw [← hn.2.1]; exact h, hn.2.2.2⟩

theorem attPF_mem (n : Net) (st : HState) (E t : Nat) (r1 r2 : FetchRes) :
    ∀ e ∈ (attProcessFetching n st E t r1 r2).1.store,
      e ∈ st.store ∨ (e.ep = E ∧ st.fetchCur = true) ∨
      (e.ep = E + 1 ∧ attShouldFetchNext n t = true ∧ (attProcessFetching n st E t r1 r2).1.fetchNext = false) := by
  have hm := attFetch_mem st E r1
  unfold attProcessFetching
  split
  · rename_i hfc
    split
    · rename_i st1 o1 heq
      simp only [heq] at hm
      intro e he
      rcases hm e he with h | h
      · exact Or.inl h
      · exact Or.inr (Or.inl ⟨h, hfc⟩)
    · rename_i st1 o1 heq
      simp only [heq] at hm
      intro e he
      rcases attNext_mem n { st1 with fetchCur := false } E t r2 e he with h | h
      · rcases hm e h with h | h
        · exact Or.inl h
        · exact Or.inr (Or.inl ⟨h, hfc⟩)
      · exact Or.inr (Or.inr h)
  · intro e he
    rcases attNext_mem n st E t r1 e he with h | h
    · exact Or.inl h
    · exact Or.inr (Or.inr h)

/-- if `fetchCurrentEpoch` is still set afterwards, the fetch of the current epoch failed and nothing was stored -/
theorem attPF_curTrue (n : Net) (st : HState) (E t : Nat) (r1 r2 : FetchRes)
    (h : (attProcessFetching n st E t r1 r2).1.fetchCur = true) (hfc : st.fetchCur = true) :
    (attProcessFetching n st E t r1 r2).1.store = st.store := by
  have hfail := attFetch_fail st E r1
  unfold attProcessFetching at h ⊢
  simp only [hfc, if_true] at h ⊢
  split
  · rename_i st1 o1 heq
    simp only [heq] at hfail
    rw [hfail trivial]
  · rename_i st1 o1 heq
    simp only [heq] at h
    have hn := attNext_flags n { st1 with fetchCur := false } E t r2
    rw [hn.2.1] at h
    cases h

theorem attPF_linv (n : Net) {st : HState} {m : LMon} (E t : Nat) (r1 r2 : FetchRes) (h : LInv .att st m)
    (hE1 : st.fetchCur = true → Empty st E)
    (hE2 : st.fetchNext = true → attShouldFetchNext n t = true → Empty st (E + 1)) :
    LInv .att (attProcessFetching n st E t r1 r2).1 (lrun .att n m (attProcessFetching n st E t r1 r2).2) := by
  have hm := attFetch_mem st E r1
  have hf := attFetch_flags st E r1
  unfold attProcessFetching
  split
  · rename_i hfc
    have h1 := attFetch_linv n E r1 h (hE1 hfc)
    split
    · rename_i st1 o1 heq
      simp only [heq] at h1
      exact h1
    · rename_i st1 o1 heq
      simp only [heq] at h1 hm hf
      simp only [lrun_append]
      apply attNext_linv n (st := { st1 with fetchCur := false }) E t r2 (h1.mono (fun x hx => hx))
      intro hfn hsh e he
      rcases hm e he with h2 | h2
      · exact hE2 (by rw [← hf.2.2.1]; exact hfn) hsh e h2
      · omega
  · exact attNext_linv n E t r1 h hE2

/-! ### the environment invariant of the attester handler -/

theorem attPost_flags (n : Net) (st : HState) (slot : Nat) :
    (attPost n st slot).fetchFirst = st.fetchFirst ∧ (attPost n st slot).fetchCur = st.fetchCur ∧
    (attPost n st slot).indicesChanged = st.indicesChanged ∧
    (attPost n st slot).fetchNext = (st.fetchNext || slot % n.spe == n.spe / 2 - 2) := by
  unfold attPost
  by_cases h1 : (slot % n.spe == n.spe / 2 - 2) = true <;> by_cases h2 : (slot % n.spe == n.spe - 1) = true <;>
    simp [h1, h2]

theorem attPost_sub (n : Net) (st : HState) (slot : Nat) : ∀ e ∈ (attPost n st slot).store, e ∈ st.store := by
  intro e he
  rcases attPost_store n st slot with h | ⟨ep, h⟩ <;> rw [h] at he
  · exact he
  · exact (mem_reset.mp he).1

structure AEnv (n : Net) (st : HState) (lt : Option Nat) (now : Nat) : Prop where
  i1 : st.fetchFirst = true → st.fetchCur = true
  i2 : st.indicesChanged = true → st.fetchCur = true
  ltnow : ∀ t, lt = some t → t ≤ now
  e3 : ∀ e ∈ st.store, ∃ t, lt = some t ∧
        (e.ep ≤ n.epoch t ∨ (e.ep = n.epoch t + 1 ∧ attShouldFetchNext n t = true))
  p1 : st.fetchCur = true → ∀ e ∈ st.store, e.ep ≤ n.epoch now ∧
        ((st.fetchFirst = true ∨ st.indicesChanged = false) → e.ep ≠ n.epoch now)
  p2 : st.fetchNext = true → ∀ e ∈ st.store, e.ep ≤ n.epoch now

/-- descriptors that satisfied `e3` for the previous tick satisfy it for a later tick `t0` -/
theorem e3_step (n : Net) {lt : Option Nat} {t0 : Nat} (hlt : ∀ t, lt = some t → t < t0) {e : Entry}
    (h : ∃ t, lt = some t ∧ (e.ep ≤ n.epoch t ∨ (e.ep = n.epoch t + 1 ∧ attShouldFetchNext n t = true))) :
    e.ep ≤ n.epoch t0 ∨ (e.ep = n.epoch t0 + 1 ∧ attShouldFetchNext n t0 = true) := by
  obtain ⟨t, ht, h⟩ := h
  have hle : t ≤ t0 := Nat.le_of_lt (hlt t ht)
  have hm := epoch_mono n hle
  rcases h with h | ⟨h1, h2⟩
  · exact Or.inl (by omega)
  · by_cases heq : n.epoch t = n.epoch t0
    · exact Or.inr ⟨by omega, attShould_mono n heq hle h2⟩
    · exact Or.inl (by omega)

theorem mid_not_should (n : Net) (t : Nat) (h : (t % n.spe == n.spe / 2 - 2) = true) : attShouldFetchNext n t = false := by
  simp only [beq_iff_eq] at h
  simp only [attShouldFetchNext, decide_eq_false_iff_not]
  omega

/-- common part of both tick paths: from the state `s0` that `processFetching` starts in -/
theorem attTick_env_core (n : Net) {st s0 : HState} {lt : Option Nat} {now t0 : Nat} (r1 r2 : FetchRes)
    (h : AEnv n st lt now) (hlt : ∀ t, lt = some t → t < t0) (hnow : now ≤ t0)
    (hsub : ∀ e ∈ s0.store, e ∈ st.store)
    (hfc : s0.fetchCur = st.fetchCur) (hfn : s0.fetchNext = st.fetchNext)
    (hff : s0.fetchFirst = false) (hic : s0.indicesChanged = false)
    (hE1 : s0.fetchCur = true → Empty s0 (n.epoch t0)) :
    AEnv n (attPost n (attProcessFetching n s0 (n.epoch t0) t0 r1 r2).1 t0) (some t0) t0 := by
  have hpf := attPF_flags n s0 (n.epoch t0) t0 r1 r2
  have hpm := attPF_mem n s0 (n.epoch t0) t0 r1 r2
  have hpc := attPF_curTrue n s0 (n.epoch t0) t0 r1 r2
  have hqf := attPost_flags n (attProcessFetching n s0 (n.epoch t0) t0 r1 r2).1 t0
  have hqs := attPost_sub n (attProcessFetching n s0 (n.epoch t0) t0 r1 r2).1 t0
  generalize (attProcessFetching n s0 (n.epoch t0) t0 r1 r2).1 = s at hpf hpm hpc hqf hqs
  have hem := epoch_mono n hnow
  have he3 : ∀ e ∈ s.store, e.ep ≤ n.epoch t0 ∨ (e.ep = n.epoch t0 + 1 ∧ attShouldFetchNext n t0 = true) := by
    intro e he
    rcases hpm e he with h1 | h1 | h1
    · exact e3_step n hlt (h.e3 e (hsub e h1))
    · exact Or.inl (by omega)
    · exact Or.inr ⟨h1.1, h1.2.1⟩
  refine ⟨?_, ?_, ?_, ?_, ?_, ?_⟩
  · intro hf; rw [hqf.1, hpf.1, hff] at hf; cases hf
  · intro hi; rw [hqf.2.2.1, hpf.2.1, hic] at hi; cases hi
  · intro t ht; cases ht; exact Nat.le_refl _
  · intro e he
    exact ⟨t0, rfl, he3 e (hqs e he)⟩
  · intro hc e he
    rw [hqf.2.1] at hc
    have hc0 := hpf.2.2.1 hc
    have hst := hpc hc hc0
    have he0 : e ∈ s0.store := by rw [← hst]; exact hqs e he
    have := (h.p1 (by rw [← hfc]; exact hc0) e (hsub e he0)).1
    exact ⟨by omega, fun _ => hE1 hc0 e he0⟩
  · intro hn e he
    have hes := hqs e he
    by_cases hsh : attShouldFetchNext n t0 = true
    · -- the mid-epoch flag is not set at a slot that satisfies shouldFetchNexEpoch
      have hmid : (t0 % n.spe == n.spe / 2 - 2) = false := by
        cases hm : (t0 % n.spe == n.spe / 2 - 2) with
        | false => rfl
        | true => rw [mid_not_should n t0 hm] at hsh; cases hsh
      rw [hqf.2.2.2, hmid, Bool.or_false] at hn
      rcases hpm e hes with h1 | h1 | h1
      · have := h.p2 (by rw [← hfn]; exact hpf.2.2.2 hn) e (hsub e h1)
        omega
      · omega
      · rw [hn] at h1; cases h1.2.2
    · rcases he3 e hes with h1 | h1
      · exact h1
      · exact absurd h1.2 hsh

theorem attTick_envL (n : Net) {st : HState} {m : LMon} {lt : Option Nat} {now : Nat} (t0 clock : Nat) (r1 r2 : FetchRes)
    (h : AEnv n st lt now) (hl : LInv .att st m) (hlt : ∀ t, lt = some t → t < t0) (hnow : now ≤ t0) :
    AEnv n (attTick n st t0 clock r1 r2).1 (some t0) t0 ∧
    LInv .att (attTick n st t0 clock r1 r2).1 (lrun .att n m (attTick n st t0 clock r1 r2).2) := by
  have hem := epoch_mono n hnow
  obtain ⟨store, ff, fc, fn, ic⟩ := st
  cases ff
  · -- regular tick
    let s0 : HState := if ic = true then ⟨store.reset (n.epoch t0), false, fc, fn, false⟩ else ⟨store, false, fc, fn, ic⟩
    have hs0 : s0 = if ic = true then ⟨store.reset (n.epoch t0), false, fc, fn, false⟩ else ⟨store, false, fc, fn, ic⟩ := rfl
    have hsub : ∀ e ∈ s0.store, e ∈ store := by
      intro e he; rw [hs0] at he; split at he
      · exact (mem_reset.mp he).1
      · exact he
    have hfc : s0.fetchCur = fc := by rw [hs0]; split <;> rfl
    have hfn : s0.fetchNext = fn := by rw [hs0]; split <;> rfl
    have hff : s0.fetchFirst = false := by rw [hs0]; split <;> rfl
    have hic : s0.indicesChanged = false := by
      rw [hs0]; split
      · rfl
      · rename_i hh; simpa using hh
    have hE1 : s0.fetchCur = true → Empty s0 (n.epoch t0) := by
      intro hc e he
      rw [hs0] at he
      split at he
      · exact (mem_reset.mp he).2
      · rename_i hh
        have hicf : ic = false := by simpa using hh
        have := h.p1 (by rw [← hfc]; exact hc) e he
        have h2 := this.2 (Or.inr hicf)
        have h1 := this.1
        omega
    have hE2 : s0.fetchNext = true → attShouldFetchNext n t0 = true → Empty s0 (n.epoch t0 + 1) := by
      intro hn _ e he
      have := h.p2 (by rw [← hfn]; exact hn) e (hsub e he)
      omega
    constructor
    · simp only [attTick, Bool.false_eq_true, if_false]
      exact attTick_env_core n r1 r2 h hlt hnow hsub hfc hfn hff hic hE1
    · simp only [attTick, Bool.false_eq_true, if_false, lrun_append]
      have h1 := linv_exec .att n t0 clock hl
      have h2 := attPF_linv n (st := s0) (n.epoch t0) t0 r1 r2 (h1.mono hsub) hE1 hE2
      exact h2.of_store (attPost_store _ _ _)
  · -- fetch-first tick
    have hfc : fc = true := h.i1 rfl
    let s0 : HState := ⟨store, false, fc, fn, false⟩
    have hE1 : s0.fetchCur = true → Empty s0 (n.epoch t0) := by
      intro _ e he
      have := h.p1 hfc e he
      have h2 := this.2 (Or.inl rfl)
      have h1 := this.1
      omega
    have hE2 : s0.fetchNext = true → attShouldFetchNext n t0 = true → Empty s0 (n.epoch t0 + 1) := by
      intro hn _ e he
      have := h.p2 hn e he
      omega
    constructor
    · simp only [attTick, if_true]
      exact attTick_env_core n (s0 := s0) r1 r2 h hlt hnow (fun e he => he) rfl rfl rfl rfl hE1
    · simp only [attTick, if_true, lrun_append]
      have h1 := attPF_linv n (st := s0) (n.epoch t0) t0 r1 r2 (hl.mono (fun x hx => hx)) hE1 hE2
      have h2 := linv_exec .att n t0 clock h1
      exact h2.of_store (attPost_store _ _ _)

/-- a descriptor known to the `e3` clause is not beyond the epoch of a later slot `r`, unless it belongs to the
    next epoch and `r` is in the fetch-next window (in which case the handlers reset that epoch) -/
theorem e3_le (n : Net) {lt : Option Nat} {r : Nat} {e : Entry} (hlt : ∀ t, lt = some t → t ≤ r)
    (h3 : ∃ t, lt = some t ∧ (e.ep ≤ n.epoch t ∨ (e.ep = n.epoch t + 1 ∧ attShouldFetchNext n t = true)))
    (hne : attShouldFetchNext n r = true → e.ep ≠ n.epoch r + 1) : e.ep ≤ n.epoch r := by
  obtain ⟨t, ht, h⟩ := h3
  have hle := hlt t ht
  have hm := epoch_mono n hle
  rcases h with h | ⟨h1, h2⟩
  · omega
  · by_cases heq : n.epoch t = n.epoch r
    · have := hne (attShould_mono n heq hle h2)
      omega
    · omega

theorem attReorg_env (n : Net) {st : HState} {lt : Option Nat} {now : Nat} (r : Nat) (prev cur : Bool)
    (h : AEnv n st lt now) (hnow : now ≤ r) : AEnv n (attReorg n st r prev cur) lt r := by
  have hem := epoch_mono n hnow
  have hltr : ∀ t, lt = some t → t ≤ r := fun t ht => Nat.le_trans (h.ltnow t ht) hnow
  obtain ⟨store, ff, fc, fn, ic⟩ := st
  have hold : ∀ (fn' : Bool), (fn' = true → fn = true) →
      AEnv n ⟨store, ff, fc, fn', ic⟩ lt r := by
    intro fn' hfn'
    refine ⟨h.i1, h.i2, hltr, h.e3, ?_, ?_⟩
    · intro hc e he
      have := h.p1 hc e he
      exact ⟨by have := this.1; omega, fun hcnd => by have h1 := this.1; have h2 := this.2 hcnd; omega⟩
    · intro hn e he
      have := h.p2 (hfn' hn) e he
      omega
  cases prev
  · cases cur
    · simp only [attReorg, Bool.false_eq_true, if_false]; exact hold fn (fun x => x)
    · cases hsh : attShouldFetchNext n r
      · simp only [attReorg, Bool.false_eq_true, if_false, if_true, hsh]; exact hold fn (fun x => x)
      · simp only [attReorg, Bool.false_eq_true, if_false, if_true, hsh]
        refine ⟨h.i1, h.i2, hltr, fun e he => h.e3 e (mem_reset.mp he).1, ?_, ?_⟩
        · intro hc e he
          obtain ⟨he0, _⟩ := mem_reset.mp he
          have := h.p1 hc e he0
          exact ⟨by have := this.1; omega, fun hcnd => by have h1 := this.1; have h2 := this.2 hcnd; omega⟩
        · intro _ e he
          obtain ⟨he0, hne⟩ := mem_reset.mp he
          exact e3_le n hltr (h.e3 e he0) (fun _ => hne)
  · cases hsh : attShouldFetchNext n r
    · simp only [attReorg, if_true, hsh, Bool.false_eq_true, if_false]
      refine ⟨fun _ => rfl, fun _ => rfl, hltr, fun e he => h.e3 e (mem_reset.mp he).1, ?_, ?_⟩
      · intro _ e he
        obtain ⟨he0, hne⟩ := mem_reset.mp he
        exact ⟨e3_le n hltr (h.e3 e he0) (fun hh => by rw [hsh] at hh; cases hh), fun _ => hne⟩
      · intro hn e he
        obtain ⟨he0, _⟩ := mem_reset.mp he
        have := h.p2 hn e he0
        omega
    · simp only [attReorg, if_true, hsh]
      refine ⟨fun _ => rfl, fun _ => rfl, hltr, fun e he => h.e3 e (mem_reset.mp (mem_reset.mp he).1).1, ?_, ?_⟩
      · intro _ e he
        obtain ⟨he1, hne1⟩ := mem_reset.mp he
        obtain ⟨he0, hne0⟩ := mem_reset.mp he1
        exact ⟨e3_le n hltr (h.e3 e he0) (fun _ => hne1), fun _ => hne0⟩
      · intro _ e he
        obtain ⟨he1, hne1⟩ := mem_reset.mp he
        obtain ⟨he0, _⟩ := mem_reset.mp he1
        exact e3_le n hltr (h.e3 e he0) (fun _ => hne1)

theorem attIndices_env (n : Net) {st : HState} {lt : Option Nat} {now : Nat} (c : Nat)
    (h : AEnv n st lt now) (hnow : now ≤ c) : AEnv n (attIndices n st c) lt c := by
  have hem := epoch_mono n hnow
  have hltr : ∀ t, lt = some t → t ≤ c := fun t ht => Nat.le_trans (h.ltnow t ht) hnow
  obtain ⟨store, ff, fc, fn, ic⟩ := st
  cases hsh : attShouldFetchNext n c
  · simp only [attIndices, hsh, Bool.false_eq_true, if_false]
    refine ⟨fun _ => rfl, fun _ => rfl, hltr, h.e3, ?_, ?_⟩
    · intro _ e he
      refine ⟨e3_le n hltr (h.e3 e he) (fun hh => by rw [hsh] at hh; cases hh), ?_⟩
      intro hcnd
      rcases hcnd with hf | hi
      · have := h.p1 (h.i1 hf) e he
        have h1 := this.1; have h2 := this.2 (Or.inl hf); omega
      · cases hi
    · intro hn e he
      have := h.p2 hn e he
      omega
  · simp only [attIndices, hsh, if_true]
    refine ⟨fun _ => rfl, fun _ => rfl, hltr, fun e he => h.e3 e (mem_reset.mp he).1, ?_, ?_⟩
    · intro _ e he
      obtain ⟨he0, hne⟩ := mem_reset.mp he
      refine ⟨e3_le n hltr (h.e3 e he0) (fun _ => hne), ?_⟩
      intro hcnd
      rcases hcnd with hf | hi
      · have := h.p1 (h.i1 hf) e he0
        have h1 := this.1; have h2 := this.2 (Or.inl hf); omega
      · cases hi
    · intro _ e he
      obtain ⟨he0, hne⟩ := mem_reset.mp he
      exact e3_le n hltr (h.e3 e he0) (fun _ => hne)

theorem attStore_sub_of_notice (n : Net) (st : HState) :
    (∀ r p c, ∀ e ∈ (attReorg n st r p c).store, e ∈ st.store) ∧ (∀ c, ∀ e ∈ (attIndices n st c).store, e ∈ st.store) := by
  constructor
  · intro r p c e he
    unfold attReorg at he
    split at he
    · split at he
      · exact (mem_reset.mp (mem_reset.mp he).1).1
      · exact (mem_reset.mp he).1
    · split at he
      · split at he
        · exact (mem_reset.mp he).1
        · exact he
      · exact he
  · intro c e he
    unfold attIndices at he
    split at he
    · exact (mem_reset.mp he).1
    · exact he

/-! ### whole runs -/

theorem att_onlyLatest_runFrom (n : Net) : ∀ (evs : List Event) (st : HState) (m : LMon) (lt : Option Nat) (now : Nat),
    AEnv n st lt now → LInv .att st m → envOK lt now evs = true →
    (lrun .att n m (runFrom .att n st evs)).ok = true := by
  intro evs
  induction evs with
  | nil => intro st m lt now _ hl _; exact hl.ok
  | cons e es ih =>
    intro st m lt now he hl henv
    cases e with
    | tick t0 clock r1 r2 =>
      simp only [envOK, Bool.and_eq_true, decide_eq_true_eq] at henv
      have hlt : ∀ t, lt = some t → t < t0 := by
        intro t ht; subst ht; simpa using henv.1.1
      obtain ⟨h1, h2⟩ := attTick_envL n t0 clock r1 r2 he hl hlt henv.1.2
      simp only [runFrom, lrun_append]
      exact ih _ _ _ _ h1 h2 henv.2
    | reorg r p c =>
      simp only [envOK, Bool.and_eq_true, decide_eq_true_eq] at henv
      simp only [runFrom, step, attStep, List.nil_append]
      exact ih _ _ _ _ (attReorg_env n r p c he henv.1) (hl.mono ((attStore_sub_of_notice n st).1 r p c)) henv.2
    | indices c =>
      simp only [envOK, Bool.and_eq_true, decide_eq_true_eq] at henv
      simp only [runFrom, step, attStep, List.nil_append]
      exact ih _ _ _ _ (attIndices_env n c he henv.1) (hl.mono ((attStore_sub_of_notice n st).2 c)) henv.2

theorem att_onlyLatest_run (n : Net) (clock0 : Nat) (r0 : FetchRes) (evs : List Event)
    (henv : envOK none clock0 evs = true) : onlyLatestOK .att n (run .att n clock0 r0 evs) = true := by
  unfold onlyLatestOK run
  have henv0 : AEnv n attInit none clock0 :=
    { i1 := fun _ => rfl
      i2 := fun h => nomatch h
      ltnow := fun t ht => nomatch ht
      e3 := fun e he => nomatch he
      p1 := fun _ e he => nomatch he
      p2 := fun _ e he => nomatch he }
  have hl0 : LInv .att attInit LMon.init := ⟨fun e he => (nomatch he), rfl⟩
  have := att_onlyLatest_runFrom n evs attInit LMon.init none clock0 henv0 hl0 henv
  simpa [initH, lrun] using this

end Ssv.Duties
