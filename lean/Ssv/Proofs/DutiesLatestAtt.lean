/- C16 helper lemmas: how the attester sub-functions treat the handler flags. -/
import Ssv.Proofs.DutiesLatest

namespace Ssv.Duties

theorem attFetch_flags (st : HState) (ep : Nat) (r : FetchRes) :
    (attFetch st ep r).1.fetchFirst = st.fetchFirst ∧ (attFetch st ep r).1.fetchCur = st.fetchCur ∧
    (attFetch st ep r).1.fetchNext = st.fetchNext ∧ (attFetch st ep r).1.indicesChanged = st.indicesChanged := by
  cases r <;> exact ⟨rfl, rfl, rfl, rfl⟩

theorem attNext_flags (n : Net) (st : HState) (E t : Nat) (r : FetchRes) :
    (attFetchNextPart n st E t r).1.fetchFirst = st.fetchFirst ∧ (attFetchNextPart n st E t r).1.fetchCur = st.fetchCur ∧
    (attFetchNextPart n st E t r).1.indicesChanged = st.indicesChanged ∧
    ((attFetchNextPart n st E t r).1.fetchNext = true → st.fetchNext = true) := by
  have hf := attFetch_flags st (E + 1) r
  unfold attFetchNextPart
  split
  · split
    · rename_i st2 o heq
      simp only [heq] at hf
      exact ⟨hf.1, hf.2.1, hf.2.2.2, fun h => by cases h⟩
    · rename_i st2 o heq
      simp only [heq] at hf
      exact ⟨hf.1, hf.2.1, hf.2.2.2, fun h => by rw [← hf.2.2.1]; exact h⟩
  · exact ⟨rfl, rfl, rfl, fun h => h⟩

theorem attPF_flags (n : Net) (st : HState) (E t : Nat) (r1 r2 : FetchRes) :
    (attProcessFetching n st E t r1 r2).1.fetchFirst = st.fetchFirst ∧
    (attProcessFetching n st E t r1 r2).1.indicesChanged = st.indicesChanged ∧
    ((attProcessFetching n st E t r1 r2).1.fetchCur = true → st.fetchCur = true) ∧
    ((attProcessFetching n st E t r1 r2).1.fetchNext = true → st.fetchNext = true) := by
  have hf := attFetch_flags st E r1
  unfold attProcessFetching
  split
  · rename_i hfc
    split
    · rename_i st1 o1 heq
      simp only [heq] at hf
      exact ⟨hf.1, hf.2.2.2, fun _ => hfc, fun h => by rw [← hf.2.2.1]; exact h⟩
    · rename_i st1 o1 heq
      simp only [heq] at hf
      have hn := attNext_flags n { st1 with fetchCur := false } E t r2
      exact ⟨hn.1.trans hf.1, hn.2.2.1.trans hf.2.2.2, fun _ => hfc, fun h => by rw [← hf.2.2.1]; exact hn.2.2.2 h⟩
  · have hn := attNext_flags n st E t r1
    exact ⟨hn.1, hn.2.2.1, fun h => by rw [← hn.2.1]; exact h, hn.2.2.2⟩

theorem attPost_flags (n : Net) (st : HState) (slot : Nat) :
    (attPost n st slot).fetchFirst = st.fetchFirst ∧ (attPost n st slot).fetchCur = st.fetchCur ∧
    (attPost n st slot).indicesChanged = st.indicesChanged ∧
    (attPost n st slot).fetchNext = (st.fetchNext || slot % n.spe == n.spe / 2 - 2) := by
  unfold attPost
  by_cases h1 : (slot % n.spe == n.spe / 2 - 2) = true <;> by_cases h2 : (slot % n.spe == n.spe - 1) = true <;>
    simp [h1, h2]

theorem attPost_sub (n : Net) (st : HState) (slot : Nat) : ∀ e ∈ (attPost n st slot).store, e ∈ st.store := by
  intro e he
  rcases attPost_store n st slot with h | ⟨ep, h⟩ <;> rw [h] at he
  · exact he
  · exact (mem_reset.mp he).1

theorem attNext_keep (n : Net) (st : HState) (E t : Nat) (r : FetchRes)
    (h : attShouldFetchNext n t = false) : (attFetchNextPart n st E t r).1.fetchNext = st.fetchNext := by
  unfold attFetchNextPart
  simp [h]

/-- outside the fetch-next window `processFetching` leaves `fetchNextEpoch` alone -/
theorem attPF_keep (n : Net) (st : HState) (E t : Nat) (r1 r2 : FetchRes)
    (h : attShouldFetchNext n t = false) : (attProcessFetching n st E t r1 r2).1.fetchNext = st.fetchNext := by
  have hf := attFetch_flags st E r1
  unfold attProcessFetching
  split
  · split
    · rename_i st1 o1 heq
      simp only [heq] at hf
      exact hf.2.2.1
    · rename_i st1 o1 heq
      simp only [heq] at hf
      rw [attNext_keep n _ E t r2 h]
      exact hf.2.2.1
  · exact attNext_keep n st E t r1 h

end Ssv.Duties
