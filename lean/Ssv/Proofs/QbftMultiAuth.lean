/-
C01 all heights, part 3 — unforgeability seen from ONE height: `AuthT` (every verified signed part OF THAT HEIGHT that lists
a correct signer is reflected in the height's ghost trace), and the Layer-B node lemmas re-stated over `AuthT`
(the single-height versions took the whole log; with many heights the log also holds other heights' messages).
-/
import Ssv.Proofs.QbftNodeRules2
import Ssv.Proofs.QbftMultiCtrl2
set_option linter.unusedSimpArgs false
set_option linter.unusedVariables false

namespace Ssv.Qbft.M
open Ssv.Qbft Ssv.Qbft.B

/-- a signed part of the height whose signature verifies is reflected in the height's trace -/
def BackedT (P : B.Params) (T : List (Ev (B.Op P))) (b : Base) : Prop :=
  b.height = P.height → b.ident = ownIdent → b.sigOk = true → ∀ j : B.Op P, P.honest j = true → opId j ∈ b.signers →
    (b.type = tPrepare → Ev.P j b.round b.root ∈ T) ∧ (b.type = tCommit → Ev.K j b.round b.root ∈ T) ∧
    (b.type = tRoundChange → Ev.RC j b.round b.dataRound b.root ∈ T)

def AuthT (P : B.Params) (T : List (Ev (B.Op P))) (m : Msg) : Prop :=
  m.ident = ownIdent ∧ BackedT P T m.toBase ∧ ∀ rc ∈ m.rcJust, BackedT P T rc.toBase ∧ ∀ pm ∈ rc.just, BackedT P T pm

variable {P : B.Params} {T : List (Ev (B.Op P))}

theorem prepOK_of_valid' (i : B.Op P) (m : Msg) (h r root : Nat) (hh : h = P.height)
    (hv : validSignedPrepare (P.cfg i) m.toBase h r root = .ok ()) (hid : m.ident = ownIdent) (ha : BackedT P T m.toBase) :
    PrepOK P T m ∧ m.round = r ∧ m.root = root := by
  obtain ⟨ht, hhe, hr, hroot, hso, sg, hsg, hc⟩ := validSignedPrepare_ok _ _ _ _ _ _ hv
  refine ⟨⟨sg, hsg, hc, ?_⟩, hr, hroot⟩
  intro j hj hjs
  have hmem : opId j ∈ m.toBase.signers := by rw [hsg, hjs]; simp
  exact (ha (by rw [hhe, hh]) hid hso j hj hmem).1 ht

theorem commitOK_of' (m : Msg) (ht : m.type = tCommit) (hso : m.sigOk = true) (hnd : m.signers.Nodup)
    (hc : ∀ s ∈ m.signers, s ∈ P.committee) (hh : m.height = P.height) (hid : m.ident = ownIdent)
    (ha : BackedT P T m.toBase) : CommitOK P T m :=
  ⟨hnd, hc, fun j hj hmem => (ha hh hid hso j hj hmem).2.1 ht⟩

theorem cert_facts' (hP : P.Valid) (i : B.Op P) (m : Msg) (hv : validateDecided (P.cfg i) m = .ok ())
    (hh : m.height = P.height) (hid : m.ident = ownIdent) (ha : BackedT P T m.toBase) : CertFacts P T m := by
  obtain ⟨ht, hq, hnd, _, hso, hc, hhash⟩ := validateDecided_ok _ m () hv
  have hok := commitOK_of' m ht hso hnd hc hh hid ha
  have hq' : P.quorum ≤ uniqueCount m.signers := by rw [uniqueCount_of_nodup _ hnd]; exact hq
  obtain ⟨j, hj, hmem⟩ := exists_honest_signer P hP m.signers hc hq'
  exact ⟨hok, hhash, hh, hq', j, hj, (ha hh hid hso j hj hmem).2.1 ht⟩

theorem commitOK_of_validateCommit' (i : B.Op P) (m : Msg) (h r : Nat) (p : Msg) (hh : h = P.height)
    (hv : validateCommit (P.cfg i) m.toBase h r p = .ok ()) (hid : m.ident = ownIdent) (ha : BackedT P T m.toBase) :
    CommitOK P T m ∧ m.round = r ∧ p.root = m.root := by
  obtain ⟨ht, hso, hc, hnd, _, hr, hroot, hhe, _⟩ := validateCommit_ok _ _ _ _ _ _ hv
  exact ⟨commitOK_of' m ht hso hnd hc (by rw [← hh]; exact hhe) hid ha, hr, hroot⟩

theorem BackedT.ext {b : Base} (h : BackedT P T b) (evs : List (Ev (B.Op P))) : BackedT P (T ++ evs) b := by
  intro h1 h1' h2 j hj hm
  obtain ⟨a, b', c⟩ := h h1 h1' h2 j hj hm
  exact ⟨fun t => List.mem_append_left _ (a t), fun t => List.mem_append_left _ (b' t), fun t => List.mem_append_left _ (c t)⟩

/-- every node transition of a live (or freshly created) instance keeps the node invariant -/
theorem nodeInv_step' (hP : P.Valid)
    (H0 : ∀ (j : B.Op P) (r v : Nat), P.honest j = true → Ev.K j r v ∈ T → 1 ≤ r)
    (i : B.Op P) {os os' : Option State} {bs : List Msg} {evs : List (Ev (B.Op P))}
    (hst : NStep (P.cfg i) P.height (AuthT P T) i os os' bs evs)
    (hlive : ∀ s, os = some s → NodeInv P T i s)
    (hfresh : os = none → ∀ s', os' = some s' → ∀ e ∈ T, e.node ≠ i) :
    ∀ s', os' = some s' → NodeInv P (T ++ evs) i s' := by
  intro s' hs'
  cases hst with
  | idle h1 h2 h3 =>
    rw [h3, List.append_nil]
    exact hlive s' (by rw [← h1]; exact hs')
  | create v h0 h1 h2 h3 =>
    have hno := hfresh h0 s' hs'
    rw [h1] at hs'; simp only [Option.some.injEq] at hs'; subst hs'
    rw [h3, List.append_nil]
    exact nodeInv_create hno v
  | createDecided m ha h0 hv hh h1 h2 h3 =>
    have hno := hfresh h0 s' hs'
    rw [h1] at hs'; simp only [Option.some.injEq] at hs'; subst hs'
    rw [h3]
    have cf := cert_facts' hP i m hv hh ha.1 ha.2.1
    obtain ⟨j, hj, hK⟩ := cf.honest
    exact nodeInv_createDecided hno m cf.ok (H0 j _ _ hj hK)
  | adopt s m ha h0 hd hv hh h1 h2 h3 =>
    have hinv := hlive s h0
    rw [h1] at hs'; simp only [Option.some.injEq] at hs'; subst hs'
    rw [h3]
    have cf := cert_facts' hP i m hv hh ha.1 ha.2.1
    obtain ⟨j, hj, hK⟩ := cf.honest
    exact NodeInv.step_adopt hinv m hd cf.ok (H0 j _ _ hj hK)
  | more s m ha h0 hd hv hh h1 h2 h3 =>
    have hinv := hlive s h0
    rw [h1] at hs'; simp only [Option.some.injEq] at hs'; subst hs'
    rw [h3, List.append_nil]
    exact NodeInv.upd_commit hinv m (cert_facts' hP i m hv hh ha.1 ha.2.1).ok
  | prop s m ha h0 hv hnew h1 h2 h3 =>
    have hinv := hlive s h0
    rw [h1] at hs'; simp only [Option.some.injEq] at hs'; subst hs'
    rw [h3]
    exact NodeInv.step_prop hinv m hv hnew
  | prep s m p ha h0 hacc hv h1 h2 h3 =>
    have hinv := hlive s h0
    rw [h1] at hs'; simp only [Option.some.injEq] at hs'; subst hs'
    rw [h3, List.append_nil]
    obtain ⟨hok, hr, hroot⟩ := prepOK_of_valid' i m _ _ _ hinv.height hv ha.1 ha.2.1
    refine NodeInv.upd_prepare hinv m hok ?_
    by_cases hpr : p.round = s.round
    · exact Or.inl ⟨p, (hinv.acc p hacc).1, by rw [hpr, hr], hroot.symm⟩
    · exact Or.inr ⟨(hinv.acc p hacc).2 hpr, Or.inr ⟨hr, p, hacc, hpr, hroot⟩⟩
  | prepQ s m p ha h0 hacc hv hq h1 h2 =>
    have hinv := hlive s h0
    rw [h1] at hs'; simp only [Option.some.injEq] at hs'; subst hs'
    obtain ⟨hok, hr, hroot⟩ := prepOK_of_valid' i m _ _ _ hinv.height hv ha.1 ha.2.1
    have hkind : PrepKind T i s m := by
      by_cases hpr : p.round = s.round
      · exact Or.inl ⟨p, (hinv.acc p hacc).1, by rw [hpr, hr], hroot.symm⟩
      · exact Or.inr ⟨(hinv.acc p hacc).2 hpr, Or.inr ⟨hr, p, hacc, hpr, hroot⟩⟩
    have hne : p.fullData ≠ 0 := valOk_ne_zero _ _ (hinv.propGood p (hinv.acc p hacc).1).value
    have hS : NodeInv P T i
        { s with prepare := s.prepare ++ [m], lastPreparedValue := p.fullData, lastPreparedRound := s.round } :=
      NodeInv.upd_lock (NodeInv.upd_prepare hinv m hok hkind) p.fullData hne
    rcases h2 with ⟨_, h3⟩ | ⟨_, h3⟩
    · rw [h3, List.append_nil]; exact hS
    · rw [h3]; exact NodeInv.ext_K hS s.round p.root (Nat.le_refl _) (Nat.le_refl _)
  | com s m p ha h0 hacc hv h1 h2 h3 =>
    have hinv := hlive s h0
    rw [h1] at hs'; simp only [Option.some.injEq] at hs'; subst hs'
    rw [h3, List.append_nil]
    exact NodeInv.upd_commit hinv m (commitOK_of_validateCommit' i m _ _ p hinv.height hv ha.1 ha.2.1).1
  | comQ s m p agg ha h0 hacc hv hq hagg h1 h2 h3 =>
    have hinv := hlive s h0
    rw [h1] at hs'; simp only [Option.some.injEq] at hs'; subst hs'
    rw [h3]
    obtain ⟨_, _, _, _, _, _, _, _, _, hfd, _⟩ := aggregateCommitMsgs_spec _ _ _ hagg
    have hE := NodeInv.ext hinv [Ev.D i agg.round agg.fullData] (by simp) (by simp) (by simp) (by simp)
    have hC := NodeInv.upd_commit hE m ((commitOK_of_validateCommit' i m _ _ p hinv.height hv ha.1 ha.2.1).1.ext _)
    exact NodeInv.upd_decided hC p.fullData ⟨agg.round, by rw [← hfd]; simp⟩
  | rc s X h0 h1 h2 h3 =>
    have hinv := hlive s h0
    rw [h1] at hs'; simp only [Option.some.injEq] at hs'; subst hs'
    rw [h3, List.append_nil]
    exact NodeInv.upd_roundChange hinv X
  | jump s X R h0 hR h1 h2 =>
    have hinv := hlive s h0
    rw [h1] at hs'; simp only [Option.some.injEq] at hs'; subst hs'
    have hS := NodeInv.upd_jump hinv X R hR
    rcases h2 with ⟨_, h3⟩ | ⟨_, h3⟩
    · rw [h3, List.append_nil]; exact hS
    · rw [h3]; exact NodeInv.ext_RC hS R _ _ (Nat.le_refl _)

/-- `forceStop` (set by `StartNewInstance` of another height) is invisible to the node invariant -/
theorem NodeInv.upd_forceStop {i : B.Op P} {s : State} (h : NodeInv P T i s) : NodeInv P T i (forceStop s) :=
  ⟨h.height, h.round, h.propGood, h.propUniq, h.propEv, h.evProp, h.acc, h.gRound, h.propLe, h.low, h.prep, h.lock,
    h.kLock, h.rcRound, h.commits, h.dec⟩

/-- the messages of a node transition, with the invariant of a live instance only -/
theorem log_step' {A : Msg → Prop} (i : B.Op P) (hi : P.honest i = true)
    {os os' : Option State} {bs : List Msg} {evs : List (Ev (B.Op P))}
    (hst : NStep (P.cfg i) P.height A i os os' bs evs) (hlive : ∀ s, os = some s → NodeInv P T i s) :
    ∀ x ∈ bs, LogOK P (T ++ evs) x := by
  cases os with
  | some s => exact log_step i hi hst (hlive s rfl)
  | none =>
    intro x hx
    cases hst with
    | idle h1 h2 h3 => rw [h2] at hx; simp at hx
    | create v h0 h1 h2 h3 =>
      refine ⟨i, hi, (h2 x hx).2.1, (h2 x hx).2.2, ?_, ?_, ?_⟩ <;> intro ht <;> rw [(h2 x hx).1] at ht <;>
        exact absurd ht (by decide)
    | createDecided m ha h0 hv hh h1 h2 h3 => rw [h2] at hx; simp at hx
    | adopt s m ha h0 hd hv hh h1 h2 h3 => simp at h0
    | more s m ha h0 hd hv hh h1 h2 h3 => simp at h0
    | prop s m ha h0 hv hnew h1 h2 h3 => simp at h0
    | prep s m p ha h0 hacc hv h1 h2 h3 => simp at h0
    | prepQ s m p ha h0 hacc hv hq h1 h2 => simp at h0
    | com s m p ha h0 hacc hv h1 h2 h3 => simp at h0
    | comQ s m p agg ha h0 hacc hv hq hagg h1 h2 h3 => simp at h0
    | rc s X h0 h1 h2 h3 => simp at h0
    | jump s X R h0 hR h1 h2 => simp at h0

end Ssv.Qbft.M
