/-
Slot and round windows in plain arithmetic (C09 clauses, C10 timing theorem): for 12-second-slot networks and a
realistic local clock (between genesis and the year 2242) the Go time arithmetic of the model does not wrap, and
the guards mean what their names say.   Core Lean only.
-/
import Ssv.Proofs.ValidationTrace

namespace Ssv.Validation
open Ssv

/-- a 12-second-slot network (every network the node supports) with a genesis time in the unix-second range -/
def Cfg12 (c : NetCfg) : Prop := c.slotDur = 12 ∧ 0 < c.slotsPerEpoch ∧ 0 < c.epochsPerPeriod ∧ c.genesis < 4294967296

/-- the node's clock shows a time between genesis and 2^33 s after the unix epoch (year 2242), with a normalised
    nanosecond part -/
def RealisticClock (c : NetCfg) (now : GoTime) : Prop :=
  (c.genesis : Int) ≤ now.sec - unixToInternal ∧ now.sec - unixToInternal < 8589934592 ∧ 0 ≤ now.nsec ∧ now.nsec < nsPerSec

/-- unix seconds shown by the clock -/
def GoTime.unixSec (t : GoTime) : Int := t.sec - unixToInternal

/-- the slot the clock is in -/
def curSlot (c : NetCfg) (now : GoTime) : Int := (now.unixSec - c.genesis) / 12

theorem toUnix_realistic (c : NetCfg) (now : GoTime) (hr : RealisticClock c now) : now.toUnix = now.unixSec := by
  unfold GoTime.toUnix GoTime.unixSec
  obtain ⟨h1, h2, _, _⟩ := hr
  apply wrapI64_id <;> (unfold two63; omega)

theorem slotAtTime_realistic (c : NetCfg) (hc : Cfg12 c) (now : GoTime) (hr : RealisticClock c now) :
    slotAtTime c now.toUnix = curSlot c now := by
  rw [toUnix_realistic c now hr]
  unfold slotAtTime curSlot GoTime.unixSec
  obtain ⟨h1, h2, _, _⟩ := hr
  obtain ⟨hd, _, _, hg⟩ := hc
  have : ¬ (now.sec - unixToInternal < (c.genesis : Int)) := by omega
  simp only [this, if_false, hd]
  rw [wrapU64_id _ (by omega) (by unfold two64; omega)]
  rfl

/-- `GetSlotStartTime(s)` for a slot in the plausible range: no wrap-around -/
theorem slotStart_small (c : NetCfg) (hc : Cfg12 c) (s : Int) (h0 : 0 ≤ s) (h1 : s < 4294967296) :
    slotStart c s = ⟨(c.genesis : Int) + s * 12 + unixToInternal, 0⟩ := by
  unfold slotStart GoTime.unix
  obtain ⟨hd, _, _, hg⟩ := hc
  simp only [hd]
  have e1 : wrapU64 (s * ((12 : Nat) : Int)) = s * 12 := wrapU64_id _ (by omega) (by unfold two64; omega)
  rw [e1]
  have e2 : wrapU64 ((c.genesis : Int) + s * 12) = (c.genesis : Int) + s * 12 := wrapU64_id _ (by omega) (by unfold two64; omega)
  rw [e2]
  have e3 : wrapI64 ((c.genesis : Int) + s * 12) = (c.genesis : Int) + s * 12 := wrapI64_id _ (by unfold two63; omega) (by unfold two63; omega)
  rw [e3]
  have e4 : wrapI64 ((c.genesis : Int) + s * 12 + unixToInternal) = (c.genesis : Int) + s * 12 + unixToInternal :=
    wrapI64_id _ (by unfold two63 unixToInternal; omega) (by unfold two63 unixToInternal; omega)
  rw [e4]

theorem add_neg_tol (S : Int) :
    (⟨S, 0⟩ : GoTime).add (-((Gen.val_clockErrorTolerance : Nat) : Int)) = ⟨addSec S (-1), 950000000⟩ := by
  unfold GoTime.add goDiv goMod nsPerSec
  simp [g_tol]

theorem add_margin (S : Int) : (⟨S, 0⟩ : GoTime).add ((Gen.val_lateMessageMargin : Nat) : Int) = ⟨addSec S 3, 0⟩ := by
  unfold GoTime.add goDiv goMod nsPerSec
  simp [g_margin]

theorem add_tol (S : Int) : (⟨S, 0⟩ : GoTime).add ((Gen.val_clockErrorTolerance : Nat) : Int) = ⟨addSec S 0, 50000000⟩ := by
  unfold GoTime.add goDiv goMod nsPerSec
  simp [g_tol]

theorem before_iff (t u : GoTime) : t.before u = true ↔ (t.sec < u.sec ∨ (t.sec = u.sec ∧ t.nsec < u.nsec)) := by
  simp [GoTime.before]

theorem after_iff (t u : GoTime) : t.after u = true ↔ (t.sec > u.sec ∨ (t.sec = u.sec ∧ t.nsec > u.nsec)) := by
  simp [GoTime.after]

theorem equal_iff (t u : GoTime) : t.equal u = true ↔ (t.sec = u.sec ∧ t.nsec = u.nsec) := by
  simp [GoTime.equal]

theorem addSec_small (s d : Int) (hs0 : -4611686018427387904 < s) (hs1 : s < 4611686018427387904)
    (hd0 : -4611686018427387904 < d) (hd1 : d < 4611686018427387904) : addSec s d = s + d := by
  unfold addSec
  simp only
  rw [wrapI64_id (s + d) (by unfold two63; omega) (by unfold two63; omega)]
  by_cases h : d > 0
  · have : s + d > s := by omega
    simp [h, this]
  · have : ¬ (s + d > s) := by omega
    simp [h, this]

/-! ## slot window -/

/-- not early ⇒ the message's slot is not after the slot the clock is in -/
theorem not_early_spec (c : NetCfg) (hc : Cfg12 c) (slot : Nat) (now : GoTime) (hr : RealisticClock c now)
    (h : earlyMessage c slot now = false) : (slot : Int) ≤ curSlot c now := by
  unfold earlyMessage at h
  rw [slotAtTime_realistic c hc now hr] at h
  simp only at h
  have hcur0 : 0 ≤ curSlot c now := by
    unfold curSlot GoTime.unixSec; obtain ⟨h1, _, _, _⟩ := hr; omega
  have hcur1 : curSlot c now < 715827883 := by
    unfold curSlot GoTime.unixSec; obtain ⟨h1, h2, _, _⟩ := hr; omega
  rw [wrapU64_id (curSlot c now + 1) (by omega) (by unfold two64; omega)] at h
  split at h
  · cases h
  · rename_i hgt
    have hs1 : (slot : Int) ≤ curSlot c now + 1 := by omega
    unfold slotEnd at h
    rw [wrapU64_id (curSlot c now + 1) (by omega) (by unfold two64; omega)] at h
    rw [slotStart_small c hc (curSlot c now + 1) (by omega) (by omega), slotStart_small c hc slot (by omega) (by omega)] at h
    rw [add_neg_tol] at h
    obtain ⟨_, _, _, hg⟩ := hc
    rw [addSec_small _ _ (by unfold unixToInternal; omega) (by unfold unixToInternal; omega) (by omega) (by omega)] at h
    have hnb := (Bool.not_eq_true _).mpr h
    rw [before_iff] at hnb
    simp only at hnb
    unfold unixToInternal at hnb
    omega

/-- not late ⇒ the clock's slot is at most `ttl` slots after the message's slot -/
theorem not_late_spec (c : NetCfg) (hc : Cfg12 c) (slot role ttl : Nat) (now : GoTime) (hr : RealisticClock c now)
    (hslot : (slot : Int) ≤ curSlot c now) (httl : lateTtl role = some ttl) (ht : ttl ≤ 34)
    (h : ¬ (lateMessage c slot role now > 0)) : curSlot c now ≤ (slot : Int) + ttl := by
  unfold lateMessage at h
  rw [httl] at h
  simp only at h
  rw [slotAtTime_realistic c hc now hr] at h
  have hcur0 : 0 ≤ curSlot c now := by
    unfold curSlot GoTime.unixSec; obtain ⟨h1, _, _, _⟩ := hr; omega
  have hcur1 : curSlot c now < 715827883 := by
    unfold curSlot GoTime.unixSec; obtain ⟨h1, h2, _, _⟩ := hr; omega
  rw [wrapU64_id ((slot : Int) + ttl) (by omega) (by unfold two64; omega)] at h
  rw [slotStart_small c hc ((slot : Int) + ttl) (by omega) (by omega), slotStart_small c hc (curSlot c now) hcur0 (by omega)] at h
  obtain ⟨_, _, _, hg⟩ := hc
  -- deadline = start(slot + ttl) + 3 s + 50 ms
  rw [add_margin, add_tol] at h
  rw [addSec_small _ 3 (by unfold unixToInternal; omega) (by unfold unixToInternal; omega) (by omega) (by omega)] at h
  rw [addSec_small _ 0 (by unfold unixToInternal; omega) (by unfold unixToInternal; omega) (by omega) (by omega)] at h
  -- the subtraction
  unfold GoTime.sub at h
  simp only at h
  generalize hA : (c.genesis : Int) + curSlot c now * 12 + unixToInternal = A at h
  generalize hB : (c.genesis : Int) + ((slot : Int) + ttl) * 12 + unixToInternal + 3 + 0 = B at h
  have hAB0 : -8589934592 < A - B := by unfold unixToInternal at hA hB; omega
  have hAB1 : A - B < 8589934592 := by unfold unixToInternal at hA hB; omega
  have w1 : wrapI64 (A - B) = A - B := wrapI64_id _ (by unfold two63; omega) (by unfold two63; omega)
  rw [w1] at h
  have w2 : wrapI64 ((A - B) * nsPerSec) = (A - B) * nsPerSec := wrapI64_id _ (by unfold two63 nsPerSec; omega) (by unfold two63 nsPerSec; omega)
  rw [w2] at h
  have w3 : wrapI64 ((A - B) * nsPerSec + ((0 : Int) - 50000000)) = (A - B) * nsPerSec - 50000000 :=
    by rw [wrapI64_id _ (by unfold two63 nsPerSec; omega) (by unfold two63 nsPerSec; omega)]; omega
  rw [w3] at h
  -- the overflow check of Sub succeeds: deadline.Add(d) == start(cur)
  by_cases hlate : curSlot c now ≤ (slot : Int) + ttl
  · exact hlate
  · exfalso
    -- then A - B ≥ 9, d > 0, and whichever branch `Sub` takes the result is positive
    have hpos : 9 ≤ A - B := by unfold unixToInternal at hA hB; omega
    apply h
    split
    · unfold nsPerSec; omega
    · split
      · rename_i hbefore
        rw [before_iff] at hbefore
        simp only at hbefore
        omega
      · unfold maxDuration two63; omega

/-! ## round window -/

/-- `currentEstimatedRound` in plain (floor) arithmetic: 2-second rounds up to round 8, then 2-minute rounds -/
def estRound (d : Int) : Int :=
  if d / 2000000000 + 1 ≤ 8 then d / 2000000000 + 1 else 9 + (d - 16000000000) / 120000000000

theorem currentEstimatedRound_spec (d : Int) (h0 : 0 ≤ d) (h1 : d < 9223372036854775807) :
    currentEstimatedRound d = estRound d := by
  unfold currentEstimatedRound estRound goDiv
  simp only [g_firstRound, g_quick, g_quickThr, g_slow]
  have t1 : Int.tdiv d ((2000000000 : Nat) : Int) = d / 2000000000 := Int.tdiv_eq_ediv_of_nonneg h0
  have q0 : 0 ≤ d / 2000000000 := by omega
  have q1 : d / 2000000000 < 4611686018427387904 := by omega
  have e1 : wrapU64 (d / 2000000000) = d / 2000000000 := wrapU64_id _ q0 (by unfold two64; omega)
  have e2 : wrapU64 (((1 : Nat) : Int) + d / 2000000000) = d / 2000000000 + 1 := by
    rw [wrapU64_id _ (by omega) (by unfold two64; omega)]; omega
  have w1 : wrapI64 (((8 : Nat) : Int) * ((2000000000 : Nat) : Int)) = 16000000000 := by decide
  simp only [t1, e1, e2, w1]
  by_cases hq : d / 2000000000 + 1 ≤ 8
  · have hq' : d / 2000000000 + 1 ≤ ((8 : Nat) : Int) := by omega
    simp only [hq, hq', if_true]
  · have hq' : ¬ (d / 2000000000 + 1 ≤ ((8 : Nat) : Int)) := by omega
    simp only [hq, hq', if_false]
    have hd : 16000000000 ≤ d := by omega
    rw [wrapI64_id (d - 16000000000) (by unfold two63; omega) (by unfold two63; omega)]
    have t2 : Int.tdiv (d - 16000000000) ((120000000000 : Nat) : Int) = (d - 16000000000) / 120000000000 :=
      Int.tdiv_eq_ediv_of_nonneg (by omega)
    rw [t2]
    rw [wrapU64_id ((d - 16000000000) / 120000000000) (by omega) (by unfold two64; omega)]
    rw [wrapU64_id _ (by omega) (by unfold two64; omega)]
    omega

/-- nanoseconds between the start of `slot` and the clock reading (≤ 0 when the slot has not started) -/
def sinceSlotStart (c : NetCfg) (slot : Nat) (now : GoTime) : Int :=
  (now.unixSec - ((c.genesis : Int) + (slot : Int) * 12)) * 1000000000 + now.nsec

/-- the highest round accepted for `slot` at the clock reading `now` -/
def highestRoundSpec (c : NetCfg) (slot : Nat) (now : GoTime) : Int :=
  (if sinceSlotStart c slot now > 0 then estRound (sinceSlotStart c slot now) else 1) + 1

theorem highestAllowedRound_spec (c : NetCfg) (hc : Cfg12 c) (slot : Nat) (now : GoTime) (hr : RealisticClock c now)
    (hslot : (slot : Int) ≤ curSlot c now) : highestAllowedRound c slot now = highestRoundSpec c slot now := by
  have hcur1 : curSlot c now < 715827883 := by
    unfold curSlot GoTime.unixSec; obtain ⟨h1, h2, _, _⟩ := hr; omega
  unfold highestAllowedRound highestRoundSpec sinceSlotStart
  rw [slotStart_small c hc slot (by omega) (by omega)]
  obtain ⟨r1, r2, r3, r4⟩ := hr
  obtain ⟨_, _, _, hg⟩ := hc
  simp only [g_firstRound, g_future]
  have c1 : (((1 : Nat) : Int)) = 1 := rfl
  rw [c1]
  unfold GoTime.unixSec
  generalize hS : (c.genesis : Int) + (slot : Int) * 12 + unixToInternal = S
  have hSeq : now.sec - unixToInternal - ((c.genesis : Int) + (slot : Int) * 12) = now.sec - S := by omega
  rw [hSeq]
  have hTS0 : 0 ≤ now.sec - S := by unfold curSlot GoTime.unixSec at hslot; omega
  have hTS1 : now.sec - S < 8589934592 := by omega
  by_cases haft : (now.after ⟨S, 0⟩) = true
  · have hpos : (now.sec - S) * 1000000000 + now.nsec > 0 := by
      rw [after_iff] at haft; simp only at haft; unfold nsPerSec at r4; omega
    simp only [haft, hpos, if_true]
    -- the subtraction is exact
    have hsub : now.sub ⟨S, 0⟩ = (now.sec - S) * 1000000000 + now.nsec := by
      unfold GoTime.sub
      simp only
      rw [wrapI64_id (now.sec - S) (by unfold two63; omega) (by unfold two63; omega)]
      rw [wrapI64_id ((now.sec - S) * nsPerSec) (by unfold two63 nsPerSec; omega) (by unfold two63 nsPerSec; omega)]
      have e0 : (now.sec - S) * nsPerSec + (now.nsec - 0) = (now.sec - S) * 1000000000 + now.nsec := by unfold nsPerSec; omega
      rw [e0]
      unfold nsPerSec at r4
      rw [wrapI64_id _ (by unfold two63; omega) (by unfold two63; omega)]
      have hadd : (⟨S, 0⟩ : GoTime).add ((now.sec - S) * 1000000000 + now.nsec) = ⟨now.sec, now.nsec⟩ := by
        unfold GoTime.add goDiv goMod nsPerSec
        simp only
        rw [Int.tdiv_eq_ediv_of_nonneg (by omega), Int.tmod_eq_emod_of_nonneg (by omega)]
        have d1 : ((now.sec - S) * 1000000000 + now.nsec) / 1000000000 = now.sec - S := by omega
        have d2 : ((now.sec - S) * 1000000000 + now.nsec) % 1000000000 = now.nsec := by omega
        rw [d1, d2]
        have n1 : ¬ ((0 : Int) + now.nsec ≥ 1000000000) := by omega
        have n2 : ¬ ((0 : Int) + now.nsec < 0) := by omega
        simp only [n1, n2, if_false]
        rw [addSec_small S (now.sec - S) (by unfold unixToInternal at hS; omega) (by unfold unixToInternal at hS; omega) (by omega) (by omega)]
        congr 1 <;> omega
      rw [hadd]
      have : (({ sec := now.sec, nsec := now.nsec } : GoTime).equal now) = true := by
        rw [equal_iff]; exact ⟨rfl, rfl⟩
      simp only [this, if_true]
    simp only [hsub]
    rw [currentEstimatedRound_spec ((now.sec - S) * 1000000000 + now.nsec) (by omega) (by unfold nsPerSec at r4; omega)]
    have he0 : 0 ≤ estRound ((now.sec - S) * 1000000000 + now.nsec) := by unfold estRound; split <;> omega
    have he1 : estRound ((now.sec - S) * 1000000000 + now.nsec) < 4611686018427387904 := by
      unfold nsPerSec at r4; unfold estRound; split <;> omega
    exact wrapU64_id _ (by omega) (by unfold two64; omega)
  · have hnpos : ¬ ((now.sec - S) * 1000000000 + now.nsec > 0) := by
      intro hp
      apply haft
      rw [after_iff]; simp only
      unfold nsPerSec at r4; omega
    simp only [haft, hnpos, if_false, Bool.false_eq_true]
    decide

/-- the round-window guard in plain arithmetic -/
theorem roundWindow_spec (c : NetCfg) (hc : Cfg12 c) (m : QMsg) (now : GoTime) (hr : RealisticClock c now)
    (hslot : (m.height : Int) ≤ curSlot c now) (h : roundWindow c m now = .ok ()) :
    1 ≤ m.round ∧ (m.round : Int) ≤ highestRoundSpec c m.height now := by
  unfold roundWindow at h
  have := (rejectIf_ok_iff _ _).mp h
  rw [highestAllowedRound_spec c hc m.height now hr hslot] at this
  simp only [Bool.or_eq_false_iff, decide_eq_false_iff_not, g_firstRound] at this
  obtain ⟨h1, h2⟩ := this
  have := (blt_false_iff _ _).mp h1
  exact ⟨this, by omega⟩

/-! ## the round timer fires inside the validator's round window (C10) -/

/-- `additionalTimeout` of `RoundTimer.RoundTimeout` after `r` rounds: what the real timer adds to the role's base delay -/
def timerElapsed (r : Nat) : Int :=
  if r ≤ Gen.val_QuickTimeoutThreshold then (r : Int) * Gen.val_QuickTimeout
  else (Gen.val_QuickTimeoutThreshold : Int) * Gen.val_QuickTimeout + ((r : Int) - Gen.val_QuickTimeoutThreshold) * Gen.val_SlowTimeout

theorem timerElapsed_nonneg (r : Nat) : 0 ≤ timerElapsed r := by
  unfold timerElapsed
  simp only [g_quickThr, g_quick, g_slow]
  by_cases h : r ≤ 8
  · simp only [h, if_true]; omega
  · simp only [h, if_false]; omega

theorem timerElapsed_pos (r : Nat) (hr : 1 ≤ r) : 0 < timerElapsed r := by
  unfold timerElapsed
  simp only [g_quickThr, g_quick, g_slow]
  by_cases h : r ≤ 8
  · simp only [h, if_true]; omega
  · simp only [h, if_false]; omega

/-- a message of round `r ≥ 2` sent at or after the deadline of round `r − 1` (any non-negative base delay: a third /
    two thirds of the slot for the slot-aligned roles, the instance start for the proposer) is estimated at round ≥ r
    by the validator, hence inside its window `[1, estimate + 1]`, with one round to spare -/
theorem timer_deadline_inside_window (r : Nat) (hr : 2 ≤ r) (since base : Int) (hb : 0 ≤ base)
    (hs : base + timerElapsed (r - 1) ≤ since) : (r : Int) ≤ estRound since := by
  unfold timerElapsed at hs
  simp only [g_quickThr, g_quick, g_slow] at hs
  have c2 : (((2000000000 : Nat) : Int)) = 2000000000 := rfl
  have c3 : (((8 : Nat) : Int)) = 8 := rfl
  have c4 : (((120000000000 : Nat) : Int)) = 120000000000 := rfl
  rw [c2, c3, c4] at hs
  have hcast : ((r - 1 : Nat) : Int) = (r : Int) - 1 := by omega
  rw [hcast] at hs
  unfold estRound
  by_cases hle : r - 1 ≤ 8
  · simp only [hle, if_true] at hs
    split <;> omega
  · simp only [hle, if_false] at hs
    split <;> omega

end Ssv.Validation
