/- C16 helper lemmas: exactly-once-if-fetched for the sync-committee handler, under `envOK` and `quietOK`. -/
import Ssv.Proofs.DutiesLive

namespace Ssv.Duties

/-! ### fetching -/

structure SyncNextPost (st st' : HState) (m m' : DMon) (p : Nat) : Prop where
  okeq : m'.ok = m.ok
  covn : st.fetchNext = true → Cov .sync st' m' (p + 1)
  covo : ∀ K, (K ≠ p + 1 ∨ st.fetchNext = false) → Cov .sync st m K → Cov .sync st' m' K
  keys : ∀ K A, m'.due K = some A → K = p + 1 ∨ m.due K = some A
  ff : st'.fetchFirst = st.fetchFirst

theorem syncNext_post (n : Net) (st : HState) (m : DMon) (p clock : Nat) (r : FetchRes) :
    SyncNextPost st (syncFetchNextPart n st p clock r).1 m (drun .sync n m (syncFetchNextPart n st p clock r).2) p := by
  have fp := syncFetch_post n st m (p + 1) clock r
  have hf := syncFetch_flags n st (p + 1) clock r
  unfold syncFetchNextPart
  split
  · rename_i hfn
    split
    · rename_i st2 o heq
      simp only [heq] at fp hf
      exact ⟨fp.okeq, fun _ => fp.covp.of_store_eq rfl,
        (fun K hK hc => by
          rcases hK with hK | hK
          · exact (fp.covo K hK hc).of_store_eq rfl
          · rw [hfn] at hK; cases hK),
        fp.keys, hf.1⟩
    · rename_i st2 o heq
      simp only [heq] at fp hf
      exact ⟨fp.okeq, fun _ => fp.covp,
        (fun K hK hc => by
          rcases hK with hK | hK
          · exact fp.covo K hK hc
          · rw [hfn] at hK; cases hK),
        fp.keys, hf.1⟩
  · rename_i hfn
    exact ⟨rfl, fun h => absurd h hfn, fun K _ hc => hc, fun K A h => Or.inr h, rfl⟩

structure SyncPFPost (st st' : HState) (m m' : DMon) (p : Nat) : Prop where
  okeq : m'.ok = m.ok
  covp : (st.fetchCur = true ∨ Cov .sync st m p) → Cov .sync st' m' p
  covn : (st.fetchNext = true ∨ Cov .sync st m (p + 1)) → Cov .sync st' m' (p + 1)
  covo : ∀ K, K ≠ p → K ≠ p + 1 → Cov .sync st m K → Cov .sync st' m' K
  keys : ∀ K A, m'.due K = some A → K = p ∨ K = p + 1 ∨ m.due K = some A
  ff : st'.fetchFirst = st.fetchFirst

theorem syncPF_post (n : Net) (st : HState) (m : DMon) (p clock : Nat) (r1 r2 : FetchRes) :
    SyncPFPost st (syncProcessFetching n st p clock r1 r2).1 m
      (drun .sync n m (syncProcessFetching n st p clock r1 r2).2) p := by
  have fp := syncFetch_post n st m p clock r1
  have hf := syncFetch_flags n st p clock r1
  unfold syncProcessFetching
  split
  · rename_i hfc
    split
    · -- the fetch of the current period failed: every obligation is void
      rename_i st1 o1 heq
      simp only [heq] at fp hf
      have hv := fp.void rfl
      exact ⟨fp.okeq, fun _ => Cov.of_none (hv _), fun _ => Cov.of_none (hv _), fun K _ _ _ => Cov.of_none (hv K),
        (fun K A h => by rw [hv K] at h; cases h), hf.1⟩
    · rename_i st1 o1 heq
      simp only [heq] at fp hf
      have np := syncNext_post n { st1 with fetchCur := false } (drun .sync n m o1) p clock r2
      simp only [drun_append]
      refine ⟨np.okeq.trans fp.okeq, ?_, ?_, ?_, ?_, np.ff.trans hf.1⟩
      · intro _
        exact np.covo p (Or.inl (by omega)) (fp.covp.of_store_eq rfl)
      · intro h
        by_cases hfn : st.fetchNext = true
        · exact np.covn (by simpa [hf.2.2.1] using hfn)
        · rcases h with h | h
          · exact absurd h hfn
          · exact np.covo (p + 1) (Or.inr (by simpa [hf.2.2.1] using hfn)) ((fp.covo (p + 1) (by omega) h).of_store_eq rfl)
      · intro K h1 h2 hc
        exact np.covo K (Or.inl h2) ((fp.covo K h1 hc).of_store_eq rfl)
      · intro K A h
        rcases np.keys K A h with h | h
        · exact Or.inr (Or.inl h)
        · rcases fp.keys K A h with h | h
          · exact Or.inl h
          · exact Or.inr (Or.inr h)
  · rename_i hfc
    have np := syncNext_post n st m p clock r1
    refine ⟨np.okeq, ?_, ?_, fun K _ h2 hc => np.covo K (Or.inl h2) hc, ?_, np.ff⟩
    · intro h
      rcases h with h | h
      · exact absurd h hfc
      · exact np.covo p (Or.inl (by omega)) h
    · intro h
      by_cases hfn : st.fetchNext = true
      · exact np.covn hfn
      · rcases h with h | h
        · exact absurd h hfn
        · exact np.covo (p + 1) (Or.inr (by simpa using hfn)) h
    · intro K A h
      rcases np.keys K A h with h | h
      · exact Or.inr (Or.inl h)
      · exact Or.inr (Or.inr h)

/-! ### invariant -/

/-- `t` can be the slot of the next tick -/
def Cand (lt : Option Nat) (now t : Nat) : Prop := (∀ t0, lt = some t0 → t0 < t) ∧ now ≤ t

structure SInv (n : Net) (st : HState) (m : DMon) (lt : Option Nat) (now : Nat) (le : Option Nat) : Prop where
  ok : m.ok = true
  ltnow : ∀ t, lt = some t → t ≤ now
  s1 : st.fetchFirst = true → st.fetchCur = true ∧ st.fetchNext = true
  dueLe : ∀ K A, m.due K = some A → K ≤ n.periodOfSlot now + 1
  leLe : ∀ K, le = some K → K ≤ n.periodOfSlot now
  A : ∀ t, Cand lt now t → st.fetchFirst = true ∨ (st.fetchNext = true ∧ le ≠ some (n.periodOfSlot t)) ∨
        Cov .sync st m (n.periodOfSlot t)
  B : ∀ t, Cand lt now t → Cov .sync st m (n.periodOfSlot t + 1) ∨ st.fetchNext = true

theorem syncPost_cov (n : Net) {st : HState} {m : DMon} (slot K : Nat) (hK : n.periodOfSlot slot ≤ K)
    (h : Cov .sync st m K) : Cov .sync (syncPost n st slot) m K := by
  have := syncPost_store_eq n st slot
  split at this
  · rename_i hc
    exact h.of_reset this (by omega)
  · exact h.of_store_eq this

theorem syncPost_ff (n : Net) (st : HState) (slot : Nat) : (syncPost n st slot).fetchFirst = st.fetchFirst := by
  unfold syncPost
  by_cases h1 : (slot % n.spe == n.spe / 2 - 2 && n.epoch slot % n.epp == n.epp - syncPrep) = true <;>
  by_cases h2 : (slot == n.lastSlotOfPeriod (n.period (n.epoch slot))) = true <;> simp [h1, h2]

theorem syncTick_core (n : Net) {st : HState} {m : DMon} {now : Nat} (t0 clock : Nat) (r1 r2 : FetchRes)
    (hok : m.ok = true) (hs1 : st.fetchFirst = true → st.fetchCur = true ∧ st.fetchNext = true)
    (hdueLe : ∀ K A, m.due K = some A → K ≤ n.periodOfSlot now + 1) (hnow : now ≤ t0)
    (hA : st.fetchFirst = true ∨ Cov .sync st m (n.periodOfSlot t0))
    (hB : Cov .sync st m (n.periodOfSlot t0 + 1) ∨ st.fetchNext = true) :
    SInv n (syncTick n st t0 clock r1 r2).1 (drun .sync n m (syncTick n st t0 clock r1 r2).2) (some t0) t0
      (some (n.periodOfSlot t0)) := by
  have hpm := periodOfSlot_mono n hnow
  obtain ⟨store, ff, fc, fn, ic⟩ := st
  -- what remains to be shown once both periods are covered after the fetches
  have fin : ∀ (s : HState) (m2 : DMon), m2.ok = true → s.fetchFirst = false →
      Cov .sync s m2 (n.periodOfSlot t0) → Cov .sync s m2 (n.periodOfSlot t0 + 1) →
      (∀ K A, m2.due K = some A → K = n.periodOfSlot t0 ∨ K = n.periodOfSlot t0 + 1 ∨ m.due K = some A) →
      SInv n (syncPost n s t0) m2 (some t0) t0 (some (n.periodOfSlot t0)) := by
    intro s m2 hok hff hc0 hc1 hk
    have hdue : ∀ K A, m2.due K = some A → K ≤ n.periodOfSlot t0 + 1 := by
      intro K A hA'
      rcases hk K A hA' with h1 | h1 | h1
      · omega
      · omega
      · have := hdueLe K A h1; omega
    have hall : ∀ K, n.periodOfSlot t0 ≤ K → Cov .sync (syncPost n s t0) m2 K := by
      intro K hK
      apply syncPost_cov n t0 K hK
      by_cases h0 : K = n.periodOfSlot t0
      · rw [h0]; exact hc0
      · by_cases h1 : K = n.periodOfSlot t0 + 1
        · rw [h1]; exact hc1
        · apply Cov.of_none
          cases hd : m2.due K with
          | none => rfl
          | some A => have := hdue K A hd; omega
    refine ⟨hok, fun t ht => by cases ht; exact Nat.le_refl _, ?_, hdue,
      fun K hK => by cases hK; exact Nat.le_refl _, ?_, ?_⟩
    · intro hh; rw [syncPost_ff, hff] at hh; cases hh
    · intro t ht
      exact Or.inr (Or.inr (hall _ (periodOfSlot_mono n ht.2)))
    · intro t ht
      exact Or.inl (hall _ (by have := periodOfSlot_mono n ht.2; omega))
  cases ff
  · -- regular tick: execute, then fetch
    have hcov : Cov .sync ⟨store, false, fc, fn, ic⟩ m (n.periodOfSlot t0) := by
      rcases hA with h1 | h1
      · cases h1
      · exact h1
    have hx := dstep_exec .sync n t0 clock (st := ⟨store, false, fc, fn, ic⟩) hok (fun _ => hcov)
    simp only [execOf] at hx
    have pf := syncPF_post n ⟨store, false, fc, fn, ic⟩
      (drun .sync n m (syncProcessExecution ⟨store, false, fc, fn, ic⟩ (n.periodOfSlot t0) t0 clock))
      (n.periodOfSlot t0) clock r1 r2
    simp only [syncTick, Bool.false_eq_true, if_false, drun_append]
    rw [show n.period (n.epoch t0) = n.periodOfSlot t0 from rfl]
    apply fin _ _ (by rw [pf.okeq]; exact hx.1) (by rw [pf.ff])
    · exact pf.covp (Or.inr (hcov.of_due_eq hx.2))
    · apply pf.covn
      rcases hB with h1 | h1
      · exact Or.inr (h1.of_due_eq hx.2)
      · exact Or.inl h1
    · intro K A hA'
      rcases pf.keys K A hA' with h1 | h1 | h1
      · exact Or.inl h1
      · exact Or.inr (Or.inl h1)
      · exact Or.inr (Or.inr (by rw [hx.2] at h1; exact h1))
  · -- fetch-first tick (only the first tick of a run): fetch, then execute
    have hs1 := hs1 rfl
    have pf := syncPF_post n ⟨store, false, fc, fn, ic⟩ m (n.periodOfSlot t0) clock r1 r2
    have hc0 := pf.covp (Or.inl hs1.1)
    have hc1 := pf.covn (Or.inl hs1.2)
    have hx := dstep_exec .sync n t0 clock (st := (syncProcessFetching n ⟨store, false, fc, fn, ic⟩ (n.periodOfSlot t0) clock r1 r2).1)
      (m := drun .sync n m (syncProcessFetching n ⟨store, false, fc, fn, ic⟩ (n.periodOfSlot t0) clock r1 r2).2)
      (by rw [pf.okeq]; exact hok) (fun _ => hc0)
    simp only [execOf] at hx
    simp only [syncTick, if_true, drun_append]
    rw [show n.period (n.epoch t0) = n.periodOfSlot t0 from rfl]
    apply fin _ _ hx.1 (by rw [pf.ff]) (hc0.of_due_eq hx.2) (hc1.of_due_eq hx.2)
    intro K A hA'
    rw [hx.2] at hA'
    exact pf.keys K A hA'

theorem Cand.mono {lt : Option Nat} {now now' t : Nat} (h : Cand lt now' t) (hle : now ≤ now') : Cand lt now t :=
  ⟨h.1, Nat.le_trans hle h.2⟩

theorem syncTick_inv (n : Net) {st : HState} {m : DMon} {lt : Option Nat} {now : Nat} {le : Option Nat}
    (t0 clock : Nat) (r1 r2 : FetchRes) (h : SInv n st m lt now le) (hc : Cand lt now t0) :
    SInv n (syncTick n (repairPre st le (n.periodOfSlot t0)) t0 clock r1 r2).1
      (drun .sync n m (syncTick n (repairPre st le (n.periodOfSlot t0)) t0 clock r1 r2).2) (some t0) t0
      (some (n.periodOfSlot t0)) := by
  unfold repairPre
  split
  · rename_i hcond
    simp only [Bool.and_eq_true, bne_iff_ne, ne_eq] at hcond
    exact syncTick_core n (st := { st with fetchCur := true, fetchFirst := true }) t0 clock r1 r2 h.ok
      (fun _ => ⟨rfl, hcond.2⟩) h.dueLe hc.2 (Or.inl rfl) (Or.inr hcond.2)
  · rename_i hcond
    simp only [Bool.and_eq_true, bne_iff_ne, ne_eq, not_and] at hcond
    have hA : st.fetchFirst = true ∨ Cov .sync st m (n.periodOfSlot t0) := by
      rcases h.A t0 hc with h1 | ⟨h1, h2⟩ | h1
      · exact Or.inl h1
      · exact absurd h1 (hcond h2)
      · exact Or.inr h1
    exact syncTick_core n t0 clock r1 r2 h.ok h.s1 h.dueLe hc.2 hA (h.B t0 hc)

/-- a reorg notice, handled at any time (its slot `r` may be older than the last tick) -/
theorem syncReorg_inv (n : Net) {st : HState} {m : DMon} {lt : Option Nat} {now : Nat} {le : Option Nat}
    (r : Nat) (cur : Bool) (h : SInv n st m lt now le) :
    SInv n (syncReorgN n st le r cur) m lt (max now r) le := by
  have hnow : now ≤ max now r := Nat.le_max_left _ _
  have hpm := periodOfSlot_mono n hnow
  by_cases hc : (cur && syncShouldFetchNext n r) = true
  · by_cases hle : le = some (n.periodOfSlot r + 1)
    · -- late notice: the period that is reset is the one being ticked ⇒ fetch first
      have hbeq : (le == some (n.periodOfSlot r + 1)) = true := by simp [hle]
      simp only [syncReorgN, syncReorg, hc, if_true, lateFix, hbeq]
      exact ⟨h.ok, fun t ht => Nat.le_trans (h.ltnow t ht) hnow, fun _ => ⟨rfl, rfl⟩,
        fun K A hA => by have := h.dueLe K A hA; omega, fun K hK => by have := h.leLe K hK; omega,
        fun t _ => Or.inl rfl, fun t _ => Or.inr rfl⟩
    · have hbeq : (le == some (n.periodOfSlot r + 1)) = false := by simpa using hle
      simp only [syncReorgN, syncReorg, hc, if_true, lateFix, hbeq, Bool.false_eq_true, if_false]
      refine ⟨h.ok, fun t ht => Nat.le_trans (h.ltnow t ht) hnow, fun hf => ⟨(h.s1 hf).1, rfl⟩,
        fun K A hA => by have := h.dueLe K A hA; omega, fun K hK => by have := h.leLe K hK; omega, ?_,
        fun t _ => Or.inr rfl⟩
      intro t ht
      by_cases hlt : le = some (n.periodOfSlot t)
      · rcases h.A t (ht.mono hnow) with h1 | h1 | h1
        · exact Or.inl h1
        · exact absurd hlt h1.2
        · refine Or.inr (Or.inr (h1.of_reset rfl ?_))
          intro heq
          rw [← heq] at hlt
          exact hle hlt
      · exact Or.inr (Or.inl ⟨rfl, hlt⟩)
  · have hcf : (cur && syncShouldFetchNext n r) = false := by simpa using hc
    simp only [syncReorgN, syncReorg, hcf, Bool.false_eq_true, if_false]
    exact ⟨h.ok, fun t ht => Nat.le_trans (h.ltnow t ht) hnow, h.s1,
      fun K A hA => by have := h.dueLe K A hA; omega, fun K hK => by have := h.leLe K hK; omega,
      fun t ht => h.A t (ht.mono hnow), fun t ht => h.B t (ht.mono hnow)⟩

theorem syncIndices_inv (n : Net) {st : HState} {m : DMon} {lt : Option Nat} {now : Nat} {le : Option Nat}
    (c : Nat) (h : SInv n st m lt now le) : SInv n (syncIndices n st c) m lt (max now c) le := by
  have hnow : now ≤ max now c := Nat.le_max_left _ _
  have hpm := periodOfSlot_mono n hnow
  have base : ∀ st' : HState, st'.store = st.store → st'.fetchFirst = st.fetchFirst → st'.fetchCur = true →
      (st.fetchNext = true → st'.fetchNext = true) → SInv n st' m lt (max now c) le := by
    intro st' hs hff hfc hfn
    refine ⟨h.ok, fun t ht => Nat.le_trans (h.ltnow t ht) hnow, fun hf => ⟨hfc, hfn (h.s1 (by rw [← hff]; exact hf)).2⟩,
      fun K A hA => by have := h.dueLe K A hA; omega, fun K hK => by have := h.leLe K hK; omega, ?_, ?_⟩
    · intro t ht
      rcases h.A t (ht.mono hnow) with h1 | h1 | h1
      · exact Or.inl (by rw [hff]; exact h1)
      · exact Or.inr (Or.inl ⟨hfn h1.1, h1.2⟩)
      · exact Or.inr (Or.inr (h1.of_store_eq hs))
    · intro t ht
      rcases h.B t (ht.mono hnow) with h1 | h1
      · exact Or.inl (h1.of_store_eq hs)
      · exact Or.inr (hfn h1)
  unfold syncIndices
  split
  · exact base _ rfl rfl rfl (fun _ => rfl)
  · exact base _ rfl rfl rfl (fun hh => hh)

theorem sync_exactly_runFrom (n : Net) : ∀ (evs : List Event) (rs : RState) (m : DMon) (lt : Option Nat) (now : Nat),
    SInv n rs.st m lt now rs.le → envOK lt now evs = true →
    (drun .sync n m (runFrom .sync n rs evs)).ok = true := by
  intro evs
  induction evs with
  | nil => intro rs m lt now h _; exact h.ok
  | cons e es ih =>
    intro rs m lt now h henv
    obtain ⟨htick, henv'⟩ := envOK_cons henv
    cases e with
    | tick s c r1 r2 =>
      obtain ⟨hnow, hlt⟩ := htick s c r1 r2 rfl
      have hc : Cand lt now s := ⟨hlt, hnow⟩
      simp only [runFrom, step, drun_append]
      exact ih ⟨_, _⟩ _ _ _ (syncTick_inv n s c r1 r2 h hc) henv'
    | reorg r p c =>
      simp only [runFrom, step, List.nil_append]
      exact ih ⟨_, _⟩ _ _ _ (syncReorg_inv n r c h) henv'
    | indices c =>
      simp only [runFrom, step, List.nil_append]
      exact ih ⟨_, _⟩ _ _ _ (syncIndices_inv n c h) henv'

theorem sync_exactly_run (n : Net) (clock0 : Nat) (r0 : FetchRes) (evs : List Event)
    (henv : envOK none clock0 evs = true) : exactlyOnceOK .sync n (run .sync n clock0 r0 evs) = true := by
  unfold exactlyOnceOK run
  have fp := syncFetch_post n ⟨[], true, true, false, false⟩ DMon.init (n.periodOfSlot clock0) clock0 r0
  have h0 : SInv n (initH .sync n clock0 r0).1.st (drun .sync n DMon.init (initH .sync n clock0 r0).2) none clock0
      (initH .sync n clock0 r0).1.le := by
    simp only [initH, syncInit]
    refine ⟨by rw [fp.okeq]; rfl, fun t ht => (nomatch ht), fun _ => ⟨rfl, rfl⟩, ?_, fun K hK => (nomatch hK),
      fun t _ => Or.inl ?_, fun t _ => Or.inr rfl⟩
    · intro K A hA
      rcases fp.keys K A hA with h1 | h1
      · omega
      · cases h1
    · rw [(syncFetch_flags n _ _ clock0 r0).1]
  have := sync_exactly_runFrom n evs _ _ none clock0 h0 henv
  simpa [drun, List.foldl_append] using this

end Ssv.Duties
