/- C16 helper lemmas: "exactly once if fetched" — generic part (monitor, coverage of the obligations by the
   store, effect of one fetch / one `execs` atom). -/
import Ssv.Proofs.DutiesSafety

namespace Ssv.Duties

/-- fold of the exactly-once monitor over a list of atoms -/
def drun (k : Kind) (n : Net) (m : DMon) (as : List Atom) : DMon := as.foldl (DMon.step k n) m

theorem drun_append (k : Kind) (n : Net) (m : DMon) (a b : List Atom) :
    drun k n m (a ++ b) = drun k n (drun k n m a) b := List.foldl_append ..
@[simp] theorem drun_nil (k : Kind) (n : Net) (m : DMon) : drun k n m [] = m := rfl
@[simp] theorem drun_cons (k : Kind) (n : Net) (m : DMon) (a : Atom) (l : List Atom) :
    drun k n m (a :: l) = drun k n (DMon.step k n m a) l := rfl

/-- last tick after an event -/
def ltAfter (lt : Option Nat) : Event → Option Nat
  | .tick s _ _ _ => some s
  | _ => lt

/-- largest slot carried by an event so far -/
def nowAfter (now : Nat) : Event → Nat
  | .tick s _ _ _ => s
  | .reorg s _ _ => max now s
  | .indices c => max now c

theorem envOK_cons {lt : Option Nat} {now : Nat} {e : Event} {es : List Event} (h : envOK lt now (e :: es) = true) :
    (∀ s c r1 r2, e = .tick s c r1 r2 → now ≤ s ∧ ∀ t, lt = some t → t < s) ∧
    envOK (ltAfter lt e) (nowAfter now e) es = true := by
  cases e with
  | tick s c r1 r2 =>
    simp only [envOK, Bool.and_eq_true, decide_eq_true_eq] at h
    refine ⟨?_, h.2⟩
    intro s' c' a b heq
    cases heq
    refine ⟨h.1.2, ?_⟩
    intro t ht
    subst ht
    simpa using h.1.1
  | reorg s p c => exact ⟨fun _ _ _ _ hh => (nomatch hh), h⟩
  | indices c => exact ⟨fun _ _ _ _ hh => (nomatch hh), h⟩

/-- the descriptor the store must hold for an owed duty -/
def covEntry (k : Kind) (K : Nat) (d : Duty) : Entry := ⟨K, if isSync k then 0 else d.slot, d.vidx, d.tag, true⟩

/-- every duty owed for epoch (period) `K` is in the store -/
def Cov (k : Kind) (st : HState) (m : DMon) (K : Nat) : Prop :=
  ∀ A, m.due K = some A → ∀ d ∈ A, covEntry k K d ∈ st.store

theorem Cov.of_none {k : Kind} {st : HState} {m : DMon} {K : Nat} (h : m.due K = none) : Cov k st m K := by
  intro A hA; rw [h] at hA; cases hA

/-- coverage of `K` survives a change that keeps the descriptors of `K` and the obligations of `K` -/
theorem Cov.transfer {k : Kind} {st st' : HState} {m m' : DMon} {K : Nat} (h : Cov k st m K)
    (hs : ∀ x ∈ st.store, x.ep = K → x ∈ st'.store) (hd : m'.due K = m.due K) : Cov k st' m' K := by
  intro A hA d hd'
  rw [hd] at hA
  exact hs _ (h A hA d hd') rfl

theorem Cov.of_store_eq {k : Kind} {st st' : HState} {m : DMon} {K : Nat} (h : Cov k st m K)
    (hs : st'.store = st.store) : Cov k st' m K :=
  h.transfer (fun x hx _ => by rw [hs]; exact hx) rfl

theorem Cov.of_reset {k : Kind} {st st' : HState} {m : DMon} {K ep : Nat} (h : Cov k st m K)
    (hs : st'.store = st.store.reset ep) (hne : ep ≠ K) : Cov k st' m K :=
  h.transfer (fun x hx hk => by rw [hs]; exact mem_reset.mpr ⟨hx, by omega⟩) rfl

/-! ### the `execs` atom -/

theorem dstep_exec (k : Kind) (n : Net) (slot clock : Nat) {st : HState} {m : DMon} (hok : m.ok = true)
    (hc : clock = slot → Cov k st m (keyOf k n slot)) :
    (drun k n m (execOf k n slot clock st)).ok = true ∧ (drun k n m (execOf k n slot clock st)).due = m.due := by
  have key : ∀ xs : List Duty,
      (clock = slot → ∀ A, m.due (keyOf k n slot) = some A → ∀ d ∈ A, (isSync k = false → d.slot = slot) →
        ∃ x ∈ xs, sameDuty k x d = true ∧ x.slot = slot) →
      (DMon.step k n m (.execs slot clock xs)).ok = true ∧ (DMon.step k n m (.execs slot clock xs)).due = m.due := by
    intro xs hx
    simp only [DMon.step]
    split
    · rename_i heq
      refine ⟨?_, rfl⟩
      simp only [hok, Bool.true_and]
      split
      · rfl
      · rename_i A hA
        simp only [List.all_eq_true, Bool.or_eq_true, Bool.and_eq_true, Bool.not_eq_true', bne_iff_ne, ne_eq,
          List.any_eq_true, beq_iff_eq]
        intro d hd
        by_cases hds : isSync k = false ∧ ¬ d.slot = slot
        · exact Or.inl hds
        · refine Or.inr ?_
          obtain ⟨x, hxm, h1, h2⟩ := hx heq A hA d hd (fun hs => by
            by_cases h3 : d.slot = slot
            · exact h3
            · exact absurd ⟨hs, h3⟩ hds)
          exact ⟨x, hxm, h1, h2⟩
    · exact ⟨hok, rfl⟩
  cases k with
  | att =>
    simp only [execOf, attProcessExecution, drun_cons, drun_nil]
    apply key
    intro heq A hA d hd hsl
    have hmem := hc heq A hA d hd
    have hds : d.slot = slot := hsl rfl
    refine ⟨entryDuty (covEntry .att (n.epoch slot) d), ?_, ?_, ?_⟩
    · simp only [List.mem_map, List.mem_filter, mem_slotDuties]
      refine ⟨covEntry .att (n.epoch slot) d, ⟨⟨hmem, rfl, by simp [covEntry, isSync, hds], rfl⟩, ?_⟩, rfl⟩
      simp [covEntry, isSync, attShouldExecute, hds, heq]
    · simp [sameDuty, entryDuty, covEntry, isSync]
    · simp [entryDuty, covEntry, isSync, hds]
  | prop =>
    simp only [execOf, propProcessExecution, drun_cons, drun_nil]
    apply key
    intro heq A hA d hd hsl
    have hmem := hc heq A hA d hd
    have hds : d.slot = slot := hsl rfl
    refine ⟨entryDuty (covEntry .prop (n.epoch slot) d), ?_, ?_, ?_⟩
    · simp only [List.mem_map, List.mem_filter, mem_slotDuties]
      refine ⟨covEntry .prop (n.epoch slot) d, ⟨⟨hmem, rfl, by simp [covEntry, isSync, hds], rfl⟩, ?_⟩, rfl⟩
      simp [covEntry, isSync, propShouldExecute, hds, heq]
    · simp [sameDuty, entryDuty, covEntry, isSync]
    · simp [entryDuty, covEntry, isSync, hds]
  | sync =>
    simp only [execOf, syncProcessExecution, drun_cons, drun_nil]
    apply key
    intro heq A hA d hd _
    have hmem := hc heq A hA d hd
    refine ⟨⟨slot, d.vidx, d.tag⟩, ?_, ?_, rfl⟩
    · simp only [List.mem_map, List.mem_filter, mem_periodDuties]
      exact ⟨covEntry .sync (n.periodOfSlot slot) d, ⟨⟨hmem, rfl, rfl⟩, by simp [syncShouldExecute, heq]⟩, rfl⟩
    · simp [sameDuty, isSync]

/-! ### one fetch -/

/-- what one `fetchAndProcessDuties` does to store and obligations -/
structure FetchPost (k : Kind) (st st' : HState) (m m' : DMon) (p : Nat) (okb : Bool) : Prop where
  okeq : m'.ok = m.ok
  covp : Cov k st' m' p
  covo : ∀ K, K ≠ p → Cov k st m K → Cov k st' m' K
  keys : ∀ K A, m'.due K = some A → K = p ∨ m.due K = some A
  void : okb = false → ∀ K, m'.due K = none

theorem fetchPost_void (k : Kind) (st : HState) (m m' : DMon) (p : Nat) (okb : Bool) (hok : m'.ok = m.ok)
    (hv : ∀ K, m'.due K = none) : FetchPost k st st m m' p okb :=
  ⟨hok, Cov.of_none (hv p), fun K _ _ => Cov.of_none (hv K), fun K A h => (by rw [hv K] at h; cases h), fun _ => hv⟩

/-- a successful fetch whose descriptors are built by `mk` (which yields `covEntry` on the committee part) -/
theorem fetchPost_ok (k : Kind) (n : Net) (st : HState) (m : DMon) (p arg : Nat) (c : List Nat) (ds : List Duty)
    (mk : Duty → Entry) (base : Store)
    (hbase : ∀ x ∈ st.store, x.ep ≠ p → x ∈ base)
    (hmk : ∀ d, (mk d).ep = p ∧ (d ∈ assigned k c ds → mk d = covEntry k p d))
    (hinj : ∀ d d', (mk d).sameKey (mk d') = true → dkey k d = dkey k d') :
    FetchPost k st { st with store := base.addAll mk ds } m (DMon.step k n m (.fetch p arg (.ok c ds))) p true := by
  refine ⟨rfl, ?_, ?_, ?_, fun h => by cases h⟩
  · intro A hA d hd
    simp only [DMon.step, if_true] at hA
    split at hA
    · rename_i hwf
      cases hA
      have hd0 : d ∈ ds := by
        cases k with
        | att => exact hd
        | prop => exact (List.mem_filter.mp hd).1
        | sync => exact (List.mem_filter.mp hd).1
      rw [← (hmk d).2 hd]
      exact mem_addAll_self mk (dkey k) hinj ds (by simpa [wfAssign] using hwf) d hd0
    · cases hA
  · intro K hK hcov
    apply hcov.transfer
    · intro x hx hxe
      apply mem_addAll_of_mem
      · exact hbase x hx (by omega)
      · intro d _
        apply sameKey_false_iff.mpr
        intro hh
        have := (hmk d).1
        omega
    · simp [DMon.step, hK]
  · intro K A h
    simp only [DMon.step] at h
    split at h
    · rename_i heq; exact Or.inl heq
    · exact Or.inr h

theorem attFetch_post (n : Net) (st : HState) (m : DMon) (ep : Nat) (r : FetchRes) :
    FetchPost .att st (attFetch st ep r).1 m (drun .att n m (attFetch st ep r).2.2) ep (attFetch st ep r).2.1 := by
  cases r with
  | noIdx => exact fetchPost_void _ _ _ _ _ _ rfl (fun _ => rfl)
  | fail => exact fetchPost_void _ _ _ _ _ _ rfl (fun _ => rfl)
  | ok c ds =>
    apply fetchPost_ok .att n st m ep ep c ds (attEntry ep) (st.store.reset ep)
      (fun x hx hne => mem_reset.mpr ⟨hx, hne⟩)
    · intro d; exact ⟨rfl, fun _ => rfl⟩
    · intro d d' h
      have := sameKey_iff.mp h
      simp only [attEntry] at this
      simp [dkey, isSync, this.2.1, this.2.2]

theorem propFetch_post (n : Net) (st : HState) (m : DMon) (ep : Nat) (r : FetchRes) :
    ∃ okb, FetchPost .prop st (propFetch st ep r).1 m (drun .prop n m (propFetch st ep r).2) ep okb := by
  cases r with
  | noIdx => exact ⟨true, fetchPost_void _ _ _ _ _ _ rfl (fun _ => rfl)⟩
  | fail => exact ⟨false, fetchPost_void _ _ _ _ _ _ rfl (fun _ => rfl)⟩
  | ok c ds =>
    refine ⟨true, ?_⟩
    apply fetchPost_ok .prop n st m ep ep c ds (propEntry ep c) (st.store.reset ep)
      (fun x hx hne => mem_reset.mpr ⟨hx, hne⟩)
    · intro d
      refine ⟨rfl, fun hd => ?_⟩
      have := (List.mem_filter.mp hd).2
      simp only [propEntry, covEntry, isSync, this]
      rfl
    · intro d d' h
      have := sameKey_iff.mp h
      simp only [propEntry] at this
      simp [dkey, isSync, this.2.1, this.2.2]

theorem Cov.of_due_eq {k : Kind} {st : HState} {m m' : DMon} {K : Nat} (h : Cov k st m K) (hd : m'.due = m.due) :
    Cov k st m' K := by
  intro A hA; rw [hd] at hA; exact h A hA

theorem syncFetch_post (n : Net) (st : HState) (m : DMon) (p clock : Nat) (r : FetchRes) :
    FetchPost .sync st (syncFetch n st p clock r).1 m (drun .sync n m (syncFetch n st p clock r).2.2) p
      (syncFetch n st p clock r).2.1 := by
  cases r with
  | noIdx => exact fetchPost_void _ _ _ _ _ _ rfl (fun _ => rfl)
  | fail => exact fetchPost_void _ _ _ _ _ _ rfl (fun _ => rfl)
  | ok c ds =>
    apply fetchPost_ok .sync n st m p (max (p * n.epp) (n.epoch clock)) c ds (syncEntry p c) (st.store.reset p)
      (fun x hx hne => mem_reset.mpr ⟨hx, hne⟩)
    · intro d
      refine ⟨rfl, fun hd => ?_⟩
      have := (List.mem_filter.mp hd).2
      simp only [syncEntry, covEntry, isSync, this]
      rfl
    · intro d d' h
      have := sameKey_iff.mp h
      simp only [syncEntry] at this
      simp [dkey, isSync, this.2.2]

theorem syncFetch_flags (n : Net) (st : HState) (p clock : Nat) (r : FetchRes) :
    (syncFetch n st p clock r).1.fetchFirst = st.fetchFirst ∧ (syncFetch n st p clock r).1.fetchCur = st.fetchCur ∧
    (syncFetch n st p clock r).1.fetchNext = st.fetchNext ∧ (syncFetch n st p clock r).1.indicesChanged = st.indicesChanged := by
  cases r <;> exact ⟨rfl, rfl, rfl, rfl⟩

theorem propFetch_flags (st : HState) (ep : Nat) (r : FetchRes) :
    (propFetch st ep r).1.fetchFirst = st.fetchFirst ∧ (propFetch st ep r).1.indicesChanged = st.indicesChanged := by
  cases r <;> exact ⟨rfl, rfl⟩

end Ssv.Duties
