/-
C09 helper lemmas: how the state update touches the per-signer map (frame / pointwise characterisation),
what an accepted message guarantees about the signer list, and congruence of `check` in the part of the
state it reads.   Core Lean only.
-/
import Ssv.Proofs.ValidationPanic

namespace Ssv.Validation
open Ssv

/-! ## the state map -/

theorem State.set_same (st : State) (k : Key) (v : SignerState) : (st.set k v) k = some v := by
  simp [State.set]

theorem State.set_other (st : State) (k k' : Key) (v : SignerState) (h : k' ≠ k) : (st.set k v) k' = st k' := by
  simp [State.set, h]

/-! ## signers of an accepted message are strictly increasing -/

theorem commonSigner_ok (sh : Share) (s : Nat) (h : commonSigner sh s = .ok ()) : s ≠ 0 ∧ s ∈ sh.committee := by
  unfold commonSigner at h
  have hall := (firstFail_ok_iff _).mp h
  have h1 := (rejectIf_ok_iff _ _).mp (hall _ (List.mem_cons_self))
  have h2 := (rejectIf_ok_iff _ _).mp (hall _ (List.mem_cons_of_mem _ List.mem_cons_self))
  constructor
  · intro h0; subst h0; simp at h1
  · simpa using h2

/-- strictly increasing, starting above `a` -/
def StrictFrom : Nat → List Nat → Prop
  | _, [] => True
  | a, b :: r => a < b ∧ StrictFrom b r

theorem isSorted_tail (a : Nat) (l : List Nat) (h : isSorted (a :: l) = true) : isSorted l = true := by
  cases l with
  | nil => rfl
  | cons b r => unfold isSorted at h; simp only [Bool.and_eq_true] at h; exact h.2

theorem isSorted_head_le (a b : Nat) (r : List Nat) (h : isSorted (a :: b :: r) = true) : a ≤ b := by
  unfold isSorted at h; simp only [Bool.and_eq_true, decide_eq_true_eq] at h; exact h.1

/-- `signerLoop` passes on a sorted list: every signer is a non-zero committee member and the list is strictly increasing -/
theorem signerLoop_spec (sh : Share) (l : List Nat) : ∀ prev, (∀ f, l.head? = some f → prev ≤ f) → isSorted l = true →
    signerLoop sh prev l = .ok () → (∀ s ∈ l, s ≠ 0 ∧ s ∈ sh.committee) ∧ StrictFrom prev l := by
  induction l with
  | nil => intro prev _ _ _; exact ⟨by simp, trivial⟩
  | cons s rest ih =>
    intro prev hle hs h
    unfold signerLoop at h
    have hall := (firstFail_ok_iff _).mp h
    have h1 := commonSigner_ok sh s (hall _ (List.mem_cons_self))
    have h2 := (rejectIf_ok_iff _ _).mp (hall _ (List.mem_cons_of_mem _ List.mem_cons_self))
    have hrest : ∀ f, rest.head? = some f → s ≤ f := by
      intro f hf
      cases rest with
      | nil => cases hf
      | cons b r => simp at hf; subst hf; exact isSorted_head_le s b r hs
    have h3 := ih s hrest (isSorted_tail s rest hs) (hall _ (List.mem_cons_of_mem _ (List.mem_cons_of_mem _ List.mem_cons_self)))
    have hps : prev ≤ s := hle s rfl
    have hne : s ≠ prev := by intro he; subst he; simp at h2
    refine ⟨?_, ⟨by omega, h3.2⟩⟩
    intro s' hs'
    rcases List.mem_cons.mp hs' with h | h
    · subst h; exact h1
    · exact h3.1 s' h

theorem strictFrom_pairwise (l : List Nat) : ∀ a, StrictFrom a l → (a :: l).Pairwise (· < ·) := by
  induction l with
  | nil => intro a _; simp
  | cons b rest ih =>
    intro a h
    have ihb := ih b h.2
    rw [List.pairwise_cons] at ihb ⊢
    refine ⟨?_, List.pairwise_cons.mpr ihb⟩
    intro x hx
    rcases List.mem_cons.mp hx with hxb | hxr
    · subst hxb; exact h.1
    · exact Nat.lt_trans h.1 (ihb.1 x hxr)

/-- what `validConsensusSigners` guarantees: non-empty, strictly increasing (hence distinct), non-zero committee members -/
theorem validConsensusSigners_spec (sh : Share) (m : QMsg) (h : validConsensusSigners sh m = .ok ()) :
    m.signers ≠ [] ∧ m.signers.Pairwise (· < ·) ∧ (∀ s ∈ m.signers, s ≠ 0 ∧ s ∈ sh.committee) := by
  have hne := validConsensusSigners_nonempty sh m h
  unfold validConsensusSigners at h
  have hall := (firstFail_ok_iff _).mp h
  have hs := (rejectIf_ok_iff _ _).mp (hall _ (List.mem_cons_of_mem _ List.mem_cons_self))
  have hsorted : isSorted m.signers = true := by simpa using hs
  have hl := signerLoop_spec sh m.signers 0 (fun f _ => Nat.zero_le f) hsorted
    (hall _ (List.mem_cons_of_mem _ (List.mem_cons_of_mem _ List.mem_cons_self)))
  exact ⟨hne, (List.pairwise_cons.mp (strictFrom_pairwise _ 0 hl.2)).2, hl.1⟩

theorem pairwise_lt_nodup (l : List Nat) (h : l.Pairwise (· < ·)) : l.Nodup := by
  unfold List.Nodup
  exact h.imp (fun hab => by omega)

/-! ## pointwise characterisation of the consensus update -/

/-- keys of another (validator, role) or of a signer outside the list are untouched -/
theorem updConsensus_frame (c : NetCfg) (vid role : Nat) (m : QMsg) (l : List Nat) :
    ∀ st st', updConsensus c vid role m l st = .ok st' →
      ∀ k : Key, (k.1 ≠ vid ∨ k.2.1 ≠ role ∨ k.2.2 ∉ l) → st' k = st k := by
  induction l with
  | nil => intro st st' h k _; simp [updConsensus] at h; rw [← h]
  | cons s rest ih =>
    intro st st' h k hk
    unfold updConsensus at h
    split at h
    · cases h
    · rename_i ss hss
      have := ih _ _ h k (by
        rcases hk with h1 | h1 | h1
        · exact Or.inl h1
        · exact Or.inr (Or.inl h1)
        · exact Or.inr (Or.inr (fun hm => h1 (List.mem_cons_of_mem _ hm))))
      rw [this]
      apply State.set_other
      intro he
      rcases hk with h1 | h1 | h1
      · exact h1 (by rw [he])
      · exact h1 (by rw [he])
      · exact h1 (by rw [he]; exact List.mem_cons_self)

/-- for a duplicate-free signer list every listed signer's entry is the single-signer update of its old entry -/
theorem updConsensus_get (c : NetCfg) (vid role : Nat) (m : QMsg) (l : List Nat) :
    ∀ st st', l.Nodup → updConsensus c vid role m l st = .ok st' →
      ∀ s ∈ l, ∃ ss, updSignerConsensus c m (st (vid, role, s)) = .ok ss ∧ st' (vid, role, s) = some ss := by
  induction l with
  | nil => intro _ _ _ _ s hs; cases hs
  | cons a rest ih =>
    intro st st' hnd h s hs
    unfold updConsensus at h
    split at h
    · cases h
    · rename_i ss hss
      have hnd' := List.nodup_cons.mp hnd
      rcases List.mem_cons.mp hs with hsa | hsr
      · subst hsa
        refine ⟨ss, hss, ?_⟩
        have := updConsensus_frame c vid role m rest _ _ h (vid, role, s) (Or.inr (Or.inr hnd'.1))
        rw [this]; exact State.set_same _ _ _
      · obtain ⟨ss', h1, h2⟩ := ih _ _ hnd'.2 h s hsr
        refine ⟨ss', ?_, h2⟩
        have hne : (vid, role, s) ≠ (vid, role, a) := by
          intro he
          have : s = a := by injection he with _ h2; injection h2
          subst this; exact hnd'.1 hsr
        rw [State.set_other _ _ _ _ hne] at h1
        exact h1

/-! ## `check` only reads the entries of the message's own (validator, role) -/

theorem consensusChecks_congr (x : Ctx) (st1 st2 : State) (i : Input)
    (h : ∀ s, st1 (i.vid, i.role, s) = st2 (i.vid, i.role, s)) (sh : Share) (m : QMsg) :
    consensusChecks x st1 i sh m = consensusChecks x st2 i sh m := by
  unfold consensusChecks
  simp only [h]

theorem partialChecks_congr (x : Ctx) (st1 st2 : State) (i : Input)
    (h : ∀ s, st1 (i.vid, i.role, s) = st2 (i.vid, i.role, s)) (sh : Share) (m : PMsg) :
    partialChecks x st1 i sh m = partialChecks x st2 i sh m := by
  unfold partialChecks
  simp only [h]

theorem check_congr (x : Ctx) (st1 st2 : State) (i : Input) (h : ∀ s, st1 (i.vid, i.role, s) = st2 (i.vid, i.role, s)) :
    check x st1 i = check x st2 i := by
  unfold check
  simp only [consensusChecks_congr x st1 st2 i h, partialChecks_congr x st1 st2 i h]

theorem updConsensus_congr (c : NetCfg) (vid role : Nat) (m : QMsg) (l : List Nat) :
    ∀ st1 st2, (∀ s, st1 (vid, role, s) = st2 (vid, role, s)) →
      (∀ e, updConsensus c vid role m l st1 = .error e → updConsensus c vid role m l st2 = .error e) ∧
      (∀ st1', updConsensus c vid role m l st1 = .ok st1' → ∃ st2', updConsensus c vid role m l st2 = .ok st2' ∧
        ∀ s, st1' (vid, role, s) = st2' (vid, role, s)) := by
  induction l with
  | nil =>
    intro st1 st2 h
    exact ⟨fun e he => by simp [updConsensus] at he, fun st1' h1 => ⟨st2, rfl, by simp [updConsensus] at h1; subst h1; exact h⟩⟩
  | cons a rest ih =>
    intro st1 st2 h
    have hset : ∀ ss, ∀ s, (st1.set (vid, role, a) ss) (vid, role, s) = (st2.set (vid, role, a) ss) (vid, role, s) := by
      intro ss s
      by_cases hs : s = a
      · subst hs; simp [State.set]
      · have : (vid, role, s) ≠ (vid, role, a) := by
          intro he; injection he with _ h2; injection h2 with _ h3; exact hs h3
        rw [State.set_other _ _ _ _ this, State.set_other _ _ _ _ this]; exact h s
    unfold updConsensus
    rw [← h a]
    cases hu : updSignerConsensus c m (st1 (vid, role, a)) with
    | error e => exact ⟨fun e' he => he, fun _ h1 => by cases h1⟩
    | ok ss => exact ih _ _ (hset ss)

end Ssv.Validation
