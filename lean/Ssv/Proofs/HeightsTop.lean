/-
Helper lemmas for engine `heights` (C15), part 6: a decided instance AT the controller height is the stored highest
(`TInv`), and a valid decided message at or above the controller height ends up as the stored highest — unless the
instance was only reloaded from storage (full node).
-/
import Ssv.Proofs.HeightsLight

namespace Ssv.Heights

def TInv (c : Ctrl) (st : Store) : Prop :=
  ∀ i ∈ c.insts, i.height = c.height → i.decided = true → ∃ a, st.highest = some a ∧ a.inst.height = c.height

theorem saveFound_writes {c : Ctrl} {st : Store} {h : Nat} {m : Msg} {i : Inst} (hf : find c.insts h = some i)
    (hle : c.height ≤ h) : (saveFound c st h m).highest = some ⟨{ trim i with stopped := false }, m⟩ := by
  have hih := find_some_height hf
  unfold saveFound
  rw [hf]
  simp only
  unfold saveInstance
  have : c.height ≤ i.height := by omega
  cases c.full <;> simp [this, storeSave]

theorem TInv.start {c c' : Ctrl} {st : Store} {h : Nat} (inv : CInv c st) (hs : startNewInstance c h = .ok c') :
    TInv c' st := by
  obtain ⟨hle, hnone, hh, _, hins⟩ := startNewInstance_ok hs
  have hlt : ∀ x ∈ c.insts, x.height < (newInst h).height := by
    intro x hx
    have h1 := inv.top.le x hx
    have h2 := (find_none_iff.mp hnone) x hx
    show x.height < h
    omega
  intro i hi hih hdec
  rw [hins, addNew_of_lt hlt] at hi
  obtain ⟨x, hx, rfl⟩ := List.mem_map.mp hi
  rw [hh] at hih
  rcases List.mem_cons.mp hx with rfl | hx
  · -- the new instance is not decided
    simp [newInst] at hdec
  · have := hlt x (List.mem_of_mem_take hx)
    have h3 : (if x.height == h then x else { x with stopped := true }).height = x.height := stop_height h x
    rw [h3] at hih
    have : x.height < h := this
    omega

theorem TInv.compact {c : Ctrl} {st : Store} (t : TInv c st) (h : Nat) : TInv (compactAt c h) st := by
  intro i hi hih hdec
  rw [compactAt_height] at hih ⊢
  unfold compactAt at hi
  cases hf : find c.insts h with
  | none => rw [hf] at hi; exact t i hi hih hdec
  | some i0 =>
    rw [hf] at hi
    simp only at hi
    rcases mem_replaceInst hi with rfl | hi
    · exact t i0 (find_some_mem hf) hih hdec
    · exact t i hi hih hdec

theorem TInv.saveFound {c : Ctrl} {st : Store} {h : Nat} {m : Msg} (t : TInv c st) (hh : h ≤ c.height) :
    TInv c (saveFound c st h m) := by
  intro i hi hih hdec
  rcases saveFound_highest c st h m with hu | ⟨hle, i', hf', hw⟩
  · rw [hu]; exact t i hi hih hdec
  · exact ⟨_, hw, by show i'.height = c.height; rw [find_some_height hf']; omega⟩

theorem TInv.uponDecided {c : Ctrl} {st : Store} (inv : CInv c st) (t : TInv c st) (h : Nat) (m : Msg) :
    TInv (uponDecided c st h m).1 (uponDecided c st h m).2.1 := by
  have he := uponDecided_eq c st h m
  simp only at he
  rw [he]
  simp only
  intro i hi hih hdec
  simp only at hi hih ⊢
  by_cases hlt : h < c.height
  · -- below the controller height: the instance at the height and the highest record are untouched
    have hhe : (if c.height < h then h else c.height) = c.height := by split <;> omega
    rw [hhe] at hih ⊢
    have hi_old : i ∈ c.insts := by
      cases hf : find c.insts h with
      | some i0 =>
        rcases decidedBranch_mem (st := st) (m := m) hf with ⟨h1, _, _⟩ | ⟨i', hi', h1, _⟩
        · rw [h1] at hi; exact hi
        · rw [h1] at hi
          rcases mem_replaceInst hi with rfl | hi
          · omega
          · exact hi
      | none =>
        rcases decidedBranch_notmem (st := st) (m := m) hf with h1 | ⟨h1, _⟩
        · rw [h1] at hi; exact hi
        · rw [h1] at hi
          rcases mem_addNew hi with rfl | hi
          · have : (⟨h, m.round, true, false, [m]⟩ : Inst).height = h := rfl
            omega
          · exact hi
    obtain ⟨a, ha, hah⟩ := t i hi_old hih hdec
    refine ⟨a, ?_, hah⟩
    split
    · rcases saveFound_highest { c with insts := (decidedBranch c st h m).1, height := c.height } st h m with hu | ⟨hle, _⟩
      · rw [hu]; exact ha
      · simp only at hle; omega
    · exact ha
  · -- at or above the controller height
    have hge : c.height ≤ h := by omega
    have hhe : (if c.height < h then h else c.height) = h := by split <;> omega
    rw [hhe] at hih ⊢
    cases hf : find c.insts h with
    | some i0 =>
      have hi0h := find_some_height hf
      have hhc : h = c.height := by
        have := inv.top.le i0 (find_some_mem hf); omega
      rcases decidedBranch_mem (st := st) (m := m) hf with ⟨h1, h2, h3⟩ | ⟨i', hi', h1, h2, _⟩
      · rw [h2]
        simp only [Bool.false_eq_true, if_false]
        obtain ⟨a, ha, hah⟩ := t i0 (find_some_mem hf) (by omega) h3
        exact ⟨a, ha, by omega⟩
      · rw [h2]
        simp only [if_true]
        have hfind : find (decidedBranch c st h m).1 h = some i' := by rw [h1]; exact find_replaceInst_same hf hi'
        refine ⟨_, saveFound_writes (c := { c with insts := (decidedBranch c st h m).1, height := h }) hfind (Nat.le_refl _), ?_⟩
        show i'.height = h
        exact hi'
    | none =>
      rcases decidedBranch_notmem (st := st) (m := m) hf with h1 | ⟨h1, h2⟩
      · rw [h1] at hi
        exact absurd hih ((find_none_iff.mp hf) i hi)
      · rw [h2]
        simp only [if_true]
        have hall : ∀ x ∈ c.insts, x.height < (⟨h, m.round, true, false, [m]⟩ : Inst).height := by
          intro x hx
          have h1 := inv.top.le x hx
          have h2 := (find_none_iff.mp hf) x hx
          show x.height < h
          omega
        have hfind : find (decidedBranch c st h m).1 h = some ⟨h, m.round, true, false, [m]⟩ := by
          rw [h1, addNew_of_lt hall, find_cons]; simp
        exact ⟨_, saveFound_writes (c := { c with insts := (decidedBranch c st h m).1, height := h }) hfind (Nat.le_refl _), rfl⟩

theorem TInv.processMsg {c : Ctrl} {st : Store} (inv : CInv c st) (t : TInv c st) (q h : Nat) (m : Msg) (ok : Bool) :
    TInv (processMsg q c st h m ok).1 (processMsg q c st h m ok).2.1 := by
  rcases processMsg_cases q c st h m ok with he | ⟨_, _, he⟩
  · rw [he]; exact t
  · rw [he]; exact t.uponDecided inv h m

theorem TInv.load (st : Store) (full : Bool) : TInv (loadHighest (newCtrl full) st).1 st := by
  cases ha : st.highest with
  | none =>
    rw [(loadHighest_none ha).1]
    intro i hi; cases hi
  | some a =>
    obtain ⟨h1, _, _, _⟩ := loadHighest_some (c := newCtrl full) ha
    intro i _ _ _
    exact ⟨a, ha, h1.symm⟩

def SInvT (s : State) : Prop := CInv s.c s.s ∧ TInv s.c s.s

theorem SInvT.init (full : Bool) (q : Nat) : SInvT (init full q) :=
  ⟨CInv.init full, by intro i hi; cases hi⟩

/-- no op of the history is a decided message delivered during a store-write failure -/
def NoStoreFail (ops : List Op) : Prop := ∀ op ∈ ops, ∀ h r root sg ok via, op ≠ .decidedSF h r root sg ok via

theorem TInv.commits {s : State} (ci : CInv s.c s.s) (t : TInv s.c s.s) (root : Nat) (vc : Bool) :
    TInv (commitsStep s root vc).1.c (commitsStep s root vc).1.s := by
  rcases commitsStep_cases s root vc with ⟨h0, _⟩ | ⟨rh, i, _, hf, _, _, hc, hs⟩
  · rw [h0]; exact t
  · rw [hc, hs]
    have hih := find_some_height hf
    intro x hx hxh hxd
    have hxh' : x.height = s.c.height := hxh
    have hx' : x ∈ replaceInst { i with decided := true, commits := singles s.q root } s.c.insts := hx
    show ∃ a : Stored, _ ∧ a.inst.height = s.c.height
    rcases mem_replaceInst hx' with rfl | hxo
    · -- the newly decided instance is AT the controller height: the save writes it as highest
      have hrc : rh = s.c.height := by
        have : ({ i with decided := true, commits := singles s.q root } : Inst).height = i.height := rfl
        omega
      have hfind : find (replaceInst { i with decided := true, commits := singles s.q root } s.c.insts) rh =
          some { i with decided := true, commits := singles s.q root } :=
        find_replaceInst_same (i' := { i with decided := true, commits := singles s.q root }) hf hih
      refine ⟨_, saveFound_writes
        (c := { s.c with insts := replaceInst { i with decided := true, commits := singles s.q root } s.c.insts }) hfind
        (by show s.c.height ≤ rh; omega), ?_⟩
      show i.height = s.c.height
      omega
    · obtain ⟨a, ha, hah⟩ := t x hxo hxh' hxd
      rcases saveFound_highest
          { s.c with insts := replaceInst { i with decided := true, commits := singles s.q root } s.c.insts } s.s rh
          ⟨Gen.heights_FirstRound, root, List.range' 1 s.q⟩ with hu | ⟨hle, i', hf', hw⟩
      · exact ⟨a, by rw [hu]; exact ha, hah⟩
      · refine ⟨_, hw, ?_⟩
        show i'.height = s.c.height
        have h1 := find_some_height hf'
        have h2 : s.c.height ≤ rh := hle
        have h3 : rh ≤ s.c.height := hih ▸ ci.top.le i (find_some_mem hf)
        omega

theorem SInvT.step {s : State} (inv : SInvT s) (op : Op)
    (hnf : ∀ h r root sg ok via, op ≠ .decidedSF h r root sg ok via) : SInvT (Heights.step s op).1 := by
  refine ⟨SInv.step inv.1 op, ?_⟩
  obtain ⟨ci, t⟩ := inv
  rcases step_cs s op with ⟨hc, hs⟩ | ⟨slot, c', hst, hc, hs⟩ | ⟨h, m, ok, hc, hs⟩ | ⟨h, m, ok, hc, hs⟩ |
    ⟨h, m, ok, hop, _, _⟩ | ⟨h, m, ok, hop, _, _⟩ | ⟨root, vc, hc, hs⟩ | ⟨h, hc, hs⟩ | ⟨full, _, hc, hs⟩
  · rw [hc, hs]; exact t
  · rw [hc, hs]; exact TInv.start ci hst
  · rw [hc, hs]; exact t.processMsg ci s.q h m ok
  · rw [hc, hs]
    unfold decidedViaRunner
    simp only
    have hp := t.processMsg ci s.q h m ok
    have hc2 : TInv (if s.q ≤ m.signers.length then compactAt (processMsg s.q s.c s.s h m ok).1 h else (processMsg s.q s.c s.s h m ok).1)
        (processMsg s.q s.c s.s h m ok).2.1 := by
      split
      · exact hp.compact h
      · exact hp
    cases hsv : runnerSaves s.r h (processMsg s.q s.c s.s h m ok).2.2
    · simpa using hc2
    · simp only [if_true]
      have hnew : (processMsg s.q s.c s.s h m ok).2.2 = .new := by
        unfold runnerSaves at hsv
        simp only [Bool.and_eq_true] at hsv
        simpa using hsv.1.1.1
      rcases processMsg_cases s.q s.c s.s h m ok with he | ⟨_, hq, he⟩
      · rw [he] at hnew; cases hnew
      · apply hc2.saveFound
        simp only [hq, if_true, compactAt_height]
        rw [he]
        exact (uponDecided_height_ge s.c s.s h m).1
  · exact absurd hop (hnf _ _ _ _ _ _)
  · exact absurd hop (hnf _ _ _ _ _ _)
  · rw [hc, hs]; exact TInv.commits ci t root vc
  · rw [hc, hs]; exact t.compact h
  · rw [hc, hs]; exact TInv.load s.s full

theorem SInvT.reach (full : Bool) (q : Nat) (ops : List Op) (hnf : NoStoreFail ops) :
    SInvT (Heights.run (Heights.init full q) ops) := by
  suffices h : ∀ s, SInvT s → SInvT (Heights.run s ops) from h _ (SInvT.init full q)
  induction ops with
  | nil => intro s hs; exact hs
  | cons op ops ih =>
    intro s hs
    exact ih (fun o ho => hnf o (List.mem_cons_of_mem _ ho)) _ (hs.step op (hnf op (by simp)))

/-- a valid decided message at or above the controller height becomes (or already is) the stored highest, unless its
    instance is only reloaded from storage (full node, not in memory, in the historical store) -/
theorem top_decided_stored {s : State} (inv : SInvT s) (h r root : Nat) (sg : List Nat) (via : Bool)
    (hq : s.q ≤ sg.length) (hge : s.c.height ≤ h)
    (hnr : s.c.full = false ∨ (find s.c.insts h).isSome = true ∨ histGet s.s.hist h = none) :
    ∃ b, (Heights.step s (.decided h r root sg true via)).1.s.highest = some b ∧ b.inst.height = h := by
  obtain ⟨ci, t⟩ := inv
  have hpm : processMsg s.q s.c s.s h ⟨r, root, sg⟩ true = uponDecided s.c s.s h ⟨r, root, sg⟩ := by
    unfold processMsg
    have : ¬ sg.length < s.q := by omega
    simp [this]
  -- after UponDecided the highest record has height h
  have hud : ∃ b, (uponDecided s.c s.s h ⟨r, root, sg⟩).2.1.highest = some b ∧ b.inst.height = h := by
    have he := uponDecided_eq s.c s.s h ⟨r, root, sg⟩
    simp only at he
    rw [he]
    simp only
    have hhe : (if s.c.height < h then h else s.c.height) = h := by split <;> omega
    rw [hhe]
    cases hf : find s.c.insts h with
    | some i0 =>
      have hhc : h = s.c.height := by
        have := ci.top.le i0 (find_some_mem hf); have := find_some_height hf; omega
      rcases decidedBranch_mem (st := s.s) (m := ⟨r, root, sg⟩) hf with ⟨_, h2, h3⟩ | ⟨i', hi', h1, h2, _⟩
      · rw [h2]
        simp only [Bool.false_eq_true, if_false]
        obtain ⟨a, ha, hah⟩ := t i0 (find_some_mem hf) (by have := find_some_height hf; omega) h3
        exact ⟨a, ha, by omega⟩
      · rw [h2]
        simp only [if_true]
        have hfind : find (decidedBranch s.c s.s h ⟨r, root, sg⟩).1 h = some i' := by rw [h1]; exact find_replaceInst_same hf hi'
        exact ⟨_, saveFound_writes (c := { s.c with insts := (decidedBranch s.c s.s h ⟨r, root, sg⟩).1, height := h }) hfind
          (Nat.le_refl _), hi'⟩
    | none =>
      have hnone : instanceForHeight s.c s.s h = none := by
        rcases hnr with hl | hm | hh
        · exact instanceForHeight_light hl hf
        · rw [hf] at hm; cases hm
        · unfold instanceForHeight; rw [hf, hh]; simp
      have hbr : decidedBranch s.c s.s h ⟨r, root, sg⟩ = (addNew s.c.insts ⟨h, r, true, false, [⟨r, root, sg⟩]⟩, true) := by
        unfold decidedBranch; rw [hnone]
      rw [hbr]
      simp only [if_true]
      have hall : ∀ x ∈ s.c.insts, x.height < (⟨h, r, true, false, [⟨r, root, sg⟩]⟩ : Inst).height := by
        intro x hx
        have h1 := ci.top.le x hx
        have h2 := (find_none_iff.mp hf) x hx
        show x.height < h
        omega
      have hfind : find (addNew s.c.insts ⟨h, r, true, false, [⟨r, root, sg⟩]⟩) h = some ⟨h, r, true, false, [⟨r, root, sg⟩]⟩ := by
        rw [addNew_of_lt hall, find_cons]; simp
      exact ⟨_, saveFound_writes (c := { s.c with insts := addNew s.c.insts ⟨h, r, true, false, [⟨r, root, sg⟩]⟩, height := h })
        hfind (Nat.le_refl _), rfl⟩
  cases via
  · show ∃ b, (decidedViaCtrl s h ⟨r, root, sg⟩ true).1.s.highest = some b ∧ _
    unfold decidedViaCtrl
    simp only
    rw [hpm]; exact hud
  · show ∃ b, (decidedViaRunner s h ⟨r, root, sg⟩ true).1.s.highest = some b ∧ _
    unfold decidedViaRunner
    simp only
    rw [hpm]
    simp only [hq, if_true]
    split
    · obtain ⟨b, hb, hbh⟩ := hud
      rcases saveFound_highest (compactAt (uponDecided s.c s.s h ⟨r, root, sg⟩).1 h)
          (uponDecided s.c s.s h ⟨r, root, sg⟩).2.1 h ⟨r, root, sg⟩ with hu | ⟨_, i', hf', hw⟩
      · exact ⟨b, by rw [hu]; exact hb, hbh⟩
      · exact ⟨_, hw, (find_some_height hf' : i'.height = h)⟩
    · exact hud

theorem run_q (s : State) (ops : List Op) : (Heights.run s ops).q = s.q := by
  induction ops generalizing s with
  | nil => rfl
  | cons op ops ih => rw [run_cons, ih, step_q]

end Ssv.Heights
