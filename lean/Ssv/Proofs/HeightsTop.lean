/-
Helper lemmas for engine `heights` (C15), part 6: a decided instance AT the controller height is the stored highest
(`TInv`), and a valid decided message at or above the controller height ends up as the stored highest — on histories
without store-write failures (what a failed write did not store cannot be there).
-/
import Ssv.Proofs.HeightsAtTop

namespace Ssv.Heights

def TInv (c : Ctrl) (st : Store) : Prop :=
  ∀ i ∈ c.insts, i.height = c.height → i.decided = true → ∃ a, st.highest = some a ∧ a.inst.height = c.height

/-- no op of the history is a decided message delivered during a store-write failure -/
def NoStoreFail (ops : List Op) : Prop := ∀ op ∈ ops, ∀ h r root sg ok via, op ≠ .decidedSF h r root sg ok via

theorem TInv.start {c c' : Ctrl} {st : Store} {h : Nat} (inv : CInv c st) (hs : startNewInstance c h = .ok c') :
    TInv c' st := by
  obtain ⟨_, _, hh, _, hins⟩ := startNewInstance_ok hs
  have hlt := start_lt inv.top hs
  intro i hi hih hdec
  rw [hins, addNew_of_lt hlt] at hi
  obtain ⟨x, hx, rfl⟩ := List.mem_map.mp hi
  rw [hh] at hih
  rcases List.mem_cons.mp hx with rfl | hx
  · simp [newInst] at hdec
  · have := hlt x (List.mem_of_mem_take hx)
    have h3 : (if x.height == h then x else { x with stopped := true }).height = x.height := stop_height h x
    rw [h3] at hih
    have : x.height < h := this
    omega

theorem TInv.compact {c : Ctrl} {st : Store} (t : TInv c st) (h : Nat) : TInv (compactAt c h) st := by
  intro i hi hih hdec
  rw [compactAt_height] at hih ⊢
  unfold compactAt at hi
  cases hf : find c.insts h with
  | none => rw [hf] at hi; exact t i hi hih hdec
  | some i0 =>
    rw [hf] at hi
    simp only at hi
    rcases mem_replaceInst hi with rfl | hi
    · exact t i0 (find_some_mem hf) hih hdec
    · exact t i hi hih hdec

theorem TInv.saveFound {c : Ctrl} {st : Store} {h : Nat} {m : Msg} (t : TInv c st) (hh : h ≤ c.height) :
    TInv c (saveFound c st h m) := by
  intro i hi hih hdec
  rcases saveFound_highest c st h m with hu | ⟨hle, i', hf', _, hw⟩
  · rw [hu]; exact t i hi hih hdec
  · exact ⟨_, hw, by rw [recOf_height, find_some_height hf']; omega⟩

theorem TInv.uponDecided {c : Ctrl} {st : Store} (inv : CInv c st) (t : TInv c st) (h : Nat) (m : Msg) :
    TInv (uponDecided c st h m).1 (uponDecided c st h m).2.1 := by
  have he := uponDecided_eq c st h m
  simp only at he
  rw [he]
  simp only
  intro i hi hih hdec
  simp only at hi hih ⊢
  by_cases hlt : h < c.height
  · -- below the controller height: the instance at the height and the highest record are untouched
    have hhe : (if c.height < h then h else c.height) = c.height := by split <;> omega
    rw [hhe] at hih ⊢
    have hi_old : i ∈ c.insts := decidedBranch_mem_other inv.hist hi (by omega)
    obtain ⟨a, ha, hah⟩ := t i hi_old hih hdec
    refine ⟨a, ?_, hah⟩
    split
    · rcases saveFound_highest { c with insts := (decidedBranch c st h m).1, height := c.height } st h m with hu | ⟨hle, _⟩
      · rw [hu]; exact ha
      · simp only at hle; omega
    · exact ha
  · -- at or above the controller height
    have hge : c.height ≤ h := by omega
    have hhe : (if c.height < h then h else c.height) = h := by split <;> omega
    rw [hhe] at hih ⊢
    have hfindB : ∃ y, find (decidedBranch c st h m).1 h = some y := by
      cases hfb : find (decidedBranch c st h m).1 h with
      | none => exact absurd hih ((find_none_iff.mp hfb) i hi)
      | some y => exact ⟨y, rfl⟩
    obtain ⟨y, hy⟩ := hfindB
    cases hs : (decidedBranch c st h m).2
    · -- not saved: only when the in-memory instance was decided before and the message brings nothing new
      simp only [Bool.false_eq_true, if_false]
      cases hf : find c.insts h with
      | none => have := (decidedBranch_notmem (m := m) inv.hist hf).1; rw [this] at hs; cases hs
      | some i0 =>
        have hhc : h = c.height := by
          have := inv.top.le i0 (find_some_mem hf); have := find_some_height hf; omega
        rcases decidedBranch_mem (st := st) (m := m) hf with ⟨_, _, h3⟩ | ⟨_, _, _, h2, _⟩
        · obtain ⟨a, ha, hah⟩ := t i0 (find_some_mem hf) (by have := find_some_height hf; omega) h3
          exact ⟨a, ha, by omega⟩
        · rw [h2] at hs; cases hs
    · simp only [if_true]
      exact saveFound_stores (c := { c with insts := (decidedBranch c st h m).1, height := h }) hy (Nat.le_refl _)
        (fun a ha => Nat.le_trans (inv.le a ha) hge)

/-! ## an instance with an accepted proposal is decided (in this engine a proposal is only accepted by `commits`) -/

def PAcc (i : Inst) : Prop := i.accepted.isSome = true → i.decided = true

structure AInv (c : Ctrl) (st : Store) : Prop where
  insts : ∀ i ∈ c.insts, PAcc i
  hi : ∀ a, st.highest = some a → PAcc a.inst
  hist : ∀ h a, histGet st.hist h = some a → PAcc a.inst

theorem PAcc.trim {i : Inst} (h : PAcc i) : PAcc (trim i) := h
theorem PAcc.recOf {i : Inst} (h : PAcc i) (m : Msg) : PAcc (recOf i m).inst := h
theorem PAcc.of_decided {i : Inst} (h : i.decided = true) : PAcc i := fun _ => h

theorem AInv.storeSave {c : Ctrl} {st : Store} (a : AInv c st) {i : Inst} (hi : PAcc i) (m : Msg) (th ah : Bool) :
    AInv c (storeSave st ⟨i, m⟩ th ah) := by
  refine ⟨a.insts, ?_, ?_⟩
  · intro x hx
    rcases storeSave_highest st i m th ah with hu | ⟨_, _, hw⟩
    · rw [hu] at hx; exact a.hi x hx
    · rw [hw] at hx; cases hx; exact hi.recOf m
  · intro h x hx
    unfold Heights.storeSave at hx
    simp only at hx
    split at hx
    · rw [histGet_histPut] at hx
      split at hx
      · cases hx; exact hi
      · exact a.hist h x hx
    · exact a.hist h x hx

theorem AInv.saveFound {c : Ctrl} {st : Store} (a : AInv c st) (h : Nat) (m : Msg) : AInv c (saveFound c st h m) := by
  unfold Heights.saveFound
  cases hf : find c.insts h with
  | none => exact a
  | some i =>
    have hi := a.insts i (find_some_mem hf)
    simp only
    unfold saveInstance
    simp only
    cases c.full <;> cases decide (c.height ≤ i.height)
    · exact a
    · exact a.storeSave hi m false true
    · exact a.storeSave hi m true false
    · exact a.storeSave hi m true true

/-- only the container matters for the store-independent part -/
theorem AInv.of_insts {c c' : Ctrl} {st : Store} (a : AInv c st) (h : ∀ i ∈ c'.insts, PAcc i) : AInv c' st :=
  ⟨h, a.hi, a.hist⟩

theorem AInv.branch {c : Ctrl} {st : Store} (a : AInv c st) (hok : HistOk st.hist) (h : Nat) (m : Msg) :
    ∀ y ∈ (decidedBranch c st h m).1, PAcc y := by
  intro y hy
  cases hf : find c.insts h with
  | some i =>
    rcases decidedBranch_mem (st := st) (m := m) hf with ⟨h1, _, _⟩ | ⟨i', _, h1, _, hd⟩
    · rw [h1] at hy; exact a.insts y hy
    · rw [h1] at hy
      rcases mem_replaceInst hy with rfl | hy
      · exact PAcc.of_decided hd
      · exact a.insts y hy
  | none =>
    obtain ⟨_, x, hx, horig, hcase⟩ := decidedBranch_notmem (m := m) hok hf
    have hpx : PAcc x := by
      rcases horig with hn | ⟨s0, hs0, rfl⟩
      · intro hsome; rw [hn] at hsome; cases hsome
      · exact a.hist h s0 hs0
    rcases hcase with ⟨h1, _⟩ | ⟨i', _, hd, h1⟩
    · rw [h1] at hy
      rcases mem_addNew hy with rfl | hy
      · exact hpx
      · exact a.insts y hy
    · rw [h1] at hy
      rcases mem_replaceInst hy with rfl | hy
      · exact PAcc.of_decided hd
      · rcases mem_addNew hy with rfl | hy
        · exact hpx
        · exact a.insts y hy

theorem AInv.uponDecided {c : Ctrl} {st : Store} (a : AInv c st) (hok : HistOk st.hist) (h : Nat) (m : Msg) :
    AInv (uponDecided c st h m).1 (uponDecided c st h m).2.1 := by
  have he := uponDecided_eq c st h m
  simp only at he
  rw [he]
  simp only
  have hb : AInv { c with insts := (decidedBranch c st h m).1, height := if c.height < h then h else c.height } st :=
    a.of_insts (a.branch hok h m)
  cases hs : (decidedBranch c st h m).2
  · simpa using hb
  · simpa using hb.saveFound h m

theorem AInv.existingMsg {c : Ctrl} {st : Store} (a : AInv c st) (q h : Nat) (m : Msg) :
    AInv (Heights.existingMsg q c st h m).1 st := by
  rcases existingMsg_ctrl q c st h m with he | ⟨i, i', hf, _, _, hacc, hdec, he⟩
  · rw [he]; exact a
  · rw [he]
    apply a.of_insts
    intro y hy
    rcases mem_replaceInst hy with rfl | hy
    · intro hs
      rw [hacc] at hs
      have := a.insts i (find_some_mem hf) hs
      rw [hdec, this]; rfl
    · exact a.insts y hy

theorem AInv.processMsg {c : Ctrl} {st : Store} (a : AInv c st) (hok : HistOk st.hist) (q h : Nat) (m : Msg) (ok : Bool) :
    AInv (Heights.processMsg q c st h m ok).1 (Heights.processMsg q c st h m ok).2.1 := by
  rcases processMsg_cases q c st h m ok with he | ⟨_, _, he⟩ | ⟨_, _, he⟩
  · rw [he]; exact a
  · rw [he]; exact a.uponDecided hok h m
  · rw [he]; exact a.existingMsg q h m

theorem AInv.processMsg_ctrl {c : Ctrl} {st : Store} (a : AInv c st) (hok : HistOk st.hist) (q h : Nat) (m : Msg) (ok : Bool) :
    AInv (Heights.processMsg q c st h m ok).1 st :=
  a.of_insts (a.processMsg hok q h m ok).insts

theorem AInv.compact {c : Ctrl} {st : Store} (a : AInv c st) (h : Nat) : AInv (compactAt c h) st := by
  apply a.of_insts
  intro y hy
  unfold compactAt at hy
  cases hf : find c.insts h with
  | none => rw [hf] at hy; exact a.insts y hy
  | some i0 =>
    rw [hf] at hy
    simp only at hy
    rcases mem_replaceInst hy with rfl | hy
    · exact (a.insts i0 (find_some_mem hf)).trim
    · exact a.insts y hy

/-- with `AInv`, the below-quorum commit path never reports a first decision: `.new` means a valid decided message -/
theorem new_valid {s : State} (a : AInv s.c s.s) {h : Nat} {m : Msg} {ok : Bool}
    (hnew : (processMsg s.q s.c s.s h m ok).2.2 = .new) :
    s.q ≤ m.signers.length ∧ processMsg s.q s.c s.s h m ok = uponDecided s.c s.s h m ∧
    h ≤ (processMsg s.q s.c s.s h m ok).1.height ∧ retMsg s.q s.c s.s h m ok = m := by
  rcases processMsg_cases s.q s.c s.s h m ok with he | ⟨_, hq, he⟩ | ⟨_, hlt, he⟩
  · rw [he] at hnew; cases hnew
  · refine ⟨hq, he, by rw [he]; exact (uponDecided_height_ge s.c s.s h m).1, ?_⟩
    unfold retMsg
    have : ¬ m.signers.length < s.q := by omega
    simp [this]
  · rw [he] at hnew
    obtain ⟨i, inMem, hi, hacc, hnd⟩ := existingMsg_new hnew
    have hp : PAcc i := by
      cases inMem
      · -- reloaded from the historical store
        unfold instanceForHeight at hi
        cases hf : find s.c.insts h with
        | some j => rw [hf] at hi; simp at hi
        | none =>
          rw [hf] at hi
          simp only at hi
          cases hfull : s.c.full
          · rw [hfull] at hi; simp at hi
          · rw [hfull] at hi
            cases hh : histGet s.s.hist h with
            | none => rw [hh] at hi; simp at hi
            | some s0 =>
              rw [hh] at hi
              simp only [if_true, Option.some.injEq, Prod.mk.injEq, and_true] at hi
              rw [← hi]; exact a.hist h s0 hh
      · exact a.insts i (find_some_mem (instanceForHeight_true hi))
    have := hp hacc
    rw [hnd] at this; cases this

theorem TInv.processMsg {c : Ctrl} {st : Store} (inv : CInv c st) (t : TInv c st) (a : AInv c st) (q h : Nat) (m : Msg)
    (ok : Bool) : TInv (Heights.processMsg q c st h m ok).1 (Heights.processMsg q c st h m ok).2.1 := by
  rcases processMsg_cases q c st h m ok with he | ⟨_, _, he⟩ | ⟨_, _, he⟩
  · rw [he]; exact t
  · rw [he]; exact t.uponDecided inv h m
  · rw [he]
    simp only
    rcases existingMsg_ctrl q c st h m with he2 | ⟨i, i', hf, hi', hacc, _, _, he2⟩
    · rw [he2]; exact t
    · rw [he2]
      intro y hy hyh hyd
      have hy' : y ∈ replaceInst i' c.insts := hy
      have hyh' : y.height = c.height := hyh
      show ∃ b : Stored, st.highest = some b ∧ b.inst.height = c.height
      rcases mem_replaceInst hy' with rfl | hyo
      · -- the updated instance was decided before (it has an accepted proposal)
        have hid := a.insts i (find_some_mem hf) hacc
        exact t i (find_some_mem hf) (by have := find_some_height hf; omega) hid
      · exact t y hyo hyh' hyd

theorem TInv.load (st : Store) (full : Bool) : TInv (loadHighest (newCtrl full) st).1 st := by
  cases ha : st.highest with
  | none =>
    rw [(loadHighest_none ha).1]
    intro i hi; cases hi
  | some a =>
    obtain ⟨h1, _, _, _⟩ := loadHighest_some (c := newCtrl full) ha
    intro i _ _ _
    exact ⟨a, ha, h1.symm⟩

theorem TInv.commits {s : State} (ci : CInv s.c s.s) (t : TInv s.c s.s) (root : Nat) (vc : Bool)
    (hnv : s.r.hasValue = false) : TInv (commitsStep s root vc).1.c (commitsStep s root vc).1.s := by
  rcases commitsStep_cases s root vc with ⟨h0, _⟩ | ⟨rh, i, _, hf, _, _, _, hc, ⟨hv, _⟩ | ⟨_, hs⟩⟩
  · rw [h0]; exact t
  · rw [hv] at hnv; cases hnv
  · rw [hc, hs]
    have hih := find_some_height hf
    have hrh : rh ≤ s.c.height := hih ▸ ci.top.le i (find_some_mem hf)
    intro x hx hxh hxd
    have hxh' : x.height = s.c.height := hxh
    have hx' : x ∈ replaceInst (commitsInst s i root) s.c.insts := hx
    show ∃ a : Stored, _ ∧ a.inst.height = s.c.height
    rcases mem_replaceInst hx' with rfl | hxo
    · have hrc : rh = s.c.height := by
        have : (commitsInst s i root).height = i.height := rfl
        omega
      have hfind : find (commitsCtrl s i root).insts rh = some (commitsInst s i root) :=
        find_replaceInst_same (i' := commitsInst s i root) hf hih
      obtain ⟨b, hb, hbh⟩ := saveFound_stores (st := s.s) (m := ⟨Gen.heights_FirstRound, root, List.range' 1 s.q⟩) hfind
        (by rw [commitsCtrl_height]; omega) (fun a ha => by have := ci.le a ha; omega)
      exact ⟨b, hb, by omega⟩
    · obtain ⟨a, ha, hah⟩ := t x hxo hxh' hxd
      rcases saveFound_highest (commitsCtrl s i root) s.s rh ⟨Gen.heights_FirstRound, root, List.range' 1 s.q⟩
        with hu | ⟨hle, i', hf', _, hw⟩
      · exact ⟨a, by rw [hu]; exact ha, hah⟩
      · refine ⟨_, hw, ?_⟩
        rw [recOf_height, find_some_height hf']
        have h2 : s.c.height ≤ rh := hle
        omega

/-! ## a duty that holds a decided value has no fresh running instance (so `commits` never meets `hasValue`) -/

theorem find_ins_other {x : Inst} {l : List Inst} {k : Nat} (hx : x.height ≠ k) : find (ins x l) k = find l k := by
  induction l with
  | nil => simp [ins, find_cons, hx, find_nil]
  | cons y ys ih =>
    unfold ins
    split
    · rw [find_cons]; simp [hx]
    · rw [find_cons, find_cons, ih]

theorem find_take {l : List Inst} {n k : Nat} {y : Inst} (h : find (l.take n) k = some y) : find l k = some y := by
  induction l generalizing n with
  | nil => simp [find_nil] at h
  | cons x xs ih =>
    cases n with
    | zero => simp [find_nil] at h
    | succ n =>
      rw [List.take_succ_cons, find_cons] at h
      rw [find_cons]
      split
      · rename_i hx; simpa [hx] using h
      · rename_i hx; simp only [hx, if_false] at h; exact ih h

theorem find_addNew_other {x : Inst} {l : List Inst} {k : Nat} {y : Inst} (hx : x.height ≠ k)
    (h : find (addNew l x) k = some y) : find l k = some y := by
  unfold addNew at h
  rw [← find_ins_other hx]
  exact find_take h

theorem find_ins_self {x : Inst} {l : List Inst} (hl : find l x.height = none) : find (ins x l) x.height = some x := by
  induction l with
  | nil => simp [ins, find_cons]
  | cons y ys ih =>
    have hy : y.height ≠ x.height := (find_none_iff.mp hl) y (by simp)
    rw [find_cons] at hl
    simp only [hy, if_false] at hl
    unfold ins
    split
    · rw [find_cons]; simp
    · rw [find_cons]; simp only [hy, if_false]; exact ih hl

theorem find_addNew_self {x : Inst} {l : List Inst} {y : Inst} (hl : find l x.height = none)
    (h : find (addNew l x) x.height = some y) : y = x := by
  unfold addNew at h
  have := find_take h
  rw [find_ins_self hl] at this
  cases this; rfl

/-- after the branch: the (first) instance of the message's height in the container is decided -/
theorem branch_find_at {c : Ctrl} {st : Store} {h : Nat} {m : Msg} (hok : HistOk st.hist) {y : Inst}
    (hy : find (decidedBranch c st h m).1 h = some y) : y.decided = true := by
  cases hf : find c.insts h with
  | some i =>
    rcases decidedBranch_mem (st := st) (m := m) hf with ⟨h1, _, hd⟩ | ⟨i', hi', h1, _, hd⟩
    · rw [h1, hf] at hy; cases hy; exact hd
    · rw [h1, find_replaceInst_same hf hi'] at hy; cases hy; exact hd
  | none =>
    obtain ⟨_, x, hx, _, ⟨h1, hdx⟩ | ⟨i', hi', hd, h1⟩⟩ := decidedBranch_notmem (m := m) hok hf
    · rw [h1] at hy
      rcases hdx with hdx | hdx
      · have := find_addNew_self (by rw [hx]; exact hf) (by rw [hx]; exact hy)
        rw [this]; exact hdx
      · rw [hy] at hdx; cases hdx
    · rw [h1] at hy
      cases hfa : find (addNew c.insts x) h with
      | none =>
        rw [replaceInst_of_none (by rw [hi']; exact hfa), hfa] at hy; cases hy
      | some z =>
        rw [find_replaceInst_same hfa hi'] at hy; cases hy; exact hd

/-- … and for every other height the (first) instance is the one that was there before -/
theorem branch_find_other {c : Ctrl} {st : Store} {h : Nat} {m : Msg} (hok : HistOk st.hist) {k : Nat} {y : Inst}
    (hk : k ≠ h) (hy : find (decidedBranch c st h m).1 k = some y) : find c.insts k = some y := by
  cases hf : find c.insts h with
  | some i =>
    rcases decidedBranch_mem (st := st) (m := m) hf with ⟨h1, _, _⟩ | ⟨i', hi', h1, _, _⟩
    · rw [h1] at hy; exact hy
    · rw [h1, find_replaceInst_other (by omega)] at hy; exact hy
  | none =>
    obtain ⟨_, x, hx, _, ⟨h1, _⟩ | ⟨i', hi', _, h1⟩⟩ := decidedBranch_notmem (m := m) hok hf
    · rw [h1] at hy; exact find_addNew_other (by omega) hy
    · rw [h1, find_replaceInst_other (by omega)] at hy; exact find_addNew_other (by omega) hy

/-- runner/controller link: the running height is the duty slot; a duty that holds a decided value sits at or below
    the controller height with its instance present when at it, and its running instance (if in the container) is decided -/
structure RInv (s : State) : Prop where
  run : ∀ rh, s.r.running = some rh → s.r.duty = some rh
  val : s.r.hasValue = true → ∃ d, s.r.running = some d ∧ d ≤ s.c.height ∧ (d = s.c.height → AtTop s.c)
  dec : s.r.hasValue = true → ∀ rh i, s.r.running = some rh → find s.c.insts rh = some i → i.decided = true

theorem RInv.init (full : Bool) (q : Nat) : RInv (Heights.init full q) where
  run := by intro rh h; cases h
  val := by intro h; cases h
  dec := by intro h; cases h

/-- a runner without a running instance and without a decided value -/
theorem RInv.of_fresh {s : State} (hr : s.r.running = none) (hv : s.r.hasValue = false) : RInv s where
  run := by intro rh h; rw [hr] at h; cases h
  val := by intro h; rw [hv] at h; cases h
  dec := by intro h; rw [hv] at h; cases h

theorem syncRun_fields (r : Runner) (c : Ctrl) :
    (syncRun r c).duty = r.duty ∧ (syncRun r c).running = r.running ∧ (syncRun r c).hasValue = r.hasValue := by
  unfold syncRun
  cases hr : r.running with
  | none => exact ⟨rfl, hr, rfl⟩
  | some h =>
    simp only
    cases find c.insts h
    · exact ⟨rfl, hr, rfl⟩
    · exact ⟨rfl, rfl, rfl⟩

/-- compaction keeps which instance `find` returns, up to trimming -/
theorem compact_find {c : Ctrl} {h rh : Nat} {i : Inst} (hf : find (compactAt c h).insts rh = some i) :
    ∃ i0, find c.insts rh = some i0 ∧ i.decided = i0.decided := by
  unfold compactAt at hf
  cases hfh : find c.insts h with
  | none => rw [hfh] at hf; exact ⟨i, hf, rfl⟩
  | some i0 =>
    rw [hfh] at hf
    simp only at hf
    by_cases hrh : rh = h
    · subst hrh
      rw [find_replaceInst_same hfh (by rw [trim_height]; exact find_some_height hfh)] at hf
      cases hf
      exact ⟨i0, hfh, rfl⟩
    · rw [find_replaceInst_other (by rw [trim_height, find_some_height hfh]; omega)] at hf
      exact ⟨i, hf, rfl⟩

/-- controller after `ProcessMsg`, optionally compacted at the message height -/
def afterMsg (s : State) (h : Nat) (m : Msg) (ok : Bool) (cmp : Bool) : Ctrl :=
  if cmp then compactAt (processMsg s.q s.c s.s h m ok).1 h else (processMsg s.q s.c s.s h m ok).1

theorem afterMsg_height (s : State) (h : Nat) (m : Msg) (ok cmp : Bool) :
    (afterMsg s h m ok cmp).height = (processMsg s.q s.c s.s h m ok).1.height := by
  unfold afterMsg; cases cmp <;> simp [compactAt_height]

/-- the `val` / `dec` facts of a duty that ALREADY holds a value survive a decided message -/
theorem RInv.afterMsg_keep {s : State} (ci : CInv s.c s.s) (ri : RInv s) (h : Nat) (m : Msg) (ok cmp : Bool)
    (hv : s.r.hasValue = true) :
    (∃ d, s.r.running = some d ∧ d ≤ (afterMsg s h m ok cmp).height ∧
        (d = (afterMsg s h m ok cmp).height → AtTop (afterMsg s h m ok cmp))) ∧
    (∀ rh i, s.r.running = some rh → find (afterMsg s h m ok cmp).insts rh = some i → i.decided = true) := by
  have base : (∃ d, s.r.running = some d ∧ d ≤ (processMsg s.q s.c s.s h m ok).1.height ∧
        (d = (processMsg s.q s.c s.s h m ok).1.height → AtTop (processMsg s.q s.c s.s h m ok).1)) ∧
      (∀ rh i, s.r.running = some rh → find (processMsg s.q s.c s.s h m ok).1.insts rh = some i → i.decided = true) := by
    rcases processMsg_cases s.q s.c s.s h m ok with he | ⟨_, _, he⟩ | ⟨_, _, he⟩
    rotate_left 2
    · -- below quorum: same height, same heights in the container, the instance of that height only gains a commit
      rw [he]
      simp only
      refine ⟨?_, ?_⟩
      · obtain ⟨d, hr, hd, hat⟩ := ri.val hv
        refine ⟨d, hr, by rw [(existingMsg_height _ _ _ _ _).1]; exact hd, ?_⟩
        intro hde
        rw [(existingMsg_height _ _ _ _ _).1] at hde
        have := hat hde
        unfold AtTop at this ⊢
        rw [(existingMsg_height _ _ _ _ _).1, existingMsg_find_isSome]
        exact this
      · intro rh y hr hf
        rcases existingMsg_ctrl s.q s.c s.s h m with he2 | ⟨i, i', hfi, hi', _, _, hdec, he2⟩
        · rw [he2] at hf; exact ri.dec hv rh y hr hf
        · rw [he2] at hf
          have hf' : find (replaceInst i' s.c.insts) rh = some y := hf
          by_cases hrh : rh = h
          · subst hrh
            rw [find_replaceInst_same hfi hi'] at hf'
            cases hf'
            rw [hdec, ri.dec hv rh i hr hfi]; rfl
          · rw [find_replaceInst_other (by omega)] at hf'
            exact ri.dec hv rh y hr hf'
    · rw [he]; exact ⟨ri.val hv, ri.dec hv⟩
    · rw [he]
      refine ⟨?_, ?_⟩
      · obtain ⟨d, hr, hd, hat⟩ := ri.val hv
        have hge := (uponDecided_height_ge s.c s.s h m).2
        refine ⟨d, hr, by omega, ?_⟩
        intro hde
        by_cases hch : s.c.height ≤ h
        · exact uponDecided_atTop ci.top ci.hist h m (Or.inl hch)
        · have : (uponDecided s.c s.s h m).1.height = s.c.height := by
            have he2 := uponDecided_eq s.c s.s h m
            simp only at he2
            rw [he2]; simp only; split <;> omega
          exact uponDecided_atTop ci.top ci.hist h m (Or.inr (hat (by omega)))
      · intro rh i hr hf
        rw [uponDecided_insts] at hf
        by_cases hrh : rh = h
        · subst hrh; exact branch_find_at ci.hist hf
        · exact ri.dec hv rh i hr (branch_find_other ci.hist hrh hf)
  unfold afterMsg
  cases cmp
  · simpa using base
  · simp only [if_true]
    refine ⟨?_, ?_⟩
    · obtain ⟨d, hr, hd, hat⟩ := base.1
      exact ⟨d, hr, by rw [compactAt_height]; exact hd,
        fun hde => compact_atTop h (hat (by rw [compactAt_height] at hde; exact hde))⟩
    · intro rh i hr hf
      obtain ⟨i0, hf0, hd0⟩ := compact_find hf
      rw [hd0]; exact base.2 rh i0 hr hf0

/-- … and are established when the runner takes the decided value of a valid decided message for its running height -/
theorem RInv.afterMsg_new {s : State} (ci : CInv s.c s.s) (ai : AInv s.c s.s) (h : Nat) (m : Msg) (ok cmp : Bool)
    (hnew : (processMsg s.q s.c s.s h m ok).2.2 = .new) :
    h ≤ (afterMsg s h m ok cmp).height ∧ (h = (afterMsg s h m ok cmp).height → AtTop (afterMsg s h m ok cmp)) ∧
    (∀ i, find (afterMsg s h m ok cmp).insts h = some i → i.decided = true) := by
  obtain ⟨_, he, hle, _⟩ := new_valid ai hnew
  have base : (h = (processMsg s.q s.c s.s h m ok).1.height → AtTop (processMsg s.q s.c s.s h m ok).1) ∧
      (∀ i, find (processMsg s.q s.c s.s h m ok).1.insts h = some i → i.decided = true) := by
    rw [he]
    refine ⟨?_, ?_⟩
    · intro hh
      have := (uponDecided_height_ge s.c s.s h m).2
      exact uponDecided_atTop ci.top ci.hist h m (Or.inl (by omega))
    · intro i hf
      rw [uponDecided_insts] at hf
      exact branch_find_at ci.hist hf
  refine ⟨by rw [afterMsg_height]; exact hle, ?_, ?_⟩
  · intro hh
    rw [afterMsg_height] at hh
    unfold afterMsg
    cases cmp
    · simpa using base.1 hh
    · simp only [if_true]; exact compact_atTop h (base.1 hh)
  · intro i hf
    unfold afterMsg at hf
    cases cmp
    · exact base.2 i (by simpa using hf)
    · simp only [if_true] at hf
      obtain ⟨i0, hf0, hd0⟩ := compact_find hf
      rw [hd0]; exact base.2 i0 hf0

theorem runnerSaves_running {r : Runner} {h : Nat} {o : DOut} (hsv : runnerSaves r h o = true) : r.running = some h := by
  unfold runnerSaves at hsv
  simp only [Bool.and_eq_true] at hsv
  simpa using hsv.1.2

theorem beginStep_r (s : State) (slot : Nat) :
    (beginStep s slot).1 = s ∨
    ((beginStep s slot).1.c = s.c ∧ (beginStep s slot).1.s = s.s ∧ (beginStep s slot).1.r.duty = some slot ∧
      (beginStep s slot).1.r.running = none ∧ (beginStep s slot).1.r.hasValue = false) := by
  unfold beginStep
  split
  · left; rfl
  · right; exact ⟨rfl, rfl, rfl, rfl, rfl⟩

theorem decideStep_r (s : State) (slot : Nat) :
    (decideStep s slot).1 = s ∨
    (∃ c', startNewInstance s.c slot = .ok c' ∧ (decideStep s slot).1.c = c' ∧ (decideStep s slot).1.r.duty = s.r.duty ∧
      (decideStep s slot).1.r.running = some slot ∧ (decideStep s slot).1.r.hasValue = s.r.hasValue) := by
  unfold decideStep
  cases hs : startNewInstance s.c slot with
  | error e => left; rfl
  | ok c' => right; exact ⟨c', rfl, rfl, rfl, rfl, rfl⟩

/-- `decide` for the duty slot: a duty that holds a value cannot start its instance again -/
theorem RInv.decideStep {s : State} (ci : CInv s.c s.s) (ri : RInv s) (slot : Nat) (hd : s.r.duty = some slot) :
    RInv (Heights.decideStep s slot).1 := by
  rcases decideStep_r s slot with h0 | ⟨c', hst, _, hdu, hru, hva⟩
  · rw [h0]; exact ri
  · obtain ⟨hle, hnone, _⟩ := startNewInstance_ok hst
    have hnv : s.r.hasValue = false := by
      cases hv : s.r.hasValue
      · rfl
      · obtain ⟨d, hr, hdle, hat⟩ := ri.val hv
        have := ri.run d hr
        rw [hd] at this
        cases this
        have hat' := hat (by omega)
        unfold AtTop at hat'
        have hc : s.c.height = slot := by omega
        rw [hc, hnone] at hat'
        cases hat'
    refine ⟨?_, ?_, ?_⟩
    · intro rh hr; rw [hru] at hr; cases hr; rw [hdu]; exact hd
    · intro hv; rw [hva, hnv] at hv; cases hv
    · intro hv; rw [hva, hnv] at hv; cases hv

theorem RInv.step {s : State} (ci : SInv s) (ai : AInv s.c s.s) (ri : RInv s) (op : Op) : RInv (Heights.step s op).1 := by
  unfold SInv at ci
  cases op with
  | start slot =>
    rw [step_start_eq]
    split
    · rcases beginStep_r s slot with h0 | ⟨hc, hs, hdu, hru, hva⟩
      · -- cannot be: ok means the state changed? (it may coincide); handle generally through the fields
        rename_i hok
        have := (beginStep_ok hok).2
        have ri1 : RInv (beginStep s slot).1 := by rw [h0]; exact ri
        exact RInv.decideStep (by rw [h0]; exact ci) ri1 slot this
      · have ri1 : RInv (beginStep s slot).1 :=
          RInv.of_fresh hru hva
        exact RInv.decideStep (by rw [hc, hs]; exact ci) ri1 slot hdu
    · rcases beginStep_r s slot with h0 | ⟨_, _, _, hru, hva⟩
      · rw [h0]; exact ri
      · exact RInv.of_fresh hru hva
  | begin slot =>
    show RInv (beginStep s slot).1
    rcases beginStep_r s slot with h0 | ⟨_, _, _, hru, hva⟩
    · rw [h0]; exact ri
    · exact RInv.of_fresh hru hva
  | decide =>
    rw [step_decide_eq]
    cases hd : s.r.duty with
    | none => exact ri
    | some slot => exact RInv.decideStep ci ri slot hd
  | decided h r root sg ok via =>
    cases via
    · -- via the controller: runner fields unchanged
      show RInv (decidedViaCtrl s h ⟨r, root, sg⟩ ok).1
      unfold decidedViaCtrl
      simp only
      obtain ⟨f1, f2, f3⟩ := syncRun_fields s.r (processMsg s.q s.c s.s h ⟨r, root, sg⟩ ok).1
      refine ⟨by simp only [f1, f2]; exact ri.run, ?_, ?_⟩
      · intro hv
        simp only [f3] at hv
        have := (RInv.afterMsg_keep ci ri h ⟨r, root, sg⟩ ok false hv).1
        simpa [afterMsg, f2] using this
      · intro hv
        simp only [f3] at hv
        have := (RInv.afterMsg_keep ci ri h ⟨r, root, sg⟩ ok false hv).2
        simpa [afterMsg, f2] using this
    · show RInv (decidedViaRunner s h ⟨r, root, sg⟩ ok).1
      unfold decidedViaRunner
      simp only
      have hcm : (if s.q ≤ sg.length then compactAt (processMsg s.q s.c s.s h ⟨r, root, sg⟩ ok).1 h
          else (processMsg s.q s.c s.s h ⟨r, root, sg⟩ ok).1) = afterMsg s h ⟨r, root, sg⟩ ok (decide (s.q ≤ sg.length)) := by
        unfold afterMsg; by_cases hq : s.q ≤ sg.length <;> simp [hq]
      rw [hcm]
      obtain ⟨f1, f2, f3⟩ := syncRun_fields s.r (afterMsg s h ⟨r, root, sg⟩ ok (decide (s.q ≤ sg.length)))
      cases hsv : runnerSaves s.r h (processMsg s.q s.c s.s h ⟨r, root, sg⟩ ok).2.2
      · simp only [Bool.false_eq_true, if_false]
        refine ⟨by simp only [f1, f2]; exact ri.run, ?_, ?_⟩
        · intro hv
          simp only [f3] at hv
          simpa [f2] using (RInv.afterMsg_keep ci ri h ⟨r, root, sg⟩ ok _ hv).1
        · intro hv
          simp only [f3] at hv
          simpa [f2] using (RInv.afterMsg_keep ci ri h ⟨r, root, sg⟩ ok _ hv).2
      · simp only [if_true]
        have hrun := runnerSaves_running hsv
        obtain ⟨g1, g2, g3⟩ := RInv.afterMsg_new ci ai h ⟨r, root, sg⟩ ok (decide (s.q ≤ sg.length)) (runnerSaves_new hsv)
        refine ⟨by simp only [f1, f2]; exact ri.run, ?_, ?_⟩
        · intro _
          exact ⟨h, by simp only [f2]; exact hrun, g1, g2⟩
        · intro _ rh i hr hf
          simp only [f2] at hr
          rw [hrun] at hr; cases hr
          exact g3 i hf
  | decidedSF h r root sg ok via =>
    cases via
    · show RInv (decidedViaCtrlSF s h ⟨r, root, sg⟩ ok).1
      unfold decidedViaCtrlSF
      simp only
      obtain ⟨f1, f2, f3⟩ := syncRun_fields s.r (processMsg s.q s.c s.s h ⟨r, root, sg⟩ ok).1
      refine ⟨by simp only [f1, f2]; exact ri.run, ?_, ?_⟩
      · intro hv
        simp only [f3] at hv
        have := (RInv.afterMsg_keep ci ri h ⟨r, root, sg⟩ ok false hv).1
        simpa [afterMsg, f2] using this
      · intro hv
        simp only [f3] at hv
        have := (RInv.afterMsg_keep ci ri h ⟨r, root, sg⟩ ok false hv).2
        simpa [afterMsg, f2] using this
    · show RInv (decidedViaRunnerSF s h ⟨r, root, sg⟩ ok).1
      unfold decidedViaRunnerSF
      simp only
      have hcm : (if s.q ≤ sg.length then compactAt (processMsg s.q s.c s.s h ⟨r, root, sg⟩ ok).1 h
          else (processMsg s.q s.c s.s h ⟨r, root, sg⟩ ok).1) = afterMsg s h ⟨r, root, sg⟩ ok (decide (s.q ≤ sg.length)) := by
        unfold afterMsg; by_cases hq : s.q ≤ sg.length <;> simp [hq]
      rw [hcm]
      obtain ⟨f1, f2, f3⟩ := syncRun_fields s.r (afterMsg s h ⟨r, root, sg⟩ ok (decide (s.q ≤ sg.length)))
      cases hsv : runnerSaves s.r h (processMsg s.q s.c s.s h ⟨r, root, sg⟩ ok).2.2
      · simp only [Bool.false_eq_true, if_false]
        refine ⟨by simp only [f1, f2]; exact ri.run, ?_, ?_⟩
        · intro hv
          simp only [f3] at hv
          simpa [f2] using (RInv.afterMsg_keep ci ri h ⟨r, root, sg⟩ ok _ hv).1
        · intro hv
          simp only [f3] at hv
          simpa [f2] using (RInv.afterMsg_keep ci ri h ⟨r, root, sg⟩ ok _ hv).2
      · simp only [if_true]
        have hrun := runnerSaves_running hsv
        obtain ⟨g1, g2, g3⟩ := RInv.afterMsg_new ci ai h ⟨r, root, sg⟩ ok (decide (s.q ≤ sg.length)) (runnerSaves_new hsv)
        refine ⟨by simp only [f1, f2]; exact ri.run, ?_, ?_⟩
        · intro _
          exact ⟨h, by simp only [f2]; exact hrun, g1, g2⟩
        · intro _ rh i hr hf
          simp only [f2] at hr
          rw [hrun] at hr; cases hr
          exact g3 i hf
  | commits root vc =>
    show RInv (commitsStep s root vc).1
    unfold commitsStep
    cases hd : s.r.duty with
    | none => exact ri
    | some d =>
      cases hr : s.r.running with
      | none => exact ri
      | some rh =>
        simp only
        cases hf : find s.c.insts rh with
        | none => exact ri
        | some i =>
          simp only
          split
          · -- applicable: the running instance becomes decided in place
            have hih := find_some_height hf
            have hfind : find (replaceInst (commitsInst s i root) s.c.insts) rh =
                some (commitsInst s i root) :=
              find_replaceInst_same (i' := commitsInst s i root) hf hih
            obtain ⟨f1, f2, f3⟩ := syncRun_fields s.r
              { s.c with insts := replaceInst (commitsInst s i root) s.c.insts }
            simp only [commitsInst] at f1 f2 f3
            have hrle : rh ≤ s.c.height := hih ▸ ci.top.le i (find_some_mem hf)
            have hat : rh = s.c.height →
                AtTop { s.c with insts := replaceInst (commitsInst s i root) s.c.insts } := by
              intro hh
              unfold AtTop
              show (find (replaceInst _ s.c.insts) s.c.height).isSome = true
              rw [← hh, hfind]; rfl
            have hrun' : ∀ rh', s.r.running = some rh' → s.r.duty = some rh' := ri.run
            split
            · refine ⟨by simp only [f1, f2]; exact ri.run, ?_, ?_⟩
              · intro _; exact ⟨rh, by simp only [f2]; exact hr, hrle, hat⟩
              · intro _ rh' y hr' hy
                simp only [f2] at hr'
                rw [hr] at hr'; cases hr'
                have hy' : find (replaceInst (commitsInst s i root) s.c.insts) rh = some y := hy
                rw [hfind] at hy'; cases hy'; rfl
            · refine ⟨by simp only [f1, f2]; exact ri.run, ?_, ?_⟩
              · intro _; exact ⟨rh, by simp only [f2]; exact hr, hrle, hat⟩
              · intro _ rh' y hr' hy
                simp only [f2] at hr'
                rw [hr] at hr'; cases hr'
                have hy' : find (replaceInst (commitsInst s i root) s.c.insts) rh = some y := hy
                rw [hfind] at hy'; cases hy'; rfl
          · exact ri
  | compact h =>
    show RInv { s with c := compactAt s.c h, r := syncRun s.r (compactAt s.c h) }
    obtain ⟨f1, f2, f3⟩ := syncRun_fields s.r (compactAt s.c h)
    refine ⟨by simp only [f1, f2]; exact ri.run, ?_, ?_⟩
    · intro hv
      simp only [f3] at hv
      obtain ⟨d, hr, hd, hat⟩ := ri.val hv
      exact ⟨d, by simp only [f2]; exact hr, by show d ≤ (compactAt s.c h).height; rw [compactAt_height]; exact hd,
        fun hde => compact_atTop h (hat (by
          have : d = (compactAt s.c h).height := hde
          rw [compactAt_height] at this; exact this))⟩
    · intro hv rh i hr hf
      simp only [f3] at hv
      simp only [f2] at hr
      obtain ⟨i0, hf0, hd0⟩ := compact_find (c := s.c) hf
      rw [hd0]; exact ri.dec hv rh i0 hr hf0
  | restart f =>
    show RInv (restartStep s f).1
    unfold restartStep
    simp only
    split
    · exact RInv.of_fresh rfl rfl
    · exact RInv.of_fresh rfl rfl

/-! ## all invariants together -/

theorem AInv.start {c c' : Ctrl} {st : Store} {h : Nat} (a : AInv c st) (top : TopOk c.height c.insts)
    (hs : startNewInstance c h = .ok c') : AInv c' st := by
  obtain ⟨_, _, _, _, hins⟩ := startNewInstance_ok hs
  apply a.of_insts
  intro y hy
  rw [hins, addNew_of_lt (start_lt top hs)] at hy
  obtain ⟨x, hx, rfl⟩ := List.mem_map.mp hy
  have hpx : PAcc x := by
    rcases List.mem_cons.mp hx with rfl | hx
    · intro hsome; simp [newInst] at hsome
    · exact a.insts x (List.mem_of_mem_take hx)
  split
  · exact hpx
  · exact hpx

theorem AInv.load {c : Ctrl} {st : Store} (a : AInv c st) (full : Bool) : AInv (loadHighest (newCtrl full) st).1 st := by
  apply a.of_insts
  cases ha : st.highest with
  | none => rw [(loadHighest_none ha).1]; intro y hy; cases hy
  | some x =>
    rw [(loadHighest_some (c := newCtrl full) ha).2.1]
    intro y hy
    simp only [List.mem_singleton] at hy
    rw [hy]; exact (a.hi x ha).trim

theorem AInv.commits {s : State} (a : AInv s.c s.s) (root : Nat) (vc : Bool) :
    AInv (commitsStep s root vc).1.c (commitsStep s root vc).1.s := by
  have hc' : ∀ i, AInv (commitsCtrl s i root) s.s := by
    intro i
    apply a.of_insts
    intro y hy
    have hy' : y ∈ replaceInst (commitsInst s i root) s.c.insts := hy
    rcases mem_replaceInst hy' with rfl | hy'
    · exact PAcc.of_decided rfl
    · exact a.insts y hy'
  rcases commitsStep_cases s root vc with ⟨h0, _⟩ | ⟨rh, i, _, _, _, _, _, hc, ⟨_, hs⟩ | ⟨_, hs⟩⟩
  · rw [h0]; exact a
  · rw [hc, hs]; exact hc' i
  · rw [hc, hs]; exact (hc' i).saveFound _ _

theorem AInv.step {s : State} (ci : SInv s) (a : AInv s.c s.s) (op : Op) : AInv (Heights.step s op).1.c (Heights.step s op).1.s := by
  unfold SInv at ci
  rcases step_cs s op with ⟨hc, hs⟩ | ⟨slot, c', hst, hc, hs⟩ | ⟨h, m, ok, hc, hs⟩ | ⟨h, m, ok, hc, hs⟩ |
    ⟨h, m, ok, _, hc, hs⟩ | ⟨h, m, ok, _, hc, hs⟩ | ⟨root, vc, hc, hs⟩ | ⟨h, hc, hs⟩ | ⟨full, _, hc, hs⟩
  · rw [hc, hs]; exact a
  · rw [hc, hs]; exact a.start ci.top hst
  · rw [hc, hs]; exact a.processMsg ci.hist s.q h m ok
  · rw [hc, hs]
    unfold decidedViaRunner
    simp only
    have hp := a.processMsg ci.hist s.q h m ok
    have hc2 : AInv (if s.q ≤ m.signers.length then compactAt (Heights.processMsg s.q s.c s.s h m ok).1 h else (Heights.processMsg s.q s.c s.s h m ok).1)
        (Heights.processMsg s.q s.c s.s h m ok).2.1 := by
      split
      · exact hp.compact h
      · exact hp
    cases hsv : runnerSaves s.r h (Heights.processMsg s.q s.c s.s h m ok).2.2
    · simpa using hc2
    · simp only [if_true]; exact hc2.saveFound _ _
  · rw [hc, hs]; exact a.processMsg_ctrl ci.hist s.q h m ok
  · rw [hc, hs]
    unfold decidedViaRunnerSF
    simp only
    have hp := a.processMsg_ctrl ci.hist s.q h m ok
    have hc2 : AInv (if s.q ≤ m.signers.length then compactAt (Heights.processMsg s.q s.c s.s h m ok).1 h else (Heights.processMsg s.q s.c s.s h m ok).1)
        s.s := by
      split
      · exact hp.compact h
      · exact hp
    cases hsv : (runnerSaves s.r h (Heights.processMsg s.q s.c s.s h m ok).2.2 &&
        (ok && decide (s.q ≤ m.signers.length) && firstSaveCalled s.c s.s h m))
    · simpa using hc2
    · simp only [if_true]; exact hc2.saveFound _ _
  · rw [hc, hs]; exact a.commits root vc
  · rw [hc, hs]; exact a.compact h
  · rw [hc, hs]; exact a.load full

structure SInvT (s : State) : Prop where
  c : CInv s.c s.s
  t : TInv s.c s.s
  r : RInv s
  a : AInv s.c s.s

theorem SInvT.init (full : Bool) (q : Nat) : SInvT (Heights.init full q) :=
  ⟨CInv.init full, (by intro i hi; cases hi), RInv.init full q,
    ⟨(by intro i hi; cases hi), (by intro x hx; cases hx), (by intro h x hx; simp [Heights.init, histGet] at hx)⟩⟩

theorem SInvT.step {s : State} (inv : SInvT s) (op : Op)
    (hnf : ∀ h r root sg ok via, op ≠ .decidedSF h r root sg ok via) : SInvT (Heights.step s op).1 := by
  refine ⟨SInv.step inv.c op, ?_, RInv.step inv.c inv.a inv.r op, AInv.step inv.c inv.a op⟩
  obtain ⟨ci, t, ri, ai⟩ := inv
  rcases step_cs s op with ⟨hc, hs⟩ | ⟨slot, c', hst, hc, hs⟩ | ⟨h, m, ok, hc, hs⟩ | ⟨h, m, ok, hc, hs⟩ |
    ⟨h, m, ok, hop, _, _⟩ | ⟨h, m, ok, hop, _, _⟩ | ⟨root, vc, hc, hs⟩ | ⟨h, hc, hs⟩ | ⟨full, _, hc, hs⟩
  · rw [hc, hs]; exact t
  · rw [hc, hs]; exact TInv.start ci hst
  · rw [hc, hs]; exact t.processMsg ci ai s.q h m ok
  · rw [hc, hs]
    unfold decidedViaRunner
    simp only
    have hp := t.processMsg ci ai s.q h m ok
    have hc2 : TInv (if s.q ≤ m.signers.length then compactAt (processMsg s.q s.c s.s h m ok).1 h else (processMsg s.q s.c s.s h m ok).1)
        (processMsg s.q s.c s.s h m ok).2.1 := by
      split
      · exact hp.compact h
      · exact hp
    cases hsv : runnerSaves s.r h (processMsg s.q s.c s.s h m ok).2.2
    · simpa using hc2
    · simp only [if_true]
      have hle := new_height (runnerSaves_new hsv)
      apply hc2.saveFound
      split
      · rw [compactAt_height]; exact hle
      · exact hle
  · exact absurd hop (hnf _ _ _ _ _ _)
  · exact absurd hop (hnf _ _ _ _ _ _)
  · rw [hc, hs]
    -- `commits` is applicable only to a fresh (undecided) running instance: the duty holds no value then
    rcases commitsStep_cases s root vc with ⟨h0, _⟩ | ⟨rh, i, hr, hf, hnd, _, _, _, _⟩
    · rw [h0]; exact t
    · have hnv : s.r.hasValue = false := by
        cases hv : s.r.hasValue
        · rfl
        · have := ri.dec hv rh i hr hf
          rw [hnd] at this; cases this
      exact TInv.commits ci t root vc hnv
  · rw [hc, hs]; exact t.compact h
  · rw [hc, hs]; exact TInv.load s.s full

theorem SInvT.reach (full : Bool) (q : Nat) (ops : List Op) (hnf : NoStoreFail ops) :
    SInvT (Heights.run (Heights.init full q) ops) := by
  suffices h : ∀ s, SInvT s → SInvT (Heights.run s ops) from h _ (SInvT.init full q)
  induction ops with
  | nil => intro s hs; exact hs
  | cons op ops ih =>
    intro s hs
    exact ih (fun o ho => hnf o (List.mem_cons_of_mem _ ho)) _ (hs.step op (hnf op (by simp)))

/-- a valid decided message at or above the controller height becomes (or already is) the stored highest — on full
    and light nodes alike -/
theorem top_decided_stored {s : State} (inv : SInvT s) (h r root : Nat) (sg : List Nat) (via : Bool)
    (hq : s.q ≤ sg.length) (hge : s.c.height ≤ h) :
    ∃ b, (Heights.step s (.decided h r root sg true via)).1.s.highest = some b ∧ b.inst.height = h := by
  -- the state after the step satisfies TInv and has the decided instance of height h AT the controller height
  have hnf : ∀ h' r' root' sg' ok' via', Op.decided h r root sg true via ≠ .decidedSF h' r' root' sg' ok' via' := by
    intros; intro he; cases he
  have inv' := inv.step (.decided h r root sg true via) hnf
  have hpm : processMsg s.q s.c s.s h ⟨r, root, sg⟩ true = uponDecided s.c s.s h ⟨r, root, sg⟩ := by
    unfold processMsg
    have : ¬ sg.length < s.q := by omega
    simp [this]
  have hheight : (uponDecided s.c s.s h ⟨r, root, sg⟩).1.height = h := by
    have he := uponDecided_eq s.c s.s h ⟨r, root, sg⟩
    simp only at he
    rw [he]; simp only; split <;> omega
  have hat : AtTop (uponDecided s.c s.s h ⟨r, root, sg⟩).1 := uponDecided_atTop inv.c.top inv.c.hist h _ (Or.inl hge)
  -- controller after the step: height h, instance of height h present (and decided)
  have hc' : (Heights.step s (.decided h r root sg true via)).1.c.height = h ∧
      ∃ y, find (Heights.step s (.decided h r root sg true via)).1.c.insts h = some y ∧ y.decided = true := by
    have hy0 : ∃ y, find (uponDecided s.c s.s h ⟨r, root, sg⟩).1.insts h = some y ∧ y.decided = true := by
      unfold AtTop at hat
      rw [hheight] at hat
      cases hf : find (uponDecided s.c s.s h ⟨r, root, sg⟩).1.insts h with
      | none => rw [hf] at hat; cases hat
      | some y =>
        refine ⟨y, rfl, ?_⟩
        rw [uponDecided_insts] at hf
        exact branch_find_at inv.c.hist hf
    rcases step_decided_c s h r root sg true via with hc | hc
    · rw [hc, hpm]; exact ⟨hheight, hy0⟩
    · rw [hc, hpm, compactAt_height]
      refine ⟨hheight, ?_⟩
      obtain ⟨y, hy, hyd⟩ := hy0
      have : (find (compactAt (uponDecided s.c s.s h ⟨r, root, sg⟩).1 h).insts h).isSome = true := by
        rw [compact_find_isSome, hy]; rfl
      cases hf : find (compactAt (uponDecided s.c s.s h ⟨r, root, sg⟩).1 h).insts h with
      | none => rw [hf] at this; cases this
      | some z =>
        obtain ⟨i0, hf0, hd0⟩ := compact_find hf
        rw [hy] at hf0; cases hf0
        exact ⟨z, rfl, by rw [hd0]; exact hyd⟩
  obtain ⟨hh, y, hy, hyd⟩ := hc'
  obtain ⟨a, ha, hah⟩ := inv'.t y (find_some_mem hy) (by rw [hh]; exact find_some_height hy) hyd
  exact ⟨a, ha, by rw [hah, hh]⟩

theorem run_q (s : State) (ops : List Op) : (Heights.run s ops).q = s.q := by
  induction ops generalizing s with
  | nil => rfl
  | cons op ops ih => rw [run_cons, ih, step_q]

end Ssv.Heights
