/-
Tie of the model's round-robin leader arithmetic to the kernel TRANSLATED from ssv-spec `RoundRobinProposer` on every run
(Ssv/Gen/Kernels.lean): they agree wherever the 64-bit additions do not overflow; the model additionally wraps
`firstRoundIndex + int(round) - 1` at 64 bits like Go does (the translated kernel computes in unbounded integers).
Core Lean only.
-/
import Ssv.Model.Qbft.Proposer
import Ssv.Gen.Kernels

namespace Ssv.Qbft

theorem toInt64_eq_gen (x : Nat) (h : x < two64) : toInt64 x = Gen.toInt64 (x : Int) := by
  unfold toInt64 Gen.toInt64 two64 two63 at *
  have : x % 18446744073709551616 = x := Nat.mod_eq_of_lt h
  simp only [this]
  split <;> split <;> omega

theorem wrap64_of_range (i : Int) (h0 : -9223372036854775808 ≤ i) (h1 : i < 9223372036854775808) : wrap64 i = i := by
  unfold wrap64 toInt64 two64 two63
  simp only
  have hm : (0 : Int) ≤ i % 18446744073709551616 := Int.emod_nonneg _ (by decide)
  have hlt : i % 18446744073709551616 < 18446744073709551616 := Int.emod_lt_of_pos _ (by decide)
  have hnat : ((i % 18446744073709551616).toNat : Int) = i % 18446744073709551616 := Int.toNat_of_nonneg hm
  have hmod : (i % 18446744073709551616).toNat % 18446744073709551616 = (i % 18446744073709551616).toNat := by
    apply Nat.mod_eq_of_lt; omega
  have hcast : ((18446744073709551616 : Nat) : Int) = 18446744073709551616 := rfl
  simp only [hcast, hmod]
  split <;> omega

/-- for heights and rounds below 2^64 whose signed sum does not leave the int64 range the model's index is the translated kernel -/
theorem proposerIndex_eq_kernel (n height round : Nat) (hn : 0 < n) (hh : height < two64) (hr : round < two64)
    (hlo : -9223372036854775808 + (n : Int) + 1 ≤ toInt64 round) (hhi : toInt64 round + (n : Int) < 9223372036854775808) :
    proposerIndex n height round = Gen.k_RoundRobinProposerIndex (round : Int) (height : Int) (n : Int) := by
  unfold proposerIndex Gen.k_RoundRobinProposerIndex firstHeight firstRound
  rw [← toInt64_eq_gen height hh, ← toInt64_eq_gen round hr]
  have hnz : (n : Int) ≠ 0 := by omega
  have hnpos : (0 : Int) < n := by omega
  have hfirst : ∀ a : Int, -(n : Int) < a.tmod n ∧ a.tmod n < n := by
    intro a
    constructor
    · have := Int.lt_tmod_of_pos a hnpos
      omega
    · exact Int.tmod_lt_of_pos a hnpos
  have h1 : toInt64 Gen.qbft_FirstRound = 1 := by decide
  rw [h1]
  by_cases hz : height = 0
  · subst hz
    have hq : Gen.qbft_FirstHeight = 0 := rfl
    simp only [hq, bne_self_eq_false, Bool.false_eq_true, if_false]
    rw [wrap64_of_range (0 + toInt64 round) (by omega) (by omega), wrap64_of_range _ (by omega) (by omega)]
    have : decide (¬ ((0 : Nat) : Int) = 0) = false := by decide
    simp [this]
  · have hq : Gen.qbft_FirstHeight = 0 := rfl
    have hb : (height != Gen.qbft_FirstHeight) = true := by simp [hq, hz]
    have hd : decide ((height : Int) ≠ 0) = true := by simp; omega
    simp only [hb, hd, if_true]
    obtain ⟨f0, f1⟩ := hfirst (toInt64 height)
    rw [wrap64_of_range ((toInt64 height).tmod n + toInt64 round) (by omega) (by omega),
      wrap64_of_range _ (by omega) (by omega)]
    simp

end Ssv.Qbft
