/-
C10 emission bridge, part 6 — where the timing hypothesis `RcQuorumInRound` comes from.

"Messages arrive within the round" in its weakest useful form: every round-change delivered to an instance is for a round
≤ `State.Round + 1` (one round of skew between operators is fine). Under that assumption the round-change container obeys
`SkewInv`: (near) every stored round-change is for a round ≤ `State.Round + 1`, (noPQ) the stored round-changes for higher
rounds come from fewer than f+1 distinct signers — because the f+1-th one makes `uponChangeRoundPartialQuorum` jump.
`SkewInv` implies `RcQuorumInRound` (a quorum 2f+1 > f+1 for a FUTURE round cannot complete with one more single-signer
message), and is preserved by `ProcessMsg` (any message type, non-panicking step) and `UponRoundTimeout`; it holds in a
fresh instance. What lowers `State.Round` — `UponDecided` adopting a decided message of a LOWER round — is outside the
instance functions and breaks it; it is the second route to the finding of Props/C10Emission.lean.
-/
import Ssv.Proofs.EmissionBridgeCount
set_option linter.unusedSimpArgs false
set_option linter.unusedVariables false

namespace Ssv.Emission
open Ssv Ssv.Qbft Ssv.Qbft.B

/-! ## counting -/

theorem uniqueCount_append_le (a b : List Nat) : uniqueCount (a ++ b) ≤ uniqueCount a + b.length := by
  unfold uniqueCount
  have h := List.Nodup.length_le_of_subset (uniq_nodup (a ++ b)) (l₂ := uniq a ++ b) (by
    intro x hx
    have := (uniq_mem (a ++ b) x).1 hx
    rcases List.mem_append.1 this with h | h
    · exact List.mem_append_left _ ((uniq_mem a x).2 h)
    · exact List.mem_append_right _ h)
  simpa using h

theorem hasPartialQuorum_iff (cfg : Cfg) (l : List Nat) : cfg.hasPartialQuorum l = true ↔ cfg.partialQuorum ≤ uniqueCount l := by
  unfold Cfg.hasPartialQuorum; simp

theorem hasPartialQuorum_false_iff (cfg : Cfg) (l : List Nat) : cfg.hasPartialQuorum l = false ↔ uniqueCount l < cfg.partialQuorum := by
  unfold Cfg.hasPartialQuorum; simp

/-- f+1 and 2f+1 -/
structure QuorumWF (cfg : Cfg) : Prop where
  pqPos : 1 ≤ cfg.partialQuorum
  pqLt : cfg.partialQuorum < cfg.quorum

/-! ## the container invariant -/

/-- `hasReceivedPartialQuorum`'s list: stored round-changes for rounds above the current one -/
def higherRc (s : State) : List Msg := s.roundChange.filter (fun x => Nat.blt s.round x.round)

structure SkewInv (cfg : Cfg) (s : State) : Prop where
  near : ∀ x ∈ s.roundChange, x.round ≤ s.round + 1
  noPQ : cfg.hasPartialQuorum (signersOf (higherRc s)) = false

theorem mem_higherRc (s : State) (x : Msg) : x ∈ higherRc s ↔ x ∈ s.roundChange ∧ s.round < x.round := by
  unfold higherRc
  simp [List.mem_filter, Nat.blt_eq]

theorem mem_signersOf (l : List Msg) (y : Nat) : y ∈ signersOf l ↔ ∃ e ∈ l, y ∈ e.signers := by
  simp [signersOf, List.mem_flatMap]

theorem skewInv_fresh (cfg : Cfg) (hq : QuorumWF cfg) (s : State) (h : s.roundChange = []) : SkewInv cfg s := by
  refine ⟨(by intro x hx; rw [h] at hx; cases hx), ?_⟩
  rw [hasPartialQuorum_false_iff]
  have : higherRc s = [] := by unfold higherRc; rw [h]; rfl
  rw [this]
  have := hq.pqPos
  show uniqueCount [] < cfg.partialQuorum
  simp [signersOf, uniqueCount, uniq]
  omega

/-- the round moves up (or stays), the container is unchanged: the invariant is kept -/
theorem skewInv_mono (cfg : Cfg) (s s' : State) (hinv : SkewInv cfg s) (h1 : s'.roundChange = s.roundChange)
    (h2 : s.round ≤ s'.round) : SkewInv cfg s' := by
  refine ⟨(by intro x hx; rw [h1] at hx; have := hinv.near x hx; omega), ?_⟩
  have h0 := (hasPartialQuorum_false_iff _ _).1 hinv.noPQ
  rw [hasPartialQuorum_false_iff]
  refine Nat.lt_of_le_of_lt (uniqueCount_mono _ _ ?_) h0
  intro y hy
  obtain ⟨e, he, hye⟩ := (mem_signersOf _ _).1 hy
  obtain ⟨he1, he2⟩ := (mem_higherRc s' e).1 he
  rw [h1] at he1
  exact (mem_signersOf _ _).2 ⟨e, (mem_higherRc s e).2 ⟨he1, by omega⟩, hye⟩

/-- CORE: with the invariant, one more single-signer round-change for a round ≤ `State.Round + 1` cannot complete a
    quorum for a FUTURE round -/
theorem no_future_quorum (cfg : Cfg) (hq : QuorumWF cfg) (s : State) (m : Msg) (hinv : SkewInv cfg s)
    (hone : m.signers.length = 1) (hmr : m.round ≤ s.round + 1)
    (hquo : cfg.hasQuorum (signersOf (forRound (addFirst s.roundChange m).1 m.round)) = true) : m.round ≤ s.round := by
  by_contra hlt
  have hmr' : m.round = s.round + 1 := by omega
  have hsub : ∀ y ∈ signersOf (forRound (addFirst s.roundChange m).1 m.round), y ∈ signersOf (higherRc s) ++ m.signers := by
    intro y hy
    obtain ⟨e, he, hye⟩ := (mem_signersOf _ _).1 hy
    have he1 := List.mem_filter.1 he
    have her : e.round = m.round := by simpa using he1.2
    rcases addFirst_mem _ _ _ he1.1 with h | h
    · exact List.mem_append_left _ ((mem_signersOf _ _).2 ⟨e, (mem_higherRc s e).2 ⟨h, by omega⟩, hye⟩)
    · subst h; exact List.mem_append_right _ hye
  have h1 := uniqueCount_mono _ _ hsub
  have h2 := uniqueCount_append_le (signersOf (higherRc s)) m.signers
  have h3 := (hasPartialQuorum_false_iff _ _).1 hinv.noPQ
  have h4 := (hasQuorum_iff _ _).1 hquo
  have := hq.pqLt
  omega

/-! ## what `BaseMsgValidation` establishes of a round-change -/

theorem baseMsgValidation_rc (cfg : Cfg) (s : State) (m : Msg) (u : Unit) (ht : m.type = tRoundChange)
    (h : baseMsgValidation cfg s m = .ok u) :
    s.round ≤ m.round ∧ validRoundChangeForData cfg s.height m.toLvl1 s.height m.round m.fullData = .ok () := by
  unfold baseMsgValidation at h
  simp only [bind_eq_ok, rejectIf_eq_ok, wrap_eq_ok] at h
  obtain ⟨_, _, _, h2, h3⟩ := h
  have e0 : (m.type == tProposal) = false := by rw [ht]; decide
  have e1 : (m.type == tPrepare) = false := by rw [ht]; decide
  have e2 : (m.type == tCommit) = false := by rw [ht]; decide
  have e3 : (m.type == tRoundChange) = true := by rw [ht]; decide
  simp only [e0, e1, e2, e3, if_true, Bool.false_eq_true, if_false] at h3
  refine ⟨by simpa using h2, h3⟩

theorem rc_one_signer (cfg : Cfg) (s : State) (m : Msg) (u : Unit) (ht : m.type = tRoundChange)
    (h : baseMsgValidation cfg s m = .ok u) : m.signers.length = 1 := by
  obtain ⟨_, hv⟩ := baseMsgValidation_rc cfg s m u ht h
  obtain ⟨sg, hsg, _⟩ := (validRC_facts cfg _ _ _ _ _ () hv).signer
  have : m.signers = [sg] := hsg
  rw [this]; rfl

/-- THE TIMING HYPOTHESIS FOLLOWS from the container invariant and "the delivered round-change is for a round
    ≤ State.Round + 1" -/
theorem rcQuorumInRound_of_skew (cfg : Cfg) (hq : QuorumWF cfg) (s : State) (m : Msg) (hinv : SkewInv cfg s)
    (hm : m.type = tRoundChange → m.round ≤ s.round + 1) : RcQuorumInRound cfg s m := by
  intro ht hbv hquo
  exact no_future_quorum cfg hq s m hinv (rc_one_signer cfg s m () ht hbv) (hm ht) hquo

/-! ## preservation by `uponRoundChange` -/

theorem findJustified_error (cfg : Cfg) (s : State) (trigger : Msg) (rcs : List Msg) :
    ∀ (l : List Msg) (f : Fail), findJustified cfg s trigger rcs l = .error f → f = .panic := by
  intro l
  induction l with
  | nil => intro f h; simp [findJustified, pure, Except.pure] at h
  | cons a rest ih =>
    intro f h
    unfold findJustified at h
    simp only at h
    split at h
    · simp [pure, Except.pure] at h
    · injection h with h; exact h.symm
    · exact ih f h

theorem hasReceived_error (cfg : Cfg) (s : State) (trigger : Msg) (f : Fail)
    (h : hasReceivedProposalJustification cfg s trigger = .error f) : f = .panic := by
  unfold hasReceivedProposalJustification at h
  simp only at h
  split at h
  · simp [pure, Except.pure] at h
  · exact findJustified_error _ _ _ _ _ f h

/-- `minRound` of a non-empty list of messages with rounds ≥ 1 is the round of one of them -/
theorem minRound_mem (l : List Msg) (hne : l ≠ []) (hpos : ∀ x ∈ l, 1 ≤ x.round) : ∃ x ∈ l, minRound l = x.round := by
  induction l with
  | nil => exact absurd rfl hne
  | cons a rest ih =>
    unfold minRound
    simp only
    split
    · exact ⟨a, List.mem_cons_self, rfl⟩
    · rename_i hc
      simp only [Bool.or_eq_true, beq_iff_eq, decide_eq_true_eq, not_or, Nat.not_lt] at hc
      have hrest : rest ≠ [] := by
        intro h0
        apply hc.1
        rw [h0]; rfl
      obtain ⟨x, hx, hxr⟩ := ih hrest (fun x hx => hpos x (List.mem_cons_of_mem _ hx))
      exact ⟨x, List.mem_cons_of_mem _ hx, hxr⟩

theorem signersOf_ne_nil_of_count (l : List Msg) (h : 1 ≤ uniqueCount (signersOf l)) : l ≠ [] := by
  intro h0
  rw [h0] at h
  simp [signersOf, uniqueCount, uniq] at h

/-- `uponRoundChange` keeps the invariant when the (valid, single-signer) round-change is for a round ≤ State.Round + 1 and
    the step does not panic -/
theorem uponRoundChange_skew (cfg : Cfg) (hq : QuorumWF cfg) (s : State) (m : Msg) (hinv : SkewInv cfg s)
    (hone : m.signers.length = 1) (hmr : m.round ≤ s.round + 1) (hnp : (uponRoundChange cfg s m).res ≠ .panic) :
    SkewInv cfg (uponRoundChange cfg s m).st := by
  have hpq0 := (hasPartialQuorum_false_iff _ _).1 hinv.noPQ
  -- the state with the message added
  have hnear1 : ∀ x ∈ (addFirst s.roundChange m).1, x.round ≤ s.round + 1 := by
    intro x hx
    rcases addFirst_mem _ _ _ hx with h | h
    · exact hinv.near x h
    · subst h; exact hmr
  -- if the message is not for a future round, the higher list is unchanged
  have hsame : m.round ≤ s.round → SkewInv cfg { s with roundChange := (addFirst s.roundChange m).1 } := by
    intro hle
    refine ⟨hnear1, ?_⟩
    rw [hasPartialQuorum_false_iff]
    refine Nat.lt_of_le_of_lt (uniqueCount_mono _ _ ?_) hpq0
    intro y hy
    obtain ⟨e, he, hye⟩ := (mem_signersOf _ _).1 hy
    obtain ⟨he1, he2⟩ := (mem_higherRc _ e).1 he
    rcases addFirst_mem _ _ _ he1 with h | h
    · exact (mem_signersOf _ _).2 ⟨e, (mem_higherRc s e).2 ⟨h, he2⟩, hye⟩
    · subst h
      have he2' : s.round < e.round := he2
      omega
  unfold uponRoundChange at hnp ⊢
  simp only at hnp ⊢
  split
  · exact hinv
  · rename_i hadded
    split
    · rename_i hbefore
      -- a quorum for the round already existed: it was not a future round
      apply hsame
      by_contra hlt
      have hmr' : m.round = s.round + 1 := by omega
      have hb := (hasQuorum_iff _ _).1 (by simpa using hbefore)
      have : uniqueCount (signersOf (forRound s.roundChange m.round)) ≤ uniqueCount (signersOf (higherRc s)) := by
        apply uniqueCount_mono
        intro y hy
        obtain ⟨e, he, hye⟩ := (mem_signersOf _ _).1 hy
        have he1 := List.mem_filter.1 he
        have her : e.round = m.round := by simpa using he1.2
        exact (mem_signersOf _ _).2 ⟨e, (mem_higherRc s e).2 ⟨he1.1, by omega⟩, hye⟩
      have := hq.pqLt
      omega
    · rename_i hnb
      split
      · rename_i f heq
        have hf := hasReceived_error _ _ _ f heq
        subst hf
        exfalso
        apply hnp
        have ha : (addFirst s.roundChange m).2 = true := by simpa using hadded
        have hb : cfg.hasQuorum (signersOf (forRound s.roundChange m.round)) = false := by simpa using hnb
        simp only [ha, hb, Bool.not_true, Bool.false_eq_true, if_false, heq]
        rfl
      · rename_i justified value heq
        rw [sendOr_st]
        apply hsame
        unfold hasReceivedProposalJustification at heq
        simp only at heq
        split at heq
        · simp [pure, Except.pure] at heq
        · rename_i hquo
          exact no_future_quorum cfg hq s m hinv hone hmr (by simpa using hquo)
      · split
        · rename_i hpq
          have hpq' := (hasPartialQuorum_iff _ _).1 hpq
          have hne : List.filter (fun x => Nat.blt s.round x.round) (addFirst s.roundChange m).1 ≠ [] :=
            signersOf_ne_nil_of_count _ (Nat.le_trans hq.pqPos hpq')
          obtain ⟨x, hx, hxr⟩ := minRound_mem _ hne (by
            intro x hx
            have := (List.mem_filter.1 hx).2
            simp [Nat.blt_eq] at this
            omega)
          have hx1 := List.mem_filter.1 hx
          have hx2 : s.round < x.round := by simpa [Nat.blt_eq] using hx1.2
          have hx3 := hnear1 x hx1.1
          split
          · rename_i hle
            rw [hxr] at hle
            have hle' : x.round ≤ s.round := hle
            omega
          · unfold uponChangeRoundPartialQuorum
            rw [sendOr_st]
            rw [hxr]
            refine ⟨?_, ?_⟩
            · intro y hy
              have := hnear1 y hy
              show y.round ≤ x.round + 1
              omega
            · rw [hasPartialQuorum_false_iff]
              have hemp : higherRc { s with roundChange := (addFirst s.roundChange m).1, round := x.round, accepted := none } = [] := by
                apply List.eq_nil_iff_forall_not_mem.2
                intro y hy
                obtain ⟨hy1, hy2⟩ := (mem_higherRc _ y).1 hy
                have := hnear1 y hy1
                have hy2' : x.round < y.round := hy2
                omega
              rw [hemp]
              have := hq.pqPos
              show uniqueCount [] < cfg.partialQuorum
              simp [signersOf, uniqueCount, uniq]
              omega
        · rename_i hpq
          refine ⟨hnear1, ?_⟩
          show cfg.hasPartialQuorum (signersOf (List.filter (fun x => Nat.blt s.round x.round) (addFirst s.roundChange m).1)) = false
          simpa using hpq

/-! ## preservation by the instance entry points -/

/-- `ProcessMsg` keeps the invariant: any message, provided a round-change is for a round ≤ State.Round + 1 and the step does
    not panic -/
theorem processMsg_skew (cfg : Cfg) (hq : QuorumWF cfg) (s : State) (m : Msg) (hinv : SkewInv cfg s)
    (hin : m.type = tRoundChange → m.round ≤ s.round + 1) (hnp : (processMsg cfg s m).res ≠ .panic) :
    SkewInv cfg (processMsg cfg s m).st := by
  have hnp0 := hnp
  unfold processMsg
  split
  · exact hinv
  · rename_i hcp
    cases hval : wrap Atom.invalidSigned (baseMsgValidation cfg s m) with
    | error f => simp only; rw [failStep_st]; exact hinv
    | ok u =>
      have hbv : baseMsgValidation cfg s m = .ok u := by simpa using hval
      simp only
      by_cases h0 : m.type = tProposal
      · have e0 : (m.type == tProposal) = true := by rw [h0]; decide
        simp only [e0, if_true]
        have hv := baseMsgValidation_proposal cfg s m u h0 hbv
        rcases uponProposal_spec cfg s m with ⟨a, _, _⟩ | ⟨_, b, _, _⟩
        · rw [a]; exact hinv
        · rw [b]
          refine skewInv_mono cfg s _ hinv rfl ?_
          rcases isValidProposal_state cfg s m () hv with ⟨_, h⟩ | h
          · show s.round ≤ m.round; omega
          · show s.round ≤ m.round; omega
      · have e0 : (m.type == tProposal) = false := by simpa using h0
        simp only [e0, Bool.false_eq_true, if_false]
        by_cases h1 : m.type = tPrepare
        · have e1 : (m.type == tPrepare) = true := by rw [h1]; decide
          simp only [e1, if_true]
          obtain ⟨p, hacc, _⟩ := baseMsgValidation_prepare cfg s m u h1 hbv
          rcases uponPrepare_spec cfg s m p hacc with ⟨a, _, _⟩ | ⟨a, _, _⟩ | ⟨_, a, _, _⟩
          · rw [a]; exact hinv
          · rw [a]; exact skewInv_mono cfg s _ hinv rfl (Nat.le_refl _)
          · rw [a]; exact skewInv_mono cfg s _ hinv rfl (Nat.le_refl _)
        · have e1 : (m.type == tPrepare) = false := by simpa using h1
          simp only [e1, Bool.false_eq_true, if_false]
          by_cases h2 : m.type = tCommit
          · have e2 : (m.type == tCommit) = true := by rw [h2]; decide
            simp only [e2, if_true]
            obtain ⟨p, hacc, _⟩ := baseMsgValidation_commit cfg s m u h2 hbv
            rcases uponCommit_spec cfg s m p hacc with ⟨a, _, _⟩ | ⟨a, _, _⟩ | ⟨agg, _, _, a, _, _⟩
            · rw [a]; exact hinv
            · rw [a]; exact skewInv_mono cfg s _ hinv rfl (Nat.le_refl _)
            · rw [a]; exact skewInv_mono cfg s _ hinv rfl (Nat.le_refl _)
          · have e2 : (m.type == tCommit) = false := by simpa using h2
            simp only [e2, Bool.false_eq_true, if_false]
            split
            · rename_i h3
              have h3' : m.type = tRoundChange := by simpa using h3
              have e : processMsg cfg s m = uponRoundChange cfg s m := by
                unfold processMsg
                simp only [hcp, hval, e0, e1, e2, h3, if_true, Bool.false_eq_true, if_false]
              rw [e] at hnp0
              exact uponRoundChange_skew cfg hq s m hinv (rc_one_signer cfg s m u h3' hbv) (hin h3') hnp0
            · exact hinv

/-- `UponRoundTimeout` keeps the invariant -/
theorem uponRoundTimeout_skew (cfg : Cfg) (s : State) (hinv : SkewInv cfg s) : SkewInv cfg (uponRoundTimeout cfg s).st := by
  by_cases hcp : canProcess cfg s = true
  · rw [uponRoundTimeout_progress cfg s hcp]
    exact skewInv_mono cfg s _ hinv rfl (Nat.le_succ _)
  · have hc' : canProcess cfg s = false := by simpa using hcp
    unfold uponRoundTimeout
    simp only [hc', Bool.not_false, if_true]
    exact hinv

end Ssv.Emission
