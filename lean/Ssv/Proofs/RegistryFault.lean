/-
Faults inside a block (property C12): structure of a budgeted execution, what a cut leaves behind, resume.
Core Lean only.
-/
import Ssv.Proofs.RegistryCrash

namespace Ssv.Registry

/-! ## budgeted execution -/

theorem runBudget_some (n : Node) (st : List Step) (k : Nat) (n' : Node) (k' : Nat)
    (h : runBudget n st k = (n', some k')) : n' = runSteps n st := by
  induction st generalizing n k with
  | nil => simp only [runBudget, Prod.mk.injEq] at h; exact h.1.symm
  | cons s ss ih =>
    simp only [runBudget] at h
    rw [runSteps_cons]
    split at h
    · cases k with
      | zero => simp at h
      | succ k0 => exact ih _ _ h
    · exact ih _ _ h

theorem runMacroBudget_done (n : Node) (l : List Step) (k : Nat) (n' : Node) (k' : Nat)
    (h : runMacroBudget n l k = (n', .done k')) : n' = runMacro n l := by
  induction l generalizing n k with
  | nil => simp only [runMacroBudget, Prod.mk.injEq] at h; exact h.1.symm
  | cons s ss ih =>
    simp only [runMacroBudget] at h
    simp only [runMacro]
    cases hb : runBudget n (expand n.wal s) k with
    | mk n1 o =>
      cases o with
      | none => simp only [hb] at h; split at h <;> simp at h
      | some k1 =>
        simp only [hb] at h
        rw [← runBudget_some _ _ _ _ _ hb]
        exact ih _ _ h

/-- a cut happens inside exactly one handler step, after the steps before it ran completely -/
theorem runMacroBudget_cut (n : Node) (l : List Step) (k : Nat) (n1 : Node) (c : Cut)
    (h : runMacroBudget n l k = (n1, c)) (hc : ∀ k', c ≠ .done k') :
    ∃ l1 s l2 k1, l = l1 ++ s :: l2 ∧
      runBudget (runMacro n l1) (expand (runMacro n l1).wal s) k1 = (n1, none) ∧
      c = (if isBadCut (runMacro n l1).wal s k1 then .bad else .clean) := by
  induction l generalizing n k with
  | nil => simp only [runMacroBudget, Prod.mk.injEq] at h; exact absurd h.2.symm (hc k)
  | cons s ss ih =>
    simp only [runMacroBudget] at h
    cases hb : runBudget n (expand n.wal s) k with
    | mk n2 o =>
      cases o with
      | none =>
        simp only [hb, Prod.mk.injEq] at h
        exact ⟨[], s, ss, k, rfl, by rw [← h.1]; exact hb, h.2.symm⟩
      | some k2 =>
        simp only [hb] at h
        have hn2 : n2 = runSteps n (expand n.wal s) := runBudget_some _ _ _ _ _ hb
        subst hn2
        obtain ⟨l1, s', l2, k1, hl, hr, hcc⟩ := ih _ _ h
        exact ⟨s :: l1, s', l2, k1, by simp [hl], hr, hcc⟩

theorem runEventsBudget_eq (me blk : Nat) (n : Node) (es : List Event) (k : Nat) :
    (runEventsBudget me blk n es k).1 = (runMacroBudget n (eventsMacros me blk n.reg es) k).1 ∧
    (runEventsBudget me blk n es k).2.1 = (runMacroBudget n (eventsMacros me blk n.reg es) k).2 ∧
    ((runEventsBudget me blk n es k).2.2 = true → (regEvents me blk n.reg es).2 = true) := by
  -- budgeted execution of an appended list
  have happ : ∀ (a b : List Step) (n : Node) (k : Nat),
      runMacroBudget n (a ++ b) k =
        match runMacroBudget n a k with
        | (n', .done k') => runMacroBudget n' b k'
        | r => r := by
    intro a
    induction a with
    | nil => intro b n k; rfl
    | cons s a ih =>
      intro b n k
      simp only [List.cons_append, runMacroBudget]
      cases hb : runBudget n (expand n.wal s) k with
      | mk n2 o =>
        cases o with
        | none => simp only []; split <;> rfl
        | some k2 => simp only []; exact ih b n2 k2
  induction es generalizing n k with
  | nil => exact ⟨rfl, rfl, by simp [runEventsBudget]⟩
  | cons e es ih =>
    simp only [runEventsBudget, eventsMacros, regEvents]
    rw [happ]
    cases hm : runMacroBudget n (regSteps me blk (viewOf n.reg) e).1 k with
    | mk n1 c =>
      cases c with
      | done k1 =>
        simp only []
        have hn1 : n1 = runMacro n (regSteps me blk (viewOf n.reg) e).1 := runMacroBudget_done _ _ _ _ _ hm
        have hreg : n1.reg = regEvent me blk n.reg e := by rw [hn1, runMacro_reg]; rfl
        by_cases hp : (regOutcome me blk n.reg e).isPanic = true
        · have hp' : (eventOutcome me blk n e).isPanic = true := hp
          simp [hp, hp', runMacroBudget]
        · have hp' : (eventOutcome me blk n e).isPanic = false := by
            show (regOutcome me blk n.reg e).isPanic = false
            simpa using hp
          simp only [hp, hp', Bool.false_eq_true, ↓reduceIte]
          have := ih n1 k1
          rw [hreg] at this
          exact this
      | clean => simp
      | bad => simp

/-! ## what a cut inside one handler step leaves behind -/

theorem rebootWal_of_sane {w : Wal} (h : Sane w) : rebootWal w = w := by
  cases w; simp only [rebootWal, Sane] at *; simp [h.2]

/-- The cut is not between account record and wallet index: the surviving wallet (as a new process opens it) is
    sane and differs from the wallet before the step at most on the key of this step's key-manager call; decided
    history and committed registry are those before the step. -/
theorem cut_step (m : Node) (s : Step) (hs : s.handler = true) (hsane : Sane m.wal) (k1 : Nat) (n1 : Node)
    (h : runBudget m (expand m.wal s) k1 = (n1, none)) (hgood : isBadCut m.wal s k1 = false) :
    n1.hist = m.hist ∧ n1.reg.db = m.reg.db ∧ Sane (rebootWal n1.wal) ∧
    (∀ k, s.kmKey ≠ some k → (k ∈ keysOf (rebootWal n1.wal) ↔ k ∈ keysOf m.wal)) := by
  have same : n1 = m → n1.hist = m.hist ∧ n1.reg.db = m.reg.db ∧ Sane (rebootWal n1.wal) ∧
      (∀ k, s.kmKey ≠ some k → (k ∈ keysOf (rebootWal n1.wal) ↔ k ∈ keysOf m.wal)) := by
    intro e; subst e
    rw [rebootWal_of_sane hsane]
    exact ⟨rfl, rfl, hsane, fun _ _ => Iff.rfl⟩
  -- a step that expands to itself: cut in front of it (if it is a write), otherwise it completes
  have single : expand m.wal s = [s] → n1 = m := by
    intro he
    rw [he] at h
    simp only [runBudget] at h
    split at h
    · cases k1 with
      | zero => simp only [Prod.mk.injEq] at h; exact h.1.symm
      | succ k0 => simp at h
    · simp at h
  cases s with
  | kmAdd key =>
    simp only [isBadCut] at hgood
    by_cases hp : present m.wal key = true
    · simp [expand, hp, runBudget] at h
    · have hp' : present m.wal key = false := by simpa using hp
      cases k1 with
      | zero =>
        simp only [expand, hp', Bool.false_eq_true, ↓reduceIte, runBudget, Step.isWrite, Prod.mk.injEq, and_true] at h
        subst h
        obtain ⟨hd, hm⟩ := hsane
        refine ⟨rfl, rfl, ⟨⟨?_, hd.nodup, ?_, ?_, hd.inj⟩, rfl⟩, fun _ _ => Iff.rfl⟩
        · exact hd.idx
        · intro p hp; exact Nat.lt_succ_of_lt (hd.fresh p hp)
        · intro k id hl; exact Nat.lt_succ_of_lt (hd.ifresh k id hl)
      | succ k0 =>
        cases k0 with
        | zero => simp [hp'] at hgood
        | succ k00 => simp [expand, hp', runBudget, Step.isWrite] at h
  | kmRemove key =>
    by_cases hp : present m.wal key = true
    · cases k1 with
      | zero =>
        simp only [expand, hp, ↓reduceIte, runBudget, Step.isWrite, Prod.mk.injEq, and_true] at h
        exact same h.symm
      | succ k0 =>
        cases k0 with
        | succ k00 => simp [expand, hp, runBudget, Step.isWrite] at h
        | zero =>
          simp only [expand, hp, ↓reduceIte, runBudget, Step.isWrite, Bool.false_eq_true, Prod.mk.injEq, and_true] at h
          subst h
          -- account record deleted, stored index still has the (now stale) entry
          have hk : key ∈ keysOf m.wal := (present_iff hsane key).1 hp
          obtain ⟨hd, hm⟩ := hsane
          obtain ⟨p0, hp0, hp0k⟩ := List.mem_map.1 hk
          have hl : lookup m.wal.midx key = some p0.1 := by rw [hm]; have := hd.idx p0 hp0; rwa [hp0k] at this
          have hw : rebootWal (applyStep (applyStep m (.deleteAccount key)) (.memIdxDel key)).wal =
              { recs := m.wal.recs.filter (fun p => p.1 != p0.1), pidx := m.wal.pidx, midx := m.wal.pidx,
                nextId := m.wal.nextId } := by
            simp [rebootWal, applyStep, stepWal, hl]
          have hkeep : ∀ p ∈ m.wal.recs, p.1 ≠ p0.1 → p.2 ≠ key := by
            intro p hp hne hpk
            exact hne (rec_of_key hd key p0.1 (hm ▸ hl) p hp hpk)
          refine ⟨by simp [applyStep, stepHist], by simp [applyStep, stepReg], ?_, ?_⟩
          · rw [hw]
            refine ⟨⟨?_, ?_, ?_, hd.ifresh, hd.inj⟩, rfl⟩
            · intro p hp; exact hd.idx p (List.mem_filter.1 hp).1
            · exact List.Pairwise.sublist ((List.filter_sublist).map _) hd.nodup
            · intro p hp; exact hd.fresh p (List.mem_filter.1 hp).1
          · intro k hkk
            have hne : k ≠ key := fun e => hkk (by simp [Step.kmKey, e])
            rw [hw]
            simp only [keysOf, List.mem_map, List.mem_filter, bne_iff_ne, ne_eq]
            constructor
            · rintro ⟨p, ⟨hp, _⟩, rfl⟩; exact ⟨p, hp, rfl⟩
            · rintro ⟨p, hp, rfl⟩
              refine ⟨p, ⟨hp, ?_⟩, rfl⟩
              intro he
              -- a record with the id of `key`'s record is that record
              have := hd.idx p hp
              rw [he] at this
              have hkeq := hd.inj _ _ _ this (by have := hd.idx p0 hp0; exact this)
              exact hne (hkeq.trans hp0k)
    · have hp' : present m.wal key = false := by simpa using hp
      simp [expand, hp', runBudget] at h
  | putRecipient r => exact same (single rfl)
  | putOperator o => exact same (single rfl)
  | txnShare sh => exact same (single rfl)
  | txnDelShare pk => exact same (single rfl)
  | setSelf id => exact same (single rfl)
  | memLiquidate pks b => exact same (single rfl)
  | memShares l => exact same (single rfl)
  | memDelShare pk => exact same (single rfl)
  | cleanInst pk => exact same (single rfl)
  | cleanHigh pk => exact same (single rfl)
  | putMarker _ => simp [Step.handler] at hs
  | commit => simp [Step.handler] at hs
  | memIdxSet _ => simp [Step.handler] at hs
  | memIdxDel _ => simp [Step.handler] at hs
  | saveAccount _ => simp [Step.handler] at hs
  | deleteAccount _ => simp [Step.handler] at hs
  | saveWallet => simp [Step.handler] at hs


/-! ## resume -/

/-- What C12 compares after the stream has been processed: whether it was processed completely, the registry
    (database and memory: shares, operators, recipients with nonces, marker, own operator id), the decided history,
    and the stored key shares as a set (record ids — UUIDs in the code — are not compared; both wallets are sane, so
    no key is stored twice). -/
structure SameOutcome (x y : Node × Bool) : Prop where
  ok : x.2 = y.2
  reg : x.1.reg = y.1.reg
  hist : x.1.hist = y.1.hist
  keys : ∀ k, k ∈ keysOf x.1.wal ↔ k ∈ keysOf y.1.wal
  sane : Sane x.1.wal ∧ Sane y.1.wal

theorem run_sane (me : Nat) (n : Node) (bs : List Block) (h : Sane n.wal) : Sane (run me n bs).1.wal := by
  rw [(run_wal_hist me n bs).1]
  exact walRun_sane _ (runMacrosL_handler me n.reg bs) h

theorem SameOutcome.refl (me : Nat) (n : Node) (bs : List Block) (h : Sane n.wal) : SameOutcome (run me n bs) (run me n bs) :=
  ⟨rfl, rfl, rfl, fun _ => Iff.rfl, run_sane me n bs h, run_sane me n bs h⟩

/-- a process that restarts on the state an interrupted block left behind: same registry as before the block, a
    sane wallet that agrees with the wallet after the first steps `l1` of the block except on keys the rest of the
    block touches, the decided history after `l1` — it ends where the uninterrupted run ends -/
theorem resume_from (me : Nat) (n n' : Node) (b : Block) (rest : List Block) (l1 r : List Step)
    (hL : blockMacros me n.reg b = l1 ++ r) (hreg : n'.reg = n.reg) (hS : Sane n.wal) (hS' : Sane n'.wal)
    (hag : ∀ k, (k ∈ keysOf n'.wal ↔ k ∈ keysOf (walRun n.wal l1)) ∨ some k ∈ r.map Step.kmKey)
    (hh : n'.hist = histRun n.hist l1) :
    SameOutcome (run me n' (b :: rest)) (run me n (b :: rest)) := by
  have r1 := run_reg me n' (b :: rest)
  have r2 := run_reg me n (b :: rest)
  have w1 := run_wal_hist me n' (b :: rest)
  have w2 := run_wal_hist me n (b :: rest)
  rw [hreg] at r1 w1
  -- the handler steps of the whole run start with those of block b
  obtain ⟨t2, ht⟩ : ∃ t2, runMacrosL me n.reg (b :: rest) = l1 ++ (r ++ t2) := by
    simp only [runMacrosL, hL]
    exact ⟨_, List.append_assoc _ _ _⟩
  have hhand := runMacrosL_handler me n.reg (b :: rest)
  rw [ht] at w1 w2 hhand
  refine ⟨by rw [r1.2, r2.2], by rw [r1.1, r2.1], ?_, ?_, ?_⟩
  · rw [w1.2, w2.2, hh, histRun_absorb]
  · intro k
    rw [w1.1, w2.1]
    refine walRun_absorb l1 (r ++ t2) hhand hS hS' ?_ k
    intro k
    rcases hag k with h | h
    · exact Or.inl h
    · exact Or.inr (by rw [List.map_append]; exact List.mem_append_left _ h)
  · rw [w1.1, w2.1]
    exact ⟨walRun_sane _ hhand hS', walRun_sane _ hhand hS⟩

theorem restart_reg (me : Nat) (x n : Node) (hdb : x.reg.db = n.reg.db) (hB : Boundary n)
    (hown : ∀ o ∈ n.reg.db.ops, o.pk = me → o.id = n.reg.self)
    (hhas : n.reg.self ≠ 0 → ∃ o ∈ n.reg.db.ops, o.id = n.reg.self ∧ o.pk = me) :
    (restart me x).reg = n.reg := by
  obtain ⟨⟨h1, h2, _⟩, _⟩ := hB
  have hs := lookupSelf_eq me n.reg.self n.reg.db.ops hown hhas
  cases n with
  | mk reg wal hist =>
    cases reg with
    | mk db txn shares self =>
      simp only [restart, load, persist] at *
      simp [hdb, hs, h1, h2]

theorem restart_wal_hist (me : Nat) (x : Node) : (restart me x).wal = rebootWal x.wal ∧ (restart me x).hist = x.hist :=
  ⟨rfl, rfl⟩

theorem resumeList_same (x : Node) (b : Block) (rest : List Block) (m : Option Nat) (hm : x.reg.db.marker = m)
    (hv1 : m.getD 0 < b.number) (hv2 : ∀ c ∈ rest, b.number < c.number) : resumeList x (b :: rest) = b :: rest := by
  unfold resumeList
  rw [hm]
  cases m with
  | none => rfl
  | some mm =>
    simp only [Option.getD_some] at hv1
    simp only
    rw [List.filter_eq_self]
    intro c hc
    rcases List.mem_cons.1 hc with rfl | hc
    · simp; omega
    · have := hv2 c hc; simp; omega

theorem resumeList_next (x : Node) (b : Block) (rest : List Block) (hm : x.reg.db.marker = some b.number)
    (hv2 : ∀ c ∈ rest, b.number < c.number) : resumeList x (b :: rest) = rest := by
  unfold resumeList
  rw [hm]
  simp only [List.filter_cons]
  have : decide (b.number + 1 ≤ b.number) = false := by simp
  simp only [this, Bool.false_eq_true, ↓reduceIte]
  rw [List.filter_eq_self]
  intro c hc
  have := hv2 c hc; simp; omega


/-! ## the fault theorem -/

theorem runMacro_db (n : Node) (l : List Step) (hl : ∀ s ∈ l, s.handler = true) : (runMacro n l).reg.db = n.reg.db := by
  rw [runMacro_reg]; exact (foldl_stepReg_handler_db n.reg l hl).1

/-- what a fault in block `b` (processed from the state `n` between blocks) leaves to the restarted process `x` -/
inductive FaultOutcome (me : Nat) (n : Node) (b : Block) (x : Node) : Prop where
  /-- the fault index lies beyond the block's writes: the block completed, `x` is the state after the block -/
  | completed : (applyBlock me n b).2.1 = .ok → x = (applyBlock me n b).1 → FaultOutcome me n b x
  /-- the block was cut: nothing of its transaction survives (registry as before the block), the wallet is sane
      and agrees with the wallet after the first steps `l1` of the block except on keys the rest `r` of the block
      touches, the decided history is the one after `l1` -/
  | restarted (l1 r : List Step) : blockMacros me n.reg b = l1 ++ r → x.reg = n.reg → Sane x.wal →
      (∀ k, (k ∈ keysOf x.wal ↔ k ∈ keysOf (walRun n.wal l1)) ∨ some k ∈ r.map Step.kmKey) →
      x.hist = histRun n.hist l1 → FaultOutcome me n b x

theorem faultBlock_spec (me : Nat) (n : Node) (b : Block) (kind : FaultKind) (k : Nat)
    (hk : kind ≠ .retry) (hB : Boundary n) (hS : Sane n.wal)
    (hown : ∀ o ∈ n.reg.db.ops, o.pk = me → o.id = n.reg.self)
    (hhas : n.reg.self ≠ 0 → ∃ o ∈ n.reg.db.ops, o.id = n.reg.self ∧ o.pk = me)
    (hnp : (regEvents me b.number (beginReg n.reg) b.events).2 = false)
    (hv1 : n.reg.db.marker.getD 0 < b.number)
    (hgood : (faultBlock me n b kind k).2 ≠ .faultedBad) :
    FaultOutcome me n b (faultBlock me n b kind k).1 := by
  have hafter : ∀ x, afterFault me kind x = restart me x := by
    intro x; cases kind <;> first | rfl | exact absurd rfl hk
  have hinf : inferior n b = false := by simp [inferior]; omega
  have hinf' : decide (n.reg.db.marker.getD 0 ≥ b.number) = false := by simp; omega
  have hbm : blockMacros me n.reg b = eventsMacros me b.number (beginReg n.reg) b.events := by
    simp [blockMacros, hinf']
  have hLh := eventsMacros_handler me b.number (beginReg n.reg) b.events
  obtain ⟨e1, e2, e3⟩ := runEventsBudget_eq me b.number (beginTxn n) b.events k
  have hbr : (beginTxn n).reg = beginReg n.reg := rfl
  rw [hbr] at e1 e2 e3
  simp only [faultBlock, hinf, Bool.false_eq_true, ↓reduceIte] at hgood ⊢
  generalize hr : runEventsBudget me b.number (beginTxn n) b.events k = res at e1 e2 e3 hgood ⊢
  obtain ⟨n1, c, p⟩ := res
  simp only at e1 e2 e3 hgood ⊢
  -- restart on a state whose committed registry is the one before the block
  have resume : ∀ (x : Node) (l1 r : List Step), eventsMacros me b.number (beginReg n.reg) b.events = l1 ++ r →
      x.reg.db = n.reg.db → Sane (rebootWal x.wal) →
      (∀ key, (key ∈ keysOf (rebootWal x.wal) ↔ key ∈ keysOf (walRun n.wal l1)) ∨ some key ∈ r.map Step.kmKey) →
      x.hist = histRun n.hist l1 → FaultOutcome me n b (restart me x) := by
    intro x l1 r hl hdb hsx hag hhx
    exact .restarted l1 r (hbm.trans hl) (restart_reg me x n hdb hB hown hhas) hsx hag hhx
  cases c with
  | bad => exact absurd rfl hgood
  | clean =>
    simp only [hafter]
    have hmb : runMacroBudget (beginTxn n) (eventsMacros me b.number (beginReg n.reg) b.events) k = (n1, .clean) := by
      rw [Prod.ext_iff]; exact ⟨e1.symm, e2.symm⟩
    obtain ⟨l1, s, l2, k1, hl, hrb, hcc⟩ := runMacroBudget_cut _ _ _ _ _ hmb (by intro k' h; cases h)
    have hl1h : ∀ t ∈ l1, t.handler = true := fun t ht => hLh t (by rw [hl]; exact List.mem_append_left _ ht)
    have hsh : s.handler = true := hLh s (by rw [hl]; simp)
    have hbad : isBadCut (runMacro (beginTxn n) l1).wal s k1 = false := by
      cases hh : isBadCut (runMacro (beginTxn n) l1).wal s k1 with
      | false => rfl
      | true => simp [hh] at hcc
    have hmw : (runMacro (beginTxn n) l1).wal = walRun n.wal l1 := runMacro_wal _ _
    have hmh : (runMacro (beginTxn n) l1).hist = histRun n.hist l1 := runMacro_hist _ _
    have hmd : (runMacro (beginTxn n) l1).reg.db = n.reg.db := runMacro_db _ _ hl1h
    have hms : Sane (runMacro (beginTxn n) l1).wal := by rw [hmw]; exact walRun_sane l1 hl1h hS
    obtain ⟨c1, c2, c3, c4⟩ := cut_step _ s hsh hms k1 n1 hrb hbad
    refine resume n1 l1 (s :: l2) hl (c2.trans hmd) c3 ?_ (c1.trans hmh)
    intro key
    by_cases hkk : s.kmKey = some key
    · exact Or.inr (by simp [hkk])
    · exact Or.inl (by rw [c4 key hkk, hmw])
  | done k1 =>
    cases p with
    | true => exact absurd (e3 rfl) (by simp [hnp])
    | false =>
      simp only
      have hn1 : n1 = runMacro (beginTxn n) (eventsMacros me b.number (beginReg n.reg) b.events) :=
        runMacroBudget_done _ _ k _ k1 (by rw [Prod.ext_iff]; exact ⟨e1.symm, e2.symm⟩)
      have hmw : n1.wal = walRun n.wal (eventsMacros me b.number (beginReg n.reg) b.events) := by rw [hn1]; exact runMacro_wal _ _
      have hmh : n1.hist = histRun n.hist (eventsMacros me b.number (beginReg n.reg) b.events) := by rw [hn1]; exact runMacro_hist _ _
      have hmd : n1.reg.db = n.reg.db := by rw [hn1]; exact runMacro_db _ _ hLh
      have hms : Sane n1.wal := by rw [hmw]; exact walRun_sane _ hLh hS
      -- a cut in front of the marker write or in front of the commit: all effects of the events are there
      have late : ∀ x : Node, x.wal = n1.wal → x.hist = n1.hist → x.reg.db = n1.reg.db →
          FaultOutcome me n b (restart me x) := by
        intro x hw hh hd
        refine resume x _ [] (by simp) (hd.trans hmd) (by rw [hw, rebootWal_of_sane hms]; exact hms) ?_ (hh.trans hmh)
        intro key
        exact Or.inl (by rw [hw, rebootWal_of_sane hms, hmw])
      cases k1 with
      | zero =>
        simp only [runBudget, Step.isWrite, ↓reduceIte, hafter]
        exact late n1 rfl rfl rfl
      | succ k2 =>
        cases k2 with
        | zero =>
          simp only [runBudget, Step.isWrite, ↓reduceIte, hafter]
          exact late _ (by simp [applyStep, stepWal]) (by simp [applyStep, stepHist]) (by simp [applyStep, stepReg])
        | succ k3 =>
          simp only [runBudget, Step.isWrite, ↓reduceIte]
          -- the block completed: this IS the uninterrupted block
          have hre := runEvents_reg me b.number (beginTxn n) b.events
          rw [hbr] at hre
          have hne : (runEvents me b.number (beginTxn n) b.events).2.2 = false := by rw [hre.2]; exact hnp
          have hab : applyBlock me n b = (runSteps n1 [.putMarker b.number, .commit], .ok, (runEvents me b.number (beginTxn n) b.events).2.1) := by
            simp only [applyBlock, hinf, Bool.false_eq_true, ↓reduceIte, hne]
            rw [hn1, ← hbr, ← runEvents_eq_runMacro]
          exact .completed (by rw [hab]) (by rw [hab]; rfl)

/-- A block that does not panic is interrupted by a crash or a failing write at write index `k` (anywhere: inside
    the transaction, inside a key-manager call, inside the decided-history cleanup, at the marker write, at the
    commit), the node restarts on what survived and resumes from the stored marker + 1. Unless the fault fell between
    the account record and the wallet index of an AddShare, the stream ends exactly where the uninterrupted run ends. -/
theorem fault_resume (me : Nat) (n : Node) (b : Block) (rest : List Block) (kind : FaultKind) (k : Nat)
    (hk : kind ≠ .retry) (hB : Boundary n) (hS : Sane n.wal)
    (hown : ∀ o ∈ n.reg.db.ops, o.pk = me → o.id = n.reg.self)
    (hhas : n.reg.self ≠ 0 → ∃ o ∈ n.reg.db.ops, o.id = n.reg.self ∧ o.pk = me)
    (hnp : (regEvents me b.number (beginReg n.reg) b.events).2 = false)
    (hv1 : n.reg.db.marker.getD 0 < b.number) (hv2 : ∀ c ∈ rest, b.number < c.number)
    (hgood : (faultBlock me n b kind k).2 ≠ .faultedBad) :
    SameOutcome (faultRun me n b rest kind k) (run me n (b :: rest)) := by
  simp only [faultRun]
  cases faultBlock_spec me n b kind k hk hB hS hown hhas hnp hv1 hgood with
  | completed hok hx =>
    rw [hx]
    obtain ⟨_, _, heq⟩ := applyBlock_ok_eq me n b hok
    have hmk : (applyBlock me n b).1.reg.db.marker = some b.number := by rw [heq, commit_reg]; rfl
    rw [resumeList_next _ b rest hmk hv2]
    have : run me n (b :: rest) = run me (applyBlock me n b).1 rest := by simp only [run, hok]
    rw [this]
    refine SameOutcome.refl me _ rest ?_
    rw [(applyBlock_wal_hist me n b).1]
    exact walRun_sane _ (blockMacros_handler me n.reg b) hS
  | restarted l1 r hL hreg hsx hag hhx =>
    rw [resumeList_same _ b rest n.reg.db.marker (by rw [hreg]) hv1 hv2]
    exact resume_from me n _ b rest l1 r hL hreg hS hsx hag hhx

/-! ## no key is stored twice in a sane wallet; the committed registry survives every fault -/

theorem nodup_map_of_inj {α β γ : Type} (f : α → β) (g : α → γ) (l : List α) (hf : (l.map f).Nodup)
    (hinj : ∀ a ∈ l, ∀ b ∈ l, g a = g b → f a = f b) : (l.map g).Nodup := by
  induction l with
  | nil => simp
  | cons x xs ih =>
    simp only [List.map_cons, List.nodup_cons] at hf ⊢
    refine ⟨?_, ih hf.2 (fun a ha b hb => hinj a (List.mem_cons_of_mem _ ha) b (List.mem_cons_of_mem _ hb))⟩
    intro hmem
    obtain ⟨y, hy, hgy⟩ := List.mem_map.1 hmem
    have := hinj x List.mem_cons_self y (List.mem_cons_of_mem _ hy) hgy.symm
    exact hf.1 (this ▸ List.mem_map_of_mem hy)

theorem keysOf_nodup {w : Wal} (h : Sane w) : (keysOf w).Nodup := by
  refine nodup_map_of_inj (·.1) (·.2) w.recs h.1.nodup ?_
  intro a ha b hb hab
  have h1 := h.1.idx a ha
  have h2 := h.1.idx b hb
  rw [hab, h2] at h1
  exact (Option.some.inj h1).symm

/-- with `SameOutcome` every key is stored equally often (once or not at all) on both sides -/
theorem SameOutcome.count {x y : Node × Bool} (h : SameOutcome x y) (key : Nat) :
    (keysOf x.1.wal).count key = (keysOf y.1.wal).count key := by
  have c : ∀ (l : List Nat), l.Nodup → l.count key = if key ∈ l then 1 else 0 := by
    intro l hl
    induction l with
    | nil => simp
    | cons x xs ih =>
      simp only [List.nodup_cons] at hl
      rw [List.count_cons, ih hl.2]
      by_cases hx : x = key
      · subst hx; simp [hl.1]
      · have : (x == key) = false := by simpa using hx
        have hx' : ¬ key = x := fun e => hx e.symm
        simp [this, hx']
  rw [c _ (keysOf_nodup h.sane.1), c _ (keysOf_nodup h.sane.2)]
  by_cases hm : key ∈ keysOf x.1.wal
  · simp [hm, (h.keys key).1 hm]
  · have : key ∉ keysOf y.1.wal := fun hy => hm ((h.keys key).2 hy)
    simp [hm, this]

theorem runBudget_db (n : Node) (st : List Step) (k : Nat) (hst : ∀ s ∈ st, s ≠ .commit) :
    (runBudget n st k).1.reg.db = n.reg.db := by
  induction st generalizing n k with
  | nil => rfl
  | cons s ss ih =>
    have hs : (applyStep n s).reg.db = n.reg.db := by
      have := hst s List.mem_cons_self
      cases s <;> first | exact absurd rfl this | simp [applyStep, stepReg]
    have hss : ∀ t ∈ ss, t ≠ .commit := fun t ht => hst t (List.mem_cons_of_mem _ ht)
    simp only [runBudget]
    split
    · cases k with
      | zero => rfl
      | succ k0 => simp only []; rw [ih _ _ hss, hs]
    · rw [ih _ _ hss, hs]

theorem runMacroBudget_db (n : Node) (l : List Step) (k : Nat) (hl : ∀ s ∈ l, s.handler = true) :
    (runMacroBudget n l k).1.reg.db = n.reg.db := by
  induction l generalizing n k with
  | nil => rfl
  | cons s ss ih =>
    simp only [runMacroBudget]
    have h1 := runBudget_db n (expand n.wal s) k (expand_no_commit n.wal s (hl s List.mem_cons_self))
    cases hb : runBudget n (expand n.wal s) k with
    | mk n2 o =>
      rw [hb] at h1
      cases o with
      | none => exact h1
      | some k2 =>
        simp only []
        rw [ih _ _ (fun t ht => hl t (List.mem_cons_of_mem _ ht))]
        exact h1

/-- whatever the fault position (including the bad one): either the block's transaction was committed as a whole
    (marker included) or the committed registry, and after the restart the whole registry state, is the one from
    before the block -/
theorem faultBlock_registry (me : Nat) (n : Node) (b : Block) (kind : FaultKind) (k : Nat)
    (hk : kind ≠ .retry) (hB : Boundary n)
    (hown : ∀ o ∈ n.reg.db.ops, o.pk = me → o.id = n.reg.self)
    (hhas : n.reg.self ≠ 0 → ∃ o ∈ n.reg.db.ops, o.id = n.reg.self ∧ o.pk = me)
    (hf : (faultBlock me n b kind k).2 = .faulted ∨ (faultBlock me n b kind k).2 = .faultedBad) :
    (faultBlock me n b kind k).1.reg = n.reg := by
  have hafter : ∀ x, afterFault me kind x = restart me x := by
    intro x; cases kind <;> first | rfl | exact absurd rfl hk
  simp only [faultBlock] at hf ⊢
  by_cases hinf : inferior n b = true
  · simp [hinf] at hf
  · simp only [hinf, Bool.false_eq_true, ↓reduceIte] at hf ⊢
    obtain ⟨e1, _, _⟩ := runEventsBudget_eq me b.number (beginTxn n) b.events k
    have hdb : (runEventsBudget me b.number (beginTxn n) b.events k).1.reg.db = n.reg.db := by
      rw [e1, runMacroBudget_db _ _ _ (eventsMacros_handler me b.number _ b.events)]; rfl
    generalize runEventsBudget me b.number (beginTxn n) b.events k = res at hf hdb ⊢
    obtain ⟨n1, c, p⟩ := res
    simp only at hf hdb ⊢
    cases c with
    | clean => simp only [hafter]; exact restart_reg me n1 n hdb hB hown hhas
    | bad => simp only [hafter]; exact restart_reg me n1 n hdb hB hown hhas
    | done k1 =>
      cases p with
      | true => simp at hf
      | false =>
        simp only at hf ⊢
        cases k1 with
        | zero => simp only [runBudget, Step.isWrite, ↓reduceIte, hafter]; exact restart_reg me n1 n hdb hB hown hhas
        | succ k2 =>
          cases k2 with
          | zero =>
            simp only [runBudget, Step.isWrite, ↓reduceIte, hafter]
            exact restart_reg me _ n (by simpa [applyStep, stepReg] using hdb) hB hown hhas
          | succ k3 => simp [runBudget, Step.isWrite] at hf

end Ssv.Registry
