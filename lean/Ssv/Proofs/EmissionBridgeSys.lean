/-
C10 emission bridge, part 3 — from the instance functions to the controller entry points and to the multi-node system
`SystemB`: every `.bcast x` / `.bcastDecided d` output of an enabled step of a correct operator from a reachable state is
an honest message (`HonestInst` / `HonestDecided`).

Hypotheses that are NOT consequences of `Reachable`:
* `TimelyAction` — the timing assumption of the property on the delivered round-change (`RcQuorumInRound`);
* `GatedAction` / `ReachableG` — the correct operator's own message validation sits in front of its QBFT controller, so
  the commit / decided messages it stores carry no justification fields (the aggregate it later broadcasts is a copy of
  the first stored commit: `msgs[0].DeepCopy()` in `aggregateCommitMsgs`). `SystemB`'s unforgeability only covers
  (type, height, round, root, prepared round) of a signed message, not its justification fields, hence the gate.
-/
import Ssv.Proofs.EmissionBridgeInst
import Ssv.Proofs.QbftNodeSystem
set_option linter.unusedSimpArgs false
set_option linter.unusedVariables false

namespace Ssv.Emission
open Ssv Ssv.Qbft Ssv.Qbft.B

/-! ## controller entry points: where the outputs come from -/

theorem instOut_of_bcast_mem {l : List Out} (h : OutsInst l) {d : Msg} : Out.bcastDecided d ∉ l := by
  intro hd
  exact instOut_not_decision _ (h _ hd) d (Or.inl rfl)

theorem uponExisting_outs_mem (cfg : Cfg) (c : Ctrl) (m : Msg) (o : Out) (ho : o ∈ (uponExistingInstanceMsg cfg c m).outs) :
    ∃ inst, findInstance c.insts m.height = some inst ∧
      (o ∈ (processMsg cfg inst m).outs ∨
       ∃ d b v, o = .bcastDecided d ∧ (processMsg cfg inst m).res = .ok b v (some d)) := by
  unfold uponExistingInstanceMsg at ho
  split at ho
  · simp at ho
  · rename_i inst hf
    refine ⟨inst, hf, ?_⟩
    simp only at ho
    split at ho
    · exact Or.inl ho
    · exact Or.inl ho
    · rename_i decided v agg hres
      split at ho
      · exact Or.inl ho
      · split at ho
        · exact Or.inl ho
        · rename_i d0
          have key : o ∈ (processMsg cfg inst m).outs ++ [Out.bcastDecided d0] := by
            split at ho <;> exact ho
          rcases List.mem_append.1 key with h | h
          · exact Or.inl h
          · simp at h
            exact Or.inr ⟨d0, decided, v, h, hres⟩

/-- `Controller.ProcessMsg`: an `Instance.Broadcast` output comes from `Instance.ProcessMsg` of the stored instance -/
theorem ctrl_processMsg_bcast (cfg : Cfg) (c : Ctrl) (m x : Msg) (hx : Out.bcast x ∈ (c.processMsg cfg m).outs) :
    ∃ inst, findInstance c.insts m.height = some inst ∧ m.ident = cfg.ident ∧ x ∈ bcasts (processMsg cfg inst m).outs := by
  unfold Ctrl.processMsg at hx
  split at hx
  · simp at hx
  · rename_i hid
    have hid' : m.ident = cfg.ident := by simpa using hid
    split at hx
    · exfalso
      by_cases hv : validateDecided cfg m = .ok ()
      · rcases (uponDecided_accepted cfg c m hv).2 _ hx with h | h <;> cases h
      · rw [(uponDecided_rejected cfg c m hv).2.1] at hx; simp at hx
    · split at hx
      · simp at hx
      · obtain ⟨inst, hf, h | ⟨d, b, v, h, _⟩⟩ := uponExisting_outs_mem cfg c m _ hx
        · exact ⟨inst, hf, hid', (mem_bcasts _ _).2 h⟩
        · cases h

/-- `Controller.ProcessMsg`: a `broadcastDecided` output is the aggregate returned by `Instance.ProcessMsg` -/
theorem ctrl_processMsg_decided (cfg : Cfg) (c : Ctrl) (m d : Msg) (hd : Out.bcastDecided d ∈ (c.processMsg cfg m).outs) :
    ∃ inst b v, findInstance c.insts m.height = some inst ∧ m.ident = cfg.ident ∧
      (processMsg cfg inst m).res = .ok b v (some d) := by
  unfold Ctrl.processMsg at hd
  split at hd
  · simp at hd
  · rename_i hid
    have hid' : m.ident = cfg.ident := by simpa using hid
    split at hd
    · exfalso
      by_cases hv : validateDecided cfg m = .ok ()
      · rcases (uponDecided_accepted cfg c m hv).2 _ hd with h | h <;> cases h
      · rw [(uponDecided_rejected cfg c m hv).2.1] at hd; simp at hd
    · split at hd
      · simp at hd
      · obtain ⟨inst, hf, h | ⟨d', b, v, h, hres⟩⟩ := uponExisting_outs_mem cfg c m _ hd
        · exact absurd h (instOut_of_bcast_mem (outsInst_processMsg cfg inst m))
        · injection h with h
          subst h
          exact ⟨inst, b, v, hf, hid', hres⟩

/-- `Controller.StartNewInstance`: outputs are those of `Instance.Start` on a fresh instance, for a checked value -/
theorem ctrl_start_outs (cfg : Cfg) (c : Ctrl) (h v : Nat) (o : Out) (ho : o ∈ (c.startNewInstance cfg h v).outs) :
    cfg.valOk v = true ∧ o ∈ (start cfg (newInstance h) v h).outs := by
  unfold Ctrl.startNewInstance at ho
  split at ho
  · simp at ho
  · rename_i hv
    have hv' : cfg.valOk v = true := by simpa using hv
    split at ho
    · simp at ho
    · split at ho
      · simp at ho
      · simp only at ho
        split at ho <;> exact ⟨hv', ho⟩

/-- `Controller.OnTimeout`: outputs are those of `Instance.UponRoundTimeout` of the stored instance -/
theorem ctrl_onTimeout_outs (cfg : Cfg) (c : Ctrl) (h r : Nat) (o : Out) (ho : o ∈ (c.onTimeout cfg h r).outs) :
    ∃ inst, findInstance c.insts h = some inst ∧ o ∈ (uponRoundTimeout cfg inst).outs := by
  unfold Ctrl.onTimeout at ho
  split at ho
  · simp at ho
  · rename_i inst hf
    split at ho
    · simp at ho
    · split at ho
      · simp at ho
      · simp only at ho
        refine ⟨inst, hf, ?_⟩
        split at ho <;> exact ho

/-! ## the system: configuration facts -/

theorem cfgWF_of_params (P : Params) (hP : P.Valid) (i : Op P) : CfgWF (P.cfg i) where
  own := by
    show opId i ∈ (List.range P.n).map (· + 1)
    exact List.mem_map.2 ⟨i.val, List.mem_range.2 i.isLt, rfl⟩
  nozero := by
    show 0 ∉ (List.range P.n).map (· + 1)
    intro h
    obtain ⟨k, _, hk⟩ := List.mem_map.1 h
    omega
  proposer := rfl
  quorum := by
    show 1 ≤ P.quorum
    rw [kernel_quorum P hP]; omega

theorem inst_of_find {h h' : Nat} {c : Ctrl} {inst : State} (hs : Shape h c) (hf : findInstance c.insts h' = some inst) :
    instAt h c = some inst := by
  obtain ⟨hmem, _⟩ := findInstance_some hf
  rcases hs with hc | ⟨s, hc, hsh⟩
  · rw [hc] at hmem; simp at hmem
  · rw [hc] at hmem
    simp at hmem
    subst hmem
    exact instAt_of_single hc hsh

/-- the certificate invariant of C02 holds for every controller of a reachable state -/
theorem ctrlInv_of_reachable {P : Params} {σ : Sys P} (h : Reachable σ) : ∀ i, CtrlInv (P.cfg i) (σ.ctrl i) := by
  induction h with
  | init => intro i x hx; simp [Sys.init, newController] at hx
  | step a _ hen ih =>
    intro j
    cases a with
    | start i v =>
      show CtrlInv (P.cfg j) (if j = i then _ else _)
      split
      · rename_i hji; subst hji; exact (ctrl_start_inv _ _ _ _ (ih j)).1
      · exact ih j
    | deliver i m =>
      show CtrlInv (P.cfg j) (if j = i then _ else _)
      split
      · rename_i hji; subst hji; exact (ctrl_processMsg_inv _ _ _ (ih j)).1
      · exact ih j
    | timeout i r =>
      show CtrlInv (P.cfg j) (if j = i then _ else _)
      split
      · rename_i hji; subst hji; exact (ctrl_onTimeout_inv _ _ _ _ (ih j)).1
      · exact ih j

/-! ## actions, their outputs, the two hypotheses -/

def actor {P : Params} : Action P → Op P
  | .start i _ => i
  | .deliver i _ => i
  | .timeout i _ => i

/-- everything the acting operator emits in `step σ a` -/
def stepOuts {P : Params} (σ : Sys P) : Action P → List Out
  | .start i v => ((σ.ctrl i).startNewInstance (P.cfg i) P.height v).outs
  | .deliver i m => ((σ.ctrl i).processMsg (P.cfg i) m).outs
  | .timeout i r => ((σ.ctrl i).onTimeout (P.cfg i) P.height r).outs

/-- the messages handed to `Instance.Broadcast` are what `step` appends to the log -/
theorem step_log {P : Params} (σ : Sys P) (a : Action P) : (step σ a).log = σ.log ++ bcasts (stepOuts σ a) := by
  cases a <;> rfl

/-- TIMING: a delivered (valid) round-change that completes the round-change quorum of its round is not for a future
    round of the receiving instance -/
def TimelyAction {P : Params} (σ : Sys P) : Action P → Prop
  | .deliver i m => ∀ s, instAt P.height (σ.ctrl i) = some s → RcQuorumInRound (P.cfg i) s m
  | _ => True

/-- GATE: the delivered message passed the operator's own message validation (no justification fields on a
    commit / decided message) -/
def GatedAction {P : Params} : Action P → Prop
  | .deliver _ m => Gated m
  | _ => True

/-- reachability through gated deliveries -/
inductive ReachableG {P : Params} : Sys P → Prop
  | init : ReachableG (Sys.init P)
  | step {σ : Sys P} (a : Action P) : ReachableG σ → enabled σ a = true → GatedAction a → ReachableG (step σ a)

theorem ReachableG.reachable {P : Params} {σ : Sys P} (h : ReachableG σ) : Reachable σ := by
  induction h with
  | init => exact Reachable.init
  | step a _ hen _ ih => exact Reachable.step a ih hen

/-! ## the commit containers of a gated run are plain -/

theorem validateDecided_malformed (cfg : Cfg) (m : Msg) (h : validateDecided cfg m = .ok ()) : m.malformed = false := by
  unfold validateDecided at h
  simp only [bind_eq_ok, rejectIf_eq_ok, wrap_eq_ok] at h
  obtain ⟨_, _, _, hv, _⟩ := h
  exact (signedValidate_ok m.toBase _ hv).2.2.2.2.1

theorem validateCommit_malformed (cfg : Cfg) (m : Base) (h r : Nat) (p : Msg) (hv : validateCommit cfg m h r p = .ok ()) :
    m.malformed = false := by
  unfold validateCommit baseCommitValidation at hv
  simp at hv
  obtain ⟨_, _, ⟨x, hsv⟩, _⟩ := hv
  exact (signedValidate_ok m x hsv).2.2.2.2.1

def PlainO : Option State → Prop
  | none => True
  | some s => CommitsPlain s

theorem commitsPlain_append {s : State} {m : Msg} (hs : CommitsPlain s) (hm : m.malformed = false ∧ m.rcJust = [] ∧ m.prepJust = [])
    {s' : State} (hc : s'.commit = s.commit ++ [m]) : CommitsPlain s' := by
  intro x hx
  rw [hc] at hx
  rcases List.mem_append.1 hx with hx | hx
  · exact hs x hx
  · simp at hx; subst hx; exact hm

theorem plain_of_decided (cfg : Cfg) (m : Msg) (hv : validateDecided cfg m = .ok ()) (hg : Gated m) :
    m.malformed = false ∧ m.rcJust = [] ∧ m.prepJust = [] :=
  ⟨validateDecided_malformed cfg m hv, hg (validateDecided_ok cfg m () hv).1⟩

theorem plain_of_commit (cfg : Cfg) (m : Msg) (h r : Nat) (p : Msg) (hv : validateCommit cfg m.toBase h r p = .ok ())
    (hg : Gated m) : m.malformed = false ∧ m.rcJust = [] ∧ m.prepJust = [] :=
  ⟨validateCommit_malformed cfg m.toBase h r p hv, hg (validateCommit_ok cfg m.toBase h r p () hv).1⟩

/-- a node transition whose delivered message is gated keeps the commit container plain -/
theorem plainO_nstep {N : Type} {cfg : Cfg} {h : Nat} {A : Msg → Prop} (hA : ∀ m, A m → Gated m) {i : N}
    {os os' : Option State} {bs : List Msg} {evs : List (Ev N)} (hst : NStep cfg h A i os os' bs evs) (hp : PlainO os) :
    PlainO os' := by
  cases hst with
  | idle h1 => rw [h1]; exact hp
  | create v h0 h1 => rw [h1]; intro x hx; simp [newInstance] at hx
  | createDecided m ha h0 hv hh h1 =>
    rw [h1]
    intro x hx
    simp at hx
    subst hx
    exact plain_of_decided cfg x hv (hA x ha)
  | adopt s m ha h0 hd hv hh h1 =>
    rw [h1]; rw [h0] at hp
    exact commitsPlain_append (s := s) hp (plain_of_decided cfg m hv (hA m ha)) rfl
  | more s m ha h0 hd hv hh h1 =>
    rw [h1]; rw [h0] at hp
    exact commitsPlain_append (s := s) hp (plain_of_decided cfg m hv (hA m ha)) rfl
  | prop s m ha h0 hv hnew h1 => rw [h1]; rw [h0] at hp; exact hp
  | prep s m p ha h0 hacc hv h1 => rw [h1]; rw [h0] at hp; exact hp
  | prepQ s m p ha h0 hacc hv hq h1 => rw [h1]; rw [h0] at hp; exact hp
  | com s m p ha h0 hacc hv h1 =>
    rw [h1]; rw [h0] at hp
    exact commitsPlain_append (s := s) hp (plain_of_commit cfg m _ _ p hv (hA m ha)) rfl
  | comQ s m p agg ha h0 hacc hv hq hagg h1 =>
    rw [h1]; rw [h0] at hp
    exact commitsPlain_append (s := s) hp (plain_of_commit cfg m _ _ p hv (hA m ha)) rfl
  | rc s X h0 h1 => rw [h1]; rw [h0] at hp; exact hp
  | jump s X R h0 hR h1 => rw [h1]; rw [h0] at hp; exact hp

/-- `step_nstep` with the gate recorded in the authenticity predicate -/
theorem step_nstepG {P : Params} (hP : P.Valid) (σ : Sys P) (hinv : Inv P hP σ) (a : Action P)
    (hen : enabled σ a = true) (hg : GatedAction a) :
    ∃ (i : Op P) (c' : Ctrl) (outs : List Out) (evs : List (Ev (Op P))), P.honest i = true ∧
      step σ a = σ.update i c' outs evs ∧
      NStep (P.cfg i) P.height (fun m => (authentic P σ.log m = true ∧ m.ident = ownIdent) ∧ Gated m) i (instAt P.height (σ.ctrl i))
        (instAt P.height c') (bcasts outs) evs := by
  cases a with
  | start i v =>
    have hi : P.honest i = true := hen
    obtain ⟨h1, h2⟩ := ctrl_start_node (P.cfg i) P.height (fun m => (authentic P σ.log m = true ∧ m.ident = ownIdent) ∧ Gated m) i (σ.ctrl i) v
      (hinv.shape i) (capacity_pos P i)
    exact ⟨i, _, _, _, hi, rfl, h2⟩
  | deliver i m =>
    have hen' : P.honest i = true ∧ authentic P σ.log m = true := by
      simpa [enabled] using hen
    obtain ⟨h1, h2⟩ := ctrl_processMsg_node (P.cfg i) P.height (fun m => (authentic P σ.log m = true ∧ m.ident = ownIdent) ∧ Gated m) i (σ.ctrl i) m
      (hinv.shape i) (capacity_pos P i) (fun hid => ⟨⟨hen'.2, hid⟩, hg⟩)
      (fun hv hid => (cert_facts hP hinv.log i m hv hen'.2 hid).height)
    exact ⟨i, _, _, _, hen'.1, rfl, h2⟩
  | timeout i r =>
    have hi : P.honest i = true := hen
    obtain ⟨h1, h2⟩ := ctrl_onTimeout_node (P.cfg i) P.height (fun m => (authentic P σ.log m = true ∧ m.ident = ownIdent) ∧ Gated m) i (σ.ctrl i) r
      (hinv.shape i)
    exact ⟨i, _, _, _, hi, rfl, h2⟩

theorem plain_of_reachableG {P : Params} (hP : P.Valid) {σ : Sys P} (h : ReachableG σ) :
    ∀ i, PlainO (instAt P.height (σ.ctrl i)) := by
  induction h with
  | init =>
    intro i
    have : instAt P.height ((Sys.init P).ctrl i) = none := instAt_of_nil rfl
    rw [this]; trivial
  | step a hr hen hg ih =>
    rename_i σ0
    obtain ⟨i, c', outs, evs, _, he, hst⟩ := step_nstepG hP σ0 (inv_of_reachable hP hr.reachable) a hen hg
    intro j
    rw [he]
    by_cases hji : j = i
    · subst hji
      have : (σ0.update j c' outs evs).ctrl j = c' := by simp [Sys.update]
      rw [this]
      exact plainO_nstep (fun m hm => hm.2) hst (ih j)
    · have : (σ0.update i c' outs evs).ctrl j = σ0.ctrl j := by simp [Sys.update, hji]
      rw [this]; exact ih j

/-! ## every emission of a correct operator is honest -/

/-- INSTANCE MESSAGES: every message a correct operator hands to `Instance.Broadcast` in an enabled step from a reachable
    state of `SystemB` is an honest instance message, provided the delivered round-change (if any) respects the timing
    assumption -/
theorem sys_bcast_honest {P : Params} (hP : P.Valid) {σ : Sys P} (hr : Reachable σ) (a : Action P)
    (hen : enabled σ a = true) (ht : TimelyAction σ a) (x : Msg) (hx : Out.bcast x ∈ stepOuts σ a) :
    HonestInst (P.cfg (actor a)) x := by
  have hinv := inv_of_reachable hP hr
  cases a with
  | start i v =>
    obtain ⟨hv, ho⟩ := ctrl_start_outs _ _ _ _ _ hx
    exact honestInst_start _ _ _ _ hv x ((mem_bcasts _ _).2 ho)
  | deliver i m =>
    have hen' : P.honest i = true ∧ authentic P σ.log m = true := by simpa [enabled] using hen
    obtain ⟨inst, hf, hid, hb⟩ := ctrl_processMsg_bcast _ _ _ _ hx
    have hi := inst_of_find (hinv.shape i) hf
    have hn : NodeInv P σ.trace i inst := by
      have := hinv.node i hen'.1
      rw [hi] at this
      exact this
    exact honestInst_of_emit _ inst m x hn.round (ht inst hi) (processMsg_emit _ _ _ _ hb)
  | timeout i r =>
    obtain ⟨inst, hf, ho⟩ := ctrl_onTimeout_outs _ _ _ _ _ hx
    exact honestInst_timeout _ inst x ((mem_bcasts _ _).2 ho)

/-- DECIDED MESSAGES: every message a correct operator hands to `broadcastDecided` in an enabled, gated step from a state
    reachable through gated deliveries is an honest decided message -/
theorem sys_decided_honest {P : Params} (hP : P.Valid) {σ : Sys P} (hr : ReachableG σ) (a : Action P)
    (hen : enabled σ a = true) (hg : GatedAction a) (d : Msg) (hd : Out.bcastDecided d ∈ stepOuts σ a) :
    HonestDecided (P.cfg (actor a)) d := by
  have hinv := inv_of_reachable hP hr.reachable
  cases a with
  | start i v =>
    obtain ⟨_, ho⟩ := ctrl_start_outs _ _ _ _ _ hd
    exact absurd ho (instOut_of_bcast_mem (outsInst_start _ _ _ _))
  | deliver i m =>
    have hen' : P.honest i = true ∧ authentic P σ.log m = true := by simpa [enabled] using hen
    obtain ⟨inst, b, v, hf, hid, hres⟩ := ctrl_processMsg_decided _ _ _ _ hd
    have hi := inst_of_find (hinv.shape i) hf
    have hn : NodeInv P σ.trace i inst := by
      have := hinv.node i hen'.1
      rw [hi] at this
      exact this
    have hpl : CommitsPlain inst := by
      have := plain_of_reachableG hP hr i
      rw [hi] at this
      exact this
    have hci : InstInv (P.cfg i) inst := ctrlInv_of_reachable hr.reachable i inst (findInstance_some hf).1
    exact (honestDecided_of_processMsg _ inst m d b v hci hid hn.round hpl hg hres).1
  | timeout i r =>
    obtain ⟨inst, _, ho⟩ := ctrl_onTimeout_outs _ _ _ _ _ hd
    exact absurd ho (instOut_of_bcast_mem (outsInst_uponRoundTimeout _ _))

end Ssv.Emission
