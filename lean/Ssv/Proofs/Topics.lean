/- Helper lemmas for C18 (core Lean only). -/
import Ssv.Model.Topics

namespace Ssv.Topics

theorem hexVal_hexDigit (n : Nat) (h : n < 16) : hexVal? (hexDigit n) = some n := by
  have : n = 0 ∨ n = 1 ∨ n = 2 ∨ n = 3 ∨ n = 4 ∨ n = 5 ∨ n = 6 ∨ n = 7 ∨ n = 8 ∨ n = 9 ∨ n = 10 ∨
      n = 11 ∨ n = 12 ∨ n = 13 ∨ n = 14 ∨ n = 15 := by omega
  rcases this with h | h | h | h | h | h | h | h | h | h | h | h | h | h | h | h <;> subst h <;> decide

theorem go_step (n : Nat) (hn : n < 16) (cs : List Nat) (acc : Nat) (hacc : acc * 16 + n < 2 ^ 64) :
    parseUint16.go (hexDigit n :: cs) acc = parseUint16.go cs (acc * 16 + n) := by
  simp only [parseUint16.go, hexVal_hexDigit n hn]
  have : ¬ (acc * 16 + n ≥ 2 ^ 64) := by omega
  simp [this]

/-- the ten hex characters of five bytes parse to the big-endian value of those bytes -/
theorem hexToUint64_five (b0 b1 b2 b3 b4 : Nat)
    (h0 : b0 < 256) (h1 : b1 < 256) (h2 : b2 < 256) (h3 : b3 < 256) (h4 : b4 < 256) :
    hexToUint64 (hexEncode [b0, b1, b2, b3, b4]) =
      (((b0 * 256 + b1) * 256 + b2) * 256 + b3) * 256 + b4 := by
  unfold hexToUint64
  simp only [hexEncode, parseUint16]
  have e : ∀ b, b < 256 → b / 16 < 16 ∧ b % 16 < 16 := by intro b hb; omega
  rw [go_step _ (e b0 h0).1 _ _ (by omega), go_step _ (e b0 h0).2 _ _ (by omega),
      go_step _ (e b1 h1).1 _ _ (by omega), go_step _ (e b1 h1).2 _ _ (by omega),
      go_step _ (e b2 h2).1 _ _ (by omega), go_step _ (e b2 h2).2 _ _ (by omega),
      go_step _ (e b3 h3).1 _ _ (by omega), go_step _ (e b3 h3).2 _ _ (by omega),
      go_step _ (e b4 h4).1 _ _ (by omega), go_step _ (e b4 h4).2 _ _ (by omega)]
  simp only [parseUint16.go]
  omega

theorem hexEncode_length (l : List Nat) : (hexEncode l).length = 2 * l.length := by
  induction l with
  | nil => rfl
  | cons b bs ih => simp [hexEncode, ih]; omega

theorem hexEncode_append (a b : List Nat) : hexEncode (a ++ b) = hexEncode a ++ hexEncode b := by
  induction a with
  | nil => rfl
  | cons x xs ih => simp [hexEncode, ih]

theorem deleteFirst_prefix (pat b : List Nat) (hp : pat ≠ []) : deleteFirst pat (pat ++ b) = b := by
  cases pat with
  | nil => exact absurd rfl hp
  | cons p ps =>
    have : (p :: ps).isPrefixOf (p :: (ps ++ b)) = true := by
      have := List.isPrefixOf_iff_prefix (l₁ := p :: ps) (l₂ := (p :: ps) ++ b)
      simp
    simp [deleteFirst, this]

theorem baseName_fullName (b : List Nat) : getTopicBaseName (getTopicFullName b) = b := by
  unfold getTopicBaseName getTopicFullName
  exact deleteFirst_prefix _ _ (by simp [prefixDot])

/-! ### subnets string codec -/

/-- the eight bits of a byte, least significant first -/
def bits8 (b : Nat) : List Nat :=
  [b % 2, b / 2 % 2, b / 4 % 2, b / 8 % 2, b / 16 % 2, b / 32 % 2, b / 64 % 2, b / 128 % 2]

theorem hexDigit_ne_x (n : Nat) (h : n < 16) : hexDigit n ≠ 120 := by
  unfold hexDigit; split <;> omega

theorem deleteFirst_not_mem (a b : Nat) (l : List Nat) (h : b ∉ l) : deleteFirst [a, b] l = l := by
  induction l with
  | nil => rfl
  | cons c cs ih =>
    have hcs : b ∉ cs := fun hm => h (List.mem_cons_of_mem _ hm)
    have hpre : List.isPrefixOf [a, b] (c :: cs) = false := by
      cases cs with
      | nil => simp [List.isPrefixOf]
      | cons d ds =>
        have : d ≠ b := fun e => h (by simp [e])
        simp [List.isPrefixOf, Ne.symm this]
    simp [deleteFirst, hpre, ih hcs]

theorem x_not_mem_hexEncode (l : List Nat) (h : Bytes l) : 120 ∉ hexEncode l := by
  induction l with
  | nil => simp [hexEncode]
  | cons b bs ih =>
    have hb : b < 256 := h b (by simp)
    have hbs : Bytes bs := fun x hx => h x (List.mem_cons_of_mem _ hx)
    simp only [hexEncode, List.mem_cons, not_or]
    exact ⟨(hexDigit_ne_x _ (by omega)).symm, (hexDigit_ne_x _ (by omega)).symm, ih hbs⟩

theorem charMask_hexDigit (n : Nat) (h : n < 16) :
    charMask? (hexDigit n) = some [n % 2, n / 2 % 2, n / 4 % 2, n / 8 % 2] := by
  simp [charMask?, hexVal_hexDigit n h]

theorem fromStringPairs_hexEncode (l : List Nat) (h : Bytes l) :
    fromStringPairs (hexEncode l) = some (l.flatMap bits8) := by
  induction l with
  | nil => rfl
  | cons b bs ih =>
    have hb : b < 256 := h b (by simp)
    have hbs : Bytes bs := fun x hx => h x (List.mem_cons_of_mem _ hx)
    simp only [hexEncode, fromStringPairs, charMask_hexDigit _ (show b / 16 < 16 by omega),
      charMask_hexDigit _ (show b % 16 < 16 by omega), ih hbs, List.flatMap_cons, bits8]
    congr 1
    simp only [List.cons_append, List.nil_append, List.cons.injEq, and_true]
    and_intros <;> first | trivial | omega

theorem bitOf_le_one (s : List Nat) (i : Nat) : bitOf s i ≤ 1 := by
  unfold bitOf; split
  · split <;> omega
  · omega

theorem vecByte_lt (s : List Nat) (k : Nat) : vecByte s k < 256 := by
  simp only [vecByte, List.range, List.range.loop, List.foldr]
  have := bitOf_le_one s (8 * k + 0); have := bitOf_le_one s (8 * k + 1)
  have := bitOf_le_one s (8 * k + 2); have := bitOf_le_one s (8 * k + 3)
  have := bitOf_le_one s (8 * k + 4); have := bitOf_le_one s (8 * k + 5)
  have := bitOf_le_one s (8 * k + 6); have := bitOf_le_one s (8 * k + 7)
  omega

theorem bits8_vecByte (s : List Nat) (k : Nat) :
    bits8 (vecByte s k) = [bitOf s (8 * k + 0), bitOf s (8 * k + 1), bitOf s (8 * k + 2), bitOf s (8 * k + 3),
      bitOf s (8 * k + 4), bitOf s (8 * k + 5), bitOf s (8 * k + 6), bitOf s (8 * k + 7)] := by
  simp only [vecByte, List.range, List.range.loop, List.foldr, bits8]
  have := bitOf_le_one s (8 * k + 0); have := bitOf_le_one s (8 * k + 1)
  have := bitOf_le_one s (8 * k + 2); have := bitOf_le_one s (8 * k + 3)
  have := bitOf_le_one s (8 * k + 4); have := bitOf_le_one s (8 * k + 5)
  have := bitOf_le_one s (8 * k + 6); have := bitOf_le_one s (8 * k + 7)
  simp only [List.cons.injEq, and_true]
  omega

/-- sixteen groups of eight consecutive indices enumerate 0..127 -/
theorem flatten_16x8 (f : Nat → Nat) :
    (List.range 16).flatMap (fun k => [f (8 * k + 0), f (8 * k + 1), f (8 * k + 2), f (8 * k + 3),
      f (8 * k + 4), f (8 * k + 5), f (8 * k + 6), f (8 * k + 7)]) = (List.range 128).map f := by
  rfl

/-- `FromString (String s)` is `s` with every non-zero entry normalised to 1, padded/truncated to 128 -/
theorem fromString_toString (s : List Nat) :
    subnetsFromString (subnetsToString s) = some ((List.range 128).map (bitOf s)) := by
  have hb : Bytes ((List.range 16).map (vecByte s)) := by
    intro b hb; simp only [List.mem_map] at hb; obtain ⟨k, _, rfl⟩ := hb; exact vecByte_lt s k
  unfold subnetsFromString subnetsToString strip0x
  rw [deleteFirst_not_mem _ _ _ (x_not_mem_hexEncode _ hb), fromStringPairs_hexEncode _ hb,
    List.flatMap_map]
  simp only [bits8_vecByte]
  rw [flatten_16x8]


/-! ## SharedSubnets / DiffSubnets -/

/-- number of positions set on both sides -/
def sharedCount : List Nat → List Nat → Nat
  | [], _ => 0
  | _ :: _, [] => 0
  | av :: as, bv :: bs => (if av = 0 ∨ bv = 0 then 0 else 1) + sharedCount as bs

theorem sharedGo_mem (as bs : List Nat) (i cnt : Nat) (lim : Option Nat) :
    ∀ k ∈ sharedGo as bs i cnt lim, i ≤ k ∧ ∃ av bv, as[k - i]? = some av ∧ bs[k - i]? = some bv ∧ av ≠ 0 ∧ bv ≠ 0 := by
  induction as generalizing bs i cnt with
  | nil => intro k hk; simp [sharedGo] at hk
  | cons av as ih =>
    cases bs with
    | nil => intro k hk; simp [sharedGo] at hk
    | cons bv bs =>
      intro k hk
      unfold sharedGo at hk
      split at hk
      · obtain ⟨h1, a', b', h2, h3, h4, h5⟩ := ih bs (i + 1) cnt k hk
        refine ⟨by omega, a', b', ?_, ?_, h4, h5⟩
        · have : k - i = (k - (i + 1)) + 1 := by omega
          rw [this]; simpa using h2
        · have : k - i = (k - (i + 1)) + 1 := by omega
          rw [this]; simpa using h3
      · rename_i hne
        have hne' : av ≠ 0 ∧ bv ≠ 0 := by omega
        split at hk
        · simp at hk; subst hk
          exact ⟨Nat.le_refl _, av, bv, by simp, by simp, hne'.1, hne'.2⟩
        · simp at hk
          rcases hk with hk | hk
          · subst hk
            exact ⟨Nat.le_refl _, av, bv, by simp, by simp, hne'.1, hne'.2⟩
          · obtain ⟨h1, a', b', h2, h3, h4, h5⟩ := ih bs (i + 1) (cnt + 1) k hk
            refine ⟨by omega, a', b', ?_, ?_, h4, h5⟩
            · have : k - i = (k - (i + 1)) + 1 := by omega
              rw [this]; simpa using h2
            · have : k - i = (k - (i + 1)) + 1 := by omega
              rw [this]; simpa using h3

theorem sharedCount_pos_of (as bs : List Nat) (j av bv : Nat)
    (ha : as[j]? = some av) (hb : bs[j]? = some bv) (h1 : av ≠ 0) (h2 : bv ≠ 0) : 0 < sharedCount as bs := by
  induction as generalizing bs j with
  | nil => simp at ha
  | cons a as ih =>
    cases bs with
    | nil => simp at hb
    | cons b bs =>
      unfold sharedCount
      cases j with
      | zero => simp at ha hb; subst ha; subst hb; simp [h1, h2]; omega
      | succ j => simp at ha hb; have := ih bs j ha hb; omega

theorem sharedGo_complete (as bs : List Nat) (i cnt : Nat) (lim : Option Nat)
    (hl : ∀ L, lim = some L → cnt + sharedCount as bs ≤ L)
    (j av bv : Nat) (ha : as[j]? = some av) (hb : bs[j]? = some bv) (h1 : av ≠ 0) (h2 : bv ≠ 0) :
    i + j ∈ sharedGo as bs i cnt lim := by
  induction as generalizing bs i cnt j with
  | nil => simp at ha
  | cons a as ih =>
    cases bs with
    | nil => simp at hb
    | cons b bs =>
      unfold sharedGo
      unfold sharedCount at hl
      split
      · rename_i hz
        cases j with
        | zero => simp at ha hb; subst ha; subst hb; omega
        | succ j =>
          simp at ha hb
          have := ih bs (i + 1) cnt (by intro L hL; have := hl L hL; simp [hz] at this; exact this) j ha hb
          have e : i + (j + 1) = i + 1 + j := by omega
          rw [e]; exact this
      · rename_i hz
        split
        · rename_i hlim
          have := hl _ hlim
          simp [hz] at this
          cases j with
          | zero => simp
          | succ j =>
            simp at ha hb
            have := sharedCount_pos_of as bs j av bv ha hb h1 h2
            omega
        · cases j with
          | zero => simp
          | succ j =>
            simp at ha hb
            have := ih bs (i + 1) (cnt + 1) (by intro L hL; have := hl L hL; simp [hz] at this; omega) j ha hb
            have e : i + (j + 1) = i + 1 + j := by omega
            rw [e]; exact List.mem_cons_of_mem _ this

theorem sharedCount_le (as bs : List Nat) : sharedCount as bs ≤ as.length := by
  induction as generalizing bs with
  | nil => simp [sharedCount]
  | cons a as ih =>
    cases bs with
    | nil => simp [sharedCount]
    | cons b bs => unfold sharedCount; have := ih bs; simp; split <;> omega

theorem sharedGo_sorted (as bs : List Nat) (i cnt : Nat) (lim : Option Nat) :
    (sharedGo as bs i cnt lim).Pairwise (· < ·) := by
  induction as generalizing bs i cnt with
  | nil => simp [sharedGo]
  | cons av as ih =>
    cases bs with
    | nil => simp [sharedGo]
    | cons bv bs =>
      unfold sharedGo
      split
      · exact ih bs _ _
      · split
        · simp
        · refine List.pairwise_cons.mpr ⟨?_, ih bs _ _⟩
          intro k hk
          have := (sharedGo_mem as bs (i + 1) (cnt + 1) lim k hk).1
          omega

theorem sharedGo_length (as bs : List Nat) (i cnt L : Nat) (h : cnt < L) :
    (sharedGo as bs i cnt (some L)).length + cnt ≤ L := by
  induction as generalizing bs i cnt with
  | nil => simp [sharedGo]; omega
  | cons av as ih =>
    cases bs with
    | nil => simp [sharedGo]; omega
    | cons bv bs =>
      unfold sharedGo
      split
      · exact ih bs _ _ h
      · split
        · simp; omega
        · rename_i hne
          have : cnt + 1 < L := by
            have : L ≠ cnt + 1 := fun e => hne (by rw [e])
            omega
          have := ih bs (i + 1) (cnt + 1) this
          simp; omega
theorem diffGo_mem (as bs : List Nat) (i k v : Nat) :
    (k, v) ∈ diffGo as bs i ↔ i ≤ k ∧ bs[k - i]? = some v ∧ as[k - i]? ≠ some v := by
  induction bs generalizing as i with
  | nil => cases as <;> simp [diffGo]
  | cons bv bs ih =>
    cases as with
    | nil =>
      simp only [diffGo, List.mem_cons, Prod.mk.injEq, ih]
      constructor
      · rintro (⟨rfl, rfl⟩ | ⟨h1, h2, _⟩)
        · simp
        · refine ⟨by omega, ?_, by simp⟩
          have : k - i = (k - (i + 1)) + 1 := by omega
          rw [this]; simpa using h2
      · rintro ⟨h1, h2, _⟩
        by_cases e : k = i
        · subst e; simp at h2; left; exact ⟨rfl, h2.symm⟩
        · right
          refine ⟨by omega, ?_, by simp⟩
          have : k - i = (k - (i + 1)) + 1 := by omega
          rw [this] at h2; simpa using h2
    | cons av as =>
      unfold diffGo
      by_cases hne : av ≠ bv
      · rw [if_pos hne]; simp only [List.mem_cons, Prod.mk.injEq, ih]
        constructor
        · rintro (⟨rfl, rfl⟩ | ⟨h1, h2, h3⟩)
          · simp; exact hne
          · refine ⟨by omega, ?_, ?_⟩
            · have : k - i = (k - (i + 1)) + 1 := by omega
              rw [this]; simpa using h2
            · have : k - i = (k - (i + 1)) + 1 := by omega
              rw [this]; simpa using h3
        · rintro ⟨h1, h2, h3⟩
          by_cases e : k = i
          · subst e; simp at h2; left; exact ⟨rfl, h2.symm⟩
          · right
            have : k - i = (k - (i + 1)) + 1 := by omega
            rw [this] at h2 h3
            exact ⟨by omega, by simpa using h2, by simpa using h3⟩
      · have heq : av = bv := by omega
        rw [if_neg hne]; simp only [ih]
        constructor
        · rintro ⟨h1, h2, h3⟩
          have : k - i = (k - (i + 1)) + 1 := by omega
          refine ⟨by omega, ?_, ?_⟩
          · rw [this]; simpa using h2
          · rw [this]; simpa using h3
        · rintro ⟨h1, h2, h3⟩
          by_cases e : k = i
          · subst e; simp at h2 h3; omega
          · have : k - i = (k - (i + 1)) + 1 := by omega
            rw [this] at h2 h3
            exact ⟨by omega, by simpa using h2, by simpa using h3⟩

theorem diffGo_sorted (as bs : List Nat) (i : Nat) : ((diffGo as bs i).map (·.1)).Pairwise (· < ·) := by
  induction bs generalizing as i with
  | nil => cases as <;> simp [diffGo]
  | cons bv bs ih =>
    have key : ∀ as', ∀ k ∈ (diffGo as' bs (i + 1)).map (·.1), i < k := by
      intro as' k hk
      simp only [List.mem_map] at hk
      obtain ⟨⟨k', v⟩, hm, rfl⟩ := hk
      have := ((diffGo_mem as' bs (i + 1) k' v).mp hm).1
      simp; omega
    cases as with
    | nil =>
      simp only [diffGo, List.map_cons]
      exact List.pairwise_cons.mpr ⟨key [], ih [] (i + 1)⟩
    | cons av as =>
      unfold diffGo
      split
      · simp only [List.map_cons]
        exact List.pairwise_cons.mpr ⟨key as, ih as (i + 1)⟩
      · exact ih as (i + 1)

end Ssv.Topics
