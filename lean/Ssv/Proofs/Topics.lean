/- Helper lemmas for C18 (core Lean only). -/
import Ssv.Model.Topics

namespace Ssv.Topics

theorem hexVal_hexDigit (n : Nat) (h : n < 16) : hexVal? (hexDigit n) = some n := by
  have : n = 0 ∨ n = 1 ∨ n = 2 ∨ n = 3 ∨ n = 4 ∨ n = 5 ∨ n = 6 ∨ n = 7 ∨ n = 8 ∨ n = 9 ∨ n = 10 ∨
      n = 11 ∨ n = 12 ∨ n = 13 ∨ n = 14 ∨ n = 15 := by omega
  rcases this with h | h | h | h | h | h | h | h | h | h | h | h | h | h | h | h <;> subst h <;> decide

theorem go_step (n : Nat) (hn : n < 16) (cs : List Nat) (acc : Nat) (hacc : acc * 16 + n < 2 ^ 64) :
    parseUint16.go (hexDigit n :: cs) acc = parseUint16.go cs (acc * 16 + n) := by
  simp only [parseUint16.go, hexVal_hexDigit n hn]
  have : ¬ (acc * 16 + n ≥ 2 ^ 64) := by omega
  simp [this]

/-- the ten hex characters of five bytes parse to the big-endian value of those bytes -/
theorem hexToUint64_five (b0 b1 b2 b3 b4 : Nat)
    (h0 : b0 < 256) (h1 : b1 < 256) (h2 : b2 < 256) (h3 : b3 < 256) (h4 : b4 < 256) :
    hexToUint64 (hexEncode [b0, b1, b2, b3, b4]) =
      (((b0 * 256 + b1) * 256 + b2) * 256 + b3) * 256 + b4 := by
  unfold hexToUint64
  simp only [hexEncode, parseUint16]
  have e : ∀ b, b < 256 → b / 16 < 16 ∧ b % 16 < 16 := by intro b hb; omega
  rw [go_step _ (e b0 h0).1 _ _ (by omega), go_step _ (e b0 h0).2 _ _ (by omega),
      go_step _ (e b1 h1).1 _ _ (by omega), go_step _ (e b1 h1).2 _ _ (by omega),
      go_step _ (e b2 h2).1 _ _ (by omega), go_step _ (e b2 h2).2 _ _ (by omega),
      go_step _ (e b3 h3).1 _ _ (by omega), go_step _ (e b3 h3).2 _ _ (by omega),
      go_step _ (e b4 h4).1 _ _ (by omega), go_step _ (e b4 h4).2 _ _ (by omega)]
  simp only [parseUint16.go]
  omega

theorem hexEncode_length (l : List Nat) : (hexEncode l).length = 2 * l.length := by
  induction l with
  | nil => rfl
  | cons b bs ih => simp [hexEncode, ih]; omega

theorem hexEncode_append (a b : List Nat) : hexEncode (a ++ b) = hexEncode a ++ hexEncode b := by
  induction a with
  | nil => rfl
  | cons x xs ih => simp [hexEncode, ih]

theorem deleteFirst_prefix (pat b : List Nat) (hp : pat ≠ []) : deleteFirst pat (pat ++ b) = b := by
  cases pat with
  | nil => exact absurd rfl hp
  | cons p ps =>
    have : (p :: ps).isPrefixOf (p :: (ps ++ b)) = true := by
      have := List.isPrefixOf_iff_prefix (l₁ := p :: ps) (l₂ := (p :: ps) ++ b)
      simp
    simp [deleteFirst, this]

theorem baseName_fullName (b : List Nat) : getTopicBaseName (getTopicFullName b) = b := by
  unfold getTopicBaseName getTopicFullName
  exact deleteFirst_prefix _ _ (by simp [prefixDot])

/-! ### subnets string codec -/

/-- the eight bits of a byte, least significant first -/
def bits8 (b : Nat) : List Nat :=
  [b % 2, b / 2 % 2, b / 4 % 2, b / 8 % 2, b / 16 % 2, b / 32 % 2, b / 64 % 2, b / 128 % 2]

theorem hexDigit_ne_x (n : Nat) (h : n < 16) : hexDigit n ≠ 120 := by
  unfold hexDigit; split <;> omega

theorem deleteFirst_not_mem (a b : Nat) (l : List Nat) (h : b ∉ l) : deleteFirst [a, b] l = l := by
  induction l with
  | nil => rfl
  | cons c cs ih =>
    have hcs : b ∉ cs := fun hm => h (List.mem_cons_of_mem _ hm)
    have hpre : List.isPrefixOf [a, b] (c :: cs) = false := by
      cases cs with
      | nil => simp [List.isPrefixOf]
      | cons d ds =>
        have : d ≠ b := fun e => h (by simp [e])
        simp [List.isPrefixOf, Ne.symm this]
    simp [deleteFirst, hpre, ih hcs]

theorem x_not_mem_hexEncode (l : List Nat) (h : Bytes l) : 120 ∉ hexEncode l := by
  induction l with
  | nil => simp [hexEncode]
  | cons b bs ih =>
    have hb : b < 256 := h b (by simp)
    have hbs : Bytes bs := fun x hx => h x (List.mem_cons_of_mem _ hx)
    simp only [hexEncode, List.mem_cons, not_or]
    exact ⟨(hexDigit_ne_x _ (by omega)).symm, (hexDigit_ne_x _ (by omega)).symm, ih hbs⟩

theorem charMask_hexDigit (n : Nat) (h : n < 16) :
    charMask? (hexDigit n) = some [n % 2, n / 2 % 2, n / 4 % 2, n / 8 % 2] := by
  simp [charMask?, hexVal_hexDigit n h]

theorem fromStringPairs_hexEncode (l : List Nat) (h : Bytes l) :
    fromStringPairs (hexEncode l) = some (l.flatMap bits8) := by
  induction l with
  | nil => rfl
  | cons b bs ih =>
    have hb : b < 256 := h b (by simp)
    have hbs : Bytes bs := fun x hx => h x (List.mem_cons_of_mem _ hx)
    simp only [hexEncode, fromStringPairs, charMask_hexDigit _ (show b / 16 < 16 by omega),
      charMask_hexDigit _ (show b % 16 < 16 by omega), ih hbs, List.flatMap_cons, bits8]
    congr 1
    simp only [List.cons_append, List.nil_append, List.cons.injEq, and_true]
    and_intros <;> first | trivial | omega

theorem bitOf_le_one (s : List Nat) (i : Nat) : bitOf s i ≤ 1 := by
  unfold bitOf; split
  · split <;> omega
  · omega

theorem vecByte_lt (s : List Nat) (k : Nat) : vecByte s k < 256 := by
  simp only [vecByte, List.range, List.range.loop, List.foldr]
  have := bitOf_le_one s (8 * k + 0); have := bitOf_le_one s (8 * k + 1)
  have := bitOf_le_one s (8 * k + 2); have := bitOf_le_one s (8 * k + 3)
  have := bitOf_le_one s (8 * k + 4); have := bitOf_le_one s (8 * k + 5)
  have := bitOf_le_one s (8 * k + 6); have := bitOf_le_one s (8 * k + 7)
  omega

theorem bits8_vecByte (s : List Nat) (k : Nat) :
    bits8 (vecByte s k) = [bitOf s (8 * k + 0), bitOf s (8 * k + 1), bitOf s (8 * k + 2), bitOf s (8 * k + 3),
      bitOf s (8 * k + 4), bitOf s (8 * k + 5), bitOf s (8 * k + 6), bitOf s (8 * k + 7)] := by
  simp only [vecByte, List.range, List.range.loop, List.foldr, bits8]
  have := bitOf_le_one s (8 * k + 0); have := bitOf_le_one s (8 * k + 1)
  have := bitOf_le_one s (8 * k + 2); have := bitOf_le_one s (8 * k + 3)
  have := bitOf_le_one s (8 * k + 4); have := bitOf_le_one s (8 * k + 5)
  have := bitOf_le_one s (8 * k + 6); have := bitOf_le_one s (8 * k + 7)
  simp only [List.cons.injEq, and_true]
  omega

/-- sixteen groups of eight consecutive indices enumerate 0..127 -/
theorem flatten_16x8 (f : Nat → Nat) :
    (List.range 16).flatMap (fun k => [f (8 * k + 0), f (8 * k + 1), f (8 * k + 2), f (8 * k + 3),
      f (8 * k + 4), f (8 * k + 5), f (8 * k + 6), f (8 * k + 7)]) = (List.range 128).map f := by
  rfl

/-- `FromString (String s)` is `s` with every non-zero entry normalised to 1, padded/truncated to 128 -/
theorem fromString_toString (s : List Nat) :
    subnetsFromString (subnetsToString s) = some ((List.range 128).map (bitOf s)) := by
  have hb : Bytes ((List.range 16).map (vecByte s)) := by
    intro b hb; simp only [List.mem_map] at hb; obtain ⟨k, _, rfl⟩ := hb; exact vecByte_lt s k
  unfold subnetsFromString subnetsToString strip0x
  rw [deleteFirst_not_mem _ _ _ (x_not_mem_hexEncode _ hb), fromStringPairs_hexEncode _ hb,
    List.flatMap_map]
  simp only [bits8_vecByte]
  rw [flatten_16x8]

end Ssv.Topics
