/-
C01 Layer A — agreement from abstract trace rules H0–H7 (moved from design/C01_LayerA_prototype.lean; see DESIGN Appendix E).
Events of honest nodes: P prepare sent, K commit sent, RC round-change sent (pr = 0: unprepared), G the instance adopted a
decided message of round rc (Controller.UponDecided on an undecided instance: Round := rc), D first decision reported.
The rules tolerate the round regression by decided messages that is specific to this code base. Layer B (deriving the rules
from the executable node model Ssv/Model/Qbft) is separate work.
-/
import Mathlib.Data.Finset.Card
import Mathlib.Data.Fintype.Card
import Mathlib.Tactic.Linarith
import Mathlib.Tactic.IntervalCases
import Mathlib.Tactic.FinCases

/-! Layer A of C01 (prototype): agreement from local trace rules, with round regression. -/
namespace QAbs

variable {N : Type} [Fintype N] [DecidableEq N]

inductive Ev (N : Type) where
  | P  (i : N) (r v : Nat)
  | K  (i : N) (r v : Nat)
  | RC (i : N) (r pr pv : Nat)
  | G  (i : N) (rc : Nat)
  | D  (i : N) (r v : Nat)
  deriving DecidableEq

structure Ctx (N : Type) [Fintype N] [DecidableEq N] where
  f   : Nat
  byz : Finset N
  T   : List (Ev N)
  hn  : Fintype.card N = 3 * f + 1
  hb  : byz.card ≤ f

variable (c : Ctx N)

def At (k : Nat) (e : Ev N) : Prop := c.T[k]? = some e
def Before (k : Nat) (e : Ev N) : Prop := ∃ k', k' < k ∧ At c k' e

/-- authentic prepare quorum for (r,v) strictly before index k -/
def PQ (k r v : Nat) : Prop :=
  ∃ S : Finset N, 2 * c.f + 1 ≤ S.card ∧ ∀ j ∈ S, j ∉ c.byz → Before c k (.P j r v)
def KQ (k r v : Nat) : Prop :=
  ∃ S : Finset N, 2 * c.f + 1 ≤ S.card ∧ ∀ j ∈ S, j ∉ c.byz → Before c k (.K j r v)

/-- a round-change quorum for round r, validated by a correct receiver, strictly before k -/
def RCQ (k r : Nat) (S : Finset N) (d : N → Nat × Nat) : Prop :=
  2 * c.f + 1 ≤ S.card ∧ ∀ j ∈ S, (d j).1 ≤ r ∧ ((d j).1 > 0 → PQ c k (d j).1 (d j).2) ∧
    (j ∉ c.byz → Before c k (.RC j r (d j).1 (d j).2))

structure Rules : Prop where
  H1 : ∀ i r v v' k k', i ∉ c.byz → At c k (.P i r v) → At c k' (.P i r v') → v = v'
  H0 : ∀ i r v k, i ∉ c.byz → At c k (.K i r v) → 1 ≤ r
  H2 : ∀ i r v k, i ∉ c.byz → At c k (.K i r v) →
        PQ c k r v ∨ ((∃ g rc, g < k ∧ At c g (.G i rc) ∧ rc ≤ r) ∧ ∃ r2, r < r2 ∧ Before c k (.P i r2 v))
  H3 : ∀ i r v k, i ∉ c.byz → At c k (.P i r v) → 1 < r →
        ∃ S d, RCQ c k r S d ∧
          ((∀ j ∈ S, (d j).1 = 0) ∨ ∃ js ∈ S, (∀ j ∈ S, (d j).1 ≤ (d js).1) ∧ 0 < (d js).1 ∧ (d js).2 = v)
  H4 : ∀ i r v r' pr pv k1 k2, i ∉ c.byz → At c k1 (.K i r v) → At c k2 (.RC i r' pr pv) → k1 < k2 → r < r' →
        (∀ g rc, k1 < g → g < k2 → At c g (.G i rc) → r ≤ rc) → r ≤ pr
  H5 : ∀ i r v r' pr pv k1 k2, i ∉ c.byz → At c k1 (.RC i r' pr pv) → At c k2 (.K i r v) → k1 < k2 → r < r' →
        ∃ g rc, k1 < g ∧ g < k2 ∧ At c g (.G i rc) ∧ rc ≤ r
  H6 : ∀ i rc k, i ∉ c.byz → At c k (.G i rc) → ∃ v, KQ c k rc v
  H7 : ∀ i r v k, i ∉ c.byz → At c k (.D i r v) → KQ c (k+1) r v

theorem before_mono {c : Ctx N} {k k' : Nat} {e : Ev N} (h : Before c k e) (hk : k ≤ k') : Before c k' e := by
  obtain ⟨j, hj, ha⟩ := h; exact ⟨j, lt_of_lt_of_le hj hk, ha⟩

theorem pq_mono {c : Ctx N} {k k' r v : Nat} (h : PQ c k r v) (hk : k ≤ k') : PQ c k' r v := by
  obtain ⟨S, hS, hm⟩ := h; exact ⟨S, hS, fun j hj hb => before_mono (hm j hj hb) hk⟩

/-- any two sets of sizes a and b inside the committee overlap in at least a + b - n members -/
theorem inter_card (A B : Finset N) : A.card + B.card ≤ Fintype.card N + (A ∩ B).card := by
  have h1 : (A ∪ B).card ≤ Fintype.card N := Finset.card_le_univ _
  have h2 := Finset.card_union_add_card_inter A B
  omega

/-- a set larger than the Byzantine set has an honest member -/
theorem exists_honest (A : Finset N) (h : c.f < A.card) : ∃ j ∈ A, j ∉ c.byz := by
  by_contra hcon
  have : A ⊆ c.byz := fun j hj => by
    by_contra hjb; exact hcon ⟨j, hj, hjb⟩
  have := Finset.card_le_card this
  have := c.hb
  omega

/-- step 1: two authentic prepare quorums of one round agree -/
theorem pq_unique (R : Rules c) {k k' r v v' : Nat} (h : PQ c k r v) (h' : PQ c k' r v') : v = v' := by
  obtain ⟨S, hS, hm⟩ := h
  obtain ⟨S', hS', hm'⟩ := h'
  have hi := inter_card S S'
  have hn := c.hn
  obtain ⟨j, hj, hjb⟩ := exists_honest c (S ∩ S') (by omega)
  rw [Finset.mem_inter] at hj
  obtain ⟨a, _, ha⟩ := hm j hj.1 hjb
  obtain ⟨b, _, hb⟩ := hm' j hj.2 hjb
  exact R.H1 j r v v' a b hjb ha hb


open Classical in
/-- honest nodes that have sent commit (r,v) strictly before k -/
noncomputable def committers (k r v : Nat) : Finset N :=
  Finset.univ.filter (fun j => j ∉ c.byz ∧ Before c k (.K j r v))

def Done (k r v : Nat) : Prop := c.f + 1 ≤ (committers c k r v).card

theorem done_mono {k k' r v : Nat} (h : Done c k r v) (hk : k ≤ k') : Done c k' r v := by
  unfold Done at *
  refine le_trans h (Finset.card_le_card ?_)
  intro j hj
  simp only [committers, Finset.mem_filter, Finset.mem_univ, true_and] at hj ⊢
  exact ⟨hj.1, before_mono hj.2 hk⟩

theorem kq_done {k r v : Nat} (h : KQ c k r v) : Done c k r v := by
  obtain ⟨S, hS, hm⟩ := h
  unfold Done
  have h1 : S \ c.byz ⊆ committers c k r v := by
    intro j hj
    rw [Finset.mem_sdiff] at hj
    simp only [committers, Finset.mem_filter, Finset.mem_univ, true_and]
    exact ⟨hj.2, hm j hj.1 hj.2⟩
  have h2 := Finset.le_card_sdiff c.byz S
  have h3 := Finset.card_le_card h1
  have := c.hb
  omega

theorem at_lt_length {k : Nat} {e : Ev N} (h : At c k e) : k < c.T.length := by
  unfold At at h
  by_contra hk
  rw [List.getElem?_eq_none (by omega)] at h
  exact absurd h (by simp)

theorem at_inj {k : Nat} {e e' : Ev N} (h : At c k e) (h' : At c k e') : e = e' := by
  unfold At at *; rw [h] at h'; exact Option.some.inj h'

/-- Everything after fixing the minimal commit round r0, the earliest completion index k0 and value v0. -/
structure Pivot where
  r0 : Nat
  k0 : Nat
  v0 : Nat
  done0 : Done c k0 r0 v0
  minR : ∀ k r v, Done c k r v → r0 ≤ r
  minK : ∀ k v, Done c k r0 v → k0 ≤ k

variable {c}

theorem exists_pivot {k r v : Nat} (h : Done c k r v) : Nonempty (Pivot c) := by
  classical
  have hex : ∃ r, ∃ k v, Done c k r v := ⟨r, k, v, h⟩
  let r0 := Nat.find hex
  have hr0 : ∃ k v, Done c k r0 v := Nat.find_spec hex
  have hexk : ∃ k, ∃ v, Done c k r0 v := hr0
  let k0 := Nat.find hexk
  obtain ⟨v0, hv0⟩ := Nat.find_spec hexk
  exact ⟨{ r0 := r0, k0 := k0, v0 := v0, done0 := hv0
           minR := fun k r v hd => Nat.find_min' hex ⟨k, v, hd⟩
           minK := fun k v hd => Nat.find_min' hexk ⟨v, hd⟩ }⟩

variable (R : Rules c) (p : Pivot c)
include R

theorem noG {i : N} {g rc : Nat} (hi : i ∉ c.byz) (hg : At c g (.G i rc)) :
    p.r0 ≤ rc ∧ (rc ≤ p.r0 → p.k0 ≤ g) := by
  obtain ⟨v, hkq⟩ := R.H6 i rc g hi hg
  have hd := kq_done c hkq
  refine ⟨p.minR _ _ _ hd, fun hle => ?_⟩
  have : rc = p.r0 := le_antisymm hle (p.minR _ _ _ hd)
  subst this
  exact p.minK _ _ hd

theorem r0_pos : 1 ≤ p.r0 := by
  have hd := p.done0
  unfold Done at hd
  have hpos : 0 < (committers c p.k0 p.r0 p.v0).card := by omega
  obtain ⟨j, hj⟩ := Finset.card_pos.mp hpos
  simp only [committers, Finset.mem_filter, Finset.mem_univ, true_and] at hj
  obtain ⟨t, _, ht⟩ := hj.2
  exact R.H0 j _ _ t hj.1 ht

/-- step 3: the pivot value is backed by an authentic prepare quorum -/
theorem pivot_pq : ∃ t, PQ c t p.r0 p.v0 := by
  have hd := p.done0
  unfold Done at hd
  have hpos : 0 < (committers c p.k0 p.r0 p.v0).card := by omega
  obtain ⟨j, hj⟩ := Finset.card_pos.mp hpos
  simp only [committers, Finset.mem_filter, Finset.mem_univ, true_and] at hj
  obtain ⟨t, htk, ht⟩ := hj.2
  rcases R.H2 j _ _ t hj.1 ht with h | ⟨⟨g, rc, hgt, hG, hrc⟩, _⟩
  · exact ⟨t, h⟩
  · have := (noG R p hj.1 hG).2 hrc
    omega

/-- step 4: members of F carry the lock in every later-round round-change -/
theorem lockF {j : N} {r' pr pv k2 : Nat} (hjF : j ∈ committers c p.k0 p.r0 p.v0)
    (hrc : At c k2 (.RC j r' pr pv)) (hr : p.r0 < r') : p.r0 ≤ pr := by
  simp only [committers, Finset.mem_filter, Finset.mem_univ, true_and] at hjF
  obtain ⟨hjb, t, htk, ht⟩ := hjF
  rcases lt_trichotomy k2 t with h | h | h
  · obtain ⟨g, rc, hg1, hg2, hG, hle⟩ := R.H5 j _ _ _ _ _ k2 t hjb hrc ht h hr
    have := (noG R p hjb hG).2 hle
    omega
  · subst h
    have := at_inj c hrc ht
    cases this
  · exact R.H4 j _ _ _ _ _ t k2 hjb ht hrc h hr (fun g rc _ _ hG => (noG R p hjb hG).1)

/-- step 5: after the pivot round every honest prepare is for the pivot value -/
theorem main_lemma : ∀ k (i : N) (r' v' : Nat), i ∉ c.byz → At c k (.P i r' v') → p.r0 < r' → v' = p.v0 := by
  intro k
  induction k using Nat.strong_induction_on with
  | _ k ih =>
    intro i r' v' hi hP hr
    have hr0 := r0_pos R p
    obtain ⟨S, d, ⟨hS, hm⟩, hcase⟩ := R.H3 i r' v' k hi hP (by omega)
    -- the round-change quorum meets F
    have hF := p.done0
    unfold Done at hF
    have hint := inter_card S (committers c p.k0 p.r0 p.v0)
    have hn := c.hn
    have hpos : 0 < (S ∩ committers c p.k0 p.r0 p.v0).card := by omega
    obtain ⟨j, hj⟩ := Finset.card_pos.mp hpos
    rw [Finset.mem_inter] at hj
    have hjb : j ∉ c.byz := by
      have := hj.2
      simp only [committers, Finset.mem_filter, Finset.mem_univ, true_and] at this
      exact this.1
    obtain ⟨_, _, hsent⟩ := hm j hj.1
    obtain ⟨k2, hk2, hrc⟩ := hsent hjb
    have hlock := lockF R p hj.2 hrc hr
    rcases hcase with hall | ⟨js, hjs, hmax, hpos', hval⟩
    · have := hall j hj.1; omega
    · obtain ⟨_, hpq, _⟩ := hm js hjs
      have hpq := hpq hpos'
      rw [hval] at hpq
      have hge : p.r0 ≤ (d js).1 := le_trans hlock (hmax j hj.1)
      rcases Nat.eq_or_lt_of_le hge with heq | hlt
      · obtain ⟨t, hpiv⟩ := pivot_pq R p
        rw [← heq] at hpq
        exact pq_unique c R hpq hpiv
      · obtain ⟨S', hS', hm'⟩ := hpq
        obtain ⟨h, hh, hhb⟩ := exists_honest c S' (by omega)
        obtain ⟨k'', hk'', hP'⟩ := hm' h hh hhb
        exact ih k'' hk'' h _ _ hhb hP' hlt

/-- step 6: every reported decision is the pivot value -/
theorem decision_is_pivot {i : N} {r v k : Nat} (hi : i ∉ c.byz) (hD : At c k (.D i r v)) : v = p.v0 := by
  have hkq := R.H7 i r v k hi hD
  have hr : p.r0 ≤ r := p.minR _ _ _ (kq_done c hkq)
  obtain ⟨S, hS, hm⟩ := hkq
  obtain ⟨j, hj, hjb⟩ := exists_honest c S (by omega)
  obtain ⟨kk, _, hK⟩ := hm j hj hjb
  rcases R.H2 j r v kk hjb hK with hpq | ⟨_, r2, hr2, k3, _, hP⟩
  · rcases Nat.eq_or_lt_of_le hr with heq | hlt
    · obtain ⟨t, hpiv⟩ := pivot_pq R p
      rw [← heq] at hpq
      exact pq_unique c R hpq hpiv
    · obtain ⟨S', hS', hm'⟩ := hpq
      obtain ⟨h, hh, hhb⟩ := exists_honest c S' (by omega)
      obtain ⟨k'', _, hP'⟩ := hm' h hh hhb
      exact main_lemma R p k'' h _ _ hhb hP' hlt
  · exact main_lemma R p k3 j _ _ hjb hP (by omega)

omit p in
/-- AGREEMENT (Layer A): any two decisions reported by correct operators carry the same value. -/
theorem agreement {i j : N} {r v k r' v' k' : Nat} (hi : i ∉ c.byz) (hj : j ∉ c.byz)
    (hD : At c k (.D i r v)) (hD' : At c k' (.D j r' v')) : v = v' := by
  obtain ⟨p⟩ := exists_pivot (kq_done c (R.H7 i r v k hi hD))
  rw [decision_is_pivot R p hi hD, decision_is_pivot R p hj hD']

end QAbs

/-! ### non-vacuity of the rules -/

namespace QAbs

/-- non-vacuity: committee of 4 (f = 1, member 3 Byzantine); members 0,1,2 prepare, commit and decide value 7 in round 1 -/
def exT : List (Ev (Fin 4)) :=
  [.P 0 1 7, .P 1 1 7, .P 2 1 7, .K 0 1 7, .K 1 1 7, .K 2 1 7, .D 0 1 7, .D 1 1 7, .D 2 1 7]

def exCtx : Ctx (Fin 4) := { f := 1, byz := {3}, T := exT, hn := by decide, hb := by decide }

theorem ex_at {k : Nat} {e : Ev (Fin 4)} (h : At exCtx k e) : k < 9 ∧ exT[k]? = some e := by
  refine ⟨?_, h⟩
  have := at_lt_length exCtx h
  simpa [exCtx, exT] using this

theorem exRules : Rules exCtx := by
  have hS : (2 * exCtx.f + 1) ≤ ({0, 1, 2} : Finset (Fin 4)).card := by decide
  have pq : ∀ k, 3 ≤ k → PQ exCtx k 1 7 := by
    intro k hk
    refine ⟨{0, 1, 2}, hS, ?_⟩
    intro j hj _
    fin_cases j
    · exact ⟨0, by omega, rfl⟩
    · exact ⟨1, by omega, rfl⟩
    · exact ⟨2, by omega, rfl⟩
    · simp at hj
  have kq : ∀ k, 6 ≤ k → KQ exCtx k 1 7 := by
    intro k hk
    refine ⟨{0, 1, 2}, hS, ?_⟩
    intro j hj _
    fin_cases j
    · exact ⟨3, by omega, rfl⟩
    · exact ⟨4, by omega, rfl⟩
    · exact ⟨5, by omega, rfl⟩
    · simp at hj
  constructor
  · -- H1
    intro i r v v' k k' _ h h'
    obtain ⟨hk, e⟩ := ex_at h
    obtain ⟨hk', e'⟩ := ex_at h'
    interval_cases k <;> simp [exT] at e <;> interval_cases k' <;> simp [exT] at e' <;> omega
  · -- H0
    intro i r v k _ h
    obtain ⟨hk, e⟩ := ex_at h
    interval_cases k <;> simp [exT] at e <;> omega
  · -- H2
    intro i r v k _ h
    obtain ⟨hk, e⟩ := ex_at h
    left
    interval_cases k <;> simp [exT] at e <;> (obtain ⟨_, rfl, rfl⟩ := e; exact pq _ (by omega))
  · -- H3
    intro i r v k _ h hr
    obtain ⟨hk, e⟩ := ex_at h
    interval_cases k <;> simp [exT] at e <;> omega
  · -- H4
    intro i r v r' pr pv k1 k2 _ _ h2
    obtain ⟨hk, e⟩ := ex_at h2
    interval_cases k2 <;> simp [exT] at e
  · -- H5
    intro i r v r' pr pv k1 k2 _ h1
    obtain ⟨hk, e⟩ := ex_at h1
    interval_cases k1 <;> simp [exT] at e
  · -- H6
    intro i rc k _ h
    obtain ⟨hk, e⟩ := ex_at h
    interval_cases k <;> simp [exT] at e
  · -- H7
    intro i r v k _ h
    obtain ⟨hk, e⟩ := ex_at h
    interval_cases k <;> simp [exT] at e <;> (obtain ⟨_, rfl, rfl⟩ := e; exact kq _ (by omega))


end QAbs
