/-
C01 all heights, part 6 — every step of the multi-height system preserves the invariant; hence it holds in every reachable
state.
-/
import Ssv.Proofs.QbftMultiSystem
import Ssv.Proofs.QbftNodeSystem
set_option linter.unusedSimpArgs false
set_option linter.unusedVariables false

namespace Ssv.Qbft.M
open Ssv.Qbft Ssv.Qbft.B

theorem nodeSt_some {P : B.Params} {T : List (Ev (B.Op P))} {i : B.Op P} {c : Ctrl} {h : Nat} {s : State}
    (hs : instAt h c = some s) : NodeSt P T i c h ↔ NodeInv P T i s := by
  unfold NodeSt; rw [hs]

theorem nodeSt_none {P : B.Params} {T : List (Ev (B.Op P))} {i : B.Op P} {c : Ctrl} {h : Nat}
    (hs : instAt h c = none) : NodeSt P T i c h ↔ ((∀ e ∈ T, e.node ≠ i) ∨ Blocked h c) := by
  unfold NodeSt; rw [hs]

theorem hstep_evs_node {N : Type} {cfg : Cfg} {h : Nat} {A : Msg → Prop} {i : N} {c c' : Ctrl} {bs : List Msg}
    {evs : List (Ev N)} (hst : HStep cfg h A i c c' bs evs) : ∀ e ∈ evs, e.node = i := by
  cases hst with
  | n hn => exact nstep_evs_node hn
  | dropped m ha h0 h1 hb hv hh h2 h3 =>
    intro e he; rw [h3] at he; simp at he; rcases he with rfl | rfl <;> rfl

section
variable {P : Params} (hP : P.Valid) {σ σ' : Sys P} {i : Op P} {h0 : Nat} {c' : Ctrl} {outs : List Out}
  {evs : List (Ev (Op P))}

/-- the acting operator's state at the acting height after the step -/
theorem node_main (hinv : InvM P hP σ) (ms : MStep P σ σ' i h0 c' outs evs) :
    NodeSt (P.at h0) (trP P h0 σ.trace ++ evs) i c' h0 ∧
    (∀ x ∈ bcasts outs, LogOK (P.at h0) (trP P h0 σ.trace ++ evs) x) ∧
    QAbs.Rules (ctxT (P.at h0) (hP.at h0) (trP P h0 σ.trace ++ evs)) := by
  have pre := hinv.node i ms.hi h0
  have hlive : ∀ s, instAt h0 (σ.ctrl i) = some s → NodeInv (P.at h0) (trP P h0 σ.trace) i s :=
    fun s hs => (nodeSt_some hs).1 pre
  have H0 : ∀ (j : B.Op (P.at h0)) (r v : Nat), (P.at h0).honest j = true → Ev.K j r v ∈ trP P h0 σ.trace → 1 ≤ r := by
    intro j r v hj hm
    obtain ⟨k, hk⟩ := List.getElem?_of_mem hm
    exact (hinv.rules h0).H0 j r v k ((honest_iff (P.at h0) (hP.at h0) _ j).2 hj) (at_K.2 hk)
  have hmain := ms.main
  cases hmain with
  | n hn =>
    have hfresh : instAt h0 (σ.ctrl i) = none → ∀ s', instAt h0 c' = some s' → ∀ e ∈ trP P h0 σ.trace, e.node ≠ i := by
      intro hnone s' hs'
      rcases (nodeSt_none hnone).1 pre with h | h
      · exact h
      · have := blocked_none ms.cinv (ms.blocked h0 h)
        rw [this] at hs'; simp at hs'
    have hpost : ∀ s', instAt h0 c' = some s' → NodeInv (P.at h0) (trP P h0 σ.trace ++ evs) i s' :=
      nodeInv_step' (hP.at h0) H0 i hn hlive hfresh
    have X : StepCtx' (P.at h0) (hP.at h0) (trP P h0 σ.trace) i (instAt h0 (σ.ctrl i)) (instAt h0 c') (bcasts outs) evs :=
      ⟨ms.hi, hn, hlive, hinv.rules h0⟩
    refine ⟨?_, log_step' (P := P.at h0) i ms.hi hn hlive, rules_step' X (fun _ => hpost)⟩
    cases hs' : instAt h0 c' with
    | some s' => exact (nodeSt_some hs').2 (hpost s' hs')
    | none =>
      obtain ⟨hnone, _, hevs⟩ := nstep_none hn hs'
      rw [hevs, List.append_nil]
      refine (nodeSt_none hs').2 ?_
      rcases (nodeSt_none hnone).1 pre with h | h
      · exact Or.inl h
      · exact Or.inr (ms.blocked h0 h)
  | dropped m ha hn0 hn1 hb hv hh h2 h3 =>
    refine ⟨(nodeSt_none hn1).2 (Or.inr hb), by rw [h2]; intro x hx; simp at hx, ?_⟩
    -- for the rules the dropped instance behaves like a created-and-forgotten decided instance
    have fake : NStep ((P.at h0).cfg i) (P.at h0).height (AuthT (P.at h0) (trP P h0 σ.trace)) i (none : Option State)
        (some { newInstance h0 with round := m.round, decided := true, decidedValue := m.fullData, commit := [m] })
        ([] : List Msg) evs :=
      .createDecided m ha rfl hv hh rfl rfl h3
    have X : StepCtx' (P.at h0) (hP.at h0) (trP P h0 σ.trace) i none
        (some { newInstance h0 with round := m.round, decided := true, decidedValue := m.fullData, commit := [m] }) [] evs :=
      ⟨ms.hi, fake, (fun s hs => by cases hs), hinv.rules h0⟩
    refine rules_step' X ?_
    rintro ⟨r, v, hin⟩
    rw [h3] at hin
    rcases List.mem_cons.1 hin with h | h
    · cases h
    · rcases List.mem_cons.1 h with h | h
      · cases h
      · cases h

theorem inv_mstep (hinv : InvM P hP σ) (ms : MStep P σ σ' i h0 c' outs evs) : InvM P hP σ' := by
  obtain ⟨hnode0, hlog0, hrules0⟩ := node_main hP hinv ms
  have hev := hstep_evs_node ms.main
  rw [ms.eq]
  have htr : ∀ h, trP P h (σ.update i c' outs h0 evs).trace = trP P h σ.trace ++ (if h = h0 then evs else []) :=
    fun h => trP_step P h σ.trace h0 evs
  have hci : (σ.update i c' outs h0 evs).ctrl i = c' := by simp [Sys.update]
  have hcj : ∀ j, j ≠ i → (σ.update i c' outs h0 evs).ctrl j = σ.ctrl j := by
    intro j hj; simp [Sys.update, hj]
  refine ⟨?_, ?_, ?_, ?_⟩
  · intro j
    by_cases hji : j = i
    · subst hji; rw [hci]; exact ms.cinv
    · rw [hcj j hji]; exact hinv.shape j
  · intro m hm h hh
    rw [htr h]
    have hm' : m ∈ σ.log ++ bcasts outs := hm
    rcases List.mem_append.1 hm' with hm' | hm'
    · exact (hinv.log m hm' h hh).ext _
    · have hl := hlog0 m hm'
      have hmh : m.height = h0 := by
        obtain ⟨_, _, _, hmh, _⟩ := hl; exact hmh
      have : h = h0 := by rw [← hh]; exact hmh
      subst this
      rw [if_pos rfl]
      exact hl
  · intro j hj h
    rw [htr h]
    by_cases hji : j = i
    · subst hji
      rw [hci]
      by_cases hh : h = h0
      · subst hh; rw [if_pos rfl]; exact hnode0
      · rw [if_neg hh, List.append_nil]
        have pre := hinv.node j hj h
        rcases ms.other h hh with h1 | ⟨s, a, b⟩ | ⟨s, a, b, d⟩
        · cases hs : instAt h (σ.ctrl j) with
          | some s =>
            exact (nodeSt_some (by rw [h1]; exact hs)).2 ((nodeSt_some hs).1 pre)
          | none =>
            refine (nodeSt_none (by rw [h1]; exact hs)).2 ?_
            rcases (nodeSt_none hs).1 pre with x | x
            · exact Or.inl x
            · exact Or.inr (ms.blocked h x)
        · exact (nodeSt_some b).2 (NodeInv.upd_forceStop ((nodeSt_some a).1 pre))
        · exact (nodeSt_none b).2 (Or.inr d)
    · rw [hcj j hji]
      have pre := hinv.node j hj h
      have hfor : ∀ e ∈ (if h = h0 then evs else []), e.node ≠ j := by
        intro e he
        split at he
        · rw [hev e he]; exact fun x => hji x.symm
        · simp at he
      cases hs : instAt h (σ.ctrl j) with
      | some s =>
        refine (nodeSt_some hs).2 ?_
        exact NodeInv.ext ((nodeSt_some hs).1 pre) _ (fun r v hm => hfor _ hm rfl) (fun r v hm => hfor _ hm rfl)
          (fun r pr pv hm => hfor _ hm rfl) (fun rc hm => hfor _ hm rfl)
      | none =>
        refine (nodeSt_none hs).2 ?_
        rcases (nodeSt_none hs).1 pre with x | x
        · left
          intro e he
          rcases List.mem_append.1 he with he | he
          · exact x e he
          · exact hfor e he
        · exact Or.inr x
  · intro h
    have := htr h
    by_cases hh : h = h0
    · subst hh
      rw [if_pos rfl] at this
      rw [this]; exact hrules0
    · rw [if_neg hh, List.append_nil] at this
      rw [this]; exact hinv.rules h

end

theorem inv_init (P : Params) (hP : P.Valid) : InvM P hP (Sys.init P) where
  shape := fun _ => ⟨by simp [hts, Sys.init, newController], by simp [hts, Sys.init, newController],
    by simp [hts, Sys.init, newController]⟩
  log := by intro m hm; simp [Sys.init] at hm
  node := by
    intro i _ h
    have : instAt h ((Sys.init P).ctrl i) = none := by simp [instAt, findInstance, Sys.init, newController]
    refine (nodeSt_none this).2 (Or.inl ?_)
    intro e he
    have : trP P h (Sys.init P).trace = [] := rfl
    rw [this] at he; cases he
  rules := fun h => B.rules_nil (P.at h) (hP.at h)

theorem inv_of_reachable {P : Params} (hP : P.Valid) {σ : Sys P} (h : Reachable σ) : InvM P hP σ := by
  induction h with
  | init => exact inv_init P hP
  | step a _ hen ih =>
    obtain ⟨i, h0, c', outs, evs, ms⟩ := step_mstep hP _ ih a hen
    exact inv_mstep hP ih ms

/-- the Layer-A context of one height of a multi-height state -/
def ctxH {P : Params} (hP : P.Valid) (σ : Sys P) (h : Nat) : QAbs.Ctx (Op P) :=
  ctxT (P.at h) (hP.at h) (trP P h σ.trace)

/-- once two higher heights are stored, no step ever stores an instance for the height again -/
theorem blocked_step {P : Params} (hP : P.Valid) {σ : Sys P} (hinv : InvM P hP σ) (a : Action P)
    (hen : enabled σ a = true) (i : Op P) (h : Nat) (hb : Blocked h (σ.ctrl i)) :
    Blocked h ((step σ a).ctrl i) ∧ instAt h ((step σ a).ctrl i) = none := by
  obtain ⟨j, h0, c', outs, evs, ms⟩ := step_mstep hP σ hinv a hen
  have hinv' := inv_mstep hP hinv ms
  have hb' : Blocked h ((step σ a).ctrl i) := by
    rw [ms.eq]
    by_cases hij : i = j
    · subst hij
      have : (σ.update i c' outs h0 evs).ctrl i = c' := by simp [Sys.update]
      rw [this]; exact ms.blocked h hb
    · have : (σ.update j c' outs h0 evs).ctrl i = σ.ctrl i := by simp [Sys.update, hij]
      rw [this]; exact hb
  exact ⟨hb', blocked_none (hinv'.shape i) hb'⟩

end Ssv.Qbft.M
