/-
Helper lemmas for engine `heights` (C15), part 5: on a LIGHT node, every height seen since the last restart that
equals the controller height has its instance in the container (so `StartNewInstance` refuses it).
On a full node this is false: `InstanceForHeight` may reload the instance from storage into a temporary object.
-/
import Ssv.Proofs.HeightsSeen

namespace Ssv.Heights

def AtTop (c : Ctrl) : Prop := (find c.insts c.height).isSome = true

/-- light node: seen heights at the controller height are in the container -/
def SeenTop (s : State) (seen : List Nat) : Prop :=
  s.c.full = false ∧ ∀ h ∈ seen, h = s.c.height → AtTop s.c

theorem start_atTop {c c' : Ctrl} {h : Nat} (top : TopOk c.height c.insts) (hs : startNewInstance c h = .ok c') :
    AtTop c' := by
  obtain ⟨hle, hnone, hh, _, hins⟩ := startNewInstance_ok hs
  have hlt : ∀ x ∈ c.insts, x.height < (newInst h).height := by
    intro x hx
    have h1 := top.le x hx
    have h2 := (find_none_iff.mp hnone) x hx
    show x.height < h
    omega
  unfold AtTop
  rw [hins, hh, addNew_of_lt hlt]
  simp [find_cons, newInst]

theorem compact_find_isSome {c : Ctrl} {x : Nat} (h : Nat) (hx : (find c.insts x).isSome = true) :
    (find (compactAt c h).insts x).isSome = true := by
  unfold compactAt
  cases hf : find c.insts h with
  | none => simpa [hf] using hx
  | some i =>
    simp only
    by_cases hxh : x = h
    · subst hxh
      rw [find_replaceInst_same hf (by rw [trim_height]; exact find_some_height hf)]
      rfl
    · rw [find_replaceInst_other (by rw [trim_height, find_some_height hf]; omega)]
      exact hx

theorem compact_atTop {c : Ctrl} (h : Nat) (hx : AtTop c) : AtTop (compactAt c h) := by
  unfold AtTop
  rw [compactAt_height]
  exact compact_find_isSome h hx

theorem compactAt_full (c : Ctrl) (h : Nat) : (compactAt c h).full = c.full := by
  unfold compactAt; split <;> rfl

theorem instanceForHeight_light {c : Ctrl} {st : Store} {h : Nat} (hl : c.full = false) (hf : find c.insts h = none) :
    instanceForHeight c st h = none := by
  simp [instanceForHeight, hf, hl]

/-- light node: after a valid decided message at or above the controller height the instance of the (new) height is
    in the container; below it, the instance at the controller height stays -/
theorem uponDecided_atTop_light {c : Ctrl} {st : Store} (top : TopOk c.height c.insts) (hl : c.full = false) (h : Nat) (m : Msg)
    (hyp : c.height ≤ h ∨ AtTop c) : AtTop (uponDecided c st h m).1 := by
  unfold AtTop at hyp ⊢
  have he := uponDecided_eq c st h m
  simp only at he
  rw [he]
  simp only
  cases hf : find c.insts h with
  | some i =>
    have hih := find_some_height hf
    have hle : h ≤ c.height := hih ▸ top.le i (find_some_mem hf)
    have hhe : (if c.height < h then h else c.height) = c.height := by split <;> omega
    rw [hhe]
    rcases decidedBranch_mem (st := st) (m := m) hf with ⟨h1, _, _⟩ | ⟨i', hi', h1, _⟩
    · rw [h1]
      rcases hyp with hyp | hyp
      · have : h = c.height := by omega
        rw [← this, hf]; rfl
      · exact hyp
    · rw [h1]
      by_cases hh : h = c.height
      · rw [← hh, find_replaceInst_same hf hi']; rfl
      · rw [find_replaceInst_other (by omega)]
        rcases hyp with hyp | hyp
        · omega
        · exact hyp
  | none =>
    have hbr : (decidedBranch c st h m).1 = addNew c.insts ⟨h, m.round, true, false, [m]⟩ := by
      unfold decidedBranch
      rw [instanceForHeight_light hl hf]
    rw [hbr]
    have hne := find_none_iff.mp hf
    by_cases hge : c.height ≤ h
    · have hall : ∀ x ∈ c.insts, x.height < (⟨h, m.round, true, false, [m]⟩ : Inst).height := by
        intro x hx
        have h1 := top.le x hx
        have h2 := hne x hx
        show x.height < h
        omega
      have hhe : (if c.height < h then h else c.height) = h := by split <;> omega
      rw [hhe, addNew_of_lt hall]
      simp [find_cons]
    · have hhe : (if c.height < h then h else c.height) = c.height := by split <;> omega
      rw [hhe]
      rcases hyp with hyp | hyp
      · omega
      · cases hf0 : find c.insts c.height with
        | none => rw [hf0] at hyp; cases hyp
        | some i0 =>
          obtain ⟨rest, hl0⟩ := top.find_head hf0
          have hi0 := find_some_height hf0
          rw [hl0, addNew_cons_ge (by show ¬ i0.height < h; omega), find_cons]
          simp [hi0]

theorem uponDecided_full (c : Ctrl) (st : Store) (h : Nat) (m : Msg) : (uponDecided c st h m).1.full = c.full := rfl

theorem processMsg_full (q : Nat) (c : Ctrl) (st : Store) (h : Nat) (m : Msg) (ok : Bool) :
    (processMsg q c st h m ok).1.full = c.full := by
  rcases processMsg_cases q c st h m ok with he | ⟨_, _, he⟩ <;> rw [he]
  rfl

theorem SeenTop.step {s : State} {seen : List Nat} (inv : SInv s) (hle : SeenLe s seen) (hs : SeenTop s seen) (op : Op)
    (hop : ∀ f, op = .restart f → f = false) : SeenTop (Heights.step s op).1 (seenStep s seen op) := by
  unfold SInv at inv
  obtain ⟨hlight, htop⟩ := hs
  cases op with
  | restart f =>
    have hf := hop f rfl
    subst hf
    rw [SeenTop, step_restart_c]
    unfold seenStep
    simp only
    cases ha : s.s.highest with
    | none =>
      rw [(loadHighest_none ha).1]
      exact ⟨rfl, by intro h hh; simp at hh⟩
    | some a =>
      obtain ⟨h1, h2, h3, _⟩ := loadHighest_some (c := newCtrl false) ha
      refine ⟨by rw [h3]; rfl, ?_⟩
      intro h _ _
      unfold AtTop
      rw [h1, h2, find_cons]
      simp [trim_height]
  | compact h =>
    refine ⟨by show (compactAt s.c h).full = false; rw [compactAt_full]; exact hlight, ?_⟩
    intro x hx hxe
    unfold seenStep learns consensusStart at hx
    simp only [Option.toList, List.append_nil] at hx
    show AtTop (compactAt s.c h)
    have hxe' : x = (compactAt s.c h).height := hxe
    rw [compactAt_height] at hxe'
    exact compact_atTop h (htop x hx hxe')
  | decided h r root sg ok via =>
    have hfull : (Heights.step s (.decided h r root sg ok via)).1.c.full = false := by
      rcases step_decided_c s h r root sg ok via with hc | hc
      · rw [hc, processMsg_full]; exact hlight
      · rw [hc, compactAt_full, processMsg_full]; exact hlight
    refine ⟨hfull, ?_⟩
    intro x hx hxe
    -- the controller after ProcessMsg is AtTop in the relevant cases; compaction keeps that
    suffices hp : x = (processMsg s.q s.c s.s h ⟨r, root, sg⟩ ok).1.height → AtTop (processMsg s.q s.c s.s h ⟨r, root, sg⟩ ok).1 by
      rcases step_decided_c s h r root sg ok via with hc | hc
      · rw [hc] at hxe ⊢; exact hp hxe
      · rw [hc] at hxe ⊢
        rw [compactAt_height] at hxe
        exact compact_atTop h (hp hxe)
    intro hxe
    unfold seenStep at hx
    simp only [List.mem_append] at hx
    rcases processMsg_cases s.q s.c s.s h ⟨r, root, sg⟩ ok with he | ⟨hok, hq, he⟩
    · rw [he] at hxe ⊢
      rcases hx with hx | hx
      · exact htop x hx hxe
      · unfold learns at hx
        simp only at hx
        -- an invalid / sub-quorum message teaches nothing
        have : (ok && decide (s.q ≤ sg.length)) = false := by
          unfold processMsg at he
          cases ok
          · rfl
          · by_cases hq : sg.length < s.q
            · simp; omega
            · -- then processMsg = uponDecided, whose outcome is never `.err`
              simp [hq] at he
              have := congrArg (fun p => p.2.2) he
              simp only [uponDecided_out] at this
              split at this <;> cases this
        simp [this] at hx
    · rw [he] at hxe ⊢
      apply uponDecided_atTop_light inv.top hlight
      rcases hx with hx | hx
      · have h1 := hle x hx
        have h2 := (uponDecided_height_ge s.c s.s h ⟨r, root, sg⟩)
        by_cases hch : s.c.height ≤ h
        · exact Or.inl hch
        · right
          have : (uponDecided s.c s.s h ⟨r, root, sg⟩).1.height = s.c.height := by
            have he2 := uponDecided_eq s.c s.s h ⟨r, root, sg⟩
            simp only at he2
            rw [he2]
            simp only
            split <;> omega
          exact htop x hx (by omega)
      · unfold learns at hx
        simp only [hok, hq, decide_true, Bool.and_self, if_true, List.mem_singleton] at hx
        subst hx
        left
        have := (uponDecided_height_ge s.c s.s x ⟨r, root, sg⟩).2
        omega
  | decidedSF h r root sg ok via =>
    have hfull : (Heights.step s (.decidedSF h r root sg ok via)).1.c.full = false := by
      rcases step_decidedSF_c s h r root sg ok via with hc | hc
      · rw [hc, processMsg_full]; exact hlight
      · rw [hc, compactAt_full, processMsg_full]; exact hlight
    refine ⟨hfull, ?_⟩
    intro x hx hxe
    -- the controller after ProcessMsg is AtTop in the relevant cases; compaction keeps that
    suffices hp : x = (processMsg s.q s.c s.s h ⟨r, root, sg⟩ ok).1.height → AtTop (processMsg s.q s.c s.s h ⟨r, root, sg⟩ ok).1 by
      rcases step_decidedSF_c s h r root sg ok via with hc | hc
      · rw [hc] at hxe ⊢; exact hp hxe
      · rw [hc] at hxe ⊢
        rw [compactAt_height] at hxe
        exact compact_atTop h (hp hxe)
    intro hxe
    unfold seenStep at hx
    simp only [List.mem_append] at hx
    rcases processMsg_cases s.q s.c s.s h ⟨r, root, sg⟩ ok with he | ⟨hok, hq, he⟩
    · rw [he] at hxe ⊢
      rcases hx with hx | hx
      · exact htop x hx hxe
      · unfold learns at hx
        simp only at hx
        -- an invalid / sub-quorum message teaches nothing
        have : (ok && decide (s.q ≤ sg.length)) = false := by
          unfold processMsg at he
          cases ok
          · rfl
          · by_cases hq : sg.length < s.q
            · simp; omega
            · -- then processMsg = uponDecided, whose outcome is never `.err`
              simp [hq] at he
              have := congrArg (fun p => p.2.2) he
              simp only [uponDecided_out] at this
              split at this <;> cases this
        simp [this] at hx
    · rw [he] at hxe ⊢
      apply uponDecided_atTop_light inv.top hlight
      rcases hx with hx | hx
      · have h1 := hle x hx
        have h2 := (uponDecided_height_ge s.c s.s h ⟨r, root, sg⟩)
        by_cases hch : s.c.height ≤ h
        · exact Or.inl hch
        · right
          have : (uponDecided s.c s.s h ⟨r, root, sg⟩).1.height = s.c.height := by
            have he2 := uponDecided_eq s.c s.s h ⟨r, root, sg⟩
            simp only at he2
            rw [he2]
            simp only
            split <;> omega
          exact htop x hx (by omega)
      · unfold learns at hx
        simp only [hok, hq, decide_true, Bool.and_self, if_true, List.mem_singleton] at hx
        subst hx
        left
        have := (uponDecided_height_ge s.c s.s x ⟨r, root, sg⟩).2
        omega
  | commits root vc =>
    show SeenTop (commitsStep s root vc).1 _
    rcases commitsStep_cases s root vc with ⟨h0, _⟩ | ⟨rh, i, _, hf, _, _, hc, _⟩
    · rw [h0]
      refine ⟨hlight, ?_⟩
      intro x hx hxe
      unfold seenStep learns consensusStart at hx
      simp only [Option.toList, List.append_nil] at hx
      exact htop x hx hxe
    · rw [SeenTop, hc]
      refine ⟨hlight, ?_⟩
      intro x hx hxe
      unfold seenStep learns consensusStart at hx
      simp only [Option.toList, List.append_nil] at hx
      have hat := htop x hx hxe
      unfold AtTop at hat ⊢
      show (find (replaceInst { i with decided := true, commits := singles s.q root } s.c.insts) s.c.height).isSome = true
      by_cases hh : rh = s.c.height
      · have hih : i.height = rh := find_some_height hf
        rw [← hh, find_replaceInst_same (i' := { i with decided := true, commits := singles s.q root }) hf hih]
        rfl
      · have hih : i.height = rh := find_some_height hf
        rw [find_replaceInst_other (by show i.height ≠ s.c.height; omega)]
        exact hat
  | start slot =>
    rcases startish_cases s (.start slot) (Or.inl ⟨slot, rfl⟩) with ⟨hn, hc⟩ | ⟨sl, c', hcs, hst, hc⟩
    · rw [SeenTop, hc]
      refine ⟨hlight, ?_⟩
      intro x hx hxe
      unfold seenStep learns at hx
      simp only [hn, Option.toList, List.append_nil] at hx
      exact htop x hx hxe
    · rw [SeenTop, hc]
      exact ⟨by rw [(startNewInstance_ok hst).2.2.2.1]; exact hlight, fun _ _ _ => start_atTop inv.top hst⟩
  | begin slot =>
    rcases startish_cases s (.begin slot) (Or.inr (Or.inl ⟨slot, rfl⟩)) with ⟨hn, hc⟩ | ⟨sl, c', hcs, hst, hc⟩
    · rw [SeenTop, hc]
      refine ⟨hlight, ?_⟩
      intro x hx hxe
      unfold seenStep learns at hx
      simp only [hn, Option.toList, List.append_nil] at hx
      exact htop x hx hxe
    · rw [SeenTop, hc]
      exact ⟨by rw [(startNewInstance_ok hst).2.2.2.1]; exact hlight, fun _ _ _ => start_atTop inv.top hst⟩
  | decide =>
    rcases startish_cases s .decide (Or.inr (Or.inr rfl)) with ⟨hn, hc⟩ | ⟨sl, c', hcs, hst, hc⟩
    · rw [SeenTop, hc]
      refine ⟨hlight, ?_⟩
      intro x hx hxe
      unfold seenStep learns at hx
      simp only [hn, Option.toList, List.append_nil] at hx
      exact htop x hx hxe
    · rw [SeenTop, hc]
      exact ⟨by rw [(startNewInstance_ok hst).2.2.2.1]; exact hlight, fun _ _ _ => start_atTop inv.top hst⟩

/-- no restart switches the node to full mode -/
def LightOps (ops : List Op) : Prop := ∀ op ∈ ops, ∀ f, op = .restart f → f = false

theorem SeenTop.runSeen {s : State} {seen : List Nat} (inv : SInv s) (hle : SeenLe s seen) (hs : SeenTop s seen)
    (ops : List Op) (hl : LightOps ops) : SeenTop (Heights.runSeen s seen ops).1 (Heights.runSeen s seen ops).2 := by
  induction ops generalizing s seen with
  | nil => exact hs
  | cons op ops ih =>
    exact ih (inv.step op) (hle.step op) (hs.step inv hle op (hl op (by simp)))
      (fun o ho => hl o (List.mem_cons_of_mem _ ho))

end Ssv.Heights
