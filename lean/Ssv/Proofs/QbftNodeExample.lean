/-
C01 Layer B — concrete reachable states of the 4-operator system (non-vacuity witnesses), evaluated by the kernel.
* `exSys`: operators 1,2,3 correct, operator 4 Byzantine and silent, height 3 (round-1 leader = operator 4). The correct
  operators time out, the round-2 leader (operator 1) collects the round-change quorum and proposes its start value 5,
  everybody prepares and commits, operators 1 and 2 decide 5 — two decisions after a round change.
* `cutSys`: `CutoffRound = 2`; operator 1 accepts a (justified) round-2 proposal of the Byzantine round-2 leader but its
  prepare is refused by `Instance.Broadcast` (round = cut-off): a `P` event without a prepare on the network.
-/
import Ssv.Proofs.QbftNodeSystem
set_option linter.unusedSimpArgs false

namespace Ssv.Qbft.B
open Ssv.Qbft

/-- schedule items: an explicit action, or "deliver the k-th logged broadcast to operator i" -/
inductive Item (P : Params) where
  | act (a : Action P)
  | fwd (i : Op P) (k : Nat)

def runItems {P : Params} (σ : Sys P) : List (Item P) → Option (Sys P)
  | [] => some σ
  | .act a :: rest => if enabled σ a then runItems (step σ a) rest else none
  | .fwd i k :: rest =>
    match σ.log[k]? with
    | some m => if enabled σ (.deliver i m) then runItems (step σ (.deliver i m)) rest else none
    | none => none

theorem reachable_runItems {P : Params} {σ σ' : Sys P} (l : List (Item P)) (h : Reachable σ)
    (hr : runItems σ l = some σ') : Reachable σ' := by
  induction l generalizing σ with
  | nil => simp only [runItems, Option.some.injEq] at hr; exact hr ▸ h
  | cons it rest ih =>
    cases it with
    | act a =>
      simp only [runItems] at hr
      cases he : enabled σ a with
      | false => simp [he] at hr
      | true => rw [he] at hr; exact ih (Reachable.step a h he) hr
    | fwd i k =>
      simp only [runItems] at hr
      cases hm : σ.log[k]? with
      | none => simp [hm] at hr
      | some m =>
        simp only [hm] at hr
        cases he : enabled σ (.deliver i m) with
        | false => simp [he] at hr
        | true => rw [he] at hr; exact ih (Reachable.step _ h he) hr

/-! ### two decisions after a round change -/

def exP : Params := { f := 1, height := 3, cutoff := 15, valCheck := fun _ => true, byz := [3] }

theorem exP_valid : exP.Valid := ⟨by decide, by decide⟩

def exSched : List (Item exP) :=
  [.act (.start 0 5), .act (.start 1 6), .act (.start 2 7),
   .act (.timeout 0 1), .act (.timeout 1 1), .act (.timeout 2 1),
   .fwd 0 0, .fwd 0 1, .fwd 0 2,
   .fwd 0 3, .fwd 1 3, .fwd 2 3,
   .fwd 0 4, .fwd 0 5, .fwd 0 6, .fwd 1 4, .fwd 1 5, .fwd 1 6, .fwd 2 4, .fwd 2 5, .fwd 2 6,
   .fwd 0 7, .fwd 0 8, .fwd 0 9, .fwd 1 7, .fwd 1 8, .fwd 1 9]

theorem ex_isSome : (runItems (Sys.init exP) exSched).isSome = true := by decide +kernel

def exSys : Sys exP := (runItems (Sys.init exP) exSched).get ex_isSome

theorem ex_reachable : Reachable exSys :=
  reachable_runItems exSched Reachable.init (by simp [exSys])

theorem ex_trace : exSys.trace =
    [.RC 0 2 0 1, .RC 1 2 0 1, .RC 2 2 0 1, .P 0 2 5, .P 1 2 5, .P 2 2 5, .K 0 2 5, .K 1 2 5, .K 2 2 5,
     .D 0 2 5, .D 1 2 5] := by decide +kernel

theorem ex_states :
    (instAt exP.height (exSys.ctrl 0)).map (fun s => (s.decided, s.decidedValue, s.round)) = some (true, 5, 2) ∧
    (instAt exP.height (exSys.ctrl 1)).map (fun s => (s.decided, s.decidedValue, s.round)) = some (true, 5, 2) := by
  decide +kernel

/-! ### an accepted proposal whose prepare is refused at the cut-off round -/

def cutP : Params := { f := 1, height := 2, cutoff := 2, valCheck := fun _ => true, byz := [3] }

def cutRc (s : Nat) : Lvl1 :=
  { type := tRoundChange, height := 2, round := 2, ident := 1, root := 1, dataRound := 0, signers := [s], sigOk := true,
    malformed := false, mid := 0, just := [] }

/-- round-2 proposal of the Byzantine round-2 leader (operator 4), justified by the round-changes of operators 2, 3, 4 -/
def cutProposal : Msg :=
  { type := tProposal, height := 2, round := 2, ident := 1, root := 9, dataRound := 0, signers := [4], sigOk := true,
    malformed := false, mid := 0, rcJust := [cutRc 2, cutRc 3, cutRc 4], prepJust := [], fullData := 9 }

def cutSched : List (Item cutP) :=
  [.act (.start 0 5), .act (.start 1 6), .act (.start 2 7), .act (.timeout 1 1), .act (.timeout 2 1),
   .act (.deliver 0 cutProposal)]

theorem cut_isSome : (runItems (Sys.init cutP) cutSched).isSome = true := by decide +kernel

def cutSys : Sys cutP := (runItems (Sys.init cutP) cutSched).get cut_isSome

theorem cut_reachable : Reachable cutSys :=
  reachable_runItems cutSched Reachable.init (by simp [cutSys])

theorem cut_facts :
    cutSys.trace = [.RC 1 2 0 1, .RC 2 2 0 1, .P 0 2 9] ∧ cutSys.log.all (fun m => m.type != tPrepare) = true := by
  decide +kernel

end Ssv.Qbft.B
