/- Round trips decode ∘ encode for the SSZ model (C08): the accepting paths of the decoders are reachable for every well-formed message. -/
import Ssv.Proofs.Ssz
namespace Ssv.Ssz
@[simp] theorem leBytes_length (k n : Nat) : (leBytes k n).length = k := by
  induction k generalizing n with
  | zero => rfl
  | succ k ih => simp [leBytes, ih]

theorem leVal_leBytes (k n : Nat) (h : n < 256 ^ k) : leVal (leBytes k n) = n := by
  induction k generalizing n with
  | zero => simp at h; subst h; rfl
  | succ k ih =>
    simp only [leBytes, leVal]
    rw [ih (n / 256) (by rw [Nat.pow_succ] at h; omega)]
    omega

theorem slice_mid (p s q : List Nat) (lo hi : Nat) (hlo : lo = p.length) (hhi : hi = p.length + s.length) :
    slice (p ++ (s ++ q)) lo hi = .ok s := by
  subst hlo hhi
  simp [slice]

theorem sliceFrom_end (p s : List Nat) (lo : Nat) (hlo : lo = p.length) : sliceFrom (p ++ s) lo = .ok s := by
  subst hlo; simp [sliceFrom]

theorem readU64_leBytes (n : Nat) (h : n < 2 ^ 64) : readU64 (leBytes 8 n) = .ok n := by
  simp [readU64]
  rw [List.take_of_length_le (by simp)]
  exact leVal_leBytes 8 n (by simpa using h)

theorem readOffset_leBytes (n : Nat) (h : n < 2 ^ 32) : readOffset (leBytes 4 n) = .ok n := by
  simp [readOffset]
  rw [List.take_of_length_le (by simp)]
  exact leVal_leBytes 4 n (by simpa using h)

structure PSig.WF (m : PSig) : Prop where
  sig : m.partialSignature.length = 96
  root : m.signingRoot.length = 32
  signer : m.signer < 2 ^ 64

theorem encodePSig_length {m : PSig} (h : m.WF) : (encodePSig m).length = psigSize := by
  simp [encodePSig, h.sig, h.root, psigSize]

theorem decode_encodePSig {m : PSig} (h : m.WF) : decodePSig (encodePSig m) = .ok m := by
  unfold decodePSig
  rw [if_neg (by simp [encodePSig_length h])]
  unfold encodePSig
  simp only [bind_eq]
  have e1 : slice (m.partialSignature ++ m.signingRoot ++ leBytes 8 m.signer) 0 96 = .ok m.partialSignature := by
    have := slice_mid [] m.partialSignature (m.signingRoot ++ leBytes 8 m.signer) 0 96 rfl (by simp [h.sig])
    simpa [List.append_assoc] using this
  have e2 : slice (m.partialSignature ++ m.signingRoot ++ leBytes 8 m.signer) 96 128 = .ok m.signingRoot := by
    have := slice_mid m.partialSignature m.signingRoot (leBytes 8 m.signer) 96 128 (by simp [h.sig]) (by simp [h.sig, h.root])
    simpa [List.append_assoc] using this
  have e3 : slice (m.partialSignature ++ m.signingRoot ++ leBytes 8 m.signer) 128 136 = .ok (leBytes 8 m.signer) := by
    have := slice_mid (m.partialSignature ++ m.signingRoot) (leBytes 8 m.signer) [] 128 136 (by simp [h.sig, h.root]) (by simp [h.sig, h.root])
    simpa [List.append_assoc] using this
  rw [e1, e2, e3]
  simp only [Res.bind, readU64_leBytes _ h.signer]

theorem flatten_enc_length (l : List PSig) (h : ∀ x ∈ l, x.WF) : (l.map encodePSig).flatten.length = l.length * psigSize := by
  induction l with
  | nil => simp
  | cons x r ih =>
    simp only [List.map_cons, List.flatten_cons, List.length_append, List.length_cons]
    rw [ih (fun y hy => h y (by simp [hy])), encodePSig_length (h x (by simp))]
    simp [Nat.add_mul]; omega

theorem readPSigs_flatten (l : List PSig) : ∀ (pre : List PSig), (∀ x ∈ pre, x.WF) → (∀ x ∈ l, x.WF) →
    readPSigs ((pre.map encodePSig).flatten ++ (l.map encodePSig).flatten) pre.length l.length = .ok l := by
  induction l with
  | nil => intro _ _ _; simp [readPSigs]
  | cons x r ih =>
    intro pre hpre hl
    have hx := hl x (by simp)
    simp only [List.length_cons, readPSigs, bind_eq, List.map_cons, List.flatten_cons]
    rw [slice_mid _ (encodePSig x) _ _ _ (by rw [flatten_enc_length pre hpre])
        (by rw [flatten_enc_length pre hpre, encodePSig_length hx]; simp [Nat.add_mul])]
    have := ih (pre ++ [x]) (by intro y hy; simp at hy; rcases hy with hy | hy; exact hpre y hy; subst hy; exact hx)
      (fun y hy => hl y (by simp [hy]))
    simp only [List.map_append, List.flatten_append, List.map_cons, List.map_nil, List.flatten_cons, List.flatten_nil,
      List.append_nil, List.length_append, List.length_cons, List.length_nil, List.append_assoc] at this
    simp only [Res.bind, decode_encodePSig hx, this]

structure PSigs.WF (m : PSigs) : Prop where
  type : m.type < 2 ^ 64
  slot : m.slot < 2 ^ 64
  count : m.messages.length ≤ maxPSigs
  each : ∀ x ∈ m.messages, x.WF

theorem decode_encodePSigs {m : PSigs} (h : m.WF) : decodePSigs (encodePSigs m) = .ok m := by
  unfold decodePSigs encodePSigs
  have hf := flatten_enc_length m.messages h.each
  have hlen : (leBytes 8 m.type ++ leBytes 8 m.slot ++ leBytes 4 psigsFixed ++ (m.messages.map encodePSig).flatten).length
      = 20 + m.messages.length * psigSize := by simp [hf]; omega
  simp only [hlen, bind_eq]
  rw [if_neg (by simp [psigsFixed])]
  generalize hF : (m.messages.map encodePSig).flatten = F at *
  have e1 : slice (leBytes 8 m.type ++ leBytes 8 m.slot ++ leBytes 4 psigsFixed ++ F) 0 8 = .ok (leBytes 8 m.type) := by
    have := slice_mid [] (leBytes 8 m.type) (leBytes 8 m.slot ++ leBytes 4 psigsFixed ++ F) 0 8 rfl (by simp)
    simpa [List.append_assoc] using this
  have e2 : slice (leBytes 8 m.type ++ leBytes 8 m.slot ++ leBytes 4 psigsFixed ++ F) 8 16 = .ok (leBytes 8 m.slot) := by
    have := slice_mid (leBytes 8 m.type) (leBytes 8 m.slot) (leBytes 4 psigsFixed ++ F) 8 16 (by simp) (by simp)
    simpa [List.append_assoc] using this
  have e3 : slice (leBytes 8 m.type ++ leBytes 8 m.slot ++ leBytes 4 psigsFixed ++ F) 16 20 = .ok (leBytes 4 psigsFixed) := by
    have := slice_mid (leBytes 8 m.type ++ leBytes 8 m.slot) (leBytes 4 psigsFixed) F 16 20 (by simp) (by simp)
    simpa [List.append_assoc] using this
  have e4 : sliceFrom (leBytes 8 m.type ++ leBytes 8 m.slot ++ leBytes 4 psigsFixed ++ F) psigsFixed = .ok F := by
    have := sliceFrom_end (leBytes 8 m.type ++ leBytes 8 m.slot ++ leBytes 4 psigsFixed) F psigsFixed (by simp [psigsFixed])
    simpa [List.append_assoc] using this
  rw [e1, e2, e3]
  simp only [Res.bind, readU64_leBytes _ h.type, readU64_leBytes _ h.slot, readOffset_leBytes psigsFixed (by simp [psigsFixed]), e4]
  rw [if_neg (by simp [psigsFixed]), if_neg (by simp), hf]
  have hp : 0 < psigSize := by simp [psigSize]
  rw [if_neg (by simp), Nat.mul_div_cancel _ hp, if_neg (by have := h.count; omega)]
  have := readPSigs_flatten m.messages [] (by simp) h.each
  simp only [List.map_nil, List.flatten_nil, List.nil_append, List.length_nil, hF] at this
  rw [this]

theorem decode_encodeSSV (m : SSVMessage) (hid : m.msgID.length = 56) (ht : m.msgType < 2 ^ 64)
    (hd : m.data.length ≤ ssvMaxData) : decodeSSV (encodeSSV m) = .ok m := by
  unfold decodeSSV encodeSSV
  have hlen : (leBytes 8 m.msgType ++ m.msgID ++ leBytes 4 ssvFixed ++ m.data).length = 68 + m.data.length := by
    simp [hid]; omega
  simp only [hlen, bind_eq]
  rw [if_neg (by simp [ssvFixed])]
  have e1 : slice (leBytes 8 m.msgType ++ m.msgID ++ leBytes 4 ssvFixed ++ m.data) 0 8 = .ok (leBytes 8 m.msgType) := by
    have := slice_mid [] (leBytes 8 m.msgType) (m.msgID ++ leBytes 4 ssvFixed ++ m.data) 0 8 rfl (by simp)
    simpa [List.append_assoc] using this
  have e2 : slice (leBytes 8 m.msgType ++ m.msgID ++ leBytes 4 ssvFixed ++ m.data) 8 64 = .ok m.msgID := by
    have := slice_mid (leBytes 8 m.msgType) m.msgID (leBytes 4 ssvFixed ++ m.data) 8 64 (by simp) (by simp [hid])
    simpa [List.append_assoc] using this
  have e3 : slice (leBytes 8 m.msgType ++ m.msgID ++ leBytes 4 ssvFixed ++ m.data) 64 68 = .ok (leBytes 4 ssvFixed) := by
    have := slice_mid (leBytes 8 m.msgType ++ m.msgID) (leBytes 4 ssvFixed) m.data 64 68 (by simp [hid]) (by simp [hid])
    simpa [List.append_assoc] using this
  have e4 : sliceFrom (leBytes 8 m.msgType ++ m.msgID ++ leBytes 4 ssvFixed ++ m.data) ssvFixed = .ok m.data := by
    have := sliceFrom_end (leBytes 8 m.msgType ++ m.msgID ++ leBytes 4 ssvFixed) m.data ssvFixed (by simp [hid, ssvFixed])
    simpa [List.append_assoc] using this
  rw [e1, e2, e3]
  simp only [Res.bind, readU64_leBytes _ ht, readOffset_leBytes ssvFixed (by simp [ssvFixed]), e4]
  rw [if_neg (by simp [ssvFixed]), if_neg (by simp), if_neg (by omega)]


structure SPSig.WF (m : SPSig) : Prop where
  sig : m.signature.length = 96
  signer : m.signer < 2 ^ 64
  message : m.message.WF

theorem decode_encodeSPSig {m : SPSig} (h : m.WF) : decodeSPSig (encodeSPSig m) = .ok m := by
  unfold decodeSPSig encodeSPSig
  generalize hE : encodePSigs m.message = E
  have hlen : (leBytes 4 spsigFixed ++ m.signature ++ leBytes 8 m.signer ++ E).length = 108 + E.length := by
    simp [h.sig]; omega
  simp only [hlen, bind_eq]
  rw [if_neg (by simp [spsigFixed])]
  have e1 : slice (leBytes 4 spsigFixed ++ m.signature ++ leBytes 8 m.signer ++ E) 0 4 = .ok (leBytes 4 spsigFixed) := by
    have := slice_mid [] (leBytes 4 spsigFixed) (m.signature ++ leBytes 8 m.signer ++ E) 0 4 rfl (by simp)
    simpa [List.append_assoc] using this
  have e2 : slice (leBytes 4 spsigFixed ++ m.signature ++ leBytes 8 m.signer ++ E) 4 100 = .ok m.signature := by
    have := slice_mid (leBytes 4 spsigFixed) m.signature (leBytes 8 m.signer ++ E) 4 100 (by simp) (by simp [h.sig])
    simpa [List.append_assoc] using this
  have e3 : slice (leBytes 4 spsigFixed ++ m.signature ++ leBytes 8 m.signer ++ E) 100 108 = .ok (leBytes 8 m.signer) := by
    have := slice_mid (leBytes 4 spsigFixed ++ m.signature) (leBytes 8 m.signer) E 100 108 (by simp [h.sig]) (by simp [h.sig])
    simpa [List.append_assoc] using this
  have e4 : sliceFrom (leBytes 4 spsigFixed ++ m.signature ++ leBytes 8 m.signer ++ E) spsigFixed = .ok E := by
    have := sliceFrom_end (leBytes 4 spsigFixed ++ m.signature ++ leBytes 8 m.signer) E spsigFixed (by simp [spsigFixed, h.sig])
    simpa [List.append_assoc] using this
  rw [e1]
  simp only [Res.bind, readOffset_leBytes spsigFixed (by simp [spsigFixed])]
  rw [if_neg (by simp [spsigFixed]), if_neg (by simp), e2, e3]
  simp only [readU64_leBytes _ h.signer, e4]
  rw [← hE, decode_encodePSigs h.message]

/-! ### dynamic lists of byte lists (the justification lists of `qbft.Message`) -/

@[simp] theorem offTable_length (off : Nat) (l : List (List Nat)) : (offTable off l).length = 4 * l.length := by
  induction l generalizing off with
  | nil => rfl
  | cons x r ih => simp [offTable, ih]; omega

/-- the table entries that follow the entry of the head item -/
def tabTail (offset : Nat) : List (List Nat) → List Nat
  | [] => []
  | x :: r => offTable (offset + x.length) r

theorem readOffset_prefix (n : Nat) (h : n < 2 ^ 32) (t : List Nat) : readOffset (leBytes 4 n ++ t) = .ok n := by
  have h1 : ¬ (leBytes 4 n ++ t).length < 4 := by simp
  simp only [readOffset, h1, if_false]
  rw [List.take_append_of_le_length (by simp), List.take_of_length_le (by simp)]
  exact congrArg _ (leVal_leBytes 4 n (by simpa using h))

theorem dynLoop_enc (src B : List Nat) (M : Nat) :
    ∀ (l : List (List Nat)), l ≠ [] → (∀ x ∈ l, x.length ≤ M) → ∀ offset dst,
      src.drop offset = l.flatten → offset ≤ src.length → offset + l.flatten.length < 2 ^ 32 →
      dst = tabTail offset l ++ B →
      dynLoop src (justItem M) l.length offset dst = .ok l := by
  intro l
  induction l with
  | nil => intro h; exact absurd rfl h
  | cons x r ih =>
    intro _ hM offset dst hdrop hle hlt hdst
    have hx : x.length ≤ M := hM x (by simp)
    have hxs : slice src offset (offset + x.length) = .ok x := by
      have hlen : src.length = offset + (x :: r).flatten.length := by
        have := congrArg List.length hdrop
        simp only [List.length_drop] at this; omega
      have hb : offset ≤ offset + x.length ∧ offset + x.length ≤ src.length := by
        simp only [List.flatten_cons, List.length_append] at hlen; omega
      simp only [slice, hb, and_self, if_true, hdrop, List.flatten_cons]
      simp
    cases r with
    | nil =>
      simp only [List.length_cons, List.length_nil, Nat.zero_add, dynLoop, bind_eq]
      have hend : src.length = offset + x.length := by
        have := congrArg List.length hdrop
        simp only [List.length_drop, List.flatten_cons, List.flatten_nil, List.append_nil] at this; omega
      simp only [ne_eq, not_true_eq_false, if_false, Res.bind]
      rw [if_neg (by omega), if_neg (by omega), hend, hxs]
      simp only [justItem, if_neg (by omega : ¬ x.length > M)]
      rfl
    | cons y r' =>
      have hd : dst = leBytes 4 (offset + x.length) ++ (offTable (offset + x.length + y.length) r' ++ B) := by
        rw [hdst]; simp [tabTail, offTable]
      have hfl : (x :: y :: r').flatten.length = x.length + (y :: r').flatten.length := by simp
      have hro : readOffset dst = .ok (offset + x.length) := by
        rw [hd]; exact readOffset_prefix _ (by omega) _
      have hsf : sliceFrom dst 4 = .ok (offTable (offset + x.length + y.length) r' ++ B) := by
        rw [hd]; exact sliceFrom_end _ _ 4 (by simp)
      have hlen : src.length = offset + (x :: y :: r').flatten.length := by
        have := congrArg List.length hdrop
        simp only [List.length_drop] at this; omega
      have hrec := ih (by simp) (fun z hz => hM z (by simp [hz])) (offset + x.length)
        (offTable (offset + x.length + y.length) r' ++ B)
        (by rw [← List.drop_drop, hdrop]; simp)
        (by omega) (by omega) (by simp [tabTail])
      have hdl : ¬ dst.length < 4 := by rw [hd]; simp
      simp only [List.length_cons] at hrec ⊢
      unfold dynLoop
      simp only [bind_eq, ne_eq, Nat.add_eq_right, Nat.add_eq_zero_iff, Nat.succ_ne_self, and_false, not_false_eq_true,
        if_true, hdl, if_false, hro, hsf, Res.bind]
      rw [if_neg (by omega), if_neg (by omega), hxs]
      simp only [justItem, if_neg (by omega : ¬ x.length > M)]
      rw [hrec]

theorem decodeDynamicLength_enc (items : List (List Nat)) (m : Nat) (hn : items.length ≤ m) (h32 : 4 * items.length < 2 ^ 32) :
    decodeDynamicLength (encodeDyn items) m = .ok items.length := by
  cases items with
  | nil => simp [encodeDyn, offTable, decodeDynamicLength]
  | cons x r =>
    have hlen : (encodeDyn (x :: r)).length = 4 * (r.length + 1) + (x :: r).flatten.length := by simp [encodeDyn]
    have hs : slice (encodeDyn (x :: r)) 0 4 = .ok (leBytes 4 (4 * (r.length + 1))) := by
      have := slice_mid [] (leBytes 4 (4 * (r.length + 1))) (offTable (4 * (r.length + 1) + x.length) r ++ (x :: r).flatten) 0 4 rfl (by simp)
      simpa [encodeDyn, offTable, List.append_assoc] using this
    unfold decodeDynamicLength
    rw [if_neg (by omega), if_neg (by omega)]
    simp only [bind_eq, hs, Res.bind, readOffset_leBytes _ (by simpa using h32)]
    rw [if_neg (by omega), if_neg (by simp only [List.length_cons] at hn; omega)]
    simp

theorem unmarshalDynamic_enc (items : List (List Nat)) (M : Nat) (hM : ∀ x ∈ items, x.length ≤ M)
    (h32 : 4 * items.length + items.flatten.length < 2 ^ 32) :
    unmarshalDynamic (encodeDyn items) items.length (justItem M) = .ok items := by
  cases items with
  | nil => simp [unmarshalDynamic]
  | cons x r =>
    unfold unmarshalDynamic
    rw [if_neg (by simp)]
    have he : encodeDyn (x :: r) = leBytes 4 (4 * (r.length + 1)) ++ (offTable (4 * (r.length + 1) + x.length) r ++ (x :: r).flatten) := by
      simp [encodeDyn, offTable]
    have hro : readOffset (encodeDyn (x :: r)) = .ok (4 * (r.length + 1)) := by
      rw [he]; exact readOffset_prefix _ (by simp only [List.length_cons] at h32; omega) _
    have hsf : sliceFrom (encodeDyn (x :: r)) 4 = .ok (offTable (4 * (r.length + 1) + x.length) r ++ (x :: r).flatten) := by
      rw [he]; exact sliceFrom_end _ _ 4 (by simp)
    simp only [bind_eq, hro, hsf, Res.bind]
    refine dynLoop_enc (encodeDyn (x :: r)) ((x :: r).flatten) M (x :: r) (by simp) hM _ _ ?_ ?_ ?_ ?_
    · simp [encodeDyn]
    · simp [encodeDyn]
    · simp only [List.length_cons] at h32; omega
    · simp [tabTail]

/-! ### the whole `qbft.Message` -/

structure QMsg.WF (m : QMsg) : Prop where
  msgType : m.msgType < 2 ^ 64
  height : m.height < 2 ^ 64
  round : m.round < 2 ^ 64
  dataRound : m.dataRound < 2 ^ 64
  bounded : m.Bounded

theorem flatten_le (l : List (List Nat)) (M : Nat) (h : ∀ x ∈ l, x.length ≤ M) : l.flatten.length ≤ l.length * M := by
  induction l with
  | nil => simp
  | cons x r ih =>
    have := h x (by simp)
    have := ih (fun y hy => h y (by simp [hy]))
    simp only [List.flatten_cons, List.length_append, List.length_cons, Nat.add_mul]; omega

@[simp] theorem encodeDyn_length (l : List (List Nat)) : (encodeDyn l).length = 4 * l.length + l.flatten.length := by
  simp [encodeDyn]

theorem decode_encodeQMsg {m : QMsg} (h : m.WF) : decodeQMsg (encodeQMsg m) = .ok m := by
  obtain ⟨ht, hh, hr, hdr, hid, hroot, hn6, hs6, hn7, hs7⟩ := h
  have hf6 := flatten_le m.rcj 65536 hs6
  have hf7 := flatten_le m.pj 65536 hs7
  simp only [maxIdentifier, maxJustifications, maxJustificationSize] at hid hn6 hn7 hs6 hs7
  have d6 := decodeDynamicLength_enc m.rcj 13 hn6 (by omega)
  have u6 := unmarshalDynamic_enc m.rcj 65536 hs6 (by omega)
  have d7 := decodeDynamicLength_enc m.pj 13 hn7 (by omega)
  have u7 := unmarshalDynamic_enc m.pj 65536 hs7 (by omega)
  have hJ : (encodeDyn m.rcj).length = 4 * m.rcj.length + m.rcj.flatten.length := encodeDyn_length _
  have hK : (encodeDyn m.pj).length = 4 * m.pj.length + m.pj.flatten.length := encodeDyn_length _
  unfold decodeQMsg encodeQMsg
  generalize encodeDyn m.rcj = J at *
  generalize encodeDyn m.pj = K at *
  obtain ⟨t, hgt, r, I, root, dr, rcj, pj⟩ := m
  simp only at *
  have hlen : (leBytes 8 t ++ leBytes 8 hgt ++ leBytes 8 r ++ leBytes 4 qmsgFixed ++ root ++ leBytes 8 dr ++
      leBytes 4 (qmsgFixed + I.length) ++ leBytes 4 (qmsgFixed + I.length + J.length) ++ I ++ J ++ K).length
      = 76 + I.length + J.length + K.length := by simp [hroot, qmsgFixed]; omega
  simp only [hlen, bind_eq]
  rw [if_neg (by simp [qmsgFixed]; omega)]
  generalize hbuf : (leBytes 8 t ++ leBytes 8 hgt ++ leBytes 8 r ++ leBytes 4 qmsgFixed ++ root ++ leBytes 8 dr ++
      leBytes 4 (qmsgFixed + I.length) ++ leBytes 4 (qmsgFixed + I.length + J.length) ++ I ++ J ++ K) = buf
  have e1 : slice buf 0 8 = .ok (leBytes 8 t) := by
    have := slice_mid [] (leBytes 8 t) (leBytes 8 hgt ++ leBytes 8 r ++ leBytes 4 qmsgFixed ++ root ++ leBytes 8 dr ++
      leBytes 4 (qmsgFixed + I.length) ++ leBytes 4 (qmsgFixed + I.length + J.length) ++ I ++ J ++ K) 0 8 rfl (by simp)
    rw [← hbuf]; simpa [List.append_assoc] using this
  have e2 : slice buf 8 16 = .ok (leBytes 8 hgt) := by
    have := slice_mid (leBytes 8 t) (leBytes 8 hgt) (leBytes 8 r ++ leBytes 4 qmsgFixed ++ root ++ leBytes 8 dr ++
      leBytes 4 (qmsgFixed + I.length) ++ leBytes 4 (qmsgFixed + I.length + J.length) ++ I ++ J ++ K) 8 16 (by simp) (by simp)
    rw [← hbuf]; simpa [List.append_assoc] using this
  have e3 : slice buf 16 24 = .ok (leBytes 8 r) := by
    have := slice_mid (leBytes 8 t ++ leBytes 8 hgt) (leBytes 8 r) (leBytes 4 qmsgFixed ++ root ++ leBytes 8 dr ++
      leBytes 4 (qmsgFixed + I.length) ++ leBytes 4 (qmsgFixed + I.length + J.length) ++ I ++ J ++ K) 16 24 (by simp) (by simp)
    rw [← hbuf]; simpa [List.append_assoc] using this
  have e4 : slice buf 24 28 = .ok (leBytes 4 qmsgFixed) := by
    have := slice_mid (leBytes 8 t ++ leBytes 8 hgt ++ leBytes 8 r) (leBytes 4 qmsgFixed) (root ++ leBytes 8 dr ++
      leBytes 4 (qmsgFixed + I.length) ++ leBytes 4 (qmsgFixed + I.length + J.length) ++ I ++ J ++ K) 24 28 (by simp) (by simp)
    rw [← hbuf]; simpa [List.append_assoc] using this
  have e5 : slice buf 28 60 = .ok root := by
    have := slice_mid (leBytes 8 t ++ leBytes 8 hgt ++ leBytes 8 r ++ leBytes 4 qmsgFixed) root (leBytes 8 dr ++
      leBytes 4 (qmsgFixed + I.length) ++ leBytes 4 (qmsgFixed + I.length + J.length) ++ I ++ J ++ K) 28 60 (by simp) (by simp [hroot])
    rw [← hbuf]; simpa [List.append_assoc] using this
  have e6 : slice buf 60 68 = .ok (leBytes 8 dr) := by
    have := slice_mid (leBytes 8 t ++ leBytes 8 hgt ++ leBytes 8 r ++ leBytes 4 qmsgFixed ++ root) (leBytes 8 dr)
      (leBytes 4 (qmsgFixed + I.length) ++ leBytes 4 (qmsgFixed + I.length + J.length) ++ I ++ J ++ K) 60 68 (by simp [hroot]) (by simp [hroot])
    rw [← hbuf]; simpa [List.append_assoc] using this
  have e7 : slice buf 68 72 = .ok (leBytes 4 (qmsgFixed + I.length)) := by
    have := slice_mid (leBytes 8 t ++ leBytes 8 hgt ++ leBytes 8 r ++ leBytes 4 qmsgFixed ++ root ++ leBytes 8 dr)
      (leBytes 4 (qmsgFixed + I.length)) (leBytes 4 (qmsgFixed + I.length + J.length) ++ I ++ J ++ K) 68 72 (by simp [hroot]) (by simp [hroot])
    rw [← hbuf]; simpa [List.append_assoc] using this
  have e8 : slice buf 72 76 = .ok (leBytes 4 (qmsgFixed + I.length + J.length)) := by
    have := slice_mid (leBytes 8 t ++ leBytes 8 hgt ++ leBytes 8 r ++ leBytes 4 qmsgFixed ++ root ++ leBytes 8 dr ++
      leBytes 4 (qmsgFixed + I.length)) (leBytes 4 (qmsgFixed + I.length + J.length)) (I ++ J ++ K) 72 76 (by simp [hroot]) (by simp [hroot])
    rw [← hbuf]; simpa [List.append_assoc] using this
  have e9 : slice buf (qmsgFixed + I.length - I.length) (qmsgFixed + I.length) = .ok I := by
    have := slice_mid (leBytes 8 t ++ leBytes 8 hgt ++ leBytes 8 r ++ leBytes 4 qmsgFixed ++ root ++ leBytes 8 dr ++
      leBytes 4 (qmsgFixed + I.length) ++ leBytes 4 (qmsgFixed + I.length + J.length)) I (J ++ K) (qmsgFixed + I.length - I.length) (qmsgFixed + I.length)
      (by simp [hroot, qmsgFixed]) (by simp [hroot, qmsgFixed])
    rw [← hbuf]; simpa [List.append_assoc] using this
  have e10 : slice buf (qmsgFixed + I.length) (qmsgFixed + I.length + J.length) = .ok J := by
    have := slice_mid (leBytes 8 t ++ leBytes 8 hgt ++ leBytes 8 r ++ leBytes 4 qmsgFixed ++ root ++ leBytes 8 dr ++
      leBytes 4 (qmsgFixed + I.length) ++ leBytes 4 (qmsgFixed + I.length + J.length) ++ I) J K (qmsgFixed + I.length) (qmsgFixed + I.length + J.length)
      (by simp [hroot, qmsgFixed]; omega) (by simp [hroot, qmsgFixed]; omega)
    rw [← hbuf]; simpa [List.append_assoc] using this
  have e11 : sliceFrom buf (qmsgFixed + I.length + J.length) = .ok K := by
    have := sliceFrom_end (leBytes 8 t ++ leBytes 8 hgt ++ leBytes 8 r ++ leBytes 4 qmsgFixed ++ root ++ leBytes 8 dr ++
      leBytes 4 (qmsgFixed + I.length) ++ leBytes 4 (qmsgFixed + I.length + J.length) ++ I ++ J) K (qmsgFixed + I.length + J.length)
      (by simp [hroot, qmsgFixed]; omega)
    rw [← hbuf]; simpa [List.append_assoc] using this
  have e9' : slice buf qmsgFixed (qmsgFixed + I.length) = .ok I := by simpa using e9
  have h32a : qmsgFixed + I.length < 2 ^ 32 := by simp [qmsgFixed]; omega
  have h32b : qmsgFixed + I.length + J.length < 2 ^ 32 := by simp [qmsgFixed]; omega
  rw [e1, e2, e3, e4]
  simp only [Res.bind, readU64_leBytes _ ht, readU64_leBytes _ hh, readU64_leBytes _ hr, readOffset_leBytes qmsgFixed (by simp [qmsgFixed])]
  rw [if_neg (by simp [qmsgFixed]; omega), if_neg (by simp [qmsgFixed]), e5, e6]
  simp only [readU64_leBytes _ hdr, e7, readOffset_leBytes _ h32a]
  rw [if_neg (by simp [qmsgFixed]; omega), e8]
  simp only [readOffset_leBytes _ h32b]
  rw [if_neg (by simp [qmsgFixed]), e9']
  simp only []
  rw [if_neg (by simp [maxIdentifier]; omega), e10]
  simp only [maxJustifications, maxJustificationSize, d6, u6, e11, d7, u7]

/-! ### the outer `qbft.SignedMessage` -/

structure SignedMsg.WF (m : SignedMsg) : Prop where
  sig : m.signature.length = 96
  count : m.signers.length ≤ maxSigners
  each : ∀ s ∈ m.signers, s < 2 ^ 64
  message : m.message.WF
  fullData : m.fullData.length ≤ maxFullData

theorem u64s_length (l : List Nat) : (l.map (leBytes 8)).flatten.length = 8 * l.length := by
  induction l with
  | nil => rfl
  | cons x r ih => simp [ih]; omega

theorem readU64s_enc (l : List Nat) : ∀ (pre : List Nat), (∀ x ∈ l, x < 2 ^ 64) →
    ∀ (tail : List Nat), readU64s ((pre.map (leBytes 8)).flatten ++ ((l.map (leBytes 8)).flatten ++ tail)) pre.length l.length = .ok l := by
  induction l with
  | nil => intro _ _ _; simp [readU64s]
  | cons x r ih =>
    intro pre hl tail
    have hx := hl x (by simp)
    simp only [List.length_cons, readU64s, bind_eq, List.map_cons, List.flatten_cons, List.append_assoc]
    rw [slice_mid _ (leBytes 8 x) _ _ _ (by have := u64s_length pre; omega) (by have := u64s_length pre; simp only [leBytes_length]; omega)]
    have := ih (pre ++ [x]) (fun y hy => hl y (by simp [hy])) tail
    simp only [List.map_append, List.flatten_append, List.map_cons, List.map_nil, List.flatten_cons, List.flatten_nil,
      List.append_nil, List.length_append, List.length_cons, List.length_nil, List.append_assoc] at this
    simp only [Res.bind, readU64_leBytes _ hx, this]

theorem encodeQMsg_length (m : QMsg) (hroot : m.root.length = 32) :
    (encodeQMsg m).length = 76 + m.identifier.length + (encodeDyn m.rcj).length + (encodeDyn m.pj).length := by
  simp only [encodeQMsg, List.length_append, leBytes_length, hroot] <;> omega

theorem decode_encodeSigned {m : SignedMsg} (h : m.WF) : decodeSigned (encodeSigned m) = .ok m := by
  obtain ⟨hsig, hcount, heach, hmsg, hfd⟩ := h
  have hq := decode_encodeQMsg hmsg
  have hb := hmsg.bounded
  have hqlen := encodeQMsg_length m.message hb.root
  have hf6 := flatten_le m.message.rcj 65536 hb.rcjSize
  have hf7 := flatten_le m.message.pj 65536 hb.pjSize
  have h1 := hb.identifier; have h2 := hb.rcjCount; have h3 := hb.pjCount
  simp only [maxIdentifier, maxJustifications, maxSigners, maxFullData, encodeDyn_length] at *
  have hS := u64s_length m.signers
  have hrd := readU64s_enc m.signers [] heach (encodeQMsg m.message ++ m.fullData)
  simp only [List.map_nil, List.flatten_nil, List.nil_append, List.length_nil] at hrd
  unfold decodeSigned encodeSigned
  generalize encodeQMsg m.message = Q at *
  generalize hSdef : (m.signers.map (leBytes 8)).flatten = S at *
  obtain ⟨sg, signers, msg, fd⟩ := m
  simp only at *
  have hlen : (sg ++ leBytes 4 signedFixed ++ leBytes 4 (signedFixed + 8 * signers.length) ++
      leBytes 4 (signedFixed + 8 * signers.length + Q.length) ++ S ++ Q ++ fd).length = 108 + S.length + Q.length + fd.length := by
    simp [hsig, signedFixed]; omega
  simp only [hlen, bind_eq]
  rw [if_neg (by simp [signedFixed]; omega)]
  generalize hbuf : (sg ++ leBytes 4 signedFixed ++ leBytes 4 (signedFixed + 8 * signers.length) ++
      leBytes 4 (signedFixed + 8 * signers.length + Q.length) ++ S ++ Q ++ fd) = buf
  have e1 : slice buf 0 96 = .ok sg := by
    have := slice_mid [] sg (leBytes 4 signedFixed ++ leBytes 4 (signedFixed + 8 * signers.length) ++
      leBytes 4 (signedFixed + 8 * signers.length + Q.length) ++ S ++ Q ++ fd) 0 96 rfl (by simp [hsig])
    rw [← hbuf]; simpa [List.append_assoc] using this
  have e2 : slice buf 96 100 = .ok (leBytes 4 signedFixed) := by
    have := slice_mid sg (leBytes 4 signedFixed) (leBytes 4 (signedFixed + 8 * signers.length) ++
      leBytes 4 (signedFixed + 8 * signers.length + Q.length) ++ S ++ Q ++ fd) 96 100 (by simp [hsig]) (by simp [hsig])
    rw [← hbuf]; simpa [List.append_assoc] using this
  have e3 : slice buf 100 104 = .ok (leBytes 4 (signedFixed + 8 * signers.length)) := by
    have := slice_mid (sg ++ leBytes 4 signedFixed) (leBytes 4 (signedFixed + 8 * signers.length))
      (leBytes 4 (signedFixed + 8 * signers.length + Q.length) ++ S ++ Q ++ fd) 100 104 (by simp [hsig]) (by simp [hsig])
    rw [← hbuf]; simpa [List.append_assoc] using this
  have e4 : slice buf 104 108 = .ok (leBytes 4 (signedFixed + 8 * signers.length + Q.length)) := by
    have := slice_mid (sg ++ leBytes 4 signedFixed ++ leBytes 4 (signedFixed + 8 * signers.length))
      (leBytes 4 (signedFixed + 8 * signers.length + Q.length)) (S ++ Q ++ fd) 104 108 (by simp [hsig]) (by simp [hsig])
    rw [← hbuf]; simpa [List.append_assoc] using this
  have e5 : slice buf signedFixed (signedFixed + 8 * signers.length) = .ok S := by
    have := slice_mid (sg ++ leBytes 4 signedFixed ++ leBytes 4 (signedFixed + 8 * signers.length) ++
      leBytes 4 (signedFixed + 8 * signers.length + Q.length)) S (Q ++ fd) signedFixed (signedFixed + 8 * signers.length)
      (by simp [hsig, signedFixed] <;> omega) (by simp [hsig, signedFixed, hS] <;> omega)
    rw [← hbuf]; simpa [List.append_assoc] using this
  have e6 : slice buf (signedFixed + 8 * signers.length) (signedFixed + 8 * signers.length + Q.length) = .ok Q := by
    have := slice_mid (sg ++ leBytes 4 signedFixed ++ leBytes 4 (signedFixed + 8 * signers.length) ++
      leBytes 4 (signedFixed + 8 * signers.length + Q.length) ++ S) Q fd (signedFixed + 8 * signers.length) (signedFixed + 8 * signers.length + Q.length)
      (by simp [hsig, signedFixed, hS] <;> omega) (by simp [hsig, signedFixed, hS] <;> omega)
    rw [← hbuf]; simpa [List.append_assoc] using this
  have e7 : sliceFrom buf (signedFixed + 8 * signers.length + Q.length) = .ok fd := by
    have := sliceFrom_end (sg ++ leBytes 4 signedFixed ++ leBytes 4 (signedFixed + 8 * signers.length) ++
      leBytes 4 (signedFixed + 8 * signers.length + Q.length) ++ S ++ Q) fd (signedFixed + 8 * signers.length + Q.length)
      (by simp [hsig, signedFixed, hS] <;> omega)
    rw [← hbuf]; simpa [List.append_assoc] using this
  have h32a : signedFixed + 8 * signers.length < 2 ^ 32 := by simp [signedFixed]; omega
  have h32b : signedFixed + 8 * signers.length + Q.length < 2 ^ 32 := by simp [signedFixed]; omega
  have hrd' : readU64s S 0 signers.length = .ok signers := by
    have := readU64s_enc signers [] heach []
    simpa [hSdef] using this
  rw [e1, e2]
  simp only [Res.bind, readOffset_leBytes signedFixed (by simp [signedFixed])]
  rw [if_neg (by simp [signedFixed]; omega), if_neg (by simp [signedFixed]), e3]
  simp only [readOffset_leBytes _ h32a]
  rw [if_neg (by simp [signedFixed]; omega), e4]
  simp only [readOffset_leBytes _ h32b]
  rw [if_neg (by simp [signedFixed]; omega), e5]
  simp only [hS]
  rw [if_neg (by omega), Nat.mul_div_cancel_left _ (by omega : 0 < 8), if_neg (by simp [maxSigners]; omega), hrd', e6]
  simp only [hq, e7]
  rw [if_neg (by simp [maxFullData]; omega)]

/-! ### fidelity of the `Nat` representation: byte strings in, uint64 values out; encoders write bytes -/

theorem leVal_lt (l : List Nat) (h : ∀ b ∈ l, b < 256) : leVal l < 256 ^ l.length := by
  induction l with
  | nil => simp [leVal]
  | cons x r ih =>
    have hx := h x (by simp)
    have := ih (fun b hb => h b (by simp [hb]))
    simp only [leVal, List.length_cons, Nat.pow_succ]
    omega

theorem readU64_lt {s : List Nat} {v : Nat} (hb : ∀ b ∈ s, b < 256) (h : readU64 s = .ok v) : v < 2 ^ 64 := by
  unfold readU64 at h
  split at h
  · cases h
  · injection h with h; subst h
    have := leVal_lt (s.take 8) (fun b hb' => hb b (List.mem_of_mem_take hb'))
    have hl : (s.take 8).length = 8 := by simp; omega
    rw [hl] at this
    simpa using this

theorem slice_mem {b s : List Nat} {lo hi : Nat} (h : slice b lo hi = .ok s) : ∀ x ∈ s, x ∈ b := by
  unfold slice at h
  split at h
  · injection h with h; subst h
    intro x hx
    exact List.mem_of_mem_drop (List.mem_of_mem_take hx)
  · cases h

/-- decoded integers are genuine uint64 values when the input is a byte string -/
theorem decodeSSV_msgType_lt {buf : List Nat} {m : SSVMessage} (hb : ∀ b ∈ buf, b < 256) (h : decodeSSV buf = .ok m) :
    m.msgType < 2 ^ 64 := by
  unfold decodeSSV at h
  simp only [bind_eq] at h
  obtain ⟨_, h⟩ := ite_err_ok h
  obtain ⟨b0, hb0, h⟩ := bind_ok h
  obtain ⟨t, ht, h⟩ := bind_ok h
  obtain ⟨_, _, h⟩ := bind_ok h
  obtain ⟨_, _, h⟩ := bind_ok h
  obtain ⟨_, _, h⟩ := bind_ok h
  obtain ⟨_, h⟩ := ite_err_ok h
  obtain ⟨_, h⟩ := ite_err_ok h
  obtain ⟨_, _, h⟩ := bind_ok h
  obtain ⟨_, h⟩ := ite_err_ok h
  injection h with h; subst h
  exact readU64_lt (fun b hb' => hb b (slice_mem hb0 b hb')) ht

theorem leBytes_lt (k n : Nat) : ∀ b ∈ leBytes k n, b < 256 := by
  induction k generalizing n with
  | zero => simp [leBytes]
  | succ k ih =>
    intro b hb
    simp only [leBytes, List.mem_cons] at hb
    rcases hb with hb | hb
    · subst hb; omega
    · exact ih _ b hb

/-- the encoders write genuine byte strings: every element of an encoded SSVMessage is < 256 when the payload bytes are -/
theorem encodeSSV_bytes (m : SSVMessage) (hid : ∀ b ∈ m.msgID, b < 256) (hd : ∀ b ∈ m.data, b < 256) :
    ∀ b ∈ encodeSSV m, b < 256 := by
  intro b hb
  simp only [encodeSSV, List.mem_append] at hb
  rcases hb with ((hb | hb) | hb) | hb
  · exact leBytes_lt _ _ b hb
  · exact hid b hb
  · exact leBytes_lt _ _ b hb
  · exact hd b hb

end Ssv.Ssz
