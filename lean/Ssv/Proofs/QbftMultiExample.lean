/-
C01 all heights — a concrete reachable state of the 4-operator multi-height system (kernel-evaluated):
operators 2 and 3 (with the Byzantine operator 4 playing along) decide heights 1, 2 and 5; operator 1 started height 1 and
accepted the proposal there, then learns heights 2 and 5 through decided messages — its 2-slot container now holds [5, 2], the
height-1 instance is ejected — and finally receives the decided message of height 1: `UponDecided` re-creates a decided
instance that `addNewInstance` drops at once, the decision is reported again (value 5, the value the others decided), the
container is unchanged, and a later `StartNewInstance(1)` is refused.
-/
import Ssv.Proofs.QbftMultiSystem2
set_option linter.unusedSimpArgs false

namespace Ssv.Qbft.M
open Ssv.Qbft

inductive Item (P : Params) where
  | act (a : Action P)
  | fwd (i : Op P) (k : Nat)

def runItems {P : Params} (σ : Sys P) : List (Item P) → Option (Sys P)
  | [] => some σ
  | .act a :: rest => if enabled σ a then runItems (step σ a) rest else none
  | .fwd i k :: rest =>
    match σ.log[k]? with
    | some m => if enabled σ (.deliver i m) then runItems (step σ (.deliver i m)) rest else none
    | none => none

theorem reachable_runItems {P : Params} {σ σ' : Sys P} (l : List (Item P)) (h : Reachable σ)
    (hr : runItems σ l = some σ') : Reachable σ' := by
  induction l generalizing σ with
  | nil => simp only [runItems, Option.some.injEq] at hr; exact hr ▸ h
  | cons it rest ih =>
    cases it with
    | act a =>
      simp only [runItems] at hr
      cases he : enabled σ a with
      | false => simp [he] at hr
      | true => rw [he] at hr; exact ih (Reachable.step a h he) hr
    | fwd i k =>
      simp only [runItems] at hr
      cases hm : σ.log[k]? with
      | none => simp [hm] at hr
      | some m =>
        simp only [hm] at hr
        cases he : enabled σ (.deliver i m) with
        | false => simp [he] at hr
        | true => rw [he] at hr; exact ih (Reachable.step _ h he) hr

def exP : Params := { f := 1, cutoff := 15, valCheck := fun _ => true, byz := [3] }

theorem exP_valid : exP.Valid := ⟨by decide, by decide⟩

/-- prepare / commit of the Byzantine operator 4 -/
def byzMsg (t h v : Nat) : Msg :=
  { type := t, height := h, round := 1, ident := 1, root := v, dataRound := 0, signers := [4], sigOk := true,
    malformed := false, mid := 0, rcJust := [], prepJust := [], fullData := 0 }

/-- decided message of height h aggregated from the commits of operators 2, 3, 4 -/
def cert (h v : Nat) : Msg :=
  { type := tCommit, height := h, round := 1, ident := 1, root := v, dataRound := 0, signers := [2, 3, 4], sigOk := true,
    malformed := false, mid := 0, rcJust := [], prepJust := [], fullData := v }

/-- one height decided by operators 2, 3 (indices 1, 2); `b` = log length before -/
def heightRun (h v v' b : Nat) : List (Item exP) :=
  [.act (.start 1 h v), .act (.start 2 h v'),
   .fwd 1 b, .fwd 2 b,
   .act (.deliver 1 (byzMsg tPrepare h v)), .act (.deliver 2 (byzMsg tPrepare h v)),
   .fwd 1 (b+1), .fwd 1 (b+2), .fwd 2 (b+1), .fwd 2 (b+2),
   .act (.deliver 1 (byzMsg tCommit h v)), .act (.deliver 2 (byzMsg tCommit h v)),
   .fwd 1 (b+3), .fwd 1 (b+4), .fwd 2 (b+3), .fwd 2 (b+4)]

def exSched : List (Item exP) :=
  [.act (.start 0 1 9)] ++ heightRun 1 5 6 0 ++ [.fwd 0 0] ++ heightRun 2 7 7 6 ++ heightRun 5 8 8 11 ++
  [.act (.deliver 0 (cert 2 7)), .act (.deliver 0 (cert 5 8)), .act (.deliver 0 (cert 1 5)), .act (.start 0 1 9)]

theorem ex_isSome : (runItems (Sys.init exP) exSched).isSome = true := by decide +kernel

def exSys : Sys exP := (runItems (Sys.init exP) exSched).get ex_isSome

theorem ex_reachable : Reachable exSys :=
  reachable_runItems exSched Reachable.init (by simp [exSys])

/-- the events of operator 1 (index 0), and the decisions at height 1 -/
theorem ex_trace :
    exSys.trace.filter (fun x => x.2.node == (0 : Op exP)) =
      [(1, .P 0 1 5), (2, .G 0 1), (2, .D 0 1 7), (5, .G 0 1), (5, .D 0 1 8), (1, .G 0 1), (1, .D 0 1 5)] ∧
    proj 1 exSys.trace = [.P 1 1 5, .P 2 1 5, .K 1 1 5, .K 2 1 5, .D 1 1 5, .D 2 1 5, .P 0 1 5, .G 0 1, .D 0 1 5] := by
  decide +kernel

/-- operator 1's container holds heights 5 and 2 only; height 1 is blocked -/
theorem ex_container : hts (exSys.ctrl 0) = [5, 2] ∧ B.instAt 1 (exSys.ctrl 0) = none := by decide +kernel

end Ssv.Qbft.M
