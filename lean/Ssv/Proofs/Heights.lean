/-
Helper lemmas for engine `heights` (C15). Core Lean only.
Part 1: instance container, commit container, store primitives.
-/
import Ssv.Model.Heights

namespace Ssv.Heights

theorem cap_eq : cap = 2 := rfl

/-! ## find / replaceInst / ins / addNew -/

theorem find_nil (h : Nat) : find [] h = none := rfl

theorem find_cons (x : Inst) (xs : List Inst) (h : Nat) :
    find (x :: xs) h = if x.height = h then some x else find xs h := by
  unfold find
  rw [List.find?_cons]
  by_cases hx : x.height = h
  · simp [hx]
  · have : (x.height == h) = false := by simpa using hx
    simp [this, hx]

theorem find_some_height {l : List Inst} {h : Nat} {i : Inst} (hf : find l h = some i) : i.height = h := by
  unfold find at hf
  have := List.find?_some hf
  simpa using this

theorem find_some_mem {l : List Inst} {h : Nat} {i : Inst} (hf : find l h = some i) : i ∈ l := by
  unfold find at hf
  exact List.mem_of_find?_eq_some hf

theorem find_none_iff {l : List Inst} {h : Nat} : find l h = none ↔ ∀ i ∈ l, i.height ≠ h := by
  unfold find
  rw [List.find?_eq_none]
  constructor
  · intro hh i hi; have := hh i hi; simpa using this
  · intro hh i hi; have := hh i hi; simpa using this

theorem mem_ins {i x : Inst} {l : List Inst} : x ∈ ins i l ↔ x = i ∨ x ∈ l := by
  induction l with
  | nil => simp [ins]
  | cons y ys ih =>
    unfold ins
    by_cases hy : y.height < i.height
    · simp [hy]
    · simp only [hy, if_false, List.mem_cons, ih]
      constructor
      · rintro (h | h | h)
        · exact Or.inr (Or.inl h)
        · exact Or.inl h
        · exact Or.inr (Or.inr h)
      · rintro (h | h | h)
        · exact Or.inr (Or.inl h)
        · exact Or.inl h
        · exact Or.inr (Or.inr h)

theorem mem_addNew {i x : Inst} {l : List Inst} (hx : x ∈ addNew l i) : x = i ∨ x ∈ l := by
  unfold addNew at hx
  exact mem_ins.mp (List.mem_of_mem_take hx)

/-- everything in the container is below the new instance: it goes to the front -/
theorem ins_of_lt {i : Inst} {l : List Inst} (hl : ∀ x ∈ l, x.height < i.height) : ins i l = i :: l := by
  cases l with
  | nil => rfl
  | cons y ys =>
    have := hl y (by simp)
    simp [ins, this]

theorem addNew_of_lt {i : Inst} {l : List Inst} (hl : ∀ x ∈ l, x.height < i.height) :
    addNew l i = i :: l.take 1 := by
  unfold addNew
  rw [ins_of_lt hl, cap_eq]
  rfl

theorem addNew_nil (i : Inst) : addNew [] i = [i] := rfl

/-- the head is above the new instance: the head stays -/
theorem addNew_cons_ge {i x : Inst} {xs : List Inst} (hx : ¬ x.height < i.height) :
    addNew (x :: xs) i = x :: (ins i xs).take 1 := by
  unfold addNew
  rw [cap_eq]
  simp [ins, hx]

theorem replaceInst_cons_same {i' x : Inst} {xs : List Inst} (h : x.height = i'.height) :
    replaceInst i' (x :: xs) = i' :: xs := by
  simp [replaceInst, h]

theorem replaceInst_cons_other {i' x : Inst} {xs : List Inst} (h : x.height ≠ i'.height) :
    replaceInst i' (x :: xs) = x :: replaceInst i' xs := by
  have : (x.height == i'.height) = false := by simpa using h
  simp [replaceInst, this]

theorem mem_replaceInst {i' x : Inst} {l : List Inst} (hx : x ∈ replaceInst i' l) : x = i' ∨ x ∈ l := by
  induction l with
  | nil => simp [replaceInst] at hx
  | cons y ys ih =>
    by_cases hy : y.height = i'.height
    · rw [replaceInst_cons_same hy] at hx
      rcases List.mem_cons.mp hx with h | h
      · exact Or.inl h
      · exact Or.inr (List.mem_cons_of_mem _ h)
    · rw [replaceInst_cons_other hy] at hx
      rcases List.mem_cons.mp hx with h | h
      · exact Or.inr (h ▸ List.mem_cons_self)
      · rcases ih h with h | h
        · exact Or.inl h
        · exact Or.inr (List.mem_cons_of_mem _ h)

/-! ## TopOk: everything is at or below the controller height, and only the head may be AT it -/

def TopOk (c : Nat) : List Inst → Prop
  | [] => True
  | x :: xs => x.height ≤ c ∧ ∀ i ∈ xs, i.height < c

theorem TopOk.le {c : Nat} {l : List Inst} (h : TopOk c l) : ∀ i ∈ l, i.height ≤ c := by
  cases l with
  | nil => intro i hi; simp at hi
  | cons x xs =>
    intro i hi
    rcases List.mem_cons.mp hi with rfl | hi
    · exact h.1
    · exact Nat.le_of_lt (h.2 i hi)

theorem TopOk.mono {c c' : Nat} {l : List Inst} (h : TopOk c l) (hc : c ≤ c') : TopOk c' l := by
  cases l with
  | nil => trivial
  | cons x xs => exact ⟨Nat.le_trans h.1 hc, fun i hi => Nat.lt_of_lt_of_le (h.2 i hi) hc⟩

/-- a strictly higher instance pushed to the front -/
theorem TopOk.push {l : List Inst} (i : Inst) (hi : ∀ x ∈ l, x.height < i.height) (n : Nat) :
    TopOk i.height (i :: l.take n) :=
  ⟨Nat.le_refl _, fun x hx => hi x (List.mem_of_mem_take hx)⟩

/-- the instance AT the controller height, if there is one, is the head -/
theorem TopOk.find_head {c : Nat} {l : List Inst} (h : TopOk c l) {i : Inst} (hf : find l c = some i) :
    ∃ rest, l = i :: rest := by
  cases l with
  | nil => simp [find_nil] at hf
  | cons x xs =>
    rw [find_cons] at hf
    by_cases hx : x.height = c
    · simp [hx] at hf; exact ⟨xs, by rw [hf]⟩
    · simp [hx] at hf
      have h1 := find_some_height hf
      have h2 := h.2 i (find_some_mem hf)
      omega

theorem TopOk.replace {c : Nat} {l : List Inst} (h : TopOk c l) {i' : Inst} (hi' : ∃ i ∈ l, i.height = i'.height) :
    TopOk c (replaceInst i' l) := by
  cases l with
  | nil => trivial
  | cons x xs =>
    by_cases hx : x.height = i'.height
    · rw [replaceInst_cons_same hx]
      exact ⟨hx ▸ h.1, h.2⟩
    · rw [replaceInst_cons_other hx]
      refine ⟨h.1, ?_⟩
      intro y hy
      rcases mem_replaceInst hy with rfl | hy
      · obtain ⟨i, hi, hih⟩ := hi'
        rcases List.mem_cons.mp hi with rfl | hi
        · exact absurd hih hx
        · rw [← hih]; exact h.2 i hi
      · exact h.2 y hy

/-- inserting an instance that is not above the height, and not AT it unless nothing else is -/
theorem TopOk.addNew {c : Nat} {l : List Inst} (h : TopOk c l) (i : Inst) (hi : i.height ≤ c)
    (hne : i.height = c → ∀ x ∈ l, x.height ≠ c) : TopOk c (Ssv.Heights.addNew l i) := by
  cases l with
  | nil => exact ⟨hi, by simp⟩
  | cons x xs =>
    by_cases hx : x.height < i.height
    · have : Ssv.Heights.addNew (x :: xs) i = [i, x] := by
        unfold Ssv.Heights.addNew
        rw [cap_eq]
        simp [ins, hx]
      rw [this]
      refine ⟨hi, ?_⟩
      intro y hy
      have : y = x := by simpa using hy
      subst this
      omega
    · rw [addNew_cons_ge hx]
      refine ⟨h.1, ?_⟩
      intro y hy
      have hy' := List.mem_of_mem_take hy
      rcases mem_ins.mp hy' with rfl | hy'
      · by_cases hic : y.height = c
        · have := hne hic x (by simp)
          have := h.1
          omega
        · omega
      · exact h.2 y hy'

theorem TopOk.map {c : Nat} {l : List Inst} (h : TopOk c l) (f : Inst → Inst) (hf : ∀ x, (f x).height = x.height) :
    TopOk c (l.map f) := by
  cases l with
  | nil => trivial
  | cons x xs =>
    refine ⟨by rw [hf]; exact h.1, ?_⟩
    intro y hy
    obtain ⟨z, hz, rfl⟩ := List.mem_map.mp hy
    rw [hf]; exact h.2 z hz

/-- replacing the instance of height `h` by one of the same height: that one is what `find` returns -/
theorem find_replaceInst_same {l : List Inst} {h : Nat} {i i' : Inst} (hf : find l h = some i) (hi' : i'.height = h) :
    find (replaceInst i' l) h = some i' := by
  induction l with
  | nil => simp [find_nil] at hf
  | cons x xs ih =>
    rw [find_cons] at hf
    by_cases hx : x.height = h
    · rw [replaceInst_cons_same (by omega), find_cons]; simp [hi']
    · simp [hx] at hf
      rw [replaceInst_cons_other (by omega), find_cons]
      simp [hx, ih hf]

theorem find_replaceInst_other {l : List Inst} {h : Nat} {i' : Inst} (hi' : i'.height ≠ h) :
    find (replaceInst i' l) h = find l h := by
  induction l with
  | nil => rfl
  | cons x xs ih =>
    by_cases hx : x.height = i'.height
    · rw [replaceInst_cons_same hx, find_cons, find_cons]
      have h1 : ¬ i'.height = h := hi'
      have h2 : ¬ x.height = h := by omega
      simp [h1, h2]
    · rw [replaceInst_cons_other hx, find_cons, find_cons, ih]

/-! ## commit container -/

theorem greedy_length_ge (acc : List Nat) (rest : List (List Nat)) : acc.length ≤ (greedy acc rest).length := by
  induction rest generalizing acc with
  | nil => exact Nat.le_refl _
  | cons m ms ih =>
    unfold greedy
    split
    · exact ih acc
    · exact Nat.le_trans (by simp) (ih (acc ++ m))

/-- `LongestUniqueSignersForRoundAndRoot` returns at least as many signers as any single message of the bucket has -/
theorem longestLen_ge {l : List (List Nat)} {m : List Nat} (hm : m ∈ l) : m.length ≤ longestLen l := by
  induction l with
  | nil => simp at hm
  | cons x xs ih =>
    unfold longestLen
    rcases List.mem_cons.mp hm with rfl | hm
    · exact Nat.le_trans (greedy_length_ge _ _) (Nat.le_max_left _ _)
    · exact Nat.le_trans (ih hm) (Nat.le_max_right _ _)

theorem longest_ge {cs : List Msg} {m : Msg} (hm : m ∈ cs) : m.signers.length ≤ longest cs m.round m.root := by
  unfold longest bucket
  apply longestLen_ge
  apply List.mem_map.mpr
  exact ⟨m, List.mem_filter.mpr ⟨hm, by simp⟩, rfl⟩

theorem greedy_append (acc : List Nat) (l : List (List Nat)) (x : List Nat) :
    greedy acc (l ++ [x]) = if common x (greedy acc l) then greedy acc l else greedy acc l ++ x := by
  induction l generalizing acc with
  | nil => by_cases hc : common x acc = true <;> simp [greedy, hc]
  | cons m ms ih =>
    simp only [List.cons_append, greedy]
    split
    · exact ih acc
    · exact ih (acc ++ m)

theorem greedy_append_length_ge (acc : List Nat) (l : List (List Nat)) (x : List Nat) :
    (greedy acc l).length ≤ (greedy acc (l ++ [x])).length := by
  rw [greedy_append]
  split
  · exact Nat.le_refl _
  · simp

theorem longestLen_append_ge (l : List (List Nat)) (x : List Nat) : longestLen l ≤ longestLen (l ++ [x]) := by
  induction l with
  | nil => exact Nat.zero_le _
  | cons m ms ih =>
    simp only [List.cons_append, longestLen]
    exact Nat.max_le.mpr ⟨Nat.le_trans (greedy_append_length_ge m ms x) (Nat.le_max_left _ _),
      Nat.le_trans ih (Nat.le_max_right _ _)⟩

/-- adding a message to the commit container never lowers what `LongestUniqueSignersForRoundAndRoot` finds -/
theorem longest_append_ge (cs : List Msg) (m : Msg) (round root : Nat) :
    longest cs round root ≤ longest (cs ++ [m]) round root := by
  unfold longest bucket
  rw [List.filter_append, List.map_append]
  by_cases hm : (m.round == round && m.root == root) = true
  · simp only [List.filter_cons, hm, if_true, List.filter_nil, List.map_cons, List.map_nil]
    exact longestLen_append_ge _ _
  · have : (m.round == round && m.root == root) = false := by simpa using hm
    simp [this]

/-- compaction leaves the buckets of the rounds it keeps alone -/
theorem longest_trim (i : Inst) (round root : Nat) (h : i.round ≤ round) :
    longest (trim i).commits round root = longest i.commits round root := by
  unfold longest bucket trim
  simp only
  rw [List.filter_filter]
  congr 2
  apply List.filter_congr
  intro m _
  by_cases hr : m.round = round
  · subst hr; simp [h]
  · have : (m.round == round) = false := by simpa using hr
    simp [this]

theorem greedy_range (k j : Nat) :
    greedy (List.range' 1 k) ((List.range' (k + 1) j).map (fun x => [x])) = List.range' 1 (k + j) := by
  induction j generalizing k with
  | zero => simp [greedy]
  | succ j ih =>
    rw [List.range'_succ]
    simp only [List.map_cons, greedy]
    have hc : common [k + 1] (List.range' 1 k) = false := by
      simp [common, List.mem_range'_1]; omega
    rw [hc]
    simp only [Bool.false_eq_true, if_false]
    have : List.range' 1 k ++ [k + 1] = List.range' 1 (k + 1) := by
      rw [List.range'_concat, Nat.one_mul, Nat.add_comm 1 k]
    rw [this, ih (k + 1)]
    congr 1
    omega

/-- the commits of operators 1..q of one (round, root): `LongestUniqueSignersForRoundAndRoot` finds all q signers -/
theorem longest_singles (q root : Nat) :
    (List.range' 1 q).length ≤ longest (singles q root) Gen.heights_FirstRound root := by
  unfold longest bucket singles
  have hf : ((List.range' 1 q).map (fun k => (⟨Gen.heights_FirstRound, root, [k]⟩ : Msg))).filter
      (fun m => m.round == Gen.heights_FirstRound && m.root == root) =
      (List.range' 1 q).map (fun k => (⟨Gen.heights_FirstRound, root, [k]⟩ : Msg)) := by
    apply List.filter_eq_self.mpr
    intro m hm
    obtain ⟨k, _, rfl⟩ := List.mem_map.mp hm
    simp
  rw [hf, List.map_map]
  have hcomp : ((fun (x : Msg) => x.signers) ∘ fun k => (⟨Gen.heights_FirstRound, root, [k]⟩ : Msg)) = fun k => [k] := rfl
  rw [hcomp]
  cases q with
  | zero => simp
  | succ n =>
    rw [List.range'_succ]
    simp only [List.map_cons, longestLen]
    refine Nat.le_trans ?_ (Nat.le_max_left _ _)
    have := greedy_range 1 n
    simp only [List.range'_one] at this
    rw [this]
    simp [Nat.add_comm]

theorem trim_height (i : Inst) : (trim i).height = i.height := rfl
theorem trim_round (i : Inst) : (trim i).round = i.round := rfl
theorem trim_decided (i : Inst) : (trim i).decided = i.decided := rfl
theorem mem_trim_commits {i : Inst} {m : Msg} : m ∈ (trim i).commits ↔ m ∈ i.commits ∧ i.round ≤ m.round := by
  simp [trim, List.mem_filter]

end Ssv.Heights
