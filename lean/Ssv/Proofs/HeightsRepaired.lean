/-
Engine `heights` (C15): the model of the code WITH the candidate repairs (Ssv/Model/HeightsRepaired.lean) satisfies
the FULL clause 3 — from every state, not only reachable ones, because repair 1 puts the comparison into the store.
-/
import Ssv.Model.HeightsRepaired
import Ssv.Proofs.HeightsStep

namespace Ssv.Heights

/-- the highest record is unchanged in (height, certificate), or replaced by a higher height, or — at the same
    height — by a certificate with more signers -/
def Mono (a b : Stored) : Prop :=
  (b.inst.height = a.inst.height ∧ b.cert = a.cert) ∨ a.inst.height < b.inst.height ∨
  (a.inst.height = b.inst.height ∧ a.cert.signers.length < b.cert.signers.length)

theorem Mono.refl (a : Stored) : Mono a a := Or.inl ⟨rfl, rfl⟩

theorem Mono.trans {a b c : Stored} (h1 : Mono a b) (h2 : Mono b c) : Mono a c := by
  unfold Mono at *
  rcases h1 with ⟨e1, c1⟩ | l1 | ⟨e1, s1⟩ <;> rcases h2 with ⟨e2, c2⟩ | l2 | ⟨e2, s2⟩
  · exact Or.inl ⟨by omega, by rw [c2, c1]⟩
  · exact Or.inr (Or.inl (by omega))
  · exact Or.inr (Or.inr ⟨by omega, by rw [← c1]; exact s2⟩)
  · exact Or.inr (Or.inl (by omega))
  · exact Or.inr (Or.inl (by omega))
  · exact Or.inr (Or.inl (by omega))
  · exact Or.inr (Or.inr ⟨by omega, by rw [c2]; exact s1⟩)
  · exact Or.inr (Or.inl (by omega))
  · exact Or.inr (Or.inr ⟨by omega, by omega⟩)

theorem storeSaveR_mono {st : Store} {a : Stored} (ha : st.highest = some a) (rec : Stored) (th ah : Bool) :
    ∃ b, (storeSaveR st rec th ah).highest = some b ∧ Mono a b := by
  unfold storeSaveR
  simp only
  cases ah
  · exact ⟨a, by simpa using ha, Mono.refl a⟩
  · cases hr : replacesR st.highest { rec with inst := { trim rec.inst with stopped := false } }
    · exact ⟨a, by simpa using ha, Mono.refl a⟩
    · refine ⟨{ rec with inst := { trim rec.inst with stopped := false } }, by simp, ?_⟩
      rw [ha] at hr
      unfold replacesR at hr
      simp only at hr
      unfold Mono
      split at hr
      · rename_i hne
        exact Or.inr (Or.inl (by simpa using hr))
      · rename_i heq
        have heq' : a.inst.height = rec.inst.height := by simpa [trim_height] using heq
        exact Or.inr (Or.inr ⟨heq', by simpa using hr⟩)

theorem saveFoundR_mono {st : Store} {a : Stored} (ha : st.highest = some a) (c : Ctrl) (h : Nat) (m : Msg) :
    ∃ b, (saveFoundR c st h m).highest = some b ∧ Mono a b := by
  unfold saveFoundR
  cases find c.insts h with
  | none => exact ⟨a, ha, Mono.refl a⟩
  | some i =>
    simp only
    unfold saveInstanceR
    simp only
    cases c.full <;> cases decide (c.height ≤ i.height)
    · exact ⟨a, by simpa using ha, Mono.refl a⟩
    · simpa using storeSaveR_mono ha ⟨i, m⟩ false true
    · simpa using storeSaveR_mono ha ⟨i, m⟩ true false
    · simpa using storeSaveR_mono ha ⟨i, m⟩ true true

theorem ite_saveFoundR_mono {st : Store} {a : Stored} (ha : st.highest = some a) (cnd : Bool) (c : Ctrl) (h : Nat) (m : Msg) :
    ∃ b, (if cnd = true then saveFoundR c st h m else st).highest = some b ∧ Mono a b := by
  cases cnd
  · exact ⟨a, by simpa using ha, Mono.refl a⟩
  · simpa using saveFoundR_mono ha c h m

theorem processMsgR_mono {st : Store} {a : Stored} (ha : st.highest = some a) (q : Nat) (c : Ctrl) (h : Nat) (m : Msg)
    (ok : Bool) : ∃ b, (processMsgR q c st h m ok).2.1.highest = some b ∧ Mono a b := by
  unfold processMsgR
  split
  · exact ⟨a, ha, Mono.refl a⟩
  · split
    · exact ⟨a, ha, Mono.refl a⟩
    · unfold uponDecidedR
      simp only
      split
      · exact saveFoundR_mono ha _ h m
      · exact ⟨a, ha, Mono.refl a⟩

/-- every op other than a commit/decided message leaves the store alone -/
theorem step_store_of_not_decided (s : State) (op : Op) (hop : ∀ h r root sg ok via, op ≠ .decided h r root sg ok via)
    (hop2 : ∀ h r root sg ok via, op ≠ .decidedSF h r root sg ok via) (hop3 : ∀ root vc, op ≠ .commits root vc) :
    (step s op).1.s = s.s := by
  cases op with
  | start slot =>
    rw [step_start_eq]
    obtain ⟨_, hbs, _⟩ := beginStep_cs s slot
    split
    · rcases decideStep_cases (beginStep s slot).1 slot with ⟨h, _⟩ | ⟨_, _, _, hs, _, _⟩
      · rw [h]; exact hbs
      · rw [hs]; exact hbs
    · exact hbs
  | begin slot => exact (beginStep_cs s slot).2.1
  | decide =>
    rw [step_decide_eq]
    cases s.r.duty with
    | none => rfl
    | some slot =>
      simp only
      rcases decideStep_cases s slot with ⟨h, _⟩ | ⟨_, _, _, hs, _, _⟩
      · rw [h]
      · exact hs
  | decided h r root sg ok via => exact absurd rfl (hop h r root sg ok via)
  | decidedSF h r root sg ok via => exact absurd rfl (hop2 h r root sg ok via)
  | commits root vc => exact absurd rfl (hop3 root vc)
  | compact h => rfl
  | restart f => exact (restartStep_cs s f).2.1

/-- REPAIRED MODEL, full clause 3, from ANY state: one step never loses the highest record and changes it only to a
    higher height or, at the same height, to a certificate with more signers -/
theorem stepR_highest_mono (s : State) (op : Op) (a : Stored) (ha : s.s.highest = some a) :
    ∃ b, (stepR s op).1.s.highest = some b ∧ Mono a b := by
  cases op with
  | decided h r root sg ok via =>
    cases via
    · show ∃ b, (decidedViaCtrlR s h ⟨r, root, sg⟩ ok).1.s.highest = some b ∧ _
      unfold decidedViaCtrlR
      simp only
      exact processMsgR_mono ha s.q s.c h ⟨r, root, sg⟩ ok
    · show ∃ b, (decidedViaRunnerR s h ⟨r, root, sg⟩ ok).1.s.highest = some b ∧ _
      unfold decidedViaRunnerR
      simp only
      obtain ⟨b1, hb1, hm1⟩ := processMsgR_mono ha s.q s.c h ⟨r, root, sg⟩ ok
      split
      · obtain ⟨b2, hb2, hm2⟩ := saveFoundR_mono hb1
          (if s.q ≤ sg.length then compactAt (processMsgR s.q s.c s.s h ⟨r, root, sg⟩ ok).1 h else (processMsgR s.q s.c s.s h ⟨r, root, sg⟩ ok).1)
          h ⟨r, root, sg⟩
        exact ⟨b2, hb2, hm1.trans hm2⟩
      · exact ⟨b1, hb1, hm1⟩
  | decidedSF h r root sg ok via =>
    cases via
    · exact ⟨a, ha, Mono.refl a⟩
    · show ∃ b, (decidedViaRunnerSFR s h ⟨r, root, sg⟩ ok).1.s.highest = some b ∧ _
      unfold decidedViaRunnerSFR
      simp only
      exact ite_saveFoundR_mono ha _ _ _ _
  | commits root vc =>
    show ∃ b, (commitsStepR s root vc).1.s.highest = some b ∧ _
    unfold commitsStepR
    split
    · split
      · split
        · exact saveFoundR_mono ha _ _ _
        · exact ⟨a, ha, Mono.refl a⟩
      · exact ⟨a, ha, Mono.refl a⟩
    · exact ⟨a, ha, Mono.refl a⟩
  | start slot =>
    exact ⟨a, by rw [show stepR s (.start slot) = step s (.start slot) from rfl,
      step_store_of_not_decided s _ (by intros; intro h; cases h) (by intros; intro h; cases h) (by intros; intro h; cases h)]; exact ha, Mono.refl a⟩
  | begin slot =>
    exact ⟨a, by rw [show stepR s (.begin slot) = step s (.begin slot) from rfl,
      step_store_of_not_decided s _ (by intros; intro h; cases h) (by intros; intro h; cases h) (by intros; intro h; cases h)]; exact ha, Mono.refl a⟩
  | decide =>
    exact ⟨a, by rw [show stepR s .decide = step s .decide from rfl,
      step_store_of_not_decided s _ (by intros; intro h; cases h) (by intros; intro h; cases h) (by intros; intro h; cases h)]; exact ha, Mono.refl a⟩
  | compact h =>
    exact ⟨a, by rw [show stepR s (.compact h) = step s (.compact h) from rfl,
      step_store_of_not_decided s _ (by intros; intro h; cases h) (by intros; intro h; cases h) (by intros; intro h; cases h)]; exact ha, Mono.refl a⟩
  | restart f =>
    exact ⟨a, by rw [show stepR s (.restart f) = step s (.restart f) from rfl,
      step_store_of_not_decided s _ (by intros; intro h; cases h) (by intros; intro h; cases h) (by intros; intro h; cases h)]; exact ha, Mono.refl a⟩

end Ssv.Heights
