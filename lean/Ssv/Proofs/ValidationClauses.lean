/-
C09 helper lemmas: the individual gossip rules implied by the guards of an accepted message.   Core Lean only.
-/
import Ssv.Proofs.ValidationWindow

namespace Ssv.Validation
open Ssv

theorem signersShape_spec (sh : Share) (m : QMsg) (h : signersShape sh m = .ok ()) :
    (m.signers.length = 1 ∨
      (m.mtype = Gen.val_CommitMsgType ∧ sh.quorum ≤ m.signers.length ∧ m.signers.length ≤ sh.committee.length)) ∧
    (m.mtype = Gen.val_ProposalMsgType → ∀ s, m.signers = [s] → roundRobinProposer sh.committee m.height m.round = .ok s) := by
  unfold signersShape at h
  split at h
  · cases h
  · rename_i s hs
    refine ⟨Or.inl (by rw [hs]; rfl), ?_⟩
    intro hp s' hs'
    rw [hs] at hs'
    injection hs' with hs' _
    subst hs'
    have hb : (m.mtype == Gen.val_ProposalMsgType) = true := by simp [hp]
    simp only [hb, if_true] at h
    cases hl : roundRobinProposer sh.committee m.height m.round with
    | error e => rw [hl] at h; cases h
    | ok leader =>
      rw [hl] at h
      have := (rejectIf_ok_iff _ _).mp h
      simp at this
      rw [this]
  · rename_i a b rest hs
    have hlen : m.signers.length = rest.length + 2 := by rw [hs]; simp
    split at h
    · cases h
    · rename_i hc
      have := (rejectIf_ok_iff _ _).mp h
      simp only [Bool.or_eq_false_iff, Bool.not_eq_eq_eq_not, Bool.not_false, decide_eq_false_iff_not] at this
      obtain ⟨hq, hn⟩ := this
      unfold hasQuorum at hq
      have hq' : sh.quorum ≤ m.signers.length := by simpa using hq
      refine ⟨Or.inr ⟨?_, hq', by omega⟩, ?_⟩
      · simp at hc; exact hc
      · intro _ s hs'; rw [hs] at hs'; cases hs'

theorem validConsensusSigners_shape (sh : Share) (m : QMsg) (h : validConsensusSigners sh m = .ok ()) :
    signersShape sh m = .ok () := by
  unfold validConsensusSigners at h
  exact (firstFail_ok_iff _).mp h _ List.mem_cons_self

theorem envSigCheck_ok_spec (e : EnvSig) (h : envSigCheck e = .ok ()) : e = .none ∨ e = .valid := by
  cases e <;> simp [envSigCheck, ok, failT] at h ⊢

theorem validateSlotTime_ok_spec (c : NetCfg) (slot role : Nat) (now : GoTime) (h : validateSlotTime c slot role now = .ok ()) :
    earlyMessage c slot now = false ∧ ¬ (lateMessage c slot role now > 0) := by
  unfold validateSlotTime at h
  have hall := (firstFail_ok_iff _).mp h
  simp only [List.forall_mem_cons, List.not_mem_nil, false_imp_iff, implies_true, and_true] at hall
  obtain ⟨h1, h2⟩ := hall
  have := (rejectIf_ok_iff _ _).mp h2
  exact ⟨(rejectIf_ok_iff _ _).mp h1, by simpa using this⟩

theorem lateTtl_cases (role : Nat) (hv : validRole role = true)
    (hn : (role == Gen.val_BNRoleValidatorRegistration || role == Gen.val_BNRoleVoluntaryExit) = false) :
    ∃ ttl, lateTtl role = some ttl ∧ ttl ≤ 34 ∧ (ttl = 3 ∨ ttl = 34) := by
  rcases le6_cases role ((validRole_iff role).mp hv) with h | h | h | h | h | h | h <;> subst h <;> simp [lateTtl] at hn ⊢

theorem validateBeaconDuty_spec (x : Ctx) (role slot : Nat) (sh : Share) (h : validateBeaconDuty x role slot sh = .ok ()) :
    (role = Gen.val_BNRoleProposer → x.duties.proposer.contains ((epochAtSlot x.cfg slot).toNat, slot, sh.index) = true) ∧
    ((role = Gen.val_BNRoleSyncCommittee ∨ role = Gen.val_BNRoleSyncCommitteeContribution) →
      x.duties.sync.contains ((periodAtEpoch x.cfg (epochAtSlot x.cfg slot)).toNat, sh.index) = true) := by
  unfold validateBeaconDuty at h
  constructor
  · intro hr
    have hb : (role == Gen.val_BNRoleProposer) = true := by simp [hr]
    simp only [hb, if_true] at h
    have := (rejectIf_ok_iff _ _).mp ((firstFail_ok_iff _).mp h _ (List.mem_cons_of_mem _ List.mem_cons_self))
    simpa using this
  · intro hr
    have hnp : (role == Gen.val_BNRoleProposer) = false := by
      rcases hr with hr | hr <;> subst hr <;> decide
    have hb : (role == Gen.val_BNRoleSyncCommittee || role == Gen.val_BNRoleSyncCommitteeContribution) = true := by
      rcases hr with hr | hr <;> subst hr <;> decide
    simp only [hnp, hb, if_true, Bool.false_eq_true, if_false] at h
    have := (rejectIf_ok_iff _ _).mp ((firstFail_ok_iff _).mp h _ (List.mem_cons_of_mem _ List.mem_cons_self))
    simpa using this

theorem validateJustifications_spec (m : QMsg) (h : validateJustifications m = .ok ()) :
    m.pjMalformed = false ∧ m.rcjMalformed = false ∧
    (m.mtype ≠ Gen.val_ProposalMsgType → m.pjLen = 0) ∧
    (m.mtype ≠ Gen.val_ProposalMsgType → m.mtype ≠ Gen.val_RoundChangeMsgType → m.rcjLen = 0) ∧
    (m.mtype = Gen.val_ProposalMsgType → m.justOk = true) := by
  unfold validateJustifications at h
  have hall := (firstFail_ok_iff _).mp h
  simp only [List.forall_mem_cons, List.not_mem_nil, false_imp_iff, implies_true, and_true] at hall
  obtain ⟨h1, h2, h3, h4, h5⟩ := hall
  have h1' := (rejectIf_ok_iff _ _).mp h1
  have h2' := (rejectIf_ok_iff _ _).mp h2
  have h3' := (rejectIf_ok_iff _ _).mp h3
  have h4' := (rejectIf_ok_iff _ _).mp h4
  have h5' := (rejectIf_ok_iff _ _).mp h5
  refine ⟨h1', h3', ?_, ?_, ?_⟩
  · intro hne
    have hb : (m.mtype != Gen.val_ProposalMsgType) = true := bne_iff_ne.mpr hne
    rw [hb, Bool.and_true] at h2'
    exact Decidable.not_not.mp (of_decide_eq_false h2')
  · intro hne1 hne2
    have a : (m.mtype != Gen.val_ProposalMsgType) = true := bne_iff_ne.mpr hne1
    have b : (m.mtype != Gen.val_RoundChangeMsgType) = true := bne_iff_ne.mpr hne2
    rw [a, b, Bool.and_true, Bool.and_true] at h4'
    exact Decidable.not_not.mp (of_decide_eq_false h4')
  · intro he
    have hb : (m.mtype == Gen.val_ProposalMsgType) = true := beq_iff_eq.mpr he
    rw [hb] at h5'
    simpa using h5'

/-- what `validatePartialMessages` enforces -/
theorem validatePartialMessages_spec (sh : Share) (m : PMsg) (h : validatePartialMessages sh m = .ok ()) :
    m.signer ≠ 0 ∧ m.signer ∈ sh.committee ∧ m.msgs ≠ [] := by
  unfold validatePartialMessages at h
  have hall := (firstFail_ok_iff _).mp h
  simp only [List.forall_mem_cons, List.not_mem_nil, false_imp_iff, implies_true, and_true] at hall
  obtain ⟨h1, h2, _⟩ := hall
  obtain ⟨a, b⟩ := commonSigner_ok sh m.signer h1
  refine ⟨a, b, ?_⟩
  have := (rejectIf_ok_iff _ _).mp h2
  intro hn; rw [hn] at this; simp at this

theorem partialItemLoop_spec (sh : Share) (signer : Nat) (l : List PItem) : ∀ seen, partialItemLoop sh signer seen l = .ok () →
    (∀ it ∈ l, it.signer = signer ∧ it.sigLen = 96 ∧ it.sigZero = false ∧ it.root ∉ seen) ∧ (l.map (·.root)).Nodup := by
  induction l with
  | nil => intro _ _; exact ⟨by simp, by simp⟩
  | cons it rest ih =>
    intro seen h
    unfold partialItemLoop at h
    have hall := (firstFail_ok_iff _).mp h
    simp only [List.forall_mem_cons, List.not_mem_nil, false_imp_iff, implies_true, and_true] at hall
    obtain ⟨h1, h2, _, h4, h5⟩ := hall
    have h1' := (rejectIf_ok_iff _ _).mp h1
    have h2' := (rejectIf_ok_iff _ _).mp h2
    obtain ⟨r1, r2⟩ := ih _ h5
    unfold signatureFormat at h4
    have hs := (firstFail_ok_iff _).mp h4
    simp only [List.forall_mem_cons, List.not_mem_nil, false_imp_iff, implies_true, and_true] at hs
    obtain ⟨s1, s2⟩ := hs
    have hl : it.sigLen = 96 := by
      have := (rejectIf_ok_iff _ _).mp s1
      simpa using this
    have hz : it.sigZero = false := by
      rw [hl] at s2
      simp [Nat.blt] at s2
      exact (rejectIf_ok_iff _ _).mp s2
    have hseen : it.root ∉ seen := by simpa using h1'
    refine ⟨?_, ?_⟩
    · intro it' hit'
      rcases List.mem_cons.mp hit' with he | he
      · subst he; exact ⟨by simpa using h2', hl, hz, hseen⟩
      · obtain ⟨a, b, c, d⟩ := r1 it' he
        exact ⟨a, b, c, fun hm => d (List.mem_cons_of_mem _ hm)⟩
    · simp only [List.map_cons, List.nodup_cons]
      refine ⟨?_, r2⟩
      intro hm
      obtain ⟨it', hit', he⟩ := List.mem_map.mp hm
      exact (r1 it' hit').2.2.2 (by rw [he]; exact List.mem_cons_self)

end Ssv.Validation
