/-
C01 Layer B, part 2 — the node-level transition relation `NStep`: what one controller step (`StartNewInstance`,
`ProcessMsg`, `OnTimeout`) does to the single instance of the height, what it broadcasts and which ghost events it emits.
Derived from the executable controller under the shape invariant "the container holds at most the instance of the height".
Core Lean only.
-/
import Ssv.Proofs.QbftNodeSpec
set_option linter.unusedSimpArgs false
set_option linter.unusedVariables false

namespace Ssv.Qbft.B
open Ssv.Qbft

/-- the container of a one-height system: empty, or exactly the instance of the height -/
def Shape (h : Nat) (c : Ctrl) : Prop := c.insts = [] ∨ ∃ s, c.insts = [s] ∧ s.height = h

theorem instAt_of_nil {h : Nat} {c : Ctrl} (hc : c.insts = []) : instAt h c = none := by
  simp [instAt, findInstance, hc]

theorem instAt_of_single {h : Nat} {c : Ctrl} {s : State} (hc : c.insts = [s]) (hs : s.height = h) : instAt h c = some s := by
  simp [instAt, findInstance, hc, hs]

theorem findInstance_single_ne {h h' : Nat} {s : State} (hs : s.height = h) (hne : h' ≠ h) : findInstance [s] h' = none := by
  simp [findInstance, hs]; omega

theorem updateInstance_single {s s' : State} (hh : s'.height = s.height) : updateInstance [s] s' = [s'] := by
  simp [updateInstance, hh]

theorem ISpec.height {cfg : Cfg} {s : State} {m : Msg} {st : Step} (h : ISpec cfg s m st) : st.st.height = s.height := by
  cases h with
  | noop h1 => rw [h1]
  | prop _ _ h1 => rw [h1]
  | prep _ _ _ h1 => rw [h1]
  | prepQ _ _ _ _ h1 => rw [h1]
  | com _ _ _ h1 => rw [h1]
  | comQ _ _ _ _ _ _ h1 => rw [h1]
  | rc _ h1 => rw [h1]
  | jump _ _ _ h1 => rw [h1]

/-- semantic transitions of one node. `os`/`os'` = the instance of the height before/after, `bs` = messages handed to
    `Broadcast`, `evs` = ghost events. `A` = authenticity of the delivered message. -/
inductive NStep {N : Type} (cfg : Cfg) (h : Nat) (A : Msg → Prop) (i : N) (os os' : Option State) (bs : List Msg)
    (evs : List (Ev N)) : Prop
  | idle (h1 : os' = os) (h2 : bs = []) (h3 : evs = [])
  | create (v : Nat) (h0 : os = none)
      (h1 : os' = some { newInstance h with started := true, startValue := v })
      (h2 : ∀ x ∈ bs, x.type = tProposal ∧ x.signers = [cfg.own] ∧ x.height = h) (h3 : evs = [])
  | createDecided (m : Msg) (ha : A m) (h0 : os = none) (hv : validateDecided cfg m = .ok ()) (hh : m.height = h)
      (h1 : os' = some { newInstance h with round := m.round, decided := true, decidedValue := m.fullData, commit := [m] })
      (h2 : bs = []) (h3 : evs = [.G i m.round, .D i m.round m.fullData])
  | adopt (s : State) (m : Msg) (ha : A m) (h0 : os = some s) (hd : s.decided = false)
      (hv : validateDecided cfg m = .ok ()) (hh : m.height = h)
      (h1 : os' = some { s with decided := true, round := m.round, decidedValue := m.fullData, commit := s.commit ++ [m] })
      (h2 : bs = []) (h3 : evs = [.G i m.round, .D i m.round m.fullData])
  | more (s : State) (m : Msg) (ha : A m) (h0 : os = some s) (hd : s.decided = true)
      (hv : validateDecided cfg m = .ok ()) (hh : m.height = h)
      (h1 : os' = some { s with commit := s.commit ++ [m] }) (h2 : bs = []) (h3 : evs = [])
  | prop (s : State) (m : Msg) (ha : A m) (h0 : os = some s) (hv : isValidProposal cfg s m = .ok ())
      (hnew : ∀ e ∈ s.propose, e.round = m.round → matchedSigners e.signers m.signers = false)
      (h1 : os' = some { s with propose := s.propose ++ [m], accepted := some m, round := m.round })
      (h2 : bs = [] ∨ bs = [createPrepare cfg s m.round (hashData m.fullData)]) (h3 : evs = [.P i m.round m.root])
  | prep (s : State) (m p : Msg) (ha : A m) (h0 : os = some s) (hacc : s.accepted = some p)
      (hv : validSignedPrepare cfg m.toBase s.height s.round p.root = .ok ())
      (h1 : os' = some { s with prepare := s.prepare ++ [m] }) (h2 : bs = []) (h3 : evs = [])
  | prepQ (s : State) (m p : Msg) (ha : A m) (h0 : os = some s) (hacc : s.accepted = some p)
      (hv : validSignedPrepare cfg m.toBase s.height s.round p.root = .ok ())
      (hq : cfg.hasQuorum (signersOf (forRound (s.prepare ++ [m]) s.round)) = true)
      (h1 : os' = some { s with prepare := s.prepare ++ [m], lastPreparedValue := p.fullData, lastPreparedRound := s.round })
      (h2 : (bs = [] ∧ evs = []) ∨ (bs = [createCommit cfg s p.root] ∧ evs = [.K i s.round p.root]))
  | com (s : State) (m p : Msg) (ha : A m) (h0 : os = some s) (hacc : s.accepted = some p)
      (hv : validateCommit cfg m.toBase s.height s.round p = .ok ())
      (h1 : os' = some { s with commit := s.commit ++ [m] }) (h2 : bs = []) (h3 : evs = [])
  | comQ (s : State) (m p agg : Msg) (ha : A m) (h0 : os = some s) (hacc : s.accepted = some p)
      (hv : validateCommit cfg m.toBase s.height s.round p = .ok ())
      (hq : cfg.quorum ≤ (longestUniqueSigners (s.commit ++ [m]) m.round m.root).1.length)
      (hagg : aggregateCommitMsgs (longestUniqueSigners (s.commit ++ [m]) m.round m.root).2 p.fullData = .ok agg)
      (h1 : os' = some { s with commit := s.commit ++ [m], decided := true, decidedValue := p.fullData })
      (h2 : bs = []) (h3 : evs = [.D i agg.round agg.fullData])
  | rc (s : State) (X : Container) (h0 : os = some s) (h1 : os' = some { s with roundChange := X })
      (h2 : ∀ x ∈ bs, x.type = tProposal ∧ x.signers = [cfg.own] ∧ x.height = s.height) (h3 : evs = [])
  | jump (s : State) (X : Container) (R : Nat) (h0 : os = some s) (hR : s.round < R)
      (h1 : os' = some { s with roundChange := X, round := R, accepted := none })
      (h2 : (bs = [] ∧ evs = []) ∨
            (bs = [createRoundChange cfg s R] ∧
             evs = [.RC i R (createRoundChange cfg s R).dataRound (createRoundChange cfg s R).root]))

/-! ### events of own messages -/

theorem msgEvents_proposals {N : Type} (i : N) (l : List Msg) (h : ∀ x ∈ l, x.type = tProposal) : l.flatMap (msgEvents i) = [] := by
  induction l with
  | nil => rfl
  | cons x rest ih =>
    have hx := h x List.mem_cons_self
    simp only [List.flatMap_cons, ih (fun y hy => h y (List.mem_cons_of_mem _ hy)), List.append_nil]
    unfold msgEvents
    rw [hx]
    rfl

theorem msgEvents_prepare {N : Type} (i : N) (cfg : Cfg) (s : State) (r v : Nat) : msgEvents i (createPrepare cfg s r v) = [] := rfl

theorem msgEvents_commit {N : Type} (i : N) (cfg : Cfg) (s : State) (v : Nat) :
    msgEvents i (createCommit cfg s v) = [.K i s.round v] := rfl

theorem createRoundChange_type (cfg : Cfg) (s : State) (r : Nat) : (createRoundChange cfg s r).type = tRoundChange := by
  unfold createRoundChange; split <;> rfl

theorem createRoundChange_round (cfg : Cfg) (s : State) (r : Nat) : (createRoundChange cfg s r).round = r := by
  unfold createRoundChange; split <;> rfl

theorem msgEvents_roundChange {N : Type} (i : N) (cfg : Cfg) (s : State) (r : Nat) :
    msgEvents i (createRoundChange cfg s r) =
      [.RC i r (createRoundChange cfg s r).dataRound (createRoundChange cfg s r).root] := by
  unfold msgEvents
  rw [createRoundChange_type, createRoundChange_round]
  rfl

/-- events of the result of an instance step as the controller turns it into a decided broadcast -/
def aggEvents {N : Type} (i : N) : Outcome → List (Ev N)
  | .ok true _ (some d) => [.D i d.round d.fullData]
  | _ => []

theorem aggEvents_noAgg {N : Type} (i : N) (st : Step) (h : NoAgg st) : aggEvents i st.res = [] := by
  unfold aggEvents
  split
  · rename_i v d hr; exact absurd hr (h _ _ _)
  · rfl

def plen : Option State → Nat
  | some s => s.propose.length
  | none => 0

/-- an instance step as a node transition -/
theorem nstep_of_ispec {N : Type} (cfg : Cfg) (h : Nat) (A : Msg → Prop) (i : N) (s : State) (m : Msg) (st : Step)
    (hA : A m) (hs : ISpec cfg s m st) :
    NStep cfg h A i (some s) (some st.st) (bcasts st.outs)
      ((if plen (some s) < plen (some st.st) then [.P i m.round m.root] else []) ++
        (bcasts st.outs).flatMap (msgEvents i) ++ aggEvents i st.res) := by
  unfold plen
  cases hs with
  | noop h1 h2 h3 =>
    refine .idle (by rw [h1]) h2 ?_
    rw [h1, h2, aggEvents_noAgg i st h3]; simp
  | prop hv hnew h1 h2 h3 =>
    refine .prop s m hA rfl hv hnew (by rw [h1]) h2 ?_
    rw [aggEvents_noAgg i st h3, h1]
    rcases h2 with h2 | h2 <;> rw [h2] <;> simp [msgEvents_prepare]
  | prep p hacc hv h1 h2 h3 =>
    refine .prep s m p hA rfl hacc hv (by rw [h1]) h2 ?_
    rw [aggEvents_noAgg i st h3, h1, h2]; simp
  | prepQ p hacc hv hq h1 h2 h3 =>
    refine .prepQ s m p hA rfl hacc hv hq (by rw [h1]) ?_
    rw [aggEvents_noAgg i st h3, h1]
    rcases h2 with h2 | h2
    · left; rw [h2]; simp
    · right; rw [h2]; simp [msgEvents_commit]
  | com p hacc hv h1 h2 h3 =>
    refine .com s m p hA rfl hacc hv (by rw [h1]) (by rw [h2]; rfl) ?_
    rw [aggEvents_noAgg i st h3, h1, h2]; simp
  | comQ p agg hacc hv hq hagg h1 h2 h3 =>
    refine .comQ s m p agg hA rfl hacc hv hq hagg (by rw [h1]) (by rw [h2]; rfl) ?_
    rw [h1, h2, h3]; simp [aggEvents]
  | rc X h1 h2 h3 =>
    refine .rc s X rfl (by rw [h1]) h2 ?_
    rw [aggEvents_noAgg i st h3, h1, msgEvents_proposals i _ (fun x hx => (h2 x hx).1)]; simp
  | jump X R hR h1 h2 h3 =>
    refine .jump s X R rfl hR (by rw [h1]) ?_
    rw [aggEvents_noAgg i st h3, h1]
    rcases h2 with h2 | h2
    · left; rw [h2]; simp
    · right; rw [h2]; simp [msgEvents_roundChange]

/-! ### `UponDecided` on the one-height container -/

theorem quiet_outs {N : Type} (i : N) (l : List Out) (h : ∀ o ∈ l, (∃ m, o = .save m) ∨ (∃ m, o = .notify m)) :
    bcasts l = [] ∧ outEvents i l = [] := by
  induction l with
  | nil => exact ⟨rfl, rfl⟩
  | cons o rest ih =>
    obtain ⟨h1, h2⟩ := ih (fun x hx => h x (List.mem_cons_of_mem _ hx))
    rcases h o List.mem_cons_self with ⟨m, rfl⟩ | ⟨m, rfl⟩ <;> simp [bcasts, outEvents, h1, h2]

theorem uponDecided_quiet {N : Type} (i : N) (cfg : Cfg) (c : Ctrl) (m : Msg) (hv : validateDecided cfg m = .ok ()) :
    bcasts (uponDecided cfg c m).outs = [] ∧ outEvents i (uponDecided cfg c m).outs = [] := by
  apply quiet_outs
  intro o ho
  rcases (uponDecided_accepted cfg c m hv).2 o ho with h | h
  · exact Or.inl ⟨m, h⟩
  · exact Or.inr ⟨m, h⟩

theorem take_single {α : Type} (x : α) (k : Nat) (hk : 1 ≤ k) : [x].take k = [x] := by
  cases k with
  | zero => omega
  | succ k => simp

theorem uponDecided_empty (cfg : Cfg) (c : Ctrl) (m : Msg) (hc : c.insts = []) (hcap : 1 ≤ cfg.capacity)
    (hv : validateDecided cfg m = .ok ()) :
    (uponDecided cfg c m).ct.insts =
      [{ newInstance m.height with round := m.round, decided := true, decidedValue := m.fullData, commit := [m] }] ∧
    (uponDecided cfg c m).res = .ok (some m) := by
  unfold uponDecided
  simp only [hv, wrap, decidedUpdate, hc, findInstance, List.find?_nil, addNewInstance, insertByHeight, addMsg, List.nil_append]
  rw [take_single _ _ hcap]
  constructor
  · split <;> rfl
  · rfl

theorem uponDecided_undecided (cfg : Cfg) (c : Ctrl) (m : Msg) (s : State) (hc : c.insts = [s]) (hs : s.height = m.height)
    (hd : s.decided = false) (hv : validateDecided cfg m = .ok ()) :
    (uponDecided cfg c m).ct.insts =
      [{ s with decided := true, round := m.round, decidedValue := m.fullData, commit := s.commit ++ [m] }] ∧
    (uponDecided cfg c m).res = .ok (some m) := by
  have hf : findInstance c.insts m.height = some s := by simp [findInstance, hc, hs]
  unfold uponDecided
  simp only [hv, wrap, decidedUpdate, hf, hd, Bool.not_false, if_true, addMsg]
  constructor
  · split <;> simp [updateInstance, hc]
  · simp

theorem uponDecided_insts (cfg : Cfg) (c : Ctrl) (m : Msg) (hv : validateDecided cfg m = .ok ()) :
    (uponDecided cfg c m).ct.insts = (decidedUpdate cfg c m).1 := by
  unfold uponDecided
  simp only [hv, wrap]
  split <;> rfl

theorem uponDecided_decided (cfg : Cfg) (c : Ctrl) (m : Msg) (s : State) (hc : c.insts = [s]) (hs : s.height = m.height)
    (hd : s.decided = true) (hv : validateDecided cfg m = .ok ()) :
    ((uponDecided cfg c m).ct.insts = [s] ∨ (uponDecided cfg c m).ct.insts = [{ s with commit := s.commit ++ [m] }]) ∧
    (uponDecided cfg c m).res = .ok none := by
  have hf : findInstance c.insts m.height = some s := by simp [findInstance, hc, hs]
  constructor
  · rw [uponDecided_insts cfg c m hv]
    unfold decidedUpdate
    simp only [hf, hd, Bool.not_true, Bool.false_eq_true, if_false, addMsg]
    split
    · right; simp [updateInstance, hc]
    · left; exact hc
  · unfold uponDecided
    simp only [hv, wrap, hf, hd, if_true]

theorem proposeLen_of {h : Nat} {c : Ctrl} {os : Option State} (hi : instAt h c = os) : proposeLen h c = plen os := by
  subst hi; unfold proposeLen plen; rfl

theorem uponDecided_node {N : Type} (cfg : Cfg) (h : Nat) (A : Msg → Prop) (i : N) (c : Ctrl) (m : Msg)
    (hs : Shape h c) (hcap : 1 ≤ cfg.capacity) (hA : A m) (hv : validateDecided cfg m = .ok ()) (hh : m.height = h)
    (hdm : isDecidedMsg cfg m = true) :
    Shape h (uponDecided cfg c m).ct ∧
    NStep cfg h A i (instAt h c) (instAt h (uponDecided cfg c m).ct) (bcasts (uponDecided cfg c m).outs)
      (deliverEvents cfg h i c (uponDecided cfg c m) m) := by
  obtain ⟨hb, he⟩ := uponDecided_quiet i cfg c m hv
  unfold deliverEvents
  rw [hb, he, hdm]
  simp only [if_true, List.append_nil]
  rcases hs with hc | ⟨s, hc, hsh⟩
  · obtain ⟨h1, h2⟩ := uponDecided_empty cfg c m hc hcap hv
    have hi0 : instAt h c = none := instAt_of_nil hc
    have hi1 : instAt h (uponDecided cfg c m).ct =
        some { newInstance m.height with round := m.round, decided := true, decidedValue := m.fullData, commit := [m] } :=
      instAt_of_single h1 hh
    refine ⟨Or.inr ⟨_, h1, hh⟩, ?_⟩
    rw [proposeLen_of hi0, proposeLen_of hi1, hi0, hi1, h2]
    exact .createDecided m hA rfl hv hh (by rw [hh]) rfl (by simp [newInstance, plen])
  · have hsm : s.height = m.height := by rw [hsh, hh]
    have hi0 : instAt h c = some s := instAt_of_single hc hsh
    cases hd : s.decided with
    | false =>
      obtain ⟨h1, h2⟩ := uponDecided_undecided cfg c m s hc hsm hd hv
      have hi1 := instAt_of_single (h := h) h1 hsh
      refine ⟨Or.inr ⟨_, h1, hsh⟩, ?_⟩
      rw [proposeLen_of hi0, proposeLen_of hi1, hi0, hi1, h2]
      exact .adopt s m hA rfl hd hv hh rfl rfl (by simp [plen])
    | true =>
      obtain ⟨h1, h2⟩ := uponDecided_decided cfg c m s hc hsm hd hv
      rcases h1 with h1 | h1
      · have hi1 := instAt_of_single (h := h) h1 hsh
        refine ⟨Or.inr ⟨_, h1, hsh⟩, ?_⟩
        rw [proposeLen_of hi0, proposeLen_of hi1, hi0, hi1, h2]
        exact .idle rfl rfl (by simp [plen])
      · have hi1 := instAt_of_single (h := h) h1 hsh
        refine ⟨Or.inr ⟨_, h1, hsh⟩, ?_⟩
        rw [proposeLen_of hi0, proposeLen_of hi1, hi0, hi1, h2]
        exact .more s m hA rfl hd hv hh rfl rfl (by simp [plen])

/-! ### `UponExistingInstanceMsg`, `ProcessMsg`, `StartNewInstance`, `OnTimeout` on the one-height container -/

theorem uponExisting_outs {N : Type} (i : N) (cfg : Cfg) (c : Ctrl) (m : Msg) (s : State)
    (hf : findInstance c.insts m.height = some s) :
    (uponExistingInstanceMsg cfg c m).ct.insts = updateInstance c.insts (processMsg cfg s m).st ∧
    bcasts (uponExistingInstanceMsg cfg c m).outs = bcasts (processMsg cfg s m).outs ∧
    outEvents i (uponExistingInstanceMsg cfg c m).outs =
      outEvents i (processMsg cfg s m).outs ++ aggEvents i (processMsg cfg s m).res := by
  unfold uponExistingInstanceMsg
  simp only [hf]
  cases hr : (processMsg cfg s m).res with
  | panic => simp [aggEvents]
  | err t => simp [aggEvents]
  | ok d v agg =>
    cases d with
    | false => simp [aggEvents]
    | true =>
      cases agg with
      | none => simp [aggEvents]
      | some a =>
        simp only [Bool.not_true, Bool.false_eq_true, if_false]
        split <;> simp [aggEvents, bcasts_append, outEvents_append, bcasts, outEvents]

theorem uponExisting_node {N : Type} (cfg : Cfg) (h : Nat) (A : Msg → Prop) (i : N) (c : Ctrl) (m : Msg) (s : State)
    (hc : c.insts = [s]) (hsh : s.height = h) (hmh : m.height = h) (hA : A m) (hnd : isDecidedMsg cfg m = false) :
    Shape h (uponExistingInstanceMsg cfg c m).ct ∧
    NStep cfg h A i (instAt h c) (instAt h (uponExistingInstanceMsg cfg c m).ct)
      (bcasts (uponExistingInstanceMsg cfg c m).outs) (deliverEvents cfg h i c (uponExistingInstanceMsg cfg c m) m) := by
  have hf : findInstance c.insts m.height = some s := by simp [findInstance, hc, hsh, hmh]
  obtain ⟨h1, h2, h3⟩ := uponExisting_outs i cfg c m s hf
  have hspec := processMsg_spec cfg s m
  have hht := hspec.height
  rw [hc, updateInstance_single hht] at h1
  have hsh' : (processMsg cfg s m).st.height = h := by rw [hht, hsh]
  have hi0 : instAt h c = some s := instAt_of_single hc hsh
  have hi1 := instAt_of_single (h := h) h1 hsh'
  refine ⟨Or.inr ⟨_, h1, hsh'⟩, ?_⟩
  have hev : deliverEvents cfg h i c (uponExistingInstanceMsg cfg c m) m =
      (if plen (some s) < plen (some (processMsg cfg s m).st) then [.P i m.round m.root] else []) ++
        (bcasts (processMsg cfg s m).outs).flatMap (msgEvents i) ++ aggEvents i (processMsg cfg s m).res := by
    unfold deliverEvents
    rw [proposeLen_of hi0, proposeLen_of hi1, h3, hnd, outEvents_inst i _ (outsInst_processMsg cfg s m)]
    simp [List.append_assoc]
  rw [hi0, hi1, h2, hev]
  exact nstep_of_ispec cfg h A i s m (processMsg cfg s m) hA hspec

theorem ctrl_processMsg_node {N : Type} (cfg : Cfg) (h : Nat) (A : Msg → Prop) (i : N) (c : Ctrl) (m : Msg)
    (hs : Shape h c) (hcap : 1 ≤ cfg.capacity) (hA : m.ident = cfg.ident → A m)
    (hdec : validateDecided cfg m = .ok () → m.ident = cfg.ident → m.height = h) :
    Shape h (c.processMsg cfg m).ct ∧
    NStep cfg h A i (instAt h c) (instAt h (c.processMsg cfg m).ct) (bcasts (c.processMsg cfg m).outs)
      (deliverEvents cfg h i c (c.processMsg cfg m) m) := by
  have hidle : ∀ (t : Tag), Shape h (⟨c, [], .err t⟩ : CStep).ct ∧
      NStep cfg h A i (instAt h c) (instAt h (⟨c, [], .err t⟩ : CStep).ct) (bcasts (⟨c, [], .err t⟩ : CStep).outs)
        (deliverEvents cfg h i c ⟨c, [], .err t⟩ m) := by
    intro t
    refine ⟨hs, .idle rfl rfl ?_⟩
    unfold deliverEvents
    simp [outEvents]
  unfold Ctrl.processMsg
  split
  · exact hidle _
  · rename_i hid
    have hid' : m.ident = cfg.ident := by simpa using hid
    split
    · rename_i hdm
      by_cases hv : validateDecided cfg m = .ok ()
      · exact uponDecided_node cfg h A i c m hs hcap (hA hid') hv (hdec hv hid') hdm
      · obtain ⟨r1, r2, r3⟩ := uponDecided_rejected cfg c m hv
        rw [r1]
        refine ⟨hs, .idle rfl (by rw [r2]; rfl) ?_⟩
        unfold deliverEvents
        rw [r1, r2, hdm]
        simp only [Nat.lt_irrefl, if_false, if_true, outEvents, List.nil_append]
        split
        · rename_i d hd; exact absurd hd (r3 _)
        · rfl
    · rename_i hdm
      have hnd : isDecidedMsg cfg m = false := by simpa using hdm
      split
      · exact hidle _
      · rcases hs with hc | ⟨s, hc, hsh⟩
        · unfold uponExistingInstanceMsg
          simp only [hc, findInstance, List.find?_nil]
          have := hidle [.instanceNotFound]
          exact this
        · by_cases hmh : m.height = h
          · exact uponExisting_node cfg h A i c m s hc hsh hmh (hA hid') hnd
          · unfold uponExistingInstanceMsg
            rw [hc, findInstance_single_ne hsh hmh]
            exact hidle [.instanceNotFound]

theorem ctrl_start_node {N : Type} (cfg : Cfg) (h : Nat) (A : Msg → Prop) (i : N) (c : Ctrl) (v : Nat)
    (hs : Shape h c) (hcap : 1 ≤ cfg.capacity) :
    Shape h (c.startNewInstance cfg h v).ct ∧
    NStep cfg h A i (instAt h c) (instAt h (c.startNewInstance cfg h v).ct) (bcasts (c.startNewInstance cfg h v).outs)
      (outEvents i (c.startNewInstance cfg h v).outs) := by
  unfold Ctrl.startNewInstance
  split
  · exact ⟨hs, .idle rfl rfl rfl⟩
  · split
    · exact ⟨hs, .idle rfl rfl rfl⟩
    · split
      · exact ⟨hs, .idle rfl rfl rfl⟩
      · rename_i hnone
        rcases hs with hc | ⟨s, hc, hsh⟩
        · obtain ⟨e1, e2, e3⟩ := start_spec cfg h v
          have hins : addNewInstance cfg.capacity c.insts (start cfg (newInstance h) v h).st =
              [{ newInstance h with started := true, startValue := v }] := by
            rw [hc, e1]
            simp only [addNewInstance, insertByHeight]
            exact take_single _ _ hcap
          have hev : outEvents i (start cfg (newInstance h) v h).outs = [] := by
            rw [outEvents_inst i _ e3, msgEvents_proposals i _ (fun x hx => (e2 x hx).1)]
          have hi0 : instAt h c = none := instAt_of_nil hc
          dsimp only
          split
          · have hi1 : instAt h (⟨{ height := h, insts := addNewInstance cfg.capacity c.insts (start cfg (newInstance h) v h).st },
                (start cfg (newInstance h) v h).outs, COutcome.panic⟩ : CStep).ct =
                some { newInstance h with started := true, startValue := v } :=
              instAt_of_single hins rfl
            refine ⟨Or.inr ⟨_, hins, rfl⟩, ?_⟩
            rw [hi0, hi1]
            exact .create v rfl rfl e2 hev
          · have hfs : (forceStopOthers { height := h, insts := addNewInstance cfg.capacity c.insts (start cfg (newInstance h) v h).st }).insts =
                [{ newInstance h with started := true, startValue := v }] := by
              unfold forceStopOthers
              rw [hins]
              simp [newInstance]
            have hi1 := instAt_of_single (h := h) hfs rfl
            refine ⟨Or.inr ⟨_, hfs, rfl⟩, ?_⟩
            rw [hi0]
            simp only
            rw [hi1]
            exact .create v rfl rfl e2 hev
        · exfalso
          have : (findInstance c.insts h).isSome = true := by simp [findInstance, hc, hsh]
          exact hnone this

theorem ctrl_onTimeout_node {N : Type} (cfg : Cfg) (h : Nat) (A : Msg → Prop) (i : N) (c : Ctrl) (r : Nat)
    (hs : Shape h c) :
    Shape h (c.onTimeout cfg h r).ct ∧
    NStep cfg h A i (instAt h c) (instAt h (c.onTimeout cfg h r).ct) (bcasts (c.onTimeout cfg h r).outs)
      (outEvents i (c.onTimeout cfg h r).outs) := by
  rcases hs with hc | ⟨s, hc, hsh⟩
  · unfold Ctrl.onTimeout
    simp only [hc, findInstance, List.find?_nil]
    exact ⟨Or.inl hc, .idle rfl rfl rfl⟩
  · have hf : findInstance c.insts h = some s := by simp [findInstance, hc, hsh]
    have hs : Shape h c := Or.inr ⟨s, hc, hsh⟩
    unfold Ctrl.onTimeout
    simp only [hf]
    split
    · exact ⟨hs, .idle rfl rfl rfl⟩
    · split
      · exact ⟨hs, .idle rfl rfl rfl⟩
      · have hi0 : instAt h c = some s := instAt_of_single hc hsh
        have key : ∀ (res : COutcome),
            Shape h (⟨{ c with insts := updateInstance c.insts (uponRoundTimeout cfg s).st }, (uponRoundTimeout cfg s).outs, res⟩ : CStep).ct ∧
            NStep cfg h A i (instAt h c)
              (instAt h (⟨{ c with insts := updateInstance c.insts (uponRoundTimeout cfg s).st }, (uponRoundTimeout cfg s).outs, res⟩ : CStep).ct)
              (bcasts (uponRoundTimeout cfg s).outs) (outEvents i (uponRoundTimeout cfg s).outs) := by
          intro res
          by_cases hcp : canProcess cfg s = true
          · have e := uponRoundTimeout_progress cfg s hcp
            have hins : updateInstance c.insts (uponRoundTimeout cfg s).st = [{ s with round := s.round + 1, accepted := none }] := by
              rw [e, hc]; simp [updateInstance]
            have hi1 : instAt h (⟨{ c with insts := updateInstance c.insts (uponRoundTimeout cfg s).st }, (uponRoundTimeout cfg s).outs, res⟩ : CStep).ct =
                some { s with round := s.round + 1, accepted := none } := instAt_of_single hins hsh
            refine ⟨Or.inr ⟨_, hins, hsh⟩, ?_⟩
            rw [hi0, hi1, e]
            refine .jump s s.roundChange (s.round + 1) rfl (Nat.lt_succ_self _) rfl (Or.inr ⟨rfl, ?_⟩)
            simp only [outEvents, List.append_nil]
            exact msgEvents_roundChange i cfg s (s.round + 1)
          · have hc' : canProcess cfg s = false := by simpa using hcp
            have e : uponRoundTimeout cfg s = ⟨s, [], .err [.stoppedTimeouts]⟩ := by
              unfold uponRoundTimeout; simp [hc']
            have hins : updateInstance c.insts (uponRoundTimeout cfg s).st = [s] := by
              rw [e, hc]; simp [updateInstance]
            have hi1 : instAt h (⟨{ c with insts := updateInstance c.insts (uponRoundTimeout cfg s).st }, (uponRoundTimeout cfg s).outs, res⟩ : CStep).ct =
                some s := instAt_of_single hins hsh
            refine ⟨Or.inr ⟨_, hins, hsh⟩, ?_⟩
            rw [hi0, hi1, e]
            exact .idle rfl rfl rfl
        split
        · exact key _
        · exact key _
        · exact key _

end Ssv.Qbft.B
