/- Helper lemmas for C03 (duty runner). Core Lean only. -/
import Ssv.Model.Runner

namespace Ssv.Runner

/-! ### which outputs can be signatures -/

theorem mem_signAll {tag : SignTag} {objs : List Nat} {slot : Nat} {dom : Dom} {e : Ev} (h : e ∈ signAll tag objs slot dom) :
    ∃ o ∈ objs, e = .sign tag o (epochOf slot) dom := by
  simp only [signAll, List.mem_map] at h
  obtain ⟨o, ho, rfl⟩ := h
  exact ⟨o, ho, rfl⟩

theorem submitEvents_not_sign (o : PartialSig.Out) : ∀ e ∈ submitEvents o, e.isSign = false := by
  intro e he
  cases o <;> simp only [submitEvents, List.mem_map, List.not_mem_nil] at he
  all_goals (obtain ⟨_, _, rfl⟩ := he; rfl)

/-- pre-consensus messages never sign -/
theorem processPre_no_sign (st : RSt) (m : PartialSig.Msg) (slot : Nat) (iok : Bool) :
    ∀ e ∈ (processPre st m slot iok).2.2, e.isSign = false := by
  unfold processPre
  split
  · simp
  · split
    · simp
    · simp only []
      split
      · exact submitEvents_not_sign _
      · split <;> simp

/-- post-consensus messages never sign -/
theorem processPost_no_sign (st : RSt) (m : PartialSig.Msg) (slot : Nat) :
    ∀ e ∈ (processPost st m slot).2.2, e.isSign = false := by
  unfold processPost
  split
  · simp
  · split
    · simp
    · split
      · split
        · simp
        · exact submitEvents_not_sign _
      · simp

/-! ### the controller -/

theorem setInst_duty (st : RSt) (id : Nat) (i : Inst) : (setInst st id i).duty = st.duty := rfl
theorem newInst_duty (st : RSt) (i : Inst) : (newInst st i).1.duty = st.duty := rfl
theorem setInst_role (st : RSt) (id : Nat) (i : Inst) : (setInst st id i).role = st.role := rfl
theorem newInst_role (st : RSt) (i : Inst) : (newInst st i).1.role = st.role := rfl

/-- the controller never touches the runner's duty state or role -/
theorem ctlProcess_duty (st : RSt) (c : ConsIn) : (ctlProcess st c).1.duty = st.duty ∧ (ctlProcess st c).1.role = st.role := by
  unfold ctlProcess
  split
  · exact ⟨rfl, rfl⟩
  · split
    · unfold uponDecided
      split
      · exact ⟨rfl, rfl⟩
      · split
        · simp only []
          split <;> exact ⟨rfl, rfl⟩
        · split
          · exact ⟨rfl, rfl⟩
          · split
            · simp only []
              split <;> exact ⟨rfl, rfl⟩
            · simp only []
              split <;> exact ⟨rfl, rfl⟩
    · split
      · exact ⟨rfl, rfl⟩
      · unfold uponExisting
        split
        · exact ⟨rfl, rfl⟩
        · split
          · exact ⟨rfl, rfl⟩
          · split
            · exact ⟨rfl, rfl⟩
            · split
              · exact ⟨rfl, rfl⟩
              · split <;> exact ⟨rfl, rfl⟩

/-- a reported decision is for the message's height and value and is backed by a valid certificate or by the
    instance's own decision; the message carried the controller's identifier -/
theorem ctlProcess_decided_sound (st : RSt) (c : ConsIn) (h : Nat) (v : Val)
    (hd : (ctlProcess st c).2 = .decidedMsg h v) :
    c.idOk = true ∧ h = c.height ∧ v = c.value ∧
    ((c.isDecided = true ∧ c.valid = true) ∨ (c.isDecided = false ∧ c.instDecides = true ∧ c.instErr = false)) := by
  unfold ctlProcess at hd
  split at hd
  · cases hd
  · next hid =>
    have hid' : c.idOk = true := by simpa using hid
    split at hd
    · next hdec =>
      unfold uponDecided at hd
      split at hd
      · cases hd
      · next hv =>
        have hv' : c.valid = true := by simpa using hv
        split at hd
        · simp only [] at hd
          injection hd with h1 h2
          exact ⟨hid', h1.symm, h2.symm, Or.inl ⟨hdec, hv'⟩⟩
        · split at hd
          · cases hd
          · split at hd
            · simp only [] at hd
              injection hd with h1 h2
              exact ⟨hid', h1.symm, h2.symm, Or.inl ⟨hdec, hv'⟩⟩
            · simp only [] at hd
              cases hd
    · next hdec =>
      have hdec' : c.isDecided = false := by simpa using hdec
      split at hd
      · cases hd
      · unfold uponExisting at hd
        split at hd
        · cases hd
        · split at hd
          · cases hd
          · split at hd
            · cases hd
            · next herr =>
              split at hd
              · cases hd
              · next hdecides =>
                split at hd
                · cases hd
                · injection hd with h1 h2
                  exact ⟨hid', h1.symm, h2.symm, Or.inr ⟨hdec', by simpa using hdecides, by simpa using herr⟩⟩

/-! ### where signatures come from -/

theorem startDuty_sign (st : RSt) (slot : Nat) (pre : List Nat) (iok : Bool) (e : Ev)
    (he : e ∈ (startDuty st slot pre iok).2.2) (hs : e.isSign = true) :
    st.role.signsAtStart = true ∧ (startDuty st slot pre iok).2.1 = true ∧
    ∃ o ∈ pre, e = .sign (.atStart slot) o (epochOf slot) st.role.preDomain := by
  by_cases hr : refuseDuty st slot = true
  · simp [startDuty, hr] at he
  · by_cases hsa : st.role.signsAtStart = true
    · simp only [startDuty, hr, hsa, if_true, Bool.false_eq_true, if_false] at he ⊢
      rcases List.mem_append.1 he with h | h
      · obtain ⟨o, ho, rfl⟩ := mem_signAll h
        exact ⟨trivial, trivial, o, ho, rfl⟩
      · simp only [List.mem_singleton] at h
        subst h
        simp [Ev.isSign] at hs
    · simp [startDuty, hr, hsa] at he

theorem processConsG_sign (pd : Bool) (st : RSt) (c : ConsIn) (e : Ev)
    (he : e ∈ (processConsG pd st c).2.2) (hs : e.isSign = true) :
    ∃ h v d rid, (ctlProcess st c).2 = .decidedMsg h v ∧ st.duty = some d ∧ d.finished = false ∧ d.running = some rid ∧
      heightOf (ctlProcess st c).1 rid = h ∧ pd = false ∧ st.role.hasConsensus = true ∧
      v.decodeOk = true ∧ v.vcOk = true ∧ v.getOk = true ∧
      (processConsG pd st c).1 = { (ctlProcess st c).1 with highestDecidedSlot := v.slot, duty := some { d with decidedValue := some v } } ∧
      (processConsG pd st c).2.2 = signAll (.decided h) v.objs v.slot st.role.postDomain ++ [.bcast v.objs] ∧
      ∃ o ∈ v.objs, e = .sign (.decided h) o (epochOf v.slot) st.role.postDomain := by
  unfold processConsG at he ⊢
  split at he
  · simp at he
  · next hcons =>
    have hcons' : st.role.hasConsensus = true := by simpa using hcons
    obtain ⟨hduty, _⟩ := ctlProcess_duty st c
    simp only [hcons] at he ⊢
    generalize hctl : ctlProcess st c = r at he hduty ⊢
    obtain ⟨st1, out⟩ := r
    simp only [] at he hduty ⊢
    cases out with
    | err => simp at he
    | nothing => simp at he
    | decidedMsg h v =>
      simp only [] at he ⊢
      split at he
      · simp at he
      · next d hd =>
        simp only [hd] at ⊢
        split at he
        · simp at he
        · next hfin =>
          simp only [hfin] at ⊢
          split at he
          · simp at he
          · next rid hrun =>
            simp only [hrun] at ⊢
            split at he
            · simp at he
            · next hh =>
              simp only [hh] at ⊢
              split at he
              · simp at he
              · next hprev =>
                simp only [hprev] at ⊢
                split at he
                · simp at he
                · next hdec =>
                  simp only [hdec] at ⊢
                  split at he
                  · simp at he
                  · next hvc =>
                    simp only [hvc] at ⊢
                    split at he
                    · simp at he
                    · next hget =>
                      simp only [hget] at ⊢
                      rcases List.mem_append.1 he with hm | hm
                      · obtain ⟨o, ho, rfl⟩ := mem_signAll hm
                        refine ⟨h, v, d, rid, rfl, by rw [← hduty]; exact hd, by simpa using hfin, hrun, ?_,
                          by simpa using hprev, hcons', by simpa using hdec, by simpa using hvc, by simpa using hget, ?_, ?_, o, ho, rfl⟩
                        · simp only [ne_eq, Decidable.not_not] at hh
                          exact hh.symm
                        · have hf : d.finished = false := by simpa using hfin
                          cases d
                          simp_all
                        · simp
                      · simp only [List.mem_singleton] at hm
                        subst hm
                        simp [Ev.isSign] at hs

/-! ### the role never changes -/

theorem startNewInstance_role (st : RSt) (h : Nat) (ok : Bool) : (startNewInstance st h ok).1.role = st.role := by
  unfold startNewInstance
  split
  · rfl
  · split
    · rfl
    · split
      · rfl
      · simp only []
        split <;> rfl

theorem decideDuty_role (st : RSt) (d : DutySt) (ok : Bool) : (decideDuty st d ok).1.role = st.role := by
  have := startNewInstance_role st d.slot ok
  unfold decideDuty
  split
  · next st1 heq => rw [heq] at this; exact this
  · next st1 id heq => rw [heq] at this; exact this

theorem step_role (st : RSt) (i : In) : (step st i).1.role = st.role := by
  cases i with
  | start slot pre iok =>
    simp only [step, startDuty]
    split
    · rfl
    · split
      · rfl
      · exact decideDuty_role _ _ _
  | pre m slot iok =>
    simp only [step, processPre]
    split
    · rfl
    · split
      · rfl
      · split
        · rfl
        · split
          · exact decideDuty_role _ _ _
          · rfl
  | cons c =>
    simp only [step, processCons, processConsG]
    split
    · rfl
    · have := (ctlProcess_duty st c).2
      generalize ctlProcess st c = r at this
      obtain ⟨st1, out⟩ := r
      simp only [] at this ⊢
      cases out <;> simp only [] <;> repeat' split
      all_goals (first | exact this | rfl)
  | post m slot =>
    simp only [step, processPost]
    repeat' split
    all_goals rfl
  | «foreign» => rfl


/-! ### heap and container facts -/

theorem heightOf_heap (st st' : RSt) (h : st'.heap = st.heap) (id : Nat) : heightOf st' id = heightOf st id := by
  unfold heightOf; rw [h]

theorem heightOf_setInst (st : RSt) (id : Nat) (j i : Inst) (hj : instOf st id = some j) (hh : i.height = j.height)
    (rid : Nat) : heightOf (setInst st id i) rid = heightOf st rid := by
  unfold heightOf setInst instOf at *
  simp only []
  by_cases e : id = rid
  · subst e
    obtain ⟨hlt, hget⟩ := List.getElem?_eq_some_iff.1 hj
    simp [hlt, hget, hh]
  · rw [List.getElem?_set_ne e]

theorem heightOf_append (st : RSt) (i : Inst) (rid : Nat) (h : rid < st.heap.length) :
    heightOf { st with heap := st.heap ++ [i] } rid = heightOf st rid := by
  unfold heightOf
  simp only []
  rw [List.getElem?_append_left h]

theorem heightOf_append_new (st : RSt) (i : Inst) :
    heightOf { st with heap := st.heap ++ [i] } st.heap.length = i.height := by
  unfold heightOf
  simp

theorem cap_pos : 0 < Gen.ctrl_InstanceContainerDefaultCapacity := by decide

theorem mem_addNewInstance (st : RSt) (id h x : Nat) (hx : x ∈ addNewInstance st id h) : x ∈ st.stored ∨ x = id := by
  unfold addNewInstance at hx
  simp only [] at hx
  generalize insertIdx st h = idx at hx
  split at hx
  · split at hx
    · rcases List.mem_append.1 hx with a | a
      · exact Or.inl a
      · exact Or.inr (by simpa using a)
    · exact Or.inl hx
  · split at hx
    · have := (List.dropLast_sublist _).subset hx
      simp only [List.mem_append, List.mem_singleton] at this
      rcases this with (a | a) | a
      · exact Or.inl (List.mem_of_mem_take a)
      · exact Or.inr a
      · exact Or.inl (List.mem_of_mem_drop a)
    · simp only [List.mem_append, List.mem_singleton] at hx
      rcases hx with (a | a) | a
      · exact Or.inl (List.mem_of_mem_take a)
      · exact Or.inr a
      · exact Or.inl (List.mem_of_mem_drop a)

theorem addNewInstance_ne_nil (st : RSt) (id h : Nat) : addNewInstance st id h ≠ [] := by
  unfold addNewInstance
  simp only []
  generalize insertIdx st h = idx
  split
  · split
    · simp
    · next hlt =>
      intro e
      rw [e] at hlt
      exact hlt cap_pos
  · next hidx =>
    split
    · next hcap =>
      intro e
      have hl := congrArg List.length e
      simp only [List.length_dropLast, List.length_append, List.length_take, List.length_drop, List.length_cons,
        List.length_nil] at hl
      have := cap_pos
      omega
    · simp

/-- the controller part of the state is well formed: stored ids are allocated and not above the controller height -/
def StoredOK (st : RSt) : Prop := ∀ id ∈ st.stored, id < st.heap.length ∧ heightOf st id ≤ st.ctrlHeight

/-- `st1` extends `st`: controller height and heap only grow, existing instance heights are unchanged, a non-empty
    container stays non-empty, role and duty untouched -/
structure Ext (st st1 : RSt) : Prop where
  ch : st.ctrlHeight ≤ st1.ctrlHeight
  len : st.heap.length ≤ st1.heap.length
  hts : ∀ rid, rid < st.heap.length → heightOf st1 rid = heightOf st rid
  ne : st.stored ≠ [] → st1.stored ≠ []
  role : st1.role = st.role
  duty : st1.duty = st.duty

theorem Ext.refl (st : RSt) : Ext st st := ⟨Nat.le_refl _, Nat.le_refl _, fun _ _ => rfl, id, rfl, rfl⟩

theorem Ext.trans {a b c : RSt} (h1 : Ext a b) (h2 : Ext b c) : Ext a c :=
  ⟨Nat.le_trans h1.ch h2.ch, Nat.le_trans h1.len h2.len,
   fun rid hr => by rw [h2.hts rid (Nat.lt_of_lt_of_le hr h1.len), h1.hts rid hr],
   fun h => h2.ne (h1.ne h), by rw [h2.role, h1.role], by rw [h2.duty, h1.duty]⟩

/-- marking an instance decided -/
theorem setInst_ext (st : RSt) (id : Nat) (j i : Inst) (hj : instOf st id = some j) (hh : i.height = j.height)
    (H' : Nat) (hH : st.ctrlHeight ≤ H') (hok : StoredOK st) :
    Ext st { setInst st id i with ctrlHeight := H' } ∧ StoredOK { setInst st id i with ctrlHeight := H' } := by
  have hht : ∀ rid, heightOf { setInst st id i with ctrlHeight := H' } rid = heightOf st rid := fun rid =>
    (heightOf_heap _ (setInst st id i) rfl rid).trans (heightOf_setInst st id j i hj hh rid)
  refine ⟨⟨hH, by simp [setInst], fun rid _ => hht rid, fun h => h, rfl, rfl⟩, ?_⟩
  intro x hx
  obtain ⟨a, b⟩ := hok x hx
  refine ⟨by simpa [setInst] using a, ?_⟩
  rw [hht]; exact Nat.le_trans b hH

/-- allocating an instance and putting it into the container -/
theorem newInst_ext (st : RSt) (i : Inst) (H' : Nat) (hH : st.ctrlHeight ≤ H') (hi : i.height ≤ H') (hok : StoredOK st) :
    Ext st { (newInst st i).1 with ctrlHeight := H' } ∧ StoredOK { (newInst st i).1 with ctrlHeight := H' } ∧
    (newInst st i).2 = st.heap.length ∧ heightOf (newInst st i).1 st.heap.length = i.height ∧
    (newInst st i).1.stored ≠ [] := by
  have hold : ∀ rid, rid < st.heap.length → heightOf { (newInst st i).1 with ctrlHeight := H' } rid = heightOf st rid := by
    intro rid hr
    exact (heightOf_heap _ { st with heap := st.heap ++ [i] } rfl rid).trans (heightOf_append st i rid hr)
  have hnew : heightOf (newInst st i).1 st.heap.length = i.height :=
    (heightOf_heap _ { st with heap := st.heap ++ [i] } rfl _).trans (heightOf_append_new st i)
  have hne : (newInst st i).1.stored ≠ [] := by
    simp only [newInst]; exact addNewInstance_ne_nil _ _ _
  refine ⟨⟨hH, by simp [newInst], hold, fun _ => hne, rfl, rfl⟩, ?_, rfl, hnew, hne⟩
  intro x hx
  have hx' : x ∈ addNewInstance { st with heap := st.heap ++ [i] } st.heap.length i.height := hx
  rcases mem_addNewInstance _ _ _ _ hx' with a | a
  · obtain ⟨v1, v2⟩ := hok x a
    refine ⟨by simp [newInst]; omega, ?_⟩
    rw [hold x v1]; exact Nat.le_trans v2 hH
  · subst a
    refine ⟨by simp [newInst], ?_⟩
    have e := (heightOf_heap { (newInst st i).1 with ctrlHeight := H' } (newInst st i).1 rfl st.heap.length).trans hnew
    exact Nat.le_trans (Nat.le_of_eq e) hi


theorem bump_ext (st : RSt) (H' : Nat) (hH : st.ctrlHeight ≤ H') (hok : StoredOK st) :
    Ext st { st with ctrlHeight := H' } ∧ StoredOK { st with ctrlHeight := H' } := by
  refine ⟨⟨hH, Nat.le_refl _, fun _ _ => rfl, fun h => h, rfl, rfl⟩, ?_⟩
  intro x hx
  obtain ⟨a, b⟩ := hok x hx
  exact ⟨a, Nat.le_trans b hH⟩

/-- the controller keeps its part of the state well formed and only extends it -/
theorem ctlProcess_ext (st : RSt) (c : ConsIn) (hok : StoredOK st) :
    Ext st (ctlProcess st c).1 ∧ StoredOK (ctlProcess st c).1 := by
  unfold ctlProcess
  split
  · exact ⟨Ext.refl st, hok⟩
  · split
    · unfold uponDecided
      split
      · exact ⟨Ext.refl st, hok⟩
      · split
        · -- no instance for the height: allocate one
          simp only []
          split
          · next hfut =>
            have hfut' : c.height > st.ctrlHeight := by simpa using hfut
            obtain ⟨a, b, _⟩ := newInst_ext st { height := c.height, decided := true, value := some c.value } c.height
              (Nat.le_of_lt hfut') (Nat.le_refl _) hok
            exact ⟨a, b⟩
          · next hfut =>
            have hfut' : c.height ≤ st.ctrlHeight := by simpa using hfut
            obtain ⟨a, b, _⟩ := newInst_ext st { height := c.height, decided := true, value := some c.value } st.ctrlHeight
              (Nat.le_refl _) hfut' hok
            exact ⟨a, b⟩
        · next id hf =>
          split
          · exact ⟨Ext.refl st, hok⟩
          · next i hi =>
            split
            · simp only []
              split
              · next hfut =>
                have hfut' : c.height > st.ctrlHeight := by simpa using hfut
                exact setInst_ext st id i { i with decided := true, value := some c.value } hi rfl c.height (Nat.le_of_lt hfut') hok
              · exact setInst_ext st id i { i with decided := true, value := some c.value } hi rfl st.ctrlHeight (Nat.le_refl _) hok
            · simp only []
              split
              · next hfut =>
                have hfut' : c.height > st.ctrlHeight := by simpa using hfut
                exact bump_ext st c.height (Nat.le_of_lt hfut') hok
              · exact ⟨Ext.refl st, hok⟩
    · split
      · exact ⟨Ext.refl st, hok⟩
      · unfold uponExisting
        split
        · exact ⟨Ext.refl st, hok⟩
        · next id hf =>
          split
          · exact ⟨Ext.refl st, hok⟩
          · next i hi =>
            split
            · exact ⟨Ext.refl st, hok⟩
            · split
              · exact ⟨Ext.refl st, hok⟩
              · split
                · exact ⟨Ext.refl st, hok⟩
                · exact setInst_ext st id i { i with decided := true, value := some c.value } hi rfl st.ctrlHeight (Nat.le_refl _) hok

theorem findInst_some (st : RSt) (h id : Nat) (hf : findInst st h = some id) : id ∈ st.stored ∧ heightOf st id = h := by
  unfold findInst at hf
  have := List.find?_some hf
  exact ⟨List.mem_of_find?_eq_some hf, by simpa using this⟩

/-- `StartNewInstance`: the controller part stays well formed; on success the returned instance is allocated, stored, has
    the requested height, and that height is the new controller height -/
theorem startNewInstance_ext (st : RSt) (height : Nat) (ok : Bool) (hok : StoredOK st) :
    Ext st (startNewInstance st height ok).1 ∧ StoredOK (startNewInstance st height ok).1 ∧
    ∀ id, (startNewInstance st height ok).2 = some id →
      id < (startNewInstance st height ok).1.heap.length ∧ heightOf (startNewInstance st height ok).1 id = height ∧
      (startNewInstance st height ok).1.ctrlHeight = height ∧ (startNewInstance st height ok).1.stored ≠ [] ∧
      st.ctrlHeight ≤ height ∧ findInst st height = none := by
  unfold startNewInstance
  split
  · exact ⟨Ext.refl st, hok, fun _ h => by cases h⟩
  · split
    · exact ⟨Ext.refl st, hok, fun _ h => by cases h⟩
    · next hlt =>
      have hle : st.ctrlHeight ≤ height := by omega
      split
      · exact ⟨Ext.refl st, hok, fun _ h => by cases h⟩
      · next hnone =>
        have hnone' : findInst st height = none := by
          cases hf : findInst st height with
          | none => rfl
          | some x => rw [hf] at hnone; simp at hnone
        obtain ⟨b1, b2⟩ := bump_ext st height hle hok
        obtain ⟨a, b, _, _, hne⟩ := newInst_ext { st with ctrlHeight := height } { height := height, decided := false, value := none }
          height (Nat.le_refl _) (Nat.le_refl _) b2
        have hext : Ext st (newInst { st with ctrlHeight := height } { height := height, decided := false, value := none }).1 :=
          Ext.trans b1 a
        simp only []
        split
        · exact ⟨hext, b, fun _ h => by cases h⟩
        · next found hfound =>
          refine ⟨hext, b, ?_⟩
          intro id hid
          simp only [Option.some.injEq] at hid
          subst hid
          obtain ⟨m1, m2⟩ := findInst_some _ _ _ hfound
          exact ⟨(b found m1).1, m2, rfl, hne, hle, hnone'⟩


/-! ### the at-most-once invariant -/

/-- `H`: heights for which a decided object has been signed so far -/
structure Inv (st : RSt) (H : List Nat) : Prop where
  ok : StoredOK st
  noCons : st.role.hasConsensus = false → H = []
  le : ∀ h ∈ H, h ≤ st.ctrlHeight
  ne : (0 ∈ H ∨ ∃ d rid, st.duty = some d ∧ d.running = some rid) → st.stored ≠ []
  run : ∀ d rid, st.duty = some d → d.running = some rid →
    rid < st.heap.length ∧ heightOf st rid = d.slot ∧ d.slot ≤ st.ctrlHeight
  fresh : ∀ d, st.duty = some d → d.decidedValue = none → d.slot ∈ H → d.running = none ∧ d.slot = 0

theorem Inv.init (role : Role) (n : Nat) : Inv (init role n) [] := by
  refine ⟨?_, fun _ => rfl, ?_, ?_, ?_, ?_⟩
  · intro id h; simp [Runner.init] at h
  · intro h hh; cases hh
  · intro h
    rcases h with h | ⟨_, _, h, _⟩
    · cases h
    · simp [Runner.init] at h
  · intro d rid h; simp [Runner.init] at h
  · intro d h; simp [Runner.init] at h

/-- same controller part, duty replaced by one with the same slot and running instance (and not "less decided") -/
theorem Inv.of_same {st st' : RSt} {H : List Nat} (hinv : Inv st H) (h1 : st'.ctrlHeight = st.ctrlHeight)
    (h2 : st'.stored = st.stored) (h3 : st'.heap = st.heap) (h4 : st'.role = st.role)
    (hd : ∀ d', st'.duty = some d' → ∃ d, st.duty = some d ∧ d'.slot = d.slot ∧ d'.running = d.running ∧
        (d'.decidedValue = none → d.decidedValue = none)) : Inv st' H := by
  have hht : ∀ id, heightOf st' id = heightOf st id := heightOf_heap st st' h3
  refine ⟨?_, ?_, ?_, ?_, ?_, ?_⟩
  · intro id hid
    rw [h2] at hid
    obtain ⟨a, b⟩ := hinv.ok id hid
    exact ⟨by rw [h3]; exact a, by rw [hht, h1]; exact b⟩
  · rw [h4]; exact hinv.noCons
  · intro h hh; rw [h1]; exact hinv.le h hh
  · intro h
    rw [h2]
    apply hinv.ne
    rcases h with h | ⟨d', rid, hd', hr⟩
    · exact Or.inl h
    · obtain ⟨d, e1, _, e3, _⟩ := hd d' hd'
      exact Or.inr ⟨d, rid, e1, by rw [← e3]; exact hr⟩
  · intro d' rid hd' hr
    obtain ⟨d, e1, e2, e3, _⟩ := hd d' hd'
    obtain ⟨a, b, c⟩ := hinv.run d rid e1 (by rw [← e3]; exact hr)
    exact ⟨by rw [h3]; exact a, by rw [hht, e2]; exact b, by rw [e2, h1]; exact c⟩
  · intro d' hd' hnone hmem
    obtain ⟨d, e1, e2, e3, e4⟩ := hd d' hd'
    obtain ⟨a, b⟩ := hinv.fresh d e1 (e4 hnone) (by rw [← e2]; exact hmem)
    exact ⟨by rw [e3]; exact a, by rw [e2]; exact b⟩

/-- the controller made a step -/
theorem Inv.ext {st st1 : RSt} {H : List Nat} (hinv : Inv st H) (hext : Ext st st1) (hok : StoredOK st1) : Inv st1 H := by
  refine ⟨hok, ?_, ?_, ?_, ?_, ?_⟩
  · rw [hext.role]; exact hinv.noCons
  · intro h hh; exact Nat.le_trans (hinv.le h hh) hext.ch
  · intro h
    apply hext.ne
    apply hinv.ne
    rw [hext.duty] at h; exact h
  · intro d rid hd hr
    rw [hext.duty] at hd
    obtain ⟨a, b, c⟩ := hinv.run d rid hd hr
    exact ⟨Nat.lt_of_lt_of_le a hext.len, by rw [hext.hts rid a]; exact b, Nat.le_trans c hext.ch⟩
  · intro d hd; rw [hext.duty] at hd; exact hinv.fresh d hd

/-- `BaseRunner.decide` keeps the invariant -/
theorem decideDuty_inv (st : RSt) (d : DutySt) (ok : Bool) (H : List Nat) (hinv : Inv { st with duty := some d } H) :
    Inv (decideDuty st d ok).1 H := by
  have hok : StoredOK st := hinv.ok
  obtain ⟨hext, hok1, hsucc⟩ := startNewInstance_ext st d.slot ok hok
  unfold decideDuty
  generalize hr : startNewInstance st d.slot ok = r at hext hok1 hsucc
  obtain ⟨st1, res⟩ := r
  simp only [] at hext hok1 hsucc
  cases res with
  | none =>
    simp only []
    have hext' : Ext { st with duty := some d } { st1 with duty := some d } :=
      ⟨hext.ch, hext.len, hext.hts, hext.ne, hext.role, rfl⟩
    exact hinv.ext hext' hok1
  | some id =>
    simp only []
    obtain ⟨s1, s2, s3, s4, s5, s6⟩ := hsucc id rfl
    refine ⟨hok1, ?_, ?_, fun _ => s4, ?_, ?_⟩
    · show st1.role.hasConsensus = false → H = []
      rw [hext.role]; exact hinv.noCons
    · intro h hh; exact Nat.le_trans (hinv.le h hh) hext.ch
    · intro d' rid hd' hrun
      simp only [Option.some.injEq] at hd'
      subst hd'
      simp only [Option.some.injEq] at hrun
      subst hrun
      exact ⟨s1, s2, Nat.le_of_eq s3.symm⟩
    · intro d' hd' hnone hmem
      simp only [Option.some.injEq] at hd'
      subst hd'
      exfalso
      obtain ⟨_, hz⟩ := hinv.fresh d rfl hnone hmem
      -- slot 0 was signed before and the controller is still at height 0: an instance of height 0 is stored
      have hmem0 : (0 : Nat) ∈ H := hz ▸ hmem
      have hne : st.stored ≠ [] := hinv.ne (Or.inl hmem0)
      obtain ⟨x, hx⟩ := List.exists_mem_of_ne_nil _ hne
      obtain ⟨_, hxh⟩ := hok x hx
      have hc0 : st.ctrlHeight = 0 := by rw [hz] at s5; omega
      have hx0 : heightOf st x = 0 := by rw [hc0] at hxh; omega
      rw [hz] at s6
      unfold findInst at s6
      have := List.find?_eq_none.1 s6 x hx
      simp [hx0] at this


/-! ### signatures of one input -/

theorem evSigns_nil_of (evs : List Ev) (h : ∀ e ∈ evs, e.isSign = false) : evSigns evs = [] := by
  unfold evSigns
  rw [List.filterMap_eq_nil_iff]
  intro e he
  have := h e he
  cases e <;> simp [Ev.isSign] at this ⊢

theorem evSigns_atStart (slot : Nat) (objs : List Nat) (s : Nat) (dom : Dom) (rest : List Nat) :
    evSigns (signAll (.atStart slot) objs s dom ++ [.bcast rest]) = [] := by
  unfold evSigns signAll
  rw [List.filterMap_eq_nil_iff]
  intro e he
  simp only [List.mem_append, List.mem_map, List.mem_singleton] at he
  rcases he with ⟨o, _, rfl⟩ | rfl <;> rfl

theorem evSigns_decided (h : Nat) (objs : List Nat) (s : Nat) (dom : Dom) (rest : List Nat) :
    evSigns (signAll (.decided h) objs s dom ++ [.bcast rest]) = objs.map fun o => (h, o) := by
  unfold evSigns signAll
  rw [List.filterMap_append, List.filterMap_map]
  simp [Function.comp_def]

/-- shape of the state after a consensus message -/
theorem processConsG_shape (pd : Bool) (st : RSt) (c : ConsIn) :
    (processConsG pd st c).1 = st ∨
    ((processConsG pd st c).1.ctrlHeight = (ctlProcess st c).1.ctrlHeight ∧
     (processConsG pd st c).1.stored = (ctlProcess st c).1.stored ∧
     (processConsG pd st c).1.heap = (ctlProcess st c).1.heap ∧
     (processConsG pd st c).1.role = (ctlProcess st c).1.role ∧
     ((processConsG pd st c).1.duty = (ctlProcess st c).1.duty ∨
      ∃ d v, (ctlProcess st c).1.duty = some d ∧ (processConsG pd st c).1.duty = some { d with decidedValue := some v })) := by
  unfold processConsG
  split
  · exact Or.inl rfl
  · right
    generalize ctlProcess st c = r
    obtain ⟨st1, out⟩ := r
    cases out with
    | err => exact ⟨rfl, rfl, rfl, rfl, Or.inl rfl⟩
    | nothing => exact ⟨rfl, rfl, rfl, rfl, Or.inl rfl⟩
    | decidedMsg h v =>
      simp only []
      split
      · exact ⟨rfl, rfl, rfl, rfl, Or.inl rfl⟩
      · next d hd =>
        repeat' split
        all_goals first
          | exact ⟨rfl, rfl, rfl, rfl, Or.inl rfl⟩
          | exact ⟨rfl, rfl, rfl, rfl, Or.inr ⟨d, v, hd, rfl⟩⟩


/-- a consensus message: the invariant continues with the (possibly) newly signed height, which is new -/
theorem processConsG_inv (pd : Bool) (st : RSt) (c : ConsIn) (H : List Nat) (hinv : Inv st H)
    (hpd : pd = false → ∀ d, st.duty = some d → d.finished = false → d.decidedValue = none)
    (hobjs : c.value.objs.Nodup) :
    Inv (processConsG pd st c).1 (H ++ (evSigns (processConsG pd st c).2.2).map (·.1)) ∧
    (evSigns (processConsG pd st c).2.2).Nodup ∧ ∀ p ∈ evSigns (processConsG pd st c).2.2, p.1 ∉ H := by
  obtain ⟨hext, hok1⟩ := ctlProcess_ext st c hinv.ok
  have hinv1 : Inv (ctlProcess st c).1 H := hinv.ext hext hok1
  by_cases hsig : ∃ e ∈ (processConsG pd st c).2.2, e.isSign = true
  · -- the signing branch
    obtain ⟨e, he, hs⟩ := hsig
    obtain ⟨h, v, d, rid, hctl, hd, hfin, hr, hh, hpdf, hcons, _, _, _, hstate, hevs, _⟩ := processConsG_sign pd st c e he hs
    obtain ⟨_, _, hv, _⟩ := ctlProcess_decided_sound st c h v hctl
    obtain ⟨r1, r2, r3⟩ := hinv.run d rid hd hr
    have hslot : h = d.slot := by rw [← hh, hext.hts rid r1]; exact r2
    have hnone : d.decidedValue = none := hpd hpdf d hd hfin
    have hnotin : d.slot ∉ H := by
      intro hm
      have := (hinv.fresh d hd hnone hm).1
      rw [hr] at this; cases this
    rw [hevs, evSigns_decided]
    refine ⟨?_, ?_, ?_⟩
    · rw [hstate]
      have hd1 : (ctlProcess st c).1.duty = some d := by rw [hext.duty]; exact hd
      obtain ⟨q1, q2, q3⟩ := hinv1.run d rid hd1 hr
      refine ⟨hok1, ?_, ?_, ?_, ?_, ?_⟩
      · intro hn
        have : (ctlProcess st c).1.role = st.role := hext.role
        rw [this, hcons] at hn; cases hn
      · intro x hx
        rcases List.mem_append.1 hx with a | a
        · exact hinv1.le x a
        · simp only [List.map_map, List.mem_map, Function.comp_apply] at a
          obtain ⟨_, _, rfl⟩ := a
          rw [hslot]; exact q3
      · intro _
        exact hinv1.ne (Or.inr ⟨d, rid, hd1, hr⟩)
      · intro d' rid' hd' hr'
        simp only [Option.some.injEq] at hd'
        subst hd'
        exact hinv1.run d rid' hd1 hr'
      · intro d' hd' hn
        simp only [Option.some.injEq] at hd'
        subst hd'
        cases hn
    · rw [hv]
      rw [List.Nodup, List.pairwise_map]
      exact hobjs.imp (fun hab e => hab (by simpa using e))
    · intro p hp
      simp only [List.mem_map] at hp
      obtain ⟨_, _, rfl⟩ := hp
      rw [hslot]; exact hnotin
  · -- nothing signed
    have hnos : ∀ e ∈ (processConsG pd st c).2.2, e.isSign = false := by
      intro e he
      cases hs : e.isSign with
      | false => rfl
      | true => exact absurd ⟨e, he, hs⟩ hsig
    rw [evSigns_nil_of _ hnos]
    simp only [List.map_nil, List.append_nil, List.nodup_nil, List.not_mem_nil, false_imp_iff, implies_true, and_true]
    rcases processConsG_shape pd st c with e | ⟨s1, s2, s3, s4, s5⟩
    · rw [e]; exact hinv
    · apply hinv1.of_same s1 s2 s3 s4
      intro d' hd'
      rcases s5 with s5 | ⟨d, v, e1, e2⟩
      · exact ⟨d', by rw [← s5]; exact hd', rfl, rfl, fun h => h⟩
      · rw [e2] at hd'
        simp only [Option.some.injEq] at hd'
        subst hd'
        exact ⟨d, e1, rfl, rfl, fun h => by cases h⟩

theorem prevDecided_false (st : RSt) (h : prevDecided st = false) :
    ∀ d, st.duty = some d → d.finished = false → d.decidedValue = none := by
  intro d hd hfin
  simp only [prevDecided, Bool.or_eq_false_iff] at h
  have h2 := h.2
  simp only [dutyDecided, hd, hfin, Bool.not_false, Bool.true_and] at h2
  cases hv : d.decidedValue with
  | none => rfl
  | some v => rw [hv] at h2; simp at h2

/-- a duty-state update that keeps slot, running instance and decided value -/
theorem Inv.dutyTouch {st : RSt} {H : List Nat} (hinv : Inv st H) (d d' : DutySt) (hd : st.duty = some d)
    (h1 : d'.slot = d.slot) (h2 : d'.running = d.running) (h3 : d'.decidedValue = d.decidedValue) :
    Inv { st with duty := some d' } H := by
  apply hinv.of_same (st' := { st with duty := some d' }) rfl rfl rfl rfl
  intro d'' hd''
  simp only [Option.some.injEq] at hd''
  subst hd''
  exact ⟨d, hd, h1, h2, fun h => by rw [← h3]; exact h⟩

theorem startDuty_inv (st : RSt) (slot : Nat) (pre : List Nat) (iok : Bool) (H : List Nat) (hinv : Inv st H) :
    Inv (startDuty st slot pre iok).1 H ∧ evSigns (startDuty st slot pre iok).2.2 = [] := by
  unfold startDuty
  split
  · exact ⟨hinv, rfl⟩
  · next href =>
    -- a fresh duty state is compatible with the invariant
    have hfresh : Inv { st with duty := some (freshDuty slot pre) } H := by
      refine ⟨hinv.ok, hinv.noCons, hinv.le, ?_, ?_, ?_⟩
      · intro h
        apply hinv.ne
        rcases h with h | ⟨d, rid, hd, hr⟩
        · exact Or.inl h
        · simp only [Option.some.injEq] at hd
          subst hd
          simp [freshDuty] at hr
      · intro d rid hd hr
        simp only [Option.some.injEq] at hd
        subst hd
        simp [freshDuty] at hr
      · intro d hd _ hmem
        simp only [Option.some.injEq] at hd
        subst hd
        refine ⟨rfl, ?_⟩
        show slot = 0
        have hle := hinv.le slot hmem
        by_cases hc : st.role.hasConsensus = true
        · simp only [refuseDuty, hc, if_true, Bool.and_eq_true, decide_eq_true_eq, bne_iff_ne, ne_eq, not_and,
            Decidable.not_not] at href
          have := href hle
          omega
        · have : H = [] := hinv.noCons (by simpa using hc)
          rw [this] at hmem; cases hmem
    split
    · exact ⟨hfresh, evSigns_atStart _ _ _ _ _⟩
    · exact ⟨decideDuty_inv st _ iok H hfresh, rfl⟩

theorem processPre_inv (st : RSt) (m : PartialSig.Msg) (slot : Nat) (iok : Bool) (H : List Nat) (hinv : Inv st H) :
    Inv (processPre st m slot iok).1 H := by
  unfold processPre
  split
  · exact hinv
  · next d hd =>
    split
    · exact hinv
    · simp only []
      split
      · exact hinv.dutyTouch d _ hd rfl rfl rfl
      · split
        · exact decideDuty_inv st _ iok H (hinv.dutyTouch d _ hd rfl rfl rfl)
        · exact hinv.dutyTouch d _ hd rfl rfl rfl

theorem processPost_inv (st : RSt) (m : PartialSig.Msg) (slot : Nat) (H : List Nat) (hinv : Inv st H) :
    Inv (processPost st m slot).1 H := by
  unfold processPost
  split
  · exact hinv
  · split
    · exact hinv
    · next d hd =>
      split
      · split
        · exact hinv
        · exact hinv.dutyTouch d _ hd rfl rfl rfl
      · exact hinv

/-- one input -/
theorem step_inv (st : RSt) (i : In) (H : List Nat) (hinv : Inv st H)
    (hobjs : ∀ c, i = .cons c → c.value.objs.Nodup) :
    Inv (step st i).1 (H ++ (evSigns (step st i).2.2).map (·.1)) ∧
    (evSigns (step st i).2.2).Nodup ∧ ∀ p ∈ evSigns (step st i).2.2, p.1 ∉ H := by
  cases i with
  | start slot pre iok =>
    obtain ⟨a, b⟩ := startDuty_inv st slot pre iok H hinv
    simp only [step, b, List.map_nil, List.append_nil]
    exact ⟨a, List.nodup_nil, fun _ h => by cases h⟩
  | pre m slot iok =>
    simp only [step, evSigns_nil_of _ (processPre_no_sign st m slot iok), List.map_nil, List.append_nil]
    exact ⟨processPre_inv st m slot iok H hinv, List.nodup_nil, fun _ h => by cases h⟩
  | post m slot =>
    simp only [step, evSigns_nil_of _ (processPost_no_sign st m slot), List.map_nil, List.append_nil]
    exact ⟨processPost_inv st m slot H hinv, List.nodup_nil, fun _ h => by cases h⟩
  | «foreign» =>
    simp only [step, evSigns, List.filterMap_nil, List.map_nil, List.append_nil]
    exact ⟨hinv, List.nodup_nil, fun _ h => by cases h⟩
  | cons c =>
    simp only [step, processCons]
    exact processConsG_inv (prevDecided st) st c H hinv (prevDecided_false st) (hobjs c rfl)

/-- over every input sequence: no (decision height, root) is signed twice, also counting what was signed before -/
theorem run_decidedSigns_nodup (ins : List In) (st : RSt) (Sg : List (Nat × Nat)) (hSg : Sg.Nodup)
    (hinv : Inv st (Sg.map (·.1))) (hobjs : ∀ i ∈ ins, ∀ c, i = .cons c → c.value.objs.Nodup) :
    (Sg ++ decidedSigns (run st ins)).Nodup := by
  induction ins generalizing st Sg with
  | nil => simpa [run, decidedSigns] using hSg
  | cons i t ih =>
    obtain ⟨a, b, c⟩ := step_inv st i (Sg.map (·.1)) hinv (hobjs i (by simp))
    have hnd : (Sg ++ evSigns (step st i).2.2).Nodup := by
      rw [List.nodup_append]
      refine ⟨hSg, b, ?_⟩
      intro x hx y hy e
      subst e
      exact c x hy (List.mem_map_of_mem hx)
    have := ih (step st i).1 (Sg ++ evSigns (step st i).2.2) hnd (by rw [List.map_append]; exact a)
      (fun j hj => hobjs j (List.mem_cons_of_mem _ hj))
    simpa [run, decidedSigns, List.append_assoc] using this


end Ssv.Runner
