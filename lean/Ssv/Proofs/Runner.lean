/- Helper lemmas for C03 (duty runner). Core Lean only. -/
import Ssv.Model.Runner

namespace Ssv.Runner

/-! ### which outputs can be signatures -/

theorem mem_signAll {tag : SignTag} {objs : List Nat} {slot : Nat} {dom : Dom} {e : Ev} (h : e ∈ signAll tag objs slot dom) :
    ∃ o ∈ objs, e = .sign tag o (epochOf slot) dom := by
  simp only [signAll, List.mem_map] at h
  obtain ⟨o, ho, rfl⟩ := h
  exact ⟨o, ho, rfl⟩

theorem submitEvents_not_sign (o : PartialSig.Out) : ∀ e ∈ submitEvents o, e.isSign = false := by
  intro e he
  cases o <;> simp only [submitEvents, List.mem_map, List.not_mem_nil] at he
  all_goals (obtain ⟨_, _, rfl⟩ := he; rfl)

/-- pre-consensus messages never sign -/
theorem processPre_no_sign (st : RSt) (m : PartialSig.Msg) (slot : Nat) (iok : Bool) :
    ∀ e ∈ (processPre st m slot iok).2.2, e.isSign = false := by
  unfold processPre
  split
  · simp
  · split
    · simp
    · simp only []
      split
      · exact submitEvents_not_sign _
      · split <;> simp

/-- post-consensus messages never sign -/
theorem processPost_no_sign (st : RSt) (m : PartialSig.Msg) (slot : Nat) :
    ∀ e ∈ (processPost st m slot).2.2, e.isSign = false := by
  unfold processPost
  split
  · simp
  · split
    · simp
    · split
      · split
        · simp
        · exact submitEvents_not_sign _
      · simp

/-! ### the controller -/

theorem setInst_duty (st : RSt) (id : Nat) (i : Inst) : (setInst st id i).duty = st.duty := rfl
theorem newInst_duty (st : RSt) (i : Inst) : (newInst st i).1.duty = st.duty := rfl
theorem setInst_role (st : RSt) (id : Nat) (i : Inst) : (setInst st id i).role = st.role := rfl
theorem newInst_role (st : RSt) (i : Inst) : (newInst st i).1.role = st.role := rfl

/-- the controller never touches the runner's duty state or role -/
theorem ctlProcess_duty (st : RSt) (c : ConsIn) : (ctlProcess st c).1.duty = st.duty ∧ (ctlProcess st c).1.role = st.role := by
  unfold ctlProcess
  split
  · exact ⟨rfl, rfl⟩
  · split
    · unfold uponDecided
      split
      · exact ⟨rfl, rfl⟩
      · split
        · simp only []
          split <;> exact ⟨rfl, rfl⟩
        · split
          · exact ⟨rfl, rfl⟩
          · split
            · simp only []
              split <;> exact ⟨rfl, rfl⟩
            · simp only []
              split <;> exact ⟨rfl, rfl⟩
    · split
      · exact ⟨rfl, rfl⟩
      · unfold uponExisting
        split
        · exact ⟨rfl, rfl⟩
        · split
          · exact ⟨rfl, rfl⟩
          · split
            · exact ⟨rfl, rfl⟩
            · split
              · exact ⟨rfl, rfl⟩
              · split <;> exact ⟨rfl, rfl⟩

/-- a reported decision is for the message's height and value and is backed by a valid certificate or by the
    instance's own decision; the message carried the controller's identifier -/
theorem ctlProcess_decided_sound (st : RSt) (c : ConsIn) (h : Nat) (v : Val)
    (hd : (ctlProcess st c).2 = .decidedMsg h v) :
    c.idOk = true ∧ h = c.height ∧ v = c.value ∧
    ((c.isDecided = true ∧ c.valid = true) ∨ (c.isDecided = false ∧ c.instDecides = true ∧ c.instErr = false)) := by
  unfold ctlProcess at hd
  split at hd
  · cases hd
  · next hid =>
    have hid' : c.idOk = true := by simpa using hid
    split at hd
    · next hdec =>
      unfold uponDecided at hd
      split at hd
      · cases hd
      · next hv =>
        have hv' : c.valid = true := by simpa using hv
        split at hd
        · simp only [] at hd
          injection hd with h1 h2
          exact ⟨hid', h1.symm, h2.symm, Or.inl ⟨hdec, hv'⟩⟩
        · split at hd
          · cases hd
          · split at hd
            · simp only [] at hd
              injection hd with h1 h2
              exact ⟨hid', h1.symm, h2.symm, Or.inl ⟨hdec, hv'⟩⟩
            · simp only [] at hd
              cases hd
    · next hdec =>
      have hdec' : c.isDecided = false := by simpa using hdec
      split at hd
      · cases hd
      · unfold uponExisting at hd
        split at hd
        · cases hd
        · split at hd
          · cases hd
          · split at hd
            · cases hd
            · next herr =>
              split at hd
              · cases hd
              · next hdecides =>
                split at hd
                · cases hd
                · injection hd with h1 h2
                  exact ⟨hid', h1.symm, h2.symm, Or.inr ⟨hdec', by simpa using hdecides, by simpa using herr⟩⟩

/-! ### where signatures come from -/

theorem startDuty_sign (st : RSt) (slot : Nat) (pre : List Nat) (iok : Bool) (e : Ev)
    (he : e ∈ (startDuty st slot pre iok).2.2) (hs : e.isSign = true) :
    st.role.signsAtStart = true ∧ (startDuty st slot pre iok).2.1 = true ∧
    ∃ o ∈ pre, e = .sign (.atStart slot) o (epochOf slot) st.role.preDomain := by
  by_cases hr : refuseDuty st slot = true
  · simp [startDuty, hr] at he
  · by_cases hsa : st.role.signsAtStart = true
    · simp only [startDuty, hr, hsa, if_true, Bool.false_eq_true, if_false] at he ⊢
      rcases List.mem_append.1 he with h | h
      · obtain ⟨o, ho, rfl⟩ := mem_signAll h
        exact ⟨trivial, trivial, o, ho, rfl⟩
      · simp only [List.mem_singleton] at h
        subst h
        simp [Ev.isSign] at hs
    · simp [startDuty, hr, hsa] at he

theorem processCons_sign (st : RSt) (c : ConsIn) (e : Ev)
    (he : e ∈ (processCons st c).2.2) (hs : e.isSign = true) :
    ∃ h v d rid, (ctlProcess st c).2 = .decidedMsg h v ∧ st.duty = some d ∧ d.finished = false ∧ d.running = some rid ∧
      heightOf (ctlProcess st c).1 rid = h ∧ runningDecided st = false ∧ st.role.hasConsensus = true ∧
      v.decodeOk = true ∧ v.vcOk = true ∧ v.getOk = true ∧
      (processCons st c).1.duty = some { d with decidedValue := some v } ∧
      (processCons st c).1.heap = (ctlProcess st c).1.heap ∧
      ∃ o ∈ v.objs, e = .sign (.decided h) o (epochOf v.slot) st.role.postDomain := by
  unfold processCons at he ⊢
  split at he
  · simp at he
  · next hcons =>
    have hcons' : st.role.hasConsensus = true := by simpa using hcons
    obtain ⟨hduty, _⟩ := ctlProcess_duty st c
    simp only [hcons] at he ⊢
    generalize hctl : ctlProcess st c = r at he hduty ⊢
    obtain ⟨st1, out⟩ := r
    simp only [] at he hduty ⊢
    cases out with
    | err => simp at he
    | nothing => simp at he
    | decidedMsg h v =>
      simp only [] at he ⊢
      split at he
      · simp at he
      · next d hd =>
        simp only [hd] at ⊢
        split at he
        · simp at he
        · next hfin =>
          simp only [hfin] at ⊢
          split at he
          · simp at he
          · next rid hrun =>
            simp only [hrun] at ⊢
            split at he
            · simp at he
            · next hh =>
              simp only [hh] at ⊢
              split at he
              · simp at he
              · next hprev =>
                simp only [hprev] at ⊢
                split at he
                · simp at he
                · next hdec =>
                  simp only [hdec] at ⊢
                  split at he
                  · simp at he
                  · next hvc =>
                    simp only [hvc] at ⊢
                    split at he
                    · simp at he
                    · next hget =>
                      simp only [hget] at ⊢
                      rcases List.mem_append.1 he with hm | hm
                      · obtain ⟨o, ho, rfl⟩ := mem_signAll hm
                        refine ⟨h, v, d, rid, rfl, by rw [← hduty]; exact hd, by simpa using hfin, hrun, ?_,
                          by simpa using hprev, hcons', by simpa using hdec, by simpa using hvc, by simpa using hget, ?_, ?_, o, ho, rfl⟩
                        · simp only [ne_eq, Decidable.not_not] at hh
                          exact hh.symm
                        · have hf : d.finished = false := by simpa using hfin
                          cases d
                          simp_all
                        · simp
                      · simp only [List.mem_singleton] at hm
                        subst hm
                        simp [Ev.isSign] at hs

/-! ### at most once -/

/-- the instance object `rid` exists and is marked decided -/
def decidedAt (st : RSt) (rid : Nat) : Prop := ∃ i, instOf st rid = some i ∧ i.decided = true

theorem decidedAt_setInst (st : RSt) (id : Nat) (i : Inst) (rid : Nat) (hi : i.decided = true)
    (hid : ∃ j, instOf st id = some j) (h : decidedAt st rid ∨ rid = id) : decidedAt (setInst st id i) rid := by
  unfold decidedAt instOf setInst at *
  simp only []
  by_cases e : id = rid
  · subst e
    obtain ⟨j, hj⟩ := hid
    have hlt : id < st.heap.length := by
      rcases List.getElem?_eq_some_iff.1 hj with ⟨hl, _⟩; exact hl
    exact ⟨i, by simp [hlt], hi⟩
  · rcases h with ⟨k, hk, hkd⟩ | h
    · exact ⟨k, by rw [List.getElem?_set_ne e]; exact hk, hkd⟩
    · exact absurd h.symm e

theorem decidedAt_newInst (st : RSt) (i : Inst) (rid : Nat) (h : decidedAt st rid) : decidedAt (newInst st i).1 rid := by
  obtain ⟨k, hk, hkd⟩ := h
  refine ⟨k, ?_, hkd⟩
  unfold instOf at *
  simp only [newInst]
  have hlt : rid < st.heap.length := by
    rcases List.getElem?_eq_some_iff.1 hk with ⟨hl, _⟩; exact hl
  rw [List.getElem?_append_left hlt]; exact hk

theorem decidedAt_heap (st st' : RSt) (rid : Nat) (hh : st'.heap = st.heap) (h : decidedAt st rid) : decidedAt st' rid := by
  unfold decidedAt instOf at *; rw [hh]; exact h

/-- decided flags are never cleared by the controller -/
theorem ctlProcess_decidedAt (st : RSt) (c : ConsIn) (rid : Nat) (h : decidedAt st rid) : decidedAt (ctlProcess st c).1 rid := by
  unfold ctlProcess
  split
  · exact h
  · split
    · unfold uponDecided
      split
      · exact h
      · split
        · simp only []
          split
          · exact decidedAt_heap _ _ rid rfl (decidedAt_newInst st _ rid h)
          · exact decidedAt_newInst st _ rid h
        · next id hf =>
          split
          · exact h
          · next i hi =>
            split
            · simp only []
              have := decidedAt_setInst st id { i with decided := true, value := some c.value } rid rfl ⟨i, hi⟩ (Or.inl h)
              split
              · exact decidedAt_heap _ _ rid rfl this
              · exact this
            · simp only []
              split
              · exact decidedAt_heap _ _ rid rfl h
              · exact h
    · split
      · exact h
      · unfold uponExisting
        split
        · exact h
        · next id hf =>
          split
          · exact h
          · next i hi =>
            split
            · exact h
            · split
              · exact h
              · split
                · exact h
                · exact decidedAt_setInst st id { i with decided := true, value := some c.value } rid rfl ⟨i, hi⟩ (Or.inl h)

/-- when the controller still holds the instance object for the message's height, a reported decision marks THAT object -/
theorem ctlProcess_marks (st : RSt) (c : ConsIn) (h : Nat) (v : Val) (rid : Nat)
    (hd : (ctlProcess st c).2 = .decidedMsg h v) (hf : findInst st c.height = some rid) (hi : ∃ i, instOf st rid = some i) :
    decidedAt (ctlProcess st c).1 rid := by
  obtain ⟨i, hi⟩ := hi
  unfold ctlProcess at hd ⊢
  split at hd
  · cases hd
  · next hid =>
    simp only [hid]
    split at hd
    · next hdec =>
      simp only [hdec, if_true]
      unfold uponDecided at hd ⊢
      split at hd
      · cases hd
      · next hv =>
        simp only [hv]
        rw [hf] at hd ⊢
        simp only [hi] at hd ⊢
        split at hd
        · next hnd =>
          simp only [hnd]
          have := decidedAt_setInst st rid { i with decided := true, value := some c.value } rid rfl ⟨i, hi⟩ (Or.inr rfl)
          rw [if_pos trivial]
          show decidedAt (if decide (c.height > st.ctrlHeight) = true then _ else _) rid
          split
          · exact decidedAt_heap _ _ rid rfl this
          · exact this
        · cases hd
    · next hdec =>
      simp only [hdec]
      split at hd
      · cases hd
      · next hfut =>
        simp only [hfut]
        unfold uponExisting at hd ⊢
        rw [hf] at hd ⊢
        simp only [hi] at hd ⊢
        split at hd
        · cases hd
        · next he =>
          simp only [he]
          split at hd
          · cases hd
          · next hdcs =>
            simp only [hdcs]
            split at hd
            · cases hd
            · next hnd =>
              simp only [hnd]
              exact decidedAt_setInst st rid { i with decided := true, value := some c.value } rid rfl ⟨i, hi⟩ (Or.inr rfl)

/-- the running duty's instance object is marked decided -/
def RD (st : RSt) : Prop := ∃ d rid, st.duty = some d ∧ d.running = some rid ∧ decidedAt st rid

theorem runningDecided_of_RD (st : RSt) (d : DutySt) (rid : Nat) (hd : st.duty = some d) (hr : d.running = some rid)
    (hdec : decidedAt st rid) (hfin : d.finished = false) : runningDecided st = true := by
  obtain ⟨i, hi, hid⟩ := hdec
  simp [runningDecided, hd, hr, hfin, hi, hid]

/-- once the running instance object is decided, consensus messages neither sign nor touch the duty state -/
theorem processCons_quiet (st : RSt) (c : ConsIn) (h : RD st) :
    RD (processCons st c).1 ∧ (processCons st c).2.2 = [] := by
  obtain ⟨d, rid, hd, hr, hdec⟩ := h
  unfold processCons
  split
  · exact ⟨⟨d, rid, hd, hr, hdec⟩, rfl⟩
  · obtain ⟨hduty, _⟩ := ctlProcess_duty st c
    have hdec1 := ctlProcess_decidedAt st c rid hdec
    have hRD1 : RD (ctlProcess st c).1 := ⟨d, rid, by rw [hduty]; exact hd, hr, hdec1⟩
    simp only []
    generalize hctl : ctlProcess st c = r at hduty hdec1 hRD1
    obtain ⟨st1, out⟩ := r
    simp only [] at hduty hdec1 hRD1 ⊢
    cases out with
    | err => exact ⟨hRD1, rfl⟩
    | nothing => exact ⟨hRD1, rfl⟩
    | decidedMsg hh v =>
      simp only []
      rw [hduty, hd]
      simp only []
      by_cases hfin : d.finished = true
      · simp only [hfin, if_true]; first | exact ⟨hRD1, rfl⟩ | exact ⟨hRD1, trivial⟩
      · have hfin' : d.finished = false := by simpa using hfin
        simp only [hfin', Bool.false_eq_true, if_false, hr]
        split
        · exact ⟨hRD1, rfl⟩
        · have := runningDecided_of_RD st d rid hd hr hdec hfin'
          simp only [this, if_true]
          first | exact ⟨hRD1, rfl⟩ | exact ⟨hRD1, trivial⟩

theorem processPost_RD (st : RSt) (m : PartialSig.Msg) (slot : Nat) (h : RD st) : RD (processPost st m slot).1 := by
  obtain ⟨d, rid, hd, hr, hdec⟩ := h
  unfold processPost
  split
  · exact ⟨d, rid, hd, hr, hdec⟩
  · rw [hd]
    simp only []
    split
    · split
      · exact ⟨d, rid, hd, hr, hdec⟩
      · exact ⟨_, rid, rfl, hr, decidedAt_heap _ _ rid rfl hdec⟩
    · exact ⟨d, rid, hd, hr, hdec⟩

theorem processPre_noop (st : RSt) (m : PartialSig.Msg) (slot : Nat) (iok : Bool)
    (hrole : (st.role == .attester || st.role == .syncCommittee) = true) : (processPre st m slot iok).1 = st := by
  unfold processPre
  split
  · rfl
  · simp [hrole]

/-- quiet inputs keep `RD` and release no signature -/
theorem step_quiet (st : RSt) (i : In) (hq : i.quiet st.role = true) (h : RD st) :
    RD (step st i).1 ∧ ∀ e ∈ (step st i).2.2, e.isSign = false := by
  cases i with
  | start _ _ _ => simp [In.quiet] at hq
  | pre m slot iok =>
    simp only [In.quiet] at hq
    simp only [step]
    refine ⟨by rw [processPre_noop st m slot iok hq]; exact h, processPre_no_sign st m slot iok⟩
  | cons c =>
    simp only [step]
    obtain ⟨a, b⟩ := processCons_quiet st c h
    exact ⟨a, by rw [b]; simp⟩
  | post m slot =>
    simp only [step]
    exact ⟨processPost_RD st m slot h, processPost_no_sign st m slot⟩
  | «foreign» => simp only [step]; exact ⟨h, by simp⟩

theorem startNewInstance_role (st : RSt) (h : Nat) (ok : Bool) : (startNewInstance st h ok).1.role = st.role := by
  unfold startNewInstance
  split
  · rfl
  · split
    · rfl
    · split
      · rfl
      · simp only []
        split <;> rfl

theorem decideDuty_role (st : RSt) (d : DutySt) (ok : Bool) : (decideDuty st d ok).1.role = st.role := by
  have := startNewInstance_role st d.slot ok
  unfold decideDuty
  split
  · next st1 heq => rw [heq] at this; exact this
  · next st1 id heq => rw [heq] at this; exact this

theorem step_role (st : RSt) (i : In) : (step st i).1.role = st.role := by
  cases i with
  | start slot pre iok =>
    simp only [step, startDuty]
    split
    · rfl
    · split
      · rfl
      · exact decideDuty_role _ _ _
  | pre m slot iok =>
    simp only [step, processPre]
    split
    · rfl
    · split
      · rfl
      · split
        · rfl
        · split
          · exact decideDuty_role _ _ _
          · rfl
  | cons c =>
    simp only [step, processCons]
    split
    · rfl
    · have := (ctlProcess_duty st c).2
      generalize ctlProcess st c = r at this
      obtain ⟨st1, out⟩ := r
      simp only [] at this ⊢
      cases out <;> simp only [] <;> repeat' split
      all_goals (first | exact this | rfl)
  | post m slot =>
    simp only [step, processPost]
    repeat' split
    all_goals rfl
  | «foreign» => rfl

theorem run_quiet (st : RSt) (ins : List In) (hq : ∀ i ∈ ins, i.quiet st.role = true) (h : RD st) :
    ∀ p ∈ run st ins, ∀ e ∈ p.2, e.isSign = false := by
  induction ins generalizing st with
  | nil => simp [run]
  | cons i t ih =>
    intro p hp
    simp only [run, List.mem_cons] at hp
    obtain ⟨a, b⟩ := step_quiet st i (hq i (by simp)) h
    rcases hp with e | hp
    · subst e; exact b
    · exact ih (step st i).1 (by intro j hj; rw [step_role]; exact hq j (List.mem_cons_of_mem _ hj)) a p hp


/-- a signing consensus step marks the runner's own instance object decided, provided the controller's instance for the
    message height is that object -/
theorem processCons_sign_RD (st : RSt) (c : ConsIn)
    (hk : ∀ d rid, st.duty = some d → d.running = some rid → (∃ i, instOf st rid = some i) ∧ findInst st c.height = some rid)
    (e : Ev) (he : e ∈ (processCons st c).2.2) (hs : e.isSign = true) : RD (processCons st c).1 := by
  obtain ⟨h, v, d, rid, hctl, hd, _, hr, _, _, _, _, _, _, hduty', hheap, _⟩ := processCons_sign st c e he hs
  obtain ⟨hi, hf⟩ := hk d rid hd hr
  have hm := ctlProcess_marks st c h v rid hctl hf hi
  exact ⟨_, rid, hduty', hr, decidedAt_heap _ _ rid hheap hm⟩

end Ssv.Runner
