/-
C08 helper lemmas: no check of the validation pipeline yields a panic outcome, because every panicking
`switch` / index expression is dominated by an earlier guard.   Core Lean only.
-/
import Ssv.Proofs.Validation

namespace Ssv.Validation
open Ssv

/-- shares as the registry creates them: a non-empty committee of at most 2^31 − 1 operators
    (the registry only admits committees of 4, 7, 10 or 13 operators — property C11) -/
def ShareWF (sh : Share) : Prop := 0 < sh.committee.length ∧ sh.committee.length < 2147483648

def InputWF (i : Input) : Prop := ∀ sh, i.share = some sh → ShareWF sh

/-! ## leaves -/

theorem noPanic_firstFail_rejects (cs : List Chk) (h : ∀ c ∈ cs, NoPanic c) : NoPanic (firstFail cs) :=
  firstFail_noPanic _ (noPanicSeq_of_all _ h)

theorem signatureFormat_noPanic (l : Nat) (z : Bool) : NoPanic (signatureFormat l z) := by
  unfold signatureFormat
  apply firstFail_noPanic
  refine ⟨noPanic_rejectIf _ _, fun h => ⟨?_, fun _ => trivial⟩⟩
  have hl : l = 96 := by
    have := (rejectIf_ok_iff _ _).mp h
    simpa using this
  subst hl
  simp [Nat.blt]
  exact noPanic_rejectIf _ _

theorem validateSlotTime_noPanic (c : NetCfg) (slot role : Nat) (now : GoTime) : NoPanic (validateSlotTime c slot role now) := by
  unfold validateSlotTime
  apply noPanic_firstFail_rejects
  intro c' hc'
  simp only [List.mem_cons, List.mem_nil_iff, or_false] at hc'
  rcases hc' with h | h <;> subst h <;> exact noPanic_rejectIf _ _

theorem commonSigner_noPanic (sh : Share) (s : Nat) : NoPanic (commonSigner sh s) := by
  unfold commonSigner
  apply noPanic_firstFail_rejects
  intro c' hc'
  simp only [List.mem_cons, List.mem_nil_iff, or_false] at hc'
  rcases hc' with h | h <;> subst h <;> exact noPanic_rejectIf _ _

theorem signerLoop_noPanic (sh : Share) (l : List Nat) : ∀ prev, NoPanic (signerLoop sh prev l) := by
  induction l with
  | nil => intro prev; exact noPanic_ok
  | cons s rest ih =>
    intro prev
    unfold signerLoop
    apply noPanic_firstFail_rejects
    intro c' hc'
    simp only [List.mem_cons, List.mem_nil_iff, or_false] at hc'
    rcases hc' with h | h | h <;> subst h
    · exact commonSigner_noPanic _ _
    · exact noPanic_rejectIf _ _
    · exact ih s

theorem validateBeaconDuty_noPanic (x : Ctx) (role slot : Nat) (sh : Share) : NoPanic (validateBeaconDuty x role slot sh) := by
  unfold validateBeaconDuty
  split
  · apply noPanic_firstFail_rejects
    intro c' hc'
    simp only [List.mem_cons, List.mem_nil_iff, or_false] at hc'
    rcases hc' with h | h <;> subst h <;> exact noPanic_rejectIf _ _
  · split
    · apply noPanic_firstFail_rejects
      intro c' hc'
      simp only [List.mem_cons, List.mem_nil_iff, or_false] at hc'
      rcases hc' with h | h <;> subst h <;> exact noPanic_rejectIf _ _
    · exact noPanic_ok

theorem validateJustifications_noPanic (m : QMsg) : NoPanic (validateJustifications m) := by
  unfold validateJustifications
  apply noPanic_firstFail_rejects
  intro c' hc'
  simp only [List.mem_cons, List.mem_nil_iff, or_false] at hc'
  rcases hc' with h | h | h | h | h <;> subst h <;> exact noPanic_rejectIf _ _

theorem validateDutyCount_noPanic (ss : SignerState) (role : Nat) (b : Bool) : NoPanic (validateDutyCount ss role b) := by
  unfold validateDutyCount
  split
  · exact noPanic_rejectIf _ _
  · exact noPanic_ok

theorem envSigCheck_noPanic (e : EnvSig) : NoPanic (envSigCheck e) := by
  cases e <;> simp [envSigCheck, noPanic_ok, noPanic_failT]

theorem signerBehaviorConsensus_noPanic (c : NetCfg) (sh : Share) (role : Nat) (m : QMsg) (ss? : Option SignerState)
    (hv : validQBFTMsgType m.mtype = true) : NoPanic (signerBehaviorConsensus c sh role m ss?) := by
  unfold signerBehaviorConsensus
  cases ss? with
  | none => exact validateJustifications_noPanic m
  | some ss =>
    simp only
    apply noPanic_firstFail_rejects
    intro c' hc'
    simp only [List.mem_cons, List.mem_nil_iff, or_false] at hc'
    rcases hc' with h | h | h | h | h | h <;> subst h
    · exact noPanic_rejectIf _ _
    · exact noPanic_rejectIf _ _
    · exact validateDutyCount_noPanic _ _ _
    · exact noPanic_rejectIf _ _
    · split
      · exact countsValidate_noPanic _ _ _ hv
      · exact noPanic_ok
    · exact validateJustifications_noPanic m

theorem signerBehaviorPartial_noPanic (c : NetCfg) (role : Nat) (m : PMsg) (ss? : Option SignerState)
    (hv : validPartialSigMsgType m.ptype = true) : NoPanic (signerBehaviorPartial c role m ss?) := by
  unfold signerBehaviorPartial
  cases ss? with
  | none => exact noPanic_ok
  | some ss =>
    simp only
    apply noPanic_firstFail_rejects
    intro c' hc'
    simp only [List.mem_cons, List.mem_nil_iff, or_false] at hc'
    rcases hc' with h | h | h <;> subst h
    · exact noPanic_rejectIf _ _
    · exact validateDutyCount_noPanic _ _ _
    · split
      · exact countsValidatePartial_noPanic _ _ hv
      · exact noPanic_ok

theorem partialItemLoop_noPanic (sh : Share) (signer : Nat) (l : List PItem) : ∀ seen, NoPanic (partialItemLoop sh signer seen l) := by
  induction l with
  | nil => intro seen; exact noPanic_ok
  | cons it rest ih =>
    intro seen
    unfold partialItemLoop
    apply noPanic_firstFail_rejects
    intro c' hc'
    simp only [List.mem_cons, List.mem_nil_iff, or_false] at hc'
    rcases hc' with h | h | h | h | h <;> subst h
    · exact noPanic_rejectIf _ _
    · exact noPanic_rejectIf _ _
    · exact commonSigner_noPanic _ _
    · exact signatureFormat_noPanic _ _
    · exact ih _

theorem validatePartialMessages_noPanic (sh : Share) (m : PMsg) : NoPanic (validatePartialMessages sh m) := by
  unfold validatePartialMessages
  apply noPanic_firstFail_rejects
  intro c' hc'
  simp only [List.mem_cons, List.mem_nil_iff, or_false] at hc'
  rcases hc' with h | h | h <;> subst h
  · exact commonSigner_noPanic _ _
  · exact noPanic_rejectIf _ _
  · exact partialItemLoop_noPanic _ _ _ _

/-! ## the slot window bounds the height before the leader is computed -/

theorem toUnix_range (t : GoTime) : -two63 ≤ t.toUnix ∧ t.toUnix < two63 := wrapI64_range _

theorem slotAtTime_range (c : NetCfg) (hc : c.WF) (u : Int) (hu0 : -two63 ≤ u) (hu1 : u < two63) :
    0 ≤ slotAtTime c u ∧ slotAtTime c u < 4611686018427387904 := by
  unfold slotAtTime
  obtain ⟨hd, _, _, hg⟩ := hc
  split
  · omega
  · have hx0 : 0 ≤ u - (c.genesis : Int) := by omega
    have hx1 : u - (c.genesis : Int) < two63 := by omega
    rw [wrapU64_id _ hx0 (by unfold two63 two64 at *; omega)]
    have hdI : (0 : Int) < c.slotDur := by omega
    constructor
    · exact Int.ediv_nonneg hx0 (by omega)
    · apply Int.ediv_lt_of_lt_mul hdI
      have : (2 : Int) ≤ c.slotDur := by omega
      unfold two63 at hx1
      omega

/-- a slot that passes `validateSlotTime` is at most the current slot + 1, hence far below 2^63 -/
theorem slot_lt_of_not_early (c : NetCfg) (hc : c.WF) (slot role : Nat) (now : GoTime)
    (h : validateSlotTime c slot role now = .ok ()) : (slot : Int) < two63 := by
  unfold validateSlotTime at h
  have h1 := (firstFail_ok_iff _).mp h _ (List.mem_cons_self)
  have he : earlyMessage c slot now = false := (rejectIf_ok_iff _ _).mp h1
  unfold earlyMessage at he
  obtain ⟨u0, u1⟩ := toUnix_range now
  obtain ⟨s0, s1⟩ := slotAtTime_range c hc now.toUnix u0 u1
  simp only at he
  split at he
  · cases he
  · rename_i hgt
    rw [wrapU64_id _ (by omega) (by unfold two64; omega)] at hgt
    unfold two63
    omega

/-! ## signers and leader -/

theorem signersShape_noPanic (sh : Share) (m : QMsg) (hw : ShareWF sh) (hh : (m.height : Int) < two63)
    (hr1 : 1 ≤ m.round) (hr2 : m.round ≤ 12) : NoPanic (signersShape sh m) := by
  unfold signersShape
  split
  · exact noPanic_failT _
  · split
    · obtain ⟨op, hop, _⟩ := roundRobinProposer_ok sh.committee m.height m.round hw.1 hw.2 hh hr1 hr2
      rw [hop]
      exact noPanic_rejectIf _ _
    · exact noPanic_ok
  · split
    · exact noPanic_failT _
    · exact noPanic_rejectIf _ _

theorem validConsensusSigners_noPanic (sh : Share) (m : QMsg) (hw : ShareWF sh) (hh : (m.height : Int) < two63)
    (hr1 : 1 ≤ m.round) (hr2 : m.round ≤ 12) : NoPanic (validConsensusSigners sh m) := by
  unfold validConsensusSigners
  apply noPanic_firstFail_rejects
  intro c' hc'
  simp only [List.mem_cons, List.mem_nil_iff, or_false] at hc'
  rcases hc' with h | h | h <;> subst h
  · exact signersShape_noPanic sh m hw hh hr1 hr2
  · exact noPanic_rejectIf _ _
  · exact signerLoop_noPanic _ _ _

theorem validConsensusSigners_nonempty (sh : Share) (m : QMsg) (h : validConsensusSigners sh m = .ok ()) : m.signers ≠ [] := by
  unfold validConsensusSigners at h
  have h1 := (firstFail_ok_iff _).mp h _ (List.mem_cons_self)
  intro hn
  unfold signersShape at h1
  rw [hn] at h1
  cases h1

/-! ## the guard lists -/

theorem map_behavior_noPanic (x : Ctx) (st : State) (i : Input) (sh : Share) (m : QMsg) (hv : validQBFTMsgType m.mtype = true)
    (l : List Nat) : NoPanic (firstFail (l.map fun s => signerBehaviorConsensus x.cfg sh i.role m (st (i.vid, i.role, s)))) := by
  apply noPanic_firstFail_rejects
  intro c' hc'
  obtain ⟨s, _, rfl⟩ := List.mem_map.mp hc'
  exact signerBehaviorConsensus_noPanic _ _ _ _ _ hv

theorem consensusChecks_noPanicSeq (x : Ctx) (hc : x.cfg.WF) (st : State) (i : Input) (sh : Share) (m : QMsg)
    (hrole : validRole i.role = true) (hw : ShareWF sh) : NoPanicSeq (consensusChecks x st i sh m) := by
  unfold consensusChecks
  refine ⟨noPanic_rejectIf _ _, fun _ => ⟨signatureFormat_noPanic _ _, fun _ => ⟨noPanic_rejectIf _ _, fun hty =>
    ⟨noPanic_rejectIf _ _, fun hz => ⟨?_, fun hmax => ⟨validateSlotTime_noPanic _ _ _ _, fun hslot => ⟨?_, fun _ =>
    ⟨noPanic_rejectIf _ _, fun _ => ⟨noPanic_rejectIf _ _, fun _ => ⟨validateBeaconDuty_noPanic _ _ _ _, fun _ =>
    ⟨?_, fun _ => ⟨envSigCheck_noPanic _, fun _ => trivial⟩⟩⟩⟩⟩⟩⟩⟩⟩⟩⟩⟩
  · -- maxRound never panics for a valid role
    obtain ⟨mx, hmx, _⟩ := maxRound_of_validRole i.role hrole
    rw [hmx]; exact noPanic_rejectIf _ _
  · -- the leader computation: round in [1, 12], height inside the slot window
    obtain ⟨mx, hmx, hle⟩ := maxRound_of_validRole i.role hrole
    rw [hmx] at hmax
    have hr2 : m.round ≤ 12 := by
      have := (rejectIf_ok_iff _ _).mp hmax
      simp at this; omega
    have hr1 : 1 ≤ m.round := by
      have := (rejectIf_ok_iff _ _).mp hz
      simp at this; omega
    exact validConsensusSigners_noPanic sh m hw (slot_lt_of_not_early x.cfg hc _ _ _ hslot) hr1 hr2
  · have hv : validQBFTMsgType m.mtype = true := by
      have := (rejectIf_ok_iff _ _).mp hty
      simpa using this
    exact map_behavior_noPanic x st i sh m hv _

theorem partialChecks_noPanicSeq (x : Ctx) (st : State) (i : Input) (sh : Share) (m : PMsg)
    (hrole : validRole i.role = true) : NoPanicSeq (partialChecks x st i sh m) := by
  unfold partialChecks
  refine ⟨noPanic_rejectIf _ _, fun hty => ⟨?_, fun _ => ⟨noPanic_rejectIf _ _, fun _ => ⟨validatePartialMessages_noPanic _ _, fun _ =>
    ⟨?_, fun _ => ⟨signatureFormat_noPanic _ _, fun _ => ⟨envSigCheck_noPanic _, fun _ => trivial⟩⟩⟩⟩⟩⟩⟩
  · obtain ⟨b, hb⟩ := partialTypeMatchesRole_of_validRole m.ptype i.role hrole
    rw [hb]; exact noPanic_rejectIf _ _
  · have hv : validPartialSigMsgType m.ptype = true := by
      have := (rejectIf_ok_iff _ _).mp hty
      simpa using this
    exact signerBehaviorPartial_noPanic _ _ _ _ hv

theorem preChecks_noPanic (i : Input) : NoPanic (firstFail (preChecks i)) := by
  unfold preChecks
  apply noPanic_firstFail_rejects
  intro c' hc'
  simp only [List.mem_cons, List.mem_nil_iff, or_false] at hc'
  rcases hc' with h | h | h | h | h | h <;> subst h
  · exact noPanic_rejectIf _ _
  · exact noPanic_rejectIf _ _
  · exact noPanic_rejectIf _ _
  · exact noPanic_rejectIf _ _
  · exact noPanic_rejectIf _ _
  · split
    · exact noPanic_failT _
    · apply noPanic_firstFail_rejects
      intro c' hc'
      simp only [List.mem_cons, List.mem_nil_iff, or_false] at hc'
      rcases hc' with h | h | h <;> subst h <;> exact noPanic_rejectIf _ _

theorem preChecks_validRole (i : Input) (h : firstFail (preChecks i) = .ok ()) : validRole i.role = true := by
  have := (firstFail_ok_iff _).mp h (rejectIf (!validRole i.role) .InvalidRole) (by simp [preChecks])
  have := (rejectIf_ok_iff _ _).mp this
  simpa using this

theorem check_noPanic (x : Ctx) (hc : x.cfg.WF) (st : State) (i : Input) (hi : InputWF i) : NoPanic (check x st i) := by
  unfold check
  split
  · rename_i e _ he
    intro s hs
    cases hs
    exact preChecks_noPanic i s he
  · exact noPanic_failT _
  · rename_i sh hpre hsh
    have hrole := preChecks_validRole i hpre
    split
    · exact noPanic_failT _
    · exact noPanic_failT _
    · exact noPanic_failT _
    · exact firstFail_noPanic _ ⟨noPanic_rejectIf _ _, fun _ => consensusChecks_noPanicSeq x hc st i sh _ hrole (hi sh hsh)⟩
    · exact firstFail_noPanic _ ⟨noPanic_rejectIf _ _, fun _ => partialChecks_noPanicSeq x st i sh _ hrole⟩

/-! ## the state update cannot fail once every guard passed -/

theorem updSignerConsensus_ok (c : NetCfg) (m : QMsg) (ss? : Option SignerState)
    (hv : validQBFTMsgType m.mtype = true) (hs : m.signers ≠ []) : ∃ ss, updSignerConsensus c m ss? = .ok ss := by
  unfold updSignerConsensus
  simp only
  obtain ⟨c', hc'⟩ := countsRecord_ok
    ((if hasFullData m && (if m.height > (ss?.getD {}).slot then (ss?.getD {}).resetSlot m.height m.round (decide (epochAtSlot c m.height > epochAtSlot c (ss?.getD {}).slot))
        else if m.height = (ss?.getD {}).slot ∧ m.round > (ss?.getD {}).round then (ss?.getD {}).resetRound m.round else ss?.getD {}).proposalData.isNone
      then { (if m.height > (ss?.getD {}).slot then (ss?.getD {}).resetSlot m.height m.round (decide (epochAtSlot c m.height > epochAtSlot c (ss?.getD {}).slot))
        else if m.height = (ss?.getD {}).slot ∧ m.round > (ss?.getD {}).round then (ss?.getD {}).resetRound m.round else ss?.getD {}) with proposalData := m.fullData }
      else (if m.height > (ss?.getD {}).slot then (ss?.getD {}).resetSlot m.height m.round (decide (epochAtSlot c m.height > epochAtSlot c (ss?.getD {}).slot))
        else if m.height = (ss?.getD {}).slot ∧ m.round > (ss?.getD {}).round then (ss?.getD {}).resetRound m.round else ss?.getD {})).counts) m hv hs
  rw [hc']
  exact ⟨_, rfl⟩

theorem updConsensus_ok (c : NetCfg) (vid role : Nat) (m : QMsg) (hv : validQBFTMsgType m.mtype = true) (hs : m.signers ≠ [])
    (l : List Nat) : ∀ st, ∃ st', updConsensus c vid role m l st = .ok st' := by
  induction l with
  | nil => intro st; exact ⟨st, rfl⟩
  | cons s rest ih =>
    intro st
    unfold updConsensus
    obtain ⟨ss, hss⟩ := updSignerConsensus_ok c m (st (vid, role, s)) hv hs
    rw [hss]
    exact ih _

theorem updPartial_ok (c : NetCfg) (m : PMsg) (ss? : Option SignerState) (hv : validPartialSigMsgType m.ptype = true) :
    ∃ ss, updPartial c m ss? = .ok ss := by
  unfold updPartial
  simp only
  obtain ⟨c', hc'⟩ := countsRecordPartial_ok
    ((if m.slot > (ss?.getD {}).slot then (ss?.getD {}).resetSlot m.slot Gen.val_FirstRound (decide (epochAtSlot c m.slot > epochAtSlot c (ss?.getD {}).slot))
      else ss?.getD {}).counts) m.ptype hv
  rw [hc']
  exact ⟨_, rfl⟩

theorem update_ok_of_check_ok (x : Ctx) (st : State) (i : Input) (h : check x st i = .ok ()) : ∃ st', update x st i = .ok st' := by
  unfold check at h
  split at h
  · cases h
  · cases h
  · rename_i sh hpre hsh
    unfold update
    split at h
    · cases h
    · cases h
    · cases h
    · rename_i m hb
      rw [hb]
      simp only
      have hall := (firstFail_ok_iff _).mp h
      have hty : rejectIf (!validQBFTMsgType m.mtype) .UnknownQBFTMessageType = .ok () :=
        hall _ (by simp [consensusChecks])
      have hsg : validConsensusSigners sh m = .ok () := hall _ (by simp [consensusChecks])
      have hv : validQBFTMsgType m.mtype = true := by
        have := (rejectIf_ok_iff _ _).mp hty
        simpa using this
      exact updConsensus_ok _ _ _ _ hv (validConsensusSigners_nonempty sh m hsg) _ _
    · rename_i m hb
      rw [hb]
      simp only
      have hall := (firstFail_ok_iff _).mp h
      have hty : rejectIf (!validPartialSigMsgType m.ptype) .UnknownPartialMessageType = .ok () :=
        hall _ (by simp [partialChecks])
      have hv : validPartialSigMsgType m.ptype = true := by
        have := (rejectIf_ok_iff _ _).mp hty
        simpa using this
      obtain ⟨ss, hss⟩ := updPartial_ok x.cfg m (st (i.vid, i.role, m.signer)) hv
      rw [hss]
      exact ⟨_, rfl⟩

theorem ofChk_panic (c : Chk) (s : PanicSite) (h : Outcome.ofChk c = .panic s) : c = .error (.panic s) := by
  unfold Outcome.ofChk at h
  split at h
  · cases h
  · split at h <;> cases h
  · cases h; rfl

theorem validate_noPanic (x : Ctx) (hc : x.cfg.WF) (st : State) (i : Input) (hi : InputWF i) (s : PanicSite) :
    (validate x st i).2 ≠ .panic s := by
  unfold validate
  split
  · rename_i e he
    intro h
    have := ofChk_panic _ _ h
    cases this
    exact check_noPanic x hc st i hi s he
  · rename_i hok
    obtain ⟨st', hst'⟩ := update_ok_of_check_ok x st i hok
    rw [hst']
    intro h; cases h

theorem validateP2P_noPanic (x : Ctx) (hc : x.cfg.WF) (st : State) (p : P2PInput) (hi : InputWF p.inner) (s : PanicSite) :
    (validateP2P x st p).2 ≠ .panic s := by
  unfold validateP2P
  simp only
  split
  · rename_i e he
    intro h
    have hp := ofChk_panic _ _ h
    cases hp
    refine noPanic_firstFail_rejects _ ?_ s he
    intro c' hc'
    simp only [List.mem_cons, List.mem_nil_iff, or_false] at hc'
    rcases hc' with h | h | h | h | h <;> subst h <;> exact noPanic_rejectIf _ _
  · exact validate_noPanic x hc st { p.inner with envSig := if forkActive x.cfg p.inner.now then p.sig.toEnv else .none }
      (fun sh hsh => hi sh hsh) s

/-! ## size limits are checked before the decoded message is looked at -/

theorem check_too_big_independent_of_body (x : Ctx) (st : State) (i : Input) (b : Body)
    (h : Gen.val_maxMessageSize < i.dataLen) : check x st { i with body := b } = check x st i := by
  have key : ∀ j : Input, j.dataLen = i.dataLen → ∃ e, firstFail (preChecks j) = .error e ∧
      (e = .tag .EmptyData ∨ e = .tag .SSVDataTooBig) := by
    intro j hj
    unfold preChecks
    by_cases h0 : j.dataLen = 0
    · exact ⟨_, by simp [firstFail, rejectIf, h0, failT], Or.inl rfl⟩
    · have hlt : 8388608 < j.dataLen := by rw [hj]; simpa using h
      exact ⟨_, by simp [firstFail, rejectIf, h0, hlt, failT, ok], Or.inr rfl⟩
  have pre_eq : firstFail (preChecks { i with body := b }) = firstFail (preChecks i) := rfl
  obtain ⟨e, he, _⟩ := key i rfl
  unfold check
  rw [pre_eq, he]

end Ssv.Validation
