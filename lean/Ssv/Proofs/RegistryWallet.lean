/-
Key-manager wallet of the registry model: sanity invariant, effect of AddShare / RemoveShare on the set of stored
share keys, "the last call on a key decides". (property C12). Core Lean only.
-/
import Ssv.Proofs.RegistryRun

namespace Ssv.Registry

/-! ## association-list lookups -/

theorem lookup_upsertKV (k v : Nat) (l : List (Nat × Nat)) (k' : Nat) :
    lookup (upsertKV k v l) k' = if k' = k then some v else lookup l k' := by
  induction l with
  | nil =>
    by_cases h : k' = k
    · simp [upsertKV, lookup, h]
    · have : (k == k') = false := by simpa using fun e => h e.symm
      simp [upsertKV, lookup, h, this]
  | cons y ys ih =>
    unfold lookup at ih ⊢
    by_cases hy : y.1 = k
    · simp only [upsertKV, hy, beq_self_eq_true, ↓reduceIte, List.find?_cons]
      by_cases h : k' = k
      · simp [h]
      · have : (k == k') = false := by simpa using fun e => h e.symm
        simp [h, this]
    · have hy' : (y.1 == k) = false := by simpa using hy
      simp only [upsertKV, hy', Bool.false_eq_true, ↓reduceIte, List.find?_cons]
      by_cases hyo : y.1 = k'
      · have : k' ≠ k := fun e => hy (hyo.trans e)
        simp [hyo, this]
      · have : (y.1 == k') = false := by simpa using hyo
        simp only [this, ih]

theorem lookup_eraseKey (k : Nat) (l : List (Nat × Nat)) (k' : Nat) :
    lookup (eraseKey k l) k' = if k' = k then none else lookup l k' := by
  induction l with
  | nil => simp [eraseKey, lookup]
  | cons y ys ih =>
    unfold lookup eraseKey at ih ⊢
    by_cases hy : y.1 = k
    · have : (y.1 != k) = false := by simp [hy]
      simp only [List.filter_cons, this, Bool.false_eq_true, ↓reduceIte, ih, List.find?_cons]
      by_cases h : k' = k
      · simp [h]
      · have : (y.1 == k') = false := by simpa [hy] using fun e => h e.symm
        simp [h, this]
    · have : (y.1 != k) = true := by simpa using hy
      simp only [List.filter_cons, this, ↓reduceIte, List.find?_cons, ih]
      by_cases hyp : y.1 = k'
      · have : k' ≠ k := fun e => hy (hyp.trans e)
        simp [hyp, this]
      · have : (y.1 == k') = false := by simpa using hyp
        simp only [this]
        exact ih

/-! ## sanity of the wallet -/

/-- share keys that have an account record -/
def keysOf (w : Wal) : List Nat := w.recs.map (·.2)

/-- the stored wallet is consistent: every account record is referenced by the stored index, record ids are
    distinct, ids in records and index are below the id counter, the index is injective. (A stale index entry
    without a record is allowed: it is what a crash inside RemoveShare leaves behind.) -/
structure DSane (w : Wal) : Prop where
  idx : ∀ p ∈ w.recs, lookup w.pidx p.2 = some p.1
  nodup : (w.recs.map (·.1)).Nodup
  fresh : ∀ p ∈ w.recs, p.1 < w.nextId
  ifresh : ∀ k id, lookup w.pidx k = some id → id < w.nextId
  inj : ∀ k k' id, lookup w.pidx k = some id → lookup w.pidx k' = some id → k = k'

/-- consistent, and the wallet object in memory has the stored index (the state between key-manager calls) -/
def Sane (w : Wal) : Prop := DSane w ∧ w.midx = w.pidx

theorem sane_init : Sane ({} : Wal) :=
  ⟨⟨by simp, by simp, by simp, by simp [lookup], by simp [lookup]⟩, rfl⟩

/-- what a new process sees of the wallet -/
def rebootWal (w : Wal) : Wal := { w with midx := w.pidx }

theorem present_iff {w : Wal} (h : Sane w) (k : Nat) : present w k = true ↔ k ∈ keysOf w := by
  obtain ⟨hd, hm⟩ := h
  unfold present keysOf
  rw [hm]
  constructor
  · intro hp
    cases hl : lookup w.pidx k with
    | none => simp [hl] at hp
    | some id =>
      simp only [hl, List.any_eq_true, beq_iff_eq] at hp
      obtain ⟨p, hp1, hp2⟩ := hp
      have := hd.idx p hp1
      rw [hp2] at this
      have hk := hd.inj _ _ _ this hl
      exact List.mem_map.2 ⟨p, hp1, hk⟩
  · intro hk
    obtain ⟨p, hp1, hp2⟩ := List.mem_map.1 hk
    have := hd.idx p hp1
    rw [hp2] at this
    simp only [this, List.any_eq_true, beq_iff_eq]
    exact ⟨p, hp1, rfl⟩

/-! ## one key-manager call -/

/-- wallet effect of a handler step (key-manager calls expanded against the current wallet) -/
def walStep (w : Wal) (s : Step) : Wal := (expand w s).foldl stepWal w

theorem walStep_add_absent {w : Wal} (h : Sane w) (k : Nat) (hk : k ∉ keysOf w) :
    Sane (walStep w (.kmAdd k)) ∧ keysOf (walStep w (.kmAdd k)) = keysOf w ++ [k] := by
  have hp : present w k = false := by
    cases hh : present w k with
    | false => rfl
    | true => exact absurd ((present_iff h k).1 hh) hk
  obtain ⟨hd, hm⟩ := h
  have hw : walStep w (.kmAdd k) =
      { recs := w.recs ++ [(w.nextId, k)], pidx := upsertKV k w.nextId w.midx, midx := upsertKV k w.nextId w.midx,
        nextId := w.nextId + 1 } := by
    simp [walStep, expand, hp, stepWal, lookup_upsertKV]
  rw [hw]
  refine ⟨⟨⟨?_, ?_, ?_, ?_, ?_⟩, rfl⟩, by simp [keysOf]⟩
  · intro p hp
    simp only [List.mem_append, List.mem_cons, List.not_mem_nil, or_false] at hp
    rw [lookup_upsertKV, hm]
    rcases hp with hp | rfl
    · have : p.2 ≠ k := fun e => hk (e ▸ List.mem_map_of_mem (f := (·.2)) hp)
      simp [this, hd.idx p hp]
    · simp
  · simp only [List.map_append, List.map_cons, List.map_nil]
    rw [List.nodup_append]
    refine ⟨hd.nodup, by simp, ?_⟩
    intro a ha b hb
    simp at hb; subst hb
    obtain ⟨p, hp, rfl⟩ := List.mem_map.1 ha
    exact Nat.ne_of_lt (hd.fresh p hp)
  · intro p hp
    simp only [List.mem_append, List.mem_cons, List.not_mem_nil, or_false] at hp
    rcases hp with hp | rfl
    · exact Nat.lt_succ_of_lt (hd.fresh p hp)
    · exact Nat.lt_succ_self _
  · intro k' id hl
    show id < w.nextId + 1
    rw [lookup_upsertKV, hm] at hl
    by_cases hkk : k' = k
    · simp [hkk] at hl; omega
    · simp only [hkk, ↓reduceIte] at hl; exact Nat.lt_succ_of_lt (hd.ifresh k' id hl)
  · intro k1 k2 id h1 h2
    simp only [] at h1 h2
    rw [lookup_upsertKV, hm] at h1 h2
    by_cases e1 : k1 = k <;> by_cases e2 : k2 = k
    · rw [e1, e2]
    · simp only [e1, ↓reduceIte, Option.some.injEq, e2] at h1 h2
      have := hd.ifresh k2 id h2; omega
    · simp only [e1, ↓reduceIte, Option.some.injEq, e2] at h1 h2
      have := hd.ifresh k1 id h1; omega
    · simp only [e1, ↓reduceIte, e2] at h1 h2
      exact hd.inj k1 k2 id h1 h2

theorem walStep_add_present {w : Wal} (h : Sane w) (k : Nat) (hk : k ∈ keysOf w) : walStep w (.kmAdd k) = w := by
  have hp : present w k = true := (present_iff h k).2 hk
  simp [walStep, expand, hp]

theorem walStep_remove_absent {w : Wal} (h : Sane w) (k : Nat) (hk : k ∉ keysOf w) : walStep w (.kmRemove k) = w := by
  have hp : present w k = false := by
    cases hh : present w k with
    | false => rfl
    | true => exact absurd ((present_iff h k).1 hh) hk
  simp [walStep, expand, hp]

/-- the stored record of a key -/
theorem rec_of_key {w : Wal} (h : DSane w) (k id : Nat) (hl : lookup w.pidx k = some id) (p : Nat × Nat) (hp : p ∈ w.recs)
    (hpk : p.2 = k) : p.1 = id := by
  have := h.idx p hp
  rw [hpk, hl] at this
  exact (Option.some.inj this).symm

theorem walStep_remove_present {w : Wal} (h : Sane w) (k : Nat) (hk : k ∈ keysOf w) :
    Sane (walStep w (.kmRemove k)) ∧ ∀ k', k' ∈ keysOf (walStep w (.kmRemove k)) ↔ (k' ∈ keysOf w ∧ k' ≠ k) := by
  have hp : present w k = true := (present_iff h k).2 hk
  obtain ⟨hd, hm⟩ := h
  obtain ⟨p0, hp0, hp0k⟩ := List.mem_map.1 hk
  have hl : lookup w.midx k = some p0.1 := by rw [hm]; have := hd.idx p0 hp0; rwa [hp0k] at this
  have hw : walStep w (.kmRemove k) =
      { recs := w.recs.filter (fun p => p.1 != p0.1), pidx := eraseKey k w.midx, midx := eraseKey k w.midx,
        nextId := w.nextId } := by
    simp [walStep, expand, hp, stepWal, hl]
  rw [hw]
  have hkeep : ∀ p ∈ w.recs, p.1 ≠ p0.1 → p.2 ≠ k := by
    intro p hp hne hpk
    exact hne (rec_of_key hd k p0.1 (hm ▸ hl) p hp hpk)
  refine ⟨⟨⟨?_, ?_, ?_, ?_, ?_⟩, rfl⟩, ?_⟩
  · intro p hp
    simp only [List.mem_filter, bne_iff_ne, ne_eq] at hp
    rw [lookup_eraseKey, hm]
    simp [hkeep p hp.1 hp.2, hd.idx p hp.1]
  · exact List.Pairwise.sublist ((List.filter_sublist).map _) hd.nodup
  · intro p hp
    exact hd.fresh p (List.mem_filter.1 hp).1
  · intro k' id hl'
    rw [lookup_eraseKey, hm] at hl'
    by_cases hkk : k' = k
    · simp [hkk] at hl'
    · simp only [hkk, ↓reduceIte] at hl'; exact hd.ifresh k' id hl'
  · intro k1 k2 id h1 h2
    rw [lookup_eraseKey, hm] at h1 h2
    by_cases e1 : k1 = k
    · simp [e1] at h1
    · by_cases e2 : k2 = k
      · simp [e2] at h2
      · simp only [e1, ↓reduceIte, e2] at h1 h2
        exact hd.inj k1 k2 id h1 h2
  · intro k'
    simp only [keysOf, List.mem_map, List.mem_filter, bne_iff_ne, ne_eq]
    constructor
    · rintro ⟨p, ⟨hp, hne⟩, rfl⟩
      exact ⟨⟨p, hp, rfl⟩, hkeep p hp hne⟩
    · rintro ⟨⟨p, hp, rfl⟩, hne⟩
      refine ⟨p, ⟨hp, ?_⟩, rfl⟩
      intro he
      -- same id, distinct ids in recs: same record
      have : p = p0 := by
        have hnd := hd.nodup
        have key : ∀ (l : List (Nat × Nat)), (l.map (·.1)).Nodup → ∀ a ∈ l, ∀ b ∈ l, a.1 = b.1 → a = b := by
          intro l
          induction l with
          | nil => intro _ a ha; cases ha
          | cons x xs ih =>
            intro hn a ha b hb hab
            simp only [List.map_cons, List.nodup_cons] at hn
            rcases List.mem_cons.1 ha with rfl | ha' <;> rcases List.mem_cons.1 hb with rfl | hb'
            · rfl
            · exact absurd (hab ▸ List.mem_map_of_mem (f := (·.1)) hb') hn.1
            · exact absurd (hab ▸ List.mem_map_of_mem (f := (·.1)) ha') hn.1
            · exact ih hn.2 a ha' b hb' hab
        exact key w.recs hnd p hp p0 hp0 he
      exact hne (this ▸ hp0k)

/-- every handler step keeps the wallet sane -/
theorem walStep_sane {w : Wal} (h : Sane w) (s : Step) (hs : s.handler = true) : Sane (walStep w s) := by
  cases s with
  | kmAdd k =>
    by_cases hk : k ∈ keysOf w
    · rw [walStep_add_present h k hk]; exact h
    · exact (walStep_add_absent h k hk).1
  | kmRemove k =>
    by_cases hk : k ∈ keysOf w
    · exact (walStep_remove_present h k hk).1
    · rw [walStep_remove_absent h k hk]; exact h
  | _ => first | (simp [Step.handler] at hs; done) | (simpa [walStep, expand, stepWal] using h)

/-- the share key a handler step's key-manager call is about -/
def Step.kmKey : Step → Option Nat
  | .kmAdd k => some k
  | .kmRemove k => some k
  | _ => none

/-- membership after one handler step -/
theorem walStep_mem {w : Wal} (h : Sane w) (s : Step) (hs : s.handler = true) (k : Nat) :
    k ∈ keysOf (walStep w s) ↔
      match s with
      | .kmAdd k0 => k = k0 ∨ k ∈ keysOf w
      | .kmRemove k0 => k ≠ k0 ∧ k ∈ keysOf w
      | _ => k ∈ keysOf w := by
  cases s with
  | kmAdd k0 =>
    by_cases hk : k0 ∈ keysOf w
    · rw [walStep_add_present h k0 hk]
      constructor
      · exact Or.inr
      · rintro (rfl | h1)
        · exact hk
        · exact h1
    · rw [(walStep_add_absent h k0 hk).2]; simp [or_comm]
  | kmRemove k0 =>
    by_cases hk : k0 ∈ keysOf w
    · rw [(walStep_remove_present h k0 hk).2 k]; exact and_comm
    · rw [walStep_remove_absent h k0 hk]
      constructor
      · intro h1; exact ⟨fun e => hk (e ▸ h1), h1⟩
      · exact And.right
  | _ => first | (simp [Step.handler] at hs; done) | (simp [walStep, expand, stepWal])

end Ssv.Registry
