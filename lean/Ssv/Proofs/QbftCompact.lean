/-
Helper lemmas for C06 (compaction clause): trimming a container below a threshold round is invisible to every read
at or above that threshold. Core Lean only.
-/
import Ssv.Model.Qbft.Run

namespace Ssv.Qbft

/-- the part of a container at or above round `k` -/
def trimFrom (k : Nat) (c : Container) : Container := c.filter (fun m => decide (k ≤ m.round))

/-- two containers hold the same messages, in the same order, from round `k` on -/
def AgreeFrom (k : Nat) (c c' : Container) : Prop := trimFrom k c = trimFrom k c'

theorem AgreeFrom.refl (k : Nat) (c : Container) : AgreeFrom k c c := rfl

theorem AgreeFrom.symm {k : Nat} {c c' : Container} (h : AgreeFrom k c c') : AgreeFrom k c' c := Eq.symm h

theorem AgreeFrom.trans {k : Nat} {c c' c'' : Container} (h : AgreeFrom k c c') (h' : AgreeFrom k c' c'') :
    AgreeFrom k c c'' := Eq.trans h h'

theorem filter_filter_of_imp {α : Type} (p q : α → Bool) (l : List α) (h : ∀ a, q a = true → p a = true) :
    (l.filter p).filter q = l.filter q := by
  induction l with
  | nil => rfl
  | cons a l ih =>
    by_cases hp : p a = true
    · by_cases hq : q a = true <;> simp [List.filter, hp, hq, ih]
    · have hq : ¬ q a = true := fun hq => hp (h a hq)
      simp [List.filter, hp, hq, ih]

theorem trimFrom_trimFrom {k k' : Nat} (h : k ≤ k') (c : Container) : trimFrom k' (trimFrom k c) = trimFrom k' c := by
  unfold trimFrom
  apply filter_filter_of_imp
  intro a ha
  simp at ha ⊢
  omega

theorem AgreeFrom.mono {k k' : Nat} {c c' : Container} (h : AgreeFrom k c c') (hk : k ≤ k') : AgreeFrom k' c c' := by
  unfold AgreeFrom at *
  rw [← trimFrom_trimFrom hk c, ← trimFrom_trimFrom hk c', h]

theorem forRound_trimFrom {k r : Nat} (h : k ≤ r) (c : Container) : forRound (trimFrom k c) r = forRound c r := by
  unfold forRound trimFrom
  apply filter_filter_of_imp
  intro a ha
  simp at ha ⊢
  omega

theorem agree_forRound {k r : Nat} {c c' : Container} (h : AgreeFrom k c c') (hr : k ≤ r) :
    forRound c' r = forRound c r := by
  rw [← forRound_trimFrom hr c, ← forRound_trimFrom hr c', h]

/-- messages strictly above a round (the input of `hasReceivedPartialQuorum`) -/
theorem agree_above {k r : Nat} {c c' : Container} (h : AgreeFrom k c c') (hr : k ≤ r + 1) :
    c'.filter (fun x => decide (x.round > r)) = c.filter (fun x => decide (x.round > r)) := by
  have e : ∀ d : Container, (trimFrom k d).filter (fun x => decide (x.round > r)) = d.filter (fun x => decide (x.round > r)) := by
    intro d
    unfold trimFrom
    apply filter_filter_of_imp
    intro a ha
    simp at ha ⊢
    omega
  rw [← e c, ← e c', h]

theorem trimFrom_append (k : Nat) (c d : Container) : trimFrom k (c ++ d) = trimFrom k c ++ trimFrom k d := by
  unfold trimFrom; simp

theorem agree_addFirst {k : Nat} {c c' : Container} (h : AgreeFrom k c c') (m : Msg) (hm : k ≤ m.round) :
    (addFirst c' m).2 = (addFirst c m).2 ∧ AgreeFrom k (addFirst c m).1 (addFirst c' m).1 := by
  unfold addFirst
  rw [agree_forRound h hm]
  split
  · exact ⟨rfl, h⟩
  · refine ⟨rfl, ?_⟩
    unfold AgreeFrom
    rw [trimFrom_append, trimFrom_append, h]

theorem agree_longest {k r : Nat} {c c' : Container} (h : AgreeFrom k c c') (hr : k ≤ r) (root : Nat) :
    longestUniqueSigners c' r root = longestUniqueSigners c r root := by
  unfold longestUniqueSigners
  rw [agree_forRound h hr]

/-- compaction of a container without clearing keeps everything from the threshold on -/
theorem agreeFrom_compactContainerEdit (c : Container) (k : Nat) : AgreeFrom k c (compactContainerEdit c k false) := by
  unfold compactContainerEdit AgreeFrom
  split
  · rfl
  · simp only [Bool.false_eq_true, if_false]
    have : (fun m : Msg => !decide (m.round < k)) = (fun m : Msg => decide (k ≤ m.round)) := by
      funext m
      by_cases h : k ≤ m.round
      · have : ¬ m.round < k := by omega
        simp [h, this]
      · have : m.round < k := by omega
        simp [h, this]
    rw [this]
    unfold trimFrom
    rw [List.filter_filter]
    simp

end Ssv.Qbft
