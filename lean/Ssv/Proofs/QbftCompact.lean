/-
Helper lemmas for C06 (compaction clause): trimming a container below a threshold round is invisible to every read
at or above that threshold. Core Lean only.
-/
import Ssv.Model.Qbft.Run

namespace Ssv.Qbft

/-- the part of a container at or above round `k` -/
def trimFrom (k : Nat) (c : Container) : Container := c.filter (fun m => decide (k ≤ m.round))

/-- two containers hold the same messages, in the same order, from round `k` on -/
def AgreeFrom (k : Nat) (c c' : Container) : Prop := trimFrom k c = trimFrom k c'

theorem AgreeFrom.refl (k : Nat) (c : Container) : AgreeFrom k c c := rfl

theorem AgreeFrom.symm {k : Nat} {c c' : Container} (h : AgreeFrom k c c') : AgreeFrom k c' c := Eq.symm h

theorem AgreeFrom.trans {k : Nat} {c c' c'' : Container} (h : AgreeFrom k c c') (h' : AgreeFrom k c' c'') :
    AgreeFrom k c c'' := Eq.trans h h'

theorem filter_filter_of_imp {α : Type} (p q : α → Bool) (l : List α) (h : ∀ a, q a = true → p a = true) :
    (l.filter p).filter q = l.filter q := by
  induction l with
  | nil => rfl
  | cons a l ih =>
    by_cases hp : p a = true
    · by_cases hq : q a = true <;> simp [List.filter, hp, hq, ih]
    · have hq : ¬ q a = true := fun hq => hp (h a hq)
      simp [List.filter, hp, hq, ih]

theorem trimFrom_trimFrom {k k' : Nat} (h : k ≤ k') (c : Container) : trimFrom k' (trimFrom k c) = trimFrom k' c := by
  unfold trimFrom
  apply filter_filter_of_imp
  intro a ha
  simp at ha ⊢
  omega

theorem AgreeFrom.mono {k k' : Nat} {c c' : Container} (h : AgreeFrom k c c') (hk : k ≤ k') : AgreeFrom k' c c' := by
  unfold AgreeFrom at *
  rw [← trimFrom_trimFrom hk c, ← trimFrom_trimFrom hk c', h]

theorem forRound_trimFrom {k r : Nat} (h : k ≤ r) (c : Container) : forRound (trimFrom k c) r = forRound c r := by
  unfold forRound trimFrom
  apply filter_filter_of_imp
  intro a ha
  simp at ha ⊢
  omega

theorem agree_forRound {k r : Nat} {c c' : Container} (h : AgreeFrom k c c') (hr : k ≤ r) :
    forRound c' r = forRound c r := by
  rw [← forRound_trimFrom hr c, ← forRound_trimFrom hr c', h]

/-- messages strictly above a round (the input of `hasReceivedPartialQuorum`) -/
theorem agree_above {k r : Nat} {c c' : Container} (h : AgreeFrom k c c') (hr : k ≤ r + 1) :
    c'.filter (fun x => Nat.blt r x.round) = c.filter (fun x => Nat.blt r x.round) := by
  have e : ∀ d : Container, (trimFrom k d).filter (fun x => Nat.blt r x.round) = d.filter (fun x => Nat.blt r x.round) := by
    intro d
    unfold trimFrom
    apply filter_filter_of_imp
    intro a ha
    simp [Nat.blt_eq] at ha ⊢
    omega
  rw [← e c, ← e c', h]

theorem trimFrom_append (k : Nat) (c d : Container) : trimFrom k (c ++ d) = trimFrom k c ++ trimFrom k d := by
  unfold trimFrom; simp

theorem agree_addFirst {k : Nat} {c c' : Container} (h : AgreeFrom k c c') (m : Msg) (hm : k ≤ m.round) :
    (addFirst c' m).2 = (addFirst c m).2 ∧ AgreeFrom k (addFirst c m).1 (addFirst c' m).1 := by
  unfold addFirst
  rw [agree_forRound h hm]
  split
  · exact ⟨rfl, h⟩
  · refine ⟨rfl, ?_⟩
    unfold AgreeFrom
    rw [trimFrom_append, trimFrom_append, h]

theorem agree_longest {k r : Nat} {c c' : Container} (h : AgreeFrom k c c') (hr : k ≤ r) (root : Nat) :
    longestUniqueSigners c' r root = longestUniqueSigners c r root := by
  unfold longestUniqueSigners
  rw [agree_forRound h hr]

/-- compaction of a container without clearing keeps everything from the threshold on -/
theorem agreeFrom_compactContainerEdit (c : Container) (k : Nat) : AgreeFrom k c (compactContainerEdit c k false) := by
  unfold compactContainerEdit AgreeFrom
  split
  · rfl
  · simp only [Bool.false_eq_true, if_false]
    have : (fun m : Msg => !decide (m.round < k)) = (fun m : Msg => decide (k ≤ m.round)) := by
      funext m
      by_cases h : k ≤ m.round
      · have : ¬ m.round < k := by omega
        simp [h, this]
      · have : m.round < k := by omega
        simp [h, this]
    rw [this]
    unfold trimFrom
    rw [List.filter_filter]
    simp

/-! ### the simulation relation -/

def withC (s : State) (P Pr C RC : Container) : State :=
  { s with propose := P, prepare := Pr, commit := C, roundChange := RC }

def Sim (s s' : State) : Prop :=
  ∃ P Pr C RC, s' = withC s P Pr C RC ∧ AgreeFrom s.round s.propose P ∧ AgreeFrom s.lastPreparedRound s.prepare Pr ∧
    AgreeFrom s.round s.commit C ∧ AgreeFrom s.round s.roundChange RC

def WF (s : State) : Prop := s.lastPreparedRound ≤ s.round

def StepSim (st st' : Step) : Prop := st'.outs = st.outs ∧ st'.res = st.res ∧ Sim st.st st'.st ∧ WF st.st

theorem okStep_sim {s s' : State} (h : Sim s s') (hw : WF s) (o : List Out) : StepSim (okStep s o) (okStep s' o) := by
  obtain ⟨P, Pr, C, RC, rfl, h⟩ := h
  exact ⟨rfl, rfl, ⟨P, Pr, C, RC, rfl, h⟩, hw⟩

theorem failStep_sim {s s' : State} (h : Sim s s') (hw : WF s) (o : List Out) (f : Fail) : StepSim (failStep s o f) (failStep s' o f) := by
  cases f <;> exact ⟨rfl, rfl, h, hw⟩

theorem sendOr_sim (cfg : Cfg) {s s' : State} (h : Sim s s') (hw : WF s) (a : Atom) (m : Msg) (pre : List Out) :
    StepSim (sendOr cfg s a m pre) (sendOr cfg s' a m pre) := by
  have e : broadcast cfg s' m = broadcast cfg s m := by
    obtain ⟨P, Pr, C, RC, rfl, _⟩ := h; rfl
  unfold sendOr
  rw [e]
  cases wrap a (broadcast cfg s m) with
  | ok o => exact okStep_sim h hw _
  | error f => exact failStep_sim h hw _ f

theorem uponPrepare_sim (cfg : Cfg) {s s' : State} (m : Msg) (h : Sim s s') (hm : s.round ≤ m.round) (hwf : WF s) :
    StepSim (uponPrepare cfg s m) (uponPrepare cfg s' m) := by
  obtain ⟨P, Pr, C, RC, rfl, hP, hPr, hC, hRC⟩ := h
  have hle : s.lastPreparedRound ≤ m.round := Nat.le_trans hwf hm
  have ha := agree_addFirst hPr m hle
  have hfr : forRound Pr s.round = forRound s.prepare s.round := agree_forRound hPr hwf
  unfold uponPrepare
  rcases hx : addFirst (withC s P Pr C RC).prepare m with ⟨P1, b⟩
  rcases hy : addFirst s.prepare m with ⟨P0, b0⟩
  have hx' : addFirst Pr m = (P1, b) := hx
  rw [hx', hy] at ha
  obtain ⟨hb, hag⟩ := ha
  simp only at hb hag
  subst hb
  have hfr1 : forRound P1 s.round = forRound P0 s.round := agree_forRound hag hwf
  simp only [withC, hfr, hfr1]
  cases b
  · simp only [Bool.not_false, if_true]
    exact okStep_sim ⟨P, Pr, C, RC, rfl, hP, hPr, hC, hRC⟩ hwf []
  · simp only [Bool.not_true, Bool.false_eq_true, if_false]
    have hS1 : Sim { s with prepare := P0 } { withC s P Pr C RC with prepare := P1 } := ⟨P, P1, C, RC, rfl, hP, hag, hC, hRC⟩
    split
    · exact okStep_sim hS1 hwf []
    · split
      · exact okStep_sim hS1 hwf []
      · cases hacc : s.accepted with
        | none => exact ⟨rfl, rfl, ⟨P, P1, C, RC, rfl, hP, hag, hC, hRC⟩, hwf⟩
        | some p =>
          simp only
          have hS2 : Sim { s with prepare := P0, lastPreparedValue := p.fullData, lastPreparedRound := s.round, accepted := some p }
              { withC s P Pr C RC with prepare := P1, lastPreparedValue := p.fullData, lastPreparedRound := s.round, accepted := some p } :=
            ⟨P, P1, C, RC, rfl, hP, hag.mono hwf, hC, hRC⟩
          exact sendOr_sim cfg hS2 (Nat.le_refl _) .bcastCommitFailed _ []
theorem uponProposal_sim (cfg : Cfg) {s s' : State} (m : Msg) (h : Sim s s') (hm : s.round ≤ m.round)
    (hwf : WF s) :
    StepSim (uponProposal cfg s m) (uponProposal cfg s' m) := by
  obtain ⟨P, Pr, C, RC, rfl, hP, hPr, hC, hRC⟩ := h
  have ha := agree_addFirst hP m hm
  unfold uponProposal
  rcases hx : addFirst (withC s P Pr C RC).propose m with ⟨P1, b⟩
  rcases hy : addFirst s.propose m with ⟨P0, b0⟩
  have hx' : addFirst P m = (P1, b) := hx
  rw [hx', hy] at ha
  obtain ⟨hb, hag⟩ := ha
  simp only at hb hag
  subst hb
  simp only
  cases b
  · simp only [Bool.not_false, if_true]
    exact okStep_sim ⟨P, Pr, C, RC, rfl, hP, hPr, hC, hRC⟩ hwf []
  · simp only [Bool.not_true, Bool.false_eq_true, if_false]
    have hS : Sim { s with propose := P0, accepted := some m, round := m.round }
        { withC s P Pr C RC with propose := P1, accepted := some m, round := m.round } :=
      ⟨P1, Pr, C, RC, rfl, hag.mono hm, hPr, hC.mono hm, hRC.mono hm⟩
    have hw1 : WF { s with propose := P0, accepted := some m, round := m.round } := Nat.le_trans hwf hm
    have := sendOr_sim cfg hS hw1 .bcastPrepareFailed (createPrepare cfg { s with propose := P0, accepted := some m, round := m.round } m.round (hashData m.fullData))
      (if m.round > s.round then [Out.timer m.height m.round] else [])
    exact this

theorem uponCommit_sim (cfg : Cfg) {s s' : State} (m : Msg) (h : Sim s s') (hm : s.round ≤ m.round) (hwf : WF s) :
    StepSim (uponCommit cfg s m) (uponCommit cfg s' m) := by
  obtain ⟨P, Pr, C, RC, rfl, hP, hPr, hC, hRC⟩ := h
  have ha := agree_addFirst hC m hm
  unfold uponCommit
  rcases hx : addFirst (withC s P Pr C RC).commit m with ⟨C1, b⟩
  rcases hy : addFirst s.commit m with ⟨C0, b0⟩
  have hx' : addFirst C m = (C1, b) := hx
  rw [hx', hy] at ha
  obtain ⟨hb, hag⟩ := ha
  simp only at hb hag
  subst hb
  have hl : longestUniqueSigners C1 m.round m.root = longestUniqueSigners C0 m.round m.root := agree_longest hag hm _
  simp only [withC, hl]
  cases b
  · simp only [Bool.not_false, if_true]
    exact okStep_sim ⟨P, Pr, C, RC, rfl, hP, hPr, hC, hRC⟩ hwf []
  · simp only [Bool.not_true, Bool.false_eq_true, if_false]
    rcases longestUniqueSigners C0 m.round m.root with ⟨signers, msgs⟩
    simp only
    have hS0 : Sim { s with commit := C0 } { withC s P Pr C RC with commit := C1 } := ⟨P, Pr, C1, RC, rfl, hP, hPr, hag, hRC⟩
    split
    · exact okStep_sim hS0 hwf []
    · cases hacc : s.accepted with
      | none =>
        have hS : Sim { s with commit := C0, accepted := none } { withC s P Pr C RC with commit := C1, accepted := none } :=
          ⟨P, Pr, C1, RC, rfl, hP, hPr, hag, hRC⟩
        exact ⟨rfl, rfl, hS, hwf⟩
      | some p =>
        simp only
        cases wrap Atom.aggregateFailed (aggregateCommitMsgs msgs p.fullData) with
        | error f =>
          have hS : Sim { s with commit := C0, accepted := some p } { withC s P Pr C RC with commit := C1, accepted := some p } :=
            ⟨P, Pr, C1, RC, rfl, hP, hPr, hag, hRC⟩
          exact failStep_sim hS hwf [] f
        | ok agg =>
          have hS : Sim { s with commit := C0, accepted := some p, decided := true, decidedValue := p.fullData }
              { withC s P Pr C RC with commit := C1, accepted := some p, decided := true, decidedValue := p.fullData } :=
            ⟨P, Pr, C1, RC, rfl, hP, hPr, hag, hRC⟩
          exact ⟨rfl, rfl, hS, hwf⟩

theorem createRoundChange_sim (cfg : Cfg) {s s' : State} (h : Sim s s') (r : Nat) :
    createRoundChange cfg s' r = createRoundChange cfg s r := by
  obtain ⟨P, Pr, C, RC, rfl, hP, hPr, hC, hRC⟩ := h
  have hfr : forRound Pr s.lastPreparedRound = forRound s.prepare s.lastPreparedRound := agree_forRound hPr (Nat.le_refl _)
  unfold createRoundChange getRoundChangeJustification
  simp only [withC, hfr]

theorem uponRoundTimeout_sim (cfg : Cfg) {s s' : State} (h : Sim s s') (hwf : WF s) :
    StepSim (uponRoundTimeout cfg s) (uponRoundTimeout cfg s') := by
  have hrc := createRoundChange_sim cfg h (s.round + 1)
  obtain ⟨P, Pr, C, RC, rfl, hP, hPr, hC, hRC⟩ := h
  unfold uponRoundTimeout
  have hcp : canProcess cfg (withC s P Pr C RC) = canProcess cfg s := rfl
  have hb : ∀ m, broadcast cfg (withC s P Pr C RC) m = broadcast cfg s m := fun _ => rfl
  rw [hcp]
  split
  · exact ⟨rfl, rfl, ⟨P, Pr, C, RC, rfl, hP, hPr, hC, hRC⟩, hwf⟩
  · simp only [withC] at hrc ⊢
    rw [hrc]
    have hS : Sim { s with round := s.round + 1, accepted := none } { withC s P Pr C RC with round := s.round + 1, accepted := none } :=
      ⟨P, Pr, C, RC, rfl, hP.mono (Nat.le_succ _), hPr, hC.mono (Nat.le_succ _), hRC.mono (Nat.le_succ _)⟩
    have hw : WF { s with round := s.round + 1, accepted := none } := Nat.le_trans hwf (Nat.le_succ _)
    have hb' := hb (createRoundChange cfg s (s.round + 1))
    simp only [withC] at hb'
    rw [hb']
    cases wrap Atom.bcastRoundChangeFailed (broadcast cfg s (createRoundChange cfg s (s.round + 1))) with
    | ok o => exact okStep_sim hS hw _
    | error f => exact failStep_sim hS hw _ f

theorem isPJFLR_withC (cfg : Cfg) (s : State) (P Pr C RC : Container) (rcMsg : Msg) (rcs : List Msg) (v r : Nat) :
    isProposalJustificationForLeadingRound cfg (withC s P Pr C RC) rcMsg rcs v r =
      isProposalJustificationForLeadingRound cfg s rcMsg rcs v r := rfl

theorem findJustified_withC (cfg : Cfg) (s : State) (P Pr C RC : Container) (t : Msg) (rcs : List Msg) (l : List Msg) :
    findJustified cfg (withC s P Pr C RC) t rcs l = findJustified cfg s t rcs l := by
  induction l with
  | nil => rfl
  | cons m rest ih =>
    unfold findJustified
    have e : (withC s P Pr C RC).startValue = s.startValue := rfl
    simp only [isPJFLR_withC, ih, e]

theorem hasReceivedProposalJustification_sim (cfg : Cfg) {s s' : State} (h : Sim s s') (t : Msg) (ht : s.round ≤ t.round) :
    hasReceivedProposalJustification cfg s' t = hasReceivedProposalJustification cfg s t := by
  obtain ⟨P, Pr, C, RC, rfl, hP, hPr, hC, hRC⟩ := h
  have hfr : forRound RC t.round = forRound s.roundChange t.round := agree_forRound hRC ht
  unfold hasReceivedProposalJustification
  have := findJustified_withC cfg s P Pr C RC t (forRound s.roundChange t.round) (forRound s.roundChange t.round)
  simp only [withC] at hfr this ⊢
  simp only [hfr, this]

theorem uponChangeRoundPartialQuorum_sim (cfg : Cfg) {s s' : State} (h : Sim s s') (hwf : WF s) (newRound : Nat) (hn : s.round ≤ newRound) :
    StepSim (uponChangeRoundPartialQuorum cfg s newRound) (uponChangeRoundPartialQuorum cfg s' newRound) := by
  obtain ⟨P, Pr, C, RC, rfl, hP, hPr, hC, hRC⟩ := h
  have hS : Sim { s with round := newRound, accepted := none } { withC s P Pr C RC with round := newRound, accepted := none } :=
    ⟨P, Pr, C, RC, rfl, hP.mono hn, hPr, hC.mono hn, hRC.mono hn⟩
  have hw : WF { s with round := newRound, accepted := none } := Nat.le_trans hwf hn
  have hrc := createRoundChange_sim cfg hS newRound
  unfold uponChangeRoundPartialQuorum
  simp only [withC] at hrc ⊢
  rw [hrc]
  exact sendOr_sim cfg hS hw _ _ _

theorem uponRoundChange_sim (cfg : Cfg) {s s' : State} (m : Msg) (h : Sim s s') (hm : s.round ≤ m.round) (hwf : WF s) :
    StepSim (uponRoundChange cfg s m) (uponRoundChange cfg s' m) := by
  obtain ⟨P, Pr, C, RC, rfl, hP, hPr, hC, hRC⟩ := h
  have ha := agree_addFirst hRC m hm
  have hfr : forRound RC m.round = forRound s.roundChange m.round := agree_forRound hRC hm
  unfold uponRoundChange
  rcases hx : addFirst (withC s P Pr C RC).roundChange m with ⟨R1, b⟩
  rcases hy : addFirst s.roundChange m with ⟨R0, b0⟩
  have hx' : addFirst RC m = (R1, b) := hx
  rw [hx', hy] at ha
  obtain ⟨hb, hag⟩ := ha
  simp only at hb hag
  subst hb
  have hS1 : Sim { s with roundChange := R0 } { withC s P Pr C RC with roundChange := R1 } := ⟨P, Pr, C, R1, rfl, hP, hPr, hC, hag⟩
  have hw1 : WF { s with roundChange := R0 } := hwf
  have hj := hasReceivedProposalJustification_sim cfg hS1 m hm
  have hfr1 : forRound R1 s.round = forRound R0 s.round := agree_forRound hag (Nat.le_refl _)
  have hab : R1.filter (fun x => Nat.blt s.round x.round) = R0.filter (fun x => Nat.blt s.round x.round) :=
    agree_above hag (Nat.le_succ _)
  simp only [withC] at hj hfr ⊢
  simp only [hfr]
  cases b
  · simp only [Bool.not_false, if_true]
    exact okStep_sim ⟨P, Pr, C, RC, rfl, hP, hPr, hC, hRC⟩ hwf []
  · simp only [Bool.not_true, Bool.false_eq_true, if_false]
    split
    · exact okStep_sim hS1 hw1 []
    · simp only [hj, hfr1, hab]
      cases hasReceivedProposalJustification cfg { s with roundChange := R0 } m with
      | error f => exact failStep_sim hS1 hw1 [] f
      | ok r =>
        cases r with
        | some jv =>
          rcases jv with ⟨justified, value⟩
          simp only
          have hcp : createProposal cfg { withC s P Pr C RC with roundChange := R1 } value (forRound R0 s.round) justified.rcJust =
              createProposal cfg { s with roundChange := R0 } value (forRound R0 s.round) justified.rcJust := rfl
          simp only [withC] at hcp
          rw [hcp]
          exact sendOr_sim cfg hS1 hw1 _ _ _
        | none =>
          simp only
          split
          · split
            · exact okStep_sim hS1 hw1 []
            · rename_i hlt
              exact uponChangeRoundPartialQuorum_sim cfg hS1 hw1 _ (by simp only at hlt ⊢; omega)
          · exact okStep_sim hS1 hw1 []

theorem baseMsgValidation_withC (cfg : Cfg) (s : State) (P Pr C RC : Container) (m : Msg) :
    baseMsgValidation cfg (withC s P Pr C RC) m = baseMsgValidation cfg s m := rfl

/-- an accepted message is never for a past round -/
theorem baseMsgValidation_round (cfg : Cfg) (s : State) (m : Msg) (u : Unit)
    (h : wrap Atom.invalidSigned (baseMsgValidation cfg s m) = .ok u) : s.round ≤ m.round := by
  apply Decidable.byContradiction
  intro hlt
  have hd : decide (m.round < s.round) = true := by simp; omega
  unfold baseMsgValidation at h
  cases hv : wrap Atom.invalidSigned (signedValidate m.toBase) with
  | error e =>
    simp only [hv, bind, Except.bind] at h
    cases e <;> simp [wrap] at h
  | ok v =>
    simp only [hv, bind, Except.bind, hd, rejectIf, fail, if_true] at h
    simp [wrap] at h

theorem processMsg_sim (cfg : Cfg) {s s' : State} (m : Msg) (h : Sim s s') (hwf : WF s) :
    StepSim (processMsg cfg s m) (processMsg cfg s' m) := by
  have hcp : canProcess cfg s' = canProcess cfg s := by
    obtain ⟨P, Pr, C, RC, rfl, _⟩ := h; rfl
  have hv : baseMsgValidation cfg s' m = baseMsgValidation cfg s m := by
    obtain ⟨P, Pr, C, RC, rfl, _⟩ := h; rfl
  unfold processMsg
  rw [hcp, hv]
  split
  · exact ⟨rfl, rfl, h, hwf⟩
  · cases hval : wrap Atom.invalidSigned (baseMsgValidation cfg s m) with
    | error f => exact failStep_sim h hwf [] f
    | ok u =>
      have hm := baseMsgValidation_round cfg s m u hval
      simp only
      split
      · exact uponProposal_sim cfg m h hm hwf
      · split
        · exact uponPrepare_sim cfg m h hm hwf
        · split
          · exact uponCommit_sim cfg m h hm hwf
          · split
            · exact uponRoundChange_sim cfg m h hm hwf
            · exact ⟨rfl, rfl, h, hwf⟩

theorem Sim.refl (s : State) : Sim s s := ⟨s.propose, s.prepare, s.commit, s.roundChange, rfl, rfl, rfl, rfl, rfl⟩

/-- compacting the right-hand state of an undecided pair keeps the relation -/
theorem compact_sim {s s' : State} (h : Sim s s') (hd : s.decided = false) : Sim s (compact s') := by
  obtain ⟨P, Pr, C, RC, rfl, hP, hPr, hC, hRC⟩ := h
  refine ⟨compactContainerEdit P s.round false, compactContainerEdit Pr s.lastPreparedRound false,
    compactContainerEdit C s.round false, compactContainerEdit RC s.round false, ?_, ?_, ?_, ?_, ?_⟩
  · simp only [compact, compactWith, withC, hd]
  · exact hP.trans (agreeFrom_compactContainerEdit P s.round)
  · exact hPr.trans (agreeFrom_compactContainerEdit Pr s.lastPreparedRound)
  · exact hC.trans (agreeFrom_compactContainerEdit C s.round)
  · exact hRC.trans (agreeFrom_compactContainerEdit RC s.round)

theorem Sim.decided {s s' : State} (h : Sim s s') : s'.decided = s.decided := by
  obtain ⟨P, Pr, C, RC, rfl, _⟩ := h; rfl

/-- ops of an instance run in which compaction is only ever applied to undecided instances, and `Start` has happened before -/
def IOp.allowed : IOp → Bool
  | .deliver _ => true
  | .timeout => true
  | .stop => true
  | .compactUndecided => true
  | .compact => false
  | .start _ _ => false

theorem runI_sim (cfg : Cfg) (ops : List IOp) (hops : ∀ op ∈ ops, op.allowed = true) :
    ∀ s s' : State, Sim s s' → WF s → (runI cfg s' ops).2 = (runI cfg s (ops.filter (fun op => !op.isCompaction))).2 := by
  induction ops with
  | nil => intro s s' _ _; rfl
  | cons op rest ih =>
    intro s s' h hwf
    have hrest : ∀ op ∈ rest, op.allowed = true := fun o ho => hops o (List.mem_cons_of_mem _ ho)
    have hop := hops op (List.mem_cons_self)
    cases op with
    | start v hh => simp [IOp.allowed] at hop
    | compact => simp [IOp.allowed] at hop
    | compactUndecided =>
      have hs'' : Sim s (if s'.decided then s' else compact s') := by
        by_cases hd : s'.decided = true
        · simp [hd]; exact h
        · have hd' : s'.decided = false := by simpa using hd
          simp only [hd', Bool.false_eq_true, if_false]
          exact compact_sim h (by rw [← h.decided]; exact hd')
      have := ih hrest s _ hs'' hwf
      simp only [runI, stepI, IOp.isCompaction, List.filter, Bool.not_true]
      exact this
    | deliver m =>
      obtain ⟨ho, hr, hS, hw⟩ := processMsg_sim cfg m h hwf
      have := ih hrest _ _ hS hw
      simp only [runI, stepI, IOp.isCompaction, List.filter, Bool.not_false, ho, hr, this]
    | timeout =>
      obtain ⟨ho, hr, hS, hw⟩ := uponRoundTimeout_sim cfg h hwf
      have := ih hrest _ _ hS hw
      simp only [runI, stepI, IOp.isCompaction, List.filter, Bool.not_false, ho, hr, this]
    | stop =>
      obtain ⟨P, Pr, C, RC, rfl, hP, hPr, hC, hRC⟩ := h
      have hS : Sim (forceStop s) (forceStop (withC s P Pr C RC)) := ⟨P, Pr, C, RC, rfl, hP, hPr, hC, hRC⟩
      have := ih hrest _ _ hS hwf
      simp only [runI, stepI, IOp.isCompaction, List.filter, Bool.not_false, this]
      rfl

end Ssv.Qbft
