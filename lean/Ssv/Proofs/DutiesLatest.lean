/- C16 helper lemmas: "only the most recently fetched assignment is dispatched". -/
import Ssv.Proofs.DutiesSafety

namespace Ssv.Duties

/-- fold of the only-latest monitor over a list of atoms -/
def lrun (k : Kind) (n : Net) (m : LMon) (as : List Atom) : LMon := as.foldl (LMon.step k n) m

theorem lrun_append (k : Kind) (n : Net) (m : LMon) (a b : List Atom) :
    lrun k n m (a ++ b) = lrun k n (lrun k n m a) b := List.foldl_append ..
@[simp] theorem lrun_nil (k : Kind) (n : Net) (m : LMon) : lrun k n m [] = m := rfl
@[simp] theorem lrun_cons (k : Kind) (n : Net) (m : LMon) (a : Atom) (l : List Atom) :
    lrun k n m (a :: l) = lrun k n (LMon.step k n m a) l := rfl

/-- every in-committee descriptor of the store belongs to the latest successfully fetched assignment of its
    epoch (period) -/
def SubL (k : Kind) (st : HState) (m : LMon) : Prop :=
  ∀ e ∈ st.store, e.inC = true →
    ∃ A, m.latest e.ep = some A ∧ ∃ d ∈ A, d.vidx = e.vidx ∧ d.tag = e.tag ∧ (isSync k = true ∨ d.slot = e.slot)

structure LInv (k : Kind) (st : HState) (m : LMon) : Prop where
  sub : SubL k st m
  ok : m.ok = true

theorem SubL.mono {k : Kind} {st st' : HState} {m : LMon} (h : SubL k st m) (hs : ∀ x ∈ st'.store, x ∈ st.store) :
    SubL k st' m := fun e he => h e (hs e he)

theorem LInv.mono {k : Kind} {st st' : HState} {m : LMon} (h : LInv k st m) (hs : ∀ x ∈ st'.store, x ∈ st.store) :
    LInv k st' m := ⟨h.sub.mono hs, h.ok⟩

theorem LInv.of_store {k : Kind} {st st' : HState} {m : LMon} (h : LInv k st m)
    (hs : st'.store = st.store ∨ ∃ ep, st'.store = st.store.reset ep) : LInv k st' m := by
  apply h.mono
  rcases hs with hs | ⟨ep, hs⟩ <;> rw [hs]
  · exact fun x hx => hx
  · exact fun x hx => (mem_reset.mp hx).1

/-- the exec atom of a tick passes the monitor -/
theorem linv_exec (k : Kind) (n : Net) (slot clock : Nat) {st : HState} {m : LMon} (h : LInv k st m) :
    LInv k st (lrun k n m (execOf k n slot clock st)) := by
  have key : ∀ xs : List Duty,
      (∀ x ∈ xs, ∃ e ∈ st.store, e.inC = true ∧ e.ep = keyOf k n slot ∧ x.vidx = e.vidx ∧ x.tag = e.tag ∧
        (isSync k = true ∨ x.slot = e.slot)) →
      LInv k st (LMon.step k n m (.execs slot clock xs)) := by
    intro xs hxs
    refine ⟨h.sub, ?_⟩
    simp only [LMon.step, h.ok, Bool.true_and, List.all_eq_true]
    intro x hx
    obtain ⟨e, he, hc, hep, hv, ht, hs⟩ := hxs x hx
    obtain ⟨A, hA, d, hd, hdv, hdt, hds⟩ := h.sub e he hc
    rw [← hep, hA]
    simp only [List.any_eq_true]
    refine ⟨d, hd, ?_⟩
    simp only [sameDuty, Bool.and_eq_true, beq_iff_eq, Bool.or_eq_true]
    refine ⟨⟨by omega, by omega⟩, ?_⟩
    rcases hs with hs | hs
    · exact Or.inl hs
    · rcases hds with hds | hds
      · exact Or.inl hds
      · exact Or.inr (by omega)
  cases k with
  | att =>
    simp only [execOf, attProcessExecution, lrun_cons, lrun_nil]
    apply key
    intro x hx
    simp only [List.mem_map, List.mem_filter, mem_slotDuties] at hx
    obtain ⟨e, ⟨⟨he, hep, hsl, hc⟩, _⟩, rfl⟩ := hx
    exact ⟨e, he, hc, hep, rfl, rfl, Or.inr rfl⟩
  | prop =>
    simp only [execOf, propProcessExecution, lrun_cons, lrun_nil]
    apply key
    intro x hx
    simp only [List.mem_map, List.mem_filter, mem_slotDuties] at hx
    obtain ⟨e, ⟨⟨he, hep, hsl, hc⟩, _⟩, rfl⟩ := hx
    exact ⟨e, he, hc, hep, rfl, rfl, Or.inr rfl⟩
  | sync =>
    simp only [execOf, syncProcessExecution, lrun_cons, lrun_nil]
    apply key
    intro x hx
    simp only [List.mem_map, List.mem_filter, mem_periodDuties] at hx
    obtain ⟨e, ⟨⟨he, hep, hc⟩, _⟩, rfl⟩ := hx
    exact ⟨e, he, hc, hep, rfl, rfl, Or.inl rfl⟩

/-- a fetch that replaces the epoch's (period's) descriptors by the answer keeps the invariant -/
theorem linv_fetch_replace (k : Kind) (n : Net) {st : HState} {m : LMon} (ep arg : Nat) (c : List Nat)
    (ds : List Duty) (mk : Duty → Entry)
    (hmk : ∀ d, (mk d).ep = ep ∧ (mk d).vidx = d.vidx ∧ (mk d).tag = d.tag ∧
      ((mk d).inC = true → d ∈ ds → d ∈ assigned k c ds) ∧ (isSync k = true ∨ (mk d).slot = d.slot))
    (h : LInv k st m) :
    LInv k { st with store := (st.store.reset ep).addAll mk ds } (LMon.step k n m (.fetch ep arg (.ok c ds))) := by
  refine ⟨?_, h.ok⟩
  intro e he hc
  simp only [LMon.step]
  rcases mem_addAll_inv _ _ he with h1 | ⟨d, hd, rfl⟩
  · obtain ⟨h2, hne⟩ := mem_reset.mp h1
    simp only [hne, if_false]
    exact h.sub e h2 hc
  · obtain ⟨h1, h2, h3, h4, h5⟩ := hmk d
    refine ⟨assigned k c ds, by simp [h1], d, h4 hc hd, h2.symm, h3.symm, ?_⟩
    rcases h5 with h5 | h5
    · exact Or.inl h5
    · exact Or.inr h5.symm

theorem propFetch_linv (n : Net) {st : HState} {m : LMon} (ep : Nat) (r : FetchRes) (h : LInv .prop st m) :
    LInv .prop (propFetch st ep r).1 (lrun .prop n m (propFetch st ep r).2) := by
  cases r with
  | noIdx => exact h
  | fail => exact h
  | ok c ds =>
    exact linv_fetch_replace .prop n ep ep c ds (propEntry ep c)
      (fun d => ⟨rfl, rfl, rfl, fun hc hd => List.mem_filter.mpr ⟨hd, hc⟩, Or.inr rfl⟩) h

theorem syncFetch_linv (n : Net) {st : HState} {m : LMon} (p clock : Nat) (r : FetchRes) (h : LInv .sync st m) :
    LInv .sync (syncFetch n st p clock r).1 (lrun .sync n m (syncFetch n st p clock r).2.2) := by
  cases r with
  | noIdx => exact h
  | fail => exact h
  | ok c ds =>
    exact linv_fetch_replace .sync n p (max (p * n.epp) (n.epoch clock)) c ds (syncEntry p c)
      (fun d => ⟨rfl, rfl, rfl, fun hc hd => List.mem_filter.mpr ⟨hd, hc⟩, Or.inl rfl⟩) h

theorem syncFetchNextPart_linv (n : Net) {st : HState} {m : LMon} (p clock : Nat) (r : FetchRes) (h : LInv .sync st m) :
    LInv .sync (syncFetchNextPart n st p clock r).1 (lrun .sync n m (syncFetchNextPart n st p clock r).2) := by
  unfold syncFetchNextPart
  split
  · have := syncFetch_linv n (p + 1) clock r h
    split
    · rename_i st2 o heq
      simp only [heq] at this
      exact this.mono (fun x hx => hx)
    · rename_i st2 o heq
      simp only [heq] at this
      exact this
  · exact h

theorem syncProcessFetching_linv (n : Net) {st : HState} {m : LMon} (p clock : Nat) (r1 r2 : FetchRes)
    (h : LInv .sync st m) :
    LInv .sync (syncProcessFetching n st p clock r1 r2).1 (lrun .sync n m (syncProcessFetching n st p clock r1 r2).2) := by
  unfold syncProcessFetching
  split
  · have h1 := syncFetch_linv n p clock r1 h
    split
    · rename_i st1 o1 heq
      simp only [heq] at h1
      exact h1
    · rename_i st1 o1 heq
      simp only [heq] at h1
      have h2 := syncFetchNextPart_linv n (st := { st1 with fetchCur := false }) p clock r2 (h1.mono (fun x hx => hx))
      simp only [lrun_append]
      exact h2
  · exact syncFetchNextPart_linv n p clock r1 h

theorem syncTick_linv (n : Net) {st : HState} {m : LMon} (slot clock : Nat) (r1 r2 : FetchRes) (h : LInv .sync st m) :
    LInv .sync (syncTick n st slot clock r1 r2).1 (lrun .sync n m (syncTick n st slot clock r1 r2).2) := by
  obtain ⟨store, ff, fc, fn, ic⟩ := st
  cases ff
  · simp only [syncTick, Bool.false_eq_true, if_false, lrun_append]
    have h1 := linv_exec .sync n slot clock h
    have h2 := syncProcessFetching_linv n (n.period (n.epoch slot)) clock r1 r2 h1
    exact h2.of_store (syncPost_store _ _ _)
  · simp only [syncTick, if_true, lrun_append]
    have h1 := syncProcessFetching_linv n (st := ⟨store, false, fc, fn, ic⟩) (n.period (n.epoch slot)) clock r1 r2
      (h.mono (fun x hx => hx))
    have h2 := linv_exec .sync n slot clock h1
    exact h2.of_store (syncPost_store _ _ _)

theorem propTick_linv (n : Net) {st : HState} {m : LMon} (slot clock : Nat) (r1 : FetchRes) (h : LInv .prop st m) :
    LInv .prop (propTick n st slot clock r1).1 (lrun .prop n m (propTick n st slot clock r1).2) := by
  obtain ⟨store, ff, fc, fn, ic⟩ := st
  cases ff
  · cases ic
    · simp only [propTick, Bool.false_eq_true, if_false]
      exact (linv_exec .prop n slot clock h).of_store (propPost_store _ _ _)
    · simp only [propTick, Bool.false_eq_true, if_false, if_true, lrun_append]
      have h1 := linv_exec .prop n slot clock h
      have h2 := propFetch_linv n (st := ⟨store, false, fc, fn, false⟩) (n.epoch slot) r1 (h1.mono (fun x hx => hx))
      exact h2.of_store (propPost_store _ _ _)
  · simp only [propTick, if_true, lrun_append]
    have h1 := propFetch_linv n (st := ⟨store, r1.failed, fc, fn, false⟩) (n.epoch slot) r1 (h.mono (fun x hx => hx))
    have h2 := linv_exec .prop n slot clock h1
    exact h2.of_store (propPost_store _ _ _)

/-! ### attester (its fetch now resets the epoch like the other two) -/

theorem attFetch_linv (n : Net) {st : HState} {m : LMon} (ep : Nat) (r : FetchRes) (h : LInv .att st m) :
    LInv .att (attFetch st ep r).1 (lrun .att n m (attFetch st ep r).2.2) := by
  cases r with
  | noIdx => exact h
  | fail => exact h
  | ok c ds =>
    exact linv_fetch_replace .att n ep ep c ds (attEntry ep)
      (fun d => ⟨rfl, rfl, rfl, fun _ hd => hd, Or.inr rfl⟩) h

theorem attFetchNextPart_linv (n : Net) {st : HState} {m : LMon} (E t : Nat) (r : FetchRes) (h : LInv .att st m) :
    LInv .att (attFetchNextPart n st E t r).1 (lrun .att n m (attFetchNextPart n st E t r).2) := by
  unfold attFetchNextPart
  split
  · have := attFetch_linv n (E + 1) r h
    split
    · rename_i st2 o heq
      simp only [heq] at this
      exact this.mono (fun x hx => hx)
    · rename_i st2 o heq
      simp only [heq] at this
      exact this
  · exact h

theorem attProcessFetching_linv (n : Net) {st : HState} {m : LMon} (E t : Nat) (r1 r2 : FetchRes) (h : LInv .att st m) :
    LInv .att (attProcessFetching n st E t r1 r2).1 (lrun .att n m (attProcessFetching n st E t r1 r2).2) := by
  unfold attProcessFetching
  split
  · have h1 := attFetch_linv n E r1 h
    split
    · rename_i st1 o1 heq
      simp only [heq] at h1
      exact h1
    · rename_i st1 o1 heq
      simp only [heq] at h1
      have h2 := attFetchNextPart_linv n (st := { st1 with fetchCur := false }) E t r2 (h1.mono (fun x hx => hx))
      simp only [lrun_append]
      exact h2
  · exact attFetchNextPart_linv n E t r1 h

theorem attTick_linv (n : Net) {st : HState} {m : LMon} (slot clock : Nat) (r1 r2 : FetchRes) (h : LInv .att st m) :
    LInv .att (attTick n st slot clock r1 r2).1 (lrun .att n m (attTick n st slot clock r1 r2).2) := by
  obtain ⟨store, ff, fc, fn, ic⟩ := st
  cases ff
  · simp only [attTick, Bool.false_eq_true, if_false, lrun_append]
    have h1 := linv_exec .att n slot clock h
    have h0 : LInv .att (if ic = true then
        (⟨store.reset (n.epoch slot), false, fc, fn, false⟩ : HState) else ⟨store, false, fc, fn, ic⟩)
        (lrun .att n m (execOf .att n slot clock ⟨store, false, fc, fn, ic⟩)) := by
      split
      · exact h1.mono (fun x hx => (mem_reset.mp hx).1)
      · exact h1
    have h2 := attProcessFetching_linv n (n.epoch slot) slot r1 r2 h0
    exact h2.of_store (attPost_store _ _ _)
  · simp only [attTick, if_true, lrun_append]
    have h1 := attProcessFetching_linv n (st := ⟨store, false, fc, fn, false⟩) (n.epoch slot) slot r1 r2
      (h.mono (fun x hx => hx))
    have h2 := linv_exec .att n slot clock h1
    exact h2.of_store (attPost_store _ _ _)

/-! ### whole runs: no assumption on the event list, any handler -/

theorem propStep_linv (n : Net) {st : HState} {m : LMon} (e : Event) (h : LInv .prop st m) :
    LInv .prop (propStep n st e).1 (lrun .prop n m (propStep n st e).2) := by
  cases e with
  | tick slot clock r1 r2 => exact propTick_linv n slot clock r1 h
  | reorg slot prev cur =>
    simp only [propStep, propReorg, lrun_nil]
    split
    · exact h.mono (fun x hx => (mem_reset.mp hx).1)
    · exact h
  | indices clock => exact h.mono (fun x hx => hx)

theorem syncReorg_store (n : Net) (st : HState) (slot : Nat) (cur : Bool) :
    ∀ x ∈ (syncReorg n st slot cur).store, x ∈ st.store := by
  intro x hx
  unfold syncReorg at hx
  split at hx
  · exact (mem_reset.mp hx).1
  · exact hx

theorem syncIndices_store (n : Net) (st : HState) (c : Nat) : (syncIndices n st c).store = st.store := by
  unfold syncIndices; split <;> rfl

theorem step_linv (k : Kind) (n : Net) {rs : RState} {m : LMon} (e : Event) (h : LInv k rs.st m) :
    LInv k (step k n rs e).1.st (lrun k n m (step k n rs e).2) := by
  cases k with
  | att =>
    cases e with
    | tick slot clock r1 r2 =>
      exact attTick_linv n slot clock r1 r2 (h.mono (fun x hx => by rw [repairPre_store] at hx; exact hx))
    | reorg slot prev cur =>
      simp only [step, attReorgN, lrun_nil]
      split
      · exact h.mono (fun x hx => by rw [lateFix_store] at hx; exact attReorg_store n _ slot prev cur x hx)
      · exact h.mono (attReorg_store n _ slot prev cur)
    | indices clock =>
      simp only [step, attIndicesN, lrun_nil]
      split
      · exact h.mono (fun x hx => by rw [lateFix_store] at hx; exact attIndices_store n _ clock x hx)
      · exact h.mono (attIndices_store n _ clock)
  | prop => exact propStep_linv n e h
  | sync =>
    cases e with
    | tick slot clock r1 r2 =>
      exact syncTick_linv n slot clock r1 r2 (h.mono (fun x hx => by rw [repairPre_store] at hx; exact hx))
    | reorg slot prev cur =>
      simp only [step, syncReorgN, lrun_nil]
      split
      · exact h.mono (fun x hx => by rw [lateFix_store] at hx; exact syncReorg_store n _ slot cur x hx)
      · exact h.mono (syncReorg_store n _ slot cur)
    | indices clock =>
      simp only [step, lrun_nil]
      exact h.mono (fun x hx => by rw [syncIndices_store] at hx; exact hx)

theorem onlyLatest_runFrom (k : Kind) (n : Net) : ∀ (evs : List Event) (rs : RState) (m : LMon), LInv k rs.st m →
    (lrun k n m (runFrom k n rs evs)).ok = true := by
  intro evs
  induction evs with
  | nil => intro rs m h; exact h.ok
  | cons e es ih =>
    intro rs m h
    simp only [runFrom, lrun_append]
    exact ih _ _ (step_linv k n e h)

theorem linv_empty (k : Kind) (b1 b2 b3 b4 : Bool) : LInv k ⟨[], b1, b2, b3, b4⟩ LMon.init :=
  ⟨fun _ he => (nomatch he), rfl⟩

theorem onlyLatest_run (k : Kind) (n : Net) (clock0 : Nat) (r0 : FetchRes) (evs : List Event) :
    onlyLatestOK k n (run k n clock0 r0 evs) = true := by
  unfold onlyLatestOK run
  have h0 : LInv k (initH k n clock0 r0).1.st (lrun k n LMon.init (initH k n clock0 r0).2) := by
    cases k with
    | att => exact linv_empty .att true true true false
    | prop => exact propFetch_linv n (n.epoch clock0) r0 (linv_empty .prop true false false false)
    | sync =>
      have h1 := syncFetch_linv n (n.periodOfSlot clock0) clock0 r0 (linv_empty .sync true true false false)
      simp only [initH, syncInit]
      exact h1.mono (fun x hx => hx)
  have := onlyLatest_runFrom k n evs _ _ h0
  simpa [lrun, List.foldl_append] using this

end Ssv.Duties
