/- C16 helper lemmas: "only the most recently fetched assignment is dispatched". -/
import Ssv.Proofs.DutiesSafety

namespace Ssv.Duties

/-- fold of the only-latest monitor over a list of atoms -/
def lrun (k : Kind) (n : Net) (m : LMon) (as : List Atom) : LMon := as.foldl (LMon.step k n) m

theorem lrun_append (k : Kind) (n : Net) (m : LMon) (a b : List Atom) :
    lrun k n m (a ++ b) = lrun k n (lrun k n m a) b := List.foldl_append ..
@[simp] theorem lrun_nil (k : Kind) (n : Net) (m : LMon) : lrun k n m [] = m := rfl
@[simp] theorem lrun_cons (k : Kind) (n : Net) (m : LMon) (a : Atom) (l : List Atom) :
    lrun k n m (a :: l) = lrun k n (LMon.step k n m a) l := rfl

/-- every in-committee descriptor of the store belongs to the latest successfully fetched assignment of its
    epoch (period) -/
def SubL (k : Kind) (st : HState) (m : LMon) : Prop :=
  ∀ e ∈ st.store, e.inC = true →
    ∃ A, m.latest e.ep = some A ∧ ∃ d ∈ A, d.vidx = e.vidx ∧ d.tag = e.tag ∧ (isSync k = true ∨ d.slot = e.slot)

structure LInv (k : Kind) (st : HState) (m : LMon) : Prop where
  sub : SubL k st m
  ok : m.ok = true

theorem SubL.mono {k : Kind} {st st' : HState} {m : LMon} (h : SubL k st m) (hs : ∀ x ∈ st'.store, x ∈ st.store) :
    SubL k st' m := fun e he => h e (hs e he)

theorem LInv.mono {k : Kind} {st st' : HState} {m : LMon} (h : LInv k st m) (hs : ∀ x ∈ st'.store, x ∈ st.store) :
    LInv k st' m := ⟨h.sub.mono hs, h.ok⟩

theorem LInv.of_store {k : Kind} {st st' : HState} {m : LMon} (h : LInv k st m)
    (hs : st'.store = st.store ∨ ∃ ep, st'.store = st.store.reset ep) : LInv k st' m := by
  apply h.mono
  rcases hs with hs | ⟨ep, hs⟩ <;> rw [hs]
  · exact fun x hx => hx
  · exact fun x hx => (mem_reset.mp hx).1

/-- the exec atom of a tick passes the monitor -/
theorem linv_exec (k : Kind) (n : Net) (slot clock : Nat) {st : HState} {m : LMon} (h : LInv k st m) :
    LInv k st (lrun k n m (execOf k n slot clock st)) := by
  have key : ∀ xs : List Duty,
      (∀ x ∈ xs, ∃ e ∈ st.store, e.inC = true ∧ e.ep = keyOf k n slot ∧ x.vidx = e.vidx ∧ x.tag = e.tag ∧
        (isSync k = true ∨ x.slot = e.slot)) →
      LInv k st (LMon.step k n m (.execs slot clock xs)) := by
    intro xs hxs
    refine ⟨h.sub, ?_⟩
    simp only [LMon.step, h.ok, Bool.true_and, List.all_eq_true]
    intro x hx
    obtain ⟨e, he, hc, hep, hv, ht, hs⟩ := hxs x hx
    obtain ⟨A, hA, d, hd, hdv, hdt, hds⟩ := h.sub e he hc
    rw [← hep, hA]
    simp only [List.any_eq_true]
    refine ⟨d, hd, ?_⟩
    simp only [sameDuty, Bool.and_eq_true, beq_iff_eq, Bool.or_eq_true]
    refine ⟨⟨by omega, by omega⟩, ?_⟩
    rcases hs with hs | hs
    · exact Or.inl hs
    · rcases hds with hds | hds
      · exact Or.inl hds
      · exact Or.inr (by omega)
  cases k with
  | att =>
    simp only [execOf, attProcessExecution, lrun_cons, lrun_nil]
    apply key
    intro x hx
    simp only [List.mem_map, List.mem_filter, mem_slotDuties] at hx
    obtain ⟨e, ⟨⟨he, hep, hsl, hc⟩, _⟩, rfl⟩ := hx
    exact ⟨e, he, hc, hep, rfl, rfl, Or.inr rfl⟩
  | prop =>
    simp only [execOf, propProcessExecution, lrun_cons, lrun_nil]
    apply key
    intro x hx
    simp only [List.mem_map, List.mem_filter, mem_slotDuties] at hx
    obtain ⟨e, ⟨⟨he, hep, hsl, hc⟩, _⟩, rfl⟩ := hx
    exact ⟨e, he, hc, hep, rfl, rfl, Or.inr rfl⟩
  | sync =>
    simp only [execOf, syncProcessExecution, lrun_cons, lrun_nil]
    apply key
    intro x hx
    simp only [List.mem_map, List.mem_filter, mem_periodDuties] at hx
    obtain ⟨e, ⟨⟨he, hep, hc⟩, _⟩, rfl⟩ := hx
    exact ⟨e, he, hc, hep, rfl, rfl, Or.inl rfl⟩

/-- a fetch that replaces the epoch's (period's) descriptors by the committee part of the answer keeps the invariant -/
theorem linv_fetch_replace (k : Kind) (n : Net) (hk : k ≠ .att) {st : HState} {m : LMon} (ep arg : Nat) (c : List Nat)
    (ds : List Duty) (mk : Duty → Entry)
    (hmk : ∀ d, (mk d).ep = ep ∧ (mk d).vidx = d.vidx ∧ (mk d).tag = d.tag ∧ (mk d).inC = c.contains d.vidx ∧
      (isSync k = true ∨ (mk d).slot = d.slot))
    (h : LInv k st m) :
    LInv k { st with store := (st.store.reset ep).addAll mk ds } (LMon.step k n m (.fetch ep arg (.ok c ds))) := by
  refine ⟨?_, h.ok⟩
  intro e he hc
  simp only [LMon.step]
  rcases mem_addAll_inv _ _ he with h1 | ⟨d, hd, rfl⟩
  · obtain ⟨h2, hne⟩ := mem_reset.mp h1
    simp only [hne, if_false]
    exact h.sub e h2 hc
  · obtain ⟨h1, h2, h3, h4, h5⟩ := hmk d
    rw [h4] at hc
    refine ⟨assigned k c ds, by simp [h1], d, ?_, h2.symm, h3.symm, ?_⟩
    · cases k with
      | att => exact absurd rfl hk
      | prop => exact List.mem_filter.mpr ⟨hd, hc⟩
      | sync => exact List.mem_filter.mpr ⟨hd, hc⟩
    · rcases h5 with h5 | h5
      · exact Or.inl h5
      · exact Or.inr h5.symm

theorem propFetch_linv (n : Net) {st : HState} {m : LMon} (ep : Nat) (r : FetchRes) (h : LInv .prop st m) :
    LInv .prop (propFetch st ep r).1 (lrun .prop n m (propFetch st ep r).2) := by
  cases r with
  | noIdx => exact h
  | fail => exact h
  | ok c ds =>
    exact linv_fetch_replace .prop n (by decide) ep ep c ds (propEntry ep c)
      (fun d => ⟨rfl, rfl, rfl, rfl, Or.inr rfl⟩) h

theorem syncFetch_linv (n : Net) {st : HState} {m : LMon} (p clock : Nat) (r : FetchRes) (h : LInv .sync st m) :
    LInv .sync (syncFetch n st p clock r).1 (lrun .sync n m (syncFetch n st p clock r).2.2) := by
  cases r with
  | noIdx => exact h
  | fail => exact h
  | ok c ds =>
    exact linv_fetch_replace .sync n (by decide) p (max (p * n.epp) (n.epoch clock)) c ds (syncEntry p c)
      (fun d => ⟨rfl, rfl, rfl, rfl, Or.inl rfl⟩) h

theorem syncFetchNextPart_linv (n : Net) {st : HState} {m : LMon} (p clock : Nat) (r : FetchRes) (h : LInv .sync st m) :
    LInv .sync (syncFetchNextPart n st p clock r).1 (lrun .sync n m (syncFetchNextPart n st p clock r).2) := by
  unfold syncFetchNextPart
  split
  · have := syncFetch_linv n (p + 1) clock r h
    split
    · rename_i st2 o heq
      simp only [heq] at this
      exact this.mono (fun x hx => hx)
    · rename_i st2 o heq
      simp only [heq] at this
      exact this
  · exact h

theorem syncProcessFetching_linv (n : Net) {st : HState} {m : LMon} (p clock : Nat) (r1 r2 : FetchRes)
    (h : LInv .sync st m) :
    LInv .sync (syncProcessFetching n st p clock r1 r2).1 (lrun .sync n m (syncProcessFetching n st p clock r1 r2).2) := by
  unfold syncProcessFetching
  split
  · have h1 := syncFetch_linv n p clock r1 h
    split
    · rename_i st1 o1 heq
      simp only [heq] at h1
      exact h1
    · rename_i st1 o1 heq
      simp only [heq] at h1
      have h2 := syncFetchNextPart_linv n (st := { st1 with fetchCur := false }) p clock r2 (h1.mono (fun x hx => hx))
      simp only [lrun_append]
      exact h2
  · exact syncFetchNextPart_linv n p clock r1 h

theorem syncTick_linv (n : Net) {st : HState} {m : LMon} (slot clock : Nat) (r1 r2 : FetchRes) (h : LInv .sync st m) :
    LInv .sync (syncTick n st slot clock r1 r2).1 (lrun .sync n m (syncTick n st slot clock r1 r2).2) := by
  obtain ⟨store, ff, fc, fn, ic⟩ := st
  cases ff
  · simp only [syncTick, Bool.false_eq_true, if_false, lrun_append]
    have h1 := linv_exec .sync n slot clock h
    have h2 := syncProcessFetching_linv n (n.period (n.epoch slot)) clock r1 r2 h1
    exact h2.of_store (syncPost_store _ _ _)
  · simp only [syncTick, if_true, lrun_append]
    have h1 := syncProcessFetching_linv n (st := ⟨store, false, fc, fn, ic⟩) (n.period (n.epoch slot)) clock r1 r2
      (h.mono (fun x hx => hx))
    have h2 := linv_exec .sync n slot clock h1
    exact h2.of_store (syncPost_store _ _ _)

theorem propTick_linv (n : Net) {st : HState} {m : LMon} (slot clock : Nat) (r1 : FetchRes) (h : LInv .prop st m) :
    LInv .prop (propTick n st slot clock r1).1 (lrun .prop n m (propTick n st slot clock r1).2) := by
  obtain ⟨store, ff, fc, fn, ic⟩ := st
  cases ff
  · cases ic
    · simp only [propTick, Bool.false_eq_true, if_false]
      exact (linv_exec .prop n slot clock h).of_store (propPost_store _ _ _)
    · simp only [propTick, Bool.false_eq_true, if_false, if_true, lrun_append]
      have h1 := linv_exec .prop n slot clock h
      have h2 := propFetch_linv n (st := ⟨store, false, fc, fn, false⟩) (n.epoch slot) r1 (h1.mono (fun x hx => hx))
      exact h2.of_store (propPost_store _ _ _)
  · simp only [propTick, if_true, lrun_append]
    have h1 := propFetch_linv n (st := ⟨store, false, fc, fn, false⟩) (n.epoch slot) r1 (h.mono (fun x hx => hx))
    have h2 := linv_exec .prop n slot clock h1
    exact h2.of_store (propPost_store _ _ _)

/-! ### whole runs (proposer, sync committee): no assumption on the event list -/

theorem propStep_linv (n : Net) {st : HState} {m : LMon} (e : Event) (h : LInv .prop st m) :
    LInv .prop (propStep n st e).1 (lrun .prop n m (propStep n st e).2) := by
  cases e with
  | tick slot clock r1 r2 => exact propTick_linv n slot clock r1 h
  | reorg slot prev cur =>
    simp only [propStep, propReorg, lrun_nil]
    split
    · exact h.mono (fun x hx => (mem_reset.mp hx).1)
    · exact h
  | indices clock => exact h.mono (fun x hx => hx)

theorem syncStep_linv (n : Net) {st : HState} {m : LMon} (e : Event) (h : LInv .sync st m) :
    LInv .sync (syncStep n st e).1 (lrun .sync n m (syncStep n st e).2) := by
  cases e with
  | tick slot clock r1 r2 => exact syncTick_linv n slot clock r1 r2 h
  | reorg slot prev cur =>
    simp only [syncStep, syncReorg, lrun_nil]
    split
    · exact h.mono (fun x hx => (mem_reset.mp hx).1)
    · exact h
  | indices clock =>
    simp only [syncStep, syncIndices, lrun_nil]
    split <;> exact h.mono (fun x hx => hx)

theorem prop_onlyLatest_runFrom (n : Net) : ∀ (evs : List Event) (st : HState) (m : LMon), LInv .prop st m →
    (lrun .prop n m (runFrom .prop n st evs)).ok = true := by
  intro evs
  induction evs with
  | nil => intro st m h; exact h.ok
  | cons e es ih =>
    intro st m h
    simp only [runFrom, lrun_append, step]
    exact ih _ _ (propStep_linv n e h)

theorem sync_onlyLatest_runFrom (n : Net) : ∀ (evs : List Event) (st : HState) (m : LMon), LInv .sync st m →
    (lrun .sync n m (runFrom .sync n st evs)).ok = true := by
  intro evs
  induction evs with
  | nil => intro st m h; exact h.ok
  | cons e es ih =>
    intro st m h
    simp only [runFrom, lrun_append, step]
    exact ih _ _ (syncStep_linv n e h)

theorem linv_empty (k : Kind) (b1 b2 b3 b4 : Bool) : LInv k ⟨[], b1, b2, b3, b4⟩ LMon.init :=
  ⟨fun _ he => (nomatch he), rfl⟩

theorem prop_onlyLatest_run (n : Net) (clock0 : Nat) (r0 : FetchRes) (evs : List Event) :
    onlyLatestOK .prop n (run .prop n clock0 r0 evs) = true := by
  unfold onlyLatestOK run
  have h0 := propFetch_linv n (n.epoch clock0) r0 (linv_empty .prop true false false false)
  have := prop_onlyLatest_runFrom n evs _ _ h0
  simpa [initH, propInit, lrun, List.foldl_append] using this

theorem sync_onlyLatest_run (n : Net) (clock0 : Nat) (r0 : FetchRes) (evs : List Event) :
    onlyLatestOK .sync n (run .sync n clock0 r0 evs) = true := by
  unfold onlyLatestOK run
  have h0 := syncFetch_linv n (n.periodOfSlot clock0) clock0 r0 (linv_empty .sync true true false false)
  have h1 : LInv .sync (syncInit n clock0 r0).1 (lrun .sync n LMon.init (syncInit n clock0 r0).2) := by
    simp only [syncInit]
    exact h0.mono (fun x hx => hx)
  have := sync_onlyLatest_runFrom n evs _ _ h1
  simpa [initH, lrun, List.foldl_append] using this

end Ssv.Duties
