/-
C01 — Consensus agreement, LAYER B: the eight trace rules H0–H7 of Layer A (`QAbs.Rules`, Ssv/Proofs/QbftAbstract.lean) are
DERIVED from the executable node model (Ssv/Model/Qbft: controller + instance, light node, no runner compaction), and
agreement follows for the executable multi-node system `Ssv/Model/Qbft/SystemB.lean`:

  committee 1..n, n = 3f+1, at most f Byzantine members, one (identifier, height); steps `start i v`, `deliver i m` for ANY
  message m whose verified signed parts OF THE INSTANCE'S OWN IDENTIFIER that list a correct signer are backed by an earlier
  broadcast of that signer with the same signed content, identifier included (unforgeability — drop, duplication, reordering,
  selective delivery, equivocation, fabricated justifications are all included); signed parts with a FOREIGN identifier are
  entirely adversary-controlled, because correct operators sign the same (height, round) with the same keys in the instances
  of the validator's other duty roles; `timeout i r`; all start values, all schedules, all Byzantine behaviours, any rounds.
  The proofs of H3 use the identifier guards of `validRoundChangeForData` (fix e1612ceed in /repo): every embedded
  round-change and prepare that is counted carries the own identifier (`RcValid.ident`). With the validators as they were
  before that fix agreement FAILS under this adversary: `C01_identifier_regression_old_model_disagrees`.

STATUS: all eight rules are derived (`C01_rule_H0 … C01_rule_H7`, each an invariant of `Reachable`); none remains a
hypothesis. `C01_agreement` is unconditional for every valid parameter set (`Params.Valid`: at most f Byzantine members and
3f+1 fits a Go `int`, so that the quorum kernel translated from `ComputeQuorumAndPartialQuorum` yields 2f+1).
`C01_agreement_partial` (agreement from `Reachable` + rules given as hypotheses) is kept as the fallback form.

Proof architecture (Ssv/Proofs/QbftNode*.lean): `ISpec`/`NStep` = exact case list of what one `ProcessMsg` /
`StartNewInstance` / `OnTimeout` call does to the instance of the height (derived by unfolding the model once);
`NodeInv` = coupling of instance state and ghost trace (propose container = accepted-proposal events, one proposal per
round, `LastPreparedRound` only set to the current round, round only lowered by `UponDecided`, every stored prepare /
commit backed by an event of its correct signer, …); `Inv` = shape + log + node invariants + `QAbs.Rules`, preserved by
every step.

Two points where the paper rules met the code (both resolved without weakening agreement):
* ghost event `P i r v` is emitted when operator i ACCEPTS the proposal (round r, root v) (`uponProposal` stores it and creates
  its prepare), not only when the prepare reaches the network: `Instance.Broadcast` refuses when the new round is at the
  cut-off (`CanProcessMessages`), and a later decided message can lower the round again and re-enable the instance with
  that stale accepted proposal; with "P = prepare on the wire" the stale disjunct of H2 would lack its witness. The
  corner is reachable (`example` below, `cutSys`). Every prepare that IS broadcast has its `P` event (`C01_log_reflected`).
* `UponDecided` may also RAISE the round (decided message of a higher round) while the accepted proposal stays; the node
  then counts prepares for (new round, old root). H2 still holds through its first disjunct because the node was never in
  that round before (invariant `NodeInv.low`).
Instance re-creation after eviction from the 2-slot container cannot happen in the one-height system: a decided message
of another height needs f+1 correct commit signers for that height, and correct operators only ever broadcast for the
height they were started for (`cert_facts`, used in `step_nstep`). With several heights this is C15's finding.
-/
import Ssv.Proofs.QbftNodeExample
import Ssv.Proofs.QbftIdentOld

namespace Ssv.Qbft.B
open Ssv.Qbft

variable {P : Params}

/-! ### the rules, each an invariant of the reachable states -/

/-- H0: commits are sent in rounds ≥ 1 (a decided message of round 0 cannot lower the round: it would need a correct
    round-0 commit) -/
theorem C01_rule_H0 (hP : P.Valid) {σ : Sys P} (h : Reachable σ) :
    ∀ i r v k, i ∉ (ctxOf hP σ).byz → QAbs.At (ctxOf hP σ) k (.K i r v) → 1 ≤ r :=
  (inv_of_reachable hP h).rules.H0

/-- H1: at most one accepted proposal (hence prepare) per round and operator -/
theorem C01_rule_H1 (hP : P.Valid) {σ : Sys P} (h : Reachable σ) :
    ∀ i r v v' k k', i ∉ (ctxOf hP σ).byz → QAbs.At (ctxOf hP σ) k (.P i r v) → QAbs.At (ctxOf hP σ) k' (.P i r v') → v = v' :=
  (inv_of_reachable hP h).rules.H1

/-- H2: a commit is broadcast only on an authentic prepare quorum for (round, root), or — after a decided message lowered
    the round — for the root of a proposal accepted earlier in a higher round -/
theorem C01_rule_H2 (hP : P.Valid) {σ : Sys P} (h : Reachable σ) :
    ∀ i r v k, i ∉ (ctxOf hP σ).byz → QAbs.At (ctxOf hP σ) k (.K i r v) →
      QAbs.PQ (ctxOf hP σ) k r v ∨
      ((∃ g rc, g < k ∧ QAbs.At (ctxOf hP σ) g (.G i rc) ∧ rc ≤ r) ∧ ∃ r2, r < r2 ∧ QAbs.Before (ctxOf hP σ) k (.P i r2 v)) :=
  (inv_of_reachable hP h).rules.H2

/-- H3: a proposal accepted for a round > 1 is justified by a validated round-change quorum whose highest prepared value
    (itself backed by an authentic prepare quorum) is the proposed one -/
theorem C01_rule_H3 (hP : P.Valid) {σ : Sys P} (h : Reachable σ) :
    ∀ i r v k, i ∉ (ctxOf hP σ).byz → QAbs.At (ctxOf hP σ) k (.P i r v) → 1 < r →
      ∃ S d, QAbs.RCQ (ctxOf hP σ) k r S d ∧
        ((∀ j ∈ S, (d j).1 = 0) ∨ ∃ js ∈ S, (∀ j ∈ S, (d j).1 ≤ (d js).1) ∧ 0 < (d js).1 ∧ (d js).2 = v) :=
  (inv_of_reachable hP h).rules.H3

/-- H4: a round-change for a higher round sent after a commit carries a lock at least as high as the commit's round,
    unless a decided message lowered the round below it in between -/
theorem C01_rule_H4 (hP : P.Valid) {σ : Sys P} (h : Reachable σ) :
    ∀ i r v r' pr pv k1 k2, i ∉ (ctxOf hP σ).byz → QAbs.At (ctxOf hP σ) k1 (.K i r v) →
      QAbs.At (ctxOf hP σ) k2 (.RC i r' pr pv) → k1 < k2 → r < r' →
      (∀ g rc, k1 < g → g < k2 → QAbs.At (ctxOf hP σ) g (.G i rc) → r ≤ rc) → r ≤ pr :=
  (inv_of_reachable hP h).rules.H4

/-- H5: no commit for a round below an announced round without a decided message lowering the round in between -/
theorem C01_rule_H5 (hP : P.Valid) {σ : Sys P} (h : Reachable σ) :
    ∀ i r v r' pr pv k1 k2, i ∉ (ctxOf hP σ).byz → QAbs.At (ctxOf hP σ) k1 (.RC i r' pr pv) →
      QAbs.At (ctxOf hP σ) k2 (.K i r v) → k1 < k2 → r < r' →
      ∃ g rc, k1 < g ∧ g < k2 ∧ QAbs.At (ctxOf hP σ) g (.G i rc) ∧ rc ≤ r :=
  (inv_of_reachable hP h).rules.H5

/-- H6: `UponDecided` adopts a decided message only with an authentic commit quorum for its round -/
theorem C01_rule_H6 (hP : P.Valid) {σ : Sys P} (h : Reachable σ) :
    ∀ i rc k, i ∉ (ctxOf hP σ).byz → QAbs.At (ctxOf hP σ) k (.G i rc) → ∃ v, QAbs.KQ (ctxOf hP σ) k rc v :=
  (inv_of_reachable hP h).rules.H6

/-- H7: every reported decision is backed by an authentic commit quorum for (round, value) -/
theorem C01_rule_H7 (hP : P.Valid) {σ : Sys P} (h : Reachable σ) :
    ∀ i r v k, i ∉ (ctxOf hP σ).byz → QAbs.At (ctxOf hP σ) k (.D i r v) → QAbs.KQ (ctxOf hP σ) (k + 1) r v :=
  (inv_of_reachable hP h).rules.H7

/-- all eight rules hold in every reachable state of the executable system -/
theorem C01_rules (hP : P.Valid) {σ : Sys P} (h : Reachable σ) : QAbs.Rules (ctxOf hP σ) :=
  (inv_of_reachable hP h).rules

/-! ### agreement -/

/-- fallback form: reachable + the rules (as hypotheses) ⇒ agreement. With `C01_rules` no hypothesis remains. -/
theorem C01_agreement_partial (hP : P.Valid) {σ : Sys P} (R : QAbs.Rules (ctxOf hP σ)) {i j : Op P} {v v' : Nat}
    (hi : P.honest i = true) (hj : P.honest j = true) (hv : reported σ i v) (hv' : reported σ j v') : v = v' := by
  obtain ⟨r, hr⟩ := hv
  obtain ⟨r', hr'⟩ := hv'
  obtain ⟨k, hk⟩ := List.getElem?_of_mem hr
  obtain ⟨k', hk'⟩ := List.getElem?_of_mem hr'
  exact QAbs.agreement (c := ctxOf hP σ) R ((honest_iff P hP _ i).2 hi) ((honest_iff P hP _ j).2 hj)
    (at_D.2 hk) (at_D.2 hk')

/-- AGREEMENT for the executable multi-node system: in every reachable state, any two correct operators that reported a
    decision reported the same value — all committee sizes n = 3f+1, all start values, schedules, Byzantine behaviours. -/
theorem C01_agreement (hP : P.Valid) {σ : Sys P} (h : Reachable σ) {i j : Op P} {v v' : Nat}
    (hi : P.honest i = true) (hj : P.honest j = true) (hv : reported σ i v) (hv' : reported σ j v') : v = v' :=
  C01_agreement_partial hP (C01_rules hP h) hi hj hv hv'

/-- the second observation point: `State.Decided/DecidedValue` of a correct operator's instance is always a reported
    decision -/
theorem C01_decided_reported (hP : P.Valid) {σ : Sys P} (h : Reachable σ) {i : Op P} {v : Nat}
    (hi : P.honest i = true) (hd : decidedState σ i v) : reported σ i v := by
  obtain ⟨s, hs, hdec, hval⟩ := hd
  have hn := (inv_of_reachable hP h).node i hi
  rw [hs] at hn
  have hn' : NodeInv P σ.trace i s := hn
  rw [← hval]
  exact hn'.dec hdec

/-- the first observation point: whenever `Controller.ProcessMsg(m)` of operator i returns a decided message d, the value
    d.fullData is a reported decision of the resulting state (so `C01_agreement` covers every returned decision) -/
theorem C01_returned_reported (σ : Sys P) (i : Op P) (m d : Msg)
    (h : ((σ.ctrl i).processMsg (P.cfg i) m).res = .ok (some d)) : reported (step σ (.deliver i m)) i d.fullData :=
  returned_reported σ i m d h

/-- agreement on the instance states: two correct operators whose instances are decided hold the same decided value -/
theorem C01_state_agreement (hP : P.Valid) {σ : Sys P} (h : Reachable σ) {i j : Op P} {v v' : Nat}
    (hi : P.honest i = true) (hj : P.honest j = true) (hv : decidedState σ i v) (hv' : decidedState σ j v') : v = v' :=
  C01_agreement hP h hi hj (C01_decided_reported hP h hi hv) (C01_decided_reported hP h hj hv')

/-- every message a correct operator put on the network is for the height and reflected in the ghost trace (a prepare
    by an accepted-proposal event, a commit by `K`, a round-change by `RC`) -/
theorem C01_log_reflected (hP : P.Valid) {σ : Sys P} (h : Reachable σ) : ∀ m ∈ σ.log, LogOK P σ.trace m :=
  (inv_of_reachable hP h).log

/-- the quorum used by the system is the translated kernel's, and equals 2f+1 for every valid parameter set -/
theorem C01_tie_kernel_quorum (hP : P.Valid) (i : Op P) : (P.cfg i).quorum = 2 * P.f + 1 := kernel_quorum P hP

/-! ### regression: the validators before the identifier fix -/

/-- REGRESSION (identifier confusion, fixed in /repo e1612ceed). With the validators as they were before the fix
    (`Ssv/Proofs/QbftIdentOld.lean`: embedded round-change / prepare justifications not compared with the instance's
    identifier) and the SAME adversary, a reachable state of the 4-operator system has two correct operators reporting
    DIFFERENT values: operator 1 decided 7 in round 2; the Byzantine round-3 leader then justified the fresh value 8 with
    genuine unprepared round-changes that operators 1, 2, 4 signed for another duty role, and operators 2 and 4 decided 8.
    So `C01_agreement` is not vacuous with respect to this attack, and would be false without the identifier guards. -/
theorem C01_identifier_regression_old_model_disagrees :
    ∃ σ : Sys Old.regP, Old.ReachableOld σ ∧ Old.regP.Valid ∧ Old.regP.honest 0 = true ∧ Old.regP.honest 1 = true ∧
      reported σ 0 7 ∧ reported σ 1 8 := by
  obtain ⟨h1, h2, _⟩ := Old.reg_members
  exact ⟨Old.regSys, Old.reg_reachable, ⟨by decide, by decide⟩, by decide, by decide, ⟨2, h1⟩, ⟨3, h2⟩⟩

/-- the same Byzantine proposal is rejected by the current validators (`wrong msg identifier`) -/
theorem C01_identifier_regression_fixed_rejects :
    (Old.runOld (Sys.init Old.regP) (Old.regSched.take 26)).map
        (fun σ => ((σ.ctrl 1).processMsg (Old.regP.cfg 1) Old.byzProposal).res) =
      some (.err [.couldNotProcess, .invalidSigned, .notJustified, .rcNotValid, .wrongMsgIdentifier]) :=
  Old.reg_fixed_rejects

/-! ### non-vacuity -/

/-- a concrete reachable state of the 4-operator system (operator 4 Byzantine and silent, leader of round 1): after a
    round change (three `RC` events for round 2) operators 1 and 2 have both decided value 5 in round 2 — the hypotheses of
    `C01_agreement` and `C01_state_agreement` are satisfied by a non-trivial state -/
example : exP.Valid ∧ Reachable exSys ∧ exP.honest 0 = true ∧ exP.honest 1 = true ∧
    reported exSys 0 5 ∧ reported exSys 1 5 ∧ decidedState exSys 0 5 ∧ decidedState exSys 1 5 ∧
    Ev.RC 0 2 0 1 ∈ exSys.trace ∧ Ev.RC 1 2 0 1 ∈ exSys.trace := by
  have ht := ex_trace
  obtain ⟨h0, h1⟩ := ex_states
  refine ⟨exP_valid, ex_reachable, by decide, by decide, ⟨2, by rw [ht]; decide⟩, ⟨2, by rw [ht]; decide⟩, ?_, ?_,
    by rw [ht]; decide, by rw [ht]; decide⟩
  · cases hs : instAt exP.height (exSys.ctrl 0) with
    | none => rw [hs] at h0; simp at h0
    | some s =>
      rw [hs] at h0
      simp only [Option.map_some, Option.some.injEq, Prod.mk.injEq] at h0
      exact ⟨s, hs, h0.1, h0.2.1⟩
  · cases hs : instAt exP.height (exSys.ctrl 1) with
    | none => rw [hs] at h1; simp at h1
    | some s =>
      rw [hs] at h1
      simp only [Option.map_some, Option.some.injEq, Prod.mk.injEq] at h1
      exact ⟨s, hs, h1.1, h1.2.1⟩

/-- the rules hold of that state's trace (instance of `C01_rules`) -/
example : QAbs.Rules (ctxOf exP_valid exSys) := C01_rules exP_valid ex_reachable

/-- the cut-off corner is reachable: operator 1 accepted a round-2 proposal (`P` event) while no prepare was put on the
    network (`CutoffRound = 2`: `Broadcast` refuses in round 2) — why `P` is tied to acceptance -/
example : Reachable cutSys ∧ Ev.P 0 2 9 ∈ cutSys.trace ∧ ∀ m ∈ cutSys.log, m.type ≠ tPrepare := by
  obtain ⟨ht, hl⟩ := cut_facts
  refine ⟨cut_reachable, by rw [ht]; decide, ?_⟩
  intro m hm
  have := List.all_eq_true.1 hl m hm
  simpa using this

end Ssv.Qbft.B
