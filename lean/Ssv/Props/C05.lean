/-
C05 — Only validly threshold-signed duty objects reach the beacon node, once.
Property theorems only (helpers: Ssv/Proofs/PartialSig.lean; model: Ssv/Model/PartialSig.lean).

Scope.  `run st ms` is a duty runner in its partial-signature collection phase receiving the message sequence `ms`
(any signers, any roots, any slot flag, any share qualities — no bound on length); its second component is the
list of `BeaconNode.Submit*` calls.  Styles: `loop` = attester, proposer, aggregator, sync-committee message;
`first` = voluntary exit, validator registration; `loopMatch` = sync-committee contribution (several roots).
The SAFETY theorems hold for every style and any number of expected roots.  The LIVENESS theorem
`C05_submit_once_quorum_good` covers the single-root runners (the ones C05 anchors: attester, proposer, voluntary exit,
validator registration, and also aggregator and sync-committee message).  For the multi-root runner the same statement
is FALSE of the code (`C05_multiroot_liveness_full_refuted`, reproduced on the real runner by the harness).
Assumption (threshold BLS): reconstruction over the stored shares of a root succeeds iff all of them are correct and
there are at least `Share.Quorum` of them.
-/
import Ssv.Proofs.PartialSig
import Ssv.Proofs.Kernels

namespace Ssv.PartialSig

/-! ## ties to the regenerated facts -/

/-- verify-before-use: `ReconstructSignature` verifies the recovered signature against the validator key before returning
    it, `ReconstructBeaconSig` is that function, and in every runner the `Submit*` call comes after it -/
theorem C05_tie_verify_before_use :
    Gen.calls_ReconstructSignature = ["ReconstructSignatures", "VerifyReconstructedSignature", "Serialize"] ∧
    Gen.calls_VerifyReconstructedSignature = ["DeserializeBLSPublicKey", "VerifyByte"] ∧
    Gen.calls_ReconstructBeaconSig = ["ReconstructSignature"] ∧
    Gen.calls_post_attester = ["basePostConsensusMsgProcessing", "ReconstructBeaconSig", "FallBackAndVerifyEachSignature", "SubmitAttestation"] ∧
    Gen.calls_post_proposer = ["basePostConsensusMsgProcessing", "ReconstructBeaconSig", "FallBackAndVerifyEachSignature", "SubmitBlindedBeaconBlock", "SubmitBeaconBlock"] ∧
    Gen.calls_post_aggregator = ["basePostConsensusMsgProcessing", "ReconstructBeaconSig", "FallBackAndVerifyEachSignature", "SubmitSignedAggregateSelectionProof"] ∧
    Gen.calls_post_synccommittee = ["basePostConsensusMsgProcessing", "ReconstructBeaconSig", "FallBackAndVerifyEachSignature", "SubmitSyncMessage"] ∧
    Gen.calls_post_contribution = ["basePostConsensusMsgProcessing", "ReconstructBeaconSig", "FallBackAndVerifyEachSignature", "ReconstructBeaconSig", "SubmitSignedContributionAndProof"] ∧
    Gen.calls_pre_exit = ["basePreConsensusMsgProcessing", "ReconstructBeaconSig", "FallBackAndVerifyEachSignature", "SubmitVoluntaryExit"] ∧
    Gen.calls_pre_registration = ["basePreConsensusMsgProcessing", "ReconstructBeaconSig", "FallBackAndVerifyEachSignature", "SubmitValidatorRegistration"] := by
  decide

/-- the collection path: validation precedes storing; edge detection brackets the add/replace with two `HasQuorum` reads;
    duplicates go through `resolveDuplicateSignature` (verify old, remove, verify new, add); the fallback verifies each share
    and removes the wrong ones -/
theorem C05_tie_collection_path :
    Gen.calls_basePostConsensusMsgProcessing = ["ValidatePostConsensusMsg", "basePartialSigMsgProcessing"] ∧
    Gen.calls_basePreConsensusMsgProcessing = ["ValidatePreConsensusMsg", "basePartialSigMsgProcessing"] ∧
    Gen.calls_basePartialSigMsgProcessing = ["HasQuorum", "HasSigner", "resolveDuplicateSignature", "AddSignature", "HasQuorum"] ∧
    Gen.calls_resolveDuplicateSignature = ["GetSignature", "verifyBeaconPartialSignature", "Remove", "verifyBeaconPartialSignature", "AddSignature"] ∧
    Gen.calls_FallBack = ["GetSignatures", "verifyBeaconPartialSignature", "Remove"] ∧
    Gen.calls_ValidatePostConsensusMsg = ["hasRunningDuty", "IsDecided", "validatePartialSigMsgForSlot", "expectedPostConsensusRootsAndDomain", "verifyExpectedRoot"] ∧
    Gen.calls_ValidatePreConsensusMsg = ["hasRunningDuty", "validatePartialSigMsgForSlot", "expectedPreConsensusRootsAndDomain", "verifyExpectedRoot"] ∧
    Gen.calls_baseSetupForNewDuty = ["NewRunnerState"] := by
  decide

/-- the pinned container functions the model was written against (ssv-spec v0.3.7) -/
theorem C05_tie_container_source :
    Gen.src_spec_AddSignature = "5d263c60abe32cc6" ∧ Gen.src_spec_HasQuorum = "76933fb6bdf7c9a5" ∧
    Gen.src_spec_Remove = "a9343785b2baf40c" := by decide

/-- quorum arithmetic, through the kernel TRANSLATED from `ComputeQuorumAndPartialQuorum`: for the four valid committee
    sizes the collection threshold is 2f+1 with f = (n-1)/3 -/
theorem C05_tie_quorum_kernel :
    (quorumOf 4, faultyOf 4) = (3, 1) ∧ (quorumOf 7, faultyOf 7) = (5, 2) ∧
    (quorumOf 10, faultyOf 10) = (7, 3) ∧ (quorumOf 13, faultyOf 13) = (9, 4) ∧
    ∀ n : Nat, (n = 4 ∨ n = 7 ∨ n = 10 ∨ n = 13) → quorumOf n = 2 * faultyOf n + 1 ∧ quorumOf n ≤ n := by
  refine ⟨by decide, by decide, by decide, by decide, ?_⟩
  rintro n (h | h | h | h) <;> subst h <;> decide

/-! ## safety (every runner style, any number of roots, every message sequence) -/

/-- verify-before-use: every `Submit*` call carries a signature reconstructed from correct shares only, at least
    `Share.Quorum` of them (= `reconstructOK`), over one of the expected roots of the decided value -/
theorem C05_submit_only_valid (st : St) (ms : List Msg) :
    ∀ sub ∈ (run st ms).2,
      (sub.shares.all fun p => p.2 == some true) = true ∧ st.q ≤ sub.shares.length ∧ sub.root ∈ st.expected := by
  intro sub h
  obtain ⟨⟨a, b⟩, c⟩ := run_safety st ms sub h
  exact ⟨a, b, c⟩

example : ∃ sub, sub ∈ (run (init 4 1 .loop true)
    [⟨1, true, [(1, 0, true)]⟩, ⟨2, true, [(2, 0, false)]⟩, ⟨3, true, [(3, 0, true)]⟩, ⟨4, true, [(4, 0, true)]⟩,
     ⟨2, true, [(2, 0, true)]⟩]).2 := ⟨⟨0, [(1, some true), (3, some true), (4, some true)]⟩, by decide⟩

/-- each decided object (distinct objects have distinct roots) is submitted at most once, over the whole life of the duty -/
theorem C05_submit_at_most_once (st : St) (ms : List Msg) (hexp : st.expected.Nodup) :
    ((run st ms).2.map (·.root)).Nodup := by
  simpa using run_nodup st ms hexp [] List.nodup_nil (by simp)

example : (init 4 3 .loopMatch true).expected.Nodup := by decide

/-- `roots[0]` in the exit / registration runners is never evaluated on an empty slice -/
theorem C05_no_panic (st : St) (m : Msg) : ∀ st', step st m ≠ (st', .panicked) := step_no_panic st m

/-- later duties on the same runner object: whatever the previous duty received, the collection state of the next duty is
    exactly the initial one (`baseSetupForNewDuty` keeps nothing), so every theorem stated for `init` holds for every
    duty the runner ever executes -/
theorem C05_next_duty_is_fresh (n k : Nat) (style : Style) (d0 d : Bool) (ms : List Msg) :
    let st := nextDuty (run (init n k style d0) ms).1 d
    st.q = (init n k style d).q ∧ st.cm = (init n k style d).cm ∧ st.expected = (init n k style d).expected ∧
    st.style = (init n k style d).style ∧ st.decided = d ∧ st.finished = false ∧ ∀ r s, st.c.get r s = none := by
  obtain ⟨a, b, c, e⟩ := run_params (init n k style d0) ms
  exact ⟨a, b, c, e, rfl, rfl, fun _ _ => rfl⟩

/-! ## liveness, single-root runners -/

/-- STRONG form (no bound on the number of faulty senders is needed): for EVERY message sequence, if `Share.Quorum`
    distinct committee members have each delivered a correct share in a well-formed message, the object has been
    submitted exactly once by the end of the sequence.
    (Measure: an unfinished single-root duty holds fewer than `q` shares; a failed reconstruction evicts at least one
    wrong share and keeps every correct one; so a later correct share re-creates the quorum edge.) -/
theorem C05_submit_once_quorum_good_strong (n : Nat) (hq : 0 < quorumOf n) (style : Style) (ms : List Msg)
    (G : List Nat) (hG : G.Nodup) (hGq : quorumOf n ≤ G.length)
    (hGood : ∀ s ∈ G, SentGood (init n 1 style true).cm [0] 0 ms s) :
    (run (init n 1 style true) ms).2.map (·.root) = [0] := by
  have hcm := init_cm_nodup n 1 style true
  have hS : SInv (init n 1 style true) 0 := by
    intro _
    show count _ Container.empty 0 < quorumOf n
    have : count (init n 1 style true).cm Container.empty 0 = 0 := by simp [count, signersOf, Container.empty]
    rw [this]
    exact hq
  obtain ⟨i1, i2, i3⟩ := run_live 0 ms (init n 1 style true) rfl hcm rfl hS [] (by simp)
  obtain ⟨pq, pcm, _, _⟩ := run_params (init n 1 style true) ms
  -- the duty is finished at the end
  have hfin : (run (init n 1 style true) ms).1.finished = true := by
    cases hf : (run (init n 1 style true) ms).1.finished with
    | true => rfl
    | false =>
      exfalso
      have hlt := i1 hf
      rw [pq, pcm] at hlt
      have hge : G.length ≤ count (init n 1 style true).cm (run (init n 1 style true) ms).1.c 0 := by
        apply nodup_len_le_filter G _ _ hG
        intro s hs
        obtain ⟨m, _, hms, hform, _⟩ := hGood s hs
        obtain ⟨_, _, _, hmem, _, _⟩ := validateForm_none _ _ m hform
        rw [hms] at hmem
        exact ⟨hmem, by rw [i2 hf s (Or.inr (hGood s hs))]; rfl⟩
      have : (init n 1 style true).q = quorumOf n := rfl
      omega
  have hmem := i3 rfl hfin
  apply eq_singleton_of_nodup _ 0 (C05_submit_at_most_once _ ms (by simp [init])) _ hmem
  intro x hx
  obtain ⟨sub, hsub, rfl⟩ := List.mem_map.1 hx
  have := (C05_submit_only_valid _ ms sub hsub).2.2
  simpa [init] using this

/-- the property as stated: committee sizes 4, 7, 10, 13; at most `f` distinct members ever send a malformed message or
    a wrong share; `2f+1` distinct members have delivered a correct share — in whatever order everything arrives,
    `Submit root` has happened (exactly once) after the whole sequence.  Runner styles `loop` (attester, proposer,
    aggregator, sync-committee message) and `first` (voluntary exit, validator registration) — and the contribution
    runner when the decided value holds a single contribution. -/
theorem C05_submit_once_quorum_good (n : Nat) (hn : n = 4 ∨ n = 7 ∨ n = 10 ∨ n = 13) (style : Style)
    (ms : List Msg) (G B : List Nat)
    (_hB : B.length ≤ faultyOf n) (_hBad : ∀ s, SentBad (init n 1 style true).cm [0] ms s → s ∈ B)
    (hG : G.Nodup) (hGq : 2 * faultyOf n + 1 ≤ G.length)
    (hGood : ∀ s ∈ G, SentGood (init n 1 style true).cm [0] 0 ms s) :
    (run (init n 1 style true) ms).2.map (·.root) = [0] := by
  have hk := (C05_tie_quorum_kernel.2.2.2.2 n hn).1
  apply C05_submit_once_quorum_good_strong n (by omega) style ms G hG _ hGood
  rw [hk]; exact hGq

/-- the hypotheses are satisfiable with a faulty sender whose wrong share makes the first reconstruction fail -/
example :
    let ms : List Msg := [⟨1, true, [(1, 0, true)]⟩, ⟨4, true, [(4, 0, false)]⟩, ⟨2, true, [(2, 0, true)]⟩,
                          ⟨9, true, [(9, 0, true)]⟩, ⟨4, false, [(4, 0, true)]⟩, ⟨3, true, [(3, 0, true)]⟩]
    (∀ s ∈ [1, 2, 3], SentGood (init 4 1 .loop true).cm [0] 0 ms s) ∧
    (∀ s, SentBad (init 4 1 .loop true).cm [0] ms s → s ∈ [4, 9]) ∧
    (run (init 4 1 .loop true) ms).2.map (·.root) = [0] := by
  refine ⟨?_, ?_, by decide⟩
  · intro s hs
    simp only [List.mem_cons, List.not_mem_nil, or_false] at hs
    rcases hs with h | h | h <;> subst h
    · exact ⟨⟨1, true, [(1, 0, true)]⟩, by simp, rfl, by decide, by decide⟩
    · exact ⟨⟨2, true, [(2, 0, true)]⟩, by simp, rfl, by decide, by decide⟩
    · exact ⟨⟨3, true, [(3, 0, true)]⟩, by simp, rfl, by decide, by decide⟩
  · rintro s ⟨m, hm, hs, hb⟩
    simp only [List.mem_cons, List.not_mem_nil, or_false] at hm
    rcases hm with h | h | h | h | h | h <;> subst h <;> subst hs <;>
      first
      | (exfalso; revert hb; decide)
      | simp

/-! ## liveness, multi-root runner (sync-committee contribution) -/

/-- the same liveness statement for a runner whose decided value has `k` objects: every one of them is submitted once
    each has received `2f+1` correct shares from distinct members while at most `f` members misbehave -/
def C05_multiroot_liveness_full : Prop :=
  ∀ (n : Nat), (n = 4 ∨ n = 7 ∨ n = 10 ∨ n = 13) → ∀ (k : Nat) (ms : List Msg) (B : List Nat),
    B.length ≤ faultyOf n → (∀ s, SentBad (init n k .loopMatch true).cm (List.range k) ms s → s ∈ B) →
    (∀ r < k, ∃ G : List Nat, G.Nodup ∧ 2 * faultyOf n + 1 ≤ G.length ∧
        ∀ s ∈ G, SentGood (init n k .loopMatch true).cm (List.range k) r ms s) →
    ∀ r < k, r ∈ (run (init n k .loopMatch true) ms).2.map (·.root)

/-- witness (n = 4, two objects): member 2 sends a wrong share for object 0 only.  The third message makes both roots
    cross the quorum edge; reconstruction of root 0 fails, the loop returns early; root 1 keeps its three correct shares
    and therefore never produces another edge.  Member 4's message then completes root 0 only, `Finished` is set and
    object 1 — which has four correct shares — is never submitted. -/
def C05_multiroot_witness : List Msg :=
  [⟨1, true, [(1, 0, true), (1, 1, true)]⟩, ⟨2, true, [(2, 0, false), (2, 1, true)]⟩,
   ⟨3, true, [(3, 0, true), (3, 1, true)]⟩, ⟨4, true, [(4, 0, true), (4, 1, true)]⟩]

theorem C05_multiroot_liveness_full_refuted : ¬ C05_multiroot_liveness_full := by
  intro h
  have := h 4 (Or.inl rfl) 2 C05_multiroot_witness [2] (by decide) ?_ ?_ 1 (by decide)
  · revert this; decide
  · rintro s ⟨m, hm, hs, hbad⟩
    simp only [C05_multiroot_witness, List.mem_cons, List.not_mem_nil, or_false] at hm
    rcases hm with e | e | e | e <;> subst e <;> subst hs
    · exfalso; revert hbad; decide
    · simp
    · exfalso; revert hbad; decide
    · exfalso; revert hbad; decide
  · intro r hr
    have hr' : r = 0 ∨ r = 1 := by omega
    rcases hr' with e | e <;> subst e
    · refine ⟨[1, 3, 4], by decide, by decide, ?_⟩
      intro s hs
      simp only [List.mem_cons, List.not_mem_nil, or_false] at hs
      rcases hs with e | e | e <;> subst e
      · exact ⟨⟨1, true, [(1, 0, true), (1, 1, true)]⟩, by simp [C05_multiroot_witness], rfl, by decide, by decide⟩
      · exact ⟨⟨3, true, [(3, 0, true), (3, 1, true)]⟩, by simp [C05_multiroot_witness], rfl, by decide, by decide⟩
      · exact ⟨⟨4, true, [(4, 0, true), (4, 1, true)]⟩, by simp [C05_multiroot_witness], rfl, by decide, by decide⟩
    · refine ⟨[1, 2, 3], by decide, by decide, ?_⟩
      intro s hs
      simp only [List.mem_cons, List.not_mem_nil, or_false] at hs
      rcases hs with e | e | e <;> subst e
      · exact ⟨⟨1, true, [(1, 0, true), (1, 1, true)]⟩, by simp [C05_multiroot_witness], rfl, by decide, by decide⟩
      · exact ⟨⟨2, true, [(2, 0, false), (2, 1, true)]⟩, by simp [C05_multiroot_witness], rfl, by decide, by decide⟩
      · exact ⟨⟨3, true, [(3, 0, true), (3, 1, true)]⟩, by simp [C05_multiroot_witness], rfl, by decide, by decide⟩

/-- what the witness run does on the model: only object 0 reaches the beacon node and the duty is finished -/
theorem C05_multiroot_witness_run :
    (run (init 4 2 .loopMatch true) C05_multiroot_witness).2.map (·.root) = [0] ∧
    (run (init 4 2 .loopMatch true) C05_multiroot_witness).1.finished = true := by decide

/-- PARTIAL, first part (what is true of the multi-root runner): both safety theorems above hold for it unchanged (any
    `k`), and the liveness statement holds when the decided value holds one object (see also the fault-free theorem below).  Missing for `k > 1`: after a failed reconstruction
    of one root the loop returns, roots that already crossed the quorum edge are neither retried nor re-armed, and
    `Finished` is set by the next successful single-root pass. -/
theorem C05_multiroot_liveness_partial (n : Nat) (hn : n = 4 ∨ n = 7 ∨ n = 10 ∨ n = 13) (k : Nat) (ms : List Msg)
    (G B : List Nat) :
    (∀ sub ∈ (run (init n k .loopMatch true) ms).2,
        (sub.shares.all fun p => p.2 == some true) = true ∧ quorumOf n ≤ sub.shares.length ∧ sub.root < k) ∧
    ((run (init n k .loopMatch true) ms).2.map (·.root)).Nodup ∧
    (k = 1 → B.length ≤ faultyOf n → (∀ s, SentBad (init n 1 .loopMatch true).cm [0] ms s → s ∈ B) →
      G.Nodup → 2 * faultyOf n + 1 ≤ G.length → (∀ s ∈ G, SentGood (init n 1 .loopMatch true).cm [0] 0 ms s) →
      (run (init n k .loopMatch true) ms).2.map (·.root) = [0]) := by
  refine ⟨?_, ?_, ?_⟩
  · intro sub hsub
    obtain ⟨a, b, c⟩ := C05_submit_only_valid (init n k .loopMatch true) ms sub hsub
    exact ⟨a, b, by simpa [init] using c⟩
  · exact C05_submit_at_most_once _ ms (by simpa [init] using List.nodup_range)
  · intro hk hB hBad hG hGq hGood
    subst hk
    exact C05_submit_once_quorum_good n hn .loopMatch ms G B hB hBad hG hGq hGood

/-- PARTIAL, second part: the multi-root runner IS live when nobody misbehaves — for every arrival order of well-formed
    messages that carry correct shares only (plus arbitrary malformed traffic, which is refused), once `2f+1` distinct
    members have delivered their message every decided object has been submitted exactly once (any number `k` of objects).
    So the defect needs a wrong share on one root while another root of the same message completes its quorum. -/
theorem C05_multiroot_liveness_partial_faultfree (n : Nat) (hn : n = 4 ∨ n = 7 ∨ n = 10 ∨ n = 13) (k : Nat)
    (ms : List Msg) (G : List Nat)
    (hclean : ∀ m ∈ ms, validateForm (init n k .loopMatch true).cm (List.range k) m = none → hasBadShare m = false)
    (hG : G.Nodup) (hGq : 2 * faultyOf n + 1 ≤ G.length)
    (hsent : ∀ s ∈ G, ∃ m ∈ ms, m.signer = s ∧ validateForm (init n k .loopMatch true).cm (List.range k) m = none) :
    ((run (init n k .loopMatch true) ms).2.map (·.root)).Perm (List.range k) := by
  have hq := (C05_tie_quorum_kernel.2.2.2.2 n hn).1
  have hcm := init_cm_nodup n k .loopMatch true
  have hexp : (init n k .loopMatch true).expected.Nodup := by simp [init, List.nodup_range]
  have hff0 : FF (init n k .loopMatch true) 0 [] := by
    refine ⟨fun r s => by simp [init, Container.empty], ?_, ?_, ?_⟩
    · intro r _; simp [init, count, signersOf, Container.empty]
    · show 0 < quorumOf n; omega
    · intro r _ s; simp [init, Container.empty]
  obtain ⟨i1, i2⟩ := run_ff ms (init n k .loopMatch true) 0 [] hcm hexp (by simp [init]) rfl hclean (fun _ => hff0)
  obtain ⟨pq, pcm, pe, _⟩ := run_params (init n k .loopMatch true) ms
  -- some expected root exists (a well-formed message exists)
  have hgne : G ≠ [] := by intro e; rw [e] at hGq; simp at hGq
  obtain ⟨s0, hs0⟩ := List.exists_mem_of_ne_nil G hgne
  obtain ⟨m0, _, _, hwf0⟩ := hsent s0 hs0
  obtain ⟨_, _, _, _, hlen0, hperm0⟩ := validateForm_none _ _ m0 hwf0
  have hfinished : (run (init n k .loopMatch true) ms).1.finished = true := by
    cases hf : (run (init n k .loopMatch true) ms).1.finished with
    | true => rfl
    | false =>
      exfalso
      obtain ⟨N', P', ff, hP⟩ := i1 hf
      -- pick an expected root
      have hexne : (init n k .loopMatch true).expected ≠ [] := by
        intro e
        have e' : List.range k = [] := e
        rw [e'] at hlen0
        have : m0.entries = [] := List.eq_nil_of_length_eq_zero hlen0.symm
        unfold validateForm at hwf0
        simp [this] at hwf0
        split at hwf0 <;> simp at hwf0
      obtain ⟨r, hr⟩ := List.exists_mem_of_ne_nil _ hexne
      have hcnt := ff.cnt r (by rw [pe]; exact hr)
      have hlt := ff.lt
      have hge : G.length ≤ count (run (init n k .loopMatch true) ms).1.cm (run (init n k .loopMatch true) ms).1.c r := by
        apply nodup_len_le_filter G _ _ hG
        intro s hs
        obtain ⟨m, hm, hms, hwf⟩ := hsent s hs
        obtain ⟨_, _, _, hmem, _, _⟩ := validateForm_none _ _ m hwf
        rw [hms] at hmem
        refine ⟨by rw [pcm]; exact hmem, ?_⟩
        rw [ff.pres r (by rw [pe]; exact hr) s]
        simp [hP s (Or.inr ⟨m, hm, hms, hwf⟩)]
      have : (run (init n k .loopMatch true) ms).1.q = quorumOf n := pq
      omega
  have hall := i2 rfl hfinished
  have hnd := C05_submit_at_most_once (init n k .loopMatch true) ms hexp
  apply (List.perm_ext_iff_of_nodup hnd List.nodup_range).2
  intro a
  constructor
  · intro ha
    obtain ⟨sub, hsub, rfl⟩ := List.mem_map.1 ha
    simpa [init] using (C05_submit_only_valid _ ms sub hsub).2.2
  · intro ha
    exact hall a (by simpa [init] using ha)

/-- fault-free instance: three members, two objects, both submitted by the third message -/
example :
    (run (init 4 2 .loopMatch true)
      [⟨1, true, [(1, 0, true), (1, 1, true)]⟩, ⟨3, true, [(3, 1, true), (3, 0, true)]⟩,
       ⟨5, true, [(5, 0, true), (5, 1, true)]⟩, ⟨2, true, [(2, 0, true), (2, 1, true)]⟩]).2.map (·.root) = [0, 1] := by
  decide

end Ssv.PartialSig
