/-
C12 — Block event processing is atomic and exactly-once across crashes.
Property theorems only (model: Ssv/Model/Registry.lean + RegistryCrash.lean; helper lemmas: Ssv/Proofs/Registry*.lean).

A block is executed as the list of micro-steps the real handler performs (writes through the block transaction,
direct database writes of the key manager and of the decided-history store, memory updates, marker write, commit).
A fault at write index k: the first k writes of the block happen, the next one does not — the process dies in front
of it (`crash`) or it returns an error (`error`; cli/operator/node.go ends the process on every error of the event
stream). A new process starts on what survived and asks for the stream from marker + 1.
-/
import Ssv.Proofs.RegistryFaultSeq

namespace Ssv.Registry

/-! ## ties to the regenerated facts -/

/-- * processBlockEvents: one transaction per block, `defer Discard`, marker read, events, marker SAVED THROUGH THE
      TRANSACTION (`SaveLastProcessedBlock` = `db.Using(rw).Set`), then Commit;
    * setupEventHandling resumes at `lastProcessedBlock + 1` (call order + the two `… + 1` statements are present);
    * processBlockEvents opens ONE transaction (`txn := eh.nodeStorage.Begin()`, `defer txn.Discard()`) and has the
      inferior-block guard;
    * handleShareCreation calls the key manager BEFORE `Shares().Save`; handleValidatorRemoved cleans the decided
      history, deletes the share, then calls the key manager; reactivation bumps slashing protection after the save;
    * ekm AddShare / RemoveShare look the account up first (add only if absent, remove only if present);
    * the wallet stores the ACCOUNT RECORD and then the WALLET INDEX in two separate writes (nd and hd wallet);
      removal deletes the record, then stores the index; CleanAllInstances = DeletePrefix + delete. -/
theorem C12_tie_callsites :
    Gen.calls_processBlockEvents =
      ["Begin", "Discard", "GetLastProcessedBlock", "processEvent", "SaveLastProcessedBlock", "Commit"] ∧
    Gen.calls_SaveLastProcessedBlock = ["Set", "Using"] ∧
    Gen.calls_setupEventHandling = ["GetLastProcessedBlock", "SetUint64", "SyncHistory", "SetUint64", "SyncOngoing"] ∧
    Gen.has_resume = [true, true] ∧
    Gen.has_processBlockEvents = [true, true, true, true] ∧
    Gen.calls_handleShareCreation = ["validatorAddedEventToShare", "BelongsToOperator", "AddShare", "Save"] ∧
    Gen.calls_handleValidatorRemoved = ["Get", "CleanAllInstances", "Each", "Delete", "BelongsToOperator", "RemoveShare"] ∧
    Gen.calls_handleClusterReactivated = ["processClusterEvent", "BumpSlashingProtection"] ∧
    Gen.calls_ekm_AddShare = ["AccountByPublicKey", "bumpSlashingProtection", "saveShare"] ∧
    Gen.calls_ekm_RemoveShare =
      ["AccountByPublicKey", "RemoveHighestAttestation", "RemoveHighestProposal", "DeleteAccountByPublicKey"] ∧
    Gen.calls_wallet_AddValidatorAccount = ["SaveAccount", "SaveWallet"] ∧
    Gen.calls_hdwallet_AddValidatorAccount = ["SaveAccount", "SaveWallet"] ∧
    Gen.calls_hdwallet_DeleteAccountByPublicKey = ["AccountByPublicKey", "DeleteAccount", "SaveWallet"] ∧
    Gen.calls_CleanAllInstances = ["DeletePrefix", "delete"] := by decide

/-! ## a block that is not newer than the last processed block is refused -/

/-- ErrInferiorBlock: nothing at all changes -/
theorem C12_inferior_block_refused (me : Nat) (n : Node) (b : Block) (h : b.number ≤ n.reg.db.marker.getD 0) :
    applyBlock me n b = (n, .refused, []) := by
  have : inferior n b = true := by simp [inferior]; omega
  simp [applyBlock, this]

/-- once a block has been processed, it and every older block are refused -/
theorem C12_processed_block_refused_again (me : Nat) (n : Node) (b b' : Block) (hok : (applyBlock me n b).2.1 = .ok)
    (hle : b'.number ≤ b.number) :
    applyBlock me (applyBlock me n b).1 b' = ((applyBlock me n b).1, .refused, []) := by
  apply C12_inferior_block_refused
  obtain ⟨_, _, heq⟩ := applyBlock_ok_eq me n b hok
  rw [heq, commit_reg]
  simpa [commitReg] using hle

/-- The stored marker never goes back, whatever block is delivered — with or without events (an EMPTY,
    progress-only block is a block like any other: refused unless its number is above the marker), whatever the
    events do, refused, panicking or processed. -/
theorem C12_marker_monotone (me : Nat) (n : Node) (b : Block) :
    n.reg.db.marker.getD 0 ≤ (applyBlock me n b).1.reg.db.marker.getD 0 ∧
    ((applyBlock me n b).2.1 = .ok → (applyBlock me n b).1.reg.db.marker = some b.number ∧ n.reg.db.marker.getD 0 < b.number) := by
  cases hs : (applyBlock me n b).2.1 with
  | ok =>
    obtain ⟨hinf, _, heq⟩ := applyBlock_ok_eq me n b hs
    have hlt : n.reg.db.marker.getD 0 < b.number := by
      simp only [inferior, decide_eq_false_iff_not, ge_iff_le, Nat.not_le] at hinf; exact hinf
    have hm : (applyBlock me n b).1.reg.db.marker = some b.number := by rw [heq, commit_reg]; rfl
    exact ⟨by rw [hm]; simp; omega, fun _ => ⟨hm, hlt⟩⟩
  | refused =>
    refine ⟨?_, fun h => by cases h⟩
    simp only [applyBlock] at hs ⊢
    by_cases hi : inferior n b = true
    · simp [hi]
    · simp only [hi, Bool.false_eq_true, ↓reduceIte] at hs
      split at hs <;> simp at hs
  | panicked =>
    refine ⟨?_, fun h => by cases h⟩
    simp only [applyBlock] at hs ⊢
    by_cases hi : inferior n b = true
    · simp [hi] at hs
    · simp only [hi, Bool.false_eq_true, ↓reduceIte] at hs ⊢
      split at hs
      · rename_i hp
        simp only [hp, ↓reduceIte]
        have : (beginTxn (runEvents me b.number (beginTxn n) b.events).1).reg.db = n.reg.db := by
          show (runEvents me b.number (beginTxn n) b.events).1.reg.db = n.reg.db
          rw [runEvents_eq_runMacro, runMacro_db _ _ (eventsMacros_handler me b.number _ b.events)]; rfl
        rw [this]; exact Nat.le_refl _
      · simp at hs

/-- over a whole stream the marker only grows -/
theorem C12_marker_monotone_run (me : Nat) (n : Node) (bs : List Block) :
    n.reg.db.marker.getD 0 ≤ (run me n bs).1.reg.db.marker.getD 0 := by
  induction bs generalizing n with
  | nil => exact Nat.le_refl _
  | cons b bs ih =>
    have h1 := (C12_marker_monotone me n b).1
    simp only [run]
    cases hs : (applyBlock me n b).2.1 with
    | ok => simp only []; exact Nat.le_trans h1 (ih _)
    | refused => exact h1
    | panicked => exact h1

/-- empty blocks below / at / above the marker -/
example :
    let n := (run 1 init [⟨5, [.operatorAdded 1 1 1]⟩]).1
    (applyBlock 1 n ⟨3, []⟩).2.1 = .refused ∧ (applyBlock 1 n ⟨5, []⟩).2.1 = .refused ∧
    (applyBlock 1 n ⟨3, []⟩).1 = n ∧
    (applyBlock 1 n ⟨6, []⟩).2.1 = .ok ∧ (applyBlock 1 n ⟨6, []⟩).1.reg.db.marker = some 6 ∧
    (run 1 n [⟨3, []⟩, ⟨5, [.operatorAdded 1 1 1]⟩]).1 = n := by decide

example : (applyBlock 1 (run 1 init [⟨5, [.operatorAdded 1 1 1]⟩]).1 ⟨5, [.operatorAdded 2 1 2]⟩).2.1 = .refused ∧
    (applyBlock 1 init ⟨0, [.operatorAdded 2 1 2]⟩).2.1 = .refused := by decide

/-! ## the marker is atomic with the block's writes -/

/-- Whatever the fault position: after the restart the registry (database and memory: shares, operators, recipients
    with nonces, marker, own operator id) is exactly the one from before the block — nothing of the block is half
    applied; otherwise the block (marker included) was committed as a whole (`C12_crash_resume_eq_partial`). -/
theorem C12_marker_atomic (me : Nat) (n : Node) (b : Block) (kind : FaultKind) (k : Nat)
    (hk : kind ≠ .retry) (hB : Boundary n)
    (hown : ∀ o ∈ n.reg.db.ops, o.pk = me → o.id = n.reg.self)
    (hhas : n.reg.self ≠ 0 → ∃ o ∈ n.reg.db.ops, o.id = n.reg.self ∧ o.pk = me)
    (hf : (faultBlock me n b kind k).2 = .faulted ∨ (faultBlock me n b kind k).2 = .faultedBad) :
    (faultBlock me n b kind k).1.reg = n.reg :=
  faultBlock_registry me n b kind k hk hB hown hhas hf

/-! ## idempotence of the effects outside the transaction -/

/-- key manager: re-running the handler steps of a block on a wallet that an interrupted run of the same steps left
    behind stores exactly the keys the uninterrupted run stores (add only if absent / remove only if present: the
    last call on a key decides) -/
theorem C12_rerun_absorbs_wallet {w w' : Wal} (l1 r : List Step) (hl : ∀ s ∈ l1 ++ r, s.handler = true)
    (h : Sane w) (h' : Sane w')
    (hag : ∀ k, (k ∈ keysOf w' ↔ k ∈ keysOf (walRun w l1)) ∨ some k ∈ r.map Step.kmKey) (k : Nat) :
    k ∈ keysOf (walRun w' (l1 ++ r)) ↔ k ∈ keysOf (walRun w (l1 ++ r)) :=
  walRun_absorb l1 r hl h h' hag k

/-- decided history: cleaning again what an interrupted run already cleaned changes nothing -/
theorem C12_rerun_absorbs_history (h : Hist) (l1 r : List Step) : histRun (histRun h l1) (l1 ++ r) = histRun h (l1 ++ r) :=
  histRun_absorb h l1 r

/-! ## crash / error anywhere in a block, restart, resume = uninterrupted run -/

/-- the full claim: for EVERY write index the restarted-and-resumed stream ends like the uninterrupted one —
    same completion, same registry, same decided history, every share key stored equally often -/
def C12_crash_resume_eq_full : Prop :=
  ∀ (me : Nat) (n : Node) (b : Block) (rest : List Block) (kind : FaultKind) (k : Nat),
    kind ≠ .retry → Boundary n → Sane n.wal →
    (∀ o ∈ n.reg.db.ops, o.pk = me → o.id = n.reg.self) →
    (n.reg.self ≠ 0 → ∃ o ∈ n.reg.db.ops, o.id = n.reg.self ∧ o.pk = me) →
    (regEvents me b.number (beginReg n.reg) b.events).2 = false →
    n.reg.db.marker.getD 0 < b.number → (∀ c ∈ rest, b.number < c.number) →
    (faultRun me n b rest kind k).2 = (run me n (b :: rest)).2 ∧
    (faultRun me n b rest kind k).1.reg = (run me n (b :: rest)).1.reg ∧
    (faultRun me n b rest kind k).1.hist = (run me n (b :: rest)).1.hist ∧
    ∀ key, (keysOf (faultRun me n b rest kind k).1.wal).count key = (keysOf (run me n (b :: rest)).1.wal).count key

/-- four operators (the first one is the node itself) -/
def fourOps : Block := ⟨1, [.operatorAdded 1 1 1, .operatorAdded 2 1 2, .operatorAdded 3 1 3, .operatorAdded 4 1 4]⟩
/-- a valid ValidatorAdded whose first member is the node's own, decryptable, matching share (key 11) -/
def ownAdd : Block :=
  ⟨2, [.validatorAdded 1 7 (some 0) 1312 [⟨1, 11, true, true⟩, ⟨2, 12, false, false⟩, ⟨3, 13, false, false⟩, ⟨4, 14, false, false⟩]]⟩

theorem C12_witness_start_state : Boundary (run 1 init [fourOps]).1 ∧ Sane (run 1 init [fourOps]).1.wal :=
  ⟨run_boundary 1 init _ init_boundary (by decide), run_sane 1 init _ sane_init⟩

/-- REFUTED on this tree (replayed on the real handler + key manager: corpus/C12/registry_orphan_account.ops):
    the wallet's AddValidatorAccount stores the ACCOUNT RECORD and then the WALLET INDEX in two separate database
    writes. A crash (or a failing index write) between them leaves a record the index does not know; after the
    restart `AddShare` does not find the account and stores a second record for the same share key — the key share is
    stored twice, and a later RemoveShare removes only one of the two. -/
theorem C12_crash_resume_eq_full_refuted : ¬ C12_crash_resume_eq_full := by
  intro h
  have := (h 1 (run 1 init [fourOps]).1 ownAdd [] .crash 2 (by decide) C12_witness_start_state.1 C12_witness_start_state.2
    (by decide) (by decide) (by decide) (by decide) (by decide)).2.2.2 11
  revert this
  decide

/-- the witness is exactly the excluded position, and nothing else in that block is -/
example : (faultBlock 1 (run 1 init [fourOps]).1 ownAdd .crash 2).2 = .faultedBad ∧
    (faultBlock 1 (run 1 init [fourOps]).1 ownAdd .crash 0).2 = .faulted ∧
    (faultBlock 1 (run 1 init [fourOps]).1 ownAdd .crash 1).2 = .faulted ∧
    (faultBlock 1 (run 1 init [fourOps]).1 ownAdd .error 3).2 = .faulted ∧
    (faultBlock 1 (run 1 init [fourOps]).1 ownAdd .error 4).2 = .faulted ∧
    (faultBlock 1 (run 1 init [fourOps]).1 ownAdd .crash 5).2 = .faulted ∧
    (faultBlock 1 (run 1 init [fourOps]).1 ownAdd .crash 6).2 = .completed := by decide

/-- Crash or failing write at ANY write index of a block that does not panic — in front of a transactional write,
    inside a key-manager call, inside the decided-history cleanup, at the marker write, at the commit — followed by a
    restart on the surviving database and resumption from marker + 1: the stream ends exactly like the uninterrupted
    run (same completion, same registry incl. nonces and marker, same decided history, same set of stored key
    shares, none stored twice). The only excluded position is the one between the account record and the wallet
    index of an AddShare (`faultedBad`, see the refutation). Holds from every state between blocks with a sane
    wallet whose own operator id matches the stored operators. -/
theorem C12_crash_resume_eq_partial (me : Nat) (n : Node) (b : Block) (rest : List Block) (kind : FaultKind) (k : Nat)
    (hk : kind ≠ .retry) (hB : Boundary n) (hS : Sane n.wal)
    (hown : ∀ o ∈ n.reg.db.ops, o.pk = me → o.id = n.reg.self)
    (hhas : n.reg.self ≠ 0 → ∃ o ∈ n.reg.db.ops, o.id = n.reg.self ∧ o.pk = me)
    (hnp : (regEvents me b.number (beginReg n.reg) b.events).2 = false)
    (hv1 : n.reg.db.marker.getD 0 < b.number) (hv2 : ∀ c ∈ rest, b.number < c.number)
    (hgood : (faultBlock me n b kind k).2 ≠ .faultedBad) :
    (faultRun me n b rest kind k).2 = (run me n (b :: rest)).2 ∧
    (faultRun me n b rest kind k).1.reg = (run me n (b :: rest)).1.reg ∧
    (faultRun me n b rest kind k).1.hist = (run me n (b :: rest)).1.hist ∧
    ∀ key, (keysOf (faultRun me n b rest kind k).1.wal).count key = (keysOf (run me n (b :: rest)).1.wal).count key := by
  have h := fault_resume me n b rest kind k hk hB hS hown hhas hnp hv1 hv2 hgood
  exact ⟨h.ok, h.reg, h.hist, h.count⟩

/-- the same for a fault in ANY block of a stream that starts on an empty database: `pre` is processed, the fault
    hits block `b`, the stream `b :: rest` is resumed (OperatorAdded ids of `pre` fresh and non-zero, as the contract
    guarantees — needed for the restart to find the own operator id, `C11_load_persist_id_partial`) -/
theorem C12_crash_resume_eq_stream (me : Nat) (pre : List Block) (b : Block) (rest : List Block) (kind : FaultKind) (k : Nat)
    (hk : kind ≠ .retry) (hpre : (run me init pre).2 = true) (hwf : OpAddsWF (flatten pre))
    (hnp : (regEvents me b.number (beginReg (run me init pre).1.reg) b.events).2 = false)
    (hv1 : (run me init pre).1.reg.db.marker.getD 0 < b.number) (hv2 : ∀ c ∈ rest, b.number < c.number)
    (hgood : (faultBlock me (run me init pre).1 b kind k).2 ≠ .faultedBad) :
    let n := (run me init pre).1
    (faultRun me n b rest kind k).2 = (run me n (b :: rest)).2 ∧
    (faultRun me n b rest kind k).1.reg = (run me n (b :: rest)).1.reg ∧
    (faultRun me n b rest kind k).1.hist = (run me n (b :: rest)).1.hist ∧
    ∀ key, (keysOf (faultRun me n b rest kind k).1.wal).count key = (keysOf (run me n (b :: rest)).1.wal).count key := by
  intro n
  have hbd := run_boundary me init pre init_boundary hpre
  have hr := run_reg me init pre
  have hinv := regRun_selfInv me init.reg pre rfl (init_selfInv me) hwf (by rw [← hr.2]; exact hpre)
  rw [← hr.1] at hinv
  have htd : n.reg.txn = n.reg.db := hbd.1.1
  exact C12_crash_resume_eq_partial me n b rest kind k hk hbd (run_sane me init pre sane_init)
    (by rw [← htd]; exact hinv.own) (by rw [← htd]; exact hinv.has) hnp hv1 hv2 hgood

/-- non-vacuity: a block with key-manager calls, history cleanup and several transactional writes; every write index
    except the excluded one satisfies the hypotheses, the resumed run really re-executes the block -/
def lifeCycle : Block :=
  ⟨3, [.clusterLiquidated 1 [4, 3, 2, 1], .validatorRemoved 1 7 [], .feeRecipientUpdated 1 9,
       .validatorAdded 1 8 (some 1) 1312 [⟨1, 15, true, true⟩, ⟨2, 12, false, false⟩, ⟨3, 13, false, false⟩, ⟨4, 14, false, false⟩]]⟩

example :
    let n := (run 1 init [fourOps, ownAdd]).1
    (run 1 init [fourOps, ownAdd]).2 = true ∧ OpAddsWF (flatten [fourOps, ownAdd]) ∧
    (regEvents 1 lifeCycle.number (beginReg n.reg) lifeCycle.events).2 = false ∧
    n.reg.db.marker.getD 0 < lifeCycle.number ∧
    (faultBlock 1 n lifeCycle .crash 4).2 = .faulted ∧ (faultBlock 1 n lifeCycle .error 7).2 = .faulted ∧
    (faultBlock 1 n lifeCycle .crash 9).2 = .faultedBad ∧
    keysOf (run 1 n [lifeCycle]).1.wal = [15] ∧ keysOf (faultRun 1 n lifeCycle [] .crash 4).1.wal = [15] ∧
    keysOf (faultBlock 1 n lifeCycle .crash 4).1.wal = [11] ∧ keysOf (faultBlock 1 n lifeCycle .crash 7).1.wal = [] := by
  refine ⟨by decide, ⟨by decide, by decide⟩, by decide, by decide, by decide, by decide, by decide, by decide, by decide,
    by decide, by decide⟩


/-! ## sequences of faults -/

/-- ANY sequence of crashes / failing writes — each at any write index of any block that is still to be processed
    (also the same block again), each followed by a restart on the surviving database and resumption from
    marker + 1 — over a stream that starts on an empty database and is processed completely without faults
    (OperatorAdded ids fresh and non-zero): unless one of the faults falls between the account record and the wallet
    index of an AddShare, the stream ends exactly like the uninterrupted run. -/
theorem C12_fault_sequence_partial (me : Nat) (bs : List Block) (fs : List Fault)
    (hkinds : ∀ f ∈ fs, f.kind ≠ .retry) (hwf : OpAddsWF (flatten bs)) (hok : (run me init bs).2 = true)
    (hgood : (faultyRun me init bs fs).2 = false) :
    (faultyRun me init bs fs).1.2 = (run me init bs).2 ∧
    (faultyRun me init bs fs).1.1.reg = (run me init bs).1.reg ∧
    (faultyRun me init bs fs).1.1.hist = (run me init bs).1.hist ∧
    ∀ key, (keysOf (faultyRun me init bs fs).1.1.wal).count key = (keysOf (run me init bs).1.wal).count key := by
  have h := fault_sequence me fs init bs hkinds init_boundary sane_init (init_selfInv me) hwf hok hgood
  exact ⟨h.ok, h.reg, h.hist, h.count⟩

/-- the same with syntactic hypotheses on the stream: strictly increasing block numbers, no log without topics -/
theorem C12_fault_sequence (me : Nat) (bs : List Block) (fs : List Fault)
    (hkinds : ∀ f ∈ fs, f.kind ≠ .retry) (hwf : OpAddsWF (flatten bs))
    (hinc : Increasing 0 bs) (hnt : Event.noTopics ∉ flatten bs)
    (hgood : (faultyRun me init bs fs).2 = false) :
    (faultyRun me init bs fs).1.2 = true ∧
    (faultyRun me init bs fs).1.1.reg = (run me init bs).1.reg ∧
    (faultyRun me init bs fs).1.1.hist = (run me init bs).1.hist ∧
    ∀ key, (keysOf (faultyRun me init bs fs).1.1.wal).count key = (keysOf (run me init bs).1.wal).count key := by
  have hok := run_completes me init bs hinc hnt
  have h := C12_fault_sequence_partial me bs fs hkinds hwf hok hgood
  exact ⟨h.1.trans hok, h.2⟩

/-- non-vacuity: three faults — inside RemoveShare of the life-cycle block, then at its commit, then in a later
    block — none on the excluded position; the faulty run really restarts and re-executes -/
example :
    let bs := [fourOps, ownAdd, lifeCycle, ⟨9, [.feeRecipientUpdated 2 3]⟩]
    let fs : List Fault := [⟨2, .crash, 5⟩, ⟨0, .error, 12⟩, ⟨1, .crash, 1⟩]
    OpAddsWF (flatten bs) ∧ (run 1 init bs).2 = true ∧ (faultyRun 1 init bs fs).2 = false ∧
    (faultyRun 1 init bs fs).1.1.reg = (run 1 init bs).1.reg ∧
    (faultyRun 1 init bs [⟨1, .crash, 2⟩]).2 = true := by
  refine ⟨⟨by decide, by decide⟩, by decide, by decide, by decide, by decide⟩

end Ssv.Registry
