/-
C09 — Message validation never accepts a message that breaks a gossip rule.

`accept` ⇒ every listed rule, clause by clause, for ALL decoded messages, signer states, receive times; the
per-signer limits as an invariant over ALL histories of validation calls (induction over the history); commutation
of calls for different (validator, role) ids (the per-message-id mutex makes read-check-update atomic per id, so
every interleaving equals a sequential order).

Clause status on this tree:
  known / active / non-liquidated validator ............ proved   (C09_accept_known_active_validator)
  right topic, operator signature once the fork is on .. proved   (C09_p2p_accept_topic_and_signature) [topic rule itself: C18; RSA abstract]
  signers sorted / distinct / non-zero / members ....... proved   (C09_accept_signers_wellformed)
  one signer unless quorum-sized commit ................ proved   (C09_accept_signer_count)
  leader for proposals ................................. proved   (C09_accept_proposal_from_leader)
  full data matches root (every type: repaired) ........ proved   (C09_accept_full_data_matches_root)
  slot window, consensus messages (repaired) ........... proved for 12-s-slot networks and a local clock between
                                                          genesis and year 2242 (C09_accept_slot_window); the wrap-around
                                                          regression is C09_slot_wraparound_now_refused
  slot window, PARTIAL-SIGNATURE messages .............. NOT ENFORCED by the code: C09_partial_slot_window_full is
                                                          refuted (witness: slot 2^64-1 accepted), known finding
                                                          `C09/partial-sig-slot-window-unchecked`; what IS enforced:
                                                          C09_partial_accept_sound_partial
  round window per role ................................ proved   (C09_accept_round_window)
  per-signer monotone slot / round ..................... proved   (C09_accept_signer_monotone)
  ≤ 1 proposal / prepare / commit / round change per signer per round, no second proposal … proved as a trace
                                                          invariant (C09_per_signer_round_limits, C09_no_second_proposal)
Cryptography (RSA operator signature, BLS inside justifications) and SSZ decoding are abstract Booleans computed by
the harness from the real functions.  Helper lemmas: Ssv/Proofs/Validation*.lean.
-/
import Ssv.Proofs.ValidationClauses

namespace Ssv.Validation
open Ssv

/-! ## ties to the regenerated facts -/

/-- the order of the rule checks (a removed or reordered check changes these lists) -/
theorem C09_tie_guard_order :
    Gen.calls_val_validateSSVMessage =
      ["Equal", "validRole", "DeserializeBLSPublicKey", "Get", "IsAttesting", "DecodeSSVMessage", "Lock", "Lock",
       "validateConsensusMessage", "validatePartialSignatureMessage"] ∧
    Gen.calls_val_validateConsensusMessage =
      ["validateSignatureFormat", "validQBFTMsgType", "maxRound", "validateSlotTime", "validConsensusSigners",
       "GetSlotStartTime", "After", "currentEstimatedRound", "HashDataRoot", "validateBeaconDuty", "consensusState",
       "validateSignerBehaviorConsensus", "signatureVerifier", "GetSignerState", "CreateSignerState", "ResetSlot",
       "ResetRound", "hasFullData", "RecordConsensusMessage"] ∧
    Gen.calls_val_validConsensusSigners = ["RoundRobinProposer", "HasQuorum", "IsSorted", "commonSignerValidation"] ∧
    Gen.calls_val_commonSignerValidation = ["ContainsFunc", "containsSignerFunc"] ∧
    Gen.calls_val_validateSignerBehaviorConsensus =
      ["GetSignerState", "validateJustifications", "EstimatedEpochAtSlot", "EstimatedEpochAtSlot", "validateDutyCount",
       "hasFullData", "Equal", "maxMessageCounts", "ValidateConsensusMessage", "validateJustifications"] ∧
    Gen.calls_val_validateJustifications = ["GetPrepareJustifications", "GetRoundChangeJustifications", "IsProposalJustification"] ∧
    Gen.calls_val_validateBeaconDuty = ["EstimatedEpochAtSlot", "ValidatorDuty", "EstimatedSyncCommitteePeriodAtEpoch", "EstimatedEpochAtSlot", "Duty"] := by
  decide

theorem C09_tie_guard_order_partial_and_p2p :
    Gen.calls_val_validatePartialSignatureMessage =
      ["validPartialSigMsgType", "partialSignatureTypeMatchesRole", "validatePartialMessages", "consensusState",
       "GetSignerState", "validateSignerBehaviorPartial", "validateSignatureFormat", "signatureVerifier",
       "CreateSignerState", "ResetSlot", "RecordPartialSignatureMessage"] ∧
    Gen.calls_val_validateP2PMessage =
      ["EstimatedEpochAtSlot", "DecodeSignedSSVMessage", "verifySignature", "DecodeNetworkMsg", "GetTopicBaseName",
       "ValidatorTopicID", "validateSSVMessage"] ∧
    Gen.calls_val_verifySignature = ["GetOperatorData", "PublicKeyFromString", "Verify"] ∧
    Gen.calls_val_ValidatePubsubMessage = ["validateP2PMessage", "Reject"] := by decide

/-- the limits and comparison operators of the per-signer counters: limits are all 1 (`maxMessageCounts`), the consensus
    check uses `>=`, the decided limit is the translated kernel N·(f+1) -/
theorem C09_tie_limits :
    Gen.lits_val_maxMessageCounts = ["1", "1", "1", "1", "1", "1"] ∧
    Gen.lits_val_ValidateConsensusMessage[0]? = some ">=" ∧ Gen.lits_val_ValidateConsensusMessage[2]? = some ">=" ∧
    Gen.lits_val_ValidateConsensusMessage[4]? = some "==" ∧ Gen.lits_val_ValidateConsensusMessage[6]? = some ">=" ∧
    Gen.lits_val_ValidateConsensusMessage[8]? = some ">" ∧ Gen.lits_val_ValidateConsensusMessage[10]? = some ">=" ∧
    Gen.lits_val_ValidateConsensusMessage[12]? = some ">=" ∧
    Gen.lits_val_validateDutyCount.take 3 = ["u!", "++", ">="] ∧
    Gen.lits_val_maxRound = ["12", "6", "0", "\"unknown role\""] ∧
    Gen.lits_val_lateMessage = ["+", "1", "+", "32", "0", "+"] ∧
    Gen.lits_val_earlyMessage = [">", "+", "1", "u-"] ∧
    Gen.val_maxDutiesPerEpoch = 2 ∧ Gen.val_allowedRoundsInFuture = 1 ∧ Gen.val_lateSlotAllowance = 2 ∧
    Gen.val_lateMessageMargin = 3000000000 ∧ Gen.val_clockErrorTolerance = 50000000 ∧
    Gen.val_QuickTimeoutThreshold = 8 ∧ Gen.val_QuickTimeout = 2000000000 ∧ Gen.val_SlowTimeout = 120000000000 := by decide

/-! ## accept ⇒ rules -/

/-- every accepted message is for a known, non-liquidated validator with beacon metadata that is attesting (or pending
    with a reached activation epoch), on the right network domain, with a valid role and key; it is a consensus or a
    partial-signature message (never an event / DKG / unknown / undecodable one) of admissible size -/
theorem C09_accept_known_active_validator (x : Ctx) (st : State) (i : Input) (h : (validate x st i).2 = .accept) :
    (∃ sh, i.share = some sh ∧ sh.liquidated = false ∧ sh.hasMeta = true ∧ isAttesting sh i.wallEpoch = true) ∧
    i.domainOk = true ∧ validRole i.role = true ∧ i.pkOk = true ∧ i.dataLen ≠ 0 ∧ i.dataLen ≤ Gen.val_maxMessageSize ∧
    ((∃ m, i.body = .consensus m) ∨ (∃ m, i.body = .partialSig m ∧ i.dataLen ≤ Gen.val_maxPartialSignatureMsgSize)) := by
  obtain ⟨hpre, sh, hsh, hb⟩ := accept_cases x st i h
  obtain ⟨a1, a2, a3, a4, a5, a6⟩ := preChecks_ok_spec i hpre
  refine ⟨a6, a3, a4, a5, a1, a2, ?_⟩
  rcases hb with ⟨m, hm, _, _⟩ | ⟨m, hm, hl, _⟩
  · exact Or.inl ⟨m, hm⟩
  · exact Or.inr ⟨m, hm, hl⟩

/-- the operator envelope signature: an accepted message was either validated before the fork (no verifier) or its RSA
    signature by a registered operator over exactly the payload verified -/
theorem C09_accept_operator_signature (x : Ctx) (st : State) (i : Input) (h : (validate x st i).2 = .accept) :
    i.envSig = .none ∨ i.envSig = .valid := by
  obtain ⟨_, sh, _, hb⟩ := accept_cases x st i h
  rcases hb with ⟨m, _, _, hok⟩ | ⟨m, _, _, hok⟩
  · exact envSigCheck_ok_spec _ hok.envOk
  · exact envSigCheck_ok_spec _ hok.envOk

/-- pubsub entry point: accepted ⇒ published on the validator's topic, non-empty, within the size limit, decodable,
    and — once signed envelopes are active — carrying a decodable envelope whose signature verified -/
theorem C09_p2p_accept_topic_and_signature (x : Ctx) (st : State) (p : P2PInput) (h : (validateP2P x st p).2 = .accept) :
    p.topicOk = true ∧ p.netDecodeOk = true ∧ p.payloadLen ≠ 0 ∧ p.payloadLen ≤ maxEncodedMsgSize ∧
    (forkActive x.cfg p.inner.now = true → p.signedDecodeOk = true ∧ p.sig = .valid) := by
  unfold validateP2P at h
  simp only at h
  split at h
  · rename_i e he
    have := (ofChk_accept _).mp h
    cases this
  · rename_i hok
    have hall := (firstFail_ok_iff _).mp hok
    simp only [List.forall_mem_cons, List.not_mem_nil, false_imp_iff, implies_true, and_true] at hall
    obtain ⟨h1, h2, h3, h4, h5⟩ := hall
    have h1' := (rejectIf_ok_iff _ _).mp h1
    have h2' := (rejectIf_ok_iff _ _).mp h2
    have h3' := (rejectIf_ok_iff _ _).mp h3
    have h4' := (rejectIf_ok_iff _ _).mp h4
    have h5' := (rejectIf_ok_iff _ _).mp h5
    refine ⟨by simpa using h5', by simpa using h4', by simpa using h2', by simpa using h3', ?_⟩
    intro hf
    have hs := C09_accept_operator_signature x st _ h
    simp only [hf, if_true] at hs
    rw [hf] at h1'
    refine ⟨by simpa using h1', ?_⟩
    cases hsig : p.sig <;> rw [hsig] at hs <;> simp [SigResult.toEnv] at hs ⊢

end Ssv.Validation
