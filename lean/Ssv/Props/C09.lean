/-
C09 — Message validation never accepts a message that breaks a gossip rule.

`accept` ⇒ every listed rule, clause by clause, for ALL decoded messages, signer states, receive times; the
per-signer limits as an invariant over ALL histories of validation calls (induction over the history); commutation
of calls for different (validator, role) ids (the per-message-id mutex makes read-check-update atomic per id, so
every interleaving equals a sequential order).

Clause status on this tree:
  known / active / non-liquidated validator ............ proved   (C09_accept_known_active_validator)
  right topic, operator signature once the fork is on .. proved   (C09_p2p_accept_topic_and_signature) [topic rule itself: C18; RSA abstract]
  signers sorted / distinct / non-zero / members ....... proved   (C09_accept_signers_wellformed)
  one signer unless quorum-sized commit ................ proved   (C09_accept_signer_count)
  leader for proposals ................................. proved   (C09_accept_proposal_from_leader)
  full data matches root (every type: repaired) ........ proved   (C09_accept_full_data_matches_root)
  slot window, consensus messages (repaired) ........... proved for 12-s-slot networks and a local clock between
                                                          genesis and year 2242 (C09_accept_slot_window); the wrap-around
                                                          regression is C09_slot_wraparound_now_refused
  slot window, PARTIAL-SIGNATURE messages .............. FUTURE side (repaired by 6c728adc1): proved
                                                          (C09_partial_future_slot_refused, C09_partial_accept_cannot_pin_future;
                                                          regression on the pre-repair guard list:
                                                          C09_regression_unguarded_future_partial_mutes_signer).
                                                          LATE side NOT ENFORCED by the code: C09_partial_slot_window_full is
                                                          refuted (witness: a duty 1000 slots old accepted), known finding
                                                          `C09/partial-sig-late-slot-unchecked`; harmless to the signer
                                                          (C09_partial_late_slot_is_harmless_to_the_signer); what IS enforced:
                                                          C09_partial_accept_sound_partial
  round window per role ................................ proved   (C09_accept_round_window)
  per-signer monotone slot / round ..................... proved   (C09_accept_signer_monotone)
  ≤ 1 proposal / prepare / commit / round change per signer per round, no second proposal … proved as a trace
                                                          invariant (C09_per_signer_round_limits, C09_no_second_proposal)
Cryptography (RSA operator signature, BLS inside justifications) and SSZ decoding are abstract Booleans computed by
the harness from the real functions.  Helper lemmas: Ssv/Proofs/Validation*.lean.
-/
import Ssv.Proofs.ValidationClauses

namespace Ssv.Validation
open Ssv

/-! ## ties to the regenerated facts -/

/-- the order of the rule checks (a removed or reordered check changes these lists) -/
theorem C09_tie_guard_order :
    Gen.calls_val_validateSSVMessage =
      ["Equal", "validRole", "DeserializeBLSPublicKey", "Get", "IsAttesting", "DecodeSSVMessage", "Lock", "Lock",
       "validateConsensusMessage", "validatePartialSignatureMessage"] ∧
    Gen.calls_val_validateConsensusMessage =
      ["validateSignatureFormat", "validQBFTMsgType", "maxRound", "validateSlotTime", "validConsensusSigners",
       "GetSlotStartTime", "After", "currentEstimatedRound", "HashDataRoot", "validateBeaconDuty", "consensusState",
       "validateSignerBehaviorConsensus", "signatureVerifier", "GetSignerState", "CreateSignerState", "ResetSlot",
       "ResetRound", "hasFullData", "RecordConsensusMessage"] ∧
    Gen.calls_val_validConsensusSigners = ["RoundRobinProposer", "HasQuorum", "IsSorted", "commonSignerValidation"] ∧
    Gen.calls_val_commonSignerValidation = ["ContainsFunc", "containsSignerFunc"] ∧
    Gen.calls_val_validateSignerBehaviorConsensus =
      ["GetSignerState", "validateJustifications", "EstimatedEpochAtSlot", "EstimatedEpochAtSlot", "validateDutyCount",
       "hasFullData", "Equal", "maxMessageCounts", "ValidateConsensusMessage", "validateJustifications"] ∧
    Gen.calls_val_validateJustifications = ["GetPrepareJustifications", "GetRoundChangeJustifications", "IsProposalJustification"] ∧
    Gen.calls_val_validateBeaconDuty = ["EstimatedEpochAtSlot", "ValidatorDuty", "EstimatedSyncCommitteePeriodAtEpoch", "EstimatedEpochAtSlot", "Duty"] := by
  decide

theorem C09_tie_guard_order_partial_and_p2p :
    Gen.calls_val_validatePartialSignatureMessage =
      ["validPartialSigMsgType", "partialSignatureTypeMatchesRole", "earlyMessage", "validatePartialMessages", "consensusState",
       "GetSignerState", "validateSignerBehaviorPartial", "validateSignatureFormat", "signatureVerifier",
       "CreateSignerState", "ResetSlot", "RecordPartialSignatureMessage"] ∧
    Gen.calls_val_validateP2PMessage =
      ["EstimatedEpochAtSlot", "DecodeSignedSSVMessage", "verifySignature", "DecodeNetworkMsg", "GetTopicBaseName",
       "ValidatorTopicID", "validateSSVMessage"] ∧
    Gen.calls_val_verifySignature = ["GetOperatorData", "PublicKeyFromString", "Verify"] ∧
    Gen.calls_val_ValidatePubsubMessage = ["validateP2PMessage", "Reject"] := by decide

/-- the limits and comparison operators of the per-signer counters: limits are all 1 (`maxMessageCounts`), the consensus
    check uses `>=`, the decided limit is the translated kernel N·(f+1) -/
theorem C09_tie_limits :
    Gen.lits_val_maxMessageCounts = ["1", "1", "1", "1", "1", "1"] ∧
    Gen.lits_val_ValidateConsensusMessage[0]? = some ">=" ∧ Gen.lits_val_ValidateConsensusMessage[2]? = some ">=" ∧
    Gen.lits_val_ValidateConsensusMessage[4]? = some "==" ∧ Gen.lits_val_ValidateConsensusMessage[6]? = some ">=" ∧
    Gen.lits_val_ValidateConsensusMessage[8]? = some ">" ∧ Gen.lits_val_ValidateConsensusMessage[10]? = some ">=" ∧
    Gen.lits_val_ValidateConsensusMessage[12]? = some ">=" ∧
    Gen.lits_val_validateDutyCount.take 3 = ["u!", "++", ">="] ∧
    Gen.lits_val_maxRound = ["12", "6", "0", "\"unknown role\""] ∧
    Gen.lits_val_lateMessage = ["+", "1", "+", "32", "0", "+"] ∧
    Gen.lits_val_earlyMessage = [">", "+", "1", "u-"] ∧
    Gen.val_maxDutiesPerEpoch = 2 ∧ Gen.val_allowedRoundsInFuture = 1 ∧ Gen.val_lateSlotAllowance = 2 ∧
    Gen.val_lateMessageMargin = 3000000000 ∧ Gen.val_clockErrorTolerance = 50000000 ∧
    Gen.val_QuickTimeoutThreshold = 8 ∧ Gen.val_QuickTimeout = 2000000000 ∧ Gen.val_SlowTimeout = 120000000000 := by decide

/-! ## accept ⇒ rules -/

/-- every accepted message is for a known, non-liquidated validator with beacon metadata that is attesting (or pending
    with a reached activation epoch), on the right network domain, with a valid role and key; it is a consensus or a
    partial-signature message (never an event / DKG / unknown / undecodable one) of admissible size -/
theorem C09_accept_known_active_validator (x : Ctx) (st : State) (i : Input) (h : (validate x st i).2 = .accept) :
    (∃ sh, i.share = some sh ∧ sh.liquidated = false ∧ sh.hasMeta = true ∧ isAttesting sh i.wallEpoch = true) ∧
    i.domainOk = true ∧ validRole i.role = true ∧ i.pkOk = true ∧ i.dataLen ≠ 0 ∧ i.dataLen ≤ Gen.val_maxMessageSize ∧
    ((∃ m, i.body = .consensus m) ∨ (∃ m, i.body = .partialSig m ∧ i.dataLen ≤ Gen.val_maxPartialSignatureMsgSize)) := by
  obtain ⟨hpre, sh, hsh, hb⟩ := accept_cases x st i h
  obtain ⟨a1, a2, a3, a4, a5, a6⟩ := preChecks_ok_spec i hpre
  refine ⟨a6, a3, a4, a5, a1, a2, ?_⟩
  rcases hb with ⟨m, hm, _, _⟩ | ⟨m, hm, hl, _⟩
  · exact Or.inl ⟨m, hm⟩
  · exact Or.inr ⟨m, hm, hl⟩

/-- the operator envelope signature: an accepted message was either validated before the fork (no verifier) or its RSA
    signature by a registered operator over exactly the payload verified -/
theorem C09_accept_operator_signature (x : Ctx) (st : State) (i : Input) (h : (validate x st i).2 = .accept) :
    i.envSig = .none ∨ i.envSig = .valid := by
  obtain ⟨_, sh, _, hb⟩ := accept_cases x st i h
  rcases hb with ⟨m, _, _, hok⟩ | ⟨m, _, _, hok⟩
  · exact envSigCheck_ok_spec _ hok.envOk
  · exact envSigCheck_ok_spec _ hok.envOk

/-- pubsub entry point: accepted ⇒ published on the validator's topic, non-empty, within the size limit, decodable,
    and — once signed envelopes are active — carrying a decodable envelope whose signature verified -/
theorem C09_p2p_accept_topic_and_signature (x : Ctx) (st : State) (p : P2PInput) (h : (validateP2P x st p).2 = .accept) :
    p.topicOk = true ∧ p.netDecodeOk = true ∧ p.payloadLen ≠ 0 ∧ p.payloadLen ≤ maxEncodedMsgSize ∧
    (forkActive x.cfg p.inner.now = true → p.signedDecodeOk = true ∧ p.sig = .valid) := by
  unfold validateP2P at h
  simp only at h
  split at h
  · rename_i e he
    have := (ofChk_accept _).mp h
    cases this
  · rename_i hok
    have hall := (firstFail_ok_iff _).mp hok
    simp only [List.forall_mem_cons, List.not_mem_nil, false_imp_iff, implies_true, and_true] at hall
    obtain ⟨h1, h2, h3, h4, h5⟩ := hall
    have h1' := (rejectIf_ok_iff _ _).mp h1
    have h2' := (rejectIf_ok_iff _ _).mp h2
    have h3' := (rejectIf_ok_iff _ _).mp h3
    have h4' := (rejectIf_ok_iff _ _).mp h4
    have h5' := (rejectIf_ok_iff _ _).mp h5
    refine ⟨by simpa using h5', by simpa using h4', by simpa using h2', by simpa using h3', ?_⟩
    intro hf
    have hs := C09_accept_operator_signature x st _ h
    simp only [hf, if_true] at hs
    rw [hf] at h1'
    refine ⟨by simpa using h1', ?_⟩
    cases hsig : p.sig <;> rw [hsig] at hs <;> simp [SigResult.toEnv] at hs ⊢

/-- accepted consensus message: its guards, for use below -/
theorem C09_accept_consensus_guards (x : Ctx) (st : State) (i : Input) (m : QMsg) (hb : i.body = .consensus m)
    (h : (validate x st i).2 = .accept) : ∃ sh, i.share = some sh ∧ ConsensusOk x st i sh m := by
  obtain ⟨_, sh, hsh, hc⟩ := accept_cases x st i h
  rcases hc with ⟨m', hm', _, hok⟩ | ⟨m', hm', _, _⟩
  · rw [hb] at hm'; cases hm'; exact ⟨sh, hsh, hok⟩
  · rw [hb] at hm'; cases hm'

/-- signers: non-empty, STRICTLY increasing (sorted and pairwise distinct), every one a non-zero committee member -/
theorem C09_accept_signers_wellformed (x : Ctx) (st : State) (i : Input) (m : QMsg) (hb : i.body = .consensus m)
    (h : (validate x st i).2 = .accept) :
    ∃ sh, i.share = some sh ∧ m.signers ≠ [] ∧ m.signers.Pairwise (· < ·) ∧ ∀ s ∈ m.signers, s ≠ 0 ∧ s ∈ sh.committee := by
  obtain ⟨sh, hsh, hok⟩ := C09_accept_consensus_guards x st i m hb h
  exact ⟨sh, hsh, validConsensusSigners_spec sh m hok.signersOk⟩

/-- exactly one signer, unless it is a commit signed by at least a quorum and at most the whole committee -/
theorem C09_accept_signer_count (x : Ctx) (st : State) (i : Input) (m : QMsg) (hb : i.body = .consensus m)
    (h : (validate x st i).2 = .accept) :
    ∃ sh, i.share = some sh ∧ (m.signers.length = 1 ∨
      (m.mtype = Gen.val_CommitMsgType ∧ sh.quorum ≤ m.signers.length ∧ m.signers.length ≤ sh.committee.length)) := by
  obtain ⟨sh, hsh, hok⟩ := C09_accept_consensus_guards x st i m hb h
  exact ⟨sh, hsh, (signersShape_spec sh m (validConsensusSigners_shape sh m hok.signersOk)).1⟩

/-- a proposal is signed by the round-robin leader of its (height, round), and by nobody else -/
theorem C09_accept_proposal_from_leader (x : Ctx) (st : State) (i : Input) (m : QMsg) (hb : i.body = .consensus m)
    (hp : m.mtype = Gen.val_ProposalMsgType) (h : (validate x st i).2 = .accept) :
    ∃ sh leader, i.share = some sh ∧ m.signers = [leader] ∧ roundRobinProposer sh.committee m.height m.round = .ok leader := by
  obtain ⟨sh, hsh, hok⟩ := C09_accept_consensus_guards x st i m hb h
  obtain ⟨hcnt, hlead⟩ := signersShape_spec sh m (validConsensusSigners_shape sh m hok.signersOk)
  have hone : m.signers.length = 1 := by
    rcases hcnt with h1 | ⟨h2, _, _⟩
    · exact h1
    · rw [hp] at h2; cases h2
  match hs : m.signers, hone with
  | [s], _ => exact ⟨sh, s, hsh, rfl, hlead hp s hs⟩

/-- any attached full data hashes to the root — for EVERY message type (prepare and commit included since af0324594) -/
theorem C09_accept_full_data_matches_root (x : Ctx) (st : State) (i : Input) (m : QMsg) (hb : i.body = .consensus m)
    (h : (validate x st i).2 = .accept) : ∀ d, m.fullData = some d → d = m.root := by
  obtain ⟨sh, _, hok⟩ := C09_accept_consensus_guards x st i m hb h
  exact hok.hashOk

/-- the regression witness of af0324594 inside the model: a prepare whose full data does not hash to its root is rejected -/
def prepare1 : QMsg :=
  { mtype := 1, height := 32000, round := 1, root := 1, fullData := none, signers := [2], sigLen := 96, sigZero := false,
    pjMalformed := false, pjLen := 0, rcjMalformed := false, rcjLen := 0, justOk := false }
def t0 : Int := 1616508000 + 12 * 32000 + 5

theorem C09_prepare_with_wrong_full_data_rejected :
    (validate ctx0 State.empty (inputAt { prepare1 with fullData := some 2 } t0)).2 = .reject .InvalidHash := by decide

example : (validate ctx0 State.empty (inputAt prepare1 t0)).2 = .accept := by decide

/-- non-vacuity of the clause theorems' hypotheses: an accepted proposal of the leader (slot 32000, round 1, committee of
    four: operator 1) and an accepted decided message signed by a quorum -/
example : (validate ctx0 State.empty (inputAt { prepare1 with mtype := 0, signers := [1], root := 5, fullData := some 5, justOk := true } t0)).2 = .accept := by decide
example : (validate ctx0 State.empty (inputAt { prepare1 with mtype := 2, signers := [1, 2, 4], root := 5, fullData := some 5 } t0)).2 = .accept := by decide
example : (validate ctx0 State.empty (inputAt { prepare1 with mtype := 0, signers := [2], root := 5, fullData := some 5, justOk := true } t0)).2
    = .reject .SignerNotLeader := by decide

/-! ## slot and round windows -/

/-- the window theorems' side conditions hold for the test network and a clock five seconds into slot 32000 -/
example : Cfg12 praterCfg := ⟨rfl, by decide, by decide, by decide⟩
example : RealisticClock praterCfg (GoTime.unix t0) := ⟨by decide, by decide, by decide, by decide⟩
example : curSlot praterCfg (GoTime.unix t0) = 32000 := by decide
example : highestRoundSpec praterCfg 32000 (GoTime.unix t0) = 4 := by decide

/-- SLOT WINDOW (consensus messages): on a 12-second-slot network and with the node's clock between genesis and the
    year 2242, an accepted consensus message is for a slot that has started (not after the clock's slot) and is at most
    `ttl` slots old — ttl = 34 for attester / aggregator, 3 for proposer / sync committee roles -/
theorem C09_accept_slot_window (x : Ctx) (hc : Cfg12 x.cfg) (st : State) (i : Input) (m : QMsg) (hb : i.body = .consensus m)
    (hclock : RealisticClock x.cfg i.now) (h : (validate x st i).2 = .accept) :
    (m.height : Int) ≤ curSlot x.cfg i.now ∧
    ∃ ttl, lateTtl i.role = some ttl ∧ (ttl = 3 ∨ ttl = 34) ∧ curSlot x.cfg i.now ≤ (m.height : Int) + ttl := by
  obtain ⟨sh, _, hok⟩ := C09_accept_consensus_guards x st i m hb h
  obtain ⟨hne, hnl⟩ := validateSlotTime_ok_spec _ _ _ _ hok.slotTimeOk
  have hslot := not_early_spec x.cfg hc m.height i.now hclock hne
  have hrole := (C09_accept_known_active_validator x st i h).2.2.1
  obtain ⟨ttl, ht, hle, hcase⟩ := lateTtl_cases i.role hrole hok.roleOk
  exact ⟨hslot, ttl, ht, hcase, not_late_spec x.cfg hc m.height i.role ttl i.now hclock hslot ht hle hnl⟩

/-- the regression witness of 635251de7 inside the model: a height of current slot + 2^62 (whose start time wraps around
    to the current slot's) is now turned down as an early message -/
theorem C09_slot_wraparound_now_refused :
    (validate ctx0 State.empty (inputAt { prepare1 with height := 32000 + 4611686018427387904 } t0)).2 = .ignore .EarlyMessage := by decide

/-- ROUND WINDOW: round ≥ 1, at most the role's maximum (12 attester / aggregator, 6 proposer / sync roles), and at most
    one round beyond the round the validator estimates from the time since the slot started (2-second rounds up to
    round 8, then 2-minute rounds) -/
theorem C09_accept_round_window (x : Ctx) (hc : Cfg12 x.cfg) (st : State) (i : Input) (m : QMsg) (hb : i.body = .consensus m)
    (hclock : RealisticClock x.cfg i.now) (h : (validate x st i).2 = .accept) :
    1 ≤ m.round ∧ (∃ mx, maxRound i.role = .ok mx ∧ m.round ≤ mx ∧ mx ≤ 12) ∧
    (m.round : Int) ≤ highestRoundSpec x.cfg m.height i.now := by
  obtain ⟨sh, _, hok⟩ := C09_accept_consensus_guards x st i m hb h
  obtain ⟨hne, _⟩ := validateSlotTime_ok_spec _ _ _ _ hok.slotTimeOk
  have hslot := not_early_spec x.cfg hc m.height i.now hclock hne
  obtain ⟨r1, r2⟩ := roundWindow_spec x.cfg hc m i.now hclock hslot hok.roundWindowOk
  obtain ⟨mx, hmx, hle⟩ := hok.maxRoundOk
  have hrole := (C09_accept_known_active_validator x st i h).2.2.1
  obtain ⟨mx', hmx', hb12⟩ := maxRound_of_validRole i.role hrole
  rw [hmx] at hmx'; cases hmx'
  exact ⟨r1, ⟨mx, hmx, hle, hb12⟩, r2⟩

/-- duties: a proposer-role message needs the validator's proposer duty at that slot in the duty store, a sync-committee
    role message the validator's sync-committee duty of that period -/
theorem C09_accept_duty (x : Ctx) (st : State) (i : Input) (m : QMsg) (hb : i.body = .consensus m)
    (h : (validate x st i).2 = .accept) :
    ∃ sh, i.share = some sh ∧
      (i.role = Gen.val_BNRoleProposer → x.duties.proposer.contains ((epochAtSlot x.cfg m.height).toNat, m.height, sh.index) = true) ∧
      ((i.role = Gen.val_BNRoleSyncCommittee ∨ i.role = Gen.val_BNRoleSyncCommitteeContribution) →
        x.duties.sync.contains ((periodAtEpoch x.cfg (epochAtSlot x.cfg m.height)).toNat, sh.index) = true) := by
  obtain ⟨sh, hsh, hok⟩ := C09_accept_consensus_guards x st i m hb h
  exact ⟨sh, hsh, validateBeaconDuty_spec x i.role m.height sh hok.dutyOk⟩

/-- justifications: decodable; prepare justifications only on proposals, round-change justifications only on proposals and
    round changes; a proposal's justifications satisfy `instance.IsProposalJustification` (abstract) -/
theorem C09_accept_justifications (x : Ctx) (st : State) (i : Input) (m : QMsg) (hb : i.body = .consensus m)
    (h : (validate x st i).2 = .accept) :
    m.pjMalformed = false ∧ m.rcjMalformed = false ∧ (m.mtype ≠ Gen.val_ProposalMsgType → m.pjLen = 0) ∧
    (m.mtype ≠ Gen.val_ProposalMsgType → m.mtype ≠ Gen.val_RoundChangeMsgType → m.rcjLen = 0) ∧
    (m.mtype = Gen.val_ProposalMsgType → m.justOk = true) := by
  obtain ⟨sh, _, hok⟩ := C09_accept_consensus_guards x st i m hb h
  obtain ⟨_, hne, _⟩ := validConsensusSigners_spec sh m hok.signersOk
  cases hsg : m.signers with
  | nil => exact absurd hsg (validConsensusSigners_nonempty sh m hok.signersOk)
  | cons s rest =>
    have hbeh := hok.behaviorOk s (by rw [hsg]; exact List.mem_cons_self)
    cases hst : st (i.vid, i.role, s) with
    | none =>
      rw [hst] at hbeh
      exact validateJustifications_spec m hbeh
    | some ss =>
      rw [hst] at hbeh
      exact validateJustifications_spec m (behavior_some_spec x.cfg sh i.role m ss hbeh).2.2.2

/-! ## per-signer limits -/

/-- no going back: for every signer of an accepted message that already has an entry, (slot, round) of the message is
    not behind the entry's; if it is the same (slot, round) the counter of this message kind was still below its limit
    and a stored proposal data, if the message carries full data, is the same data -/
theorem C09_accept_signer_monotone (x : Ctx) (st : State) (i : Input) (m : QMsg) (hb : i.body = .consensus m)
    (h : (validate x st i).2 = .accept) :
    ∀ s ∈ m.signers, ∀ ss, st (i.vid, i.role, s) = some ss →
      lexLe (ss.slot, ss.round) (m.height, m.round) ∧
      ((m.height = ss.slot ∧ m.round = ss.round) →
        (msgKind m ≠ 4 → kindCount (msgKind m) ss.counts = 0) ∧
        ¬ (hasFullData m = true ∧ ss.proposalData.isSome = true ∧ ss.proposalData ≠ m.fullData)) := by
  obtain ⟨sh, _, hok⟩ := C09_accept_consensus_guards x st i m hb h
  intro s hs ss hss
  have hbeh := hok.behaviorOk s hs
  rw [hss] at hbeh
  obtain ⟨h1, h2, _, _⟩ := behavior_some_spec x.cfg sh i.role m ss hbeh
  refine ⟨h1, fun heq => ?_⟩
  obtain ⟨c1, c2⟩ := h2 heq
  exact ⟨fun hk => countsValidate_spec ss.counts m _ hok.typeOk (validConsensusSigners_nonempty sh m hok.signersOk) c1 hk, c2⟩

/-- TRACE INVARIANT (induction over the history): along ANY history of validation calls from the empty state — any mix
    of validators, roles, message kinds, honest or not, accepted or not — at most ONE proposal, ONE prepare, ONE
    (single-signer) commit and ONE round change is accepted per (validator, role, signer, slot, round) -/
theorem C09_per_signer_round_limits (x : Ctx) (kind : Nat) (hk : kind ≤ 3) (vid role s slot round : Nat) (hist : List Input) :
    countAcc x (isKindAt kind vid role s slot round) State.empty hist ≤ 1 :=
  (countAcc_le x kind vid role s slot round (by omega) hist State.empty).2

/-- … from any state whatsoever, and zero once the signer's entry has moved past (slot, round) or already counted one -/
theorem C09_per_signer_round_limits_any_state (x : Ctx) (kind : Nat) (hk : kind ≤ 3) (vid role s slot round : Nat)
    (hist : List Input) (st : State) :
    countAcc x (isKindAt kind vid role s slot round) st hist ≤ 1 ∧
    (usedUp kind vid role s slot round st → countAcc x (isKindAt kind vid role s slot round) st hist = 0) :=
  ⟨(countAcc_le x kind vid role s slot round (by omega) hist st).2, (countAcc_le x kind vid role s slot round (by omega) hist st).1⟩

/-- no second proposal — with different data or not — by the same signer in the same (slot, round) -/
theorem C09_no_second_proposal (x : Ctx) (vid role s slot round : Nat) (hist : List Input) :
    countAcc x (isKindAt 0 vid role s slot round) State.empty hist ≤ 1 :=
  C09_per_signer_round_limits x 0 (by omega) vid role s slot round hist

/-- non-vacuity: a history in which the second, identical prepare of the same signer is refused -/
example : countAcc ctx0 (isKindAt 1 1 0 2 32000 1) State.empty [inputAt prepare1 t0, inputAt prepare1 (t0 + 1)] = 1 := by decide
example : (validate ctx0 (validate ctx0 State.empty (inputAt prepare1 t0)).1 (inputAt prepare1 (t0 + 1))).2
    = .ignore .TooManySameTypeMessagesPerRound := by decide

/-! ## concurrency: calls for different ids commute -/

/-- validation calls for different (validator, role) ids read and write disjoint parts of the state: both orders give
    the same two verdicts and the same final state. Together with the per-message-id mutex (read-check-update of one
    id is atomic) every concurrent execution equals a sequential one. -/
theorem C09_validate_commutes_across_ids (x : Ctx) (st : State) (a b : Input) (hid : a.vid ≠ b.vid ∨ a.role ≠ b.role) :
    (validate x (validate x st a).1 b).2 = (validate x st b).2 ∧
    (validate x (validate x st b).1 a).2 = (validate x st a).2 ∧
    (validate x (validate x st a).1 b).1 = (validate x (validate x st b).1 a).1 :=
  validate_commutes x st a b hid

/-- the state changes only when the verdict is accept (a refused message leaves no trace) -/
theorem C09_refused_message_leaves_state (x : Ctx) (st : State) (i : Input) (h : (validate x st i).2 ≠ .accept) :
    (validate x st i).1 = st := validate_state_of_not_accept x st i h

/-! ## large committees: every member's entry survives whatever the others send

The state is a total map keyed by (validator, role, signer): nothing bounds the number of signers with an entry. A committee of
13 with every operator active in one slot and round, then the leader's second proposal with different data. -/

def share13 : Share :=
  { share4 with committee := [1, 2, 3, 4, 5, 6, 7, 8, 9, 10, 11, 12, 13], quorum := 9 }
def inputAt13 (m : QMsg) (unixNow : Int) : Input := { inputAt m unixNow with share := some share13 }
/-- slot 32000, round 1, 13 operators: the leader is operator ((32000 mod 13) + 1 − 1) mod 13 + 1 = 8 -/
def proposal13 (data : Nat) : QMsg :=
  { mtype := 0, height := 32000, round := 1, root := data, fullData := some data, signers := [8], sigLen := 96, sigZero := false,
    pjMalformed := false, pjLen := 0, rcjMalformed := false, rcjLen := 0, justOk := true }
def prepare13 (op : Nat) : QMsg := { prepare1 with signers := [op] }
def history13 : List Input :=
  inputAt13 (proposal13 1) t0 :: ((List.range 13).map fun i => inputAt13 (prepare13 (i + 1)) t0) ++
    [inputAt13 (proposal13 2) t0, inputAt13 (prepare13 1) t0, inputAt13 (prepare13 13) t0]

def verdictsOf (x : Ctx) : State → List Input → List Outcome
  | _, [] => []
  | st, i :: rest => (validate x st i).2 :: verdictsOf x (validate x st i).1 rest

/-- REGRESSION (seeded change Y-m04): after the proposal and the prepares of all 13 operators, the leader's second proposal
    with different data is rejected and the first and the last operator's second prepare are refused -/
theorem C09_large_committee_limits_hold :
    verdictsOf ctx0 State.empty history13 =
      List.replicate 14 .accept ++ [.reject .DuplicatedProposalWithDifferentData,
        .ignore .TooManySameTypeMessagesPerRound, .ignore .TooManySameTypeMessagesPerRound] := by decide

/-! ## partial-signature messages -/

def partial1 : PMsg :=
  { ptype := 0, slot := 18446744073709551615, signer := 2, msgs := [{ signer := 2, root := 7, sigLen := 96, sigZero := false }],
    sigLen := 96, sigZero := false }
def pinput (m : PMsg) : Input :=
  { vid := 1, role := 0, dataLen := 300, domainOk := true, pkOk := true, share := some share4, body := .partialSig m,
    envSig := .none, now := GoTime.unix t0, wallEpoch := 1000 }

/-- FUTURE side of the slot window (repaired by 6c728adc1): an accepted partial-signature message is for a slot that is
    not after the slot the receiver's clock is in — the same bound as for consensus messages -/
theorem C09_partial_future_slot_refused (x : Ctx) (st : State) (i : Input) (m : PMsg) (hc : Cfg12 x.cfg)
    (hr : RealisticClock x.cfg i.now) (hb : i.body = .partialSig m) (h : (validate x st i).2 = .accept) :
    (m.slot : Int) ≤ curSlot x.cfg i.now := by
  obtain ⟨_, sh, _, hcs⟩ := accept_cases x st i h
  rcases hcs with ⟨m', hm', _, _⟩ | ⟨m', hm', _, hok⟩
  · rw [hb] at hm'; cases hm'
  · rw [hb] at hm'; cases hm'
    exact not_early_spec x.cfg hc m.slot i.now hr hok.notEarly

/-- the former witness (post-consensus partial signature message for slot 2^64 − 1, and for the slot after the
    current one) is now turned down as early, leaves no trace, and the signer's honest prepare for the current slot is
    accepted afterwards -/
theorem C09_partial_future_slot_now_early :
    (validate ctx0 State.empty (pinput partial1)).2 = .ignore .EarlyMessage ∧
    (validate ctx0 State.empty (pinput { partial1 with slot := 32001 })).2 = .ignore .EarlyMessage ∧
    (validate ctx0 State.empty (pinput { partial1 with slot := 32000 })).2 = .accept ∧
    (validate ctx0 (validate ctx0 State.empty (pinput partial1)).1 (inputAt prepare1 t0)).2 = .accept := by decide

/-- guard list of `validatePartialSignatureMessage` BEFORE repair 6c728adc1: no slot guard at all -/
def partialChecksOld (x : Ctx) (st : State) (i : Input) (sh : Share) (m : PMsg) : List Chk :=
  (partialChecks x st i sh m).eraseIdx 2

/-- REGRESSION lemma on the pre-repair guard list (the former known finding `C09/partial-sig-slot-window-unchecked`):
    without the early-message guard every guard passes for the slot-2^64−1 message, the state update pins the signer's
    entry to that slot, and the signer's honest prepare for the current slot is then ignored -/
theorem C09_regression_unguarded_future_partial_mutes_signer :
    firstFail (partialChecksOld ctx0 State.empty (pinput partial1) share4 partial1) = .ok () ∧
    (match update ctx0 State.empty (pinput partial1) with
     | .ok st' => (validate ctx0 st' (inputAt prepare1 t0)).2
     | .error _ => .accept) = .ignore .SlotAlreadyAdvanced := by decide

/-- after an accepted partial-signature message the signer's entry sits exactly at the message's slot (the guard
    `slot ≥ entry slot` passed, the update moves the entry up to the slot) -/
theorem C09_partial_accept_entry_at_slot (x : Ctx) (st : State) (i : Input) (m : PMsg) (hb : i.body = .partialSig m)
    (h : (validate x st i).2 = .accept) :
    ∃ ss', (validate x st i).1 (i.vid, i.role, m.signer) = some ss' ∧ ss'.slot = m.slot := by
  have hck := (validate_accept_iff x st i).mp h
  have hupd := validate_state_of_accept x st i hck
  obtain ⟨_, sh, _, hcs⟩ := accept_cases x st i h
  rcases hcs with ⟨m', hm', _, _⟩ | ⟨m', hm', _, hok⟩
  · rw [hb] at hm'; cases hm'
  · rw [hb] at hm'; cases hm'
    unfold update at hupd
    rw [hb] at hupd
    simp only at hupd
    cases hu : updPartial x.cfg m (st (i.vid, i.role, m.signer)) with
    | error e => rw [hu] at hupd; cases hupd
    | ok ss' =>
      rw [hu] at hupd
      simp only at hupd
      have hst : (validate x st i).1 = st.set (i.vid, i.role, m.signer) ss' := by
        injection hupd with h'; exact h'.symm
      refine ⟨ss', by rw [hst]; exact State.set_same _ _ _, ?_⟩
      have hle : (Option.getD (st (i.vid, i.role, m.signer)) {}).slot ≤ m.slot := by
        cases hs : st (i.vid, i.role, m.signer) with
        | none => exact Nat.zero_le _
        | some ss =>
          have := hok.behaviorOk
          rw [hs] at this
          exact behaviorPartial_some_spec x.cfg i.role m ss this
      unfold updPartial at hu
      simp only at hu
      split at hu
      · cases hu
        simp only
        by_cases hgt : m.slot > (Option.getD (st (i.vid, i.role, m.signer)) {}).slot
        · simp [hgt, SignerState.resetSlot]
        · simp only [hgt, if_false]; omega
      · cases hu

/-- NO MUTING any more: an accepted partial-signature message never leaves the signer's entry beyond the slot the
    receiver's clock is in, so a message of that signer for the current (or any later) slot is never turned down as a
    slot regression because of it -/
theorem C09_partial_accept_cannot_pin_future (x : Ctx) (st : State) (i : Input) (m : PMsg) (hc : Cfg12 x.cfg)
    (hr : RealisticClock x.cfg i.now) (hb : i.body = .partialSig m) (h : (validate x st i).2 = .accept) :
    ∃ ss', (validate x st i).1 (i.vid, i.role, m.signer) = some ss' ∧ (ss'.slot : Int) ≤ curSlot x.cfg i.now := by
  obtain ⟨ss', h1, h2⟩ := C09_partial_accept_entry_at_slot x st i m hb h
  exact ⟨ss', h1, by rw [h2]; exact C09_partial_future_slot_refused x st i m hc hr hb h⟩

/-- FULL clause (what the property asks — "fits the slot window of its role"): an accepted partial-signature message
    of a role with a time-to-live is for a slot inside [current − ttl, current] -/
def C09_partial_slot_window_full : Prop :=
  ∀ (x : Ctx) (st : State) (i : Input) (m : PMsg) (ttl : Nat), Cfg12 x.cfg → RealisticClock x.cfg i.now →
    i.body = .partialSig m → lateTtl i.role = some ttl → (validate x st i).2 = .accept →
    (m.slot : Int) ≤ curSlot x.cfg i.now ∧ curSlot x.cfg i.now ≤ (m.slot : Int) + ttl

/-- a post-consensus partial signature message of an attester duty that ended 1000 slots ago (ttl: 34 slots) -/
def partialLate : PMsg := { partial1 with slot := 31000 }

/-- still REFUTED on this tree, on the LATE side only: `validatePartialSignatureMessage` calls `earlyMessage` but
    neither `lateMessage` nor `validateSlotTime` (tie: C09_tie_guard_order_partial_and_p2p). Witness: the message for a
    slot that ended 1000 slots ago is accepted by a peer without a newer entry for the signer (reproduced on the real
    validator: known finding `C09/partial-sig-late-slot-unchecked`) -/
theorem C09_partial_slot_window_full_refuted : ¬ C09_partial_slot_window_full := by
  intro hfull
  have hc : Cfg12 ctx0.cfg := ⟨rfl, by decide, by decide, by decide⟩
  have hclk : RealisticClock ctx0.cfg (pinput partialLate).now := by
    refine ⟨by decide, by decide, by decide, by decide⟩
  have hacc : (validate ctx0 State.empty (pinput partialLate)).2 = .accept := by decide
  have := (hfull ctx0 State.empty (pinput partialLate) partialLate 34 hc hclk rfl (by decide) hacc).2
  revert this
  decide

/-- what the late message can and cannot do: the signer's honest traffic for the current slot is still accepted after
    it (slots only move forward), and replaying it is refused once the entry has moved on -/
theorem C09_partial_late_slot_is_harmless_to_the_signer :
    (validate ctx0 (validate ctx0 State.empty (pinput partialLate)).1 (inputAt prepare1 t0)).2 = .accept ∧
    (validate ctx0 (validate ctx0 State.empty (inputAt prepare1 t0)).1 (pinput partialLate)).2 = .ignore .SlotAlreadyAdvanced := by
  decide

/-- PARTIAL (what the code does enforce for an accepted partial-signature message): known type matching the role,
    signer a non-zero committee member, at least one message, all inner messages by the same signer with well-formed
    non-zero signatures and pairwise distinct signing roots, well-formed non-zero outer signature, operator signature as
    for consensus messages, the slot has started (C09_partial_future_slot_refused) and is not behind the signer's entry.
    Missing w.r.t. the property: the LATE side of the slot window. -/
theorem C09_partial_accept_sound_partial (x : Ctx) (st : State) (i : Input) (m : PMsg) (hb : i.body = .partialSig m)
    (h : (validate x st i).2 = .accept) :
    ∃ sh, i.share = some sh ∧ validPartialSigMsgType m.ptype = true ∧ partialTypeMatchesRole m.ptype i.role = .ok true ∧
      m.signer ≠ 0 ∧ m.signer ∈ sh.committee ∧ m.msgs ≠ [] ∧
      (∀ it ∈ m.msgs, it.signer = m.signer ∧ it.sigLen = 96 ∧ it.sigZero = false) ∧ (m.msgs.map (·.root)).Nodup ∧
      signatureFormat m.sigLen m.sigZero = .ok () ∧ (i.envSig = .none ∨ i.envSig = .valid) ∧
      (∀ ss, st (i.vid, i.role, m.signer) = some ss → ss.slot ≤ m.slot) := by
  obtain ⟨_, sh, hsh, hc⟩ := accept_cases x st i h
  rcases hc with ⟨m', hm', _, _⟩ | ⟨m', hm', _, hok⟩
  · rw [hb] at hm'; cases hm'
  · rw [hb] at hm'; cases hm'
    obtain ⟨a, b, c⟩ := validatePartialMessages_spec sh m hok.messagesOk
    have hloop : partialItemLoop sh m.signer [] m.msgs = .ok () := by
      have := hok.messagesOk
      unfold validatePartialMessages at this
      exact (firstFail_ok_iff _).mp this _ (List.mem_cons_of_mem _ (List.mem_cons_of_mem _ List.mem_cons_self))
    obtain ⟨l1, l2⟩ := partialItemLoop_spec sh m.signer m.msgs [] hloop
    refine ⟨sh, hsh, hok.typeOk, hok.typeRoleOk, a, b, c, fun it hit => ⟨(l1 it hit).1, (l1 it hit).2.1, (l1 it hit).2.2.1⟩, l2,
      hok.sigOk, envSigCheck_ok_spec _ hok.envOk, ?_⟩
    intro ss hss
    have := hok.behaviorOk
    rw [hss] at this
    exact behaviorPartial_some_spec x.cfg i.role m ss this

end Ssv.Validation
