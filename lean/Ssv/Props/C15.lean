/-
C15 — A duty height once started or decided is never run again, even after restart.
Property theorems only (helper lemmas: Ssv/Proofs/Heights*.lean; model: Ssv/Model/Heights.lean).

All statements quantify over ALL histories `ops : List Op` of duty starts (attester-style `start`, two-phase
`begin`/`decide`), commit/decided messages of any height, round, root, signer list and validity (through the
controller or through the runner), compactions and restarts (each restart may pick full or light mode), from the
initial state of a full or a light node, with any quorum `q`.  No bound on anything.

Three clauses of the property:
  1. `C15_no_restart_of_old_height`   FALSE on this tree for full nodes (storage reload), see `_full_refuted`;
                                      proved for light nodes, for attester-style starts of slots ≠ 0 on every node,
                                      and in the weaker "never BELOW a seen height" form on every node.
  2. `C15_highest_survives_restart`   proved (all nodes), together with `C15_stored_highest_never_rerun`.
  3. `C15_highest_replaced_monotone`  FALSE on this tree (two different witnesses), see `_full_refuted*`;
                                      proved: height never decreases / record never lost; at the same height a
                                      replacement has strictly more signers than everything in its own (round, root)
                                      bucket of the live commit container, hence more than the replaced certificate
                                      whenever that has the same (round, root) and its round is not below State.Round.
-/
import Ssv.Proofs.HeightsTop
import Ssv.Proofs.HeightsRepaired

namespace Ssv.Heights

/-! ## ties to the regenerated facts -/

/-- constants the model imports -/
theorem C15_tie_constants :
    Gen.heights_InstanceContainerDefaultCapacity = 2 ∧ cap = Gen.heights_InstanceContainerDefaultCapacity ∧
    Gen.heights_FirstHeight = 0 ∧ Gen.heights_FirstRound = 1 ∧
    (newCtrl true).height = Gen.heights_FirstHeight ∧ (newInst 7).round = Gen.heights_FirstRound ∧
    Gen.heights_highestInstanceKey ≠ Gen.heights_instanceKey := by decide

/-- `Controller.SaveInstance` is where the controller package writes to the store (three Save* calls, in this order,
    selected by `fullNode` and `isHighest := msg.Height >= c.Height`); none of the other controller functions on the
    modelled paths touches the storage's Save*; `UponDecided` saves through `c.SaveInstance` after comparing with
    `LongestUniqueSignersForRoundAndRoot`; reads go through `GetInstance` / `GetHighestInstance` only -/
theorem C15_tie_controller_callsites :
    Gen.calls_heights_SaveInstance =
      ["GetStorage().SaveHighestAndHistoricalInstance", "GetStorage().SaveInstance", "GetStorage().SaveHighestInstance"] ∧
    Gen.lits_heights_SaveInstance = ["u&", ">="] ∧
    Gen.calls_heights_UponDecided =
      ["ValidateDecided", "errors.Wrap", "InstanceForHeight", "addNewInstance", "IsDecided",
       "LongestUniqueSignersForRoundAndRoot", "FindInstance", "c.SaveInstance", "NewDecidedHandler"] ∧
    Gen.calls_heights_StartNewInstance = ["FindInstance", "addAndStoreNewInstance", "forceStopAllInstanceExceptCurrent"] ∧
    Gen.calls_heights_UponExistingInstanceMsg = ["InstanceForHeight"] ∧
    Gen.calls_heights_ProcessMsg = ["BaseMsgValidation", "IsDecidedMsg", "UponDecided", "isFutureMessage", "UponExistingInstanceMsg"] ∧
    Gen.calls_heights_InstanceForHeight = ["FindInstance", "GetStorage().GetInstance"] ∧
    Gen.calls_heights_addAndStoreNewInstance = ["addNewInstance"] ∧
    Gen.calls_heights_LoadHighestInstance = ["getHighestInstance", "reset", "addNewInstance"] ∧
    Gen.calls_heights_getHighestInstance = ["GetStorage().GetHighestInstance", "Compact"] ∧
    Gen.calls_heights_OnTimeout = [] := by decide

/-- the container code: comparison / arithmetic skeleton of `addNewInstance` and `FindInstance` -/
theorem C15_tie_container :
    Gen.lits_heights_addNewInstance = ["==", "0", "0", "<", "==", "<", "==", "+", "1", "+", "1"] ∧
    Gen.lits_heights_FindInstance = ["!=", "=="] := by decide

/-- order facts the model relies on:
    * in `UponDecided` the only error that is RETURNED is the wrapped `ValidateDecided` error (one `errors.Wrap`, before
      anything else); a `SaveInstance` failure is logged, and the height bump / `NewDecidedHandler` follow the save block;
    * in `baseConsensusMsgProcessing` the runner's `SaveInstance` comes BEFORE the decided value is decoded and validated -/
theorem C15_tie_save_order :
    Gen.calls_heights_UponDecided.filter (· == "errors.Wrap") = ["errors.Wrap"] ∧
    Gen.calls_heights_UponDecided.head? = some "ValidateDecided" ∧
    (Gen.calls_heights_UponDecided.dropWhile (· != "c.SaveInstance")) = ["c.SaveInstance", "NewDecidedHandler"] ∧
    (Gen.calls_heights_baseConsensusMsgProcessing.dropWhile (· != "QBFTController.SaveInstance")) =
      ["QBFTController.SaveInstance", "decidedValue.Decode", "validateDecidedConsensusData"] := by decide

/-- the store compacts a copy before writing; `Validator.Start` loads the highest instance and sets the runner's
    highest decided slot; `baseStartNewDuty` = guard, new state, executeDuty; `decide` starts the instance and looks it up;
    the runner compacts after ProcessMsg and then saves through the controller's `SaveInstance` -/
theorem C15_tie_runner_store_callsites :
    Gen.calls_heights_store_saveInstance = ["CompactCopy", "save", "save"] ∧
    Gen.calls_heights_ValidatorStart = ["LoadHighestInstance", "SetHighestDecidedSlot"] ∧
    Gen.calls_heights_baseStartNewDuty = ["ShouldProcessDuty", "baseSetupForNewDuty", "executeDuty"] ∧
    Gen.calls_heights_decide = ["StartNewInstance", "InstanceForHeight"] ∧
    Gen.calls_heights_compactInstanceIfNeeded = ["FindInstance", "IsDecidedMsg", "Compact"] ∧
    Gen.calls_heights_baseConsensusMsgProcessing =
      ["ProcessMsg", "compactInstanceIfNeeded", "didDecideCorrectly", "FindInstance", "QBFTController.SaveInstance",
       "decidedValue.Decode", "validateDecidedConsensusData"] ∧
    Gen.calls_heights_attester_executeDuty = ["GetAttestationData", "decide"] := by decide

/-! ## clause 1 — no consensus start at or below a height already started or learned decided -/

/-- FULL STATEMENT (in-process): whenever an op starts consensus for `slot` (attester-style `start`, or the `decide`
    of a two-phase runner), `slot` is above every height started or learned decided since the last restart and above
    the stored highest height at that restart. -/
def C15_no_restart_of_old_height_full : Prop :=
  ∀ (full : Bool) (q : Nat) (ops : List Op) (op : Op) (slot : Nat),
    consensusStart (runSeen (init full q) [] ops).1 op = some slot →
    ∀ h ∈ (runSeen (init full q) [] ops).2, h < slot

/-- witness (full node): height 9 started; the decided message of height 5 arrives late — a full node files it in the
    historical store only; restart (nothing stored as highest → Height 0); a two-phase duty for slot 5 passes the guard;
    the decided message of height 5 is delivered again: `InstanceForHeight` reloads the instance from storage into a
    temporary object (not put into `StoredInstances`, not saved as highest), Height := 5; `decide` then starts an
    instance for height 5. -/
def witnessReload : List Op :=
  [.start 9, .decided 5 1 110 [1, 2, 3] true false, .restart true, .begin 5, .decided 5 1 110 [1, 2, 3] true false]

theorem C15_no_restart_of_old_height_full_refuted : ¬ C15_no_restart_of_old_height_full := by
  intro H
  have h := H true 3 witnessReload .decide 5 (by decide) 5 (by decide)
  omega

/-- the same defect reaches the attester-style atomic `StartNewDuty` only through the `Height != 0` exemption (slot 0) -/
example : consensusStart
      (runSeen (init true 3) [] [.start 3, .decided 0 1 100 [1, 2, 3] true false, .restart true,
        .decided 0 1 100 [1, 2, 3] true false]).1 (.start 0) = some 0 ∧
    0 ∈ (runSeen (init true 3) [] [.start 3, .decided 0 1 100 [1, 2, 3] true false, .restart true,
        .decided 0 1 100 [1, 2, 3] true false]).2 := by decide

/-- PARTIAL (a): on a light node (and every restart stays light) the full statement holds.
    Missing for full nodes: `InstanceForHeight`'s reload from storage creates an instance that is neither kept in
    `StoredInstances` nor saved as highest, so `StartNewInstance` does not see the height as existing. -/
theorem C15_no_restart_of_old_height_partial_light (q : Nat) (ops : List Op) (hl : LightOps ops) (op : Op) (slot : Nat)
    (hcs : consensusStart (runSeen (init false q) [] ops).1 op = some slot) :
    ∀ h ∈ (runSeen (init false q) [] ops).2, h < slot := by
  intro h hh
  have hinv : SInv (runSeen (init false q) [] ops).1 := by rw [runSeen_fst]; exact SInv.reach false q ops
  have hle : SeenLe (runSeen (init false q) [] ops).1 (runSeen (init false q) [] ops).2 :=
    SeenLe.runSeen (by intro x hx; simp at hx) ops
  have htop : SeenTop (runSeen (init false q) [] ops).1 (runSeen (init false q) [] ops).2 :=
    SeenTop.runSeen (SInv.init false q) (by intro x hx; simp at hx) ⟨rfl, by intro x hx; simp at hx⟩ ops hl
  obtain ⟨c', hst, _, _⟩ := consensusStart_ok hcs
  obtain ⟨h1, hnone, _⟩ := startNewInstance_ok hst
  have h2 := hle h hh
  by_cases heq : h = slot
  · have hc : h = (runSeen (init false q) [] ops).1.c.height := by omega
    have hat := htop.2 h hh hc
    unfold AtTop at hat
    rw [← hc, heq, hnone] at hat
    cases hat
  · omega

/-- non-vacuity of (a): a light node that restarted with highest 5 starts slot 6 -/
example : LightOps [.decided 5 1 110 [1, 2, 3] true false, .restart false] ∧
    consensusStart (runSeen (init false 3) [] [.decided 5 1 110 [1, 2, 3] true false, .restart false]).1 (.start 6) = some 6 ∧
    (runSeen (init false 3) [] [.decided 5 1 110 [1, 2, 3] true false, .restart false]).2 = [5] := by
  refine ⟨?_, by decide, by decide⟩
  intro op hop f hf
  simp at hop
  rcases hop with rfl | rfl
  · cases hf
  · cases hf; rfl

/-- PARTIAL (b): on EVERY node, an attester-style `StartNewDuty` (guard and consensus start in one call) for a slot
    other than 0 succeeds only above everything seen. (Slot 0 is exempted by `Height != 0` in `ShouldProcessDuty`.) -/
theorem C15_no_restart_of_old_height_partial_attester (full : Bool) (q : Nat) (ops : List Op) (slot : Nat) (h0 : slot ≠ 0)
    (hcs : consensusStart (runSeen (init full q) [] ops).1 (.start slot) = some slot) :
    ∀ h ∈ (runSeen (init full q) [] ops).2, h < slot := by
  intro h hh
  have hle : SeenLe (runSeen (init full q) [] ops).1 (runSeen (init full q) [] ops).2 :=
    SeenLe.runSeen (by intro x hx; simp at hx) ops
  obtain ⟨c', _, _, hg⟩ := consensusStart_ok hcs
  have hg' := hg rfl
  unfold guardRefuses at hg'
  have h2 := hle h hh
  by_cases hz : (runSeen (init full q) [] ops).1.c.height = 0
  · omega
  · have : ¬ slot ≤ (runSeen (init full q) [] ops).1.c.height := by
      intro hc
      simp [hc, hz] at hg'
    omega

example : consensusStart (runSeen (init true 3) [] [.start 4, .decided 6 2 112 [1, 2, 4] true true]).1 (.start 7) = some 7 := by
  decide

/-- PARTIAL (c): on EVERY node and for every kind of consensus start, the slot is never BELOW a seen height
    (`StartNewInstance` refuses `height < c.Height`); only equality can slip through, and only by the reload above. -/
theorem C15_no_restart_of_old_height_partial_not_below (full : Bool) (q : Nat) (ops : List Op) (op : Op) (slot : Nat)
    (hcs : consensusStart (runSeen (init full q) [] ops).1 op = some slot) :
    ∀ h ∈ (runSeen (init full q) [] ops).2, h ≤ slot := by
  intro h hh
  have hle : SeenLe (runSeen (init full q) [] ops).1 (runSeen (init full q) [] ops).2 :=
    SeenLe.runSeen (by intro x hx; simp at hx) ops
  obtain ⟨c', hst, _, _⟩ := consensusStart_ok hcs
  have := (startNewInstance_ok hst).1
  have := hle h hh
  omega

/-! ## clause 2 — the highest decided instance survives a restart -/

/-- a restart leaves the store untouched, and when a highest record exists the new process resumes with it:
    controller height, the loaded (compacted) instance as the only one in the container, the runner's highest decided
    slot, no running duty — for full and light mode alike, from ANY state -/
theorem C15_highest_survives_restart (s : State) (f : Bool) :
    (step s (.restart f)).1.s = s.s ∧
    ∀ a, s.s.highest = some a →
      (step s (.restart f)).1.c.height = a.inst.height ∧
      (step s (.restart f)).1.c.insts = [trim a.inst] ∧
      (step s (.restart f)).1.r.hds = a.inst.height ∧
      (step s (.restart f)).1.r.duty = none ∧
      (step s (.restart f)).2 = .loaded := by
  refine ⟨(restartStep_cs s f).2.1, ?_⟩
  intro a ha
  obtain ⟨h1, h2, _, h4⟩ := loadHighest_some (c := newCtrl f) ha
  show (restartStep s f).1.c.height = _ ∧ (restartStep s f).1.c.insts = _ ∧ (restartStep s f).1.r.hds = _ ∧
    (restartStep s f).1.r.duty = none ∧ (restartStep s f).2 = .loaded
  unfold restartStep
  simp only [h4]
  refine ⟨h1, h2, ?_⟩
  simp [newRunner]

example : (run (init false 3) [.decided 5 1 110 [1, 2, 3] true false]).s.highest =
    some ⟨⟨5, 1, true, false, [⟨1, 110, [1, 2, 3]⟩]⟩, ⟨1, 110, [1, 2, 3]⟩⟩ := by decide

/-- … and it still refuses older or equal duties: once a height is stored as highest, NO later history — with any
    number of further restarts, in either mode — ever starts consensus at or below it (attester-style or two-phase) -/
theorem C15_stored_highest_never_rerun (full : Bool) (q : Nat) (ops ops' : List Op) (op : Op) (a : Stored) (slot : Nat)
    (ha : (run (init full q) ops).s.highest = some a)
    (hcs : consensusStart (run (run (init full q) ops) ops') op = some slot) :
    a.inst.height < slot := by
  have inv := SInv.reach full q ops
  obtain ⟨b, hb, hab⟩ := run_highest_mono inv ha ops'
  have inv' : SInv (run (run (init full q) ops) ops') := inv.run ops'
  unfold SInv at inv'
  obtain ⟨c', hst, _, _⟩ := consensusStart_ok hcs
  obtain ⟨h1, hnone, _⟩ := startNewInstance_ok hst
  have h2 := inv'.le b hb
  by_cases heq : a.inst.height = slot
  · obtain ⟨i, rest, hl, hi, _⟩ := inv'.live b hb (by omega)
    have := (find_none_iff.mp hnone) i (by rw [hl]; simp)
    omega
  · omega

example : consensusStart (run (run (init true 3) [.decided 5 1 110 [1, 2, 3] true false]) [.restart false, .begin 8, .restart true])
    (.start 6) = some 6 := by decide

/-- FULL STATEMENT ("the highest decided instance" is what is stored): every valid decided message at or above the
    controller height ends up as the stored highest record (mechanism: "save as highest only if height >= current") -/
def C15_top_decided_is_stored_full : Prop :=
  ∀ (full : Bool) (q : Nat) (ops : List Op) (h r root : Nat) (sg : List Nat) (via : Bool),
    q ≤ sg.length → (run (init full q) ops).c.height ≤ h →
    ∃ b, (step (run (init full q) ops) (.decided h r root sg true via)).1.s.highest = some b ∧ b.inst.height = h

/-- false on full nodes, by the same reload: the future decided message of height 5 bumps Height to 5 but nothing is
    saved as highest (the save looks the instance up in `StoredInstances`, where the reloaded one is not) -/
theorem C15_top_decided_is_stored_full_refuted : ¬ C15_top_decided_is_stored_full := by
  intro H
  obtain ⟨b, hb, _⟩ := H true 3 [.start 9, .decided 5 1 110 [1, 2, 3] true false, .restart true] 5 1 110 [1, 2, 3] false
    (by decide) (by decide)
  have hn : (step (run (init true 3) [.start 9, .decided 5 1 110 [1, 2, 3] true false, .restart true])
      (.decided 5 1 110 [1, 2, 3] true false)).1.s.highest = none := by decide
  rw [hn] at hb
  cases hb

/-- PARTIAL: it holds — on histories without store-write failures, and for a message whose write does not fail —
    whenever the instance is not merely reloaded from storage, i.e. on every light node, and on a full node when the
    instance is in memory or the historical store has no record of that height -/
theorem C15_top_decided_is_stored_partial (full : Bool) (q : Nat) (ops : List Op) (hnf : NoStoreFail ops)
    (h r root : Nat) (sg : List Nat) (via : Bool)
    (hq : q ≤ sg.length) (hge : (run (init full q) ops).c.height ≤ h)
    (hnr : (run (init full q) ops).c.full = false ∨ (find (run (init full q) ops).c.insts h).isSome = true ∨
      histGet (run (init full q) ops).s.hist h = none) :
    ∃ b, (step (run (init full q) ops) (.decided h r root sg true via)).1.s.highest = some b ∧ b.inst.height = h :=
  top_decided_stored (SInvT.reach full q ops hnf) h r root sg via (by rw [run_q]; exact hq) hge hnr

example : (run (init true 3) [.start 4]).c.height ≤ 6 ∧ histGet (run (init true 3) [.start 4]).s.hist 6 = none := by decide

/-! ## store-write failures and decisions by a commit quorum

The clause-1 theorems above (`_partial_light`, `_partial_attester`, `_partial_not_below`) and the clause-2/3 theorems quantify over
ALL `Op`s, including `decidedSF` (a decided message delivered while the store fails the write) and `commits` (the running
instance decides through individual messages while the runner's value check may reject): a failing store does not
weaken the in-process guarantee, because `UponDecided` only logs the `SaveInstance` error and still adds the instance and
bumps the height. -/

/-- a decided message for a future height learned during a failing store write is as good as any other, in-process:
    Height is bumped, the duty in between is refused (non-vacuity of the clause-1 theorems for `decidedSF`) -/
example : (runSeen (init false 3) [] [.start 5, .decidedSF 10 1 120 [1, 2, 3] true false]).2 = [5, 10] ∧
    (runSeen (init false 3) [] [.start 5, .decidedSF 10 1 120 [1, 2, 3] true false]).1.c.height = 10 ∧
    (runSeen (init false 3) [] [.start 5, .decidedSF 10 1 120 [1, 2, 3] true false]).1.s.highest = none ∧
    consensusStart (runSeen (init false 3) [] [.start 5, .decidedSF 10 1 120 [1, 2, 3] true false]).1 (.start 7) = none ∧
    consensusStart (runSeen (init false 3) [] [.start 5, .decidedSF 10 1 120 [1, 2, 3] true false]).1 (.start 11) = some 11 := by
  decide

/-- everything of a decided message except the store write is independent of a store failure: the controller after
    `decidedSF` is the controller after `decided` (from ANY state) -/
theorem C15_store_failure_keeps_controller (s : State) (h r root : Nat) (sg : List Nat) (ok via : Bool) :
    (step s (.decidedSF h r root sg ok via)).1.c = (step s (.decided h r root sg ok via)).1.c ∧
    (step s (.decidedSF h r root sg ok false)).1.s = s.s := by
  refine ⟨?_, rfl⟩
  cases via <;> rfl

/-- a decision of the running instance by a commit quorum is saved BEFORE the runner validates the decided value: the
    state after `commits` does not depend on the value check (only error / nil of `ProcessConsensus` does) -/
theorem C15_decided_instance_saved_before_value_check (s : State) (root : Nat) :
    (step s (.commits root false)).1 = (step s (.commits root true)).1 := by
  show (commitsStep s root false).1 = (commitsStep s root true).1
  unfold commitsStep
  split
  · split
    · split <;> rfl
    · rfl
  · rfl

/-- … and when that instance is at the controller height (the normal case: nothing higher learned meanwhile) the
    decided height IS the stored highest afterwards — from ANY state, whatever the value check says — so by
    `C15_highest_survives_restart` / `C15_stored_highest_never_rerun` it survives restarts and is never run again -/
theorem C15_commit_quorum_decision_is_stored (s : State) (root : Nat) (vc : Bool) (rh : Nat)
    (hrun : s.r.running = some rh) (hge : s.c.height ≤ rh) (happ : (step s (.commits root vc)).2 ≠ .na) :
    ∃ b, (step s (.commits root vc)).1.s.highest = some b ∧ b.inst.height = rh := by
  have happ' : (commitsStep s root vc).2 ≠ .na := happ
  show ∃ b, (commitsStep s root vc).1.s.highest = some b ∧ _
  rcases commitsStep_cases s root vc with ⟨_, hna⟩ | ⟨rh', i, hr', hf, _, _, _, hs⟩
  · exact absurd hna happ'
  · rw [hrun] at hr'
    cases hr'
    rw [hs]
    have hih : i.height = rh := find_some_height hf
    have hfind : find (replaceInst { i with decided := true, commits := singles s.q root } s.c.insts) rh =
        some { i with decided := true, commits := singles s.q root } :=
      find_replaceInst_same (i' := { i with decided := true, commits := singles s.q root }) hf hih
    exact ⟨_, saveFound_writes
      (c := { s.c with insts := replaceInst { i with decided := true, commits := singles s.q root } s.c.insts }) hfind hge,
      hih⟩

example : (step (run (init false 3) [.start 12]) (.commits 124 false)).2 = .cerr ∧
    ((step (run (init false 3) [.start 12]) (.commits 124 false)).1.s.highest.map (·.inst.height)) = some 12 ∧
    consensusStart (run (init false 3) [.start 12, .commits 124 false, .restart false]) (.start 12) = none := by decide

/-! ## clause 3 — stored decided instances are only replaced upwards -/

/-- FULL STATEMENT: one step leaves the highest record's (height, certificate) alone, or replaces it by a record of a
    higher height, or — at the same height — by a certificate with more signers. -/
def C15_highest_replaced_monotone_full : Prop :=
  ∀ (full : Bool) (q : Nat) (ops : List Op) (op : Op) (a b : Stored),
    (run (init full q) ops).s.highest = some a → (step (run (init full q) ops) op).1.s.highest = some b →
    (b.inst.height = a.inst.height ∧ b.cert = a.cert) ∨ a.inst.height < b.inst.height ∨
    (a.inst.height = b.inst.height ∧ a.cert.signers.length < b.cert.signers.length)

/-- witness 1 (DESIGN §8-5): the comparison in `UponDecided` is per (round, root): stored (round 2, 4 signers) is
    replaced by (round 1, 3 signers) at the same height -/
theorem C15_highest_replaced_monotone_full_refuted : ¬ C15_highest_replaced_monotone_full := by
  intro H
  have h := H false 3 [.start 5, .decided 5 2 110 [1, 2, 3, 4] true false] (.decided 5 1 110 [1, 3, 4] true false)
    ⟨⟨5, 2, true, false, [⟨2, 110, [1, 2, 3, 4]⟩]⟩, ⟨2, 110, [1, 2, 3, 4]⟩⟩
    ⟨⟨5, 2, true, false, [⟨2, 110, [1, 2, 3, 4]⟩]⟩, ⟨1, 110, [1, 3, 4]⟩⟩ (by decide) (by decide)
  revert h
  decide

/-- the statement restricted to replacements within one (round, root) -/
def C15_highest_replaced_monotone_same_round_full : Prop :=
  ∀ (full : Bool) (q : Nat) (ops : List Op) (op : Op) (a b : Stored),
    (run (init full q) ops).s.highest = some a → (step (run (init full q) ops) op).1.s.highest = some b →
    a.inst.height = b.inst.height → a.cert.round = b.cert.round → a.cert.root = b.cert.root → b.cert ≠ a.cert →
    a.cert.signers.length < b.cert.signers.length

/-- witness 2: even within ONE (round, root) the clause fails once the certificate's round is below the instance's
    `State.Round`: that bucket of the commit container is trimmed by the runner's compaction after every decided message
    (and by `CompactCopy` + reload at a restart), so the comparison sees an empty bucket. Here: first decided message in
    round 2 (State.Round := 2), then (round 1, 4 signers) stored, then (round 1, 3 signers) replaces it; every message
    goes through the runner's `ProcessConsensus`, no restart involved. -/
theorem C15_highest_replaced_monotone_same_round_full_refuted : ¬ C15_highest_replaced_monotone_same_round_full := by
  intro H
  have h := H false 3 [.decided 5 2 110 [1, 2, 3] true true, .decided 5 1 110 [1, 2, 3, 4] true true]
    (.decided 5 1 110 [1, 2, 4] true true)
    ⟨⟨5, 2, true, false, [⟨2, 110, [1, 2, 3]⟩]⟩, ⟨1, 110, [1, 2, 3, 4]⟩⟩
    ⟨⟨5, 2, true, false, [⟨2, 110, [1, 2, 3]⟩]⟩, ⟨1, 110, [1, 2, 4]⟩⟩ (by decide) (by decide) rfl rfl rfl (by decide)
  revert h
  decide

/-- PARTIAL (height): along any history (restarts included) the highest record is never lost and its height never
    decreases -/
theorem C15_highest_replaced_monotone_partial_height (full : Bool) (q : Nat) (ops ops' : List Op) (a : Stored)
    (ha : (run (init full q) ops).s.highest = some a) :
    ∃ b, (run (run (init full q) ops) ops').s.highest = some b ∧ a.inst.height ≤ b.inst.height :=
  run_highest_mono (SInv.reach full q ops) ha ops'

/-- PARTIAL (same height): when one step replaces the certificate of the highest record at the same height, then
    (1) the live instance of that height is decided and the new certificate has strictly more signers than
        `LongestUniqueSignersForRoundAndRoot` finds in the bucket of the NEW certificate's (round, root)
        — monotone per (round, root) with respect to the live commit container;
    (2) consequently it has strictly more signers than the replaced certificate whenever both have the same
        (round, root) and the replaced certificate's round is not below the stored instance's State.Round (so that
        compaction cannot have trimmed its bucket).
    Missing for the full clause: a comparison across rounds, and a comparison that survives compaction — both need
    the stored certificate (or its signer count) rather than the in-memory commit container. -/
theorem C15_highest_replaced_monotone_partial (full : Bool) (q : Nat) (ops : List Op) (op : Op) (a b : Stored)
    (ha : (run (init full q) ops).s.highest = some a) (hb : (step (run (init full q) ops) op).1.s.highest = some b)
    (hh : a.inst.height = b.inst.height) (hne : b.cert ≠ a.cert) :
    (∃ i, find (run (init full q) ops).c.insts a.inst.height = some i ∧ i.decided = true ∧
        longest i.commits b.cert.round b.cert.root < b.cert.signers.length) ∧
    (b.cert.round = a.cert.round → b.cert.root = a.cert.root → a.inst.round ≤ a.cert.round →
        a.cert.signers.length < b.cert.signers.length) := by
  obtain ⟨b', hb', hrel⟩ := step_highest (SInv.reach full q ops) ha op
  rw [hb] at hb'
  cases hb'
  rcases hrel with rfl | hlt | ⟨_, i, hf, hc, hl⟩
  · exact absurd rfl hne
  · omega
  · refine ⟨⟨i, hf, hc.1, hl⟩, ?_⟩
    intro hr hroot htrim
    have := hc.2.2 htrim
    rw [← hr, ← hroot] at this
    omega

/-- non-vacuity of the partial: a same-height replacement with more signers in the same (round, root) -/
example : (run (init false 3) [.decided 5 1 110 [1, 2, 3] true false]).s.highest =
      some ⟨⟨5, 1, true, false, [⟨1, 110, [1, 2, 3]⟩]⟩, ⟨1, 110, [1, 2, 3]⟩⟩ ∧
    (step (run (init false 3) [.decided 5 1 110 [1, 2, 3] true false]) (.decided 5 1 110 [1, 2, 3, 4] true false)).1.s.highest =
      some ⟨⟨5, 1, true, false, [⟨1, 110, [1, 2, 3]⟩, ⟨1, 110, [1, 2, 3, 4]⟩]⟩, ⟨1, 110, [1, 2, 3, 4]⟩⟩ := by decide

/-! ## historical records (full nodes) — model-level observation -/

/-- the same clause for a historical record (keyed by height) -/
def C15_historical_replaced_monotone_full : Prop :=
  ∀ (full : Bool) (q : Nat) (ops : List Op) (op : Op) (h : Nat) (a b : Stored),
    histGet (run (init full q) ops).s.hist h = some a → histGet (step (run (init full q) ops) op).1.s.hist h = some b →
    b.cert = a.cert ∨ a.cert.signers.length < b.cert.signers.length

/-- a started-but-undecided height is not remembered across a restart, so after the restart the instance of a height
    with a historical record can be started afresh; its first decided message then overwrites the historical record
    (round 1, 4 signers) by (round 1, 3 signers) -/
theorem C15_historical_replaced_monotone_full_refuted : ¬ C15_historical_replaced_monotone_full := by
  intro H
  have h := H true 3 [.start 9, .decided 5 1 110 [1, 2, 3, 4] true false, .restart true, .start 5]
    (.decided 5 1 110 [1, 2, 3] true false) 5
    ⟨⟨5, 1, true, false, [⟨1, 110, [1, 2, 3, 4]⟩]⟩, ⟨1, 110, [1, 2, 3, 4]⟩⟩
    ⟨⟨5, 1, true, false, [⟨1, 110, [1, 2, 3]⟩]⟩, ⟨1, 110, [1, 2, 3]⟩⟩ (by decide) (by decide)
  revert h
  decide

/-! ## the candidate repairs (notes/C15.md) — statements about `Ssv/Model/HeightsRepaired.lean`, NOT about the pinned tree

The two repairs are not applied to /repo; these theorems answer "would the repaired code satisfy the full clauses?" for
the model of the repaired code (which agrees with a patched scratch tree on every generated history, see notes). -/

/-- repaired model, FULL clause 3 — from ANY state, for every op: the highest record is never lost and changes only to a
    higher height or, at the same height, to a certificate with more signers (repair 1 puts the comparison with the
    stored certificate into the store itself) -/
theorem C15_repaired_model_highest_replaced_monotone (s : State) (op : Op) (a : Stored) (ha : s.s.highest = some a) :
    ∃ b, (stepR s op).1.s.highest = some b ∧
      ((b.inst.height = a.inst.height ∧ b.cert = a.cert) ∨ a.inst.height < b.inst.height ∨
       (a.inst.height = b.inst.height ∧ a.cert.signers.length < b.cert.signers.length)) :=
  stepR_highest_mono s op a ha

/-- repaired model: the three refutation witnesses no longer go through (the full clause 1 for the repaired model is
    not proved in Lean; it was searched on 2.3 million random model steps without a counterexample, see notes) -/
theorem C15_repaired_model_witnesses_closed :
    -- F3: the late consensus start for the reloaded height is refused, and the height is stored as highest
    (stepR (runR (init true 3) witnessReload) .decide).2 = .refused ∧
    ((runR (init true 3) witnessReload).s.highest.map (·.inst.height)) = some 5 ∧
    -- F1: (round 1, 3 signers) does not replace (round 2, 4 signers)
    ((stepR (runR (init false 3) [.start 5, .decided 5 2 110 [1, 2, 3, 4] true false])
        (.decided 5 1 110 [1, 3, 4] true false)).1.s.highest.map (·.cert)) = some ⟨2, 110, [1, 2, 3, 4]⟩ ∧
    -- F2: (round 1, 3 signers) does not replace (round 1, 4 signers) after compaction
    ((stepR (runR (init false 3) [.decided 5 2 110 [1, 2, 3] true true, .decided 5 1 110 [1, 2, 3, 4] true true])
        (.decided 5 1 110 [1, 2, 4] true true)).1.s.highest.map (·.cert)) = some ⟨1, 110, [1, 2, 3, 4]⟩ := by decide

end Ssv.Heights
