/-
C15 — A duty height once started or decided is never run again, even after restart.
Property theorems only (helper lemmas: Ssv/Proofs/Heights*.lean; model: Ssv/Model/Heights.lean = the CURRENT tree, i.e.
with the fixes 358626700 (a stored decided instance is only replaced by a higher height or by more signers),
26e2e6b00 (an instance reloaded from storage is kept) and c50569811 (a duty that holds a decided value counts as
previously decided)).

All statements quantify over ALL histories `ops : List Op` of duty starts (attester-style `start`, two-phase
`begin`/`decide`), commit/decided messages of any height, round, root, signer list and validity (through the
controller or through the runner, optionally while the store fails the write), decisions of the running instance by a
commit quorum (with the runner's value check accepting or rejecting), compactions and restarts (each restart may pick
full or light mode), from the initial state of a full or a light node, with any quorum `q`.  No bound on anything.

All three clauses of the property are proved in full for this model:
  1. `C15_no_restart_of_old_height`    (full and light nodes, both kinds of consensus start)
  2. `C15_highest_survives_restart`, `C15_stored_highest_never_rerun`, `C15_top_decided_is_stored`
  3. `C15_highest_replaced_monotone`   (highest record AND every historical record, from ANY state)
The semantics before the first two fixes (Ssv/Model/HeightsOld.lean) violated 1 and 3; the three witnesses are kept as
regression lemmas (`C15_regression_*`): they go through on the old semantics and are closed on the current one.
-/
import Ssv.Proofs.HeightsTop
import Ssv.Model.HeightsOld

namespace Ssv.Heights

/-! ## ties to the regenerated facts -/

/-- constants the model imports -/
theorem C15_tie_constants :
    Gen.heights_InstanceContainerDefaultCapacity = 2 ∧ cap = Gen.heights_InstanceContainerDefaultCapacity ∧
    Gen.heights_FirstHeight = 0 ∧ Gen.heights_FirstRound = 1 ∧
    (newCtrl true).height = Gen.heights_FirstHeight ∧ (newInst 7).round = Gen.heights_FirstRound ∧
    Gen.heights_highestInstanceKey ≠ Gen.heights_instanceKey := by decide

/-- `Controller.SaveInstance` is where the controller package writes to the store (three Save* calls, in this order,
    selected by `fullNode` and `isHighest := msg.Height >= c.Height`); none of the other controller functions on the
    modelled paths touches the storage's Save*; `UponDecided`: `InstanceForHeight`, then `FindInstance` +
    `addNewInstance` (the reloaded instance is kept), then the branches (`addNewInstance` for a new instance,
    `IsDecided`, comparison with `LongestUniqueSignersForRoundAndRoot`), then `FindInstance` + `c.SaveInstance`; reads go
    through `GetInstance` / `GetHighestInstance` only -/
theorem C15_tie_controller_callsites :
    Gen.calls_heights_SaveInstance =
      ["GetStorage().SaveHighestAndHistoricalInstance", "GetStorage().SaveInstance", "GetStorage().SaveHighestInstance"] ∧
    Gen.lits_heights_SaveInstance = ["u&", ">="] ∧
    Gen.calls_heights_UponDecided =
      ["ValidateDecided", "errors.Wrap", "InstanceForHeight", "FindInstance", "addNewInstance", "addNewInstance", "IsDecided",
       "LongestUniqueSignersForRoundAndRoot", "FindInstance", "c.SaveInstance", "NewDecidedHandler"] ∧
    Gen.calls_heights_StartNewInstance = ["FindInstance", "addAndStoreNewInstance", "forceStopAllInstanceExceptCurrent"] ∧
    Gen.calls_heights_UponExistingInstanceMsg = ["InstanceForHeight"] ∧
    Gen.calls_heights_ProcessMsg = ["BaseMsgValidation", "IsDecidedMsg", "UponDecided", "isFutureMessage", "UponExistingInstanceMsg"] ∧
    Gen.calls_heights_InstanceForHeight = ["FindInstance", "GetStorage().GetInstance"] ∧
    Gen.calls_heights_addAndStoreNewInstance = ["addNewInstance"] ∧
    Gen.calls_heights_LoadHighestInstance = ["getHighestInstance", "reset", "addNewInstance"] ∧
    Gen.calls_heights_getHighestInstance = ["GetStorage().GetHighestInstance", "Compact"] ∧
    Gen.calls_heights_OnTimeout = [] := by decide

/-- the container code: comparison / arithmetic skeleton of `addNewInstance` and `FindInstance` -/
theorem C15_tie_container :
    Gen.lits_heights_addNewInstance = ["==", "0", "0", "<", "==", "<", "==", "+", "1", "+", "1"] ∧
    Gen.lits_heights_FindInstance = ["!=", "=="] := by decide

/-- the store: a compacted copy; each key is read (`GetHighestInstance` / `GetInstance`) and written (`save`) only if
    `replaces` says so; `replaces` = nil checks, height `!=` → `<`, else signer counts `<` -/
theorem C15_tie_store :
    Gen.calls_heights_store_saveInstance = ["CompactCopy", "GetHighestInstance", "replaces", "save", "GetInstance", "replaces", "save"] ∧
    Gen.lits_heights_replaces = ["||", "||", "||", "==", "==", "==", "==", "!=", "<", "<"] := by decide

/-- order facts the model relies on:
    * in `UponDecided` the only error that is RETURNED is the wrapped `ValidateDecided` error (one `errors.Wrap`, before
      anything else); a `SaveInstance` failure is logged, and the height bump / `NewDecidedHandler` follow the save block;
    * in `baseConsensusMsgProcessing` the runner's `SaveInstance` comes BEFORE the decided value is decoded and validated -/
theorem C15_tie_save_order :
    Gen.calls_heights_UponDecided.filter (· == "errors.Wrap") = ["errors.Wrap"] ∧
    Gen.calls_heights_UponDecided.head? = some "ValidateDecided" ∧
    (Gen.calls_heights_UponDecided.dropWhile (· != "c.SaveInstance")) = ["c.SaveInstance", "NewDecidedHandler"] ∧
    (Gen.calls_heights_baseConsensusMsgProcessing.dropWhile (· != "QBFTController.SaveInstance")) =
      ["QBFTController.SaveInstance", "decidedValue.Decode", "validateDecidedConsensusData"] := by decide

/-- `Validator.Start` loads the highest instance and sets the runner's highest decided slot; `baseStartNewDuty` = guard,
    new state, executeDuty; `decide` starts the instance and looks it up; the runner compacts after ProcessMsg and then
    saves through the controller's `SaveInstance` -/
theorem C15_tie_runner_callsites :
    Gen.calls_heights_ValidatorStart = ["LoadHighestInstance", "SetHighestDecidedSlot"] ∧
    Gen.calls_heights_baseStartNewDuty = ["ShouldProcessDuty", "baseSetupForNewDuty", "executeDuty"] ∧
    Gen.calls_heights_decide = ["StartNewInstance", "InstanceForHeight"] ∧
    Gen.calls_heights_compactInstanceIfNeeded = ["FindInstance", "IsDecidedMsg", "Compact"] ∧
    Gen.calls_heights_baseConsensusMsgProcessing =
      ["ProcessMsg", "compactInstanceIfNeeded", "didDecideCorrectly", "FindInstance", "QBFTController.SaveInstance",
       "decidedValue.Decode", "validateDecidedConsensusData"] ∧
    Gen.calls_heights_attester_executeDuty = ["GetAttestationData", "decide"] := by decide

/-! ## clause 1 — no consensus start at or below a height already started or learned decided -/

/-- CLAUSE 1, in full (in-process): whenever an op starts consensus for `slot` — attester-style `start`, or the `decide`
    of a two-phase runner — `slot` is strictly above every height started or learned decided (valid decided message
    delivered, whether or not the store write succeeded) since the last restart, and above the stored highest height at
    that restart. Full and light nodes, any mode switches at restarts. -/
theorem C15_no_restart_of_old_height (full : Bool) (q : Nat) (ops : List Op) (op : Op) (slot : Nat)
    (hcs : consensusStart (runSeen (init full q) [] ops).1 op = some slot) :
    ∀ h ∈ (runSeen (init full q) [] ops).2, h < slot := by
  intro h hh
  have hinv : SInv (runSeen (init full q) [] ops).1 := by rw [runSeen_fst]; exact SInv.reach full q ops
  have hle : SeenLe (runSeen (init full q) [] ops).1 (runSeen (init full q) [] ops).2 :=
    SeenLe.runSeen (by intro x hx; simp at hx) ops
  have htop : SeenTop (runSeen (init full q) [] ops).1 (runSeen (init full q) [] ops).2 :=
    SeenTop.runSeen (SInv.init full q) (by intro x hx; simp at hx) (by intro x hx; simp at hx) ops
  obtain ⟨c', hst, _, _⟩ := consensusStart_ok hcs
  obtain ⟨h1, hnone, _⟩ := startNewInstance_ok hst
  have h2 := hle h hh
  by_cases heq : h = slot
  · have hc : h = (runSeen (init full q) [] ops).1.c.height := by omega
    have hat := htop h hh hc
    unfold AtTop at hat
    rw [← hc, heq, hnone] at hat
    cases hat
  · omega

/-- non-vacuity: a full node that restarted with highest 5 starts slot 6; a future decided message learned during a
    failing store write still bumps the height: the duty in between is refused, the one above is fine -/
example : consensusStart (runSeen (init true 3) [] [.decided 5 1 110 [1, 2, 3] true false, .restart true]).1 (.start 6) = some 6 ∧
    (runSeen (init true 3) [] [.decided 5 1 110 [1, 2, 3] true false, .restart true]).2 = [5] ∧
    (runSeen (init false 3) [] [.start 5, .decidedSF 10 1 120 [1, 2, 3] true false]).2 = [5, 10] ∧
    (runSeen (init false 3) [] [.start 5, .decidedSF 10 1 120 [1, 2, 3] true false]).1.s.highest = none ∧
    consensusStart (runSeen (init false 3) [] [.start 5, .decidedSF 10 1 120 [1, 2, 3] true false]).1 (.start 7) = none ∧
    consensusStart (runSeen (init false 3) [] [.start 5, .decidedSF 10 1 120 [1, 2, 3] true false]).1 (.start 11) = some 11 := by
  decide

/-- everything of a decided message except the store write is independent of a store failure: the controller after
    `decidedSF` is the controller after `decided` (from ANY state), and through the controller path nothing is written -/
theorem C15_store_failure_keeps_controller (s : State) (h r root : Nat) (sg : List Nat) (ok via : Bool) :
    (step s (.decidedSF h r root sg ok via)).1.c = (step s (.decided h r root sg ok via)).1.c ∧
    (step s (.decidedSF h r root sg ok false)).1.s = s.s := by
  refine ⟨?_, rfl⟩
  cases via <;> rfl

/-- a commit-type message BELOW quorum is not a decided message: it takes the ordinary commit path
    (`UponExistingInstanceMsg`), which never writes to the store and never moves the controller height — from ANY state,
    valid or not; so it teaches nothing and cannot weaken any clause -/
theorem C15_below_quorum_commit_is_not_decided (s : State) (h r root : Nat) (sg : List Nat) (ok : Bool)
    (hlt : sg.length < s.q) :
    (step s (.decided h r root sg ok false)).1.s = s.s ∧
    (step s (.decided h r root sg ok false)).1.c.height = s.c.height ∧
    learns s (.decided h r root sg ok false) = [] := by
  have hp : (processMsg s.q s.c s.s h ⟨r, root, sg⟩ ok).2.1 = s.s ∧
      (processMsg s.q s.c s.s h ⟨r, root, sg⟩ ok).1.height = s.c.height := by
    rcases processMsg_cases s.q s.c s.s h ⟨r, root, sg⟩ ok with he | ⟨_, hq, _⟩ | ⟨_, _, he⟩
    · rw [he]; exact ⟨rfl, rfl⟩
    · have : sg.length < s.q := hlt
      have : s.q ≤ sg.length := hq
      omega
    · rw [he]; exact ⟨rfl, (existingMsg_height _ _ _ _ _).1⟩
  refine ⟨hp.1, hp.2, ?_⟩
  unfold learns
  have : ¬ s.q ≤ sg.length := by omega
  simp [this]

/-- non-vacuity: after a commit-quorum decision a fourth operator's single commit is filed (one more commit), a repeated
    one is a duplicate, a two-signer one is rejected; the store is the same in all three cases -/
example :
    (step (run (init false 3) [.start 2, .commits 104 true]) (.decided 2 1 104 [4] true false)).2 = .ddup ∧
    ((step (run (init false 3) [.start 2, .commits 104 true]) (.decided 2 1 104 [4] true false)).1.c.insts.map (·.commits.length)) = [4] ∧
    (step (run (init false 3) [.start 2, .commits 104 true]) (.decided 2 1 104 [3] true false)).1 =
      (run (init false 3) [.start 2, .commits 104 true]) ∧
    (step (run (init false 3) [.start 2, .commits 104 true]) (.decided 2 1 104 [1, 2] true false)).2 = .derr := by decide

/-! ## clause 2 — the highest decided instance survives a restart -/

/-- a restart leaves the store untouched, and when a highest record exists the new process resumes with it:
    controller height, the loaded (compacted) instance as the only one in the container, the runner's highest decided
    slot, no running duty — for full and light mode alike, from ANY state -/
theorem C15_highest_survives_restart (s : State) (f : Bool) :
    (step s (.restart f)).1.s = s.s ∧
    ∀ a, s.s.highest = some a →
      (step s (.restart f)).1.c.height = a.inst.height ∧
      (step s (.restart f)).1.c.insts = [trim a.inst] ∧
      (step s (.restart f)).1.r.hds = a.inst.height ∧
      (step s (.restart f)).1.r.duty = none ∧
      (step s (.restart f)).2 = .loaded := by
  refine ⟨(restartStep_cs s f).2.1, ?_⟩
  intro a ha
  obtain ⟨h1, h2, _, h4⟩ := loadHighest_some (c := newCtrl f) ha
  show (restartStep s f).1.c.height = _ ∧ (restartStep s f).1.c.insts = _ ∧ (restartStep s f).1.r.hds = _ ∧
    (restartStep s f).1.r.duty = none ∧ (restartStep s f).2 = .loaded
  unfold restartStep
  simp only [h4]
  refine ⟨h1, h2, ?_⟩
  simp [newRunner]

example : (run (init false 3) [.decided 5 1 110 [1, 2, 3] true false]).s.highest =
    some ⟨⟨5, 1, true, false, [⟨1, 110, [1, 2, 3]⟩], none⟩, ⟨1, 110, [1, 2, 3]⟩⟩ := by decide

/-- … and it still refuses older or equal duties: once a height is stored as highest, NO later history — with any
    number of further restarts, in either mode — ever starts consensus at or below it (attester-style or two-phase) -/
theorem C15_stored_highest_never_rerun (full : Bool) (q : Nat) (ops ops' : List Op) (op : Op) (a : Stored) (slot : Nat)
    (ha : (run (init full q) ops).s.highest = some a)
    (hcs : consensusStart (run (run (init full q) ops) ops') op = some slot) :
    a.inst.height < slot := by
  have inv := SInv.reach full q ops
  obtain ⟨b, hb, hab⟩ := run_highest_mono ha ops'
  have inv' : SInv (run (run (init full q) ops) ops') := inv.run ops'
  unfold SInv at inv'
  obtain ⟨c', hst, _, _⟩ := consensusStart_ok hcs
  obtain ⟨h1, hnone, _⟩ := startNewInstance_ok hst
  have h2 := inv'.le b hb
  by_cases heq : a.inst.height = slot
  · have hat := inv'.live b hb (by omega)
    unfold AtTop at hat
    have hc : (run (run (init full q) ops) ops').c.height = slot := by omega
    rw [hc, hnone] at hat
    cases hat
  · omega

example : consensusStart (run (run (init true 3) [.decided 5 1 110 [1, 2, 3] true false]) [.restart false, .begin 8, .restart true])
    (.start 6) = some 6 := by decide

/-- "the highest decided instance" is what is stored: on histories without store-write failures, every valid decided
    message at or above the controller height ends up as (or already is) the stored highest record — full and light
    nodes (mechanism: "save as highest only if height >= current"; a write that was made to fail cannot be there) -/
theorem C15_top_decided_is_stored (full : Bool) (q : Nat) (ops : List Op) (hnf : NoStoreFail ops)
    (h r root : Nat) (sg : List Nat) (via : Bool)
    (hq : q ≤ sg.length) (hge : (run (init full q) ops).c.height ≤ h) :
    ∃ b, (step (run (init full q) ops) (.decided h r root sg true via)).1.s.highest = some b ∧ b.inst.height = h :=
  top_decided_stored (SInvT.reach full q ops hnf) h r root sg via (by rw [run_q]; exact hq) hge

example : NoStoreFail [.start 9, .decided 5 1 110 [1, 2, 3] true false, .restart true] ∧
    (run (init true 3) [.start 9, .decided 5 1 110 [1, 2, 3] true false, .restart true]).c.height ≤ 5 := by
  refine ⟨?_, by decide⟩
  intro op hop h r root sg ok via he
  subst he
  simp at hop

/-- a decision of the running instance by a commit quorum is saved BEFORE the runner validates the decided value: the
    controller and the store after `commits` do not depend on the value check (only error / nil of `ProcessConsensus`
    and whether the duty takes the decided value do) -/
theorem C15_decided_instance_saved_before_value_check (s : State) (root : Nat) :
    (step s (.commits root false)).1.c = (step s (.commits root true)).1.c ∧
    (step s (.commits root false)).1.s = (step s (.commits root true)).1.s := by
  show (commitsStep s root false).1.c = (commitsStep s root true).1.c ∧
    (commitsStep s root false).1.s = (commitsStep s root true).1.s
  unfold commitsStep
  split
  · split
    · split
      · split <;> exact ⟨rfl, rfl⟩
      · exact ⟨rfl, rfl⟩
    · exact ⟨rfl, rfl⟩
  · exact ⟨rfl, rfl⟩

/-- … and when that instance is at the controller height (nothing higher learned meanwhile) the decided height IS the
    stored highest afterwards, whatever the value check says — on every reachable state; so by
    `C15_highest_survives_restart` / `C15_stored_highest_never_rerun` it survives restarts and is never run again -/
theorem C15_commit_quorum_decision_is_stored (full : Bool) (q : Nat) (ops : List Op) (hnf : NoStoreFail ops)
    (root : Nat) (vc : Bool) (rh : Nat)
    (hrun : (run (init full q) ops).r.running = some rh) (hge : (run (init full q) ops).c.height ≤ rh)
    (happ : (step (run (init full q) ops) (.commits root vc)).2 ≠ .na) :
    ∃ b, (step (run (init full q) ops) (.commits root vc)).1.s.highest = some b ∧ b.inst.height = rh := by
  have inv := SInvT.reach full q ops hnf
  have happ' : (commitsStep (run (init full q) ops) root vc).2 ≠ .na := happ
  show ∃ b, (commitsStep (run (init full q) ops) root vc).1.s.highest = some b ∧ _
  rcases commitsStep_cases (run (init full q) ops) root vc with ⟨_, hna⟩ | ⟨rh', i, hr', hf, hnd, _, _, _, ⟨hv, _⟩ | ⟨_, hs⟩⟩
  · exact absurd hna happ'
  · have := inv.r.dec hv rh' i hr' hf
    rw [hnd] at this; cases this
  · rw [hrun] at hr'
    cases hr'
    rw [hs]
    have hih : i.height = rh := find_some_height hf
    have hfind : find (commitsCtrl (run (init full q) ops) i root).insts rh =
        some (commitsInst (run (init full q) ops) i root) :=
      find_replaceInst_same (i' := commitsInst (run (init full q) ops) i root) hf hih
    exact saveFound_stores hfind (by rw [commitsCtrl_height]; exact hge)
      (fun a ha => Nat.le_trans (inv.c.le a ha) hge)

example : (step (run (init false 3) [.start 12]) (.commits 124 false)).2 = .cerr ∧
    ((step (run (init false 3) [.start 12]) (.commits 124 false)).1.s.highest.map (·.inst.height)) = some 12 ∧
    consensusStart (run (init false 3) [.start 12, .commits 124 false, .restart false]) (.start 12) = none := by decide

/-! ## clause 3 — stored decided instances are only replaced upwards -/

/-- CLAUSE 3, in full, from ANY state and for every op: the highest record is never lost and is only ever replaced by a
    record for a higher height or, at the same height, by a certificate with more signers (`Mono`: unchanged in
    (height, certificate), or higher, or same height with more signers); and the same for the historical record of
    every height. (The store itself enforces it: `saveInstance` writes a key only if `replaces`.) -/
theorem C15_highest_replaced_monotone (s : State) (op : Op) :
    (∀ a, s.s.highest = some a → ∃ b, (step s op).1.s.highest = some b ∧
      ((b.inst.height = a.inst.height ∧ b.cert = a.cert) ∨ a.inst.height < b.inst.height ∨
       (a.inst.height = b.inst.height ∧ a.cert.signers.length < b.cert.signers.length))) ∧
    (∀ h a, histGet s.s.hist h = some a → ∃ b, histGet (step s op).1.s.hist h = some b ∧
      ((b.inst.height = a.inst.height ∧ b.cert = a.cert) ∨ a.inst.height < b.inst.height ∨
       (a.inst.height = b.inst.height ∧ a.cert.signers.length < b.cert.signers.length))) :=
  step_store_mono s op

/-- non-vacuity: a same-height replacement by more signers happens; one by fewer signers of another round does not -/
example : ((step (run (init false 3) [.decided 5 1 110 [1, 2, 3] true false]) (.decided 5 1 110 [1, 2, 3, 4] true false)).1.s.highest.map
      (·.cert)) = some ⟨1, 110, [1, 2, 3, 4]⟩ ∧
    ((step (run (init false 3) [.start 5, .decided 5 2 110 [1, 2, 3, 4] true false]) (.decided 5 1 110 [1, 3, 4] true false)).1.s.highest.map
      (·.cert)) = some ⟨2, 110, [1, 2, 3, 4]⟩ := by decide

/-- along any history (restarts included) the highest record is never lost and its height never decreases -/
theorem C15_highest_height_monotone (s : State) (ops : List Op) (a : Stored) (ha : s.s.highest = some a) :
    ∃ b, (run s ops).s.highest = some b ∧ a.inst.height ≤ b.inst.height :=
  run_highest_mono ha ops

/-! ## regression: the three defects of the tree before the fixes (Ssv/Model/HeightsOld.lean) -/

def witnessReload : List Op :=
  [.start 9, .decided 5 1 110 [1, 2, 3] true false, .restart true, .begin 5, .decided 5 1 110 [1, 2, 3] true false]

/-- F3 (fixed by 26e2e6b00). Old semantics: a full node re-ran a height it had learned decided — the instance reloaded
    from storage was neither kept nor saved as highest, so the late `decide` succeeded. Current model: refused, and the
    height is stored as highest. -/
theorem C15_regression_reloaded_instance_kept :
    ((stepOld (runOld (init true 3) witnessReload) .decide).2 = .ok ∧
      (runOld (init true 3) witnessReload).c.height = 5 ∧ (runOld (init true 3) witnessReload).s.highest = none) ∧
    ((step (run (init true 3) witnessReload) .decide).2 = .refused ∧
      ((run (init true 3) witnessReload).s.highest.map (·.inst.height)) = some 5) := by decide

/-- F1 (fixed by 358626700). Old semantics: stored (round 2, 4 signers) was replaced by (round 1, 3 signers) at the same
    height. Current model: kept. -/
theorem C15_regression_other_round_fewer_signers :
    ((stepOld (runOld (init false 3) [.start 5, .decided 5 2 110 [1, 2, 3, 4] true false])
        (.decided 5 1 110 [1, 3, 4] true false)).1.s.highest.map (·.cert)) = some ⟨1, 110, [1, 3, 4]⟩ ∧
    ((step (run (init false 3) [.start 5, .decided 5 2 110 [1, 2, 3, 4] true false])
        (.decided 5 1 110 [1, 3, 4] true false)).1.s.highest.map (·.cert)) = some ⟨2, 110, [1, 2, 3, 4]⟩ := by decide

/-- F2 (fixed by 358626700). Old semantics: within ONE (round, root) a stored (round 1, 4 signers) was replaced by
    (round 1, 3 signers) once compaction had trimmed that round (State.Round = 2). Current model: kept. -/
theorem C15_regression_same_round_trimmed_bucket :
    ((stepOld (runOld (init false 3) [.decided 5 2 110 [1, 2, 3] true true, .decided 5 1 110 [1, 2, 3, 4] true true])
        (.decided 5 1 110 [1, 2, 4] true true)).1.s.highest.map (·.cert)) = some ⟨1, 110, [1, 2, 4]⟩ ∧
    ((step (run (init false 3) [.decided 5 2 110 [1, 2, 3] true true, .decided 5 1 110 [1, 2, 3, 4] true true])
        (.decided 5 1 110 [1, 2, 4] true true)).1.s.highest.map (·.cert)) = some ⟨1, 110, [1, 2, 3, 4]⟩ := by decide

/-- the historical-record variant: old semantics let the first decided message of a re-run instance overwrite the
    historical (round 1, 4 signers) by (round 1, 3 signers). Current model: kept. -/
theorem C15_regression_historical_overwritten :
    ((histGet (stepOld (runOld (init true 3) [.start 9, .decided 5 1 110 [1, 2, 3, 4] true false, .restart true, .start 5])
        (.decided 5 1 110 [1, 2, 3] true false)).1.s.hist 5).map (·.cert)) = some ⟨1, 110, [1, 2, 3]⟩ ∧
    ((histGet (step (run (init true 3) [.start 9, .decided 5 1 110 [1, 2, 3, 4] true false, .restart true, .start 5])
        (.decided 5 1 110 [1, 2, 3] true false)).1.s.hist 5).map (·.cert)) = some ⟨1, 110, [1, 2, 3, 4]⟩ := by decide

end Ssv.Heights
