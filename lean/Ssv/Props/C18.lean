/-
C18 — Publisher, subscriber and validator agree on topic and envelope for every key.
Property theorems only (helper lemmas live in Ssv/Proofs/Topics.lean).
All statements are over arbitrary byte lists (`List Nat` + `Bytes`), no bound on sizes.
-/
import Ssv.Proofs.Topics

namespace Ssv.Topics

/-! ## ties to the regenerated facts -/

/-- the three call sites obtain their topics through the single mapping `ValidatorTopicID`
    (publish, subscribe) and `GetTopicBaseName`+`ValidatorTopicID` (validation) -/
theorem C18_tie_callsites :
    Gen.calls_p2p_Broadcast = ["ValidatorTopicID"] ∧
    Gen.calls_p2p_subscribe = ["ValidatorTopicID"] ∧
    Gen.calls_validateP2PMessage = ["GetTopicBaseName", "ValidatorTopicID"] ∧
    Gen.calls_topicsCtrl_Subscribe = ["GetTopicFullName"] ∧
    Gen.calls_topicsCtrl_Broadcast = ["GetTopicFullName"] := by decide

/-- envelope layout constants are consistent: signature | operator id | message -/
theorem C18_tie_layout :
    Gen.commons_signatureOffset = 0 ∧
    Gen.commons_operatorIDOffset = Gen.commons_signatureOffset + Gen.commons_signatureSize ∧
    Gen.commons_messageOffset = Gen.commons_operatorIDOffset + Gen.commons_operatorIDSize ∧
    Gen.commons_operatorIDSize = 8 ∧ Gen.commons_signatureSize = 256 ∧
    Gen.commons_subnetsCount = 128 := by decide

/-! ## topic mapping -/

/-- for every key of at least 5 bytes the subnet is `pk[4] mod 128` -/
theorem C18_subnet_eq (b0 b1 b2 b3 b4 : Nat) (rest : List Nat)
    (h : Bytes (b0 :: b1 :: b2 :: b3 :: b4 :: rest)) :
    validatorSubnet (hexEncode (b0 :: b1 :: b2 :: b3 :: b4 :: rest)) = ((b4 % 128 : Nat) : Int) := by
  have hb : ∀ b ∈ [b0, b1, b2, b3, b4], b < 256 := by
    intro b hb; apply h; simp at hb ⊢; omega
  have h0 := hb b0 (by simp); have h1 := hb b1 (by simp); have h2 := hb b2 (by simp)
  have h3 := hb b3 (by simp); have h4 := hb b4 (by simp)
  have hlen : ¬ (hexEncode (b0 :: b1 :: b2 :: b3 :: b4 :: rest)).length < 10 := by
    rw [hexEncode_length]; simp; omega
  have htake : (hexEncode (b0 :: b1 :: b2 :: b3 :: b4 :: rest)).take 10 = hexEncode [b0, b1, b2, b3, b4] := by
    simp [hexEncode]
  unfold validatorSubnet
  rw [if_neg hlen, htake, hexToUint64_five b0 b1 b2 b3 b4 h0 h1 h2 h3 h4]
  have : Gen.commons_subnetsCount = 128 := rfl
  rw [this]
  congr 1
  omega

/-- … hence it lies inside the advertised subnet range -/
theorem C18_subnet_range (pk : List Nat) (h : Bytes pk) (h5 : 5 ≤ pk.length) :
    0 ≤ validatorSubnet (hexEncode pk) ∧ validatorSubnet (hexEncode pk) < 128 := by
  match pk, h5 with
  | b0 :: b1 :: b2 :: b3 :: b4 :: rest, _ =>
    rw [C18_subnet_eq b0 b1 b2 b3 b4 rest h]
    constructor
    · exact Int.natCast_nonneg _
    · have : b4 % 128 < 128 := Nat.mod_lt _ (by decide)
      exact_mod_cast this

/-- malformed short keys map to the `unknown` topic id, on every one of the three sides -/
theorem C18_short_key_unknown (pk : List Nat) (h : pk.length < 5) :
    validatorTopicID pk = [Gen.commons_UnknownSubnet] := by
  have : (hexEncode pk).length < 10 := by rw [hexEncode_length]; omega
  simp [validatorTopicID, validatorSubnet, this, subnetTopicID]

/-- publish topic = subscribe topic, and the receiving side accepts exactly that topic name -/
theorem C18_topics_agree (pk : List Nat) :
    publishTopics pk = subscribeTopics pk ∧
    ∀ t ∈ publishTopics pk, validatorAcceptsTopic pk t = true := by
  refine ⟨rfl, ?_⟩
  intro t ht
  simp only [publishTopics, List.mem_map] at ht
  obtain ⟨b, hb, rfl⟩ := ht
  simp only [validatorAcceptsTopic, baseName_fullName]
  simpa using hb

/-- the topic published for a well-formed key is one of the advertised topics -/
theorem C18_topic_advertised (pk : List Nat) (h : Bytes pk) (h5 : 5 ≤ pk.length) :
    ∀ t ∈ publishTopics pk, t ∈ allTopics := by
  match pk, h5 with
  | b0 :: b1 :: b2 :: b3 :: b4 :: rest, _ =>
    intro t ht
    simp only [publishTopics, validatorTopicID, List.map_cons, List.map_nil, List.mem_singleton] at ht
    subst ht
    rw [C18_subnet_eq b0 b1 b2 b3 b4 rest h]
    simp only [allTopics, List.mem_map, List.mem_range]
    exact ⟨b4 % 128, Nat.mod_lt _ (by decide), rfl⟩

/-- decimal topic ids of different subnets differ (finite table, whole table checked) -/
theorem natDigits_inj_128 : ∀ i < 128, ∀ j < 128, natDigits i = natDigits j → i = j := by decide +kernel

/-- the receiving side rejects every other advertised topic for that key -/
theorem C18_other_topic_rejected (pk : List Nat) (h : Bytes pk) (h5 : 5 ≤ pk.length)
    (j : Nat) (hj : j < 128) (hne : (j : Int) ≠ validatorSubnet (hexEncode pk)) :
    validatorAcceptsTopic pk (getTopicFullName (subnetTopicID (Int.ofNat j))) = false := by
  match pk, h5 with
  | b0 :: b1 :: b2 :: b3 :: b4 :: rest, _ =>
    rw [C18_subnet_eq b0 b1 b2 b3 b4 rest h] at hne
    simp only [validatorAcceptsTopic, baseName_fullName, validatorTopicID]
    rw [C18_subnet_eq b0 b1 b2 b3 b4 rest h]
    simp only [subnetTopicID]
    have h1 : ¬ (Int.ofNat j < 0) := by simp
    have h2 : ¬ (((b4 % 128 : Nat) : Int) < 0) := by omega
    simp only [h1, h2, if_false, List.contains_cons, List.contains_nil, Bool.or_false, beq_eq_false_iff_ne, ne_eq]
    intro heq
    have hnn : (((b4 % 128 : Nat) : Int)).toNat = b4 % 128 := Int.toNat_natCast _
    rw [hnn] at heq
    have hj' : (Int.ofNat j).toNat = j := Int.toNat_natCast _
    rw [hj'] at heq
    have := natDigits_inj_128 j hj (b4 % 128) (Nat.mod_lt _ (by decide)) heq
    exact hne (by exact_mod_cast this)

/-! ## envelope -/

theorem unLe64_le64 (n : Nat) (h : n < 2 ^ 64) : unLe64 (le64 n) = n := by
  simp only [le64, List.range, List.range.loop, List.map, unLe64]
  omega

/-- wrapping and unwrapping returns the same three parts, for every payload, every 64-bit
    operator id and every 256-byte signature -/
theorem C18_envelope_roundtrip (msg sig : List Nat) (opId : Nat)
    (hid : opId < 2 ^ 64) (hsig : sig.length = 256) :
    decodeSigned (encodeSigned msg opId sig) = some (msg, opId, sig) := by
  have c1 : Gen.commons_signatureSize = 256 := rfl
  have c2 : Gen.commons_messageOffset = 264 := rfl
  have c3 : Gen.commons_operatorIDOffset = 256 := rfl
  have c4 : Gen.commons_operatorIDSize = 8 := rfl
  have c5 : Gen.commons_signatureOffset = 0 := rfl
  have hpad : padTake 256 sig = sig := by
    simp [padTake, hsig, List.take_of_length_le]
  have hle : (le64 (opId % 2 ^ 64)).length = 8 := by simp [le64]
  unfold decodeSigned encodeSigned
  rw [c1, c2, c3, c4, c5, hpad]
  have hlen : ¬ (sig ++ le64 (opId % 2 ^ 64) ++ msg).length < 264 := by
    simp [hsig, hle]; omega
  rw [if_neg hlen]
  have d1 : (sig ++ le64 (opId % 2 ^ 64) ++ msg).drop 264 = msg := by
    have : 264 = (sig ++ le64 (opId % 2 ^ 64)).length := by simp [hsig, hle]
    rw [this, List.drop_left]
  have d2 : ((sig ++ le64 (opId % 2 ^ 64) ++ msg).drop 256).take 8 = le64 (opId % 2 ^ 64) := by
    have : 256 = sig.length := hsig.symm
    rw [List.append_assoc, this, List.drop_left, ← hle, List.take_left]
  have d3 : ((sig ++ le64 (opId % 2 ^ 64) ++ msg).drop 0).take 256 = sig := by
    rw [List.drop_zero, List.append_assoc, ← hsig, List.take_left]
  rw [d1, d2, d3, unLe64_le64 _ (Nat.mod_lt _ (by decide)), Nat.mod_eq_of_lt hid]

/-- anything shorter than the fixed header is refused (no out-of-range slicing) -/
theorem C18_decode_rejects_short (enc : List Nat) (h : enc.length < 264) : decodeSigned enc = none := by
  have c2 : Gen.commons_messageOffset = 264 := rfl
  simp [decodeSigned, c2, h]

/-! ## subnet bitmap -/

/-- every 128-entry 0/1 subnet vector survives its string encoding -/
theorem C18_subnets_roundtrip (s : List Nat) (hlen : s.length = 128) (h01 : ∀ b ∈ s, b = 0 ∨ b = 1) :
    subnetsFromString (subnetsToString s) = some s := by
  rw [fromString_toString]
  congr 1
  apply List.ext_getElem
  · simp [hlen]
  · intro i h1 h2
    simp only [List.getElem_map, List.getElem_range, bitOf]
    have hi : i < s.length := h2
    rw [List.getElem?_eq_getElem hi]
    rcases h01 s[i] (List.getElem_mem hi) with h | h <;> simp [h]

/-- non-vacuity: a concrete non-trivial vector meets the hypotheses and round-trips -/
example : subnetsFromString (subnetsToString ((List.range 128).map (fun i => i % 3 % 2))) =
    some ((List.range 128).map (fun i => i % 3 % 2)) := by decide +kernel

/-- non-vacuity: a concrete key; subnet is byte 4 mod 128 -/
example : validatorTopicID [0x8c, 0x51, 0x34, 0xfe, 0xd3, 0x99] = [natDigits 83] := by decide +kernel


/-! ## shared / changed subnets (what peer selection, discovery filtering and subscription updates read off two subnet vectors) -/

/-- `SharedSubnets(a, b, maxLen)` lists, for EVERY pair of vectors and EVERY limit, only indices that exist in both
    vectors and are set (non-zero) in both -/
theorem C18_shared_sound (a b : List Nat) (maxLen : Int) :
    ∀ k ∈ sharedSubnets a b maxLen, ∃ av bv, a[k]? = some av ∧ b[k]? = some bv ∧ av ≠ 0 ∧ bv ≠ 0 := by
  intro k hk
  unfold sharedSubnets at hk
  simp only at hk
  split at hk
  · simp at hk
  · obtain ⟨_, av, bv, h1, h2, h3, h4⟩ := sharedGo_mem a b 0 0 _ k hk
    exact ⟨av, bv, by simpa using h1, by simpa using h2, h3, h4⟩

/-- with a 128-entry own vector every shared subnet lies in the advertised range [0,128) -/
theorem C18_shared_in_range (a b : List Nat) (maxLen : Int) (ha : a.length = Gen.commons_subnetsCount) :
    ∀ k ∈ sharedSubnets a b maxLen, k < Gen.commons_subnetsCount := by
  intro k hk
  obtain ⟨av, _, h1, _⟩ := C18_shared_sound a b maxLen k hk
  have : k < a.length := by
    rcases Nat.lt_or_ge k a.length with h | h
    · exact h
    · rw [List.getElem?_eq_none h] at h1; cases h1
  omega

/-- the result is strictly increasing (no subnet listed twice) -/
theorem C18_shared_sorted (a b : List Nat) (maxLen : Int) : (sharedSubnets a b maxLen).Pairwise (· < ·) := by
  unfold sharedSubnets
  simp only
  split
  · simp
  · exact sharedGo_sorted a b 0 0 _

/-- completeness: when `maxLen` is 0 (the "no limit" convention), negative, or at least the number of shared
    subnets, EVERY index set on both sides is listed -/
theorem C18_shared_complete (a b : List Nat) (maxLen : Int)
    (hm : maxLen ≤ 0 ∨ (sharedCount a b : Int) ≤ maxLen)
    (k av bv : Nat) (ha : a[k]? = some av) (hb : b[k]? = some bv) (h1 : av ≠ 0) (h2 : bv ≠ 0) :
    k ∈ sharedSubnets a b maxLen := by
  unfold sharedSubnets
  simp only
  have hane : a ≠ [] := by intro e; subst e; simp at ha
  have hbne : b ≠ [] := by intro e; subst e; simp at hb
  have : (a.isEmpty || b.isEmpty) = false := by simp [hane, hbne]
  rw [this]
  simp only [Bool.false_eq_true, if_false]
  have := sharedGo_complete a b 0 0
    (if maxLen = 0 then some a.length else if maxLen < 0 then none else some maxLen.toNat)
    (by
      intro L hL
      have hc := sharedCount_le a b
      split at hL
      · cases hL; omega
      · split at hL
        · cases hL
        · cases hL; omega)
    k av bv ha hb h1 h2
  simpa using this

/-- a positive limit is respected -/
theorem C18_shared_limit (a b : List Nat) (maxLen : Int) (hm : 0 < maxLen) :
    ((sharedSubnets a b maxLen).length : Int) ≤ maxLen := by
  unfold sharedSubnets
  simp only
  split
  · simp; omega
  · have h0 : ¬ maxLen = 0 := by omega
    have h1 : ¬ maxLen < 0 := by omega
    simp only [h0, h1, if_false]
    have := sharedGo_length a b 0 0 maxLen.toNat (by omega)
    omega

/-- `DiffSubnets(a, b)` holds EXACTLY the entries of `b` that `a` does not already have at that index
    (changed, or beyond the end of `a`), each with `b`'s value, by increasing index without repetition -/
theorem C18_diff_exact (a b : List Nat) (k v : Nat) :
    (k, v) ∈ diffSubnets a b ↔ b[k]? = some v ∧ a[k]? ≠ some v := by
  unfold diffSubnets
  rw [diffGo_mem]; simp

theorem C18_diff_sorted (a b : List Nat) : ((diffSubnets a b).map (·.1)).Pairwise (· < ·) :=
  diffGo_sorted a b 0

/-- the diff is empty exactly when `b` brings nothing new: every entry of `b` is already in `a` at that index -/
theorem C18_diff_empty_iff (a b : List Nat) :
    diffSubnets a b = [] ↔ ∀ (k v : Nat), b[k]? = some v → a[k]? = some v := by
  constructor
  · intro h k v hb
    by_cases e : a[k]? = some v
    · exact e
    · have := (C18_diff_exact a b k v).mpr ⟨hb, e⟩
      rw [h] at this; cases this
  · intro h
    cases hd : diffSubnets a b with
    | nil => rfl
    | cons x xs =>
      exfalso
      have hm : (x.1, x.2) ∈ diffSubnets a b := by rw [hd]; simp
      obtain ⟨h1, h2⟩ := (C18_diff_exact a b x.1 x.2).mp hm
      exact h2 (h _ _ h1)

/-- a vector shares with itself exactly its active subnets -/
theorem C18_shared_self_active (a : List Nat) : (sharedSubnets a a 0).length = active a := by
  unfold sharedSubnets active
  simp only [if_true]
  cases a with
  | nil => simp
  | cons x xs =>
    simp only [List.isEmpty_cons, Bool.or_self, Bool.false_eq_true, if_false]
    -- generalise the scan
    have key : ∀ (l : List Nat) (i cnt L : Nat), cnt + l.length ≤ L →
        (sharedGo l l i cnt (some L)).length = (l.filter (· > 0)).length := by
      intro l
      induction l with
      | nil => intro i cnt L _; simp [sharedGo]
      | cons y ys ih =>
        intro i cnt L hL
        unfold sharedGo
        simp only [List.length_cons] at hL
        by_cases hy : y = 0
        · subst hy
          simp only [or_self, if_true]
          rw [ih (i + 1) cnt L (by omega)]
          simp
        · have hy' : ¬ (y = 0 ∨ y = 0) := by omega
          simp only [hy', if_false]
          have hpos : y > 0 := by omega
          split
          · rename_i hlim
            have : L = cnt + 1 := by injection hlim
            have hys : ys = [] := by
              cases ys with
              | nil => rfl
              | cons z zs => simp at hL; omega
            subst hys
            simp [List.filter, hpos]
          · rw [List.length_cons, ih (i + 1) (cnt + 1) L (by omega)]
            simp [List.filter, hpos]
    exact key (x :: xs) 0 0 (x :: xs).length (by simp)

/-- non-vacuity / concrete evaluation: limit 0 = all, limit 1 = the first one, short peer vector cuts the scan -/
example : sharedSubnets [1,0,1,1,0,7] [1,1,0,1,0,1] 0 = [0,3,5] ∧ sharedSubnets [1,0,1,1,0,7] [1,1,0,1,0,1] 1 = [0] ∧
    sharedSubnets [1,0,1,1,0,7] [1,1,0,1] 0 = [0,3] ∧ sharedSubnets [1,0,1,1,0,7] [1,1,0,1,0,1] (-1) = [0,3,5] ∧
    diffSubnets [1,0,1] [1,1,1,0] = [(1,1),(3,0)] ∧ active [1,0,3,0] = 2 := by decide

end Ssv.Topics
