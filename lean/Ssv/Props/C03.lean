/-
C03 — Duty signatures are released only over the decided, validated duty data.
Property theorems only (helpers: Ssv/Proofs/Runner.lean; model: Ssv/Model/Runner.lean).

`step st i` is one call into a duty runner: `start` (Validator.StartDuty → StartNewDuty), `pre` / `post`
(partial-signature messages), `cons` (consensus message; the QBFT instance's internal protocol is an oracle input, the
controller's decided path and instance container are modelled), `foreign` (message for another validator or role — the
routing front). Every `KeyManager.SignBeaconObject` call is an output event `sign tag root epoch domain`.
The window theorems hold for EVERY state and input, hence for every input sequence from any state.
The "at most once per decided object" clause is proved in FULL (`C03_at_most_once`) for the code since fix c50569811
(`prevDecided` also holds when the duty already took a decided value). The behaviour before the fix is kept as
`processConsOld` / `stepOld` / `runOld`; its refutation `C03_at_most_once_old_refuted` is a regression lemma (the
witness is replayed on the real runner as corpus/C03/runner_resign_after_eviction.ops).
-/
import Ssv.Proofs.Runner

namespace Ssv.Runner

/-! ## ties to the regenerated facts -/

/-- `SignBeaconObject` is reached only through `signBeaconObject`, which is called only inside `executeDuty` (proposer,
    aggregator, contribution, registration, exit: the slot-bound pre-consensus objects) and inside `ProcessConsensus`
    after `baseConsensusMsgProcessing` (attester, proposer, aggregator, sync committee, contribution); never inside
    `ProcessPreConsensus`, `ProcessPostConsensus` or any `BaseRunner` helper -/
theorem C03_tie_sign_sites :
    Gen.calls_signBeaconObject = ["EstimatedEpochAtSlot", "DomainData", "SignBeaconObject"] ∧
    Gen.calls_att_executeDuty = ["decide"] ∧ Gen.calls_sc_executeDuty = ["decide"] ∧
    Gen.calls_prop_executeDuty = ["signBeaconObject"] ∧ Gen.calls_agg_executeDuty = ["signBeaconObject"] ∧
    Gen.calls_contrib_executeDuty = ["signBeaconObject"] ∧ Gen.calls_reg_executeDuty = ["signBeaconObject"] ∧
    Gen.calls_exit_executeDuty = ["signBeaconObject"] ∧
    Gen.calls_att_ProcessConsensus = ["baseConsensusMsgProcessing", "signBeaconObject"] ∧
    Gen.calls_prop_ProcessConsensus = ["baseConsensusMsgProcessing", "signBeaconObject"] ∧
    Gen.calls_agg_ProcessConsensus = ["baseConsensusMsgProcessing", "signBeaconObject"] ∧
    Gen.calls_sc_ProcessConsensus = ["baseConsensusMsgProcessing", "signBeaconObject"] ∧
    Gen.calls_contrib_ProcessConsensus = ["baseConsensusMsgProcessing", "signBeaconObject"] ∧
    Gen.calls_reg_ProcessConsensus = [] ∧ Gen.calls_exit_ProcessConsensus = [] ∧
    Gen.calls_att_ProcessPreConsensus = [] ∧ Gen.calls_sc_ProcessPreConsensus = [] ∧
    Gen.calls_prop_ProcessPreConsensus = ["basePreConsensusMsgProcessing", "decide"] ∧
    Gen.calls_agg_ProcessPreConsensus = ["basePreConsensusMsgProcessing", "decide"] ∧
    Gen.calls_contrib_ProcessPreConsensus = ["basePreConsensusMsgProcessing", "decide"] ∧
    Gen.calls_reg_ProcessPreConsensus = ["basePreConsensusMsgProcessing"] ∧
    Gen.calls_exit_ProcessPreConsensus = ["basePreConsensusMsgProcessing"] ∧
    Gen.calls_att_ProcessPostConsensus = [] ∧ Gen.calls_prop_ProcessPostConsensus = [] ∧
    Gen.calls_agg_ProcessPostConsensus = [] ∧ Gen.calls_sc_ProcessPostConsensus = [] ∧
    Gen.calls_contrib_ProcessPostConsensus = [] ∧ Gen.calls_reg_ProcessPostConsensus = [] ∧
    Gen.calls_exit_ProcessPostConsensus = [] := by decide

/-- no `BaseRunner` helper signs a beacon object -/
theorem C03_tie_base_helpers_do_not_sign :
    Gen.calls_base_baseStartNewDuty_signs = [] ∧ Gen.calls_base_baseStartNewNonBeaconDuty_signs = [] ∧
    Gen.calls_base_baseSetupForNewDuty_signs = [] ∧ Gen.calls_base_basePreConsensusMsgProcessing_signs = [] ∧
    Gen.calls_base_baseConsensusMsgProcessing_signs = [] ∧ Gen.calls_base_basePostConsensusMsgProcessing_signs = [] ∧
    Gen.calls_base_basePartialSigMsgProcessing_signs = [] ∧ Gen.calls_base_didDecideCorrectly_signs = [] ∧
    Gen.calls_base_decide_signs = [] ∧ Gen.calls_base_hasRunningDuty_signs = [] ∧
    Gen.calls_base_ShouldProcessDuty_signs = [] ∧ Gen.calls_base_ShouldProcessNonBeaconDuty_signs = [] ∧
    Gen.calls_base_ValidatePreConsensusMsg_signs = [] ∧ Gen.calls_base_ValidatePostConsensusMsg_signs = [] ∧
    Gen.calls_base_validateDecidedConsensusData_signs = [] ∧ Gen.calls_base_verifyExpectedRoot_signs = [] ∧
    Gen.calls_base_validatePartialSigMsgForSlot_signs = [] ∧ Gen.calls_base_resolveDuplicateSignature_signs = [] ∧
    Gen.calls_base_FallBackAndVerifyEachSignature_signs = [] ∧ Gen.calls_base_verifyBeaconPartialSignature_signs = [] ∧
    Gen.calls_base_signPostConsensusMsg_signs = [] ∧ Gen.calls_base_compactInstanceIfNeeded_signs = [] ∧
    Gen.calls_base_registerTimeoutHandler_signs = [] := by decide

/-- guard order: duty admission before state reset before execution; in `baseConsensusMsgProcessing` the controller runs
    first (after `prevDecided` was read from the instance object and — second `hasRunningDuty` — from the duty's decided
    value, fix c50569811; the `Decode`/`hasRunningDuty` pair before `ProcessMsg` is the flattened body of the unlisted helper
    `processPreConsensusJustification`), then the running-duty check, `didDecideCorrectly`, decoding, and the value check — all before
    `ProcessConsensus` signs; partial-signature validation order; routing by validator key and role -/
theorem C03_tie_guard_order :
    Gen.calls_baseStartNewDuty = ["ShouldProcessDuty", "baseSetupForNewDuty", "executeDuty"] ∧
    Gen.calls_baseStartNewNonBeaconDuty = ["ShouldProcessNonBeaconDuty", "baseSetupForNewDuty", "executeDuty"] ∧
    Gen.calls_baseConsensusMsgProcessing = ["hasRunningDuty", "IsDecided", "hasRunningDuty", "Decode", "hasRunningDuty",
      "ProcessMsg", "compactInstanceIfNeeded", "hasRunningDuty", "didDecideCorrectly", "Decode", "validateDecidedConsensusData"] ∧
    Gen.calls_validateDecidedConsensusData = ["Encode", "GetValCheckF"] ∧
    Gen.calls_decide = ["Encode", "GetValCheckF", "StartNewInstance", "InstanceForHeight", "registerTimeoutHandler"] ∧
    Gen.calls_ValidatePostConsensusMsg_full = ["hasRunningDuty", "IsDecided", "Decode", "validatePartialSigMsgForSlot",
      "expectedPostConsensusRootsAndDomain", "verifyExpectedRoot"] ∧
    Gen.calls_ValidatePreConsensusMsg_full = ["hasRunningDuty", "validatePartialSigMsgForSlot",
      "expectedPreConsensusRootsAndDomain", "verifyExpectedRoot"] ∧
    Gen.calls_Validator_ProcessMessage = ["DutyRunnerForMsgID", "validateMessage", "ProcessConsensus", "ProcessPostConsensus",
      "ProcessPreConsensus", "handleEventMessage"] ∧
    Gen.calls_validateMessage = ["MessageIDBelongs", "GetData"] ∧
    Gen.src_didDecideCorrectly = "2bd33bfde6b1f642" ∧ Gen.src_ShouldProcessDuty = "954f6efdc45a96a8" ∧
    Gen.src_ShouldProcessNonBeaconDuty = "a8a4c0971702d998" := by decide

/-- the controller's paths the model follows, and its instance container: capacity 2, `addNewInstance` as modelled
    (the first `addNewInstance` in `UponDecided` re-inserts an instance reloaded from storage: full nodes only, the model
    is the non-full node where `InstanceForHeight` = `FindInstance`) -/
theorem C03_tie_controller :
    Gen.calls_Controller_ProcessMsg = ["BaseMsgValidation", "IsDecidedMsg", "UponDecided", "isFutureMessage", "UponExistingInstanceMsg"] ∧
    Gen.calls_Controller_UponDecided = ["ValidateDecided", "InstanceForHeight", "addNewInstance", "NewInstance", "addNewInstance", "IsDecided"] ∧
    Gen.calls_Controller_StartNewInstance = ["GetValueCheckF", "FindInstance", "addAndStoreNewInstance", "Start", "forceStopAllInstanceExceptCurrent"] ∧
    Gen.ctrl_InstanceContainerDefaultCapacity = 2 ∧ Gen.src_addNewInstance = "2988559c7741703e" := by decide

/-! ## the signing window (every state, every input) -/

/-- Every validator-key signature is either
    (a) a pre-consensus object of the duty being started — emitted inside an ACCEPTED `StartDuty(slot)`, over one of that
        duty's slot-bound pre-consensus roots, with the epoch of that slot and the role's pre-consensus domain; or
    (b) an object contained in the value `v` that the controller reports decided for this very consensus message — a
        message carrying the controller's identifier, `v` backed by a valid quorum certificate (`ValidateDecided`) or by
        the instance's own decision — while a duty is running (not finished), the reported height is the height of the
        duty's running instance, that instance object was not decided before and the duty holds no decided value yet, `v` decodes and PASSES the duty's value
        check; signed with the epoch of `v`'s duty slot and the role's post-consensus domain. -/
theorem C03_sign_window (st : RSt) (i : In) (e : Ev) (he : e ∈ (step st i).2.2) (hs : e.isSign = true) :
    (∃ slot preObjs iok, i = .start slot preObjs iok ∧ (step st i).2.1 = true ∧ st.role.signsAtStart = true ∧
        ∃ o ∈ preObjs, e = .sign (.atStart slot) o (epochOf slot) st.role.preDomain)
    ∨
    (∃ c h v d rid, i = .cons c ∧ (ctlProcess st c).2 = .decidedMsg h v ∧
        c.idOk = true ∧ h = c.height ∧ v = c.value ∧
        ((c.isDecided = true ∧ c.valid = true) ∨ (c.isDecided = false ∧ c.instDecides = true ∧ c.instErr = false)) ∧
        st.duty = some d ∧ d.finished = false ∧ d.running = some rid ∧ heightOf (ctlProcess st c).1 rid = h ∧
        prevDecided st = false ∧ st.role.hasConsensus = true ∧
        v.decodeOk = true ∧ v.vcOk = true ∧
        ∃ o ∈ v.objs, e = .sign (.decided h) o (epochOf v.slot) st.role.postDomain) := by
  cases i with
  | start slot pre iok =>
    left
    obtain ⟨a, b, o, ho, rfl⟩ := startDuty_sign st slot pre iok e he hs
    exact ⟨slot, pre, iok, rfl, b, a, o, ho, rfl⟩
  | pre m slot iok => exact absurd (processPre_no_sign st m slot iok e he) (by simp [hs])
  | post m slot => exact absurd (processPost_no_sign st m slot e he) (by simp [hs])
  | «foreign» => simp [step] at he
  | cons c =>
    right
    obtain ⟨h, v, d, rid, hctl, hd, hfin, hr, hh, hprev, hcons, hdec, hvc, _, _, _, o, ho, rfl⟩ := processConsG_sign (prevDecided st) st c e he hs
    obtain ⟨s1, s2, s3, s4⟩ := ctlProcess_decided_sound st c h v hctl
    exact ⟨c, h, v, d, rid, rfl, hctl, s1, s2, s3, s4, hd, hfin, hr, hh, hprev, hcons, hdec, hvc, o, ho, rfl⟩

/-- the window over whole traces: for ALL input sequences from ANY state, every signature in the trace satisfies the
    window rule relative to the state in which its input arrived -/
theorem C03_sign_window_trace (st : RSt) (ins : List In) :
    ∀ p ∈ run st ins, ∀ e ∈ p.2, e.isSign = true →
      (∃ slot preObjs iok o, p.1 = .start slot preObjs iok ∧ o ∈ preObjs ∧ e = .sign (.atStart slot) o (epochOf slot) st.role.preDomain)
      ∨ (∃ c o, p.1 = .cons c ∧ c.idOk = true ∧ c.value.decodeOk = true ∧ c.value.vcOk = true ∧
          ((c.isDecided = true ∧ c.valid = true) ∨ (c.isDecided = false ∧ c.instDecides = true)) ∧
          o ∈ c.value.objs ∧ e = .sign (.decided c.height) o (epochOf c.value.slot) st.role.postDomain) := by
  induction ins generalizing st with
  | nil => simp [run]
  | cons i t ih =>
    intro p hp e he hs
    simp only [run, List.mem_cons] at hp
    rcases hp with rfl | hp
    · rcases C03_sign_window st i e he hs with ⟨slot, pre, iok, rfl, _, _, o, ho, rfl⟩ |
        ⟨c, h, v, d, rid, rfl, _, s1, s2, s3, s4, _, _, _, _, _, _, hdec, hvc, o, ho, rfl⟩
      · exact Or.inl ⟨slot, pre, iok, o, rfl, ho, rfl⟩
      · subst s2; subst s3
        refine Or.inr ⟨c, o, rfl, s1, hdec, hvc, ?_, ho, rfl⟩
        rcases s4 with ⟨a, b⟩ | ⟨a, b, _⟩
        · exact Or.inl ⟨a, b⟩
        · exact Or.inr ⟨a, b⟩
    · have := ih (step st i).1 p hp e he hs
      rw [step_role] at this
      exact this

example : ∃ e ∈ (step (init .proposer 4) (.start 64 [9] true)).2.2, e.isSign = true :=
  ⟨.sign (.atStart 64) 9 2 .randao, by decide, rfl⟩

/-- partial-signature messages (pre- and post-consensus) and messages for another validator key or role never cause a
    validator-key signature -/
theorem C03_no_sign_from_partial_sig_or_foreign (st : RSt) (i : In)
    (hi : (∃ m slot iok, i = .pre m slot iok) ∨ (∃ m slot, i = .post m slot) ∨ i = .foreign) :
    ∀ e ∈ (step st i).2.2, e.isSign = false := by
  rcases hi with ⟨m, slot, iok, rfl⟩ | ⟨m, slot, rfl⟩ | rfl
  · exact processPre_no_sign st m slot iok
  · exact processPost_no_sign st m slot
  · simp [step]

/-- consensus messages for another height than the running instance's, after the duty finished, before any duty started,
    with a foreign identifier, not carrying a valid first decision, or when the duty already took a decided value never cause a signature -/
theorem C03_no_sign_outside_running_height (st : RSt) (c : ConsIn)
    (h : st.duty = none ∨ (∃ d, st.duty = some d ∧ d.finished = true) ∨ (∃ d, st.duty = some d ∧ d.running = none) ∨
         (∃ d rid, st.duty = some d ∧ d.running = some rid ∧ heightOf (ctlProcess st c).1 rid ≠ c.height) ∨
         c.idOk = false ∨ (c.isDecided = true ∧ c.valid = false) ∨ (c.isDecided = false ∧ c.instDecides = false) ∨
         prevDecided st = true) :
    ∀ e ∈ (step st (.cons c)).2.2, e.isSign = false := by
  intro e he
  cases hs : e.isSign with
  | false => rfl
  | true =>
    exfalso
    rcases C03_sign_window st (.cons c) e he hs with ⟨_, _, _, hi, _⟩ |
      ⟨c', hh, v, d, rid, hi, _, s1, s2, _, s4, hd, hfin, hr, hht, hprev, _⟩
    · cases hi
    · injection hi with hi; subst hi
      rcases h with h | ⟨d', h1, h2⟩ | ⟨d', h1, h2⟩ | ⟨d', rid', h1, h2, h3⟩ | h | ⟨h1, h2⟩ | ⟨h1, h2⟩ | h
      · rw [h] at hd; cases hd
      · rw [h1] at hd; injection hd with hd; subst hd; rw [h2] at hfin; cases hfin
      · rw [h1] at hd; injection hd with hd; subst hd; rw [h2] at hr; cases hr
      · rw [h1] at hd; injection hd with hd; subst hd; rw [h2] at hr; injection hr with hr; subst hr
        exact h3 (hht.trans s2)
      · rw [h] at s1; cases s1
      · rcases s4 with ⟨_, b⟩ | ⟨a, _⟩
        · rw [h2] at b; cases b
        · rw [h1] at a; cases a
      · rcases s4 with ⟨a, _⟩ | ⟨_, b, _⟩
        · rw [h1] at a; cases a
        · rw [h2] at b; cases b
      · rw [h] at hprev; cases hprev

/-! ## at most once per decided object -/

/-- FULL statement: over every input sequence from the initial state (decided values list each contained object once),
    no (decision height, object) pair is signed twice -/
def C03_at_most_once_full : Prop :=
  ∀ (role : Role) (n : Nat) (ins : List In), (∀ i ∈ ins, ∀ c, i = .cons c → c.value.objs.Nodup) →
    (decidedSigns (run (init role n) ins)).Nodup

/-- PROVED in full for the current code (fix c50569811). Invariant: a duty that signed holds a decided value, which makes
    `prevDecided` true until the next duty start; a later duty runs at a strictly greater height (or, for slot 0 with the
    controller still at height 0, cannot start an instance because one of height 0 is still stored). -/
theorem C03_at_most_once : C03_at_most_once_full := by
  intro role n ins hobjs
  simpa using run_decidedSigns_nodup ins (init role n) [] List.nodup_nil (Inv.init role n) hobjs

/-- a valid certificate for value 1 (one object, root 7) at height `h` -/
def C03_witness_cert (h : Nat) : In :=
  .cons { idOk := true, height := h, isDecided := true, valid := true,
          value := { id := 1, decodeOk := true, vcOk := true, slot := 12, objs := [7], getOk := true },
          instDecides := false, instErr := false }

/-- the witness of the repaired defect: attester duty for slot 12 running; certificates for heights 13 and 14 arrive (the
    node lags behind) and push instance 12 out of the controller's two-slot container; after that every certificate for
    height 12 creates a fresh, never-stored instance and is a "first decision" again -/
def C03_witness : List In :=
  [.start 12 [] true, C03_witness_cert 13, C03_witness_cert 14, C03_witness_cert 12, C03_witness_cert 12]

theorem C03_witness_objs : ∀ i ∈ C03_witness, ∀ c, i = .cons c → c.value.objs.Nodup := by
  intro i hi c hc
  subst hc
  simp only [C03_witness, C03_witness_cert, List.mem_cons, List.not_mem_nil, or_false] at hi
  rcases hi with h | h | h | h | h
  · cases h
  all_goals (injection h with h; subst h; decide)

/-- the same statement for the code BEFORE the fix -/
def C03_at_most_once_old_full : Prop :=
  ∀ (role : Role) (n : Nat) (ins : List In), (∀ i ∈ ins, ∀ c, i = .cons c → c.value.objs.Nodup) →
    (decidedSigns (runOld (init role n) ins)).Nodup

/-- REGRESSION lemma: before fix c50569811 the clause was false — the same certificate delivered twice was signed twice
    because `didDecideCorrectly` only consulted the runner's own, never updated, instance object -/
theorem C03_at_most_once_old_refuted : ¬ C03_at_most_once_old_full := by
  intro h
  have := h .attester 4 C03_witness C03_witness_objs
  revert this
  decide

/-- what the witness does: signed twice before the fix, once now; the container holds heights 14 and 13 -/
theorem C03_witness_run :
    decidedSigns (runOld (init .attester 4) C03_witness) = [(12, 7), (12, 7)] ∧
    decidedSigns (run (init .attester 4) C03_witness) = [(12, 7)] ∧
    (finalState (init .attester 4) C03_witness).stored.map (heightOf (finalState (init .attester 4) C03_witness)) = [14, 13] := by
  decide

/-- the hypothesis of `C03_at_most_once` is satisfiable with a sequence that signs -/
example : (∀ i ∈ C03_witness, ∀ c, i = .cons c → c.value.objs.Nodup) ∧
    decidedSigns (run (init .attester 4) C03_witness) ≠ [] := ⟨C03_witness_objs, by decide⟩

end Ssv.Runner
