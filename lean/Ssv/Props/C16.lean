/-
C16 — Each assigned beacon duty is dispatched exactly once, at its slot.
Property theorems only.  Model: Ssv/Model/Duties.lean (attester / proposer / sync-committee handler, duty store);
the four clauses as checks over the output atoms of a run: Ssv/Proofs/DutiesSpec.lean; helper lemmas and the
inductive invariants: Ssv/Proofs/Duties*.lean.

Every theorem quantifies over ALL network parameters, initial clocks, initial fetch outcomes and ALL event lists
(ticks, reorg notices, indices-change notices, each tick paired with arbitrary fetch outcomes `noIdx | fail | ok`),
i.e. over every interleaving of the three event sources with fetch failures and changing assignments, across any
number of epoch and sync-period boundaries.  Nothing is bounded.

LEVEL: partial (DESIGN §7.16).  Outside the model: wall-clock tick timing (the clock is an event argument; the
exactly-once clause only speaks about ticks whose clock equals their slot), the `ExecuteDuties` goroutines and the
one-third-slot wait; slot-ticker uniqueness is the hypothesis `ticksIncreasing`.

What is FALSE of the code (witnesses below, replayed on the real handlers by the harness, corpus/C16/*):
* exactly-once-if-fetched, attester: a reorg(current) — or indices-change — notice handled after the last tick of
  epoch e and before the first tick of e+1 resets the already fetched duties of e+1; the first tick of e+1
  executes before it fetches, and after a reorg(current) nothing re-fetches e+1 at all;
* exactly-once-if-fetched, sync committee: the same at a period boundary (the whole next period is lost);
* only-latest, attester: `fetchAndProcessDuties` adds to the epoch's map without resetting it; if a notice is
  handled out of slot order (a reorg notice older than the last tick) an epoch is fetched twice without a reset in
  between and duties of the superseded assignment are dispatched.
-/
import Ssv.Proofs.DutiesLiveProp
import Ssv.Proofs.DutiesLiveAtt
import Ssv.Proofs.DutiesRepair

namespace Ssv.Duties

/-! ## ties to the regenerated facts -/

def isStrLit (s : String) : Bool := s.front == '"'
/-- literals / operators of a function body, string literals (log texts) dropped -/
def noStr (l : List String) : List String := l.filter (fun s => !isStrLit s)

/-- constants and arithmetic the model was written against: `syncCommitteePreparationEpochs`, the slot fractions of
    `shouldFetchNexEpoch` (`%`, `>`, `/2-2`) and `shouldFetchNextPeriod` (`>= /2-1`, `>= epp-prep`), the windows of
    the three `shouldExecute`, `LastSlotOfSyncPeriod` (`… - 2`), 256 epochs per period -/
theorem C16_tie_constants :
    Gen.duties_syncCommitteePreparationEpochs = 2 ∧ syncPrep = Gen.duties_syncCommitteePreparationEpochs ∧
    Gen.lits_att_shouldFetchNexEpoch = [">", "%", "-", "/", "2", "2"] ∧
    Gen.lits_sync_shouldFetchNextPeriod = ["&&", ">=", "%", "-", "/", "2", "1", ">=", "%", "-"] ∧
    Gen.lits_att_shouldExecute = ["&&", ">=", "<=", "-", "==", "+", "1"] ∧
    Gen.lits_prop_shouldExecute = ["==", "==", "+", "1"] ∧
    Gen.lits_sync_shouldExecute = ["==", "==", "+", "1"] ∧
    Gen.lits_net_LastSlotOfSyncPeriod = ["-", "+", "1", "1", "-", "+", "1", "2"] ∧
    Gen.lits_net_EpochsPerSyncCommitteePeriod = ["256"] := by decide

/-- arithmetic inside the three `HandleDuties` bodies (mid-epoch flag `== …/2-2`, last slot `== …-1`, `epoch+1`,
    `epoch-1`, `period±1`); log strings are ignored -/
theorem C16_tie_handler_arithmetic :
    noStr Gen.lits_att_HandleDuties =
      ["u<-", "u<-", "+", "%", "32", "1", "==", "%", "-", "/", "2", "2", "==", "%", "-", "1", "u<-", "+", "%", "32",
       "1", "+", "1", "+", "1", "u<-", "+", "%", "32", "1", "+", "1"] ∧
    noStr Gen.lits_prop_HandleDuties =
      ["u<-", "u<-", "+", "%", "32", "1", "+", "1", "*", "100", "==", "%", "-", "1", "-", "1", "u<-", "+", "%", "32",
       "1", "u<-", "+", "%", "32", "1"] ∧
    noStr Gen.lits_sync_HandleDuties =
      ["u<-", "u<-", "+", "%", "32", "1", "+", "1", "*", "100", "&&", "==", "%", "-", "/", "2", "2", "==", "%", "-",
       "==", "-", "1", "u<-", "+", "%", "32", "1", "&&", "+", "1", "u<-", "+", "%", "32", "1"] := by decide

/-- call-site facts: in every ticker branch the fetch-first path fetches then executes and the regular path
    executes BEFORE it re-fetches; `ResetEpoch`/`Reset` calls of the ticker / reorg / indices branches; the
    proposer and sync-committee fetches reset the epoch (period) before adding, the attester fetch does not;
    `processExecution` = store lookup → `shouldExecute` → `executeDuties` -/
theorem C16_tie_callsites :
    Gen.calls_att_HandleDuties =
      ["processFetching", "processExecution", "processExecution", "ResetEpoch", "processFetching", "ResetEpoch",
       "ResetEpoch", "shouldFetchNexEpoch", "ResetEpoch", "shouldFetchNexEpoch", "ResetEpoch",
       "shouldFetchNexEpoch", "ResetEpoch"] ∧
    Gen.calls_prop_HandleDuties =
      ["processFetching", "processExecution", "processExecution", "processFetching", "ResetEpoch", "ResetEpoch"] ∧
    Gen.calls_sync_HandleDuties =
      ["shouldFetchNextPeriod", "processFetching", "processExecution", "processExecution", "processFetching",
       "LastSlotOfSyncPeriod", "Reset", "shouldFetchNextPeriod", "Reset", "shouldFetchNextPeriod"] ∧
    Gen.calls_att_fetch = ["CommitteeActiveIndices", "AttesterDuties", "Add"] ∧
    Gen.calls_prop_fetch = ["AllActiveIndices", "CommitteeActiveIndices", "ProposerDuties", "ResetEpoch", "Add"] ∧
    Gen.calls_sync_fetch =
      ["FirstEpochOfSyncPeriod", "EstimatedCurrentEpoch", "FirstEpochOfSyncPeriod", "AllActiveIndices",
       "CommitteeActiveIndices", "SyncCommitteeDuties", "Reset", "Add"] ∧
    Gen.calls_att_exec = ["CommitteeSlotDuties", "shouldExecute", "executeDuties"] ∧
    Gen.calls_prop_exec = ["CommitteeSlotDuties", "shouldExecute", "executeDuties"] ∧
    Gen.calls_sync_exec = ["CommitteePeriodDuties", "shouldExecute", "executeDuties"] ∧
    Gen.calls_prop_initial = ["processFetching"] ∧ Gen.calls_sync_initial = ["processFetching"] := by decide

/-- fingerprints, only where no finer fact exists: the two `processFetching` bodies (early return on a failed
    fetch, flag cleared only on success) and the duty-store map operations -/
theorem C16_tie_fingerprints :
    Gen.src_att_processFetching = "d15994b1832e7d57" ∧ Gen.src_sync_processFetching = "0b2ae893b5606366" ∧
    Gen.src_store_Add = "84b87a8b9b100b98" ∧ Gen.src_store_CommitteeSlotDuties = "b45bc44235cefab2" := by decide

/-! ## at most once -/

/-- No (slot, validator) pair is dispatched twice in a run — every handler, every network, every event list whose
    tick slots strictly increase (the slot ticker; without it the same tick repeated dispatches again). -/
theorem C16_dispatch_at_most_once (k : Kind) (n : Net) (clock0 : Nat) (r0 : FetchRes) (evs : List Event)
    (hticks : ticksIncreasing none evs = true) : AtMostOnce (run k n clock0 r0 evs) :=
  atMostOnce_run k n clock0 r0 evs hticks

/-- non-vacuity: a run with increasing ticks that dispatches two duties -/
example : ticksIncreasing none [.tick 47 47 (.ok [1] [⟨47, 1, 5⟩, ⟨49, 1, 6⟩]) .fail, .tick 48 48 .fail .fail,
      .tick 49 49 .fail .fail] = true ∧
    execPairs (run .att ⟨32, 256⟩ 0 .noIdx [.tick 47 47 (.ok [1] [⟨47, 1, 5⟩, ⟨49, 1, 6⟩]) .fail, .tick 48 48 .fail .fail,
      .tick 49 49 .fail .fail]) = [(47, 1), (49, 1)] := by decide

/-- the hypothesis is needed: the same slot ticked twice dispatches its duties twice -/
example : ¬ AtMostOnce (run .att ⟨32, 256⟩ 0 .noIdx [.tick 47 47 (.ok [1] [⟨47, 1, 5⟩]) .fail, .tick 47 47 .fail .fail]) := by
  unfold AtMostOnce; decide

/-! ## only at its own slot, inside the window -/

/-- Every dispatched duty carries the slot of the tick that dispatched it, and that slot is inside the handler's
    `shouldExecute` window of the clock — every handler, network, event list (no hypothesis at all). -/
theorem C16_dispatch_only_at_own_slot_window (k : Kind) (n : Net) (clock0 : Nat) (r0 : FetchRes) (evs : List Event) :
    WindowOK k n (run k n clock0 r0 evs) :=
  window_run k n clock0 r0 evs

/-- the windows, spelled out -/
theorem C16_window_meaning (n : Net) (clock slot : Nat) :
    (inWindow .att n clock slot = true ↔ (slot ≤ clock ∧ clock - slot ≤ n.spe) ∨ clock + 1 = slot) ∧
    (inWindow .prop n clock slot = true ↔ clock = slot ∨ clock + 1 = slot) ∧
    (inWindow .sync n clock slot = true ↔ clock = slot ∨ clock + 1 = slot) := by
  simp [inWindow, attShouldExecute, propShouldExecute]

/-! ## only the most recently fetched assignment -/

/-- A dispatched duty belongs to the assignment returned by the most recent successful fetch for the tick's epoch
    (period).  Proposer and sync committee: every event list.  Attester: every event list whose event slots never go
    backwards (`envOK`). -/
theorem C16_dispatch_only_latest (k : Kind) (n : Net) (clock0 : Nat) (r0 : FetchRes) (evs : List Event)
    (henv : k = .att → envOK none clock0 evs = true) : onlyLatestOK k n (run k n clock0 r0 evs) = true := by
  cases k with
  | att => exact att_onlyLatest_run n clock0 r0 evs (henv rfl)
  | prop => exact prop_onlyLatest_run n clock0 r0 evs
  | sync => exact sync_onlyLatest_run n clock0 r0 evs

/-- the full statement for the attester handler: no assumption on the order of notices -/
def C16_dispatch_only_latest_attester_full : Prop :=
  ∀ (n : Net) (clock0 : Nat) (r0 : FetchRes) (evs : List Event), n.ok = true → ticksIncreasing none evs = true →
    onlyLatestOK .att n (run .att n clock0 r0 evs) = true

/-- witness: epoch 2 fetched at slot 47; a reorg(previous) notice for slot 33 handled after that tick (it resets
    epoch 1 only and sets `fetchFirst`); epoch 2 is fetched again at slot 64 on top of the old descriptors -/
def C16_witness_stale : List Event :=
  [.tick 47 47 (.ok [1] []) (.ok [1] [⟨64, 1, 7⟩]), .reorg 33 true false, .tick 64 64 (.ok [2] [⟨64, 2, 8⟩]) .fail]

/-- FALSE of the code: the attester fetch does not reset the epoch it re-fetches -/
theorem C16_dispatch_only_latest_attester_full_refuted : ¬ C16_dispatch_only_latest_attester_full := by
  intro h
  have := h ⟨32, 256⟩ 0 .noIdx C16_witness_stale (by decide) (by decide)
  revert this
  decide

/-- the true statement (= `C16_dispatch_only_latest` at `k = att`); what is missing for the full one: a
    `ResetEpoch(epoch)` before `Add` in `AttesterHandler.fetchAndProcessDuties` (the other two handlers have it) -/
theorem C16_dispatch_only_latest_attester_partial (n : Net) (clock0 : Nat) (r0 : FetchRes) (evs : List Event)
    (henv : envOK none clock0 evs = true) : onlyLatestOK .att n (run .att n clock0 r0 evs) = true :=
  att_onlyLatest_run n clock0 r0 evs henv

/-- the witness violates exactly the side condition; a slot-ordered run with a re-fetch satisfies it -/
example : envOK none 0 C16_witness_stale = false ∧
    envOK none 0 [.tick 47 47 (.ok [1] []) (.ok [1] [⟨64, 1, 7⟩]), .reorg 50 true false,
      .tick 51 51 (.ok [2] []) (.ok [2] [⟨64, 2, 8⟩]), .tick 64 64 .fail .fail] = true ∧
    execPairs (run .att ⟨32, 256⟩ 0 .noIdx [.tick 47 47 (.ok [1] []) (.ok [1] [⟨64, 1, 7⟩]), .reorg 50 true false,
      .tick 51 51 (.ok [2] []) (.ok [2] [⟨64, 2, 8⟩]), .tick 64 64 .fail .fail]) = [(64, 2)] := by decide

/-! ## exactly once if fetched -/

/-- the full statement: for every run whose event slots never go backwards, at every tick whose clock equals its
    slot, every duty of the most recent successful (and since then not voided) fetch for that epoch (period) is
    dispatched -/
def C16_dispatch_exactly_once_if_fetched_full (k : Kind) : Prop :=
  ∀ (n : Net) (clock0 : Nat) (r0 : FetchRes) (evs : List Event), n.ok = true → envOK none clock0 evs = true →
    exactlyOnceOK k n (run k n clock0 r0 evs) = true

/-- The full statement HOLDS for the proposer handler. -/
theorem C16_dispatch_exactly_once_if_fetched_proposer : C16_dispatch_exactly_once_if_fetched_full .prop :=
  fun n clock0 r0 evs _ henv => prop_exactly_run n clock0 r0 evs henv

/-- witness (DESIGN §8-8): duties of epoch 2 (slots 64, 66) fetched at slot 47; reorg(current) notice for slot 63
    handled after the last tick of epoch 1; the tick of slot 64 dispatches nothing and re-fetches nothing -/
def C16_witness_reorg : List Event :=
  [.tick 47 47 (.ok [1] []) (.ok [1, 2] [⟨64, 1, 7⟩, ⟨66, 2, 8⟩]), .reorg 63 false true, .tick 64 64 .fail .fail,
   .tick 65 65 .fail .fail, .tick 66 66 .fail .fail]

/-- witness, indices-change variant: only the first tick of the new epoch loses its duties -/
def C16_witness_indices : List Event :=
  [.tick 47 47 (.ok [1] []) (.ok [1] [⟨64, 1, 7⟩]), .indices 63, .tick 64 64 (.ok [1] [⟨64, 1, 9⟩]) .fail]

/-- witness, sync committee (8 slots per epoch, 4 epochs per period): period 1 fetched at slot 20, reorg(current)
    notice for slot 31 (last slot of period 0) handled after its tick; the tick of slot 32 dispatches nothing, and the
    handler then fetches period 2 instead of period 1 -/
def C16_witness_sync : List Event :=
  [.tick 20 20 (.ok [] []) (.ok [1] [⟨0, 1, 7⟩]), .tick 31 31 .fail .fail, .reorg 31 false true,
   .tick 32 32 (.ok [1] [⟨0, 1, 9⟩]) .fail, .tick 33 33 .fail .fail]

/-- FALSE of the code, attester handler (reorg(current) at the epoch boundary) -/
theorem C16_dispatch_exactly_once_if_fetched_full_refuted : ¬ C16_dispatch_exactly_once_if_fetched_full .att := by
  intro h
  have := h ⟨32, 256⟩ 0 .noIdx C16_witness_reorg (by decide) (by decide)
  revert this
  decide

/-- FALSE of the code, attester handler (indices change at the epoch boundary) -/
theorem C16_dispatch_exactly_once_if_fetched_full_refuted_by_indices_change :
    ¬ C16_dispatch_exactly_once_if_fetched_full .att := by
  intro h
  have := h ⟨32, 256⟩ 0 .noIdx C16_witness_indices (by decide) (by decide)
  revert this
  decide

/-- FALSE of the code, sync-committee handler (reorg(current) at the period boundary) -/
theorem C16_dispatch_exactly_once_if_fetched_sync_full_refuted : ¬ C16_dispatch_exactly_once_if_fetched_full .sync := by
  intro h
  have := h ⟨8, 4⟩ 20 (.ok [] []) C16_witness_sync (by decide) (by decide)
  revert this
  decide

/-- after the boundary reorg the attester handler dispatches NOTHING of epoch 2 and never asks the beacon node for it
    again (the outputs of the three ticks of epoch 2 are empty) -/
theorem C16_witness_reorg_outputs :
    runFrom .att ⟨32, 256⟩ (stateAfter .att ⟨32, 256⟩ attInit (C16_witness_reorg.take 2)) (C16_witness_reorg.drop 2) =
      [.execs 64 64 [], .execs 65 65 [], .execs 66 66 []] := by decide

/-- The true statement: exactly-once-if-fetched for every handler, network and event list whose event slots never
    go backwards, provided no reorg(current) / indices-change notice that resets the NEXT epoch's (period's) duties is
    followed directly by a tick of a later epoch (period) (`quietOK`; always true for the proposer handler).
    Missing for the full statement: the first tick of a new epoch (period) must fetch before it executes when the
    duties of that epoch (period) were reset (see notes/C16.md for the repair). -/
theorem C16_dispatch_exactly_once_if_fetched_partial (k : Kind) (n : Net) (clock0 : Nat) (r0 : FetchRes)
    (evs : List Event) (hn : n.ok = true) (henv : envOK none clock0 evs = true)
    (hquiet : quietOK k n (ffInit k) none evs = true) : exactlyOnceOK k n (run k n clock0 r0 evs) = true := by
  cases k with
  | att =>
    have hspe : 0 < n.spe := by
      simp only [Net.ok, Bool.and_eq_true, decide_eq_true_eq] at hn
      omega
    exact att_exactly_run n hspe clock0 r0 evs henv hquiet
  | prop => exact prop_exactly_run n clock0 r0 evs henv
  | sync => exact sync_exactly_run n clock0 r0 evs henv hquiet

/-- "exactly once": every owed duty is dispatched (partial theorem above) and nothing is dispatched twice -/
theorem C16_dispatch_exactly_once_if_fetched (k : Kind) (n : Net) (clock0 : Nat) (r0 : FetchRes)
    (evs : List Event) (hn : n.ok = true) (henv : envOK none clock0 evs = true)
    (hquiet : quietOK k n (ffInit k) none evs = true) :
    exactlyOnceOK k n (run k n clock0 r0 evs) = true ∧ AtMostOnce (run k n clock0 r0 evs) := by
  refine ⟨C16_dispatch_exactly_once_if_fetched_partial k n clock0 r0 evs hn henv hquiet, ?_⟩
  apply atMostOnce_run
  -- envOK implies increasing ticks
  have : ∀ (es : List Event) (lt : Option Nat) (now : Nat), envOK lt now es = true → ticksIncreasing lt es = true := by
    intro es
    induction es with
    | nil => intro _ _ _; rfl
    | cons e es ih =>
      intro lt now h
      cases e with
      | tick s c r1 r2 =>
        simp only [envOK, Bool.and_eq_true] at h
        simp only [ticksIncreasing, Bool.and_eq_true]
        exact ⟨h.1.1, ih _ _ h.2⟩
      | reorg s p c =>
        simp only [envOK, Bool.and_eq_true] at h
        exact ih _ _ h.2
      | indices c =>
        simp only [envOK, Bool.and_eq_true] at h
        exact ih _ _ h.2
  exact this evs none clock0 henv

/-- the three refutation witnesses violate exactly the side condition `quietOK` (and satisfy `envOK`) -/
example : envOK none 0 C16_witness_reorg = true ∧ quietOK .att ⟨32, 256⟩ (ffInit .att) none C16_witness_reorg = false ∧
    envOK none 0 C16_witness_indices = true ∧ quietOK .att ⟨32, 256⟩ (ffInit .att) none C16_witness_indices = false ∧
    envOK none 20 C16_witness_sync = true ∧ quietOK .sync ⟨8, 4⟩ (ffInit .sync) none C16_witness_sync = false := by
  decide

/-- non-vacuity of the partial theorem: runs with reorg and indices-change notices, a fetch failure, an epoch
    boundary and a sync-period boundary that satisfy every hypothesis and dispatch duties -/
example :
    let evs : List Event :=
      [.tick 47 47 (.ok [1] []) (.ok [1, 2] [⟨64, 1, 7⟩, ⟨66, 2, 8⟩]), .reorg 50 false true,
       .tick 51 51 (.ok [1, 2] [⟨64, 1, 9⟩, ⟨66, 2, 10⟩]) .fail, .indices 51, .tick 52 52 .fail .fail,
       .tick 63 63 (.ok [1] []) (.ok [1, 2] [⟨64, 1, 11⟩, ⟨66, 2, 12⟩]), .tick 64 64 .fail .fail, .tick 66 66 .fail .fail]
    (⟨32, 256⟩ : Net).ok = true ∧ envOK none 0 evs = true ∧ quietOK .att ⟨32, 256⟩ (ffInit .att) none evs = true ∧
    execPairs (run .att ⟨32, 256⟩ 0 .noIdx evs) = [(64, 1), (66, 2)] := by decide

example :
    let evs : List Event :=
      [.tick 20 20 (.ok [1] [⟨0, 1, 5⟩]) (.ok [1] [⟨0, 1, 7⟩]), .reorg 29 false true,
       .tick 30 30 (.ok [1] [⟨0, 1, 8⟩]) .fail, .tick 31 31 .fail .fail, .tick 32 32 .fail .fail]
    (⟨8, 4⟩ : Net).ok = true ∧ envOK none 20 evs = true ∧ quietOK .sync ⟨8, 4⟩ (ffInit .sync) none evs = true ∧
    execPairs (run .sync ⟨8, 4⟩ 20 (.ok [] []) evs) = [(20, 1), (30, 1), (31, 1), (32, 1)] := by decide

/-! ## the repair (notes/C16.md; NOT applied to /repo) -/

/-- For the model of the repaired attester and sync-committee handlers (`stepR`: at the first tick of a new epoch /
    period with `fetchNextEpoch` / `fetchNextPeriod` still set, fetch the current epoch / period before executing)
    the FULL exactly-once-if-fetched statement holds: no `quietOK` side condition. -/
theorem C16_repaired_exactly_once_if_fetched_full (n : Net) (clock0 : Nat) (r0 : FetchRes) (evs : List Event)
    (hn : n.ok = true) (henv : envOK none clock0 evs = true) :
    exactlyOnceOK .att n (runR .att n clock0 r0 evs) = true ∧
    exactlyOnceOK .sync n (runR .sync n clock0 r0 evs) = true := by
  have hspe : 0 < n.spe := by
    simp only [Net.ok, Bool.and_eq_true, decide_eq_true_eq] at hn
    omega
  exact ⟨att_exactly_runR n hspe clock0 r0 evs henv, sync_exactly_runR n clock0 r0 evs henv⟩

/-- on the boundary-reorg witness the repaired model dispatches both duties of epoch 2, the model of the existing
    code none -/
theorem C16_repaired_dispatches_witness :
    execPairs (runR .att ⟨32, 256⟩ 0 .noIdx witnessReorg) = [(64, 1), (66, 2)] ∧
    execPairs (run .att ⟨32, 256⟩ 0 .noIdx witnessReorg) = [] := repaired_dispatches_witness

end Ssv.Duties
