/-
C16 — Each assigned beacon duty is dispatched exactly once, at its slot.
Property theorems only.  Model: Ssv/Model/Duties.lean (attester / proposer / sync-committee handler and duty store,
the code as it is after fixes 1e0cc1057 and f167f5eb9; the handlers before the fix are kept as `stepOld`/`runOld`); the four clauses as
checks over the output atoms of a run: Ssv/Proofs/DutiesSpec.lean; helper lemmas and the inductive invariants:
Ssv/Proofs/Duties*.lean.

Every theorem quantifies over ALL network parameters, initial clocks, initial fetch outcomes and ALL event lists
(ticks, reorg notices, indices-change notices, each tick paired with arbitrary fetch outcomes `noIdx | fail | ok`),
i.e. over every interleaving of the three event sources with fetch failures and changing assignments, across any
number of epoch and sync-period boundaries.  Nothing is bounded.

LEVEL: partial (DESIGN §7.16).  Outside the model: wall-clock tick timing (the clock is an event argument; the
exactly-once clause only speaks about ticks whose clock equals their slot), the `ExecuteDuties` goroutines and the
one-third-slot wait; slot-ticker uniqueness is the hypothesis `ticksIncreasing`.

Hypothesis of the exactly-once theorem, `envOK`: tick slots strictly increase and NO TICK IS HANDLED AFTER AN EVENT THAT
CARRIES A LATER SLOT.  Notices may be handled arbitrarily late (a reorg / indices-change notice for slot 63 after the
tick of slot 64 or 70).  What it excludes is a tick that the select loop takes after a notice of a later slot; for that
order the statement is still FALSE of the fixed code (`C16_dispatch_exactly_once_if_fetched_anyorder_refuted`:
a reorg(previous) notice of the first half of epoch e+1 handled before the last tick of epoch e).
-/
import Ssv.Proofs.DutiesLiveProp
import Ssv.Proofs.DutiesLiveAtt
import Ssv.Model.DutiesIndices

namespace Ssv.Duties

/-! ## ties to the regenerated facts -/

def isStrLit (s : String) : Bool := s.front == '"'
/-- literals / operators of a function body, string literals (log texts) dropped -/
def noStr (l : List String) : List String := l.filter (fun s => !isStrLit s)

/-- constants and arithmetic the model was written against: `syncCommitteePreparationEpochs`, the slot fractions of
    `shouldFetchNexEpoch` (`%`, `>`, `/2-2`) and `shouldFetchNextPeriod` (`>= /2-1`, `>= epp-prep`), the windows of
    the three `shouldExecute`, `LastSlotOfSyncPeriod` (`… - 2`), 256 epochs per period -/
theorem C16_tie_constants :
    Gen.duties_syncCommitteePreparationEpochs = 2 ∧ syncPrep = Gen.duties_syncCommitteePreparationEpochs ∧
    Gen.lits_att_shouldFetchNexEpoch = [">", "%", "-", "/", "2", "2"] ∧
    Gen.lits_sync_shouldFetchNextPeriod = ["&&", ">=", "%", "-", "/", "2", "1", ">=", "%", "-"] ∧
    Gen.lits_att_shouldExecute = ["&&", ">=", "<=", "-", "==", "+", "1"] ∧
    Gen.lits_prop_shouldExecute = ["==", "==", "+", "1"] ∧
    Gen.lits_sync_shouldExecute = ["==", "==", "+", "1"] ∧
    Gen.lits_net_LastSlotOfSyncPeriod = ["-", "+", "1", "1", "-", "+", "1", "2"] ∧
    Gen.lits_net_EpochsPerSyncCommitteePeriod = ["256"] := by decide

/-- arithmetic inside the three `HandleDuties` bodies (mid-epoch flag `== …/2-2`, last slot `== …-1`, `epoch+1`,
    `epoch-1`, `period±1`); log strings are ignored -/
theorem C16_tie_handler_arithmetic :
    noStr Gen.lits_att_HandleDuties =
      ["u<-", "u<-", "+", "%", "32", "1", "&&", "||", "u!", "!=", "==", "%", "-", "/", "2", "2", "==", "%", "-", "1",
       "u<-", "+", "%", "32", "1", "+", "1", "+", "1", "&&", "==", "+", "1", "u<-", "+", "%", "32", "1", "+", "1", "&&",
       "==", "+", "1"] ∧
    noStr Gen.lits_prop_HandleDuties =
      ["u<-", "u<-", "+", "%", "32", "1", "+", "1", "*", "100", "u!", "==", "%", "-", "1", "-", "1", "u<-", "+", "%",
       "32", "1", "u<-", "+", "%", "32", "1"] ∧
    noStr Gen.lits_sync_HandleDuties =
      ["u<-", "u<-", "+", "%", "32", "1", "&&", "||", "u!", "!=", "+", "1", "*", "100", "&&", "==", "%", "-", "/", "2",
       "2", "==", "%", "-", "==", "-", "1", "u<-", "+", "%", "32", "1", "&&", "+", "1", "&&", "==", "+", "1", "u<-", "+",
       "%", "32", "1"] := by decide

/-- the blocks added by the fix are present: first tick of a new epoch / period with the next-fetch flag still set ⇒
    fetch the current epoch / period first; late notice (the epoch / period just reset is already being ticked) ⇒ fetch
    first; the epoch / period of the last tick is recorded on every tick -/
theorem C16_tie_fix_blocks :
    Gen.has_att_HandleDuties = [true, true, true, true, true] ∧
    Gen.has_sync_HandleDuties = [true, true, true, true, true] := by decide

/-- proposer ticker branch after fix f167f5eb9: `h.fetchFirst = !h.processFetching(ctx, currentEpoch, slot)` is present,
    the unconditional `h.fetchFirst = false` is GONE; `if h.fetchFirst`, `if h.indicesChanged`, `h.indicesChanged = false`,
    `h.fetchFirst = true` are present; `processFetching` returns `false` inside `if err != nil` and `true` otherwise -/
theorem C16_tie_proposer_retry :
    Gen.has_prop_HandleDuties = [true, false, true, true, true, true] ∧
    Gen.has_prop_processFetching = [true, true, true] := by decide

/-- call-site facts: in every ticker branch the fetch-first path fetches then executes and the regular path
    executes BEFORE it re-fetches; `ResetEpoch`/`Reset` calls of the ticker / reorg / indices branches; the
    all three fetches reset the epoch (period) AFTER the successful beacon call and before adding;
    `processExecution` = store lookup → `shouldExecute` → `executeDuties` -/
theorem C16_tie_callsites :
    Gen.calls_att_HandleDuties =
      ["processFetching", "processExecution", "processExecution", "ResetEpoch", "processFetching", "ResetEpoch",
       "ResetEpoch", "shouldFetchNexEpoch", "ResetEpoch", "shouldFetchNexEpoch", "ResetEpoch",
       "shouldFetchNexEpoch", "ResetEpoch"] ∧
    Gen.calls_prop_HandleDuties =
      ["processFetching", "processExecution", "processExecution", "processFetching", "ResetEpoch", "ResetEpoch"] ∧
    Gen.calls_sync_HandleDuties =
      ["shouldFetchNextPeriod", "processFetching", "processExecution", "processExecution", "processFetching",
       "LastSlotOfSyncPeriod", "Reset", "shouldFetchNextPeriod", "Reset", "shouldFetchNextPeriod"] ∧
    Gen.calls_att_fetch = ["CommitteeActiveIndices", "AttesterDuties", "ResetEpoch", "Add"] ∧
    Gen.calls_prop_fetch = ["AllActiveIndices", "CommitteeActiveIndices", "ProposerDuties", "ResetEpoch", "Add"] ∧
    Gen.calls_sync_fetch =
      ["FirstEpochOfSyncPeriod", "EstimatedCurrentEpoch", "FirstEpochOfSyncPeriod", "AllActiveIndices",
       "CommitteeActiveIndices", "SyncCommitteeDuties", "Reset", "Add"] ∧
    Gen.calls_att_exec = ["CommitteeSlotDuties", "shouldExecute", "executeDuties"] ∧
    Gen.calls_prop_exec = ["CommitteeSlotDuties", "shouldExecute", "executeDuties"] ∧
    Gen.calls_sync_exec = ["CommitteePeriodDuties", "shouldExecute", "executeDuties"] ∧
    Gen.calls_prop_initial = ["processFetching"] ∧ Gen.calls_sync_initial = ["processFetching"] := by decide

/-- fingerprints, only where no finer fact exists: the two `processFetching` bodies (early return on a failed
    fetch, flag cleared only on success) and the duty-store map operations -/
theorem C16_tie_fingerprints :
    Gen.src_att_processFetching = "edf920f17ee85f07" ∧ Gen.src_sync_processFetching = "ae78804de626ce2c" ∧
    Gen.src_store_Add = "6c3e4595280aaa0f" ∧ Gen.src_store_CommitteeSlotDuties = "55dc819b79018e9a" := by decide

/-- the index functions of the validator controller the handlers are driven with: `AllActiveIndices` walks the whole
    shares store (`Range`) and its callback appends the index of every share that `IsAttesting(epoch)` and ALWAYS returns
    true (no `return false`, no test of `share.Liquidated`: the walk is never cut short); `CommitteeActiveIndices` walks the
    validators map with the same test; `IsAttesting` = metadata present ∧ (status attesting ∨ (pending-queued ∧
    activation ≤ epoch)); running validators = non-liquidated shares of this operator (`StartValidators`) -/
theorem C16_tie_index_functions :
    Gen.has_ctrl_AllActiveIndices = [true, true, true, true, false, false] ∧
    Gen.lits_ctrl_AllActiveIndices = ["u<-"] ∧
    Gen.calls_ctrl_AllActiveIndices = ["Range", "IsAttesting"] ∧
    Gen.has_ctrl_CommitteeActiveIndices = [true, true, true, true] ∧
    Gen.lits_share_IsAttesting = ["&&", "||", "&&", "==", "<="] ∧
    Gen.calls_share_IsAttesting = ["HasBeaconMetadata", "IsAttesting"] ∧
    Gen.calls_ctrl_StartValidators = ["ByNotLiquidated", "BelongsToOperator", "setupValidators"] := by decide

/-- glue the duty handlers depend on, outside the event-level model (exercised in real time by the harness's `glue` mode):
    * `slotTicker.Next()` drains the timer channel when `Stop()` reports that the timer already fired (`if !s.timer.Stop()`
      followed by a receive `u<-`; no bare `s.timer.Stop()` statement), re-arms it and never repeats a slot;
    * `StartValidators` closes `committeeValidatorSetup` only AFTER `setupValidators` on the path that sets validators up
      (the two earlier `close` calls are the no-shares and exporter returns);
    * the metadata loop selects every non-liquidated share that is new or whose metadata is older than the update interval —
      there is no branch that skips shares which are already attesting. -/
theorem C16_tie_glue :
    Gen.has_slotticker_Next = [true, true, true, true, true, false] ∧
    noStr Gen.lits_slotticker_Next = ["<", "0", "u!", "u<-", "+", "/", "1", "<=", "+", "1", "*"] ∧
    Gen.calls_ctrl_StartValidators_order = ["close", "close", "setupValidators", "close", "startValidators"] ∧
    Gen.has_ctrl_MetaDataLoop = [true, true, true, true, true, true, false] := by decide

/-! ## at most once -/

/-- No (slot, validator) pair is dispatched twice in a run — every handler, every network, every event list whose
    tick slots strictly increase (the slot ticker; without it the same tick repeated dispatches again). -/
theorem C16_dispatch_at_most_once (k : Kind) (n : Net) (clock0 : Nat) (r0 : FetchRes) (evs : List Event)
    (hticks : ticksIncreasing none evs = true) : AtMostOnce (run k n clock0 r0 evs) :=
  atMostOnce_run k n clock0 r0 evs hticks

/-- non-vacuity: a run with increasing ticks that dispatches two duties -/
example : ticksIncreasing none [.tick 47 47 (.ok [1] [⟨47, 1, 5⟩, ⟨49, 1, 6⟩]) .fail, .tick 48 48 .fail .fail,
      .tick 49 49 .fail .fail] = true ∧
    execPairs (run .att ⟨32, 256⟩ 0 .noIdx [.tick 47 47 (.ok [1] [⟨47, 1, 5⟩, ⟨49, 1, 6⟩]) .fail, .tick 48 48 .fail .fail,
      .tick 49 49 .fail .fail]) = [(47, 1), (49, 1)] := by decide

/-- the hypothesis is needed: the same slot ticked twice dispatches its duties twice -/
example : ¬ AtMostOnce (run .att ⟨32, 256⟩ 0 .noIdx [.tick 47 47 (.ok [1] [⟨47, 1, 5⟩]) .fail, .tick 47 47 .fail .fail]) := by
  unfold AtMostOnce; decide

/-! ## only at its own slot, inside the window -/

/-- Every dispatched duty carries the slot of the tick that dispatched it, and that slot is inside the handler's
    `shouldExecute` window of the clock — every handler, network, event list (no hypothesis at all). -/
theorem C16_dispatch_only_at_own_slot_window (k : Kind) (n : Net) (clock0 : Nat) (r0 : FetchRes) (evs : List Event) :
    WindowOK k n (run k n clock0 r0 evs) :=
  window_run k n clock0 r0 evs

/-- the windows, spelled out -/
theorem C16_window_meaning (n : Net) (clock slot : Nat) :
    (inWindow .att n clock slot = true ↔ (slot ≤ clock ∧ clock - slot ≤ n.spe) ∨ clock + 1 = slot) ∧
    (inWindow .prop n clock slot = true ↔ clock = slot ∨ clock + 1 = slot) ∧
    (inWindow .sync n clock slot = true ↔ clock = slot ∨ clock + 1 = slot) := by
  simp [inWindow, attShouldExecute, propShouldExecute]

/-! ## only the most recently fetched assignment -/

/-- A dispatched duty belongs to the assignment returned by the most recent successful fetch for the tick's epoch
    (period) — every handler, network and event list, no hypothesis (every fetch now replaces the epoch's / period's
    descriptors). -/
theorem C16_dispatch_only_latest (k : Kind) (n : Net) (clock0 : Nat) (r0 : FetchRes) (evs : List Event) :
    onlyLatestOK k n (run k n clock0 r0 evs) = true :=
  onlyLatest_run k n clock0 r0 evs

/-! ## exactly once if fetched -/

/-- For every handler, network and event list in which no tick is handled after an event of a later slot (`envOK`;
    notices may be arbitrarily late): at every tick whose clock equals its slot, every duty of the most recent
    successful (and since then not voided) fetch for that epoch (period) is dispatched — and nothing is dispatched
    twice. -/
theorem C16_dispatch_exactly_once_if_fetched (k : Kind) (n : Net) (clock0 : Nat) (r0 : FetchRes)
    (evs : List Event) (hn : n.ok = true) (henv : envOK none clock0 evs = true) :
    exactlyOnceOK k n (run k n clock0 r0 evs) = true ∧ AtMostOnce (run k n clock0 r0 evs) := by
  constructor
  · cases k with
    | att =>
      have hspe : 0 < n.spe := by
        simp only [Net.ok, Bool.and_eq_true, decide_eq_true_eq] at hn
        omega
      exact att_exactly_run n hspe clock0 r0 evs henv
    | prop => exact prop_exactly_run n clock0 r0 evs henv
    | sync => exact sync_exactly_run n clock0 r0 evs henv
  · apply atMostOnce_run
    have : ∀ (es : List Event) (lt : Option Nat) (now : Nat), envOK lt now es = true → ticksIncreasing lt es = true := by
      intro es
      induction es with
      | nil => intro _ _ _; rfl
      | cons e es ih =>
        intro lt now h
        cases e with
        | tick s c r1 r2 =>
          simp only [envOK, Bool.and_eq_true] at h
          simp only [ticksIncreasing, Bool.and_eq_true]
          exact ⟨h.1.1, ih _ _ h.2⟩
        | reorg s p c => exact ih _ _ h
        | indices c => exact ih _ _ h
    exact this evs none clock0 henv

/-- witness (DESIGN §8-8): duties of epoch 2 (slots 64, 66) fetched at slot 47; reorg(current) notice for slot 63
    handled after the last tick of epoch 1 -/
def C16_witness_reorg : List Event :=
  [.tick 47 47 (.ok [1] []) (.ok [1, 2] [⟨64, 1, 7⟩, ⟨66, 2, 8⟩]), .reorg 63 false true,
   .tick 64 64 (.ok [1, 2] [⟨64, 1, 7⟩, ⟨66, 2, 8⟩]) .fail, .tick 65 65 .fail .fail, .tick 66 66 .fail .fail]

/-- witness, indices-change variant -/
def C16_witness_indices : List Event :=
  [.tick 47 47 (.ok [1] []) (.ok [1] [⟨64, 1, 7⟩]), .indices 63, .tick 64 64 (.ok [1] [⟨64, 1, 9⟩]) .fail]

/-- witness, sync committee (8 slots per epoch, 4 epochs per period): period 1 fetched at slot 20, reorg(current)
    notice for slot 31 (last slot of period 0) handled after its tick -/
def C16_witness_sync : List Event :=
  [.tick 20 20 (.ok [] []) (.ok [1] [⟨0, 1, 7⟩]), .tick 31 31 .fail .fail, .reorg 31 false true,
   .tick 32 32 (.ok [1] [⟨0, 1, 9⟩]) .fail, .tick 33 33 .fail .fail]

/-- witness, notice handled one tick LATE: the reorg(current) notice for slot 63 is handled after the tick of slot 64 -/
def C16_witness_late : List Event :=
  [.tick 47 47 (.ok [1] []) (.ok [1, 2] [⟨65, 1, 7⟩, ⟨66, 2, 8⟩]), .tick 64 64 .fail .fail, .reorg 63 false true,
   .tick 65 65 (.ok [1, 2] [⟨65, 1, 7⟩, ⟨66, 2, 8⟩]) .fail, .tick 66 66 .fail .fail]

/-- witness, only-latest: reorg(previous) notice for slot 33 handled after the tick of slot 47; epoch 2 is fetched
    again at slot 64 -/
def C16_witness_stale : List Event :=
  [.tick 47 47 (.ok [1] []) (.ok [1] [⟨64, 1, 7⟩]), .reorg 33 true false, .tick 64 64 (.ok [2] [⟨64, 2, 8⟩]) .fail]

/-- REGRESSION (fix 1e0cc1057): on the four refutation witnesses of the handlers before the fix — which violated
    exactly-once (the first four) resp. only-latest (the last) — the fixed handlers satisfy the property and dispatch the
    duties that used to be lost; the witnesses satisfy `envOK`, so the theorems above cover them. -/
theorem C16_regression_witnesses_now_pass :
    exactlyOnceOK .att ⟨32, 256⟩ (run .att ⟨32, 256⟩ 0 .noIdx C16_witness_reorg) = true ∧
    execPairs (run .att ⟨32, 256⟩ 0 .noIdx C16_witness_reorg) = [(64, 1), (66, 2)] ∧
    exactlyOnceOK .att ⟨32, 256⟩ (run .att ⟨32, 256⟩ 0 .noIdx C16_witness_indices) = true ∧
    execPairs (run .att ⟨32, 256⟩ 0 .noIdx C16_witness_indices) = [(64, 1)] ∧
    exactlyOnceOK .sync ⟨8, 4⟩ (run .sync ⟨8, 4⟩ 20 (.ok [] []) C16_witness_sync) = true ∧
    execPairs (run .sync ⟨8, 4⟩ 20 (.ok [] []) C16_witness_sync) = [(32, 1), (33, 1)] ∧
    exactlyOnceOK .att ⟨32, 256⟩ (run .att ⟨32, 256⟩ 0 .noIdx C16_witness_late) = true ∧
    execPairs (run .att ⟨32, 256⟩ 0 .noIdx C16_witness_late) = [(65, 1), (66, 2)] ∧
    onlyLatestOK .att ⟨32, 256⟩ (run .att ⟨32, 256⟩ 0 .noIdx C16_witness_stale) = true ∧
    execPairs (run .att ⟨32, 256⟩ 0 .noIdx C16_witness_stale) = [(64, 2)] ∧
    envOK none 0 C16_witness_reorg = true ∧ envOK none 0 C16_witness_indices = true ∧
    envOK none 20 C16_witness_sync = true ∧ envOK none 0 C16_witness_late = true := by decide

/-- REGRESSION: the handlers BEFORE the fix (`runOld`) violate the property on the same witnesses — the lemmas that
    refuted the full statements of the pre-fix tree; they pin what the fix repaired. -/
theorem C16_regression_old_handlers_fail :
    exactlyOnceOK .att ⟨32, 256⟩ (runOld .att ⟨32, 256⟩ 0 .noIdx C16_witness_reorg) = false ∧
    execPairs (runOld .att ⟨32, 256⟩ 0 .noIdx C16_witness_reorg) = [] ∧
    exactlyOnceOK .att ⟨32, 256⟩ (runOld .att ⟨32, 256⟩ 0 .noIdx C16_witness_indices) = false ∧
    exactlyOnceOK .sync ⟨8, 4⟩ (runOld .sync ⟨8, 4⟩ 20 (.ok [] []) C16_witness_sync) = false ∧
    execPairs (runOld .sync ⟨8, 4⟩ 20 (.ok [] []) C16_witness_sync) = [] ∧
    exactlyOnceOK .att ⟨32, 256⟩ (runOld .att ⟨32, 256⟩ 0 .noIdx C16_witness_late) = false ∧
    onlyLatestOK .att ⟨32, 256⟩ (runOld .att ⟨32, 256⟩ 0 .noIdx C16_witness_stale) = false := by decide

/-! ### what `envOK` still excludes -/

/-- the statement without the order condition of `envOK`: only the slot ticker's guarantee -/
def C16_dispatch_exactly_once_if_fetched_anyorder (k : Kind) : Prop :=
  ∀ (n : Net) (clock0 : Nat) (r0 : FetchRes) (evs : List Event), n.ok = true → ticksIncreasing none evs = true →
    exactlyOnceOK k n (run k n clock0 r0 evs) = true

/-- witness: duty of slot 64 (epoch 2) fetched at slot 47; a reorg(previous) notice carrying slot 64 (first half of
    epoch 2: it resets epoch 2 but does not set `fetchNextEpoch`) is handled BEFORE the tick of slot 63; that tick fetches
    epoch 1 first; at the tick of slot 64 nothing announces that epoch 2 has to be fetched again -/
def C16_witness_tick_after_later_notice : List Event :=
  [.tick 47 47 (.ok [1] []) (.ok [1] [⟨64, 1, 7⟩]), .tick 62 62 .fail .fail, .reorg 64 true false,
   .tick 63 63 (.ok [1] []) .fail, .tick 64 64 .fail .fail]

/-- STILL FALSE of the fixed code: a tick handled after a reorg(previous) notice of a later epoch -/
theorem C16_dispatch_exactly_once_if_fetched_anyorder_refuted : ¬ C16_dispatch_exactly_once_if_fetched_anyorder .att := by
  intro h
  have := h ⟨32, 256⟩ 0 .noIdx C16_witness_tick_after_later_notice (by decide) (by decide)
  revert this
  decide

/-- that witness violates exactly the order condition: the tick of slot 63 comes after the notice of slot 64 -/
example : envOK none 0 C16_witness_tick_after_later_notice = false ∧
    ticksIncreasing none C16_witness_tick_after_later_notice = true := by decide

/-! ### a failed fetch is retried (all three handlers)

`exactlyOnceOK` voids every obligation at a failed fetch, so the theorem above does not speak about what happens AFTER a
failure.  The attester and sync-committee handlers keep `fetchCurrent…`/`fetchNext…` set until a fetch succeeds and ask
again at every tick; since fix f167f5eb9 the proposer handler keeps `fetchFirst` set until its fetch succeeds. -/

/-- Proposer handler: a fetch-first tick whose fetch FAILS leaves `fetchFirst` set, and every tick that starts with
    `fetchFirst` set begins by asking the beacon node for the duties of its epoch — so a failed first fetch is retried at
    the next tick, for every state, slot and clock. -/
theorem C16_proposer_failed_first_fetch_is_retried (n : Net) (st : HState) (slot clock : Nat)
    (hff : st.fetchFirst = true) :
    (propTick n st slot clock .fail).1.fetchFirst = true ∧
    ∀ (r1 : FetchRes), ∃ rest, (propTick n st slot clock r1).2 = .fetch (n.epoch slot) (n.epoch slot) r1 :: rest := by
  obtain ⟨store, ff, fc, fn, ic⟩ := st
  cases hff
  constructor
  · simp only [propTick, propFetch, FetchRes.failed, if_true]
    unfold propPost
    split <;> rfl
  · intro r1
    cases r1 <;> (simp only [propTick, propFetch, if_true, List.singleton_append]; exact ⟨_, rfl⟩)

/-- witness: proposer duty of slot 45 fetched twice successfully; reorg(current) notice ⇒ `ResetEpoch`, `fetchFirst`; the
    re-fetch at slot 42 fails; the beacon node answers again from slot 43 on -/
def C16_witness_proposer_no_retry : List Event :=
  [.tick 40 40 (.ok [1] [⟨45, 1, 7⟩]) (.ok [1] []), .reorg 41 false true, .tick 42 42 .fail (.ok [1] []),
   .tick 43 43 (.ok [1] [⟨45, 1, 7⟩]) (.ok [1] []), .tick 44 44 (.ok [1] [⟨45, 1, 7⟩]) (.ok [1] []),
   .tick 45 45 (.ok [1] [⟨45, 1, 7⟩]) (.ok [1] [])]

/-- REGRESSION (fix f167f5eb9, finding `C16/proposer-refetch-not-retried-after-failure`): the proposer handler before
    the fix (`runOld`) never asked again after the failed re-fetch and did not dispatch the duty of slot 45; the fixed
    handler re-fetches at slot 43 and dispatches it. -/
theorem C16_regression_proposer_refetch_retried :
    runOld .prop ⟨32, 256⟩ 40 (.ok [1] [⟨45, 1, 7⟩]) C16_witness_proposer_no_retry =
      [.fetch 1 1 (.ok [1] [⟨45, 1, 7⟩]), .fetch 1 1 (.ok [1] [⟨45, 1, 7⟩]), .execs 40 40 [], .fetch 1 1 .fail,
       .execs 42 42 [], .execs 43 43 [], .execs 44 44 [], .execs 45 45 []] ∧
    run .prop ⟨32, 256⟩ 40 (.ok [1] [⟨45, 1, 7⟩]) C16_witness_proposer_no_retry =
      [.fetch 1 1 (.ok [1] [⟨45, 1, 7⟩]), .fetch 1 1 (.ok [1] [⟨45, 1, 7⟩]), .execs 40 40 [], .fetch 1 1 .fail,
       .execs 42 42 [], .fetch 1 1 (.ok [1] [⟨45, 1, 7⟩]), .execs 43 43 [], .execs 44 44 [], .execs 45 45 [⟨45, 1, 7⟩]] ∧
    envOK none 40 C16_witness_proposer_no_retry = true := by decide

/-- non-vacuity of `C16_dispatch_exactly_once_if_fetched`: runs with reorg and indices-change notices (one of them
    handled late), a fetch failure, an epoch boundary and a sync-period boundary that satisfy every hypothesis and
    dispatch duties -/
example :
    let evs : List Event :=
      [.tick 47 47 (.ok [1] []) (.ok [1, 2] [⟨64, 1, 7⟩, ⟨66, 2, 8⟩]), .reorg 50 false true,
       .tick 51 51 (.ok [1, 2] [⟨64, 1, 9⟩, ⟨66, 2, 10⟩]) .fail, .indices 51, .tick 52 52 .fail .fail,
       .tick 63 63 (.ok [1] []) (.ok [1, 2] [⟨64, 1, 11⟩, ⟨66, 2, 12⟩]), .tick 64 64 .fail .fail, .indices 63,
       .tick 65 65 (.ok [1, 2] [⟨66, 2, 13⟩]) .fail, .tick 66 66 .fail .fail]
    (⟨32, 256⟩ : Net).ok = true ∧ envOK none 0 evs = true ∧
    execPairs (run .att ⟨32, 256⟩ 0 .noIdx evs) = [(64, 1), (66, 2)] := by decide

example :
    let evs : List Event :=
      [.tick 20 20 (.ok [1] [⟨0, 1, 5⟩]) (.ok [1] [⟨0, 1, 7⟩]), .reorg 29 false true,
       .tick 30 30 (.ok [1] [⟨0, 1, 8⟩]) .fail, .tick 31 31 .fail .fail, .reorg 31 false true,
       .tick 32 32 (.ok [1] [⟨0, 1, 9⟩]) .fail]
    (⟨8, 4⟩ : Net).ok = true ∧ envOK none 20 evs = true ∧
    execPairs (run .sync ⟨8, 4⟩ 20 (.ok [] []) evs) = [(20, 1), (30, 1), (31, 1), (32, 1)] := by decide

/-! ## the validator controller's index functions in the loop -/

/-- an index is returned iff SOME share of the registry carries it and is attesting — whatever else is stored, in
    whatever order -/
theorem C16_index_membership (shares : List Share) (e x : Nat) :
    (x ∈ allActive shares e ↔ ∃ s ∈ shares, s.vidx = x ∧ s.isAttesting e = true) ∧
    (x ∈ committeeActive shares e ↔
      ∃ s ∈ shares, s.vidx = x ∧ s.own = true ∧ s.liquidated = false ∧ s.isAttesting e = true) := by
  constructor
  · simp only [allActive, List.mem_map, List.mem_filter]
    constructor
    · rintro ⟨s, ⟨h1, h2⟩, rfl⟩; exact ⟨s, h1, rfl, h2⟩
    · rintro ⟨s, h1, rfl, h2⟩; exact ⟨s, ⟨h1, h2⟩, rfl⟩
  · simp only [committeeActive, Share.running, List.mem_map, List.mem_filter, Bool.and_eq_true,
      Bool.not_eq_true']
    constructor
    · rintro ⟨s, ⟨h1, ⟨h2, h3⟩, h4⟩, rfl⟩; exact ⟨s, h1, rfl, h2, h3, h4⟩
    · rintro ⟨s, h1, rfl, h2, h3, h4⟩; exact ⟨s, ⟨h1, ⟨h2, h3⟩, h4⟩, rfl⟩

/-- A liquidated, inactive, foreign or metadata-less share never hides another share's index: inserting ANY share at ANY
    position of the registry keeps every index that was returned before (for both functions, every epoch). -/
theorem C16_share_never_hides_another (l1 l2 : List Share) (s : Share) (e x : Nat) :
    (x ∈ allActive (l1 ++ l2) e → x ∈ allActive (l1 ++ s :: l2) e) ∧
    (x ∈ committeeActive (l1 ++ l2) e → x ∈ committeeActive (l1 ++ s :: l2) e) := by
  have hsub : ∀ t, t ∈ l1 ++ l2 → t ∈ l1 ++ s :: l2 := by
    intro t ht
    rcases List.mem_append.mp ht with h | h
    · exact List.mem_append.mpr (Or.inl h)
    · exact List.mem_append.mpr (Or.inr (List.mem_cons_of_mem _ h))
  constructor
  · intro h
    obtain ⟨t, ht, h1, h2⟩ := (C16_index_membership _ e x).1.mp h
    exact (C16_index_membership _ e x).1.mpr ⟨t, hsub t ht, h1, h2⟩
  · intro h
    obtain ⟨t, ht, h1⟩ := (C16_index_membership _ e x).2.mp h
    exact (C16_index_membership _ e x).2.mpr ⟨t, hsub t ht, h1⟩

/-- the indices the duties are dispatched for are among those they are fetched for -/
theorem C16_committee_indices_subset_all (shares : List Share) (e x : Nat) (h : x ∈ committeeActive shares e) :
    x ∈ allActive shares e := by
  obtain ⟨t, ht, h1, _, _, h4⟩ := (C16_index_membership _ e x).2.mp h
  exact (C16_index_membership _ e x).1.mpr ⟨t, ht, h1, h4⟩

/-- an own, non-liquidated, attesting share gets its duty: the request contains its index and the beacon node's answer
    for it survives `resolve` -/
theorem C16_own_active_duty_is_fetched (k : Kind) (shares : List Share) (arg : Nat) (ds : List Duty) (d : Duty) (s : Share)
    (hs : s ∈ shares) (hv : s.vidx = d.vidx) (ho : s.own = true) (hl : s.liquidated = false)
    (ha : s.isAttesting arg = true) (hd : d ∈ ds) :
    ∃ com ds', resolve k shares arg (.ok ds) = .ok com ds' ∧ d ∈ ds' ∧ d.vidx ∈ com := by
  have hc : d.vidx ∈ committeeActive shares arg :=
    (C16_index_membership _ arg _).2.mpr ⟨s, hs, hv, ho, hl, ha⟩
  have hall : d.vidx ∈ allActive shares arg := C16_committee_indices_subset_all _ _ _ hc
  cases k with
  | att =>
    have hne : (committeeActive shares arg).isEmpty = false := by
      cases hcm : committeeActive shares arg with
      | nil => rw [hcm] at hc; cases hc
      | cons a b => rfl
    refine ⟨_, _, by simp only [resolve, hne, Bool.false_eq_true, if_false]; rfl, ?_, hc⟩
    exact List.mem_filter.mpr ⟨hd, by simpa using hc⟩
  | prop =>
    have hne : (allActive shares arg).isEmpty = false := by
      cases hcm : allActive shares arg with
      | nil => rw [hcm] at hall; cases hall
      | cons a b => rfl
    refine ⟨_, _, by simp only [resolve, hne, Bool.false_eq_true, if_false]; rfl, ?_, hc⟩
    exact List.mem_filter.mpr ⟨hd, by simpa using hall⟩
  | sync =>
    have hne : (allActive shares arg).isEmpty = false := by
      cases hcm : allActive shares arg with
      | nil => rw [hcm] at hall; cases hall
      | cons a b => rfl
    refine ⟨_, _, by simp only [resolve, hne, Bool.false_eq_true, if_false]; rfl, ?_, hc⟩
    exact List.mem_filter.mpr ⟨hd, by simpa using hall⟩

/-- a run against a registry and a beacon node is a run of the handler model, so every theorem above applies to it;
    in particular exactly-once-if-fetched (the order condition only concerns the slots of the events) -/
theorem C16_dispatch_exactly_once_with_real_indices (k : Kind) (n : Net) (shares0 : List Share) (clock0 : Nat) (c0 : Chain)
    (evs : List EnvEvent) (hn : n.ok = true)
    (henv : envOK none clock0
      (resolveEvents k n shares0 (initH k n clock0 (resolveInit k n shares0 clock0 c0)).1 evs) = true) :
    exactlyOnceOK k n (runE k n shares0 clock0 c0 evs) = true ∧ AtMostOnce (runE k n shares0 clock0 c0 evs) ∧
    onlyLatestOK k n (runE k n shares0 clock0 c0 evs) = true :=
  ⟨(C16_dispatch_exactly_once_if_fetched k n clock0 _ _ hn henv).1,
   (C16_dispatch_exactly_once_if_fetched k n clock0 _ _ hn henv).2,
   C16_dispatch_only_latest k n clock0 _ _⟩

/-- example: proposer; registry = own active 1, FOREIGN active 2, own LIQUIDATED 3 stored in between, own pending-queued 4
    (activation epoch 2); all four have a duty at slot 45/46: 1 is dispatched, 2 and 3 are fetched but not dispatched (not
    this operator's running validators), 4 is not yet attesting in epoch 1 -/
example :
    runE .prop ⟨32, 256⟩ [⟨1, true, false, .attesting⟩, ⟨3, true, true, .attesting⟩, ⟨2, false, false, .attesting⟩,
        ⟨4, true, false, .pendingQueued 2⟩] 40 (.ok [⟨45, 1, 7⟩, ⟨45, 2, 8⟩, ⟨46, 3, 9⟩, ⟨46, 4, 10⟩])
      [.tick 45 45 .fail .fail, .tick 46 46 .fail .fail] =
      [.fetch 1 1 (.ok [1] [⟨45, 1, 7⟩, ⟨45, 2, 8⟩, ⟨46, 3, 9⟩]), .fetch 1 1 .fail, .execs 45 45 [⟨45, 1, 7⟩],
       .fetch 1 1 .fail, .execs 46 46 []] := by decide

end Ssv.Duties
