/-
C07 — Consensus can always still terminate while at most f operators are faulty.

Property theorems only (helpers: Ssv/Proofs/QbftFaultFree.lean; multi-node system model: Ssv/Model/Qbft/System.lean).

(a) `C07_timeout_progress*`      — proved for EVERY state: before the cut-off a round timeout moves an undecided operator to
                                    the next round, clears the accepted proposal, re-arms the timer and broadcasts exactly one
                                    round-change for that round carrying the lock.
(b) `C07_fault_free_round1*`     — proved GENERICALLY (any committee, quorum, height, leader, values — by lemmas about k distinct
                                    prepares / commits reaching the quorum, not by evaluation): in the synchronous fault-free
                                    schedule every operator decides the round-1 leader's value in round 1, and the messages it
                                    is fed are exactly the messages the operators emit.
(c) continuation from every reachable state — NOT proved, and FALSE on this tree: `C07_continuation_full` is kept as a
    statement; the constructed timely continuation is refuted on a concrete reachable state (`C07_wedge_*`, replayed on
    real controllers by the harness: known finding), together with the mechanism in full generality
    (`C07_mixed_locks_never_justify`: a round-change set holding locks on two different values justifies no proposal at all).
    A formal proof that NO schedule helps from that state (an invariant over all continuations) is not part of this file.
-/
import Ssv.Proofs.QbftFaultFree
import Ssv.Proofs.QbftProposer
import Ssv.Proofs.Kernels
import Ssv.Model.Qbft.System

namespace Ssv.Qbft

/-! ## ties to the regenerated facts -/

theorem C07_tie_timeout_path :
    Gen.calls_qbft_OnTimeout = ["GetTimeoutData", "FindInstance", "IsDecided", "UponRoundTimeout"] ∧
    Gen.calls_qbft_node_UponRoundTimeout = ["CanProcessMessages", "TimeoutForRound", "CreateRoundChange", "Broadcast"] ∧
    Gen.calls_qbft_node_uponChangeRoundPartialQuorum = ["TimeoutForRound", "CreateRoundChange", "Broadcast"] ∧
    Gen.calls_qbft_node_hasReceivedProposalJustificationForLeadingRound =
      ["MessagesForRound", "HasQuorum", "RoundChangePrepared", "isProposalJustificationForLeadingRound"] ∧
    Gen.src_qbft_CanProcessMessages = "7232faa48f591b33" ∧ Gen.src_qbft_RoundRobinProposer = "a01bb36809ae1f4a" := by decide

/-- leader rotation: the model's index is the kernel translated from `RoundRobinProposer`, which stays inside the committee
    for every round ≥ 1 and every height below 2^63 -/
theorem C07_tie_leader_rotation (n height round : Nat) (hn : 0 < n) (hn' : n ≤ 13) (hr : 1 ≤ round) (hr' : round < 2 ^ 62)
    (hh : height < 2 ^ 63) :
    proposerIndex n height round = Gen.k_RoundRobinProposerIndex round height n ∧
    0 ≤ proposerIndex n height round ∧ proposerIndex n height round < n := by
  have e63 : (2 : Nat) ^ 63 = 9223372036854775808 := by decide
  have e62 : (2 : Nat) ^ 62 = 4611686018427387904 := by decide
  have hround : toInt64 round = (round : Int) := by
    unfold toInt64 two64 two63
    have : round % 18446744073709551616 = round := Nat.mod_eq_of_lt (by omega)
    simp only [this]
    have : round < 9223372036854775808 := by omega
    simp [this]
  have heq := proposerIndex_eq_kernel n height round hn (by unfold two64; omega) (by unfold two64; omega)
    (by rw [hround]; omega) (by rw [hround]; omega)
  have hk := Kernels.leader_index_in_range (round : Int) (height : Int) (n : Int) (by omega) (by omega) (by omega) (by omega) (by omega)
  rw [heq]
  exact ⟨rfl, hk.1, hk.2⟩

/-! ## (a) a round timeout always makes progress before the cut-off -/

/-- the round-change an operator announces carries its lock: prepared round, value and root, or nothing -/
theorem C07_round_change_carries_lock (cfg : Cfg) (s : State) (r : Nat) :
    (createRoundChange cfg s r).type = tRoundChange ∧ (createRoundChange cfg s r).round = r ∧
    (createRoundChange cfg s r).height = s.height ∧ (createRoundChange cfg s r).signers = [cfg.own] ∧
    (if s.lastPreparedRound ≠ noRound ∧ s.lastPreparedValue ≠ 0 then
       (createRoundChange cfg s r).dataRound = s.lastPreparedRound ∧ (createRoundChange cfg s r).fullData = s.lastPreparedValue ∧
       (createRoundChange cfg s r).root = hashData s.lastPreparedValue
     else (createRoundChange cfg s r).dataRound = noRound ∧ (createRoundChange cfg s r).fullData = 0 ∧
       (createRoundChange cfg s r).root = zeroRoot) := by
  unfold createRoundChange
  by_cases h1 : s.lastPreparedRound = noRound
  · simp [h1, ownMsg]
  · by_cases h2 : s.lastPreparedValue = 0
    · simp [h1, h2, ownMsg]
    · simp [h1, h2, ownMsg]

/-- EVERY instance state that can still process messages (not force-stopped, `int(Round) < CutoffRound`): the timeout bumps
    the round by one, clears the accepted proposal, broadcasts exactly one round-change for the new round (created from the
    state before the bump, so it carries the lock) and re-arms the timer for the new round; nothing else changes. -/
theorem C07_timeout_progress (cfg : Cfg) (s : State) (h : canProcess cfg s = true) :
    uponRoundTimeout cfg s =
      ⟨{ s with round := s.round + 1, accepted := none },
       [.bcast (createRoundChange cfg s (s.round + 1)), .timer s.height (s.round + 1)],
       .ok s.decided s.decidedValue none⟩ := uponRoundTimeout_progress cfg s h

/-- the same through `Controller.OnTimeout`: for the stored, undecided instance of that height and a timeout that is not
    stale; a stale timeout (for an earlier round) and a timeout of a decided instance are no-ops -/
theorem C07_timeout_progress_ctrl (cfg : Cfg) (c : Ctrl) (height round : Nat) (inst : State)
    (hf : findInstance c.insts height = some inst) (hr : inst.round ≤ round) (hd : inst.decided = false)
    (hcp : canProcess cfg inst = true) :
    c.onTimeout cfg height round =
      ⟨{ c with insts := updateInstance c.insts { inst with round := inst.round + 1, accepted := none } },
       [.bcast (createRoundChange cfg inst (inst.round + 1)), .timer inst.height (inst.round + 1)], .ok none⟩ := by
  unfold Ctrl.onTimeout
  have : ¬ round < inst.round := by omega
  simp only [hf, this, if_false, hd, Bool.false_eq_true, uponRoundTimeout_progress cfg inst hcp]

theorem C07_stale_timeout_is_noop (cfg : Cfg) (c : Ctrl) (height round : Nat) (inst : State)
    (hf : findInstance c.insts height = some inst) (hr : round < inst.round) :
    c.onTimeout cfg height round = ⟨c, [], .ok none⟩ := by
  unfold Ctrl.onTimeout
  simp only [hf, hr, if_true]

/-- non-vacuity: a started, locked instance in round 3 satisfies the hypothesis, and round 14 is the last round that does -/
example : canProcess (stdCfg 4 3 2 2) { newInstance 0 with round := 3, lastPreparedRound := 1, lastPreparedValue := 5, started := true } = true ∧
    canProcess (stdCfg 4 3 2 2) { newInstance 0 with round := 14 } = true ∧
    canProcess (stdCfg 4 3 2 2) { newInstance 0 with round := 15 } = false := by decide

/-! ## (b) the fault-free synchronous first round, generically -/

/-- For EVERY configuration `cfg` of an operator in a committee without duplicates and without id 0, quorum between 1 and the
    committee size, cut-off above 1, every height `h`, round-1 leader `L` of the committee and leader value `v` accepted by the
    value check, and whatever the operator's own start value `vi` is: processing `Start`, the leader's proposal, the prepares
    of all committee members and then their commits (committee order) leaves the operator decided on the LEADER's value `v`,
    still in round 1, having locked (1, v). -/
theorem C07_fault_free_round1 (cfg : Cfg) (h L v vi : Nat) (ff : FF cfg h L v) :
    let s := (runI cfg (newInstance h) (ffOps cfg h L v vi)).1
    s.decided = true ∧ s.decidedValue = v ∧ s.round = firstRound ∧ s.lastPreparedRound = firstRound ∧ s.lastPreparedValue = v := by
  simp only [ff_round1_run cfg h L v vi ff]
  have hq : cfg.quorum ≤ cfg.committee.length := ff.qn
  simp [ffCommitted, ffPrepared, hq]
  rfl

/-- … and the run is closed: what the operator emits op by op (`ffObs`) are the timer call, its proposal if and only if it is
    the leader, its prepare right after the proposal, its commit exactly on the prepare that completes the quorum, and the
    decision with the aggregated certificate from the commit that completes the quorum on — the very messages `ffOps` feeds. -/
theorem C07_fault_free_round1_outputs (cfg : Cfg) (h L v vi : Nat) (ff : FF cfg h L v) :
    (runI cfg (newInstance h) (ffOps cfg h L v vi)).2 = ffObs cfg h L v vi := by
  rw [ff_round1_run cfg h L v vi ff]

/-- the messages fed ARE the model's own messages: the leader's `Start` creates `ffProposal`, an accepting operator creates
    `ffPrepare`, a prepared one `ffCommit` -/
theorem C07_fault_free_messages_are_own (cfg : Cfg) (h v : Nat) (s : State) (hs : s.height = h) (hr : s.round = firstRound) :
    createProposal cfg s v [] [] = ffProposal cfg h cfg.own v ∧
    createPrepare cfg s firstRound (hashData v) = ffPrepare cfg h v cfg.own ∧
    createCommit cfg s (hashData v) = ffCommit cfg h v cfg.own :=
  ⟨ffProposal_is_own cfg h v s hs hr, ffPrepare_is_own cfg h v s hs, ffCommit_is_own cfg h v s hs hr⟩

/-- instantiation with the node's configuration: committee 1..n with the round-robin leader, n ∈ {4, 7, 10, 13} with the
    quorum of `ComputeQuorumAndPartialQuorum`, every operator, every height below the committee size (leader rotation),
    leader value 5: the hypotheses `FF` hold -/
theorem C07_fault_free_hypotheses_hold (n q pq : Nat) (hn : (n, q, pq) ∈ [(4, 3, 2), (7, 5, 3), (10, 7, 4), (13, 9, 5)])
    (own h : Nat) (ho : 1 ≤ own ∧ own ≤ n) (hh : h < n) :
    FF (stdCfg n q pq own) h (h % n + 1) 5 := by
  have hown : own ∈ (stdCfg n q pq own).committee := by
    simp only [stdCfg, List.mem_map, List.mem_range]
    exact ⟨own - 1, by omega, by omega⟩
  have key : ∀ t ∈ [(4, 3, 2), (7, 5, 3), (10, 7, 4), (13, 9, 5)], ∀ n q pq : Nat, t = (n, q, pq) →
      ((List.range n).map (· + 1)).Nodup ∧ 0 ∉ (List.range n).map (· + 1) ∧ 1 ≤ q ∧ q ≤ ((List.range n).map (· + 1)).length ∧
      ∀ h, h < n → roundRobinProposer ((List.range n).map (· + 1)) h firstRound = some (h % n + 1) ∧
        (h % n + 1) ∈ (List.range n).map (· + 1) := by
    intro t ht n q pq e
    simp only [List.mem_cons, List.mem_nil_iff, or_false] at ht
    rcases ht with rfl | rfl | rfl | rfl <;> (cases e; decide)
  obtain ⟨k1, k2, k3, k4, k5⟩ := key _ hn n q pq rfl
  exact ⟨k1, k2, hown, by simp [stdCfg], k3, k4, by simp [stdCfg], (k5 h hh).1, (k5 h hh).2, by simp [stdCfg, Cfg.valOk]⟩

/-- n = 4, height 2 (leader = operator 3), operator 1 starting with another value: decided on the leader's value -/
example : ((runI (stdCfg 4 3 2 1) (newInstance 2) (ffOps (stdCfg 4 3 2 1) 2 3 5 9)).1.decided,
    (runI (stdCfg 4 3 2 1) (newInstance 2) (ffOps (stdCfg 4 3 2 1) 2 3 5 9)).1.decidedValue) = (true, 5) := by decide +kernel

/-! ## (c) continuation from every reachable state -/

/-- a scheduling step among the correct operators: deliver a pending message to an operator, or fire its round timer -/
inductive SchedStep
  | deliver (own idx : Nat)
  | timeout (own : Nat)

def Sys.sched (σ : Sys) : SchedStep → Sys
  | .deliver own idx =>
    match σ.wire[idx]? with
    | some m => σ.deliverWhere own (fun x => x.mid == m.mid)
    | none => σ
  | .timeout own =>
    match (findNode σ.nodes own).bind (fun nd => instOf nd σ.height) with
    | some i => σ.apply own (.timeout σ.height i.round)
    | none => σ

def Sys.maxRound (σ : Sys) : Nat := (σ.nodes.filterMap (fun nd => (instOf nd σ.height).map (·.round))).foldl max 0

/-- full clause for a given system state: SOME schedule of deliveries and timeouts among the correct operators makes all of
    them decide without any of them advancing more than `f+3` rounds. (False for `c07Wedge` on this tree for the constructed
    continuation; by `C07_mixed_locks_never_justify` no other delivery order can produce a justified proposal either.) -/
def C07_continuation_full (σ : Sys) (f : Nat) : Prop :=
  ∃ sched : List SchedStep, let τ := sched.foldl Sys.sched σ
    τ.nodes.all (fun nd => match instOf nd τ.height with | some i => i.decided | none => false) = true ∧
    τ.maxRound ≤ σ.maxRound + f + 3

/-- THE MECHANISM (for every configuration, height, round > 1 and value): a set of round-changes that contains prepared
    round-changes for two DIFFERENT roots justifies no proposal whatsoever — `isProposalJustification` checks every
    round-change of the set against the proposed value (`validRoundChangeForData`: `H(fullData) = rc.Root` for a prepared one).
    Operators locked on different values therefore block every leader whose quorum must contain both. -/
theorem C07_mixed_locks_never_justify (cfg : Cfg) (sh : Nat) (rcs : List Lvl1) (prepares : List Base) (h round fd : Nat)
    (a b : Lvl1) (ha : a ∈ rcs) (hb : b ∈ rcs) (hpa : a.toBase.rcPrepared = true) (hpb : b.toBase.rcPrepared = true)
    (hne : a.root ≠ b.root) (hround : round ≠ firstRound) :
    isProposalJustification cfg sh rcs prepares h round fd ≠ .ok () := by
  intro hok
  unfold isProposalJustification at hok
  have hr : (round == firstRound) = false := by simpa using hround
  simp only [bind_eq_ok, rejectIf_eq_ok, hr, Bool.false_eq_true, if_false, wrap_eq_ok] at hok
  obtain ⟨_, _, _, hff, _⟩ := hok
  have hall := firstFail_ok _ rcs _ hff
  have ea := validRoundChangeForData_prepared_root cfg sh a h round fd () (hall a ha) hpa
  have eb := validRoundChangeForData_prepared_root cfg sh b h round fd () (hall b hb) hpb
  exact hne (ea.symm.trans eb)

/-! ### the wedge, evaluated in the model (DESIGN §8-10; the harness replays it on real controllers) -/

def c07Byz (own t r root : Nat) : Msg :=
  { type := t, height := 0, round := r, ident := 1, root := root, dataRound := 0, signers := [own], sigOk := true,
    malformed := false, mid := 1000 + own * 10 + t, rcJust := [], prepJust := [], fullData := 0 }

def c07IsT (t r : Nat) (m : Msg) : Bool := m.type == t && m.round == r && m.signers.length == 1

/-- n = 4, height 0 (leaders: round 1 → 1, round 2 → 2, round 3 → 3, round 4 → 4, round 5 → 1). Correct operators A = 1
    (start value 5), B = 2, C = 3 (start value 6); operator 4 is Byzantine and finally silent. A alone sees the round-1
    prepare quorum for 5; B and C, with 4's round-change and prepare, prepare 6 in round 2; everything reaches A only after
    its timer fired twice. No message between correct operators is lost — only delayed. -/
def c07Wedge : Sys :=
  let σ := Sys.init 4 3 2 0 [(1, 5), (2, 6), (3, 6)]
  let σ := ((σ.deliverWhere 1 (c07IsT tProposal 1)).deliverWhere 2 (c07IsT tProposal 1)).deliverWhere 3 (c07IsT tProposal 1)
  let σ := σ.deliverWhere 1 (c07IsT tPrepare 1)
  let σ := (σ.apply 2 (.timeout 0 1)).apply 3 (.timeout 0 1)
  let σ := σ.inject (c07Byz 4 tRoundChange 2 zeroRoot) [2, 3]
  let notA := fun (m : Msg) => c07IsT tRoundChange 2 m && m.signers != [1]
  let σ := (σ.deliverWhere 2 notA).deliverWhere 3 notA
  let σ := (σ.deliverWhere 2 (c07IsT tProposal 2)).deliverWhere 3 (c07IsT tProposal 2)
  let σ := σ.inject (c07Byz 4 tPrepare 2 6) [2, 3]
  let σ := (σ.deliverWhere 2 (c07IsT tPrepare 2)).deliverWhere 3 (c07IsT tPrepare 2)
  let σ := (σ.deliverWhere 2 (c07IsT tCommit 2)).deliverWhere 3 (c07IsT tCommit 2)
  let σ := (σ.apply 1 (.timeout 0 1)).apply 1 (.timeout 0 2)
  (σ.apply 2 (.timeout 0 2)).apply 3 (.timeout 0 2)

/-- the reached state: everybody undecided in round 3, A locked on (1, 5), B and C locked on (2, 6) -/
theorem C07_wedge_state :
    c07Wedge.summary = [(1, 3, false, 0, 1, 5), (2, 3, false, 0, 2, 6), (3, 3, false, 0, 2, 6)] := by decide +kernel

/-- the constructed timely continuation — f+3 = 4 times (deliver everything ever sent; all time out), then deliver everything —
    leaves all three correct operators undecided with their locks, four rounds later -/
theorem C07_wedge_constructed_continuation_refuted :
    (c07Wedge.continuation 4 30).summary = [(1, 7, false, 0, 1, 5), (2, 7, false, 0, 2, 6), (3, 7, false, 0, 2, 6)] := by
  decide +kernel

end Ssv.Qbft
