/-
C06 — The node's QBFT instance is observationally equal to the reference spec; state compaction between messages does
not change any later output.

Property theorems only (helpers: Ssv/Proofs/QbftCompact.lean, Ssv/Proofs/QbftProposer.lean).

* Equality clause ("same accept/reject, broadcasts, decision, state as ssv-spec"): no theorem can relate two Go programs.
  It is decided by translation validation: the `C06_tie_port_*` facts below (every instance function calls the same
  validation / container / creation functions in the same order in the node and in ssv-spec v0.3.7, regenerated from
  both sources on every run) and the three-way differential run node ↔ Lean model ↔ real ssv-spec instance
  (harness `qbft`, oracle `C06/node-differs-from-spec:*`).
* Compaction clause: `C06_compaction_full` is FALSE on this tree (`C06_compaction_full_refuted`, witness replayed on the
  real code: corpus/C06/qbft_second_proposal_after_decided_compaction.ops); what IS true is proved as
  `C06_compaction_sim_partial`: compaction is invisible as long as it is only applied to undecided instances.
-/
import Ssv.Proofs.QbftCompact
import Ssv.Proofs.QbftProposer

namespace Ssv.Qbft

/-! ## ties to the regenerated facts -/

/-- message-type numbering, round/height origins and the controller's instance capacity as the model uses them -/
theorem C06_tie_constants :
    Gen.qbft_ProposalMsgType = 0 ∧ Gen.qbft_PrepareMsgType = 1 ∧ Gen.qbft_CommitMsgType = 2 ∧
    Gen.qbft_RoundChangeMsgType = 3 ∧ Gen.qbft_NoRound = 0 ∧ Gen.qbft_FirstRound = 1 ∧ Gen.qbft_FirstHeight = 0 ∧
    Gen.qbft_InstanceContainerDefaultCapacity = 2 := by decide

/-- guard / call order inside the node's validation functions, as modelled in Ssv/Model/Qbft/{Validate,Instance}.lean.
    Quorum sites: a lone `"HasQuorum"` is the package function `specqbft.HasQuorum(share, msgs)` — DISTINCT signers of a message
    list (model: `Cfg.hasQuorum (signersOf …)`); `"HasQuorum", "Share.HasQuorum"` (or `"share.HasQuorum"`) is the method
    `share.HasQuorum(n)` on a COUNT (model: `cfg.quorum ≤ ….length`). The extractor facts list receiver-qualified callee names, so
    replacing one by the other changes the list. -/
theorem C06_tie_guard_order :
    Gen.calls_qbft_node_isValidProposal =
      ["GetSigners", "VerifyByOperators", "MatchedSigners", "proposer", "Validate", "HashDataRoot", "isProposalJustification"] ∧
    Gen.calls_qbft_node_isProposalJustification =
      ["valCheck", "validRoundChangeForData", "HasQuorum", "RoundChangePrepared", "HasQuorum", "highestPrepared", "HashDataRoot",
       "validSignedPrepareForHeightRoundAndRoot"] ∧
    Gen.calls_qbft_node_validRoundChangeForData =
      ["GetSigners", "VerifyByOperators", "Validate", "RoundChangePrepared", "HashDataRoot", "GetRoundChangeJustifications",
       "validSignedPrepareForHeightRoundAndRoot", "HasQuorum"] ∧
    Gen.calls_qbft_node_validSignedPrepareForHeightRoundAndRoot = ["Validate", "GetSigners", "VerifyByOperators"] ∧
    Gen.calls_qbft_node_validateCommit = ["BaseCommitValidation"] ∧
    Gen.calls_qbft_node_BaseCommitValidation = ["Validate", "VerifyByOperators"] ∧
    Gen.calls_qbft_node_BaseMsgValidation =
      ["Validate", "isValidProposal", "validSignedPrepareForHeightRoundAndRoot", "validateCommit", "validRoundChangeForData"] ∧
    Gen.calls_qbft_node_ProcessMsg =
      ["CanProcessMessages", "BaseMsgValidation", "uponProposal", "uponPrepare", "UponCommit", "uponRoundChange"] := by decide

/-- call order inside the `upon…` functions, the timeout and the leader's justification search -/
theorem C06_tie_upon_order :
    Gen.calls_qbft_node_uponProposal = ["AddFirstMsgForSignerAndRound", "TimeoutForRound", "HashDataRoot", "CreatePrepare", "Broadcast"] ∧
    Gen.calls_qbft_node_uponPrepare = ["HasQuorum", "AddFirstMsgForSignerAndRound", "HasQuorum", "CreateCommit", "Broadcast"] ∧
    Gen.calls_qbft_node_UponCommit = ["AddFirstMsgForSignerAndRound", "commitQuorumForRoundRoot", "aggregateCommitMsgs"] ∧
    Gen.calls_qbft_node_uponRoundChange =
      ["HasQuorum", "MessagesForRound", "AddFirstMsgForSignerAndRound", "hasReceivedProposalJustificationForLeadingRound",
       "CreateProposal", "MessagesForRound", "MessagesForRound", "Broadcast", "hasReceivedPartialQuorum", "minRound",
       "uponChangeRoundPartialQuorum"] ∧
    Gen.calls_qbft_node_uponChangeRoundPartialQuorum = ["TimeoutForRound", "CreateRoundChange", "Broadcast"] ∧
    Gen.calls_qbft_node_UponRoundTimeout = ["CanProcessMessages", "TimeoutForRound", "CreateRoundChange", "Broadcast"] ∧
    Gen.calls_qbft_node_hasReceivedProposalJustificationForLeadingRound =
      ["MessagesForRound", "HasQuorum", "RoundChangePrepared", "isProposalJustificationForLeadingRound"] ∧
    Gen.calls_qbft_node_isProposalJustificationForLeadingRound = ["isReceivedProposalJustification", "proposer"] ∧
    Gen.calls_qbft_node_getRoundChangeJustification =
      ["HashDataRoot", "MessagesForRound", "validSignedPrepareForHeightRoundAndRoot", "HasQuorum"] ∧
    Gen.calls_qbft_node_commitQuorumForRoundRoot = ["LongestUniqueSignersForRoundAndRoot", "HasQuorum", "Share.HasQuorum"] ∧
    Gen.calls_qbft_node_aggregateCommitMsgs = ["DeepCopy", "Aggregate"] := by decide

/-- port check: every instance function of the node makes the same calls in the same order as its ssv-spec v0.3.7
    counterpart (the single difference is one extra `MessagesForRound` in `uponRoundChange`: an argument of a debug log line) -/
theorem C06_tie_port :
    Gen.calls_qbft_node_isValidProposal = Gen.calls_qbft_spec_isValidProposal ∧
    Gen.calls_qbft_node_isProposalJustification = Gen.calls_qbft_spec_isProposalJustification ∧
    Gen.calls_qbft_node_validRoundChangeForData = Gen.calls_qbft_spec_validRoundChangeForData ∧
    Gen.calls_qbft_node_validSignedPrepareForHeightRoundAndRoot = Gen.calls_qbft_spec_validSignedPrepareForHeightRoundAndRoot ∧
    Gen.calls_qbft_node_BaseCommitValidation = Gen.calls_qbft_spec_baseCommitValidation ∧
    Gen.calls_qbft_node_BaseMsgValidation = Gen.calls_qbft_spec_BaseMsgValidation ∧
    Gen.calls_qbft_node_ProcessMsg = Gen.calls_qbft_spec_ProcessMsg ∧
    Gen.calls_qbft_node_uponProposal = Gen.calls_qbft_spec_uponProposal ∧
    Gen.calls_qbft_node_uponPrepare = Gen.calls_qbft_spec_uponPrepare ∧
    Gen.calls_qbft_node_UponCommit = Gen.calls_qbft_spec_UponCommit ∧
    Gen.calls_qbft_node_uponRoundChange.eraseIdx 6 = Gen.calls_qbft_spec_uponRoundChange ∧
    Gen.calls_qbft_node_uponChangeRoundPartialQuorum = Gen.calls_qbft_spec_uponChangeRoundPartialQuorum ∧
    Gen.calls_qbft_node_UponRoundTimeout = Gen.calls_qbft_spec_UponRoundTimeout ∧
    Gen.calls_qbft_node_hasReceivedProposalJustificationForLeadingRound =
      Gen.calls_qbft_spec_hasReceivedProposalJustificationForLeadingRound ∧
    Gen.calls_qbft_node_isProposalJustificationForLeadingRound = Gen.calls_qbft_spec_isProposalJustificationForLeadingRound ∧
    Gen.calls_qbft_node_getRoundChangeJustification = Gen.calls_qbft_spec_getRoundChangeJustification ∧
    Gen.calls_qbft_node_commitQuorumForRoundRoot = Gen.calls_qbft_spec_commitQuorumForRoundRoot ∧
    Gen.calls_qbft_node_aggregateCommitMsgs = Gen.calls_qbft_spec_aggregateCommitMsgs := by decide

/-- the controller slice: dispatch order of `ProcessMsg`, the checks of `ValidateDecided`, the steps of `UponDecided` -/
theorem C06_tie_controller :
    Gen.calls_qbft_ctrl_ProcessMsg = ["BaseMsgValidation", "IsDecidedMsg", "UponDecided", "isFutureMessage", "UponExistingInstanceMsg"] ∧
    Gen.calls_qbft_ValidateDecided = ["IsDecidedMsg", "Validate", "BaseCommitValidation", "Validate", "HashDataRoot"] ∧
    Gen.calls_qbft_UponDecided =
      ["ValidateDecided", "InstanceForHeight", "FindInstance", "addNewInstance", "NewInstance", "AddMsg", "addNewInstance", "IsDecided", "AddMsg",
       "LongestUniqueSignersForRoundAndRoot", "AddMsg", "FindInstance", "SaveInstance", "NewDecidedHandler"] ∧
    Gen.calls_qbft_UponExistingInstanceMsg = ["InstanceForHeight", "IsDecided", "ProcessMsg", "broadcastDecided"] ∧
    Gen.calls_qbft_StartNewInstance =
      ["GetValueCheckF", "FindInstance", "addAndStoreNewInstance", "Start", "forceStopAllInstanceExceptCurrent"] ∧
    Gen.calls_qbft_OnTimeout = ["GetTimeoutData", "FindInstance", "IsDecided", "UponRoundTimeout"] ∧
    Gen.calls_qbft_IsDecidedMsg = ["HasQuorum", "share.HasQuorum"] := by decide

/-- compaction is what the model says and where the model says: `compact` rewrites the four containers, both public
    entry points go through it, the runner calls `compactInstanceIfNeeded` right after `Controller.ProcessMsg`, and
    loading the highest instance from storage compacts it too -/
theorem C06_tie_compaction_callsites :
    Gen.calls_qbft_compact = ["compactContainer", "compactContainer", "compactContainer", "compactContainer"] ∧
    Gen.calls_qbft_Compact = ["compact"] ∧ Gen.calls_qbft_CompactCopy = ["compact"] ∧
    Gen.calls_qbft_baseConsensusMsgProcessing = ["ProcessMsg", "compactInstanceIfNeeded"] ∧
    Gen.calls_qbft_compactInstanceIfNeeded = ["FindInstance", "IsDecidedMsg", "Compact"] ∧
    Gen.calls_qbft_getHighestInstance = ["GetHighestInstance", "Compact", "NewInstance"] := by decide

/-- fingerprints of the small pinned functions the model transcribes literally (containers, Validate, HasQuorum,
    round-robin leader, the two compaction policies, CanProcessMessages with its cut-off comparison) -/
theorem C06_tie_sources :
    Gen.src_qbft_CanProcessMessages = "7232faa48f591b33" ∧ Gen.src_qbft_RoundRobinProposer = "a01bb36809ae1f4a" ∧
    Gen.src_qbft_compactContainerEdit = "0de56ace8d511aea" ∧ Gen.src_qbft_compactContainerCopy = "dcfc8eafc9ead597" ∧
    Gen.src_qbft_LongestUniqueSigners = "f42a37f13008f105" ∧ Gen.src_qbft_AddFirstMsg = "c8cbb4f27824af62" ∧
    Gen.src_qbft_SignedMessageValidate = "7ce2f626fc6e70d1" ∧ Gen.src_qbft_MessageValidate = "a786761f356b5525" ∧
    Gen.src_qbft_HasQuorum = "0a106974b08d9992" := by decide

/-- the model's leader arithmetic is the kernel translated from ssv-spec `RoundRobinProposer` on every run, for all
    heights and rounds whose signed 64-bit sum does not overflow (the model additionally wraps like Go where it does) -/
theorem C06_tie_proposer_kernel (n height round : Nat) (hn : 0 < n) (hh : height < two64) (hr : round < two64)
    (hlo : -9223372036854775808 + (n : Int) + 1 ≤ toInt64 round) (hhi : toInt64 round + (n : Int) < 9223372036854775808) :
    proposerIndex n height round = Gen.k_RoundRobinProposerIndex (round : Int) (height : Int) (n : Int) :=
  proposerIndex_eq_kernel n height round hn hh hr hlo hhi

example : proposerIndex 4 5 3 = Gen.k_RoundRobinProposerIndex 3 5 4 := by decide

/-! ## both compaction policies compute the same state -/

/-- `Compact` (in place) and `CompactCopy` (copying) produce the same state -/
theorem C06_compact_policies_agree (s : State) : compactCopy s = compact s := by
  have e : ∀ (c : Container) (k : Nat) (b : Bool), compactContainerCopy c k b = compactContainerEdit c k b := by
    intro c k b
    unfold compactContainerCopy compactContainerEdit
    have : (fun m : Msg => decide (m.round ≥ k)) = (fun m : Msg => !decide (m.round < k)) := by
      funext m
      by_cases h : k ≤ m.round
      · have : ¬ m.round < k := by omega
        simp [h, this]
      · have : m.round < k := by omega
        simp [h, this]
    rw [this]
  simp only [compactCopy, compact, compactWith, e]

/-! ## the compaction clause at full strength — refuted -/

/-- full clause: whatever controller ops happen (starts, message deliveries incl. decided messages, timeouts), interleaving
    compaction — even only where the runner really performs it — never changes any observation. -/
def C06_compaction_full : Prop :=
  ∀ (cfg : Cfg) (ops : List COp),
    (runC cfg newController ops).2 = (runC cfg newController (ops.filter (fun op => !op.isCompaction))).2

/-- committee of 4, operator 2 under test, leader of (height 0, round 1) is operator 1 -/
def c06Cfg : Cfg :=
  { committee := [1, 2, 3, 4], quorum := 3, partialQuorum := 2, own := 2, ident := 1, cutoff := 15,
    capacity := Gen.qbft_InstanceContainerDefaultCapacity, valCheck := fun _ => true,
    proposer := fun h r => roundRobinProposer [1, 2, 3, 4] h r }

def c06Msg (t r root : Nat) (signers : List Nat) (mid full : Nat) : Msg :=
  { type := t, height := 0, round := r, ident := 1, root := root, dataRound := 0, signers := signers, sigOk := true,
    malformed := false, mid := mid, rcJust := [], prepJust := [], fullData := full }

/-- §8-3 of the design: operator 2 prepares and commits (1,V=2), times out to round 2, receives the decided certificate
    (1,V) — `UponDecided` sets `State.Round := 1` — the runner compacts (decided ⇒ the propose container is emptied), and
    a SECOND proposal (1,V'=3) of the same leader is accepted; prepares and commits for V' then flip `DecidedValue`. -/
def c06Witness : List COp :=
  [ .start 0 2,
    .deliver (c06Msg tProposal 1 2 [1] 10 2),
    .deliver (c06Msg tPrepare 1 2 [1] 11 0), .deliver (c06Msg tPrepare 1 2 [3] 12 0), .deliver (c06Msg tPrepare 1 2 [4] 13 0),
    .timeout 0 1 ] ++
  runnerDeliver (c06Msg tCommit 1 2 [1, 3, 4] 14 2) ++
  [ .deliver (c06Msg tProposal 1 3 [1] 20 3),
    .deliver (c06Msg tPrepare 1 3 [1] 21 0), .deliver (c06Msg tPrepare 1 3 [3] 22 0), .deliver (c06Msg tPrepare 1 3 [4] 23 0),
    .deliver (c06Msg tCommit 1 3 [1] 24 0), .deliver (c06Msg tCommit 1 3 [3] 25 0), .deliver (c06Msg tCommit 1 3 [4] 26 0) ]

/-- with the runner's compaction the second proposal is answered by a prepare for V' … -/
theorem C06_witness_compacted_accepts_second_proposal :
    ((runC c06Cfg newController (c06Witness.take 9)).2.getLast?.map (·.outs)) =
      some [.bcast (ownMsg c06Cfg tPrepare 0 1 3 0 [] [] 0)] := by decide +kernel

/-- … without compaction the same proposal produces nothing … -/
theorem C06_witness_uncompacted_ignores_second_proposal :
    ((runC c06Cfg newController ((c06Witness.take 9).filter (fun op => !op.isCompaction))).2.getLast?.map (·.outs)) = some [] := by
  decide +kernel

/-- … and at the end the compacted instance has overwritten its decided value V=2 by V'=3, the uncompacted one has not -/
theorem C06_witness_decided_value_flips :
    ((runC c06Cfg newController c06Witness).1.insts.map (fun i => (i.decided, i.decidedValue))) = [(true, 3)] ∧
    ((runC c06Cfg newController (c06Witness.filter (fun op => !op.isCompaction))).1.insts.map
      (fun i => (i.decided, i.decidedValue))) = [(true, 2)] := by decide +kernel

theorem C06_compaction_full_refuted : ¬ C06_compaction_full := by
  intro h
  have := h c06Cfg c06Witness
  revert this
  decide +kernel

/-! ### the milder instance of the same clause -/

/-- operator 2 decides V by counting commits itself (no decided message, no round lowering); a late round-change makes the
    runner compact the decided instance (prepare container emptied); re-delivered duplicates of the three prepares then
    re-create the quorum edge and the commit is broadcast a second time — the uncompacted instance stays silent. -/
def c06MildWitness : List COp :=
  [ .start 0 2,
    .deliver (c06Msg tProposal 1 2 [1] 10 2),
    .deliver (c06Msg tPrepare 1 2 [1] 11 0), .deliver (c06Msg tPrepare 1 2 [3] 12 0), .deliver (c06Msg tPrepare 1 2 [4] 13 0),
    .deliver (c06Msg tCommit 1 2 [1] 15 0), .deliver (c06Msg tCommit 1 2 [3] 16 0), .deliver (c06Msg tCommit 1 2 [4] 17 0) ] ++
  runnerDeliver (c06Msg tRoundChange 2 zeroRoot [4] 18 0) ++
  [ .deliver (c06Msg tPrepare 1 2 [1] 11 0), .deliver (c06Msg tPrepare 1 2 [3] 12 0), .deliver (c06Msg tPrepare 1 2 [4] 13 0) ]

theorem C06_mild_witness_commit_rebroadcast :
    ((runC c06Cfg newController c06MildWitness).2.getLast?.map (·.outs)) = some [.bcast (ownMsg c06Cfg tCommit 0 1 2 0 [] [] 0)] ∧
    ((runC c06Cfg newController (c06MildWitness.filter (fun op => !op.isCompaction))).2.getLast?.map (·.outs)) = some [] := by
  decide +kernel

/-! ## what is true: compaction of UNDECIDED instances is invisible -/

/-- For every configuration, every instance state whose lock is not ahead of its round, and every later sequence of
    message deliveries (valid or not, any type), timeouts and force-stops with compaction interleaved ANYWHERE — provided
    compaction is only applied while the instance is undecided (`IOp.compactUndecided`) — all outputs (broadcasts with their
    justifications, timer calls, accept/reject with the guard tag, decided flag/value/aggregate) are the same as without any
    compaction.
    Missing for the full clause (and false on this tree, see above): compaction of decided instances, which the node performs
    after every decided message and every round-change. `Start` is excluded from the op list (it is executed once, before the
    first message; on a started instance it is a no-op). -/
theorem C06_compaction_sim_partial (cfg : Cfg) (s : State) (hwf : s.lastPreparedRound ≤ s.round) (ops : List IOp)
    (hops : ∀ op ∈ ops, op.allowed = true) :
    (runI cfg s ops).2 = (runI cfg s (ops.filter (fun op => !op.isCompaction))).2 :=
  runI_sim cfg ops hops s s (Sim.refl s) hwf

/-- the DESIGN's phrasing: running from `compact s` and from `s` yields the same outputs (undecided `s`) -/
theorem C06_compaction_from_compacted_partial (cfg : Cfg) (s : State) (hwf : s.lastPreparedRound ≤ s.round)
    (hd : s.decided = false) (ops : List IOp) (hops : ∀ op ∈ ops, op.allowed = true) :
    (runI cfg (compact s) ops).2 = (runI cfg s (ops.filter (fun op => !op.isCompaction))).2 :=
  runI_sim cfg ops hops s (compact s) (compact_sim (Sim.refl s) hd) hwf

/-- one step of the same statement: a compacted undecided instance answers any single message exactly like the original -/
theorem C06_compaction_step_partial (cfg : Cfg) (s : State) (hwf : s.lastPreparedRound ≤ s.round) (hd : s.decided = false)
    (m : Msg) :
    (processMsg cfg (compact s) m).outs = (processMsg cfg s m).outs ∧ (processMsg cfg (compact s) m).res = (processMsg cfg s m).res :=
  let h := processMsg_sim cfg m (compact_sim (Sim.refl s) hd) hwf
  ⟨h.1, h.2.1⟩

/-- non-vacuity: a concrete undecided state in round 2 holding round-1 and round-2 messages satisfies the hypotheses, its
    compaction really drops messages, and a real op list with interleaved compaction is covered -/
def c06ExamplePrepares : List Msg :=
  [c06Msg tPrepare 1 2 [1] 11 0, c06Msg tPrepare 1 2 [3] 12 0, c06Msg tPrepare 1 2 [4] 13 0]

def c06ExampleState : State :=
  { newInstance 0 with
    round := 2
    started := true
    startValue := 2
    lastPreparedRound := 1
    lastPreparedValue := 2
    propose := [c06Msg tProposal 1 2 [1] 10 2]
    prepare := c06ExamplePrepares
    roundChange := [c06Msg tRoundChange 2 zeroRoot [3] 30 0] }

example : c06ExampleState.lastPreparedRound ≤ c06ExampleState.round ∧ c06ExampleState.decided = false ∧
    compact c06ExampleState ≠ c06ExampleState ∧
    (∀ op ∈ [IOp.deliver (c06Msg tRoundChange 2 zeroRoot [4] 31 0), .compactUndecided, .timeout, .compactUndecided,
              .deliver (c06Msg tProposal 3 2 [3] 32 2)], op.allowed = true) := by decide +kernel

example : (runI c06Cfg c06ExampleState [IOp.deliver (c06Msg tRoundChange 2 zeroRoot [4] 31 0), .compactUndecided, .timeout]).2.length = 2 := by
  decide +kernel

/-- PRODUCTION WIRING of the controller (operator/validator/controller.go `SetupRunners`, closure `buildController`): the qbft.Config a
    real node runs with has `SignatureVerification: true` unconditionally, a `ProposerF` that answers
    `specqbft.RoundRobinProposer(state, round)` for the round ASKED about, the role's value check, the default domain and the
    identifier built from it — the configuration the model's `Cfg` assumes (`verifySig` consulted, `proposer h r`). The harness
    exercises exactly these objects in its production-config cases (harness/cmd/qbft/prodcfg.go). -/
theorem C06_tie_production_wiring :
    Gen.has_qbft_SetupRunners = [true, true, true, true, true, true, true] := by decide

end Ssv.Qbft
