/-
C10 — Messages produced by correct operators are never rejected by correct peers.

PARTIAL (DESIGN §7.10, §9): carried WITHOUT the full QBFT node model. What a correct operator emits is captured by the
predicates `HonestConsensus` / `HonestPartial` (own id in the committee, a single signer or a strictly increasing
quorum-sized aggregate, leader-only proposals, root = hash(full data), valid enums, round ≥ 1, justifications satisfying
the very predicate the validator calls, well-formed signatures, payload within the size limits). PROVED here, for ALL such
messages, ALL peer clocks and ALL peer states that are fresh or consistent (`PeerConsistent`): the verdict is accept or
ignore — never reject (the class that penalises the sender), never a panic; and with a fresh peer that knows the
validator, inside the slot / round window: accept. Separately the arithmetic theorem relating the round timer's deadlines
(regenerated QuickTimeoutThreshold / QuickTimeout / SlowTimeout) to the validator's round window.
NOT proved here (left to the QBFT model builder): that the node's emission code establishes `HonestConsensus`; the harness
checks it empirically on every message emitted by real multi-operator runs. The timing assumption ("sent at or after the
timer of the previous round fired, instance started at or after the slot start") is a hypothesis.
Helper lemmas: Ssv/Proofs/ValidationHonest.lean, Ssv/Proofs/ValidationWindow.lean.
-/
import Ssv.Proofs.ValidationHonest

namespace Ssv.Validation
open Ssv

/-! ## ties to the regenerated facts -/

/-- the validator's round estimate and the round timer use the same three constants; the timer adds round·quick up to
    the threshold and (round − threshold)·slow beyond (literals / operators of `RoundTimeout`) -/
theorem C10_tie_timer_constants :
    Gen.val_QuickTimeoutThreshold = 8 ∧ Gen.val_QuickTimeout = 2000000000 ∧ Gen.val_SlowTimeout = 120000000000 ∧
    Gen.val_FirstRound = 1 ∧ Gen.val_allowedRoundsInFuture = 1 ∧
    Gen.lits_val_currentEstimatedRound = ["+", "/", "<=", "-", "*", "+", "+", "/"] ∧
    Gen.lits_val_RoundTimeout = ["/", "3", "*", "/", "3", "2", "<=", "<=", "*", "*", "*", "-", "+", "+"] ∧
    Gen.calls_val_UponRoundTimeout = ["bumpToRound", "TimeoutForRound", "CreateRoundChange", "Broadcast"] := by decide

/-- the validator evaluates the instance's own justification predicate; decided aggregates are sorted by the node
    (`sort.Slice` in `aggregateCommitMsgs`); the per-round limits are 1 with N·(f+1) decided messages -/
theorem C10_tie_shared_predicates :
    Gen.calls_val_validateJustifications = ["GetPrepareJustifications", "GetRoundChangeJustifications", "IsProposalJustification"] ∧
    Gen.calls_val_aggregateCommitMsgs = ["DeepCopy", "Aggregate", "Slice"] ∧
    Gen.lits_val_maxMessageCounts = ["1", "1", "1", "1", "1", "1"] ∧
    Gen.lits_val_maxDecidedCount = ["/", "-", "1", "3", "*", "+", "1"] ∧
    Gen.lits_val_maxRound = ["12", "6", "0", "\"unknown role\""] := by decide

/-! ## never rejected -/

/-- MAIN (consensus messages): a message with the emission guarantees, validated by a correct peer whose entries for the
    message's signers are absent or consistent (no different proposal data for this very round, duty count not
    exhausted) and whose duty store knows a proposer duty, is NEVER classified as reject — at any receive time, for any
    clock, whether or not the peer knows the validator — and never crashes the peer -/
theorem C10_emitted_not_rejected (x : Ctx) (st : State) (i : Input) (sh : Share) (m : QMsg)
    (hb : i.body = .consensus m) (hs : i.share = some sh ∨ i.share = none)
    (hh : HonestConsensus i sh m) (hp : PeerConsistent x st i sh m) :
    (∀ t, (validate x st i).2 ≠ .reject t) ∧ (∀ s, (validate x st i).2 ≠ .panic s) :=
  honest_consensus_not_rejected x st i sh m hb hs hh hp

/-- a fresh peer (no entry for any signer) with the proposer duty known is consistent -/
theorem C10_fresh_peer_is_consistent (x : Ctx) (st : State) (i : Input) (sh : Share) (m : QMsg)
    (hfresh : ∀ s ∈ m.signers, st (i.vid, i.role, s) = none)
    (hduty : i.role = Gen.val_BNRoleProposer → x.duties.proposer.contains ((epochAtSlot x.cfg m.height).toNat, m.height, sh.index) = true) :
    PeerConsistent x st i sh m :=
  ⟨hduty, fun s hs ss hss => by rw [hfresh s hs] at hss; cases hss⟩

/-- MAIN (partial-signature messages of the runners) -/
theorem C10_emitted_partial_not_rejected (x : Ctx) (st : State) (i : Input) (sh : Share) (m : PMsg)
    (hb : i.body = .partialSig m) (hs : i.share = some sh ∨ i.share = none)
    (hh : HonestPartial i sh m) (hp : PeerConsistentPartial x st i m) :
    (∀ t, (validate x st i).2 ≠ .reject t) ∧ (∀ s, (validate x st i).2 ≠ .panic s) :=
  honest_partial_not_rejected x st i sh m hb hs hh hp

/-- fault-free, in-order, timely: a fresh peer that knows the (active) validator and its duties accepts the message
    when it arrives inside the slot and round windows -/
theorem C10_emitted_accepted_fresh_timely (x : Ctx) (st : State) (i : Input) (sh : Share) (m : QMsg)
    (hb : i.body = .consensus m) (hh : HonestConsensus i sh m) (ht : TimelyKnown x i sh m)
    (hfresh : ∀ s ∈ m.signers, st (i.vid, i.role, s) = none) : (validate x st i).2 = .accept :=
  honest_consensus_accepted x st i sh m hb hh ht hfresh

/-! ## the hypothesis on the peer's entries is necessary

A correct operator whose round-change message carried prepared data V1 and whose proposal for the SAME round carries a
different value V2 (possible only when prepared values diverged, which needs message loss beyond the timing assumption)
is rejected with `duplicated proposal with different data`: the peer remembers the full data of the round change as the
signer's proposal data. -/

/-- slot 32001: the round-2 leader of a 4-committee is operator ((32001 + 1) mod 4) + 1 = 3 -/
def rc2 : QMsg :=
  { mtype := 3, height := 32001, round := 2, root := 11, fullData := some 11, signers := [3], sigLen := 96, sigZero := false,
    pjMalformed := false, pjLen := 0, rcjMalformed := false, rcjLen := 3, justOk := false }
def prop2 : QMsg :=
  { mtype := 0, height := 32001, round := 2, root := 22, fullData := some 22, signers := [3], sigLen := 96, sigZero := false,
    pjMalformed := false, pjLen := 3, rcjMalformed := false, rcjLen := 3, justOk := true }
def t2 : Int := 1616508000 + 12 * 32001 + 3

theorem C10_inconsistent_entry_is_rejected :
    (validate ctx0 (validate ctx0 State.empty (inputAt rc2 t2)).1 (inputAt prop2 (t2 + 1))).2
      = .reject .DuplicatedProposalWithDifferentData := by decide

/-- … whereas the same proposal is accepted by a fresh peer (non-vacuity of the main theorems' hypotheses) -/
example : (validate ctx0 State.empty (inputAt prop2 (t2 + 1))).2 = .accept := by decide

example : HonestConsensus (inputAt prop2 (t2 + 1)) share4 prop2 :=
  { size := by decide, role := by decide, consensusRole := by decide, key := rfl, sig := ⟨rfl, rfl⟩, mtype := by decide,
    round := by decide,
    signers := Or.inl ⟨3, rfl, by decide, by decide, fun _ => by decide⟩,
    root := by intro h hh; cases hh; rfl, just := by decide, env := Or.inl rfl }

/-! ## the per-epoch duty counter restarts at every epoch boundary

`PeerConsistent` asks the peer's entry to pass `validateDutyCount`. For a signer that performs its regular duty at a steady
rate this is an invariant of the peer's own updates: the first accepted message of a later epoch sets the counter back to 1
(if it only ever grew, the fourth epoch's duty would be rejected `too many duties per epoch`). -/

theorem C10_new_epoch_restarts_duty_count (c : NetCfg) (m : QMsg) (ss ss' : SignerState)
    (h : updSignerConsensus c m (some ss) = .ok ss') (hslot : m.height > ss.slot)
    (he : epochAtSlot c m.height > epochAtSlot c ss.slot) : ss'.epochDuties = 1 := by
  unfold updSignerConsensus at h
  simp only [Option.getD_some, hslot, if_true, he, decide_true] at h
  split at h
  · cases h
    simp only [SignerState.resetSlot]
    split <;> rfl
  · cases h

theorem C10_new_epoch_restarts_duty_count_partial (c : NetCfg) (m : PMsg) (ss ss' : SignerState)
    (h : updPartial c m (some ss) = .ok ss') (hslot : m.slot > ss.slot)
    (he : epochAtSlot c m.slot > epochAtSlot c ss.slot) : ss'.epochDuties = 1 := by
  unfold updPartial at h
  simp only [Option.getD_some, hslot, if_true, he, decide_true] at h
  split at h
  · cases h
    simp [SignerState.resetSlot]
  · cases h

/-- … and an entry whose counter is 1 passes the duty-count rule for whatever comes next -/
theorem C10_restarted_entry_is_consistent (ss : SignerState) (role : Nat) (b : Bool) (h : ss.epochDuties = 1) :
    validateDutyCount ss role b = .ok () := by
  unfold validateDutyCount
  split
  · apply (rejectIf_ok_iff _ _).mpr
    cases b <;> simp [h] <;> decide
  · rfl

/-- the verdicts of a history of validation calls on one peer -/
def verdicts (x : Ctx) : State → List Input → List Outcome
  | _, [] => []
  | st, i :: rest => (validate x st i).2 :: verdicts x (validate x st i).1 rest

/-- the commit of operator 2 for its attester duty in epoch 1000 + e (the duty slot moves around inside the epoch),
    received five seconds into the slot -/
def dutyCommitAt (slot : Nat) : Input :=
  inputAt { mtype := 2, height := slot, round := 1, root := 1, fullData := none, signers := [2], sigLen := 96, sigZero := false,
            pjMalformed := false, pjLen := 0, rcjMalformed := false, rcjLen := 0, justOk := false } (1616508000 + 12 * slot + 5)

def dutyCommit (e : Nat) : Input := dutyCommitAt (32000 + 32 * e + 7 * e % 32)

/-- REGRESSION (steady schedule): one duty per epoch over eight consecutive epochs is accepted by the same peer … -/
theorem C10_one_duty_per_epoch_accepted :
    verdicts ctx0 State.empty ((List.range 8).map dutyCommit) = List.replicate 8 .accept := by decide

/-- … and so are two duties in every epoch (the most the rule allows) over five epochs; a third one is what is rejected -/
theorem C10_two_duties_per_epoch_accepted :
    verdicts ctx0 State.empty (((List.range 5).map fun e => [dutyCommitAt (32000 + 32 * e + 3), dutyCommitAt (32000 + 32 * e + 9)]).flatten)
      = List.replicate 10 .accept ∧
    verdicts ctx0 State.empty [dutyCommitAt 32003, dutyCommitAt 32009, dutyCommitAt 32011]
      = [.accept, .accept, .reject .TooManyDutiesPerEpoch] := by decide

/-! ## the round timer fires inside the validator's round window -/

/-- ARITHMETIC: the real timer's deadline for round r − 1 is (base delay of the role ≥ 0) + `timerElapsed (r − 1)`:
    (r − 1)·QuickTimeout up to the threshold, then threshold·QuickTimeout + (r − 1 − threshold)·SlowTimeout. A message of
    round r ≥ 2 sent at or after that deadline — `since` nanoseconds after the slot started — is estimated at round ≥ r by
    `currentEstimatedRound`, so it lies inside the validator's window [1, estimate + allowedRoundsInFuture] with one
    round to spare. -/
theorem C10_round_timer_inside_window (r : Nat) (hr : 2 ≤ r) (since base : Int) (hb : 0 ≤ base)
    (hsent : base + timerElapsed (r - 1) ≤ since) (hs : since < 9223372036854775807) :
    (r : Int) ≤ currentEstimatedRound since ∧ (r : Int) < currentEstimatedRound since + Gen.val_allowedRoundsInFuture := by
  have h0 : 0 ≤ since := by
    have : 0 ≤ timerElapsed (r - 1) := timerElapsed_nonneg _
    omega
  rw [currentEstimatedRound_spec since h0 hs]
  have := timer_deadline_inside_window r hr since base hb hsent
  simp only [g_future]
  omega

/-- non-vacuity: round 2 sent exactly when the round-1 timer of an attester (base 4 s) fires, 6 s into the slot -/
example : (2 : Int) ≤ currentEstimatedRound 6000000000 ∧ (4000000000 : Int) + timerElapsed (2 - 1) ≤ 6000000000 := by decide

/-- the same at the level of the validator's guard: on a 12-s-slot network with a realistic clock, a round-r message
    (1 ≤ r) for a started slot, received at or after the previous round's timer deadline, passes `roundWindow` -/
theorem C10_timely_message_passes_round_window (c : NetCfg) (hc : Cfg12 c) (m : QMsg) (now : GoTime) (hclock : RealisticClock c now)
    (hslot : (m.height : Int) ≤ curSlot c now) (hr1 : 1 ≤ m.round) (base : Int) (hb : 0 ≤ base)
    (hsent : 2 ≤ m.round → base + timerElapsed (m.round - 1) ≤ sinceSlotStart c m.height now) :
    roundWindow c m now = .ok () := by
  unfold roundWindow
  apply (rejectIf_ok_iff _ _).mpr
  rw [highestAllowedRound_spec c hc m.height now hclock hslot]
  have h1 : Nat.blt m.round Gen.val_FirstRound = false := (blt_false_iff _ _).mpr hr1
  rw [h1]
  simp only [Bool.false_or, decide_eq_false_iff_not]
  unfold highestRoundSpec
  by_cases h2 : 2 ≤ m.round
  · have hs := hsent h2
    have hest := timer_deadline_inside_window m.round h2 _ base hb hs
    have hpos : sinceSlotStart c m.height now > 0 := by
      have : 0 < timerElapsed (m.round - 1) := timerElapsed_pos _ (by omega)
      omega
    simp only [hpos, if_true]
    omega
  · have : m.round = 1 := by omega
    rw [this]
    split
    · rename_i hpos
      have : 0 ≤ estRound (sinceSlotStart c m.height now) := by unfold estRound; split <;> omega
      omega
    · decide

/-- the deadlines themselves, for reference: 2 s, 4 s, …, 16 s after the base delay for rounds 1 … 8, then +2 min each -/
example : (List.range 12).map (fun r => timerElapsed (r + 1)) =
    [2000000000, 4000000000, 6000000000, 8000000000, 10000000000, 12000000000, 14000000000, 16000000000,
     136000000000, 256000000000, 376000000000, 496000000000] := by decide

end Ssv.Validation
