/-
C02 — Every reported decision is backed by a verifiable quorum certificate.

Property theorems only (helpers: Ssv/Proofs/QbftCert.lean). Model: Ssv/Model/Qbft (controller + instance of a light node).
"Aggregate signature verifies" is the abstract `sigOk`, computed by the REAL `VerifyByOperators` in the harness;
values/roots are ids with `hash = id`.

All statements hold for EVERY configuration (committee, quorum, value check, proposer function), EVERY controller state
reachable from `newController` by ANY sequence of starts / message deliveries (valid, forged, any type and height) /
timeouts / compactions — no bound on anything.
-/
import Ssv.Proofs.QbftCert
import Ssv.Proofs.Kernels

namespace Ssv.Qbft

/-! ## ties to the regenerated facts -/

/-- the checks the model's `validateDecided` / `isDecidedMsg` / `UponDecided` transcribe, in source order -/
theorem C02_tie_decided_path :
    Gen.calls_qbft_ctrl_ProcessMsg = ["BaseMsgValidation", "IsDecidedMsg", "UponDecided", "isFutureMessage", "UponExistingInstanceMsg"] ∧
    Gen.calls_qbft_IsDecidedMsg = ["HasQuorum", "share.HasQuorum"] ∧
    Gen.calls_qbft_ValidateDecided = ["IsDecidedMsg", "Validate", "BaseCommitValidation", "Validate", "HashDataRoot"] ∧
    Gen.calls_qbft_node_BaseCommitValidation = ["Validate", "VerifyByOperators"] ∧
    Gen.calls_qbft_UponDecided =
      ["ValidateDecided", "InstanceForHeight", "FindInstance", "addNewInstance", "NewInstance", "AddMsg", "addNewInstance", "IsDecided", "AddMsg",
       "LongestUniqueSignersForRoundAndRoot", "AddMsg", "FindInstance", "SaveInstance", "NewDecidedHandler"] ∧
    Gen.calls_qbft_SaveInstance = ["SaveHighestAndHistoricalInstance", "SaveInstance", "SaveHighestInstance"] ∧
    Gen.src_qbft_SignedMessageValidate = "7ce2f626fc6e70d1" ∧ Gen.src_qbft_MessageValidate = "a786761f356b5525" := by decide

/-- the local decision path: a commit is validated against the accepted proposal, counted per (round, root) over unique
    signers and aggregated; the proposal it refers to passed the leader, hash and value checks -/
theorem C02_tie_local_path :
    Gen.calls_qbft_node_validateCommit = ["BaseCommitValidation"] ∧
    Gen.calls_qbft_node_UponCommit = ["AddFirstMsgForSignerAndRound", "commitQuorumForRoundRoot", "aggregateCommitMsgs"] ∧
    Gen.calls_qbft_node_commitQuorumForRoundRoot = ["LongestUniqueSignersForRoundAndRoot", "HasQuorum", "Share.HasQuorum"] ∧
    Gen.calls_qbft_node_aggregateCommitMsgs = ["DeepCopy", "Aggregate"] ∧
    Gen.calls_qbft_node_isValidProposal =
      ["GetSigners", "VerifyByOperators", "MatchedSigners", "proposer", "Validate", "HashDataRoot", "isProposalJustification"] ∧
    Gen.calls_qbft_UponExistingInstanceMsg = ["InstanceForHeight", "IsDecided", "ProcessMsg", "broadcastDecided"] ∧
    Gen.src_qbft_LongestUniqueSigners = "f42a37f13008f105" ∧ Gen.src_qbft_AddFirstMsg = "c8cbb4f27824af62" := by decide

/-- "2f+1 of 3f+1": for every committee size the node accepts, the quorum the shares are built with
    (`ComputeQuorumAndPartialQuorum`, translated from the Go source on every run) is 2f+1 with n = 3f+1 -/
theorem C02_tie_quorum_is_2f_plus_1 (n : Int) (h : Gen.k_ValidCommitteeSize n = true) :
    ∃ f : Int, 1 ≤ f ∧ n = 3 * f + 1 ∧ (Gen.k_ComputeQuorumAndPartialQuorum n).1 = 2 * f + 1 := by
  obtain ⟨f, h1, _, h3, h4⟩ := Kernels.quorum_values n h
  exact ⟨f, h1, h3, by rw [h4]⟩

/-! ## (i) every reported decision carries a valid certificate -/

/-- Along EVERY run of the controller, whatever it reports as decided — the decided message returned by `ProcessMsg`, a
    decided message it broadcasts, an instance it hands to storage, a decided notification — is a valid certificate:
    a commit, aggregate signature valid, signers pairwise distinct, non-zero, all committee members, at least a quorum of
    them, `H(fullData) = root`, for this controller's identifier. -/
theorem C02_reported_decision_has_valid_certificate (cfg : Cfg) (ops : List COp) :
    ∀ o ∈ (runC cfg newController ops).2,
      (∀ d, o.res = .ok (some d) → ValidCert cfg d) ∧
      (∀ out ∈ o.outs, ∀ d, (out = .bcastDecided d ∨ out = .save d ∨ out = .notify d) → ValidCert cfg d) := by
  have hnew : CtrlInv cfg newController := by intro i hi; simp [newController] at hi
  intro o ho
  exact (runC_inv cfg ops newController hnew).2 o ho

/-- the same for one step from ANY controller state satisfying the container invariant (`CtrlInv`: every stored commit was
    validated, every accepted proposal passed `isValidProposal`) — in particular from every reachable state -/
theorem C02_step_reports_valid_certificate (cfg : Cfg) (c : Ctrl) (hc : CtrlInv cfg c) (m : Msg) (d : Msg)
    (h : (c.processMsg cfg m).res = .ok (some d)) : ValidCert cfg d :=
  (ctrl_processMsg_inv cfg c m hc).2.1 d h

/-- the invariant is an invariant: it holds initially and after every op -/
theorem C02_invariant_reachable (cfg : Cfg) (ops : List COp) : CtrlInv cfg (runC cfg newController ops).1 :=
  (runC_inv cfg ops newController (by intro i hi; simp [newController] at hi)).1

/-- a decided message accepted from the network is reported as it is (nothing else is ever reported for it) -/
theorem C02_network_decision_is_the_message (cfg : Cfg) (c : Ctrl) (m d : Msg) (hid : m.ident = cfg.ident)
    (hd : isDecidedMsg cfg m = true) (h : (c.processMsg cfg m).res = .ok (some d)) :
    d = m ∧ validateDecided cfg m = .ok () := by
  unfold Ctrl.processMsg at h
  have : (m.ident != cfg.ident) = false := by simpa using hid
  simp only [this, Bool.false_eq_true, if_false, hd, if_true] at h
  by_cases hv : validateDecided cfg m = .ok ()
  · exact ⟨(uponDecided_accepted cfg c m hv).1 d h, hv⟩
  · exact absurd h ((uponDecided_rejected cfg c m hv).2.2 _)

/-! ## (ii) decisions reached by counting commits -/

/-- When the controller reports a decision it reached itself (first report of an undecided instance), the certificate is for
    the proposal the instance had accepted: same value and root, the value passed the operator's own value check, the
    proposal was signed by exactly the leader of its round (`cfg.proposer`), and its round is the round of the commits. -/
theorem C02_local_decision_for_leaders_proposal (cfg : Cfg) (c : Ctrl) (hc : CtrlInv cfg c) (m d : Msg)
    (hnd : isDecidedMsg cfg m = false) (h : (c.processMsg cfg m).res = .ok (some d)) :
    ValidCert cfg d ∧
    ∃ inst p, findInstance c.insts m.height = some inst ∧ inst.decided = false ∧ inst.accepted = some p ∧
      d.height = inst.height ∧ d.fullData = p.fullData ∧ d.root = p.root ∧ d.round = p.round ∧
      cfg.valOk p.fullData = true ∧ hashData p.fullData = p.root ∧
      ∃ l, cfg.proposer inst.height p.round = some l ∧ p.signers = [l] := by
  have hcert := C02_step_reports_valid_certificate cfg c hc m d h
  unfold Ctrl.processMsg at h
  split at h
  · simp at h
  · rename_i hid
    have hid' : m.ident = cfg.ident := by simpa using hid
    simp only [hnd, Bool.false_eq_true, if_false] at h
    split at h
    · simp at h
    · obtain ⟨inst, hf, hund, hl⟩ := uponExisting_local cfg c m hc hid' d h
      obtain ⟨p, hacc, hfd, hroot, hgp, hround⟩ := hl.proposal
      exact ⟨hcert, inst, p, hf, hund, hacc, hl.height, hfd, hroot, (hround hund).symm, hgp.value, hgp.hash, hgp.leader⟩

/-! ## (iii) no forged certificate makes the operator decide — one lemma per conjunct -/

/-- `Ignored c st`: the controller state (hence every `Decided` flag and container) is unchanged, nothing is broadcast,
    stored or notified, and no decision is returned. -/
theorem C02_forged_wrong_identifier (cfg : Cfg) (c : Ctrl) (m : Msg) (h : m.ident ≠ cfg.ident) :
    Ignored c (c.processMsg cfg m) := ctrl_wrong_ident_ignored cfg c m h

/-- fewer than a quorum of listed signers (but more than one): never a decided message, and no instance accepts it -/
theorem C02_forged_sub_quorum (cfg : Cfg) (c : Ctrl) (m : Msg) (ht : m.type = tCommit) (h2 : 2 ≤ m.signers.length)
    (hq : m.signers.length < cfg.quorum) : Ignored c (c.processMsg cfg m) := ctrl_subquorum_commit_ignored cfg c m ht h2 hq

theorem C02_forged_duplicate_signers (cfg : Cfg) (c : Ctrl) (m : Msg) (hd : isDecidedMsg cfg m = true) (h : ¬ m.signers.Nodup) :
    Ignored c (c.processMsg cfg m) :=
  ctrl_invalid_decided_ignored cfg c m hd (fun hv => h (validateDecided_ok cfg m () hv).2.2.1)

theorem C02_forged_zero_signer (cfg : Cfg) (c : Ctrl) (m : Msg) (hd : isDecidedMsg cfg m = true) (h : 0 ∈ m.signers) :
    Ignored c (c.processMsg cfg m) :=
  ctrl_invalid_decided_ignored cfg c m hd (fun hv => (validateDecided_ok cfg m () hv).2.2.2.1 h)

theorem C02_forged_foreign_signer (cfg : Cfg) (c : Ctrl) (m : Msg) (hd : isDecidedMsg cfg m = true)
    (h : ∃ s ∈ m.signers, s ∉ cfg.committee) : Ignored c (c.processMsg cfg m) :=
  ctrl_invalid_decided_ignored cfg c m hd (fun hv => by
    obtain ⟨s, hs, hn⟩ := h
    exact hn ((validateDecided_ok cfg m () hv).2.2.2.2.2.1 s hs))

theorem C02_forged_bad_aggregate_signature (cfg : Cfg) (c : Ctrl) (m : Msg) (hd : isDecidedMsg cfg m = true)
    (h : m.sigOk = false) : Ignored c (c.processMsg cfg m) :=
  ctrl_invalid_decided_ignored cfg c m hd (fun hv => by
    have := (validateDecided_ok cfg m () hv).2.2.2.2.1
    rw [h] at this; exact absurd this (by decide))

theorem C02_forged_value_not_matching_root (cfg : Cfg) (c : Ctrl) (m : Msg) (hd : isDecidedMsg cfg m = true)
    (h : hashData m.fullData ≠ m.root) : Ignored c (c.processMsg cfg m) :=
  ctrl_invalid_decided_ignored cfg c m hd (fun hv => h (validateDecided_ok cfg m () hv).2.2.2.2.2.2)

/-- a message that is not of commit type never decides through the decided path, whatever its signers -/
theorem C02_forged_not_a_commit (cfg : Cfg) (m : Msg) (h : m.type ≠ tCommit) : isDecidedMsg cfg m = false := by
  unfold isDecidedMsg
  have : (m.type == tCommit) = false := by simpa using h
  simp [this]

/-- wrong height: a (valid) decided message for another height never touches the instances of this height — they are
    either unchanged or evicted, never decided by it -/
theorem C02_other_height_never_decides_this_height (cfg : Cfg) (c : Ctrl) (m : Msg) (h : Nat) (hne : m.height ≠ h)
    (hd : isDecidedMsg cfg m = true) (hid : m.ident = cfg.ident) :
    ∀ i ∈ (c.processMsg cfg m).ct.insts, i.height = h → i ∈ c.insts := by
  unfold Ctrl.processMsg
  have : (m.ident != cfg.ident) = false := by simpa using hid
  simp only [this, Bool.false_eq_true, if_false, hd, if_true]
  by_cases hv : validateDecided cfg m = .ok ()
  · unfold uponDecided
    simp only [hv, wrap]
    have key : ∀ i ∈ (decidedUpdate cfg c m).1, i.height = h → i ∈ c.insts := by
      intro i hi hih
      unfold decidedUpdate at hi
      split at hi
      · rcases addNewInstance_mem _ _ _ _ hi with hi | hi
        · exact hi
        · subst hi; simp [newInstance] at hih; exact absurd hih hne
      · rename_i inst hf
        have hh := (findInstance_some hf).2
        split at hi
        · rcases updateInstance_mem _ _ _ hi with hi | hi
          · exact hi
          · subst hi; simp at hih; exact absurd (hh ▸ hih) hne
        · simp only at hi
          split at hi
          · rcases updateInstance_mem _ _ _ hi with hi | hi
            · exact hi
            · subst hi; simp at hih; exact absurd (hh ▸ hih) hne
          · exact hi
    split <;> exact key
  · rw [(uponDecided_rejected cfg c m hv).1]
    intro i hi _; exact hi

/-! ## non-vacuity: concrete runs in which a decision IS reported, by both paths -/

def c02Cfg : Cfg :=
  { committee := [1, 2, 3, 4], quorum := 3, partialQuorum := 2, own := 2, ident := 1, cutoff := 15,
    capacity := Gen.qbft_InstanceContainerDefaultCapacity, valCheck := fun _ => true,
    proposer := fun h r => roundRobinProposer [1, 2, 3, 4] h r }

def c02Msg (t r root : Nat) (signers : List Nat) (mid full : Nat) : Msg :=
  { type := t, height := 0, round := r, ident := 1, root := root, dataRound := 0, signers := signers, sigOk := true,
    malformed := false, mid := mid, rcJust := [], prepJust := [], fullData := full }

/-- operator 2 decides value 2 by counting the commits of 1, 3, 4: `ProcessMsg` returns the aggregate signed by [1,3,4] -/
example :
    ((runC c02Cfg newController
      [.start 0 2, .deliver (c02Msg tProposal 1 2 [1] 10 2),
       .deliver (c02Msg tPrepare 1 2 [1] 11 0), .deliver (c02Msg tPrepare 1 2 [3] 12 0), .deliver (c02Msg tPrepare 1 2 [4] 13 0),
       .deliver (c02Msg tCommit 1 2 [4] 14 0), .deliver (c02Msg tCommit 1 2 [1] 15 0), .deliver (c02Msg tCommit 1 2 [3] 16 0)]).2.getLast?.map
        (fun o => match o.res with | .ok (some d) => (d.signers, d.root, d.fullData) | _ => ([], 0, 0))) = some ([1, 3, 4], 2, 2) := by
  decide +kernel

/-- a decided message from the network is reported, stored and notified -/
example :
    ((runC c02Cfg newController [.start 0 2, .deliver (c02Msg tCommit 1 2 [1, 3, 4] 14 2)]).2.getLast?.map (fun o => (o.res, o.outs))) =
      some (.ok (some (c02Msg tCommit 1 2 [1, 3, 4] 14 2)),
            [.save (c02Msg tCommit 1 2 [1, 3, 4] 14 2), .notify (c02Msg tCommit 1 2 [1, 3, 4] 14 2)]) := by
  decide +kernel

/-- the hypotheses of the forged-certificate lemmas are satisfiable by decided-looking messages -/
example : isDecidedMsg c02Cfg (c02Msg tCommit 1 2 [1, 1, 3] 14 2) = true ∧ ¬ (c02Msg tCommit 1 2 [1, 1, 3] 14 2).signers.Nodup ∧
    isDecidedMsg c02Cfg (c02Msg tCommit 1 2 [1, 3, 9] 14 2) = true ∧ (∃ s ∈ (c02Msg tCommit 1 2 [1, 3, 9] 14 2).signers, s ∉ c02Cfg.committee) ∧
    isDecidedMsg c02Cfg (c02Msg tCommit 1 2 [1, 3, 4] 14 7) = true ∧ hashData (c02Msg tCommit 1 2 [1, 3, 4] 14 7).fullData ≠ (c02Msg tCommit 1 2 [1, 3, 4] 14 7).root := by
  decide

/-- PRODUCTION WIRING of the controller (operator/validator/controller.go `SetupRunners`, closure `buildController`): the qbft.Config a
    real node runs with has `SignatureVerification: true` unconditionally, a `ProposerF` that answers
    `specqbft.RoundRobinProposer(state, round)` for the round ASKED about, the role's value check, the default domain and the
    identifier built from it — the configuration the model's `Cfg` assumes (`verifySig` consulted, `proposer h r`). The harness
    exercises exactly these objects in its production-config cases (harness/cmd/qbft/prodcfg.go). -/
theorem C02_tie_production_wiring :
    Gen.has_qbft_SetupRunners = [true, true, true, true, true, true, true] := by decide

end Ssv.Qbft
