/-
C11 — Registry state is a deterministic function of the contract event log.
Property theorems only (model: Ssv/Model/Registry.lean, helper lemmas: Ssv/Proofs/Registry.lean, RegistryRun.lean).

All theorems quantify over ALL event lists (valid and malformed events, arbitrary facts), ALL batchings into blocks
and — where stated — all start states that satisfy the invariants of a state between blocks. Where the code deviates
from the property the full statement is kept as a `def … : Prop`, refuted with a concrete witness (each witness was
replayed on the real handler, corpus/C11), and the true `_partial` theorem says what has to be assumed.
-/
import Ssv.Proofs.RegistryRun

namespace Ssv.Registry

/-! ## ties to the regenerated facts -/

/-- constants of the length / committee checks; `ValidCommitteeSize` (fingerprinted) accepts exactly 4, 7, 10, 13
    within the operator bound -/
theorem C11_tie_constants :
    Gen.eventhandler_maxOperators = 13 ∧ Gen.eventhandler_encryptedKeyLength = 256 ∧
    Gen.src_ValidCommitteeSize = "4833e46ed1722284" ∧ Gen.src_BelongsToOperator = "bfef44e34c0869c7" ∧
    (∀ n, n ≤ Gen.eventhandler_maxOperators → (validCommitteeSize n = true ↔ n = 4 ∨ n = 7 ∨ n = 10 ∨ n = 13)) ∧
    expectedSharesLen 4 = 1312 := by
  refine ⟨rfl, rfl, by decide, by decide, ?_, by decide⟩
  show ∀ n, n ≤ 13 → (validCommitteeSize n = true ↔ n = 4 ∨ n = 7 ∨ n = 10 ∨ n = 13)
  decide

/-- nonce handling of the recipients storage (fingerprinted): GetNextNonce / BumpNonce as modelled -/
theorem C11_tie_nonce_source :
    Gen.src_GetNextNonce = "f591aca71318176e" ∧ Gen.src_BumpNonce = "703d3a1899808621" := by decide

/-- order of reads, guards and writes the model relies on:
    * handleValidatorAdded reads the nonce, BUMPS it, and only then validates operators, share length, signature,
      looks the share up (memory map), creates it, and decides whether it is the node's own;
    * validateOperators: size rule before existence;
    * handleShareCreation: key manager (outside the transaction) before Shares().Save;
    * handleValidatorRemoved: lookup, decided-history cleanup, Shares().Delete, key manager;
    * SaveOperatorData looks the operator up with `getOperatorData(nil, …)` (outside the transaction) before the
      transactional Set; Shares().Get never touches the database; Shares().Save writes through `Using(rw)`. -/
theorem C11_tie_callsites :
    Gen.calls_handleValidatorAdded =
      ["GetNextNonce", "BumpNonce", "validateOperators", "verifySignature", "Get", "handleShareCreation", "BelongsToOperator"] ∧
    Gen.calls_validateOperators = ["ValidCommitteeSize", "OperatorsExist"] ∧
    Gen.calls_handleShareCreation = ["validatorAddedEventToShare", "BelongsToOperator", "AddShare", "Save"] ∧
    Gen.calls_validatorAddedEventToShare =
      ["DeserializeBLSPublicKey", "Decrypt", "SetHexString", "GetPublicKey", "ComputeQuorumAndPartialQuorum"] ∧
    Gen.calls_handleValidatorRemoved = ["Get", "CleanAllInstances", "Each", "Delete", "BelongsToOperator", "RemoveShare"] ∧
    Gen.calls_handleValidatorExited = ["Get", "BelongsToOperator"] ∧
    Gen.calls_handleOperatorAdded = ["GetOperatorData", "SaveOperatorData", "SetOperatorData"] ∧
    Gen.calls_processClusterEvent = ["ComputeClusterIDHash", "List", "BelongsToOperator", "Save"] ∧
    Gen.calls_handleFeeRecipientAddressUpdated = ["GetRecipientData", "SaveRecipientData"] ∧
    Gen.calls_SaveOperatorData = ["getOperatorData", "Set", "Using"] ∧
    Gen.calls_sharesGet = [] ∧ Gen.calls_sharesSave = ["SetMany", "Using"] := by decide

/-- storage layer the model takes for granted (also exercised dynamically: the harness runs the real SetMany): a batch
    write stores every item under ITS OWN key (`append(prefix, item.Key...)` per item), through the transaction and
    directly -/
theorem C11_tie_storage_batch : Gen.has_txn_SetMany = [true] ∧ Gen.has_db_SetMany = [true] := by decide

/-- quorum fields of a share (not part of the abstract model; compared field by field by the harness): both the share
    built from a ValidatorAdded event and the share decoded from the database take (Quorum, PartialQuorum) in this
    order from `ComputeQuorumAndPartialQuorum` = (2f+1, f+1), f = (n-1)/3 -/
theorem C11_tie_share_quorum :
    Gen.has_Decode_quorum = [true] ∧ Gen.has_quorum_formula = [true, true] ∧ Gen.has_event_quorum = [true] := by decide

/-! ## batching independence -/

/-- the full claim: the final state depends only on the flattened event list and the last block number -/
def C11_batching_independent_full : Prop :=
  ∀ (me : Nat) (n : Node) (bs1 bs2 : List Block), Boundary n → SelfInv me [] n.reg →
    flatten bs1 = flatten bs2 → lastNumber bs1 = lastNumber bs2 →
    (run me n bs1).2 = true → (run me n bs2).2 = true → (run me n bs1).1 = (run me n bs2).1

/-- two OperatorAdded events with the same id: one block or two blocks -/
def dupOpOneBlock : List Block := [⟨2, [.operatorAdded 5 1 2, .operatorAdded 5 1 3]⟩]
def dupOpTwoBlocks : List Block := [⟨1, [.operatorAdded 5 1 2]⟩, ⟨2, [.operatorAdded 5 1 3]⟩]

/-- REFUTED on this tree: `SaveOperatorData` checks for an existing operator OUTSIDE the block transaction, so a
    second OperatorAdded with the same id overwrites the first one inside one block and is ignored across blocks
    (replayed on the real handler: corpus/C11/registry_dup_operator_id.ops). -/
theorem C11_batching_independent_full_refuted : ¬ C11_batching_independent_full := by
  intro h
  have := h 1 init dupOpOneBlock dupOpTwoBlocks init_boundary (init_selfInv 1) (by decide) (by decide) (by decide) (by decide)
  revert this
  decide

/-- Batching independence, for every event list whose OperatorAdded ids are pairwise distinct and non-zero (what the
    contract's operator counter guarantees): any two batchings of the same events that end on the same block number
    and are processed completely leave the node in the same state — database, memory, wallet, decided history. -/
theorem C11_batching_independent_partial (me : Nat) (n : Node) (bs1 bs2 : List Block)
    (hb : Boundary n) (hself : SelfInv me [] n.reg)
    (hfl : flatten bs1 = flatten bs2) (hlast : lastNumber bs1 = lastNumber bs2)
    (hwf : OpAddsWF (flatten bs1))
    (h1 : (run me n bs1).2 = true) (h2 : (run me n bs2).2 = true) :
    (run me n bs1).1 = (run me n bs2).1 := by
  obtain ⟨s1, t1⟩ := run_sim_ideal me n bs1 hb.1.1 hself hwf h1
  obtain ⟨s2, t2⟩ := run_sim_ideal me n bs2 hb.1.1 hself (hfl ▸ hwf) h2
  rw [← hfl] at s2
  refine node_eq_of_sim s1 s2 t1 t2 ?_
  rw [run_marker me n bs1 h1, run_marker me n bs2 h2, hlast]

/-- the hypotheses "processed completely" hold for EVERY batching with strictly increasing block numbers above the
    marker of a history without a log that lacks topics (such a log makes `processEvent` panic) -/
theorem C11_run_completes (me : Nat) (n : Node) (bs : List Block) (hinc : Increasing (n.reg.db.marker.getD 0) bs)
    (hnt : Event.noTopics ∉ flatten bs) : (run me n bs).2 = true :=
  run_completes me n bs hinc hnt

/-- batching independence in closed form: same events, same last block number, increasing block numbers, fresh
    non-zero operator ids, no log without topics ⇒ same final node -/
theorem C11_batching_independent (me : Nat) (n : Node) (bs1 bs2 : List Block)
    (hb : Boundary n) (hself : SelfInv me [] n.reg)
    (hfl : flatten bs1 = flatten bs2) (hlast : lastNumber bs1 = lastNumber bs2)
    (hwf : OpAddsWF (flatten bs1)) (hnt : Event.noTopics ∉ flatten bs1)
    (h1 : Increasing (n.reg.db.marker.getD 0) bs1) (h2 : Increasing (n.reg.db.marker.getD 0) bs2) :
    (run me n bs1).1 = (run me n bs2).1 :=
  C11_batching_independent_partial me n bs1 bs2 hb hself hfl hlast hwf
    (run_completes me n bs1 h1 hnt) (run_completes me n bs2 h2 (hfl ▸ hnt))

/-- non-vacuity: two different batchings of a history with valid and malformed events, both processed completely -/
def sampleEvents : List Event :=
  [.operatorAdded 1 1 1, .operatorAdded 2 1 2, .operatorAdded 3 1 3, .operatorAdded 4 1 4,
   .validatorAdded 1 7 (some 0) 1312 [⟨1, 11, true, true⟩, ⟨2, 12, false, false⟩, ⟨3, 13, false, false⟩, ⟨4, 14, false, false⟩],
   .validatorAdded 1 8 (some 1) 1312 [⟨1, 11, true, true⟩, ⟨2, 12, false, false⟩, ⟨3, 13, false, false⟩, ⟨4, 14, false, false⟩],
   .validatorAdded 2 9 (some 5) 1312 [⟨1, 11, true, true⟩, ⟨2, 12, false, false⟩, ⟨3, 13, false, false⟩, ⟨4, 14, false, false⟩],
   .clusterLiquidated 1 [4, 3, 2, 1], .feeRecipientUpdated 1 9, .validatorRemoved 2 7 [], .validatorRemoved 1 7 []]

example :
    let bs1 : List Block := [⟨3, sampleEvents.take 4⟩, ⟨5, sampleEvents.drop 4⟩]
    let bs2 : List Block := [⟨1, sampleEvents.take 5⟩, ⟨2, []⟩, ⟨5, sampleEvents.drop 5⟩]
    flatten bs1 = flatten bs2 ∧ lastNumber bs1 = lastNumber bs2 ∧ OpAddsWF (flatten bs1) ∧
    (run 1 init bs1).2 = true ∧ (run 1 init bs2).2 = true ∧
    (run 1 init bs1).1.reg.db.shares ≠ [] ∧ (run 1 init bs1).1 ≠ init := by
  refine ⟨by decide, by decide, ⟨by decide, by decide⟩, by decide, by decide, by decide, by decide⟩

/-! ## the nonce counts every add attempt exactly once -/

/-- After any completely processed run, the nonce an owner has to sign next is the start value plus the number of
    that owner's (parsed) ValidatorAdded events — valid or malformed alike — modulo 2^16 (`Nonce` is a uint16). -/
theorem C11_nonce_counts_add_attempts (me : Nat) (n : Node) (bs : List Block) (owner : Nat)
    (hok : (run me n bs).2 = true) :
    nextNonce (run me n bs).1.reg.db.recips owner =
      (nextNonce n.reg.db.recips owner + countAdds owner (flatten bs)) % nonceMod := by
  have h := run_reg me n bs
  rw [h.1]
  exact regRun_nextNonce me n.reg bs owner (by rw [← h.2]; exact hok)

/-- one event: the expected nonce moves iff the event is a ValidatorAdded of that owner — before any validation -/
theorem C11_nonce_bumped_before_validation (me blk : Nat) (n : Node) (owner pk : Nat) (sn : Option Nat) (len : Nat)
    (ms : List Member) :
    nextNonce (applyEvent me blk n (.validatorAdded owner pk sn len ms)).1.reg.txn.recips owner =
      (nextNonce n.reg.txn.recips owner + 1) % nonceMod := by
  rw [applyEvent_reg, regEvent_nextNonce]
  simp [countAdds]

example : nextNonce (run 1 init [⟨1, sampleEvents⟩]).1.reg.db.recips 1 = 2 ∧
    nextNonce (run 1 init [⟨1, sampleEvents⟩]).1.reg.db.recips 2 = 1 ∧ findShare (run 1 init [⟨1, sampleEvents⟩]).1.reg.shares 9 = none := by decide

/-! ## add-soundness -/

/-- From an empty registry: every stored share is explained by a ValidatorAdded event of its owner and key that
    passed every listed check against the state THEN — signature over the nonce expected at that point (= number of
    the owner's earlier add attempts), committee of valid size made of distinct operators that had been added
    before, correctly sized share data, and (if the share is the node's own) a decryptable share key matching its
    public key — and that was not followed by a ValidatorRemoved of that owner and key. -/
theorem C11_add_sound (me : Nat) (bs : List Block) (hok : (run me init bs).2 = true) (pk : Nat) (sh : Share)
    (hf : findShare (run me init bs).1.reg.shares pk = some sh) :
    AddWitness (fun _ => 0) [] (flatten bs) sh.pk sh.owner sh.committee sh.operatorId sh.sharePk := by
  have h := run_reg me init bs
  rw [h.1] at hf
  have := regRun_addSound me init.reg bs init_boundary.1 rfl (by rw [← h.2]; exact hok) pk sh hf
  simpa [init, nextNonce, findRecip] using this

/-- the same from any state between blocks that holds no shares yet (operators and nonces may exist) -/
theorem C11_add_sound_general (me : Nat) (n : Node) (bs : List Block) (hb : Boundary n) (hempty : n.reg.db.shares = [])
    (hok : (run me n bs).2 = true) (pk : Nat) (sh : Share)
    (hf : findShare (run me n bs).1.reg.shares pk = some sh) :
    AddWitness (fun o => nextNonce n.reg.db.recips o) n.reg.db.ops (flatten bs)
      sh.pk sh.owner sh.committee sh.operatorId sh.sharePk := by
  have h := run_reg me n bs
  rw [h.1] at hf
  exact regRun_addSound me n.reg bs hb.1 hempty (by rw [← h.2]; exact hok) pk sh hf

example : ∃ sh, findShare (run 1 init [⟨1, sampleEvents⟩]).1.reg.shares 8 = some sh ∧ sh.operatorId = 1 := by decide

/-! ## the node's own share needs a decryptable, matching key -/

/-- a stored share marked as the node's own (`OperatorID ≠ 0`) comes from an add event whose member for that
    operator id had a share key the node could decrypt and that matched the listed public key -/
theorem C11_own_share_only_if_key_ok (me : Nat) (bs : List Block) (hok : (run me init bs).2 = true) (pk : Nat) (sh : Share)
    (hf : findShare (run me init bs).1.reg.shares pk = some sh) (hown : sh.operatorId ≠ 0) :
    ∃ pre post sn len ms, flatten bs = pre ++ Event.validatorAdded sh.owner sh.pk sn len ms :: post ∧
      ∃ m ∈ ms, m.op = sh.operatorId ∧ m.decryptOk = true ∧ m.keyMatches = true ∧ sh.sharePk = some m.key := by
  obtain ⟨pre, post, sn, len, ms, he, _, _, hk, _⟩ := C11_add_sound me bs hok pk sh hf
  exact ⟨pre, post, sn, len, ms, he, hk hown⟩

/-- one step: an undecryptable or mismatching own share key never creates a share; for a validator that is not
    stored yet the event is malformed (skipped) — while the nonce has already been bumped
    (`C11_nonce_bumped_before_validation`) -/
theorem C11_bad_own_key_rejected (me blk : Nat) (n : Node) (owner pk : Nat) (sn : Option Nat) (len : Nat) (ms : List Member)
    (t : Tag) (hbad : scanCommittee n.reg.self ms = .error t) :
    (applyEvent me blk n (.validatorAdded owner pk sn len ms)).1.reg.shares = n.reg.shares ∧
    (findShare n.reg.shares pk = none → ∃ t', (applyEvent me blk n (.validatorAdded owner pk sn len ms)).2 = .malformed t') := by
  constructor
  · rw [applyEvent_reg, regEvent_validatorAdded]
    have : vaCreates n.reg owner pk sn len ms = none := by
      unfold vaCreates; split
      · simp [hbad]
      · rfl
    simp [this, bumpReg]
  · intro hnone
    simp only [applyEvent, eventOutcome, regSteps, addSteps, viewOf]
    cases hv : validateOperators n.reg.txn.ops (ms.map (·.op)) with
    | some t => exact ⟨_, rfl⟩
    | none =>
      simp only []
      by_cases hl : (len != expectedSharesLen ms.length) = true
      · simp only [hl, ↓reduceIte]; exact ⟨_, rfl⟩
      · simp only [hl, Bool.false_eq_true, ↓reduceIte]
        by_cases hs : (sn != some (nextNonce n.reg.txn.recips owner)) = true
        · simp only [hs, ↓reduceIte]; exact ⟨_, rfl⟩
        · simp only [hs, Bool.false_eq_true, ↓reduceIte, hnone, hbad]; exact ⟨_, rfl⟩

/-! ## only the owner can remove or exit a validator -/

/-- a ValidatorRemoved event of anybody but the share's owner changes nothing at all (malformed: wrong owner) -/
theorem C11_owner_only_remove (me blk : Nat) (n : Node) (owner pk : Nat) (ops : List Nat) (sh : Share)
    (hf : findShare n.reg.shares pk = some sh) (hne : owner ≠ sh.owner) :
    applyEvent me blk n (.validatorRemoved owner pk ops) = (n, .malformed .wrongOwner) := by
  have hb : (owner != sh.owner) = true := by simpa using hne
  simp [applyEvent, eventOutcome, regSteps, viewOf, hf, hb, runMacro]

/-- a ValidatorExited event of anybody but the share's owner changes nothing and produces no exit task -/
theorem C11_owner_only_exit (me blk : Nat) (n : Node) (owner pk : Nat) (ops : List Nat) (sh : Share)
    (hf : findShare n.reg.shares pk = some sh) (hne : owner ≠ sh.owner) :
    applyEvent me blk n (.validatorExited owner pk ops) = (n, .malformed .wrongOwner) := by
  have hb : (owner != sh.owner) = true := by simpa using hne
  simp [applyEvent, eventOutcome, regSteps, viewOf, hf, hb, runMacro]

/-- whatever the event: a stored share disappears from the registry only through a ValidatorRemoved event that
    carries the share's own owner (state inside a block, memory map in step with the transaction) -/
theorem C11_share_disappears_only_by_owner_removal (me blk : Nat) (n : Node) (e : Event) (pk : Nat) (sh : Share)
    (h1 : n.reg.shares = n.reg.txn.shares) (h2 : NodupPk n.reg.shares)
    (hf : findShare n.reg.shares pk = some sh)
    (hgone : findShare (applyEvent me blk n e).1.reg.shares pk = none) :
    ∃ ops, e = Event.validatorRemoved sh.owner pk ops := by
  rw [applyEvent_reg] at hgone
  exact regEvent_share_disappears me blk n.reg e pk sh h1 h2 hf hgone

/-- an exit task is only produced for a stored share of that owner which is the node's own and has beacon metadata -/
theorem C11_exit_task_only_for_owner (me blk : Nat) (n : Node) (owner pk : Nat) (ops : List Nat) (t : Task)
    (h : (applyEvent me blk n (.validatorExited owner pk ops)).2 = .processed (some t)) :
    ∃ sh idx, findShare n.reg.shares pk = some sh ∧ sh.owner = owner ∧ belongs n.reg.self sh = true ∧
      sh.bmeta = some idx ∧ t = .exit sh.pk blk idx := by
  simp only [applyEvent, eventOutcome, regSteps, viewOf] at h
  cases hf : findShare n.reg.shares pk with
  | none => simp [hf] at h
  | some sh =>
    simp only [hf] at h
    by_cases ho : (owner != sh.owner) = true
    · simp [ho] at h
    · simp only [ho, Bool.false_eq_true, ↓reduceIte] at h
      by_cases hb : belongs n.reg.self sh = true
      · simp only [hb, Bool.not_true, Bool.false_eq_true, ↓reduceIte] at h
        cases hm : sh.bmeta with
        | none => simp [hm] at h
        | some idx =>
          simp only [hm, Outcome.processed.injEq, Option.some.injEq] at h
          exact ⟨sh, idx, rfl, (by simpa using ho : owner = sh.owner).symm, hb, hm, h.symm⟩
      · simp [hb] at h

example : (applyEvent 1 9 (run 1 init [⟨1, sampleEvents.take 6⟩]).1 (.validatorRemoved 2 8 [])).2 = .malformed .wrongOwner := by
  decide
example : (applyEvent 1 9 (run 1 init [⟨1, sampleEvents.take 6⟩]).1 (.validatorRemoved 1 8 [])).2 = .processed (some (.stop 8)) := by
  decide

/-! ## memory = database, restart reproduces -/

/-- After every completely processed run from a state between blocks: nothing is pending, the in-memory shares map
    equals the shares in the database, the wallet index in memory equals the stored one. -/
theorem C11_mem_eq_db (me : Nat) (n : Node) (bs : List Block) (hb : Boundary n) (hok : (run me n bs).2 = true) :
    (run me n bs).1.reg.shares = (run me n bs).1.reg.db.shares ∧
    (run me n bs).1.reg.txn = (run me n bs).1.reg.db ∧
    (run me n bs).1.wal.midx = (run me n bs).1.wal.pidx := by
  have := run_boundary me n bs hb hok
  exact ⟨this.1.2.1, this.1.1, this.2⟩

/-- the full claim: a restart after any completely processed run reproduces the state -/
def C11_load_persist_id_full : Prop :=
  ∀ (me : Nat) (bs : List Block), (run me init bs).2 = true → restart me (run me init bs).1 = (run me init bs).1

/-- REFUTED on this tree: operator id 0. The "already registered" guard only works once the own id is non-zero, so
    after `OperatorAdded(0, own key)` a second `OperatorAdded(7, own key)` is accepted and the running node believes
    to be operator 7, while a restarted node looks its key up in key order and finds operator 0
    (replayed on the real handler: corpus/C11/registry_operator_id_zero.ops). -/
theorem C11_load_persist_id_full_refuted : ¬ C11_load_persist_id_full := by
  intro h
  have := h 1 [⟨1, [.operatorAdded 0 1 1]⟩, ⟨2, [.operatorAdded 7 1 1]⟩] (by decide)
  revert this
  decide

/-- Restart reproduces the state (load ∘ persist = id on every state reached by a completely processed run), for
    every event list whose OperatorAdded ids are pairwise distinct and non-zero. -/
theorem C11_load_persist_id_partial (me : Nat) (n : Node) (bs : List Block) (hb : Boundary n) (hself : SelfInv me [] n.reg)
    (hwf : OpAddsWF (flatten bs)) (hok : (run me n bs).2 = true) :
    restart me (run me n bs).1 = (run me n bs).1 := by
  have hbd := run_boundary me n bs hb hok
  have h := run_reg me n bs
  have hinv := regRun_selfInv me n.reg bs hb.1.1 hself hwf (by rw [← h.2]; exact hok)
  rw [← h.1] at hinv
  have htd : (run me n bs).1.reg.txn = (run me n bs).1.reg.db := hbd.1.1
  refine restart_eq me _ hbd ?_ ?_
  · rw [← htd]; exact hinv.own
  · rw [← htd]; exact hinv.has

theorem C11_load_persist_id_init (me : Nat) (bs : List Block) (hwf : OpAddsWF (flatten bs)) (hok : (run me init bs).2 = true) :
    restart me (run me init bs).1 = (run me init bs).1 :=
  C11_load_persist_id_partial me init bs init_boundary (init_selfInv me) hwf hok

example : OpAddsWF (flatten [⟨1, sampleEvents⟩]) ∧ (run 1 init [⟨1, sampleEvents⟩]).2 = true ∧
    (run 1 init [⟨1, sampleEvents⟩]).1.reg.self = 1 := by
  refine ⟨⟨by decide, by decide⟩, by decide, by decide⟩

/-- the same duplicate-operator-id witness also breaks the restart clause (own id kept in memory, operator
    overwritten in the database) -/
theorem C11_load_persist_id_dup_operator_refuted :
    restart 1 (run 1 init [⟨1, [.operatorAdded 5 1 1, .operatorAdded 5 1 2]⟩]).1 ≠
      (run 1 init [⟨1, [.operatorAdded 5 1 1, .operatorAdded 5 1 2]⟩]).1 := by decide

/-! ## memory vs database after a FAILED block (DESIGN §8-7) -/

/-- the stronger claim one might want: even if a block fails on a write error and the same process is asked again,
    memory equals the database after the next successful block -/
def C11_mem_eq_db_after_retry_full : Prop :=
  ∀ (me : Nat) (n : Node) (b : Block) (k : Nat), Boundary n →
    (applyBlock me (faultBlock me n b .retry k).1 b).2.1 = .ok →
    (applyBlock me (faultBlock me n b .retry k).1 b).1.reg.shares =
      (applyBlock me (faultBlock me n b .retry k).1 b).1.reg.db.shares

def retryStart : Node := (run 1 init [⟨1, sampleEvents.take 4⟩]).1
def retryBlock : Block :=
  ⟨2, [.validatorAdded 1 7 (some 0) 1312 [⟨1, 11, true, true⟩, ⟨2, 12, false, false⟩, ⟨3, 13, false, false⟩, ⟨4, 14, false, false⟩],
       .feeRecipientUpdated 1 9]⟩

/-- REFUTED on this tree (measured on the real handler: corpus/C11/registry_retry_memory.ops): `Shares().Save`
    updates the in-memory map inside the block transaction; when a later write of the block fails the transaction is
    discarded but the map keeps the share, the retried ValidatorAdded finds it in memory and never writes it.
    Not a violation of C11/C12 as stated: cli/operator/node.go ends the process on every error of the event stream
    (`logger.Fatal`), and a restart reloads the map from the database (`C11_load_persist_id_partial`). -/
theorem C11_mem_eq_db_after_retry_full_refuted : ¬ C11_mem_eq_db_after_retry_full := by
  intro h
  have := h 1 retryStart retryBlock 4 (run_boundary 1 init _ init_boundary (by decide)) (by decide)
  revert this
  decide

end Ssv.Registry
