/-
C07 clause (c), system level — the mixed-locks wedge is a REACHABLE state of the executable multi-node system (`SystemB`,
n = 4, f = 1, height 0) from which NO schedule whatsoever leads a correct operator to decide, as long as the fourth
(Byzantine) member does not come to the rescue: a genuine refutation of "from every reachable state there is a deciding
continuation among the correct operators".

* `wSys` (Ssv/Proofs/QbftWedge.lean) is reached by the schedule of `c07Wedge` / DESIGN §8-10 replayed in `SystemB`: operator 1
  locked on (round 1, value 5), operators 2 and 3 locked on (round 2, value 6), all three undecided in round 3 without an
  accepted proposal (`C07_wedge_reached`). No message between correct operators was lost — only delayed.
* Continuations (`QReach`): ANY sequence of enabled `SystemB` steps — timeouts of any round, `StartNewInstance`, delivery of ANY
  authentic message (any order, duplication, loss, fabricated justifications; the fourth member may sign proposals and
  prepares and its old messages may be replayed) — restricted only by `quiet`: the fourth member signs no commit and no
  round-change for a round ≥ 3. A silent (crashed) fourth member is a special case.
* `C07_wedge_forever`: in every such continuation every correct operator is still undecided, has no accepted proposal, keeps its
  lock, and nothing was reported; `C07_wedge_no_decision`, `C07_continuation_refuted`.
* The restriction is necessary and sharp in one direction: with its commit signature the fourth member completes the commit
  quorum (2, 3, 4) for (round 2, value 6) and the decided message makes every correct operator decide 6
  (`C07_wedge_only_byzantine_unlocks`) — progress is in the hands of the faulty member, which is exactly what the property
  forbids. (A round-change of the fourth member for a round ≥ 3 prepared on (2, 6) would do as well: then operators 2, 3, 4
  justify a proposal of 6.)
Mechanism: every round-change quorum for a round ≥ 3 must contain operators 1 and 2, whose round-changes are prepared for
different values, and `isProposalJustification` checks EVERY prepared round-change against the proposed value
(`C07_mixed_locks_never_justify`); no commit quorum exists because operators 1 and 2 committed in different rounds.
-/
import Ssv.Proofs.QbftWedge2

namespace Ssv.Qbft.B.Wedge
open Ssv.Qbft Ssv.Qbft.B

/-- the wedge is a reachable state of the executable system: all three correct operators undecided in round 3, no accepted
    proposal, operator 1 locked on (1, 5), operators 2 and 3 locked on (2, 6) -/
theorem C07_wedge_reached :
    Reachable wSys ∧ wP.Valid ∧
    [(0 : Op wP), 1, 2].map (fun i => (instAt 0 (wSys.ctrl i)).map (fun s =>
      (s.round, s.decided, s.accepted.isNone, s.lastPreparedRound, s.lastPreparedValue))) =
    [some (3, false, true, 1, 5), some (3, false, true, 2, 6), some (3, false, true, 2, 6)] :=
  ⟨w_reachable, wP_valid, wedge_summary⟩

/-- in EVERY quiet continuation of the wedge, every correct operator is undecided, has no accepted proposal, is in a round ≥ 3
    and still holds its lock; and no decision was ever reported -/
theorem C07_wedge_forever {σ : Sys wP} (h : QReach wSys σ) :
    (∀ i, wP.honest i = true → ∃ s, instAt 0 (σ.ctrl i) = some s ∧ s.decided = false ∧ s.accepted = none ∧ 3 ≤ s.round ∧
      s.lastPreparedRound = (lockOf i).1 ∧ s.lastPreparedValue = (lockOf i).2) ∧
    (∀ i v, ¬ reported σ i v) := by
  have hw := w_of_qreach w_wedge h
  constructor
  · intro i hi
    obtain ⟨s, hs, hn⟩ := hw.node i hi
    exact ⟨s, hs, hn.undecided, hn.acc, hn.round, hn.lpr, hn.lpv⟩
  · rintro i v ⟨r, hm⟩
    exact hw.noD _ hm i r v rfl

/-- no correct operator decides in any quiet continuation of the wedge -/
theorem C07_wedge_no_decision {σ : Sys wP} (h : QReach wSys σ) (i : Op wP) (hi : wP.honest i = true) (v : Nat) :
    ¬ decidedState σ i v ∧ ¬ reported σ i v := by
  obtain ⟨h1, h2⟩ := C07_wedge_forever h
  refine ⟨?_, h2 i v⟩
  rintro ⟨s, hs, hd, _⟩
  obtain ⟨s', hs', hund, _⟩ := h1 i hi
  have hs0 : instAt 0 (σ.ctrl i) = some s := hs
  rw [hs0] at hs'
  have : s = s' := Option.some.inj hs'
  subst this
  rw [hund] at hd
  exact absurd hd (by simp)

/-- every continuation stays reachable in the full system (the continuations are runs of the unrestricted `SystemB`) -/
theorem C07_wedge_continuations_reachable {σ : Sys wP} (h : QReach wSys σ) : Reachable σ :=
  reachable_of_qreach w_reachable h

/-- REFUTATION of "from every reachable state some continuation among the correct operators (fourth member silent or merely
    quiet) makes a correct operator decide" -/
theorem C07_continuation_refuted :
    ¬ ∀ σ0 : Sys wP, Reachable σ0 → ∃ σ, QReach σ0 σ ∧ ∃ i v, wP.honest i = true ∧ decidedState σ i v := by
  intro hall
  obtain ⟨σ, hq, i, v, hi, hd⟩ := hall wSys w_reachable
  exact (C07_wedge_no_decision hq i hi v).1 hd

/-- the only way out needs the Byzantine member: the decided message (round 2, value 6) with signers 2, 3, 4 is authentic as
    soon as operator 4 signs a commit, is not `quiet`, and makes operator 1 decide 6 -/
theorem C07_wedge_only_byzantine_unlocks :
    enabled wSys (.deliver 0 unwedgeCert) = true ∧ quiet unwedgeCert = false ∧
    (instAt 0 ((step wSys (.deliver 0 unwedgeCert)).ctrl 0)).map (fun s => (s.decided, s.decidedValue)) = some (true, 6) :=
  unwedge_facts

/-- non-vacuity of the continuation relation: e.g. all three timers fire (everybody moves to round 4, still wedged) -/
example : ∃ σ, QReach wSys σ ∧ σ ≠ wSys ∧ ∀ i, wP.honest i = true → ∃ s, instAt 0 (σ.ctrl i) = some s ∧ s.decided = false := by
  refine ⟨step (step (step wSys (.timeout 0 3)) (.timeout 1 3)) (.timeout 2 3),
    .step _ (.step _ (.step _ .refl rfl rfl) rfl rfl) rfl rfl, ?_, ?_⟩
  · intro he
    have : (step (step (step wSys (.timeout 0 3)) (.timeout 1 3)) (.timeout 2 3)).log.length = wSys.log.length := by rw [he]
    revert this
    decide +kernel
  · intro i hi
    obtain ⟨s, hs, hund, _⟩ := (C07_wedge_forever (.step _ (.step _ (.step _ .refl rfl rfl) rfl rfl) rfl rfl :
      QReach wSys (step (step (step wSys (.timeout 0 3)) (.timeout 1 3)) (.timeout 2 3)))).1 i hi
    exact ⟨s, hs, hund⟩

end Ssv.Qbft.B.Wedge
