/-
C08 — No network input can crash message validation or decoding.

PROVED here (rule pipeline): for every decoded message with arbitrary field values (round 0 / 2^64−1, height 0 / max,
empty or oversize signer lists, unknown types and roles, any justification lists), every signer state, every
receive time, every share (known / unknown / liquidated / metadata-less), `validateSSVMessage` and
`validateP2PMessage` return accept / ignore / reject — never the panic outcome. The model carries every Go panic
site of the path as an explicit outcome (see `PanicSite`).

PARTIAL (DESIGN §7.8 Limits): the byte-level decoders (fastssz, encoding/json, base64, libp2p record envelopes),
hanging and unbounded allocation are NOT modelled; they are exercised by the malformed-byte stream of the harness
(fuzzing: supports, does not prove). What IS proved about sizes: the size limits are checked before the decoded
body is looked at (`C08_size_limit_precedes_decoding`).
Helper lemmas: Ssv/Proofs/Validation.lean, Ssv/Proofs/ValidationPanic.lean.
-/
import Ssv.Proofs.ValidationPanic
import Ssv.Model.ValidationRecords

namespace Ssv.Validation
open Ssv

/-! ## ties to the regenerated facts -/

/-- guard order of `validateConsensusMessage` — in particular: `maxRound` and `validateSlotTime` are called BEFORE
    `validConsensusSigners` (which computes the round-robin leader) -/
theorem C08_tie_guard_order_consensus :
    Gen.calls_val_validateConsensusMessage =
      ["validateSignatureFormat", "validQBFTMsgType", "maxRound", "validateSlotTime", "validConsensusSigners",
       "GetSlotStartTime", "After", "currentEstimatedRound", "HashDataRoot", "validateBeaconDuty", "consensusState",
       "validateSignerBehaviorConsensus", "signatureVerifier", "GetSignerState", "CreateSignerState", "ResetSlot",
       "ResetRound", "hasFullData", "RecordConsensusMessage"] := by decide

theorem C08_tie_guard_order_ssv :
    Gen.calls_val_validateSSVMessage =
      ["Equal", "validRole", "DeserializeBLSPublicKey", "Get", "IsAttesting", "DecodeSSVMessage", "Lock", "Lock",
       "validateConsensusMessage", "validatePartialSignatureMessage"] ∧
    Gen.calls_val_validateP2PMessage =
      ["EstimatedEpochAtSlot", "DecodeSignedSSVMessage", "verifySignature", "DecodeNetworkMsg", "GetTopicBaseName",
       "ValidatorTopicID", "validateSSVMessage"] := by decide

theorem C08_tie_guard_order_signers :
    Gen.calls_val_validConsensusSigners = ["RoundRobinProposer", "HasQuorum", "IsSorted", "commonSignerValidation"] ∧
    Gen.calls_val_validateSlotTime = ["earlyMessage", "lateMessage"] ∧
    Gen.calls_val_validateSignerBehaviorConsensus =
      ["GetSignerState", "validateJustifications", "EstimatedEpochAtSlot", "EstimatedEpochAtSlot", "validateDutyCount",
       "hasFullData", "Equal", "maxMessageCounts", "ValidateConsensusMessage", "validateJustifications"] := by decide

theorem C08_tie_guard_order_partial :
    Gen.calls_val_validatePartialSignatureMessage =
      ["validPartialSigMsgType", "partialSignatureTypeMatchesRole", "earlyMessage", "validatePartialMessages", "consensusState",
       "GetSignerState", "validateSignerBehaviorPartial", "validateSignatureFormat", "signatureVerifier",
       "CreateSignerState", "ResetSlot", "RecordPartialSignatureMessage"] ∧
    Gen.calls_val_validatePartialMessages = ["commonSignerValidation", "commonSignerValidation", "validateSignatureFormat"] ∧
    Gen.calls_val_validateSignerBehaviorPartial =
      ["GetSignerState", "EstimatedEpochAtSlot", "EstimatedEpochAtSlot", "validateDutyCount", "maxMessageCounts",
       "ValidatePartialSignatureMessage"] := by decide

/-- panic inventory: the explicit `panic(...)` calls of the anchored files are exactly the modelled ones
    (`maxRound`, `partialSignatureTypeMatchesRole`, the four `MessageCounts` switches; `waitAfterSlotStart` is not on
    the validation path), and the guard functions themselves contain none -/
theorem C08_tie_panic_inventory :
    Gen.panics_val_maxRound = ["panic"] ∧ Gen.panics_val_waitAfterSlotStart = ["panic"] ∧
    Gen.panics_val_partialSignatureTypeMatchesRole = ["panic"] ∧
    Gen.panics_val_ValidateConsensusMessage = ["panic"] ∧ Gen.panics_val_ValidatePartialSignatureMessage = ["panic"] ∧
    Gen.panics_val_RecordConsensusMessage = ["panic", "panic"] ∧ Gen.panics_val_RecordPartialSignatureMessage = ["panic"] ∧
    Gen.panics_val_validRole = [] ∧ Gen.panics_val_validQBFTMsgType = [] ∧ Gen.panics_val_validPartialSigMsgType = [] ∧
    Gen.panics_val_lateMessage = [] ∧ Gen.panics_val_earlyMessage = [] ∧ Gen.panics_val_currentEstimatedRound = [] ∧
    Gen.panics_val_validateDutyCount = [] ∧ Gen.panics_val_hasFullData = [] ∧ Gen.panics_val_validateSignatureFormat = [] ∧
    Gen.panics_val_consensusState = [] ∧ Gen.panics_val_ResetSlot = [] ∧ Gen.panics_val_ResetRound = [] ∧
    (Gen.calls_val_validateSSVMessage.contains "panic" = false) ∧
    (Gen.calls_val_validateConsensusMessage.contains "panic" = false) ∧
    (Gen.calls_val_validConsensusSigners.contains "panic" = false) ∧
    (Gen.calls_val_validatePartialSignatureMessage.contains "panic" = false) ∧
    (Gen.calls_val_validateJustifications.contains "panic" = false) ∧
    (Gen.calls_val_validateBeaconDuty.contains "panic" = false) := by decide

/-- `instance.IsProposalJustification` (an abstract Boolean of this model) calls neither `proposer` nor `panic`,
    and no signature verification is configured on this path (`VerifySignatures` is consulted, `qbftConfig` answers false) -/
theorem C08_tie_justification_callees :
    Gen.calls_val_isProposalJustification =
      ["valCheck", "validRoundChangeForData", "HasQuorum", "HasQuorum", "highestPrepared", "HashDataRoot",
       "validSignedPrepareForHeightRoundAndRoot"] ∧
    Gen.calls_val_validRoundChangeForData =
      ["VerifySignatures", "VerifyByOperators", "Validate", "HashDataRoot", "GetRoundChangeJustifications",
       "validSignedPrepareForHeightRoundAndRoot", "HasQuorum"] ∧
    Gen.calls_val_validSignedPrepare = ["Validate", "VerifySignatures", "VerifyByOperators"] := by decide

/-- literals and operators of the arithmetic kernels the model re-states (the leader index and the decided-count
    limit are additionally TRANSLATED from the source: `Gen.k_RoundRobinProposerIndex`, `Gen.k_maxDecidedCount`) -/
theorem C08_tie_kernel_literals :
    Gen.lits_val_maxRound = ["12", "6", "0", "\"unknown role\""] ∧
    Gen.lits_val_lateMessage = ["+", "1", "+", "32", "0", "+"] ∧
    Gen.lits_val_earlyMessage = [">", "+", "1", "u-"] ∧
    Gen.lits_val_currentEstimatedRound = ["+", "/", "<=", "-", "*", "+", "+", "/"] ∧
    Gen.lits_val_maxMessageCounts = ["1", "1", "1", "1", "1", "1"] ∧
    Gen.lits_val_RoundRobinProposer = ["0", "!=", "+=", "%", "%", "-", "+"] ∧
    Gen.lits_val_GetSlotStartTime = ["*", "+", "0"] ∧
    Gen.lits_val_EstimatedSlotAtTime = ["<", "0", "/", "-"] ∧
    (Gen.lits_val_validateP2PMessage.drop 3).take 9 = ["0", "+", "+", "4", "56", "8388668", "+", "/", "10"] := by decide

theorem C08_tie_enums :
    [Gen.val_BNRoleAttester, Gen.val_BNRoleAggregator, Gen.val_BNRoleProposer, Gen.val_BNRoleSyncCommittee,
     Gen.val_BNRoleSyncCommitteeContribution, Gen.val_BNRoleValidatorRegistration, Gen.val_BNRoleVoluntaryExit] = [0, 1, 2, 3, 4, 5, 6] ∧
    [Gen.val_ProposalMsgType, Gen.val_PrepareMsgType, Gen.val_CommitMsgType, Gen.val_RoundChangeMsgType] = [0, 1, 2, 3] ∧
    [Gen.val_PostConsensusPartialSig, Gen.val_RandaoPartialSig, Gen.val_SelectionProofPartialSig, Gen.val_ContributionProofs,
     Gen.val_ValidatorRegistrationPartialSig, Gen.val_VoluntaryExitPartialSig] = [0, 1, 2, 3, 4, 5] ∧
    Gen.val_NoRound = 0 ∧ Gen.val_FirstRound = 1 ∧ Gen.val_FirstHeight = 0 ∧ Gen.val_signatureSize = 96 ∧
    Gen.val_maxMessageSize = 8388608 ∧ Gen.val_maxConsensusMsgSize = 8388608 ∧ Gen.val_maxPartialSignatureMsgSize = 1952 := by decide

/-! ## the property -/

/-- MAIN: for all network constants with non-zero divisors, all duty stores, all signer states, all decoded messages
    with arbitrary field values, all receive times and wall clocks, and every stored share with a non-empty committee:
    `validateSSVMessage` never panics. -/
theorem C08_validate_never_panics (x : Ctx) (hc : x.cfg.WF) (st : State) (i : Input) (hi : InputWF i) :
    ∀ s, (validate x st i).2 ≠ .panic s := validate_noPanic x hc st i hi

/-- the same for the pubsub entry point (`validateP2PMessage`: envelope, size limits, topic, then the above) -/
theorem C08_validateP2P_never_panics (x : Ctx) (hc : x.cfg.WF) (st : State) (p : P2PInput) (hi : InputWF p.inner) :
    ∀ s, (validateP2P x st p).2 ≠ .panic s := validateP2P_noPanic x hc st p hi

/-- … and along every history of validated messages (the state reached after any sequence of calls) -/
def runAll (x : Ctx) : State → List Input → State
  | st, [] => st
  | st, i :: rest => runAll x (validate x st i).1 rest

theorem C08_never_panics_after_any_history (x : Ctx) (hc : x.cfg.WF) (hist : List Input) (i : Input) (hi : InputWF i) :
    ∀ s, (validate x (runAll x State.empty hist) i).2 ≠ .panic s :=
  validate_noPanic x hc _ i hi

/-! ## every panicking switch is dominated by its `valid*` check -/

theorem C08_maxRound_dominated (role : Nat) : validRole role = true → ∃ mx, maxRound role = .ok mx ∧ mx ≤ 12 :=
  maxRound_of_validRole role

theorem C08_maxRound_panics_only_for_invalid_role (role : Nat) (s : PanicSite) :
    maxRound role = .error (.panic s) → validRole role = false := maxRound_panics_only_unknown role s

theorem C08_partialTypeRole_dominated (t role : Nat) : validRole role = true → ∃ b, partialTypeMatchesRole t role = .ok b :=
  partialTypeMatchesRole_of_validRole t role

theorem C08_counts_dominated (c : Counts) (m : QMsg) (n : Nat) :
    validQBFTMsgType m.mtype = true → ∀ s, countsValidate c m n ≠ .error (.panic s) :=
  fun h => countsValidate_noPanic c m n h

theorem C08_record_dominated (c : Counts) (m : QMsg) :
    validQBFTMsgType m.mtype = true → m.signers ≠ [] → ∃ c', countsRecord c m = .ok c' := countsRecord_ok c m

theorem C08_partial_counts_dominated (c : Counts) (t : Nat) :
    validPartialSigMsgType t = true →
      (∀ s, countsValidatePartial c t ≠ .error (.panic s)) ∧ ∃ c', countsRecordPartial c t = .ok c' :=
  fun h => ⟨countsValidatePartial_noPanic c t h, countsRecordPartial_ok c t h⟩

/-- the `[signatureSize]byte(signature)` conversion is reached only for 96-byte signatures -/
theorem C08_signature_conversion_dominated (l : Nat) (z : Bool) : ∀ s, signatureFormat l z ≠ .error (.panic s) :=
  signatureFormat_noPanic l z

/-! ## the leader index -/

/-- the model's wrap-exact index expression IS the kernel translated from ssv-spec `RoundRobinProposer`
    wherever no intermediate sum overflows -/
theorem C08_leader_index_eq_translated_kernel (n h r : Nat) (hn : 0 < n) (hn' : (n : Int) < 4611686018427387904)
    (hh : (h : Int) < two64) (hr : (r : Int) < 4611686018427387904) :
    leaderIndex n h r = Gen.k_RoundRobinProposerIndex r h n := leaderIndex_eq_kernel n h r hn hn' hh hr

/-- whenever it is computed (round in [1, 12] after the zero-round and max-round guards, height below 2^63 after the
    slot window guard) the index lies in `[0, n)` -/
theorem C08_leader_index_in_range (n h r : Nat) (hn : 0 < n) (hn' : n < 2147483648) (hh : (h : Int) < two63)
    (hr1 : 1 ≤ r) (hr2 : r ≤ 12) : 0 ≤ leaderIndex n h r ∧ leaderIndex n h r < n :=
  leaderIndex_in_range n h r hn hn' hh hr1 hr2

/-- the slot window guard really bounds the height: whatever passes `validateSlotTime` is below 2^63 -/
theorem C08_slot_window_bounds_height (c : NetCfg) (hc : c.WF) (slot role : Nat) (now : GoTime) :
    validateSlotTime c slot role now = .ok () → (slot : Int) < two63 := slot_lt_of_not_early c hc slot role now

example : 0 ≤ leaderIndex 4 32000 1 ∧ leaderIndex 4 32000 1 < 4 := by decide

/-! ## the repaired defect, kept as a regression statement

Before `fix: message validation must not compute the round leader for out-of-range rounds and heights`
`validConsensusSigners` ran before any round / slot range check. -/

/-- round 0 and a height that is a multiple of the committee size: index −1 -/
theorem C08_prefix_order_round0_index_negative : leaderIndex 4 8 0 = -1 := by decide

/-- … and for a height ≥ 2^63 (negative after `int(...)`) even for round 1 -/
theorem C08_prefix_order_huge_height_index_negative : leaderIndex 4 18446744073709551615 1 = -1 := by decide


def round0Proposal : QMsg :=
  { mtype := 0, height := 32000, round := 0, root := 1, fullData := some 1, signers := [1], sigLen := 96, sigZero := false,
    pjMalformed := false, pjLen := 0, rcjMalformed := false, rcjLen := 0, justOk := true }

/-- the function that used to run first panics on the round-0 proposal (index out of range [-1]) … -/
theorem C08_prefix_order_round0_panics :
    validConsensusSigners share4 round0Proposal = .error (.panic .leaderIndexOutOfRange) := by decide



/-- … while the CURRENT order turns it down with the zero-round rule before the leader is computed -/
theorem C08_fixed_order_round0_rejected :
    (validate ctx0 State.empty (inputAt round0Proposal (1616508000 + 12 * 32000))).2 = .reject .ZeroRound := by decide

/-- … and a height of 2^64 − 1 is refused by the slot window (early message) -/
theorem C08_fixed_order_huge_height_ignored :
    (validate ctx0 State.empty (inputAt { round0Proposal with round := 1, height := 18446744073709551615 } (1616508000 + 12 * 32000))).2
      = .ignore .EarlyMessage := by decide

/-! ## necessity of the share hypothesis

`InputWF` (non-empty committee) cannot be dropped: with a stored share whose committee is empty the leader
computation divides by zero. Such a share cannot be created by the registry (C11: committees of 4/7/10/13). -/
theorem C08_empty_committee_would_panic :
    (validate ctx0 State.empty
        { inputAt { round0Proposal with round := 1 } (1616508000 + 12 * 32000) with share := some { share4 with committee := [] } }).2
      = .panic .leaderModZero := by decide

/-! ## node-record (ENR) entry decoders (network/records/entries.go; reached from every discovered peer's record)

The property names "the decoders of … node records". `DomainTypeEntry.DecodeRLP` converted the decoded byte slice to a
4-byte array without looking at its length — a Go run-time panic for fewer than four bytes (found on the pinned tree,
repaired by aac5f5f72). -/

/-- tie: in `DomainTypeEntry.DecodeRLP` the length guard (`len(buf) < len(dt)` → error) precedes the slice-to-array
    conversion, the comparison is `<`, and neither it nor the `Get…Entry` readers / `checkPeer` call `panic` -/
theorem C08_tie_record_entry_decoders :
    Gen.calls_val_DomainTypeEntry_DecodeRLP = ["Decode", "len", "len", "New", "DomainTypeEntry"] ∧
    Gen.has_val_DomainTypeEntry_DecodeRLP = [true, true] ∧
    Gen.lits_val_DomainTypeEntry_DecodeRLP = ["u&", "!=", "<", "\"domain type entry is too short\""] ∧
    Gen.calls_val_GetDomainTypeEntry = ["Load", "IsNotFound", "DomainType"] ∧
    Gen.calls_val_GetSubnetsEntry = ["NewBitvector128", "Load", "WithEntry", "IsNotFound", "Len", "Len", "BitAt"] ∧
    Gen.calls_val_checkPeer = ["GetDomainTypeEntry", "GetSubnetsEntry", "Equal", "UpdatePeerSubnets", "limitNodeFilter",
                               "sharedSubnetsFilter"] := by decide

/-- FULL: the domain-type entry decoder is total — for EVERY value (any byte string of any length, any non-string item) the
    outcome is an error or four bytes, never a panic; short ⇒ error; ≥ 4 bytes ⇒ exactly the first four -/
theorem C08_domain_type_entry_total (v : EnrValue) :
    decodeDomainType v ≠ .panic ∧
    (∀ b, v = .bytes b → b.length < 4 → decodeDomainType v = .err) ∧
    (∀ b, v = .bytes b → 4 ≤ b.length → decodeDomainType v = .ok (b.take 4) ∧ (b.take 4).length = 4) ∧
    (v = .notBytes → decodeDomainType v = .err) := by
  refine ⟨?_, ?_, ?_, ?_⟩
  · cases v with
    | notBytes => intro h; cases h
    | bytes b =>
      simp only [decodeDomainType]
      by_cases hl : b.length < domainTypeLen
      · rw [if_pos hl]; intro h; cases h
      · rw [if_neg hl]; intro h; cases h
  · intro b hv hl; subst hv
    simp [decodeDomainType, domainTypeLen, hl]
  · intro b hv hl; subst hv
    have : ¬ b.length < 4 := by omega
    simp [decodeDomainType, domainTypeLen, this, List.length_take]
    omega
  · intro hv; subst hv; rfl

/-- REGRESSION on the pre-repair decoder (no length guard): EVERY byte string shorter than four bytes — the empty string,
    small integers, … — is a panic; from four bytes on the two decoders agree -/
theorem C08_regression_old_domain_type_decoder_panics (b : List Nat) :
    (b.length < 4 → decodeDomainTypeOld (.bytes b) = .panic) ∧
    (4 ≤ b.length → decodeDomainTypeOld (.bytes b) = decodeDomainType (.bytes b)) := by
  constructor
  · intro h; simp [decodeDomainTypeOld, domainTypeLen, h]
  · intro h
    have : ¬ b.length < 4 := by omega
    simp [decodeDomainTypeOld, decodeDomainType, domainTypeLen, this]

/-- the subnets entry reader is total as well: a byte string of ANY length yields exactly 128 entries (all zero unless the
    string is 16 bytes long), anything else an error -/
theorem C08_subnets_entry_total (v : EnrValue) :
    decodeSubnets v ≠ .panic ∧
    (∀ b, v = .bytes b → ∃ l, decodeSubnets v = .ok l ∧ l.length = 128 ∧ (b.length ≠ 16 → l = List.replicate 128 0)) := by
  constructor
  · cases v <;> (simp only [decodeSubnets]; intro h; cases h)
  · intro b hv; subst hv
    refine ⟨_, rfl, by simp [subnetBits], ?_⟩
    intro h
    simp only [h, if_false]
    decide

example : decodeDomainType (.bytes [0, 0, 48, 18, 9, 9]) = .ok [0, 0, 48, 18] := by decide
example : decodeDomainType (.bytes [1, 2, 3]) = .err ∧ decodeDomainTypeOld (.bytes [1, 2, 3]) = .panic := by decide
example : decodeSubnets (.bytes (5 :: List.replicate 15 0)) = .ok ([1, 0, 1] ++ List.replicate 125 0) := by decide

/-! ## metric labels (monitoring/metricsreporter; repaired by 14cd45e91)

The validator labels Prometheus vectors with the round, the QBFT / SSV message type and the number of signers of a message
BEFORE the message is checked; a vector keeps one series per distinct label value for ever. -/

/-- tie: every label taken from a peer's message goes through a helper with a bounded range — rounds above 16 and signer
    counts above 13 share one label, unknown message types share one label; no number is formatted at the call sites -/
theorem C08_tie_metric_labels_bounded :
    Gen.calls_val_metrics_MessageRejected = ["roundLabel"] ∧ Gen.calls_val_metrics_MessageIgnored = ["roundLabel"] ∧
    Gen.calls_val_metrics_MessageAccepted = ["roundLabel"] ∧ Gen.calls_val_metrics_SSVMessageType = ["ssvMsgTypeLabel"] ∧
    Gen.calls_val_metrics_ConsensusMsgType = ["qbftMsgTypeLabel", "signersLabel"] ∧
    Gen.has_val_roundLabel = [true, true] ∧ Gen.has_val_signersLabel = [true, true] ∧
    Gen.has_val_ssvMsgTypeLabel = [true] ∧ Gen.has_val_qbftMsgTypeLabel = [true] ∧
    Gen.val_maxRoundLabel = 16 ∧ Gen.val_maxSignersLabel = 13 := by decide

/-! ## size limits precede decoding -/

/-- an oversize message gets the same verdict whatever the decoder would have produced: the size guard decides first -/
theorem C08_size_limit_precedes_decoding (x : Ctx) (st : State) (i : Input) (b : Body)
    (h : Gen.val_maxMessageSize < i.dataLen) : check x st { i with body := b } = check x st i :=
  check_too_big_independent_of_body x st i b h

/-- non-vacuity of the main theorem's hypotheses and a non-trivial accepted instance -/
example : praterCfg.WF := ⟨by decide, by decide, by decide, by decide⟩
example : InputWF (inputAt round0Proposal 0) := by
  intro sh h; cases h; exact ⟨by decide, by decide⟩
example : (validate ctx0 State.empty (inputAt { round0Proposal with round := 1 } (1616508000 + 12 * 32000))).2 = .accept := by decide

end Ssv.Validation
