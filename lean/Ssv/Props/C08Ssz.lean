/-
C08 — byte-level part: the SSZ decoders that run on attacker-supplied bytes never panic.

Model: `Ssv/Model/Ssz.lean` — the fastssz-generated `UnmarshalSSZ` methods of ssv-spec v0.3.7 reached from
`commons.DecodeNetworkMsg`, `queue.DecodeSSVMessage` and the message validator, plus the fastssz helpers they call, with every
Go slice expression and fixed-width read an explicit partial operation whose failure is the outcome `panic`.

Statements are for EVERY byte string (any length, any content; no bound): the outcome is a decoded value or an error, never a
panic; a decoded value obeys the size limits the rest of the pipeline relies on; every well-formed message has an encoding that
decodes back to it (so the accepting path is reachable: the never-panics statements are not true for want of accepted inputs).
Helper lemmas: `Ssv/Proofs/Ssz.lean`, `Ssv/Proofs/SszRoundTrip.lean`.
-/
import Ssv.Proofs.Ssz
import Ssv.Proofs.SszRoundTrip
import Ssv.Gen.Ssz

namespace Ssv.Ssz

/-! ### never panics — for every byte string -/

/-- `types.SSVMessage.UnmarshalSSZ` (= `commons.DecodeNetworkMsg`) -/
theorem C08_ssz_SSVMessage_never_panics (buf : List Nat) : decodeSSV buf ≠ .panic := decodeSSV_np buf

/-- `qbft.Message.UnmarshalSSZ`, including both dynamic justification lists (`DecodeDynamicLength` + `UnmarshalDynamic`) -/
theorem C08_ssz_QbftMessage_never_panics (buf : List Nat) : decodeQMsg buf ≠ .panic := decodeQMsg_np buf

/-- `qbft.SignedMessage.UnmarshalSSZ` (body of a consensus `SSVMessage`, and every embedded justification) -/
theorem C08_ssz_SignedMessage_never_panics (buf : List Nat) : decodeSigned buf ≠ .panic := decodeSigned_np buf

/-- `types.PartialSignatureMessage.UnmarshalSSZ` -/
theorem C08_ssz_PartialSignatureMessage_never_panics (buf : List Nat) : decodePSig buf ≠ .panic := decodePSig_np buf

/-- `types.PartialSignatureMessages.UnmarshalSSZ` -/
theorem C08_ssz_PartialSignatureMessages_never_panics (buf : List Nat) : decodePSigs buf ≠ .panic := decodePSigs_np buf

/-- `types.SignedPartialSignatureMessage.UnmarshalSSZ` (body of a partial-signature `SSVMessage`) -/
theorem C08_ssz_SignedPartialSignatureMessage_never_panics (buf : List Nat) : decodeSPSig buf ≠ .panic :=
  decodeSPSig_np buf

/-- the list helper alone, for ANY source bytes, claimed length, start state of the loop and element decoder that does not
    panic itself: `src[offset:endOffset]` is always guarded by `offset ≤ endOffset ≤ len(src)` -/
theorem C08_ssz_dynamic_loop_never_panics {α : Type} (src : List Nat) (f : List Nat → Res α) (hf : ∀ b, f b ≠ .panic)
    (n offset : Nat) (dst : List Nat) : dynLoop src f n offset dst ≠ .panic := dynLoop_np src f hf n offset dst

/-- `UnmarshalDynamic` reads `ReadOffset(src)` and `src[4:]` WITHOUT a length check of its own: it is safe only because the
    length handed to it comes from `DecodeDynamicLength` on the same bytes (a non-zero length needs four bytes).  Both halves: -/
theorem C08_ssz_unmarshalDynamic_needs_its_length_guard :
    unmarshalDynamic (α := List Nat) [1, 2] 1 (justItem 65536) = .panic ∧
    ∀ (src : List Nat) (m n : Nat), decodeDynamicLength src m = .ok n →
      unmarshalDynamic src n (justItem 65536) ≠ .panic :=
  ⟨by decide, fun src _ n h => unmarshalDynamic_np src n _ (justItem_np _) (decodeDynamicLength_ok h).2⟩

/-! ### what a successful decode guarantees -/

/-- an accepted `SSVMessage`: 56-byte id, payload within the limit -/
theorem C08_ssz_SSVMessage_bounds {buf : List Nat} {m : SSVMessage} (h : decodeSSV buf = .ok m) :
    m.msgID.length = 56 ∧ m.data.length ≤ 6291829 := (decodeSSV_ok h).2

/-- an accepted `SignedMessage`: 96-byte signature, at most 13 signers, bounded full data, identifier ≤ 56 bytes, 32-byte root,
    at most 13 justifications per list, each at most 65536 bytes -/
theorem C08_ssz_SignedMessage_bounds {buf : List Nat} {m : SignedMsg} (h : decodeSigned buf = .ok m) :
    m.signature.length = 96 ∧ m.signers.length ≤ 13 ∧ m.fullData.length ≤ 5243144 ∧
    m.message.identifier.length ≤ 56 ∧ m.message.root.length = 32 ∧
    m.message.rcj.length ≤ 13 ∧ (∀ j ∈ m.message.rcj, j.length ≤ 65536) ∧
    m.message.pj.length ≤ 13 ∧ (∀ j ∈ m.message.pj, j.length ≤ 65536) := by
  obtain ⟨h1, h2, h3, hb⟩ := decodeSigned_ok h
  exact ⟨h1, h2, h3, hb.identifier, hb.root, hb.rcjCount, hb.rcjSize, hb.pjCount, hb.pjSize⟩

/-- an accepted `SignedPartialSignatureMessage`: 96-byte signature, at most 13 partial signatures -/
theorem C08_ssz_SignedPartialSignatureMessage_bounds {buf : List Nat} {m : SPSig} (h : decodeSPSig buf = .ok m) :
    m.signature.length = 96 ∧ m.message.messages.length ≤ 13 := decodeSPSig_ok h

/-! ### round trips: the accepting paths are reachable for every well-formed message -/

theorem C08_ssz_SSVMessage_roundtrip (m : SSVMessage) (hid : m.msgID.length = 56) (ht : m.msgType < 2 ^ 64)
    (hd : m.data.length ≤ 6291829) : decodeSSV (encodeSSV m) = .ok m := decode_encodeSSV m hid ht hd

theorem C08_ssz_SignedPartialSignatureMessage_roundtrip (m : SPSig) (h : m.WF) : decodeSPSig (encodeSPSig m) = .ok m :=
  decode_encodeSPSig h

/-- the dynamic list codec (offset table + items, as the generated `MarshalSSZTo` writes the justification lists): for EVERY list
    of byte lists within the limits, `DecodeDynamicLength` returns its length and `UnmarshalDynamic` returns the list itself -/
theorem C08_ssz_dynamic_list_roundtrip (items : List (List Nat)) (hn : items.length ≤ 13)
    (hM : ∀ x ∈ items, x.length ≤ 65536) :
    decodeDynamicLength (encodeDyn items) 13 = .ok items.length ∧
    unmarshalDynamic (encodeDyn items) items.length (justItem 65536) = .ok items := by
  have hsum : items.flatten.length ≤ items.length * 65536 := by
    clear hn
    induction items with
    | nil => simp
    | cons x r ih =>
      have := hM x (by simp)
      have := ih (fun y hy => hM y (by simp [hy]))
      simp only [List.flatten_cons, List.length_append, List.length_cons]; omega
  exact ⟨decodeDynamicLength_enc items 13 hn (by omega), unmarshalDynamic_enc items 65536 hM (by omega)⟩

/-- the whole `qbft.Message` (three offsets, identifier, two dynamic justification lists): every message within the limits of the
    generated code decodes back from its encoding -/
theorem C08_ssz_QbftMessage_roundtrip (m : QMsg) (h : m.WF) : decodeQMsg (encodeQMsg m) = .ok m := decode_encodeQMsg h

/-- the outer `qbft.SignedMessage` (signature, signer list, embedded message, full data): every message within the limits of the
    generated code decodes back from its encoding — with the three theorems above and below, every SSZ decoder of the validation
    path has a proved round trip -/
theorem C08_ssz_SignedMessage_roundtrip (m : SignedMsg) (h : m.WF) : decodeSigned (encodeSigned m) = .ok m :=
  decode_encodeSigned h

/-- non-vacuity: a message with an identifier, one round-change justification and two prepare justifications is well-formed -/
example : ({ msgType := 1, height := 2, round := 3, identifier := [7, 7], root := List.replicate 32 9, dataRound := 0,
             rcj := [[1, 2, 3]], pj := [[5], [6, 6]] } : QMsg).WF :=
  ⟨by decide, by decide, by decide, by decide, ⟨by decide, by decide, by decide, by decide, by decide, by decide⟩⟩

/-- non-vacuity of the well-formedness predicate: a message with two partial signatures -/
example : (⟨⟨1, 7, [⟨List.replicate 96 5, List.replicate 32 6, 3⟩, ⟨List.replicate 96 8, List.replicate 32 9, 4⟩]⟩,
    List.replicate 96 1, 2⟩ : SPSig).WF :=
  ⟨by decide, by decide, ⟨by decide, by decide, by decide, by
    intro x hx; simp at hx; rcases hx with hx | hx <;> subst hx <;> exact ⟨by decide, by decide, by decide⟩⟩⟩

/-- a concrete `qbft.Message` encoding with one round-change justification and two prepare justifications decodes (the dynamic
    list path is reachable), and the same bytes with the first inner offset pointing past the end are refused, not a panic -/
example :
    decodeQMsg ([1,0,0,0,0,0,0,0] ++ [2,0,0,0,0,0,0,0] ++ [3,0,0,0,0,0,0,0] ++ [76,0,0,0] ++ List.replicate 32 9 ++
      [0,0,0,0,0,0,0,0] ++ [78,0,0,0] ++ [85,0,0,0] ++ [7,7] ++ ([4,0,0,0] ++ [1,2,3]) ++ ([8,0,0,0] ++ [9,0,0,0] ++ [5] ++ [6,6]))
    = .ok { msgType := 1, height := 2, round := 3, identifier := [7,7], root := List.replicate 32 9, dataRound := 0,
            rcj := [[1,2,3]], pj := [[5],[6,6]] } := by decide

example :
    decodeQMsg ([1,0,0,0,0,0,0,0] ++ [2,0,0,0,0,0,0,0] ++ [3,0,0,0,0,0,0,0] ++ [76,0,0,0] ++ List.replicate 32 9 ++
      [0,0,0,0,0,0,0,0] ++ [78,0,0,0] ++ [85,0,0,0] ++ [7,7] ++ ([4,0,0,0] ++ [1,2,3]) ++ ([8,0,0,0] ++ [99,0,0,0] ++ [5] ++ [6,6]))
    = .err := by decide

/-! ### fidelity of the representation (bytes are `Nat`s in the model) -/

/-- on a genuine byte string (every element < 256) the decoded integer is a genuine uint64 — the `Nat`-valued fields of the model
    do not exceed what the Go fields can hold -/
theorem C08_ssz_decoded_integer_is_uint64 {buf : List Nat} {m : SSVMessage} (hb : ∀ b ∈ buf, b < 256)
    (h : decodeSSV buf = .ok m) : m.msgType < 2 ^ 64 := decodeSSV_msgType_lt hb h

/-- the encoder writes genuine bytes when the payload consists of bytes -/
theorem C08_ssz_encoder_writes_bytes (m : SSVMessage) (hid : ∀ b ∈ m.msgID, b < 256) (hd : ∀ b ∈ m.data, b < 256) :
    ∀ b ∈ encodeSSV m, b < 256 := encodeSSV_bytes m hid hd

/-! ### tie: the limits and slice bounds of the model are the literals of the generated code -/

def opToks : List String := ["<", ">", "==", "!=", "||", "++", "*", "+", "u!", "--", "/", "%"]

/-- the numeric literals of a literal/operator list, in order -/
def nums (l : List String) : List String := l.filter fun s => !decide (s ∈ opToks)

theorem C08_tie_ssz_SSVMessage :
    nums Gen.lits_ssz_SSVMessage = ["68", "0", "8", "8", "64", "64", "68", "68", "6291829", "0", "0"] ∧
    (ssvFixed, ssvMaxData) = (68, 6291829) := by decide

theorem C08_tie_ssz_QbftMessage :
    nums Gen.lits_ssz_QMessage =
      ["76", "0", "8", "8", "16", "16", "24", "24", "28", "76", "28", "60", "60", "68", "68", "72", "72", "76", "56", "0", "0",
       "13", "65536", "0", "0", "13", "65536", "0", "0"] ∧
    (qmsgFixed, maxIdentifier, maxJustifications, maxJustificationSize) = (76, 56, 13, 65536) ∧
    Gen.lits_ssz_QMessage.filter (fun s => decide (s ∈ ["||", ">", "<"])) =
      ["<", ">", "<", "||", ">", ">", "||", ">", ">", ">", ">", ">"] := by decide

theorem C08_tie_ssz_SignedMessage :
    nums Gen.lits_ssz_SignedMessage =
      ["108", "0", "0", "0", "96", "0", "96", "96", "100", "108", "100", "104", "104", "108", "8", "13", "0", "8", "1", "8",
       "5243144", "0", "0"] ∧
    (signedFixed, maxSigners, maxFullData) = (108, 13, 5243144) ∧
    Gen.lits_ssz_SignedMessage.filter (fun s => decide (s ∈ ["||", ">", "<"])) =
      ["<", ">", "<", "||", ">", ">", "||", ">", ">", "<", ">"] := by decide

theorem C08_tie_ssz_PartialSignatures :
    nums Gen.lits_ssz_PSig = ["136", "0", "0", "0", "96", "0", "96", "96", "128", "128", "136"] ∧
    nums Gen.lits_ssz_PSigs = ["20", "0", "8", "8", "16", "16", "20", "20", "136", "13", "0", "136", "1", "136"] ∧
    nums Gen.lits_ssz_SPSig = ["108", "0", "4", "108", "0", "0", "4", "100", "4", "100", "100", "108"] ∧
    (psigSize, psigsFixed, maxPSigs, spsigFixed) = (136, 20, 13, 108) := by decide

/-- the fastssz helpers the model was written against (guards and their order) -/
theorem C08_tie_ssz_helpers :
    Gen.lits_ssz_DecodeDynamicLength.filter (fun s => decide (s ∈ opToks ∨ s ∈ ["0", "1", "4"])) = ["==", "0", "0", "<", "4", "0", "4", "u!", "0", ">", "0"] ∧
    Gen.lits_ssz_UnmarshalDynamic.filter (fun s => decide (s ∈ opToks ∨ s ∈ ["0", "1", "4"])) = ["==", "0", "0", "4", "!=", "1", "!=", ">", ">", "!=", "++", "==", "1", "--"] ∧
    Gen.lits_ssz_safeReadOffset.filter (fun s => decide (s ∈ opToks ∨ s ∈ ["0", "1", "4"])) = ["<", "4", "0", "4"] ∧
    Gen.lits_ssz_DivideInt2.filter (fun s => decide (s ∈ opToks ∨ s ∈ ["0", "1", "4"])) = ["u!", "0", ">", "0"] ∧
    Gen.lits_ssz_DivideInt = ["/", "==", "%", "0"] := by decide

end Ssv.Ssz
