/-
C13 — Every finalized-enough block's events are delivered once, in order.
Property theorems only (helper lemmas: Ssv/Proofs/LogStream.lean, model: Ssv/Model/LogStream.lean).

All statements quantify over EVERY chain (`Nat → List RawLog`), every batch size ≥ 1, every follow distance,
every start block and every fault script (`List Op`, no bound on its length).

How empty marker entries are treated: `fetchLogsInBatches` emits `BlockLogs{BlockNumber: toBlock}` (no logs) for a
batch without a non-removed log. The theorems say of EVERY delivered entry `e`, marker or not, that
`e.logs = nonRemoved chain e.block` — for a marker this reads "the block it names has no non-removed log" — and
that all delivered block numbers, markers included, are strictly increasing (the event handler rejects any
non-increasing block number, markers too). "Exactly one entry" is stated for the blocks that have non-removed
logs ("that emitted registry logs"); a block without such logs has no entry or one marker.
-/
import Ssv.Proofs.LogStream

namespace Ssv.LogStream

/-! ## ties to the regenerated facts -/

/-- the defaults the model imports are the ones of eth/executionclient/defaults.go -/
theorem C13_tie_constants :
    Gen.ls_DefaultHistoricalLogsBatchSize = 5000 ∧ 1 ≤ defaultBatch ∧
    Gen.ls_DefaultFollowDistance = 8 ∧ Gen.ls_defaultLogBuf = 8192 := by decide

/-- call structure the model was written against: StreamLogs calls streamLogsToChan, then (after `tries++`)
    Fatal, then reconnect; streamLogsToChan subscribes once and fetches through fetchLogsInBatches;
    fetchLogsInBatches filters through FilterLogs and packs through PackLogs; FetchHistoricalLogs reads the head
    and fetches through the same loop; the syncer feeds both streams to HandleBlockEventsStream;
    the node runs SyncHistory before SyncOngoing. -/
theorem C13_tie_callsites :
    Gen.calls_ls_StreamLogs = ["streamLogsToChan", "Fatal", "reconnect"] ∧
    Gen.calls_ls_streamLogsToChan = ["SubscribeNewHead", "Unsubscribe", "fetchLogsInBatches"] ∧
    Gen.calls_ls_fetchLogsInBatches = ["FilterLogs", "PackLogs"] ∧
    Gen.calls_ls_FetchHistoricalLogs = ["BlockNumber", "fetchLogsInBatches"] ∧
    Gen.calls_ls_SyncHistory = ["FetchHistoricalLogs", "HandleBlockEventsStream"] ∧
    Gen.calls_ls_SyncOngoing = ["StreamLogs", "HandleBlockEventsStream"] ∧
    Gen.calls_ls_setupEventHandling = ["SyncHistory", "SyncOngoing"] := by decide

/-- numeric literals and operators (log/error message strings are not among them) -/
def opTokens : List String := ["0", "1", "2", "3", "100", "u<-", "||", "&&", "==", "!=", "++", "--", ">", "<", ">=", "<=",
  "-", "+", "*", "/", "%", "+=", "-=", "*=", "/=", "<<", ">>"]

def allTrue (l : List Bool) : Bool := l.all id

/-- The statements the model of `StreamLogs` relies on occur in its body: the returned cursor is bound to
    `nextBlock`, the retry counter is incremented and compared with the literal 2 BEFORE the progress test
    `nextBlock > fromBlock` resets it, the client reconnects and continues from exactly `nextBlock`. -/
theorem C13_tie_StreamLogs :
    Gen.has_ls_StreamLogs.length = 10 ∧ allTrue Gen.has_ls_StreamLogs = true ∧
    Gen.lits_ls_StreamLogs.filter (fun s => decide (s ∈ opTokens))
      = ["0", "u<-", "u<-", "||", "==", "++", ">", "2", ">", "0"] ∧
    maxTries = 2 := by decide

/-- `streamLogsToChan`: every `return` statement the model knows yields `fromBlock` (subscribe failure, context
    done, closed, subscription error, fetch error), heads below the follow distance or below the cursor are skipped,
    the cursor advances by `block.BlockNumber + 1` per forwarded entry and to `toBlock + 1` after a complete fetch;
    its operators are exactly these (no further arithmetic on the cursor). -/
theorem C13_tie_streamLogsToChan :
    Gen.has_ls_streamLogsToChan.length = 16 ∧ allTrue Gen.has_ls_streamLogsToChan = true ∧
    Gen.lits_ls_streamLogsToChan.filter (fun s => decide (s ∈ opTokens))
      = ["!=", "u<-", "u<-", "u<-", "==", "u<-", "<", "-", "<", "+", "1", "u<-", "!=", "+", "1"] := by decide

/-- `fetchLogsInBatches`: loop header `fromBlock := startBlock; …; fromBlock += ec.logBatchSize`, the `toBlock`
    clamp, the FilterLogs range `[fromBlock, toBlock]`, error ⇒ `errors <- err`, removed-log filter, the empty-batch
    marker `BlockLogs{BlockNumber: toBlock}`, `PackLogs` otherwise; and its operator list is exactly the known one
    (a retry/resize of the batch would add operators or change the post statement). -/
theorem C13_tie_fetchLogsInBatches :
    Gen.has_ls_fetchLogsInBatches.length = 22 ∧ allTrue Gen.has_ls_fetchLogsInBatches = true ∧
    Gen.lits_ls_fetchLogsInBatches.filter (fun s => decide (s ∈ opTokens))
      = ["1", ">", "<=", "+=", "-", "+", "1", ">", "!=", "*", "/", "+", "-", "1", "+", "-", "1", "100", "u<-", "u<-", "0", "==", "0"] := by
  decide

/-- `FetchHistoricalLogs` (head − follow, the two nothing-to-sync tests, same batch loop) and `PackLogs`
    (sort key (BlockNumber, TxIndex), new entry when the block number changes, append otherwise) -/
theorem C13_tie_historical_pack :
    Gen.has_ls_FetchHistoricalLogs.length = 6 ∧ allTrue Gen.has_ls_FetchHistoricalLogs = true ∧
    Gen.lits_ls_FetchHistoricalLogs.filter (fun s => decide (s ∈ opTokens)) = ["!=", "<", "-", "<"] ∧
    Gen.has_ls_PackLogs.length = 7 ∧ allTrue Gen.has_ls_PackLogs = true ∧
    Gen.lits_ls_PackLogs.filter (fun s => decide (s ∈ opTokens))
      = ["==", "<", "<", "||", "==", "0", "!=", "-", "1", "-", "1", "-", "1"] := by decide

/-- the syncer, the node's hand-over (`SyncOngoing` from `lastProcessedBlock + 1`; unchanged `fromBlock` when there
    was nothing to sync; start at stored block + 1) and the handler's monotonicity check -/
theorem C13_tie_syncer_handover :
    Gen.has_ls_SyncHistory.length = 8 ∧ allTrue Gen.has_ls_SyncHistory = true ∧
    Gen.has_ls_SyncOngoing.length = 3 ∧ allTrue Gen.has_ls_SyncOngoing = true ∧
    Gen.has_ls_setupEventHandling.length = 6 ∧ allTrue Gen.has_ls_setupEventHandling = true ∧
    Gen.has_ls_HandleBlockEventsStream.length = 2 ∧ allTrue Gen.has_ls_HandleBlockEventsStream = true ∧
    Gen.has_ls_processBlockEvents.length = 3 ∧ allTrue Gen.has_ls_processBlockEvents = true := by decide

/-! ## the property, stated once for any stream implementation -/

/-- C13 for a stream implementation `out` (delivered entries after a script) with `quiet` telling whether, after a
    script prefix, the client is alive and no fetch failure is armed:
    (1) delivered block numbers strictly increase;
    (2) every delivered entry lies at or above the requested start and carries exactly its block's non-removed
        logs, in the node's order (markers: the block has none);
    (3) for every head `n` that arrives while the client is alive and unharmed — whatever faults came before and
        whatever comes after — every block of `[start, n − follow]` that has non-removed logs has exactly one
        entry, carrying exactly these logs. -/
def C13_statement (quiet : Cfg → Nat → List Op → Bool) (out : Cfg → Nat → List Op → List BlockLogs) : Prop :=
  ∀ (cfg : Cfg) (start : Nat) (ops : List Op), 1 ≤ cfg.batch → ChainSorted cfg.chain →
    ((out cfg start ops).map (·.block)).Pairwise (· < ·) ∧
    (∀ e ∈ out cfg start ops, start ≤ e.block ∧ e.logs = nonRemoved cfg.chain e.block) ∧
    (∀ pre n post, ops = pre ++ Op.head n :: post → quiet cfg start pre = true → cfg.follow ≤ n →
      ∀ b, start ≤ b → b ≤ n - cfg.follow → nonRemoved cfg.chain b ≠ [] →
        (out cfg start ops).filter (fun e => e.block = b) = [⟨b, nonRemoved cfg.chain b⟩])

/-- the code as it is now -/
def newOut (cfg : Cfg) (start : Nat) (ops : List Op) : List BlockLogs := (streamLogs cfg start ops).out
def newQuiet (cfg : Cfg) (start : Nat) (ops : List Op) : Bool :=
  !(streamLogs cfg start ops).aborted && (streamLogs cfg start ops).armFetch.isNone

/-- the cursor handling before e592c25d6 -/
def oldOut (cfg : Cfg) (start : Nat) (ops : List Op) : List BlockLogs := (streamOldLogs cfg start ops).out
def oldQuiet (cfg : Cfg) (start : Nat) (ops : List Op) : Bool :=
  !(streamOldLogs cfg start ops).aborted && (streamOldLogs cfg start ops).armFetch.isNone

/-! ## the cursor invariant (induction over the script) -/

/-- After EVERY script: everything in `[start, cursor)` has been delivered exactly once, nothing at or above the
    cursor, in strictly increasing order; the cursor never moves back. Holds also when the client gave up
    (`aborted`): the delivered sequence is then simply frozen. -/
theorem C13_cursor_invariant (cfg : Cfg) (hb : 1 ≤ cfg.batch) (hc : ChainSorted cfg.chain)
    (start : Nat) (ops : List Op) :
    let s := streamLogs cfg start ops
    (s.out.map (·.block)).Pairwise (· < ·) ∧
    (∀ e ∈ s.out, start ≤ e.block ∧ e.block < s.cursor ∧ e.logs = nonRemoved cfg.chain e.block) ∧
    (∀ b, start ≤ b → b < s.cursor → nonRemoved cfg.chain b ≠ [] →
      s.out.filter (fun e => e.block = b) = [⟨b, nonRemoved cfg.chain b⟩]) ∧
    start ≤ s.cursor := by
  have h := (inv_run hb hc ops (inv_init cfg start)).1
  exact ⟨h.ok.incr, h.ok.sound, fun b h1 h2 h3 => h.ok.unique h1 h2 h3, h.ge⟩

/-- the cursor is monotone along the script -/
theorem C13_cursor_monotone (cfg : Cfg) (hb : 1 ≤ cfg.batch) (hc : ChainSorted cfg.chain)
    (start : Nat) (pre post : List Op) :
    (streamLogs cfg start pre).cursor ≤ (streamLogs cfg start (pre ++ post)).cursor := by
  unfold streamLogs
  rw [run_append]
  exact (inv_run hb hc post (inv_run hb hc pre (inv_init cfg start)).1).2

/-- a head that arrives while the client is alive with no fetch failure armed moves the cursor past
    `n − followDistance`, for good -/
theorem C13_head_caught_up (cfg : Cfg) (hb : 1 ≤ cfg.batch) (hc : ChainSorted cfg.chain)
    (start : Nat) (pre post : List Op) (n : Nat)
    (hq : newQuiet cfg start pre = true) (hf : cfg.follow ≤ n) :
    n - cfg.follow < (streamLogs cfg start (pre ++ Op.head n :: post)).cursor := by
  simp only [newQuiet, Bool.and_eq_true, Bool.not_eq_true', Option.isNone_iff_eq_none] at hq
  have h1 := step_head_reaches hb (s := streamLogs cfg start pre) (n := n) hq.1 hq.2 hf
  have h2 := C13_cursor_monotone cfg hb hc start (pre ++ [Op.head n]) post
  have h3 : streamLogs cfg start (pre ++ [Op.head n]) = (step cfg (streamLogs cfg start pre) (Op.head n)).1 := by
    simp [streamLogs, run]
  rw [h3] at h2
  have h4 : pre ++ Op.head n :: post = pre ++ [Op.head n] ++ post := by simp
  rw [h4]; omega

/-! ## C13 for the code as it is -/

/-- **C13** for every chain, batch size ≥ 1, follow distance, start block and every placement of faults. -/
theorem C13_stream_correct : C13_statement newQuiet newOut := by
  intro cfg start ops hb hc
  have hinv := C13_cursor_invariant cfg hb hc start ops
  simp only at hinv
  refine ⟨hinv.1, fun e he => ⟨(hinv.2.1 e he).1, (hinv.2.1 e he).2.2⟩, ?_⟩
  intro pre n post hops hq hf b h1 h2 hnr
  have hcur := C13_head_caught_up cfg hb hc start pre post n hq hf
  rw [← hops] at hcur
  exact hinv.2.2.1 b h1 (by omega) hnr

/-- non-vacuity of `C13_stream_correct`: a chain with logs in every third block (two in the same transaction in
    some), start 10, follow 2, batch 5, a fetch failure in the second batch, a dropped connection and a failed
    re-subscribe: hypotheses hold and the delivered sequence is the expected non-trivial one. -/
example :
    let cfg : Cfg := ⟨fun b => if b % 3 = 1 then [⟨b, 0, false⟩, ⟨b + 100, 0, b % 2 = 0⟩] else [], 5, 2⟩
    let ops := [Op.fetchErr 1, .head 25, .subFail, .connDrop, .head 30]
    1 ≤ cfg.batch ∧ newQuiet cfg 10 [Op.fetchErr 1, .head 25, .subFail, .connDrop] = true ∧ cfg.follow ≤ 30 ∧
    (newOut cfg 10 ops).map (fun e => (e.block, e.logs.map (·.id))) =
      [(10, [10]), (13, [13, 113]), (16, [16]), (19, [19, 119]), (22, [22]), (25, [25, 125]), (28, [28])] := by
  decide

/-! ## when the client gives up -/

/-- `StreamLogs` calls `logger.Fatal` on the third failure in a row without progress in between; in particular a
    script with at most two faults never makes it give up, so `newQuiet` then only asks that no fetch failure
    is still armed. (The safety parts (1), (2) and the cursor invariant need no such hypothesis.) -/
theorem C13_no_abort_upto_two_faults (cfg : Cfg) (hb : 1 ≤ cfg.batch) (start : Nat) (ops : List Op)
    (h : faults ops ≤ 2) : (streamLogs cfg start ops).aborted = false :=
  no_abort_of_faults_le_two hb start ops h

/-- … and the bound is sharp: three failures in a row make it give up. The counter is reset only when a
    *failing* call had delivered something and the counter was still ≤ 2 at that moment (`tries > 2` is tested
    before the reset): so a failing call with progress resets it (second line), but after two failures without
    progress the next failure is fatal however much was streamed in between (third line). None of this affects
    what has been delivered (C13_cursor_invariant holds in every case). -/
theorem C13_abort_on_third_failure :
    (streamLogs ⟨fun _ => [], 5, 2⟩ 10 [.subErr, .connDrop, .subErr]).aborted = true ∧
    (streamLogs ⟨fun _ => [], 5, 2⟩ 10 [.subErr, .fetchErr 1, .head 30, .connDrop, .subErr]).aborted = false ∧
    (streamLogs ⟨fun _ => [], 5, 2⟩ 10 [.subErr, .connDrop, .head 30, .head 40, .subErr]).aborted = true := by
  decide

/-! ## the cursor handling before the repair violates C13 -/

def witnessChain : Nat → List RawLog := fun b => if b % 3 = 1 then [⟨b, 0, false⟩] else []

theorem C13_witnessChain_sorted : ChainSorted witnessChain := by
  intro b; unfold witnessChain; split <;> simp

/-- Design-phase witness 1 (start 10, follow 2, batch 5, logs every third block): head 20, connection dropped
    between heads, head 30. The old `StreamLogs` continued at `cursor + 1`: block 19 — which has a log — is never
    delivered although head 30 was processed by a live, unharmed client. -/
theorem C13_old_cursor_refuted : ¬ C13_statement oldQuiet oldOut := by
  intro h
  have := (h ⟨witnessChain, 5, 2⟩ 10 [.head 20, .connDrop, .head 30] (by decide) C13_witnessChain_sorted).2.2
    [.head 20, .connDrop] 30 [] rfl (by decide) (by decide) 19 (by decide) (by decide) (by decide)
  revert this
  decide

/-- what the old code delivered on witness 1, and what the repaired code delivers -/
theorem C13_old_cursor_witness_trace :
    (oldOut ⟨witnessChain, 5, 2⟩ 10 [.head 20, .connDrop, .head 30]).map (·.block) = [10, 13, 16, 22, 25, 28] ∧
    (newOut ⟨witnessChain, 5, 2⟩ 10 [.head 20, .connDrop, .head 30]).map (·.block) = [10, 13, 16, 19, 22, 25, 28] := by
  decide

/-- Design-phase witness 2: the first `eth_getLogs` of a call fails. The old named result was still 0, so the
    stream restarted at block 1 — below the requested start 10 (clause (2) fails). -/
theorem C13_old_cursor_refuted_restart :
    ¬ (∀ e ∈ oldOut ⟨witnessChain, 5, 2⟩ 10 [.fetchErr 0, .head 20, .head 30], 10 ≤ e.block) ∧
    (oldOut ⟨witnessChain, 5, 2⟩ 10 [.fetchErr 0, .head 20, .head 30]).map (·.block)
      = [1, 4, 7, 10, 13, 16, 19, 22, 25, 28] ∧
    (newOut ⟨witnessChain, 5, 2⟩ 10 [.fetchErr 0, .head 20, .head 30]).map (·.block)
      = [10, 13, 16, 19, 22, 25, 28] := by
  decide

/-! ## historical fetch, the handler's check, and the hand-over to the stream -/

/-- The event handler (`processBlockEvents`: "same or higher block has already been processed") accepts every
    stream the client produces, provided its stored block is below the start. -/
theorem C13_handler_accepts (cfg : Cfg) (hb : 1 ≤ cfg.batch) (hc : ChainSorted cfg.chain)
    (start db : Nat) (hdb : db < start) (ops : List Op) :
    handleStream db 0 (streamLogs cfg start ops).out ≠ none := by
  have hinv := C13_cursor_invariant cfg hb hc start ops
  simp only at hinv
  rw [handleStream_incr _ db 0 hinv.1 (fun e he => by have := (hinv.2.1 e he).1; omega)]
  simp

/-- Hand-over as `setupEventHandling` does it: `SyncHistory(from)` succeeded with `lastProcessedBlock = last`
    while the head was `H`, then `SyncOngoing(last + 1)`. For EVERY fault script of the stream, the concatenation
    of both deliveries is strictly increasing, each entry carries exactly its block's non-removed logs, every
    block with non-removed logs in `[from, H − follow]` (covered by the historical part, even if `last` is smaller
    because the tail of the range was empty) or in `[from, cursor)` has exactly one entry, and the handler accepts
    the whole sequence. -/
theorem C13_history_then_stream (cfg : Cfg) (hb : 1 ≤ cfg.batch) (hc : ChainSorted cfg.chain)
    (db fromB : Nat) (hdb : db < fromB) (cur arm : Option Nat) (hist : List BlockLogs) (last : Nat)
    (hs : syncHistory cfg db fromB cur arm = .ok (hist, last)) (ops : List Op) :
    let s := streamLogs cfg (last + 1) ops
    let all := hist ++ s.out
    ∃ H, cur = some H ∧ cfg.follow ≤ H ∧ fromB ≤ H - cfg.follow ∧ fromB ≤ last ∧ last ≤ H - cfg.follow ∧
    (all.map (·.block)).Pairwise (· < ·) ∧
    (∀ e ∈ all, fromB ≤ e.block ∧ e.logs = nonRemoved cfg.chain e.block) ∧
    (∀ b, fromB ≤ b → (b < s.cursor ∨ b ≤ H - cfg.follow) → nonRemoved cfg.chain b ≠ [] →
      all.filter (fun e => e.block = b) = [⟨b, nonRemoved cfg.chain b⟩]) ∧
    handleStream db 0 all ≠ none := by
  obtain ⟨H, h1, h2, h3, h4, h5, h6, h7, h8⟩ := syncHistory_ok hb hc hs
  have hinv := (inv_run hb hc ops (inv_init cfg (last + 1)))
  have hall : EntriesOK cfg.chain fromB (streamLogs cfg (last + 1) ops).cursor
      (hist ++ (streamLogs cfg (last + 1) ops).out) :=
    h8.append hinv.1.ok (by omega) hinv.1.ge
  have hge : last + 1 ≤ (streamLogs cfg (last + 1) ops).cursor := hinv.1.ge
  -- every historical entry is at or below `last`, and `last ≤ H − follow`
  have hlast : (∀ e ∈ hist, e.block ≤ last) ∧ last ≤ H - cfg.follow := by
    rcases List.eq_nil_or_concat hist with rfl | ⟨es', e, rfl⟩
    · exact absurd rfl h5
    · rw [List.concat_eq_append] at h4 h6 ⊢
      rw [lastAfter_append_singleton] at h6
      subst h6
      exact ⟨le_last_of_incr h4.incr, by have := (h4.sound e (by simp)).2.1; omega⟩
  -- the blocks between `last` and `H − follow` carry no log (the historical fetch covered them)
  have hempty : ∀ b, last < b → b < H - cfg.follow + 1 → nonRemoved cfg.chain b = [] := by
    intro b hb1 hb2
    cases hnr : nonRemoved cfg.chain b with
    | nil => rfl
    | cons l ls =>
      obtain ⟨e, he, heb⟩ := h4.complete b (by omega) hb2 (by rw [hnr]; simp)
      have := hlast.1 e he; omega
  refine ⟨H, h1, h2, h3, h7, hlast.2, hall.incr, fun e he => ⟨(hall.sound e he).1, (hall.sound e he).2.2⟩, ?_, ?_⟩
  · intro b hb1 hb2 hnr
    by_cases hcur : b < (streamLogs cfg (last + 1) ops).cursor
    · exact hall.unique hb1 hcur hnr
    · have hb3 : b ≤ H - cfg.follow := by omega
      have hext := hall.extend (hi' := H - cfg.follow + 1) (by omega)
        (fun x hx1 hx2 => hempty x (by omega) hx2)
      exact hext.unique hb1 (by omega) hnr
  · rw [handleStream_incr _ db 0 hall.incr (fun e he => by have := (hall.sound e he).1; omega)]
    simp

/-- when there is nothing to sync the node streams from the unchanged `fromBlock` (C13_stream_correct applies
    as is); every other historical error is fatal for the node (no hand-over happens) -/
theorem C13_history_nothing_to_sync (cfg : Cfg) (db fromB : Nat) (cur arm : Option Nat) (ops : List Op)
    (hs : syncHistory cfg db fromB cur arm = .error .nothingToSync) :
    nodeSync cfg db fromB cur arm ops = .ok ([], streamLogs cfg fromB ops) := by
  simp [nodeSync, hs]

/-- `nodeSync` is exactly the hand-over the theorem above speaks of -/
theorem C13_history_handover_cursor (cfg : Cfg) (db fromB : Nat) (cur arm : Option Nat) (ops : List Op)
    (hist : List BlockLogs) (last : Nat) (hs : syncHistory cfg db fromB cur arm = .ok (hist, last)) :
    nodeSync cfg db fromB cur arm ops = .ok (hist, streamLogs cfg (last + 1) ops) := by
  simp [nodeSync, hs]

/-- non-vacuity: a historical sync whose last batch ends in empty blocks (`last = 22 < 23 = head − follow`),
    followed by a stream with a dropped connection -/
example :
    (match nodeSync ⟨witnessChain, 5, 2⟩ 0 10 (some 25) none [.head 27, .connDrop, .head 33] with
     | .ok (hist, s) => (hist.map BlockLogs.block, s.out.map BlockLogs.block, s.cursor)
     | .error _ => ([], [], 0)) = ([10, 13, 16, 19, 22], [25, 28, 31], 32) := by
  decide

end Ssv.LogStream
