/-
C17 — Round timeouts fire once per armed round, never early, never for stale rounds.
Property theorems only (helpers: Ssv/Proofs/Timer.lean; model: Ssv/Model/Timer.lean).

Everything is stated for ALL op lists (arbitrary arm spacing, re-arming before expiry, expiries in any
order the clock allows, cancellation, goroutines leaving through ctx.Done) — induction over the list.

PARTIAL (DESIGN §7.17): "never early" rests on the Go runtime: `Op.expire` is enabled only when
`now ≥ deadline` (a `time.Timer` does not fire early). The differential harness measures this on the
real timer; the theorems assume it. Also assumed: the round check and the callback call of
`waitForRound` are one atomic step.
-/
import Ssv.Proofs.Timer

namespace Ssv.Timer

/-! ## ties to the regenerated facts -/

/-- what the model relies on about the production allowances: positive (⇒ strict monotonicity) and small
    enough that the int64 nanosecond arithmetic of `RoundTimeout` cannot overflow for any round an
    instance can reach (`r ≤ 2^24`, slot time ≤ 2^40 ns ≈ 18 min) -/
theorem C17_tie_constants :
    0 < Gen.timer_QuickTimeout ∧ 0 < Gen.timer_SlowTimeout ∧
    ∀ role slotDur g r, r ≤ 2 ^ 24 → slotDur ≤ 2 ^ 40 → roundDuration (prodCfg role slotDur g) r < 2 ^ 63 := by
  refine ⟨by decide, by decide, ?_⟩
  intro role slotDur g r hr hs
  have h1 : Gen.timer_QuickTimeoutThreshold = 8 := rfl
  have h2 : Gen.timer_QuickTimeout = 2000000000 := rfl
  have h3 : Gen.timer_SlowTimeout = 120000000000 := rfl
  have hb : ∀ b, roleBase (prodCfg role slotDur g) = some b → b ≤ slotDur := by
    intro b hb
    unfold roleBase prodCfg at hb
    simp only at hb
    split at hb
    · cases hb; omega
    · split at hb
      · cases hb; omega
      · cases hb
  unfold roundDuration
  cases hrb : roleBase (prodCfg role slotDur g) with
  | none =>
    simp only [perRound, prodCfg, h1, h2, h3]
    split <;> omega
  | some b =>
    have := hb b hrb
    simp only [cumulative, prodCfg, h1, h2, h3]
    split <;> omega

/-- role switch coverage of `RoundTimeout`: the seven declared beacon roles fall into the modelled branches
    (attester, sync committee: slot/3; aggregator, contribution: slot/3*2; everything else: `default:`),
    and the source of `RoundTimeout` is the one the model was written against -/
theorem C17_tie_role_switch (d thr q s g : Nat) :
    roleBase ⟨Gen.timer_BNRoleAttester, d, thr, q, s, g⟩ = some (d / 3) ∧
    roleBase ⟨Gen.timer_BNRoleSyncCommittee, d, thr, q, s, g⟩ = some (d / 3) ∧
    roleBase ⟨Gen.timer_BNRoleAggregator, d, thr, q, s, g⟩ = some (d / 3 * 2) ∧
    roleBase ⟨Gen.timer_BNRoleSyncCommitteeContribution, d, thr, q, s, g⟩ = some (d / 3 * 2) ∧
    roleBase ⟨Gen.timer_BNRoleProposer, d, thr, q, s, g⟩ = none ∧
    roleBase ⟨Gen.timer_BNRoleValidatorRegistration, d, thr, q, s, g⟩ = none ∧
    roleBase ⟨Gen.timer_BNRoleVoluntaryExit, d, thr, q, s, g⟩ = none ∧
    Gen.src_timer_RoundTimeout = "07caec89cb3fee31" ∧
    Gen.calls_timer_RoundTimeout =
      ["SlotDurationSec", "SlotDurationSec", "Duration", "int", "Duration", "Duration", "int", "GetSlotStartTime", "Until", "Add"] := by
  refine ⟨?_, ?_, ?_, ?_, ?_, ?_, ?_, by decide, by decide⟩ <;>
    simp [roleBase, Gen.timer_BNRoleAttester, Gen.timer_BNRoleSyncCommittee, Gen.timer_BNRoleAggregator,
      Gen.timer_BNRoleSyncCommitteeContribution, Gen.timer_BNRoleProposer, Gen.timer_BNRoleValidatorRegistration,
      Gen.timer_BNRoleVoluntaryExit]

/-- `TimeoutForRound` stores the round atomically, computes the timeout, creates/resets a timer and spawns
    `waitForRound`, which selects on the context and the timer and compares `Round()` before calling `done` -/
theorem C17_tie_timer_calls :
    Gen.calls_timer_TimeoutForRound = ["StoreInt64", "RoundTimeout", "NewTimer", "Stop", "Reset", "waitForRound"] ∧
    Gen.calls_timer_waitForRound = ["WithCancel", "Done", "Round", "done"] ∧
    Gen.calls_timer_Round = ["LoadInt64"] := by decide

/-- guard order of `Controller.OnTimeout` (decode, find instance, [lower round], decided, then
    `UponRoundTimeout`, whose first guard is `CanProcessMessages`), reached from `handleEventMessage` -/
theorem C17_tie_onTimeout_guards :
    Gen.calls_timer_OnTimeout = ["GetTimeoutData", "FindInstance", "IsDecided", "UponRoundTimeout"] ∧
    Gen.src_timer_OnTimeout = "a99e33db61d236fa" ∧
    Gen.calls_timer_UponRoundTimeout = ["CanProcessMessages", "bumpToRound", "TimeoutForRound", "CreateRoundChange", "Broadcast"] ∧
    Gen.calls_timer_handleEventMessage = ["OnTimeout", "OnExecuteDuty"] ∧
    Gen.timer_FirstRound = 1 := by decide

/-- indirect facts the timer relies on: the beacon network handed to `roundtimer.New` is the configured one
    (`Network.GetNetwork` returns its receiver — incl. the LocalTestNet flag that selects the genesis time —, the operator
    passes `GetNetwork()` on and `SetupRunners` gives it to `roundtimer.New`, which stores it), the slot start is
    genesis + slot * slot duration, `OnTimeout` assigns the handler unconditionally, `waitForRound` reads it at expiry -/
theorem C17_tie_network_and_handler :
    Gen.has_timer_GetNetwork = [true] ∧ Gen.has_timer_MinGenesisTime = [true, true] ∧
    Gen.has_timer_GetSlotStartTime = [true, true, true] ∧ Gen.src_timer_New = "61d992453552569f" ∧
    Gen.calls_timer_opNewController = ["GetNetwork"] ∧ Gen.calls_timer_SetupRunners = ["roundtimer.New"] ∧
    Gen.has_timer_OnTimeout = [true] ∧ Gen.lits_timer_OnTimeout = [] ∧
    Gen.has_timer_waitForRound = [true, true, true] ∧ Gen.has_timer_RoundTimeout = [true, true, true, true] := by decide

/-! ## timer half -/

/-- a script with three armings (rounds 1,2,4), the second re-arms before the first expires; used for non-vacuity -/
def exCfg : Cfg := { role := Gen.timer_BNRoleAttester, slotDur := 300, quickThr := 2, quick := 50, slow := 200, genesis := 1000 }
def exOps : List Op :=
  [.register (some 0), .arm 0 1 1000, .arm 0 2 1010, .expire 0 1150, .expire 1 1200, .register (some 7), .arm 0 4 1210,
   .cancel, .expire 2 1700, .reap 2]

/-- (1) at most one callback per arming — for EVERY op list (no hypothesis on the rounds needed) -/
theorem C17_callback_at_most_once_per_arming (c : Cfg) (ops : List Op) :
    ((run c init ops).2.map (·.id)).Nodup :=
  (run_fires_ids c init ops (by simp [init]) (by simp [init])).1

example : (run exCfg init exOps).2 = [⟨1, 2, 1200, 0⟩, ⟨2, 4, 1700, 7⟩] := by decide

/-- (3) a callback never runs before the deadline of the arming it belongs to: every callback of a run is
    produced by one `expire` step of an arming `p` made earlier in the list, at a time `now ≥ p.deadline`
    (no hypothesis on the rounds needed; `expire` being disabled before the deadline is the Go-runtime assumption) -/
theorem C17_callback_not_before_deadline (c : Cfg) (ops : List Op) (f : Fire)
    (hf : f ∈ (run c init ops).2) :
    ∃ pre post now p, ops = pre ++ Op.expire p.id now :: post ∧ p ∈ armings c pre ∧
      f.id = p.id ∧ f.round = p.round ∧ f.time = now ∧ p.deadline ≤ now := by
  obtain ⟨pre, op, post, hops, hstep⟩ := fire_of_run c init ops f hf
  obtain ⟨id, now, p, k, rfl, hp, rfl, hdl, _, _, hfe, _⟩ := step_fire c _ op f hstep
  have hinv := inv_run c init pre inv_init
  refine ⟨pre, post, now, p, hops, ?_, by rw [hfe], by rw [hfe], by rw [hfe], hdl⟩
  rw [← run_init_log]
  exact hinv.pend_log p hp

/-- (2) only the most recently armed round ever fires; re-arming supersedes: when the timer is armed for
    strictly increasing rounds, every callback belongs to the LATEST arming made before it (and runs at or
    after that arming's deadline) -/
theorem C17_callback_only_latest (c : Cfg) (ops : List Op) (hinc : IncreasingArms ops) (f : Fire)
    (hf : f ∈ (run c init ops).2) :
    ∃ pre post now p, ops = pre ++ Op.expire p.id now :: post ∧ (armings c pre).getLast? = some p ∧
      f.id = p.id ∧ f.round = p.round ∧ f.time = now ∧ p.deadline ≤ now := by
  obtain ⟨pre, op, post, hops, hstep⟩ := fire_of_run c init ops f hf
  obtain ⟨id, now, p, k, rfl, hp, rfl, hdl, harm, _, hfe, _⟩ := step_fire c _ op f hstep
  have hinv := inv_run c init pre inv_init
  have hlog := run_init_log c pre
  have hpl : p ∈ armings c pre := by rw [← hlog]; exact hinv.pend_log p hp
  refine ⟨pre, post, now, p, hops, ?_, by rw [hfe], by rw [hfe], by rw [hfe], hdl⟩
  -- the log is non-empty, its last element q has the armed round, which is p's round; rounds are injective
  cases hlast : (armings c pre).getLast? with
  | none =>
    rw [List.getLast?_eq_none_iff] at hlast
    rw [hlast] at hpl
    cases hpl
  | some q =>
    have hq : q ∈ armings c pre := List.mem_of_getLast? hlast
    have harmed := hinv.armed_last q (by rw [hlog]; exact hlast)
    have hincpre : IncreasingArms pre := by
      subst hops
      exact IncreasingArms.left hinc
    have hpw : ((armings c pre).map (·.round)).Pairwise (· < ·) := by
      unfold armings; rw [armingsFrom_rounds]; exact hincpre
    have : p = q := round_inj_of_pairwise _ hpw p hpl q hq (by omega)
    rw [this]

example : IncreasingArms exOps := by decide

/-- under the same hypothesis a round is called back at most once in the whole run -/
theorem C17_callback_at_most_once_per_round (c : Cfg) (ops : List Op) (hinc : IncreasingArms ops) :
    ((run c init ops).2.map (·.round)).Nodup := by
  have hid := C17_callback_at_most_once_per_arming c ops
  have hpw : ((armings c ops).map (·.round)).Pairwise (· < ·) := by
    unfold armings; rw [armingsFrom_rounds]; exact hinc
  -- the id of a callback is determined by its round
  have key : ∀ f ∈ (run c init ops).2, ∀ g ∈ (run c init ops).2, f.round = g.round → f.id = g.id := by
    intro f hf g hg hr
    obtain ⟨pre, post, now, p, hops, hp, hfi, hfr, _, _⟩ := C17_callback_not_before_deadline c ops f hf
    obtain ⟨pre', post', now', p', hops', hp', hgi, hgr, _, _⟩ := C17_callback_not_before_deadline c ops g hg
    have hmem : ∀ (pre post : List Op) (x : Op) (p : Pend), ops = pre ++ x :: post → p ∈ armings c pre → p ∈ armings c ops := by
      intro pre post x p h hp
      rw [h]; unfold armings at *; rw [armingsFrom_append]
      exact List.mem_append_left _ hp
    have h1 := hmem _ _ _ p hops hp
    have h2 := hmem _ _ _ p' hops' hp'
    have : p = p' := round_inj_of_pairwise _ hpw p h1 p' h2 (by rw [← hfr, ← hgr]; exact hr)
    rw [hfi, hgi, this]
  generalize (run c init ops).2 = fs at hid key
  induction fs with
  | nil => simp
  | cons a l ih =>
    simp only [List.map_cons, List.nodup_cons, List.mem_map, not_exists, not_and] at hid ⊢
    refine ⟨?_, ih hid.2 (fun f hf g hg => key f (List.mem_cons_of_mem _ hf) g (List.mem_cons_of_mem _ hg))⟩
    intro x hx hxr
    exact hid.1 x hx (key x (List.mem_cons_of_mem _ hx) a List.mem_cons_self hxr)

/-- (6) the callback invoked is the one registered: every callback goes to the handler passed to the LAST
    `OnTimeout` call made before the expiry (re-registration replaces the earlier handler — `registerTimeoutHandler`
    does this for every new height); with no handler in force (`nil`) there is no callback -/
theorem C17_callback_to_latest_handler (c : Cfg) (ops : List Op) (f : Fire) (hf : f ∈ (run c init ops).2) :
    ∃ pre post id now, ops = pre ++ Op.expire id now :: post ∧ f.id = id ∧ f.time = now ∧
      handlerAfter none pre = some f.handler := by
  obtain ⟨pre, op, post, hops, hstep⟩ := fire_of_run c init ops f hf
  obtain ⟨id, now, p, k, rfl, _, rfl, _, _, hk, hfe, _⟩ := step_fire c _ op f hstep
  refine ⟨pre, post, p.id, now, hops, by rw [hfe], by rw [hfe], ?_⟩
  have := run_handler c init pre
  rw [hk] at this
  rw [hfe]
  exact this.symm

example : handlerAfter none [.register (some 0), .arm 0 1 1000, .register (some 7)] = some 7 := by decide

/-- without a registered handler nothing is ever called back -/
theorem C17_no_handler_no_callback (c : Cfg) (ops : List Op) (hno : ∀ k, Op.register (some k) ∉ ops) :
    (run c init ops).2 = [] := by
  cases hfs : (run c init ops).2 with
  | nil => rfl
  | cons f fs =>
    exfalso
    obtain ⟨pre, post, id, now, hops, _, _, hh⟩ := C17_callback_to_latest_handler c ops f (by rw [hfs]; exact List.mem_cons_self)
    have hpre : ∀ k, Op.register (some k) ∉ pre := fun k hk => hno k (by rw [hops]; exact List.mem_append_left _ hk)
    have : ∀ (l : List Op), (∀ k, Op.register (some k) ∉ l) → handlerAfter none l = none := by
      intro l
      induction l with
      | nil => intro _; rfl
      | cons x xs ih =>
        intro hx
        have hxs : ∀ k, Op.register (some k) ∉ xs := fun k hk => hx k (List.mem_cons_of_mem _ hk)
        cases x with
        | register k =>
          cases k with
          | none => simpa [handlerAfter] using ih hxs
          | some k => exact absurd List.mem_cons_self (hx k)
        | arm _ _ _ => simpa [handlerAfter] using ih hxs
        | expire _ _ => simpa [handlerAfter] using ih hxs
        | cancel => simpa [handlerAfter] using ih hxs
        | reap _ => simpa [handlerAfter] using ih hxs
    rw [this pre hpre] at hh
    cases hh

/-- (7) liveness side of the timer model, under "the runtime eventually delivers the timer" (= the `expire` op
    eventually occurs; that fairness of the Go runtime cannot be a theorem about `step`): an arming that has been
    neither superseded (no later `arm`), nor already expired/left (`expire`/`reap` of that arming), with handler `k`
    in force, IS called back — exactly for its round, to handler `k` — by the first `expire` of it at any
    `now ≥ deadline`; in particular an arming whose deadline has already passed when it is made (`deadline ≤ t`,
    a late duty start) is called back at once (`now := t`). Cancellation of the context in between does not disable
    the expiry (it only additionally enables `reap`). With (1) this gives exactly one callback. -/
theorem C17_every_arming_is_called_back_or_superseded (c : Cfg) (ops rest : List Op) (h r t k now : Nat)
    (hk : handlerAfter none ops = some k)
    (hq : ∀ op ∈ rest, quietFor (armings c ops).length op = true)
    (hnow : deadline c h r t ≤ now) :
    (step c (run c init (ops ++ Op.arm h r t :: rest)).1 (Op.expire (armings c ops).length now)).2
      = some { id := (armings c ops).length, round := r, time := now, handler := k } := by
  have hlog := run_log c init ops
  have hn : (run c init ops).1.nextId = (armings c ops).length := by
    have := hlog.2; simpa [init, armings] using this
  have hh : (run c init ops).1.handler = some k := by rw [run_handler]; exact hk
  -- state right after the arming
  let p : Pend := { id := (armings c ops).length, round := r, deadline := deadline c h r t }
  have hw0 : Waiting (step c (run c init ops).1 (Op.arm h r t)).1 p k := by
    refine ⟨?_, rfl, ?_⟩
    · simp [step, hn, p]
    · simpa [step] using hh
  have hrun : (run c init (ops ++ Op.arm h r t :: rest)).1
      = (run c (step c (run c init ops).1 (Op.arm h r t)).1 rest).1 := by
    rw [run_append]; simp [run]
  have hw := waiting_run c _ p k rest hw0 hq
  have hinv : Inv (run c init (ops ++ Op.arm h r t :: rest)).1 := inv_run c init _ inv_init
  rw [← hrun] at hw
  have hfind := find_of_nodup_ids _ p hw.mem hinv.pend_ids
  have hnl : ¬ now < p.deadline := by simp [p]; omega
  simp only [step]
  rw [show (armings c ops).length = p.id from rfl, hfind]
  simp only [hnl, if_false]
  rw [hw.armed, hw.handler]
  simp [p]

/-- a late duty start: round 3's deadline (1400) has long passed when it is armed at 2000, another goroutine leaves,
    the context is cancelled — the arming is still called back by its expiry at 2000 -/
example : (step exCfg (run exCfg init ([.register (some 5), .arm 0 1 1000] ++ Op.arm 0 3 2000 :: [.expire 0 2000, .cancel])).1
    (.expire 1 2000)).2 = some ⟨1, 3, 2000, 5⟩ := by decide

/-! ### what the quantifier "armed for strictly increasing rounds" excludes
The real timer never stops an earlier `time.Timer`; it only compares round VALUES at expiry. Outside the
quantifier the statements above are false of the model (and of the code: the harness runs these points on the
real timer and the model predicts what it observes). -/

/-- full form of (2) without the hypothesis on the rounds -/
def C17_callback_only_latest_any_rounds_full : Prop :=
  ∀ (c : Cfg) (ops : List Op) (f : Fire), f ∈ (run c init ops).2 →
    ∃ pre post now p, ops = pre ++ Op.expire p.id now :: post ∧ (armings c pre).getLast? = some p ∧
      f.id = p.id ∧ f.round = p.round ∧ f.time = now ∧ p.deadline ≤ now

/-- witness: round 1 armed, superseded by round 2, then round 1 armed AGAIN (proposer role: deadline = now + quick):
    the first arming's timer expires while the armed round is 1 again, so the callback runs for an arming that is
    not the latest one — 40 time units before the latest arming's deadline -/
def exRearmOps : List Op := [.register (some 0), .arm 0 1 0, .arm 0 2 10, .arm 0 1 40, .expire 0 50]
def exRearmCfg : Cfg := { exCfg with role := Gen.timer_BNRoleProposer }

theorem C17_callback_only_latest_any_rounds_full_refuted : ¬ C17_callback_only_latest_any_rounds_full := by
  intro h
  have hf : (⟨0, 1, 50, 0⟩ : Fire) ∈ (run exRearmCfg init exRearmOps).2 := by decide
  obtain ⟨pre, post, now, p, hops, hlast, hfi, _, _, _⟩ := h exRearmCfg exRearmOps ⟨0, 1, 50, 0⟩ hf
  have hid : p.id = 0 := hfi.symm
  -- the only `expire` of the list is its last element, so `pre` is register + the three armings, whose last has id 2
  unfold exRearmOps at hops
  match pre, hops with
  | [], hops => simp at hops
  | [_], hops => simp at hops
  | [_, _], hops => simp at hops
  | [_, _, _], hops => simp at hops
  | [a, b, d, e], hops =>
    simp only [List.cons_append, List.nil_append, List.cons.injEq] at hops
    obtain ⟨rfl, rfl, rfl, rfl, _, _⟩ := hops
    have : (armings exRearmCfg [Op.register (some 0), Op.arm 0 1 0, Op.arm 0 2 10, Op.arm 0 1 40]).getLast?
        = some ⟨2, 1, 90⟩ := by decide
    rw [this] at hlast
    cases hlast
    simp at hid
  | _ :: _ :: _ :: _ :: _ :: rest, hops =>
    have := congrArg List.length hops
    simp at this

/-- the same round armed twice gives two callbacks for that round (one per arming — (1) still holds) -/
def C17_callback_at_most_once_per_round_any_rounds_full : Prop :=
  ∀ (c : Cfg) (ops : List Op), ((run c init ops).2.map (·.round)).Nodup

theorem C17_callback_at_most_once_per_round_any_rounds_full_refuted :
    ¬ C17_callback_at_most_once_per_round_any_rounds_full := by
  intro h
  have := h exCfg [.register (some 0), .arm 0 1 1000, .arm 0 1 1010, .expire 0 1150, .expire 1 1150]
  revert this
  decide

/-! ## deadline formula -/

/-- the additional timeout is the cumulative per-round allowance: Σ_{i=1..r} perRound i -/
theorem C17_cumulative_is_sum (c : Cfg) (r : Nat) :
    cumulative c 0 = 0 ∧ cumulative c (r + 1) = cumulative c r + perRound c (r + 1) := by
  constructor
  · simp [cumulative]
  · unfold cumulative perRound
    by_cases h1 : r + 1 ≤ c.quickThr
    · have h2 : r ≤ c.quickThr := by omega
      simp only [h1, h2, if_true]
      exact Nat.succ_mul r c.quick
    · by_cases h2 : r ≤ c.quickThr
      · have : r = c.quickThr := by omega
        subst this
        simp [h1]
      · simp only [h1, h2, if_false]
        have : r + 1 - c.quickThr = (r - c.quickThr) + 1 := by omega
        rw [this, Nat.succ_mul]
        omega

/-- the cumulative allowance is strictly increasing in the round when both allowances are positive -/
theorem C17_cumulative_strictMono (c : Cfg) (hq : 0 < c.quick) (hs : 0 < c.slow) (r r' : Nat) (h : r < r') :
    cumulative c r < cumulative c r' := by
  induction r' with
  | zero => omega
  | succ n ih =>
    have hstep := (C17_cumulative_is_sum c n).2
    have hpos : 0 < perRound c (n + 1) := by unfold perRound; split <;> assumption
    by_cases hn : r < n
    · have := ih hn; omega
    · have : r = n := by omega
      subst this; omega

/-- (4) for the four slot-timed roles the deadline is
    slot start + role base + cumulative per-round allowance — independent of when the timer is armed —
    the role base is a third resp. two thirds of the slot, and the deadline is strictly monotone in the round -/
theorem C17_deadline_formula (c : Cfg) (h r now : Nat)
    (hrole : c.role = Gen.timer_BNRoleAttester ∨ c.role = Gen.timer_BNRoleSyncCommittee ∨
             c.role = Gen.timer_BNRoleAggregator ∨ c.role = Gen.timer_BNRoleSyncCommitteeContribution) :
    ∃ b, roleBase c = some b ∧
      (b = if c.role = Gen.timer_BNRoleAttester ∨ c.role = Gen.timer_BNRoleSyncCommittee then c.slotDur / 3 else c.slotDur / 3 * 2) ∧
      deadline c h r now = (c.genesis + h * c.slotDur) + b + cumulative c r ∧
      (0 < c.quick → 0 < c.slow → ∀ r', r < r' → deadline c h r now < deadline c h r' now) := by
  have hb : ∃ b, roleBase c = some b ∧
      (b = if c.role = Gen.timer_BNRoleAttester ∨ c.role = Gen.timer_BNRoleSyncCommittee then c.slotDur / 3 else c.slotDur / 3 * 2) := by
    unfold roleBase
    by_cases h1 : c.role = Gen.timer_BNRoleAttester ∨ c.role = Gen.timer_BNRoleSyncCommittee
    · exact ⟨c.slotDur / 3, by simp [h1], by simp [h1]⟩
    · have h2 : c.role = Gen.timer_BNRoleAggregator ∨ c.role = Gen.timer_BNRoleSyncCommitteeContribution := by
        rcases hrole with h | h | h | h
        · exact absurd (Or.inl h) h1
        · exact absurd (Or.inr h) h1
        · exact Or.inl h
        · exact Or.inr h
      exact ⟨c.slotDur / 3 * 2, by simp [h1, h2], by simp [h1]⟩
  obtain ⟨b, hb1, hb2⟩ := hb
  refine ⟨b, hb1, hb2, ?_, ?_⟩
  · simp [deadline, hb1, slotStart]; omega
  · intro hq hs r' hr
    have := C17_cumulative_strictMono c hq hs r r' hr
    simp [deadline, hb1]; omega

example : deadline exCfg 0 1 1000 = 1000 + 100 + 50 ∧ deadline exCfg 0 4 1210 = 1000 + 100 + (2 * 50 + 2 * 200) := by decide

/-- the production allowances are positive, so the monotonicity clause applies to `roundtimer.New` timers -/
theorem C17_deadline_monotone_production (role slotDur g h r r' now : Nat)
    (hrole : role = Gen.timer_BNRoleAttester ∨ role = Gen.timer_BNRoleSyncCommittee ∨
             role = Gen.timer_BNRoleAggregator ∨ role = Gen.timer_BNRoleSyncCommitteeContribution)
    (hr : r < r') :
    deadline (prodCfg role slotDur g) h r now < deadline (prodCfg role slotDur g) h r' now := by
  obtain ⟨_, _, _, _, hmono⟩ := C17_deadline_formula (prodCfg role slotDur g) h r now hrole
  exact hmono (by show 0 < Gen.timer_QuickTimeout; decide) (by show 0 < Gen.timer_SlowTimeout; decide) r' hr

/-- full form: the formula for EVERY role. False of the code: the `default:` branch of `RoundTimeout` (proposer,
    validator registration, voluntary exit) returns the per-round allowance relative to the CURRENT time. -/
def C17_deadline_formula_full : Prop :=
  ∀ (c : Cfg) (h r now : Nat), ∃ b, deadline c h r now = (c.genesis + h * c.slotDur) + b + cumulative c r

theorem C17_deadline_formula_full_refuted : ¬ C17_deadline_formula_full := by
  intro h
  -- proposer, round 1, armed at two different times: two different deadlines, but the formula's right-hand side
  -- can differ only in b; with round 2 > threshold 1 armed at time 0 the deadline (200) is below genesis + cumulative
  obtain ⟨b, hb⟩ := h { role := Gen.timer_BNRoleProposer, slotDur := 300, quickThr := 1, quick := 50, slow := 200, genesis := 1000 } 0 2 0
  revert hb
  simp [deadline, roleBase, perRound, cumulative]
  intro hb
  have : Gen.timer_BNRoleProposer = 2 := rfl
  simp [this, Gen.timer_BNRoleAttester, Gen.timer_BNRoleSyncCommittee, Gen.timer_BNRoleAggregator,
    Gen.timer_BNRoleSyncCommitteeContribution] at hb

/-- what the `default:` branch gives instead: arming time + the allowance of that single round
    (not cumulative, not anchored at the slot start; weakly monotone in the round when quick ≤ slow) -/
theorem C17_deadline_formula_partial (c : Cfg) (h r now : Nat)
    (hrole : ¬ (c.role = Gen.timer_BNRoleAttester ∨ c.role = Gen.timer_BNRoleSyncCommittee ∨
               c.role = Gen.timer_BNRoleAggregator ∨ c.role = Gen.timer_BNRoleSyncCommitteeContribution)) :
    deadline c h r now = now + (if r ≤ c.quickThr then c.quick else c.slow) ∧
    (c.quick ≤ c.slow → ∀ r', r ≤ r' → deadline c h r now ≤ deadline c h r' now) := by
  have hb : roleBase c = none := by
    unfold roleBase
    have h1 : ¬ (c.role = Gen.timer_BNRoleAttester ∨ c.role = Gen.timer_BNRoleSyncCommittee) := fun h => hrole (by
      rcases h with h | h
      · exact Or.inl h
      · exact Or.inr (Or.inl h))
    have h2 : ¬ (c.role = Gen.timer_BNRoleAggregator ∨ c.role = Gen.timer_BNRoleSyncCommitteeContribution) := fun h => hrole (by
      rcases h with h | h
      · exact Or.inr (Or.inr (Or.inl h))
      · exact Or.inr (Or.inr (Or.inr h)))
    simp [h1, h2]
  constructor
  · simp [deadline, hb, perRound]
  · intro hqs r' hr
    simp only [deadline, hb, perRound]
    split <;> split <;> omega

/-- the value `RoundTimeout` returns is the distance from the current time to that deadline -/
theorem C17_roundTimeout_eq (c : Cfg) (h r now : Nat) :
    (now : Int) + roundTimeout c h r now = deadline c h r now := by
  unfold roundTimeout; omega

/-! ## controller half: stale / duplicate timeout events -/

namespace Ctl

def exState : State :=
  { height := 7, cap := 2, cutoff := 15, running := some 7,
    insts := [⟨7, 3, false, false⟩, ⟨6, 2, true, true⟩] }

/-- (5) a timeout event for an unknown height, for a lower round than the instance's, or for a decided instance
    changes nothing: controller and every instance unchanged, nothing broadcast, timer not re-armed -/
theorem C17_stale_timeout_noop (s : State) (h r : Nat)
    (hstale : find s.insts h = none ∨ ∃ i, find s.insts h = some i ∧ (r < i.round ∨ i.decided = true)) :
    (step s (.timeout h r)).1 = s ∧ (step s (.timeout h r)).2.bcast = 0 ∧ (step s (.timeout h r)).2.arms = [] := by
  rcases hstale with hn | ⟨i, hi, hr | hd⟩
  · simp [step, hn]
  · simp [step, hi, hr]
  · simp only [step, hi]
    split
    · simp
    · simp

example : find exState.insts 5 = none ∧ find exState.insts 7 = some ⟨7, 3, false, false⟩ ∧
    find exState.insts 6 = some ⟨6, 2, true, true⟩ := by decide
example : (step exState (.timeout 7 2)).2.tag = .oldRound ∧ (step exState (.timeout 6 2)).2.tag = .decided ∧
    (step exState (.timeout 5 1)).2.tag = .errNilInstance := by decide

/-- … the same for undecodable timeout data and for an instance that stopped processing
    (force-stopped by a newer instance, or at the cutoff round) -/
theorem C17_unprocessable_timeout_noop (s : State) (h r : Nat) :
    (step s .badTimeout).1 = s ∧ (step s .badTimeout).2.bcast = 0 ∧ (step s .badTimeout).2.arms = [] ∧
    (∀ i, find s.insts h = some i → canProcess s i = false →
      (step s (.timeout h r)).1 = s ∧ (step s (.timeout h r)).2.bcast = 0 ∧ (step s (.timeout h r)).2.arms = []) := by
  refine ⟨rfl, rfl, rfl, ?_⟩
  intro i hi hc
  simp only [step, hi]
  split
  · simp
  · split
    · simp
    · simp [hc]

/-- (5') "another height", for whole controller histories: after ANY sequence of StartNewInstance / decided
    messages (past, current, FUTURE heights — several stored instances at once, eviction by capacity) /
    timeout events, a timeout event for any height other than the one most recently started changes nothing —
    whatever its round, whether or not that height is stored. `Controller.OnTimeout` has no height check;
    this rests on the invariant `OthersQuiet` (every other stored instance is force-stopped or decided). -/
theorem C17_other_height_timeout_noop (cap cutoff : Nat) (ops : List Op) (h r : Nat)
    (hother : (run (init cap cutoff) ops).1.running ≠ some h) :
    let s := (run (init cap cutoff) ops).1
    (step s (.timeout h r)).1 = s ∧ (step s (.timeout h r)).2.bcast = 0 ∧ (step s (.timeout h r)).2.arms = [] := by
  intro s
  have hq : OthersQuiet s := othersQuiet_run _ ops (othersQuiet_init cap cutoff)
  cases hf : find s.insts h with
  | none => exact C17_stale_timeout_noop s h r (Or.inl hf)
  | some i =>
    obtain ⟨hmem, hh⟩ := find_mem _ _ _ hf
    rcases hq i hmem (by rw [hh]; exact hother) with hs | hd
    · exact (C17_unprocessable_timeout_noop s h r).2.2.2 i hf (by simp [canProcess, hs])
    · exact C17_stale_timeout_noop s h r (Or.inr ⟨i, hf, Or.inr hd⟩)

/-- the coordinator's scenario: 10 started, FUTURE height 12 decided from the network, 13 started — three stored
    instances, 10 is stopped although it is not the direct predecessor of 13 -/
example : (run (init 1024 15) [.start 10, .decide 12 1, .start 13]).1.insts =
    [⟨13, 1, false, false⟩, ⟨12, 1, true, true⟩, ⟨10, 1, false, true⟩] := by decide
example : (run (init 1024 15) [.start 10, .decide 12 1, .start 13]).1.running ≠ some 10 := by decide

/-- a timeout that is NOT stale (round ≥ the instance's round, undecided, still processing) broadcasts one
    round-change, bumps exactly that instance by one round and re-arms the timer for the new round, which is
    strictly higher than the instance's previous round (the arm sequence of an instance is increasing) -/
theorem C17_fresh_timeout_bumps (s : State) (h r : Nat) (i : Inst)
    (hi : find s.insts h = some i) (hr : i.round ≤ r) (hd : i.decided = false) (hc : canProcess s i = true) :
    (step s (.timeout h r)).1 = { s with insts := setInst s.insts h (fun j => { j with round := j.round + 1 }) } ∧
    (step s (.timeout h r)).2 = ⟨.ok, 1, [(h, i.round + 1)]⟩ := by
  have : ¬ r < i.round := by omega
  simp [step, hi, this, hd, hc]

example : (step exState (.timeout 7 3)).1.insts = [⟨7, 4, false, false⟩, ⟨6, 2, true, true⟩] := by decide

/-- duplicate delivery: once a timeout event has been processed, the same event again is stale -/
theorem C17_duplicate_timeout_noop (s : State) (h : Nat) (i : Inst)
    (hi : find s.insts h = some i) (hd : i.decided = false) (hc : canProcess s i = true) :
    let s1 := (step s (.timeout h i.round)).1
    (step s1 (.timeout h i.round)).1 = s1 ∧ (step s1 (.timeout h i.round)).2.bcast = 0 ∧
      (step s1 (.timeout h i.round)).2.arms = [] := by
  intro s1
  have h1 := (C17_fresh_timeout_bumps s h i.round i hi (Nat.le_refl _) hd hc).1
  have hfind : find s1.insts h = some { i with round := i.round + 1 } := by
    show find (step s (.timeout h i.round)).1.insts h = _
    rw [h1]
    exact find_setInst s.insts h _ i (fun _ => rfl) hi
  exact C17_stale_timeout_noop s1 h i.round (Or.inr ⟨_, hfind, Or.inl (by simp)⟩)

end Ctl

end Ssv.Timer
