/-
C01 — Consensus agreement for EVERY height of a multi-height run (lifts the "one height per system" scope of C01LayerB).

System: `Ssv/Model/Qbft/SystemM.lean` — one executable controller per operator running through many heights:
`start i h v` (`StartNewInstance` for ANY height: refused below the controller height or for a stored height, `forceStopOthers`,
the sorted 2-slot container ejects the lowest), `deliver i m` for messages of ANY height (decided messages for past / current /
future heights, future ones create a decided instance and bump `Height`; `UponExistingInstanceMsg` routes by height),
`timeout i h r`; same adversary and unforgeability as C01LayerB (per signed content, including the height).

RESULT: agreement holds per height, unconditionally (`C01_agreement_all_heights`): for every height h the projection of the
ghost trace to h satisfies Layer A's rules H0–H7 (`C01_heights_rules`). No scope restriction.

What had to be checked about instance eviction and RE-CREATION (Ssv/Proofs/QbftMulti*.lean):
* the container is always strictly sorted, holds at most 2 instances, none above the controller height, and — as a set of
  heights — the two highest heights ever added (`CInv`, `ins_cases`);
* an instance is ejected only when two HIGHER heights are stored (`OStep.evict` carries `Blocked`), and `Blocked h` is permanent
  (`C01_evicted_never_restored`): from then on `UponDecided` for h still validates the certificate, re-creates a decided
  instance, reports the decision AGAIN (`HStep.dropped`: ghost events G, D — the C03/C15 re-report), but `addNewInstance`
  drops the fresh instance at once; every other message for h is `instance not found`; `StartNewInstance(h)` is refused
  (`h < Height`). So a re-created instance never survives, never accepts a second proposal, never prepares or commits:
  H1 cannot break. The re-reported decision is backed by an authentic commit quorum of that height (H7), hence equals every
  other decision of the height.
* `forceStopOthers` only removes behaviour (`NodeInv.upd_forceStop`).
Light node, no runner compaction, as in C01LayerB.
-/
import Ssv.Proofs.QbftMultiExample

namespace Ssv.Qbft.M
open Ssv.Qbft Ssv.Qbft.B

variable {P : Params}

/-- all eight Layer-A rules hold of the height-h projection of the ghost trace, in every reachable state -/
theorem C01_heights_rules (hP : P.Valid) {σ : Sys P} (hr : Reachable σ) (h : Nat) : QAbs.Rules (ctxH hP σ h) :=
  (inv_of_reachable hP hr).rules h

/-- AGREEMENT PER HEIGHT for the executable multi-height system: any two correct operators that reported a decision for
    height h reported the same value — all committee sizes n = 3f+1, all heights, start values, schedules, Byzantine
    behaviours, including decisions re-reported after the instance was ejected from the container. -/
theorem C01_agreement_all_heights (hP : P.Valid) {σ : Sys P} (hr : Reachable σ) {h : Nat} {i j : Op P} {v v' : Nat}
    (hi : P.honest i = true) (hj : P.honest j = true) (hv : reportedAt σ h i v) (hv' : reportedAt σ h j v') : v = v' := by
  obtain ⟨r, hm⟩ := hv
  obtain ⟨r', hm'⟩ := hv'
  have hm1 : Ev.D i r v ∈ trP P h σ.trace := mem_trP.2 hm
  have hm2 : Ev.D j r' v' ∈ trP P h σ.trace := mem_trP.2 hm'
  obtain ⟨k, hk⟩ := List.getElem?_of_mem hm1
  obtain ⟨k', hk'⟩ := List.getElem?_of_mem hm2
  exact QAbs.agreement (c := ctxH hP σ h) (C01_heights_rules hP hr h)
    ((honest_iff (P.at h) (hP.at h) _ i).2 hi) ((honest_iff (P.at h) (hP.at h) _ j).2 hj) (at_D.2 hk) (at_D.2 hk')

/-- a stored instance that is decided has reported that decision -/
theorem C01_decided_reported_at (hP : P.Valid) {σ : Sys P} (hr : Reachable σ) {h : Nat} {i : Op P} {v : Nat}
    (hi : P.honest i = true) (hd : decidedStateAt σ h i v) : reportedAt σ h i v := by
  obtain ⟨s, hs, hdec, hval⟩ := hd
  have hn := (nodeSt_some hs).1 ((inv_of_reachable hP hr).node i hi h)
  obtain ⟨r, hr'⟩ := hn.dec hdec
  rw [hval] at hr'
  exact ⟨r, mem_trP.1 hr'⟩

/-- agreement on the stored instance states of a height -/
theorem C01_state_agreement_at (hP : P.Valid) {σ : Sys P} (hr : Reachable σ) {h : Nat} {i j : Op P} {v v' : Nat}
    (hi : P.honest i = true) (hj : P.honest j = true) (hv : decidedStateAt σ h i v) (hv' : decidedStateAt σ h j v') :
    v = v' :=
  C01_agreement_all_heights hP hr hi hj (C01_decided_reported_at hP hr hi hv) (C01_decided_reported_at hP hr hj hv')

/-- the container of every operator is strictly sorted, holds at most two instances, none above the controller height -/
theorem C01_container_inv (hP : P.Valid) {σ : Sys P} (hr : Reachable σ) (i : Op P) : CInv (σ.ctrl i) :=
  (inv_of_reachable hP hr).shape i

/-- eviction is final: once two higher heights are stored for operator i, no enabled step ever stores an instance for
    height h again (a re-created decided instance is dropped by `addNewInstance`; `StartNewInstance(h)` is refused) -/
theorem C01_evicted_never_restored (hP : P.Valid) {σ : Sys P} (hr : Reachable σ) (a : Action P)
    (hen : enabled σ a = true) (i : Op P) (h : Nat) (hb : Blocked h (σ.ctrl i)) :
    Blocked h ((step σ a).ctrl i) ∧ instAt h ((step σ a).ctrl i) = none :=
  blocked_step hP (inv_of_reachable hP hr) a hen i h hb

/-- non-vacuity, with eviction and re-creation: operators 2, 3 decided heights 1, 2, 5 (values 5, 7, 8); operator 1 accepted the
    height-1 proposal, its height-1 instance was ejected by the decided messages of heights 2 and 5 (container = [5, 2]), and
    the decided message of height 1 made it report height 1 again — value 5, the same as the others -/
example : exP.Valid ∧ Reachable exSys ∧ exP.honest 0 = true ∧ exP.honest 1 = true ∧
    reportedAt exSys 1 0 5 ∧ reportedAt exSys 1 1 5 ∧ reportedAt exSys 2 0 7 ∧ reportedAt exSys 5 0 8 ∧
    hts (exSys.ctrl 0) = [5, 2] ∧ instAt 1 (exSys.ctrl 0) = none ∧ Blocked 1 (exSys.ctrl 0) ∧
    (1, Ev.P 0 1 5) ∈ exSys.trace := by
  obtain ⟨ht0, ht1⟩ := ex_trace
  obtain ⟨hc1, hc2⟩ := ex_container
  have hmem : ∀ e, e ∈ exSys.trace.filter (fun x => x.2.node == (0 : Op exP)) → e ∈ exSys.trace :=
    fun e he => (List.mem_filter.1 he).1
  have hp1 : ∀ e : Ev (Op exP), e ∈ proj 1 exSys.trace → (1, e) ∈ exSys.trace := fun e he => mem_proj.1 he
  refine ⟨exP_valid, ex_reachable, by decide, by decide, ⟨1, hp1 _ (by rw [ht1]; decide)⟩, ⟨1, hp1 _ (by rw [ht1]; decide)⟩,
    ⟨1, hmem _ (by rw [ht0]; decide)⟩, ⟨1, hmem _ (by rw [ht0]; decide)⟩, hc1, hc2, ⟨5, 2, hc1, by decide⟩,
    hp1 _ (by rw [ht1]; decide)⟩

/-- the rules hold of every height of that state (instance of `C01_heights_rules`) -/
example (h : Nat) : QAbs.Rules (ctxH exP_valid exSys h) := C01_heights_rules exP_valid ex_reachable h

end Ssv.Qbft.M
