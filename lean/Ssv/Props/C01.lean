/-
C01 — Consensus agreement: honest operators never decide different values.

STATUS (layered, DESIGN §7.1 / Appendix E):
* Layer A (THIS FILE, proved): agreement follows from eight local trace rules H0–H7 about the events of correct operators
  (prepare-once, commit needs an authentic prepare quorum or a stale accepted proposal after a regress, justified
  proposals re-propose the highest prepared value, round-changes reflect the lock, decided/regress need an authentic commit
  quorum) — for ANY committee of n = 3f+1 with at most f Byzantine members, any trace length, any rounds; the rules
  tolerate the round regression by decided messages (`Controller.UponDecided: State.Round := msg.Round`).
* Layer B (NOT in this file; to be built on Ssv/Model/Qbft): each rule is an invariant of the executable node model
  (controller + instance, WITHOUT the runner's compaction). With compaction H1 fails — the implementation-side search of
  this property reproduces two correct operators reporting different values on the real compacting node (known finding).
* The executable model is tied to the code by engine `qbft` (multi-node simulation of real controllers, every node diffed).
-/
import Ssv.Proofs.QbftAbstract
import Ssv.Proofs.Kernels
import Ssv.Gen.Qbft
import Ssv.Model.Qbft.Instance

namespace Ssv.Qbft

/-- Layer A: in every trace satisfying the rules, any two decisions reported by correct operators carry the same value. -/
theorem C01_agreement_of_rules {N : Type} [Fintype N] [DecidableEq N] (c : QAbs.Ctx N) (R : QAbs.Rules c)
    {i j : N} {r v k r' v' k' : Nat} (hi : i ∉ c.byz) (hj : j ∉ c.byz)
    (hD : QAbs.At c k (.D i r v)) (hD' : QAbs.At c k' (.D j r' v')) : v = v' :=
  QAbs.agreement (c := c) R hi hj hD hD'

/-- non-vacuity: a concrete 4-member trace (member 3 Byzantine; members 0,1,2 prepare, commit and decide value 7 in round 1)
    satisfies all eight rules, and contains two decisions of different correct operators -/
example : QAbs.Rules QAbs.exCtx ∧ QAbs.At QAbs.exCtx 6 (.D 0 1 7) ∧ QAbs.At QAbs.exCtx 8 (.D 2 1 7) ∧
    (0 : Fin 4) ∉ QAbs.exCtx.byz ∧ (2 : Fin 4) ∉ QAbs.exCtx.byz :=
  ⟨QAbs.exRules, rfl, rfl, by decide, by decide⟩

/-- the quorum arithmetic the rules rely on (two quorums intersect in more than f members, a quorum and f+1 members
    intersect), from the kernel translated from `ComputeQuorumAndPartialQuorum` on every run, for every committee size the
    node accepts -/
theorem C01_tie_quorum_intersection (n : Int) (h : Gen.k_ValidCommitteeSize n = true) :
    let q := (Gen.k_ComputeQuorumAndPartialQuorum n).1
    let p := (Gen.k_ComputeQuorumAndPartialQuorum n).2
    let f := (n - 1) / 3
    2 * q - n ≥ f + 1 ∧ q + p > n ∧ q > f ∧ q ≤ n ∧ p = f + 1 := Kernels.quorum_intersection n h

/-- code anchors of the rules: the prepare quorum precedes the commit (H2), the first message per signer and round wins
    (H1), `UponDecided` validates the certificate before it touches the instance (H6), the commit quorum is counted per
    (round, root) over unique signers (H7) -/
theorem C01_tie_rule_anchors :
    Gen.calls_qbft_node_uponPrepare = ["HasQuorum", "AddFirstMsgForSignerAndRound", "HasQuorum", "CreateCommit", "Broadcast"] ∧
    Gen.calls_qbft_node_uponProposal = ["AddFirstMsgForSignerAndRound", "TimeoutForRound", "HashDataRoot", "CreatePrepare", "Broadcast"] ∧
    Gen.calls_qbft_UponDecided =
      ["ValidateDecided", "InstanceForHeight", "FindInstance", "addNewInstance", "NewInstance", "AddMsg", "addNewInstance", "IsDecided", "AddMsg",
       "LongestUniqueSignersForRoundAndRoot", "AddMsg", "FindInstance", "SaveInstance", "NewDecidedHandler"] ∧
    Gen.calls_qbft_node_commitQuorumForRoundRoot = ["LongestUniqueSignersForRoundAndRoot", "HasQuorum", "Share.HasQuorum"] ∧
    Gen.calls_qbft_node_isProposalJustification =
      ["valCheck", "validRoundChangeForData", "HasQuorum", "RoundChangePrepared", "HasQuorum", "highestPrepared", "HashDataRoot",
       "validSignedPrepareForHeightRoundAndRoot"] := by decide

/-- `getRoundChangeData` (the content of every round-change an operator creates: timeout, partial-quorum pull): ONE condition —
    `LastPreparedRound != NoRound && LastPreparedValue != nil` — separates the prepared answer (prepared round, H(value), value,
    whatever `getRoundChangeJustification` still finds) from the unprepared one; the only other tests are the two error checks. In
    particular nothing looks at the number of justifications: a prepared operator ALWAYS announces its lock (model:
    `createRoundChange`, which reads the prepare container only for the justification list — `createRoundChange_prepared`).
    Same literals / operators / calls as the reference. -/
theorem C01_tie_round_change_data :
    Gen.lits_qbft_node_getRoundChangeData =
      ["&&", "!=", "!=", "!=", "32", "\"could not get round change justification\"", "!=", "32", "\"could not hash input data\"", "32"] ∧
    Gen.lits_qbft_node_getRoundChangeData = Gen.lits_qbft_spec_getRoundChangeData ∧
    Gen.calls_qbft_node_getRoundChangeData = ["getRoundChangeJustification", "HashDataRoot"] ∧
    Gen.calls_qbft_node_getRoundChangeData = Gen.calls_qbft_spec_getRoundChangeData := by decide

/-- the model's round-change of a prepared operator carries the lock whatever the prepare container holds -/
theorem createRoundChange_prepared (cfg : Cfg) (s : State) (newRound : Nat)
    (h : (s.lastPreparedRound != noRound && s.lastPreparedValue != 0) = true) :
    (createRoundChange cfg s newRound).dataRound = s.lastPreparedRound ∧
    (createRoundChange cfg s newRound).fullData = s.lastPreparedValue ∧
    (createRoundChange cfg s newRound).root = hashData s.lastPreparedValue := by
  simp [createRoundChange, h, ownMsg]

end Ssv.Qbft
